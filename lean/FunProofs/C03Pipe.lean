import FunModel.FaultPipe

/-! Helper lemmas for C03 (ii): inversion of `FaultPipe.step`, list lemmas about worker vectors,
    and the inductive invariant of the fault process model. -/

namespace FunModel.FaultPipe
open FunModel

/-! ### inversion of `step` -/

theorem step_read {c : Cfg} {s s' : St} (h : step c s .read = some s') :
    ∃ x xs, s.src = x :: xs ∧ s.rd = none ∧ s.rdDone = false ∧ s.cancelled = false ∧
      s' = { s with src := xs, rd := some x } := by
  simp only [step] at h
  split at h
  · rename_i x xs h1 h2 h3 h4
    exact ⟨x, xs, h1, h2, h3, h4, by simpa using h.symm⟩
  · cases h

theorem step_handoff {c : Cfg} {s s' : St} {w : Nat} (h : step c s (.handoff w) = some s') :
    ∃ x, s.rd = some x ∧ s.ws[w]? = some .idle ∧ s' = { s with rd := none, ws := s.ws.set w (.holding x) } := by
  simp only [step] at h
  split at h
  · rename_i x h1 h2
    exact ⟨x, h1, h2, by simpa using h.symm⟩
  · cases h

theorem step_drop {c : Cfg} {s s' : St} (h : step c s .drop = some s') :
    ∃ x, s.rd = some x ∧ s.cancelled = true ∧ s.rdDone = false ∧
      s' = { s with rd := none, rdDone := true, log := .dropped x :: s.log } := by
  simp only [step] at h
  split at h
  · rename_i x h1 h2 h3
    exact ⟨x, h1, h2, h3, by simpa using h.symm⟩
  · cases h

theorem step_rdExit {c : Cfg} {s s' : St} (h : step c s .rdExit = some s') :
    s.rd = none ∧ s.rdDone = false ∧ (s.src = [] ∨ s.cancelled = true) ∧ s' = { s with rdDone := true } := by
  simp only [step] at h
  split at h
  · rename_i h1 h2
    split at h
    · rename_i h3
      refine ⟨h1, h2, ?_, by simpa using h.symm⟩
      simpa using h3
    · cases h
  · cases h

theorem step_start {c : Cfg} {s s' : St} {w : Nat} (h : step c s (.start w) = some s') :
    ∃ x, s.ws[w]? = some (.holding x) ∧
      s' = { s with ws := s.ws.set w (.busy x), log := .start x w :: s.log } := by
  simp only [step] at h
  split at h
  · rename_i x h1
    exact ⟨x, h1, by simpa using h.symm⟩
  · cases h

theorem step_finish {c : Cfg} (hr : c.recovers = true) {s s' : St} {w : Nat}
    (h : step c s (.finish w) = some s') :
    ∃ x, s.ws[w]? = some (.busy x) ∧
      s' = { s with ws := s.ws.set w (if c.cont x then .idle else .done),
                    cancelled := s.cancelled || c.cancels x,
                    coll := if c.reports x then x :: s.coll else s.coll,
                    log := .fin x w :: s.log } := by
  simp only [step] at h
  split at h
  · rename_i x h1
    simp only [hr, Bool.not_true, Bool.and_false, Bool.false_eq_true, ↓reduceIte] at h
    exact ⟨x, h1, by simpa using h.symm⟩
  · cases h

theorem step_exit {c : Cfg} {s s' : St} {w : Nat} (h : step c s (.exit w) = some s') :
    s.ws[w]? = some .idle ∧ (s.cancelled = true ∨ s.rdDone = true) ∧ s' = { s with ws := s.ws.set w .done } := by
  simp only [step] at h
  split at h
  · rename_i h1
    split at h
    · rename_i h3
      refine ⟨h1, ?_, by simpa using h.symm⟩
      simpa using h3
    · cases h
  · cases h

/-! ### worker vectors -/

theorem flatMap_set_perm (f : WSt → List Nat) :
    ∀ (ws : List WSt) (w : Nat) (a b : WSt), ws[w]? = some a →
      ((ws.set w b).flatMap f ++ f a).Perm (ws.flatMap f ++ f b)
  | [], w, a, b, h => by simp at h
  | v :: ws, 0, a, b, h => by
    simp at h; subst h
    simp only [List.set_cons_zero, List.flatMap_cons]
    -- f b ++ rest ++ f v  ~  f v ++ rest ++ f b
    have h1 : (f b ++ List.flatMap f ws ++ f v).Perm (f v ++ (f b ++ List.flatMap f ws)) := List.perm_append_comm
    have h2 : (f v ++ (f b ++ List.flatMap f ws)).Perm (f v ++ (List.flatMap f ws ++ f b)) :=
      List.Perm.append_left _ List.perm_append_comm
    simpa [List.append_assoc] using h1.trans h2
  | v :: ws, w + 1, a, b, h => by
    simp at h
    have ih := flatMap_set_perm f ws w a b h
    simp only [List.set_cons_succ, List.flatMap_cons, List.append_assoc]
    exact List.Perm.append_left _ ih

theorem flatMap_set_same (f : WSt → List Nat) (ws : List WSt) (w : Nat) (a b : WSt)
    (h : ws[w]? = some a) (hab : f a = f b) : ((ws.set w b).flatMap f).Perm (ws.flatMap f) := by
  have := flatMap_set_perm f ws w a b h
  rw [hab] at this
  exact (List.perm_append_right_iff _).mp this

theorem flatMap_set_length (f : WSt → List Nat) (ws : List WSt) (w : Nat) (a b : WSt)
    (h : ws[w]? = some a) :
    ((ws.set w b).flatMap f).length + (f a).length = (ws.flatMap f).length + (f b).length := by
  have := (flatMap_set_perm f ws w a b h).length_eq
  simpa using this

theorem heldItems_cons (v : WSt) (ws : List WSt) : heldItems (v :: ws) = heldOf v ++ heldItems ws := rfl
theorem busyItems_cons (v : WSt) (ws : List WSt) : busyItems (v :: ws) = busyOf v ++ busyItems ws := rfl

theorem heldOf_length_le (v : WSt) : (heldOf v).length ≤ 1 := by cases v <;> simp [heldOf]

theorem held_le_length : ∀ (ws : List WSt), (heldItems ws).length ≤ ws.length
  | [] => by simp [heldItems]
  | v :: ws => by
    have ih := held_le_length ws
    have := heldOf_length_le v
    rw [heldItems_cons, List.length_append, List.length_cons]; omega

theorem held_lt_length : ∀ (ws : List WSt) (w : Nat) (a : WSt), ws[w]? = some a → heldOf a = [] →
    (heldItems ws).length < ws.length
  | [], w, a, h, _ => by simp at h
  | v :: ws, 0, a, h, ha => by
    simp at h; subst h
    have := held_le_length ws
    rw [heldItems_cons, ha, List.nil_append, List.length_cons]; omega
  | v :: ws, w + 1, a, h, ha => by
    simp at h
    have ih := held_lt_length ws w a h ha
    have := heldOf_length_le v
    rw [heldItems_cons, List.length_append, List.length_cons]; omega

/-! ### simp facts about logs -/

@[simp] theorem starts_start (x w : Nat) (l : List Ev) : starts (.start x w :: l) = x :: starts l := rfl
@[simp] theorem starts_fin (x w : Nat) (l : List Ev) : starts (.fin x w :: l) = starts l := rfl
@[simp] theorem starts_dropped (x : Nat) (l : List Ev) : starts (.dropped x :: l) = starts l := rfl
@[simp] theorem fins_start (x w : Nat) (l : List Ev) : fins (.start x w :: l) = fins l := rfl
@[simp] theorem fins_fin (x w : Nat) (l : List Ev) : fins (.fin x w :: l) = x :: fins l := rfl
@[simp] theorem fins_dropped (x : Nat) (l : List Ev) : fins (.dropped x :: l) = fins l := rfl
@[simp] theorem dropped_start (x w : Nat) (l : List Ev) : droppedItems (.start x w :: l) = droppedItems l := rfl
@[simp] theorem dropped_fin (x w : Nat) (l : List Ev) : droppedItems (.fin x w :: l) = droppedItems l := rfl
@[simp] theorem dropped_dropped (x : Nat) (l : List Ev) : droppedItems (.dropped x :: l) = x :: droppedItems l := rfl
@[simp] theorem stoppedIn_start (c : Cfg) (w x w' : Nat) (l : List Ev) :
    stoppedIn c w (.start x w' :: l) = stoppedIn c w l := rfl
@[simp] theorem stoppedIn_fin (c : Cfg) (w y w' : Nat) (l : List Ev) :
    stoppedIn c w (.fin y w' :: l) = ((w' == w && !c.cont y) || stoppedIn c w l) := rfl
@[simp] theorem stoppedIn_dropped (c : Cfg) (w x : Nat) (l : List Ev) :
    stoppedIn c w (.dropped x :: l) = stoppedIn c w l := rfl
@[simp] theorem workerStops_start (c : Cfg) (x w : Nat) (l : List Ev) :
    workerStops c (.start x w :: l) = (!stoppedIn c w l && workerStops c l) := rfl
@[simp] theorem workerStops_fin (c : Cfg) (x w : Nat) (l : List Ev) :
    workerStops c (.fin x w :: l) = workerStops c l := rfl
@[simp] theorem workerStops_dropped (c : Cfg) (x : Nat) (l : List Ev) :
    workerStops c (.dropped x :: l) = workerStops c l := rfl
@[simp] theorem afterCount_start (c : Cfg) (x w : Nat) (l : List Ev) :
    afterCount c (.start x w :: l) = afterCount c l + (if l.any (isCancelFin c) then 1 else 0) := rfl
@[simp] theorem afterCount_fin (c : Cfg) (x w : Nat) (l : List Ev) :
    afterCount c (.fin x w :: l) = afterCount c l := rfl
@[simp] theorem afterCount_dropped (c : Cfg) (x : Nat) (l : List Ev) :
    afterCount c (.dropped x :: l) = afterCount c l := rfl
@[simp] theorem isCancelFin_start (c : Cfg) (x w : Nat) : isCancelFin c (.start x w) = false := rfl
@[simp] theorem isCancelFin_fin (c : Cfg) (x w : Nat) : isCancelFin c (.fin x w) = c.cancels x := rfl
@[simp] theorem isCancelFin_dropped (c : Cfg) (x : Nat) : isCancelFin c (.dropped x) = false := rfl

@[simp] theorem heldOf_idle : heldOf .idle = [] := rfl
@[simp] theorem heldOf_holding (x : Nat) : heldOf (.holding x) = [x] := rfl
@[simp] theorem heldOf_busy (x : Nat) : heldOf (.busy x) = [] := rfl
@[simp] theorem heldOf_done : heldOf .done = [] := rfl
@[simp] theorem busyOf_idle : busyOf .idle = [] := rfl
@[simp] theorem busyOf_holding (x : Nat) : busyOf (.holding x) = [] := rfl
@[simp] theorem busyOf_busy (x : Nat) : busyOf (.busy x) = [x] := rfl
@[simp] theorem busyOf_done : busyOf .done = [] := rfl

/-- a stopping result cancels unless it is the generator's plain EOF; a cancelling result stops -/
theorem cont_false_of_cancels {c : Cfg} {x : Nat} (h : c.cancels x = true) : c.cont x = false := by
  simp [Cfg.cancels, Cfg.stops] at h; exact h.2.1

/-- for a construct that cancels its group, "stopping" and "cancelling" finishes coincide -/
theorem isStopFin_eq_isCancelFin {c : Cfg} (hg : c.groupCancel = true) : isStopFin c = isCancelFin c := by
  funext e; cases e <;> simp [isStopFin, isCancelFin, Cfg.cancels, hg]

theorem afterStop_eq_afterCount {c : Cfg} (hg : c.groupCancel = true) : ∀ l, afterStop c l = afterCount c l
  | [] => rfl
  | .start x w :: l => by
    simp only [afterStop, afterCount, afterStop_eq_afterCount hg l, isStopFin_eq_isCancelFin hg]
  | .fin x w :: l => by simp only [afterStop, afterCount, afterStop_eq_afterCount hg l]
  | .dropped x :: l => by simp only [afterStop, afterCount, afterStop_eq_afterCount hg l]

/-! ### the invariant -/

structure Inv (c : Cfg) (input : List Nat) (s : St) : Prop where
  len : s.ws.length = c.n
  rdNone : s.rdDone = true → s.rd = none
  srcDone : s.rdDone = true → s.cancelled = false → s.src = []
  canc : s.cancelled = s.log.any (isCancelFin c)
  coll : s.coll = (fins s.log).filter c.reports
  cons : ∀ a, input.count a = s.src.count a + s.rd.toList.count a + (heldItems s.ws).count a +
            (busyItems s.ws).count a + (fins s.log).count a + (droppedItems s.log).count a
  sts : ∀ a, (starts s.log).count a = (busyItems s.ws).count a + (fins s.log).count a
  stopped : ∀ w, stoppedIn c w s.log = true → s.ws[w]? = some .done
  wstops : workerStops c s.log = true
  after0 : s.cancelled = false → afterCount c s.log = 0
  bound : s.cancelled = true → afterCount c s.log + (heldItems s.ws).length + s.rd.toList.length ≤ c.n
  nodrop : s.cancelled = false → droppedItems s.log = []
  esc : s.escaped = false

theorem held_replicate_idle (n : Nat) : heldItems (List.replicate n WSt.idle) = [] := by
  induction n with
  | zero => rfl
  | succ k ih => rw [List.replicate_succ, heldItems_cons, ih]; rfl

theorem busy_replicate_idle (n : Nat) : busyItems (List.replicate n WSt.idle) = [] := by
  induction n with
  | zero => rfl
  | succ k ih => rw [List.replicate_succ, busyItems_cons, ih]; rfl

theorem inv_init (c : Cfg) (input : List Nat) : Inv c input (init c input) := by
  refine ⟨by simp [init], by simp [init], by simp [init], by simp [init], by simp [init, fins], ?_, ?_, ?_,
    by simp [init, workerStops], by simp [init, afterCount], by simp [init], by simp [init, droppedItems], by simp [init]⟩
  · intro a; simp [init, held_replicate_idle, busy_replicate_idle, fins, droppedItems]
  · intro a; simp [init, busy_replicate_idle, fins, starts]
  · intro w h; simp [init, stoppedIn] at h

theorem held_set_count (ws : List WSt) (w : Nat) (a' b : WSt) (h : ws[w]? = some a') (a : Nat) :
    (heldItems (ws.set w b)).count a + (heldOf a').count a = (heldItems ws).count a + (heldOf b).count a := by
  have := (flatMap_set_perm heldOf ws w a' b h).count_eq a
  simpa [heldItems, List.count_append] using this

theorem busy_set_count (ws : List WSt) (w : Nat) (a' b : WSt) (h : ws[w]? = some a') (a : Nat) :
    (busyItems (ws.set w b)).count a + (busyOf a').count a = (busyItems ws).count a + (busyOf b).count a := by
  have := (flatMap_set_perm busyOf ws w a' b h).count_eq a
  simpa [busyItems, List.count_append] using this

theorem held_set_length (ws : List WSt) (w : Nat) (a' b : WSt) (h : ws[w]? = some a') :
    (heldItems (ws.set w b)).length + (heldOf a').length = (heldItems ws).length + (heldOf b).length :=
  flatMap_set_length heldOf ws w a' b h

/-- a worker that is `done` stays `done` under an update at an index holding something else -/
theorem get_set_done (ws : List WSt) (w v : Nat) (a b : WSt) (hw : ws[w]? = some a) (ha : a ≠ .done)
    (hv : ws[v]? = some .done) : (ws.set w b)[v]? = some .done := by
  by_cases hwv : w = v
  · subst hwv; rw [hw] at hv; cases hv; exact absurd rfl ha
  · rw [List.getElem?_set_ne hwv]; exact hv

theorem inv_read {c : Cfg} {input : List Nat} {s s' : St} (h : Inv c input s)
    (hs : step c s .read = some s') : Inv c input s' := by
  obtain ⟨x, xs, h1, h2, h3, h4, rfl⟩ := step_read hs
  refine ⟨h.len, by simp [h3], by simp [h3], h.canc, h.coll, ?_, h.sts, h.stopped, h.wstops, h.after0,
    by simp [h4], h.nodrop, h.esc⟩
  intro a
  have := h.cons a
  simp only [h1, h2, List.count_cons, Option.toList_none, List.count_nil, Option.toList_some] at this ⊢
  omega

theorem inv_handoff {c : Cfg} {input : List Nat} {s s' : St} {w : Nat} (h : Inv c input s)
    (hs : step c s (.handoff w) = some s') : Inv c input s' := by
  obtain ⟨x, h1, h2, rfl⟩ := step_handoff hs
  have hh := fun a => held_set_count s.ws w .idle (.holding x) h2 a
  have hb := fun a => busy_set_count s.ws w .idle (.holding x) h2 a
  have hl := held_set_length s.ws w .idle (.holding x) h2
  refine ⟨by simp [h.len], by simp, ?_, h.canc, h.coll, ?_, ?_, ?_, h.wstops, h.after0, ?_, h.nodrop, h.esc⟩
  · intro a b; exact h.srcDone a b
  · intro a
    have := h.cons a; have := hh a; have := hb a
    simp only [h1, Option.toList_some, Option.toList_none, heldOf_idle, heldOf_holding, busyOf_idle, busyOf_holding,
      List.count_nil, List.count_cons] at *
    omega
  · intro a
    have := h.sts a; have := hb a
    simp only [busyOf_idle, busyOf_holding, List.count_nil] at *
    omega
  · intro v hv
    exact get_set_done s.ws w v .idle _ h2 (by simp) (h.stopped v hv)
  · intro hc
    have := h.bound hc
    simp only [h1, Option.toList_some, Option.toList_none, heldOf_idle, heldOf_holding, List.length_nil,
      List.length_cons] at *
    omega

theorem inv_drop {c : Cfg} {input : List Nat} {s s' : St} (h : Inv c input s)
    (hs : step c s .drop = some s') : Inv c input s' := by
  obtain ⟨x, h1, h2, h3, rfl⟩ := step_drop hs
  refine ⟨h.len, by simp, by simp [h2], by simpa using h.canc, by simpa using h.coll, ?_, by simpa using h.sts,
    by simpa using h.stopped, by simpa using h.wstops, by simp [h2], ?_, by simp [h2], h.esc⟩
  · intro a
    have := h.cons a
    simp only [h1, Option.toList_some, Option.toList_none, List.count_nil, List.count_cons, fins_dropped,
      dropped_dropped] at *
    omega
  · intro hc
    have := h.bound hc
    simp only [h1, Option.toList_some, Option.toList_none, List.length_nil, List.length_cons, afterCount_dropped] at *
    omega

theorem inv_rdExit {c : Cfg} {input : List Nat} {s s' : St} (h : Inv c input s)
    (hs : step c s .rdExit = some s') : Inv c input s' := by
  obtain ⟨h1, h2, h3, rfl⟩ := step_rdExit hs
  refine ⟨h.len, by simp [h1], ?_, h.canc, h.coll, h.cons, h.sts, h.stopped, h.wstops, h.after0, h.bound, h.nodrop, h.esc⟩
  intro _ hc
  cases h3 with
  | inl h3 => exact h3
  | inr h3 => simp at hc; rw [hc] at h3; cases h3

theorem inv_start {c : Cfg} {input : List Nat} {s s' : St} {w : Nat} (h : Inv c input s)
    (hs : step c s (.start w) = some s') : Inv c input s' := by
  obtain ⟨x, h1, rfl⟩ := step_start hs
  have hh := fun a => held_set_count s.ws w (.holding x) (.busy x) h1 a
  have hb := fun a => busy_set_count s.ws w (.holding x) (.busy x) h1 a
  have hl := held_set_length s.ws w (.holding x) (.busy x) h1
  have hnotstopped : stoppedIn c w s.log = false := by
    cases hst : stoppedIn c w s.log with
    | false => rfl
    | true => have := h.stopped w hst; rw [h1] at this; cases this
  refine ⟨by simp [h.len], h.rdNone, h.srcDone, by simpa using h.canc, by simpa using h.coll, ?_, ?_, ?_, ?_, ?_, ?_,
    by simpa using h.nodrop, h.esc⟩
  · intro a
    have := h.cons a; have := hh a; have := hb a
    simp only [heldOf_holding, heldOf_busy, busyOf_holding, busyOf_busy, List.count_nil, fins_start, dropped_start] at *
    omega
  · intro a
    have := h.sts a; have := hb a
    simp only [busyOf_holding, busyOf_busy, List.count_nil, fins_start, starts_start, List.count_cons] at *
    omega
  · intro v hv
    simp only [stoppedIn_start] at hv
    exact get_set_done s.ws w v _ _ h1 (by simp) (h.stopped v hv)
  · simp [hnotstopped, h.wstops]
  · intro hc
    have hc' : s.cancelled = false := hc
    have := h.after0 hc'
    have hany : s.log.any (isCancelFin c) = false := by rw [← h.canc]; exact hc'
    simp [this, hany]
  · intro hc
    have hc' : s.cancelled = true := hc
    have := h.bound hc'
    have hany : s.log.any (isCancelFin c) = true := by rw [← h.canc]; exact hc'
    simp only [heldOf_holding, heldOf_busy, List.length_nil, List.length_cons, afterCount_start, hany, if_true] at *
    omega

theorem inv_exit {c : Cfg} {input : List Nat} {s s' : St} {w : Nat} (h : Inv c input s)
    (hs : step c s (.exit w) = some s') : Inv c input s' := by
  obtain ⟨h1, h2, rfl⟩ := step_exit hs
  have hh := fun a => held_set_count s.ws w .idle .done h1 a
  have hb := fun a => busy_set_count s.ws w .idle .done h1 a
  have hl := held_set_length s.ws w .idle .done h1
  refine ⟨by simp [h.len], h.rdNone, h.srcDone, h.canc, h.coll, ?_, ?_, ?_, h.wstops, h.after0, ?_, h.nodrop, h.esc⟩
  · intro a
    have := h.cons a; have := hh a; have := hb a
    simp only [heldOf_idle, heldOf_done, busyOf_idle, busyOf_done, List.count_nil] at *
    omega
  · intro a
    have := h.sts a; have := hb a
    simp only [busyOf_idle, busyOf_done, List.count_nil] at *
    omega
  · intro v hv
    exact get_set_done s.ws w v _ _ h1 (by simp) (h.stopped v hv)
  · intro hc
    have := h.bound hc
    simp only [heldOf_idle, heldOf_done, List.length_nil] at *
    omega

theorem heldOf_next (b : Bool) : heldOf (if b then WSt.idle else WSt.done) = [] := by cases b <;> rfl
theorem busyOf_next (b : Bool) : busyOf (if b then WSt.idle else WSt.done) = [] := by cases b <;> rfl

theorem inv_finish {c : Cfg} (hr : c.recovers = true) {input : List Nat} {s s' : St} {w : Nat} (h : Inv c input s)
    (hs : step c s (.finish w) = some s') : Inv c input s' := by
  obtain ⟨x, h1, rfl⟩ := step_finish hr hs
  have hh := fun a => held_set_count s.ws w (.busy x) (if c.cont x then .idle else .done) h1 a
  have hb := fun a => busy_set_count s.ws w (.busy x) (if c.cont x then .idle else .done) h1 a
  have hl := held_set_length s.ws w (.busy x) (if c.cont x then .idle else .done) h1
  have hwlt : w < s.ws.length := by
    rcases Nat.lt_or_ge w s.ws.length with hlt | hge
    · exact hlt
    · rw [List.getElem?_eq_none hge] at h1; cases h1
  refine ⟨by simp [h.len], h.rdNone, ?_, ?_, ?_, ?_, ?_, ?_, by simpa using h.wstops, ?_, ?_, ?_, h.esc⟩
  · intro hd hc
    simp only [Bool.or_eq_false_iff] at hc
    exact h.srcDone hd hc.1
  · simp only [List.any_cons, isCancelFin_fin]; rw [h.canc, Bool.or_comm]
  · simp only [fins_fin, List.filter_cons]
    cases hrp : c.reports x <;> simp [h.coll]
  · intro a
    have := h.cons a; have := hh a; have := hb a
    simp only [heldOf_next, heldOf_busy, busyOf_next, busyOf_busy, List.count_nil, fins_fin, dropped_fin,
      List.count_cons] at *
    omega
  · intro a
    have := h.sts a; have := hb a
    simp only [busyOf_next, busyOf_busy, List.count_nil, fins_fin, starts_fin, List.count_cons] at *
    omega
  · intro v hv
    simp only [stoppedIn_fin, Bool.or_eq_true, Bool.and_eq_true, beq_iff_eq, Bool.not_eq_true'] at hv
    rcases hv with ⟨hwv, hcont⟩ | hv
    · subst hwv
      simp only [hcont, Bool.false_eq_true, if_false]
      exact List.getElem?_set_self hwlt
    · exact get_set_done s.ws w v _ _ h1 (by simp) (h.stopped v hv)
  · intro hc
    simp only [Bool.or_eq_false_iff] at hc
    simpa using h.after0 hc.1
  · intro _
    simp only [heldOf_next, heldOf_busy, List.length_nil, afterCount_fin] at *
    cases hcan : s.cancelled with
    | true => have := h.bound hcan; omega
    | false =>
      have h0 := h.after0 hcan
      have hlt := held_lt_length s.ws w (.busy x) h1 rfl
      have hrd : s.rd.toList.length ≤ 1 := by cases s.rd <;> simp
      have := h.len
      omega
  · intro hc
    simp only [Bool.or_eq_false_iff] at hc
    simpa using h.nodrop hc.1

/-- the invariant is inductive -/
theorem step_inv {c : Cfg} (hr : c.recovers = true) {input : List Nat} {s s' : St} (a : Act) (h : Inv c input s)
    (hs : step c s a = some s') : Inv c input s' := by
  cases a with
  | read => exact inv_read h hs
  | handoff w => exact inv_handoff h hs
  | drop => exact inv_drop h hs
  | rdExit => exact inv_rdExit h hs
  | start w => exact inv_start h hs
  | finish w => exact inv_finish hr h hs
  | exit w => exact inv_exit h hs

theorem run_inv {c : Cfg} (hr : c.recovers = true) {input : List Nat} :
    ∀ (acts : List Act) (s s' : St), Inv c input s → run c s acts = some s' → Inv c input s'
  | [], s, s', h, hs => by simp [run] at hs; subst hs; exact h
  | a :: acts, s, s', h, hs => by
    simp only [run, List.foldlM_cons] at hs
    cases hst : step c s a with
    | none => simp [hst] at hs
    | some s1 =>
      simp only [hst, Option.bind_eq_bind, Option.bind_some] at hs
      exact run_inv hr acts s1 s' (step_inv hr a h hst) hs

/-- every reachable state satisfies the invariant -/
theorem reachable_inv {c : Cfg} (hr : c.recovers = true) {input : List Nat} {s : St}
    (h : Reachable c input s) : Inv c input s := by
  obtain ⟨acts, hs⟩ := h
  exact run_inv hr acts _ _ (inv_init c input) hs

/-! ### consequences of the invariant -/

theorem any_cancel_mem (c : Cfg) : ∀ (l : List Ev), l.any (isCancelFin c) = true →
    ∃ x ∈ fins l, c.cancels x = true
  | [], h => by simp at h
  | .start x w :: l, h => by
    simp only [List.any_cons, isCancelFin_start, Bool.false_or] at h
    simpa using any_cancel_mem c l h
  | .dropped x :: l, h => by
    simp only [List.any_cons, isCancelFin_dropped, Bool.false_or] at h
    simpa using any_cancel_mem c l h
  | .fin x w :: l, h => by
    simp only [List.any_cons, isCancelFin_fin, Bool.or_eq_true] at h
    rcases h with h | h
    · exact ⟨x, by simp, h⟩
    · obtain ⟨y, hy, hc⟩ := any_cancel_mem c l h
      exact ⟨y, by simp [hy], hc⟩

theorem held_nil_of_done : ∀ (ws : List WSt), (∀ w ∈ ws, w = .done) → heldItems ws = [] ∧ busyItems ws = []
  | [], _ => ⟨rfl, rfl⟩
  | v :: ws, h => by
    have hv : v = .done := h v (by simp)
    have ih := held_nil_of_done ws (fun w hw => h w (by simp [hw]))
    subst hv
    rw [heldItems_cons, busyItems_cons, ih.1, ih.2]; exact ⟨rfl, rfl⟩

/-- every item is started at most as often as it occurs in the input -/
theorem Inv.starts_count_le {c : Cfg} {input : List Nat} {s : St} (h : Inv c input s) (a : Nat) :
    (starts s.log).count a ≤ input.count a := by
  have := h.cons a; have := h.sts a; omega

theorem Inv.fins_count_le {c : Cfg} {input : List Nat} {s : St} (h : Inv c input s) (a : Nat) :
    (fins s.log).count a ≤ input.count a := by
  have := h.cons a; omega

theorem Inv.mem_input_of_fin {c : Cfg} {input : List Nat} {s : St} (h : Inv c input s) {x : Nat}
    (hx : x ∈ fins s.log) : x ∈ input := by
  have h1 := h.fins_count_le x
  have h2 : 0 < (fins s.log).count x := List.count_pos_iff.mpr hx
  exact List.count_pos_iff.mp (by omega)

/-- when every goroutine has returned, what was started was finished -/
theorem Inv.terminal_starts_fins {c : Cfg} {input : List Nat} {s : St} (h : Inv c input s)
    (ht : Terminal s) : (starts s.log).Perm (fins s.log) := by
  have hb := (held_nil_of_done s.ws ht.2).2
  rw [List.perm_iff_count]; intro a
  have := h.sts a; simp [hb] at this; exact this

/-- when every goroutine has returned and no finished item stopped its worker, the finished items are the input -/
theorem Inv.terminal_complete {c : Cfg} {input : List Nat} {s : St} (h : Inv c input s)
    (ht : Terminal s) (hc : ∀ x ∈ fins s.log, c.cont x = true) : (fins s.log).Perm input := by
  have hnc : s.cancelled = false := by
    cases hcan : s.cancelled with
    | false => rfl
    | true =>
      rw [h.canc] at hcan
      obtain ⟨x, hx, hcx⟩ := any_cancel_mem c s.log hcan
      have := cont_false_of_cancels hcx
      rw [hc x hx] at this; cases this
  obtain ⟨hh, hb⟩ := held_nil_of_done s.ws ht.2
  have hsrc := h.srcDone ht.1 hnc
  have hrd := h.rdNone ht.1
  have hdr := h.nodrop hnc
  rw [List.perm_iff_count]; intro a
  have := h.cons a
  simp [hh, hb, hsrc, hrd, hdr] at this
  exact this.symm

theorem countLe_of (xs input : List Nat) (h : ∀ a, xs.count a ≤ input.count a) : countLe xs input = true := by
  simp only [countLe, List.all_eq_true, decide_eq_true_eq]
  intro x _; exact h x

/-- the outcome predicate the correspondence run evaluates holds in every terminal state that
    satisfies the invariant -/
theorem Inv.allowed {c : Cfg} {input : List Nat} {s : St} (h : Inv c input s) (ht : Terminal s)
    (measured : Bool) : allowed c input s.log measured = true := by
  have hbound : afterCount c s.log ≤ c.n := by
    cases hcan : s.cancelled with
    | false => rw [h.after0 hcan]; omega
    | true => have := h.bound hcan; omega
  have hb : (!(measured && c.groupCancel) || decide (afterStop c s.log ≤ c.n)) = true := by
    cases hg : c.groupCancel with
    | false => simp
    | true => rw [afterStop_eq_afterCount hg]; simp [hbound]
  simp only [FaultPipe.allowed, Verdict.ok, judge, Bool.and_eq_true]
  refine ⟨⟨⟨⟨countLe_of _ _ h.starts_count_le, ?_⟩, h.wstops⟩, hb⟩, ?_⟩
  · exact List.isPerm_iff.mpr (h.terminal_starts_fins ht)
  · cases hall : (fins s.log).all c.cont with
    | false => rfl
    | true =>
      have hc : ∀ x ∈ fins s.log, c.cont x = true := by simpa using hall
      simpa using List.isPerm_iff.mpr ((h.terminal_starts_fins ht).trans (h.terminal_complete ht hc))

end FunModel.FaultPipe
