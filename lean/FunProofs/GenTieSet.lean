import FunGen.SetOps
import FunProofs.SetModel

/-! Helper lemmas for the T-gen tie of C18 (`FunProps/C18Gen.lean`): the functions that tools/go2lean
    (setops.go) regenerates from `dt/set.go` into `FunGen/SetOps.lean` compute what the hand-written
    model `FunModel/SetModel.lean` computes. First the primitives of `FunModel/SetPrim.lean` are related
    to the model's own `check`/`lookup`/`len`, then one lemma per generated function. -/
namespace FunProofs.GenTieSet
open FunModel.SetModel FunModel.SetModel.SetSt FunModel.SetPrim FunGen.SetOps

/-! ### the primitives and the model's vocabulary -/

/-- no element of the order list has an address the allocator has not handed out yet (a field of the
    representation invariant `Inv`): this is what makes `NewElement`'s result detached, so that
    `Back().Append` accepts it -/
def Fresh (s : SetSt) : Prop := ∀ l, s.list = some l → ∀ p, p ∈ l → p.1 < s.nextId

theorem fresh_of_inv {s : SetSt} (hi : Inv s) : Fresh s := hi.addrs_lt

theorem mapCheck_eq (s : SetSt) (k : Int) : mapCheck s k = s.check k := by
  unfold mapCheck SetSt.check SetSt.lookup
  rw [Option.isSome_map, Bool.eq_iff_iff, List.any_eq_true, List.find?_isSome]

theorem mapCheck_fun (s : SetSt) : (fun k => mapCheck s k) = s.check := funext (mapCheck_eq s)

theorem mapLoad_eq (s : SetSt) (k : Int) :
    mapLoad s k = match s.lookup k with | some e => (e, true) | none => (none, false) := by
  unfold mapLoad SetSt.lookup
  cases s.hash.find? (fun p => p.1 == k) <;> rfl

theorem mapLen_eq (s : SetSt) : mapLen s = s.len := rfl

theorem mapRange_eq (s : SetSt) (mo : List Int) : mapRange s mo = mo.filter s.check := by
  unfold mapRange; rw [mapCheck_fun]

theorem hash_any_eq (s : SetSt) (k : Int) : s.hash.any (fun p => p.1 == k) = s.check k := mapCheck_eq s k

theorem any_addr_false {l : List (Nat × Int)} {n : Nat} (h : ∀ p, p ∈ l → p.1 < n) :
    l.any (fun p => p.1 == n) = false := by
  rw [List.any_eq_false]
  intro p hp
  have := h p hp
  simp only [beq_iff_eq]; omega

theorem filter_ne_of_any_false {α β : Type} [BEq β] (f : α → β) {l : List α} {a : β}
    (h : l.any (fun p => f p == a) = false) : l.filter (fun p => f p != a) = l := by
  rw [List.filter_eq_self]
  intro p hp
  have := List.any_eq_false.mp h p hp
  simp only [bne, Bool.not_eq_true', ← Bool.not_eq_true]
  exact this

theorem filter_key_of_lookup_none {s : SetSt} {k : Int} (h : s.lookup k = none) :
    s.hash.filter (fun p => p.1 != k) = s.hash := by
  apply filter_ne_of_any_false (fun p : Int × Option Nat => p.1)
  rw [hash_any_eq]; unfold SetSt.check; rw [h]; rfl

/-! ### `isOrdered`, `Len`, `Check` -/

theorem isOrdered_tie (s : SetSt) : Set_isOrdered s = some s.isOrdered := by
  unfold Set_isOrdered listIsNil SetSt.isOrdered
  cases s.list <;> rfl

theorem lockedIsOrdered_tie (s : SetSt) : Set_lockedIsOrdered s = some s.isOrdered := by
  unfold Set_lockedIsOrdered listIsNil SetSt.isOrdered
  cases s.list <;> rfl

theorem Len_tie (s : SetSt) : Set_Len s = some s.len := rfl

theorem Check_tie (s : SetSt) (k : Int) : Set_Check s k = some (s.check k) := by
  unfold Set_Check; rw [mapCheck_eq]; rfl

/-! ### `AddCheck`, `Add` -/

theorem AddCheck_tie {s : SetSt} (hf : Fresh s) (k : Int) : Set_AddCheck s k = some (s.addCheck k) := by
  unfold Set_AddCheck SetSt.addCheck
  rw [mapCheck_eq]
  cases hc : s.check k with
  | true => simp
  | false =>
    have hany : s.hash.any (fun p => p.1 == k) = false := by rw [hash_any_eq]; exact hc
    cases hl : s.list with
    | none => simp [listIsNil, hl, mapSetDefault, mapStore, hany]
    | some l =>
      have := any_addr_false (hf l hl)
      simp [listIsNil, hl, newElement, listBackAppend, mapStore, hany, this, Elem.ptr]

theorem Add_tie {s : SetSt} (hf : Fresh s) (k : Int) : Set_Add s k = some (s.addCheck k).1 := by
  unfold Set_Add; rw [AddCheck_tie hf]; rfl

/-! ### `DeleteCheck`, `Delete` -/

theorem DeleteCheck_tie (s : SetSt) (k : Int) : Set_DeleteCheck s k = some (s.deleteCheck k) := by
  unfold Set_DeleteCheck SetSt.deleteCheck
  rw [mapLoad_eq]
  cases hlk : s.lookup k with
  | none => simp [mapDelete, filter_key_of_lookup_none hlk]
  | some e =>
    cases e with
    | none => simp [mapDelete]
    | some a =>
      cases hl : s.list with
      | none => simp [mapDelete, elemRemove, hl]
      | some l =>
        cases ha : l.any (fun p => p.1 == a) with
        | true => simp [mapDelete, elemRemove, hl, ha]
        | false =>
          have := filter_ne_of_any_false (fun p : Nat × Int => p.1) ha
          simp [mapDelete, elemRemove, hl, ha, this]

theorem Delete_tie (s : SetSt) (k : Int) : Set_Delete s k = some (s.deleteCheck k).1 := by
  unfold Set_Delete; rw [DeleteCheck_tie]; rfl

/-! ### `Order` -/

theorem Order_tie {s : SetSt} (h : s.list.isSome ∨ s.hash = []) : Set_Order s = some s.order := by
  unfold Set_Order SetSt.order listIsNil mapLen listNew
  cases hl : s.list with
  | some l => simp
  | none =>
    rcases h with h | h
    · rw [hl] at h; cases h
    · simp [h]

theorem Order_panics {s : SetSt} (h1 : s.list = none) (h2 : s.hash ≠ []) : Set_Order s = none := by
  unfold Set_Order listIsNil mapLen
  simp [h1, h2]

/-! ### `forceSetupOrdered` -/

/-- the elements the model's `forceSetupOrdered` allocates for the keys `ks` from address `n` on -/
def elemsFrom (n : Nat) (ks : List Int) : List (Nat × Int) := ks.zipIdx.map (fun (k, i) => (n + i, k))

theorem zipIdx_shift (n : Nat) (ks : List Int) (m : Nat) :
    (ks.zipIdx (m + 1)).map (fun (k, i) => (n + i, k)) = (ks.zipIdx m).map (fun (k, i) => (n + 1 + i, k)) := by
  induction ks generalizing m with
  | nil => rfl
  | cons k t ih =>
    simp only [List.zipIdx_cons, List.map_cons]
    rw [ih (m + 1)]
    congr 2
    omega

theorem elemsFrom_cons (n : Nat) (k : Int) (ks : List Int) :
    elemsFrom n (k :: ks) = (n, k) :: elemsFrom (n + 1) ks := by
  unfold elemsFrom
  simp only [List.zipIdx_cons, List.map_cons, Nat.add_zero, Nat.zero_add]
  rw [zipIdx_shift]

theorem elemsFrom_length (n : Nat) (ks : List Int) : (elemsFrom n ks).length = ks.length := by
  unfold elemsFrom; simp

theorem elemsFrom_find_none {n : Nat} {ks : List Int} {k : Int} (h : k ∉ ks) :
    (elemsFrom n ks).find? (fun e => e.2 == k) = none := by
  induction ks generalizing n with
  | nil => rfl
  | cons x t ih =>
    rw [elemsFrom_cons, List.find?_cons]
    have hx : (x == k) = false := by
      simp only [beq_eq_false_iff_ne, ne_eq]
      intro e; exact h (e ▸ List.mem_cons_self)
    simp only [hx]
    exact ih (fun hm => h (List.mem_cons_of_mem _ hm))

/-- what the model does to the map: each key that got an element now points at it -/
def repoint (elems : List (Nat × Int)) (p : Int × Option Nat) : Int × Option Nat :=
  match elems.find? (fun e => e.2 == p.1) with
  | some e => (p.1, some e.1)
  | none => p

/-- the state after one pass of the loop body of `forceSetupOrdered` for the key `k` -/
def fsoStep (t : SetSt) (l : List (Nat × Int)) (k : Int) : SetSt :=
  { hash := t.hash.map (fun p => if p.1 == k then (k, some t.nextId) else p),
    list := some (l ++ [(t.nextId, k)]), nextId := t.nextId + 1 }

/-- a loop whose body does `fsoStep` on every ordered state with addresses below the allocation counter
    and a present key computes the model's batch definition -/
theorem fso_fold (f : SetSt → Int → Option SetSt)
    (hf : ∀ (t : SetSt) (l : List (Nat × Int)) (k : Int), t.list = some l → (∀ p, p ∈ l → p.1 < t.nextId) →
      t.check k = true → f t k = some (fsoStep t l k)) (ks : List Int) :
    ∀ (t : SetSt) (l : List (Nat × Int)), t.list = some l → (∀ p, p ∈ l → p.1 < t.nextId) →
      ks.Nodup → (∀ k, k ∈ ks → t.check k = true) →
      ks.foldlM f t =
        some { hash := t.hash.map (repoint (elemsFrom t.nextId ks)),
               list := some (l ++ elemsFrom t.nextId ks), nextId := t.nextId + ks.length } := by
  induction ks with
  | nil =>
    intro t l hl _ _ _
    have hid : t.hash.map (repoint (elemsFrom t.nextId [])) = t.hash := by
      have : repoint (elemsFrom t.nextId []) = id := by
        funext p; rfl
      rw [this, List.map_id]
    rw [hid]
    simp only [List.foldlM_nil, elemsFrom, List.zipIdx_nil, List.map_nil, List.append_nil, List.length_nil,
      Nat.add_zero, ← hl]
    rfl
  | cons k ks ih =>
    intro t l hl hlt hnd hpres
    have hnd' := List.nodup_cons.mp hnd
    rw [List.foldlM_cons, hf t l k hl hlt (hpres k List.mem_cons_self)]
    simp only [Option.bind_eq_bind, Option.bind_some]
    have hkeys : (fsoStep t l k).hash.map (·.1) = t.hash.map (·.1) := by
      simp only [fsoStep, List.map_map]
      apply List.map_congr_left
      intro p _
      by_cases e : p.1 = k
      · simp [e]
      · simp [e]
    have hpres' : ∀ k', k' ∈ ks → (fsoStep t l k).check k' = true := by
      intro k' hk'
      rw [SetSt.check_iff_keys, hkeys, ← SetSt.check_iff_keys]
      exact hpres k' (List.mem_cons_of_mem _ hk')
    have hlt' : ∀ p, p ∈ l ++ [(t.nextId, k)] → p.1 < (fsoStep t l k).nextId := by
      intro p hp
      rcases List.mem_append.mp hp with hp | hp
      · have := hlt p hp
        show p.1 < t.nextId + 1
        omega
      · have : p = (t.nextId, k) := by simpa using hp
        rw [this]; show t.nextId < t.nextId + 1; omega
    rw [ih (fsoStep t l k) (l ++ [(t.nextId, k)]) rfl hlt' hnd'.2 hpres']
    congr 1
    have e1 : (fsoStep t l k).nextId = t.nextId + 1 := rfl
    have e2 : elemsFrom t.nextId (k :: ks) = (t.nextId, k) :: elemsFrom (t.nextId + 1) ks := elemsFrom_cons _ _ _
    rw [e1, e2]
    have hlen : t.nextId + 1 + ks.length = t.nextId + (k :: ks).length := by
      simp only [List.length_cons]; omega
    have hlist : l ++ [(t.nextId, k)] ++ elemsFrom (t.nextId + 1) ks = l ++ (t.nextId, k) :: elemsFrom (t.nextId + 1) ks := by
      simp
    have hhash : (fsoStep t l k).hash.map (repoint (elemsFrom (t.nextId + 1) ks)) =
        t.hash.map (repoint ((t.nextId, k) :: elemsFrom (t.nextId + 1) ks)) := by
      simp only [fsoStep, List.map_map]
      apply List.map_congr_left
      intro p _
      by_cases e : p.1 = k
      · have hnone := elemsFrom_find_none (n := t.nextId + 1) hnd'.1
        simp [repoint, e, hnone]
      · have e' : (k == p.1) = false := by
          simp only [beq_eq_false_iff_ne, ne_eq]; exact fun h => e h.symm
        simp [repoint, e, e']
    rw [hhash, hlen, hlist]

theorem forceSetupOrdered_tie {s : SetSt} (hl : s.list = none) {mo : List Int} (hn : (mo.filter s.check).Nodup) :
    Set_forceSetupOrdered s mo = some (s.forceSetupOrdered mo) := by
  unfold Set_forceSetupOrdered
  have h1 : listIsNil s = true := by unfold listIsNil; rw [hl]; rfl
  have hr : mapRange (listNew s) mo = mo.filter s.check := by
    rw [mapRange_eq]; rfl
  simp only [h1, Bool.not_true, Bool.false_eq_true, ↓reduceIte, hr]
  rw [fso_fold _ _ (mo.filter s.check) (listNew s) [] rfl (fun p hp => by cases hp) hn
    (fun k hk => (List.mem_filter.mp hk).2)]
  · rfl
  · -- the generated loop body is `fsoStep`
    intro t l k hl hlt hk
    have hany : t.hash.any (fun p => p.1 == k) = true := by rw [hash_any_eq]; exact hk
    have hfr := any_addr_false hlt
    simp [newElement, listBackAppend, hl, hfr, mapStore, hany, Elem.ptr, fsoStep]

theorem forceSetupOrdered_panics {s : SetSt} (hl : s.list.isSome) (mo : List Int) :
    Set_forceSetupOrdered s mo = none := by
  unfold Set_forceSetupOrdered listIsNil
  obtain ⟨l, hl⟩ := Option.isSome_iff_exists.mp hl
  simp [hl]

/-- `GoodOrder` is more than the tie needs -/
theorem nodup_of_goodOrder {s : SetSt} {mo : List Int} (hg : s.GoodOrder mo) : (mo.filter s.check).Nodup :=
  nodup_filter _ hg.1

/-! ### `SortQuick`, `SortMerge` -/

/-- the model's `sortWith` on an unordered set: `forceSetupOrdered`, then the list sort -/
theorem sortWith_unordered (sorter : (Int → Int → Bool) → List Int → List Int) (lt : Int → Int → Bool)
    {s : SetSt} (hl : s.list = none) (mo : List Int) :
    listSortWith sorter (s.forceSetupOrdered mo) lt = some (SetSt.sortWith sorter lt s mo) := by
  unfold SetSt.sortWith listSortWith
  have : (s.forceSetupOrdered mo).list =
      some (((mo.filter s.check).zipIdx).map (fun (k, i) => (s.nextId + i, k))) := rfl
  simp only [hl, Option.isNone_none, ↓reduceIte, this]

/-- … and on an ordered one: just the list sort -/
theorem sortWith_ordered (sorter : (Int → Int → Bool) → List Int → List Int) (lt : Int → Int → Bool)
    {s : SetSt} (hl : s.list.isSome) (mo : List Int) :
    listSortWith sorter s lt = some (SetSt.sortWith sorter lt s mo) := by
  unfold SetSt.sortWith listSortWith
  obtain ⟨l, hl⟩ := Option.isSome_iff_exists.mp hl
  simp only [hl, Option.isNone_some, Bool.false_eq_true, ↓reduceIte]

theorem SortQuick_tie (lt : Int → Int → Bool) (s : SetSt) (mo : List Int)
    (hn : s.list = none → (mo.filter s.check).Nodup) :
    Set_SortQuick s lt mo = some (SetSt.sortQuick lt s mo) := by
  unfold Set_SortQuick listSortQuick SetSt.sortQuick
  cases hl : s.list with
  | none =>
    simp [listIsNil, hl, forceSetupOrdered_tie hl (hn hl), sortWith_unordered FunModel.SortSeq.sortQuick lt hl mo]
  | some l =>
    simp [listIsNil, hl, sortWith_ordered FunModel.SortSeq.sortQuick lt (s := s) (by rw [hl]; rfl) mo]

theorem SortMerge_tie (lt : Int → Int → Bool) (s : SetSt) (mo : List Int)
    (hn : s.list = none → (mo.filter s.check).Nodup) :
    Set_SortMerge s lt mo = some (SetSt.sortMerge lt s mo) := by
  unfold Set_SortMerge listSortMerge SetSt.sortMerge
  cases hl : s.list with
  | none =>
    simp [listIsNil, hl, forceSetupOrdered_tie hl (hn hl), sortWith_unordered FunModel.SortSeq.sortMerge lt hl mo]
  | some l =>
    simp [listIsNil, hl, sortWith_ordered FunModel.SortSeq.sortMerge lt (s := s) (by rw [hl]; rfl) mo]

/-! ### `keys`, `unsafeIterator`, `Producer`, `Iterator` -/

/-- a loop whose body appends the key to the accumulator collects the keys -/
theorem append_fold (f : List Int → Int → Option (List Int)) (hf : ∀ out k, f out k = some (out ++ [k]))
    (xs : List Int) : ∀ out : List Int, xs.foldlM f out = some (out ++ xs) := by
  induction xs with
  | nil => intro out; simp
  | cons x t ih =>
    intro out
    rw [List.foldlM_cons, hf]
    simp only [Option.bind_eq_bind, Option.bind_some]
    rw [ih]; simp

theorem keys_tie (s : SetSt) (mo : List Int) : Set_keys s mo = some (mo.filter s.check) := by
  unfold Set_keys
  rw [append_fold _ (fun out k => by simp [sliceAppend]), mapRange_eq]
  simp [sliceMake]

theorem unsafeIterator_tie (s : SetSt) (mo : List Int) : Set_unsafeIterator s mo = some (s.iter mo) := by
  unfold Set_unsafeIterator SetSt.iter
  cases hl : s.list with
  | none => simp [listIsNil, hl, keys_tie]
  | some l => simp [listIsNil, hl, listItems]

theorem Producer_tie (s : SetSt) (mo : List Int) (sync : Bool) : Set_Producer s mo sync = some (s.iter mo) := by
  unfold Set_Producer SetSt.iter
  cases hl : s.list with
  | none => cases sync <;> simp [listIsNil, hl, keys_tie, mapProducerKeys, mapRange_eq]
  | some l => simp [listIsNil, hl, listItems]

theorem Iterator_tie (s : SetSt) (mo : List Int) (sync : Bool) : Set_Iterator s mo sync = some (s.iter mo) := by
  unfold Set_Iterator; simp [Producer_tie]

/-! ### `Populate`, `Extend` -/

theorem observe_add (f : SetSt → Int → Option SetSt)
    (hf : ∀ s k, FunModel.SetModel.Inv s → f s k = some (s.addCheck k).1) (ks : List Int) :
    ∀ {s : SetSt}, FunModel.SetModel.Inv s →
    iterObserve f ks s = some (s.addAll ks) := by
  induction ks with
  | nil => intro s _; rfl
  | cons k t ih =>
    intro s hi
    unfold iterObserve
    rw [List.foldlM_cons, hf s k hi]
    exact ih (SetSt.addCheck_inv hi k)

theorem Populate_tie {s : SetSt} (hi : Inv s) (ks : List Int) : Set_Populate s ks = some (s.addAll ks) := by
  unfold Set_Populate
  rw [observe_add _ (fun s k hi => Add_tie (fresh_of_inv hi) k) ks hi] <;> rfl

theorem Extend_tie {s : SetSt} (hi : Inv s) (o : SetSt) (mo : List Int) (sync : Bool) :
    Set_Extend s o mo sync = some (s.addAll (o.iter mo)) := by
  unfold Set_Extend
  simp [Iterator_tie, Populate_tie hi]

/-! ### `Equal` -/

/-- a search loop whose body returns `false` at the first item that is not `good` -/
theorem iterLoop_all {α : Type} (body : α → Option (Option Bool)) (good : α → Bool)
    (hb : ∀ x, body x = some (if good x then none else some false)) (xs : List α) :
    iterLoop xs body = some (if xs.all good then none else some false) := by
  induction xs with
  | nil => simp [iterLoop]
  | cons x t ih =>
    unfold iterLoop
    rw [hb x, List.all_cons]
    cases hgx : good x with
    | false => simp
    | true => simp only [↓reduceIte, Bool.true_and]; exact ih

theorem zip_all_eq {a b : List Int} (h : a.length = b.length) :
    (List.zip a b).all (fun p => p.1 == p.2) = (a == b) := by
  induction a generalizing b with
  | nil =>
    cases b with
    | nil => rfl
    | cons y b => cases h
  | cons x a ih =>
    cases b with
    | nil => cases h
    | cons y b =>
      simp only [List.zip_cons_cons, List.all_cons, List.length_cons, Nat.add_right_cancel_iff] at h ⊢
      rw [ih h]
      rfl

theorem all_filter_check {s o : SetSt} {mo : List Int} (hg : s.GoodOrder mo) :
    (mo.filter s.check).all o.check = s.hash.all (fun p => o.check p.1) := by
  rw [Bool.eq_iff_iff, List.all_eq_true, List.all_eq_true]
  constructor
  · intro h p hp
    have hk : p.1 ∈ s.hash.map (·.1) := List.mem_map.mpr ⟨p, hp, rfl⟩
    exact h p.1 (List.mem_filter.mpr ⟨hg.2 _ hk, (SetSt.check_iff_keys s p.1).mpr hk⟩)
  · intro h k hk
    have hc := (List.mem_filter.mp hk).2
    obtain ⟨p, hp, rfl⟩ := List.mem_map.mp ((SetSt.check_iff_keys s k).mp hc)
    exact h p hp

theorem list_length_of_inv {s : SetSt} (hi : Inv s) {l : List (Nat × Int)} (hl : s.list = some l) :
    (l.map (·.2)).length = s.len := by
  have := SetSt.len_eq_members hi
  unfold SetSt.members at this
  rw [hl] at this
  exact this.symm

theorem Equal_tie {s o : SetSt} (hs : Inv s) (ho : Inv o) {mo : List Int} (hg : s.GoodOrder mo)
    (mo' : List Int) (sync : Bool) : Set_Equal s o mo mo' sync = some (s.equal o) := by
  unfold Set_Equal SetSt.equal
  simp only [Len_tie, isOrdered_tie, lockedIsOrdered_tie, unsafeIterator_tie, Iterator_tie, mapLen_eq,
    orP, neP, Option.pure_def, Option.bind_eq_bind, Option.bind_some]
  by_cases hne : s.len ≠ o.len
  · simp [hne]
  have hlen : s.len = o.len := Decidable.not_not.mp hne
  cases hl : s.list with
  | none =>
    have h1 : s.isOrdered = false := by unfold SetSt.isOrdered; rw [hl]; rfl
    have hit : s.iter mo = mo.filter s.check := by unfold SetSt.iter; rw [hl]
    cases hb : o.list with
    | some b =>
      have h2 : o.isOrdered = true := by unfold SetSt.isOrdered; rw [hb]; rfl
      simp [hlen, h1, h2]
    | none =>
      have h2 : o.isOrdered = false := by unfold SetSt.isOrdered; rw [hb]; rfl
      simp only [hlen, h1, h2, hit, bne_self_eq_false, Bool.or_self, Bool.false_eq_true, ↓reduceIte,
        Option.bind_some]
      rw [iterLoop_all _ o.check (fun x => by cases h : o.check x <;> simp [Check_tie, notP, h]),
        all_filter_check hg]
      cases s.hash.all (fun p => o.check p.1) <;> simp [iterClose]
  | some a =>
    have h1 : s.isOrdered = true := by unfold SetSt.isOrdered; rw [hl]; rfl
    have hita : s.iter mo = a.map (·.2) := by unfold SetSt.iter; rw [hl]
    cases hb : o.list with
    | none =>
      have h2 : o.isOrdered = false := by unfold SetSt.isOrdered; rw [hb]; rfl
      simp [hlen, h1, h2]
    | some b =>
      have h2 : o.isOrdered = true := by unfold SetSt.isOrdered; rw [hb]; rfl
      have hitb : o.iter mo' = b.map (·.2) := by unfold SetSt.iter; rw [hb]
      have hlenab : (a.map (·.2)).length = (b.map (·.2)).length := by
        rw [list_length_of_inv hs hl, list_length_of_inv ho hb, hlen]
      simp only [hlen, h1, h2, hita, hitb, bne_self_eq_false, Bool.or_self, Bool.false_eq_true, ↓reduceIte,
        Option.bind_some]
      rw [iterLoop_all _ (fun p : Int × Int => p.1 == p.2)
        (fun p => by cases h : (p.1 == p.2) <;> simp_all), zip_all_eq hlenab]
      cases (a.map (·.2) == b.map (·.2)) <;> simp [iterClose]

/-! ### whole runs: any sequence of calls of the generated functions -/

/-- a call of one of the state-writing methods -/
inductive Op where
  | add (k : Int)
  | del (k : Int)
  | order
  | sortQuick (lt : Int → Int → Bool) (mo : List Int)
  | sortMerge (lt : Int → Int → Bool) (mo : List Int)
  | populate (ks : List Int)

/-- the call through the generated functions (`none` = panic) -/
def Op.gen (s : SetSt) : Op → Option SetSt
  | .add k => (Set_AddCheck s k).map (·.1)
  | .del k => (Set_DeleteCheck s k).map (·.1)
  | .order => Set_Order s
  | .sortQuick lt mo => Set_SortQuick s lt mo
  | .sortMerge lt mo => Set_SortMerge s lt mo
  | .populate ks => Set_Populate s ks

/-- the same call on the hand-written model -/
def Op.model (s : SetSt) : Op → SetSt
  | .add k => (s.addCheck k).1
  | .del k => (s.deleteCheck k).1
  | .order => s.order
  | .sortQuick lt mo => SetSt.sortQuick lt s mo
  | .sortMerge lt mo => SetSt.sortMerge lt s mo
  | .populate ks => s.addAll ks

/-- what the caller has to respect: `Order()` only on a set that is empty or already ordered (it panics
    otherwise), and `mo` really is an order in which the map can be ranged over -/
def Op.ok (s : SetSt) : Op → Prop
  | .order => s.list.isSome ∨ s.hash = []
  | .sortQuick _ mo => s.GoodOrder mo
  | .sortMerge _ mo => s.GoodOrder mo
  | _ => True

def runGen (ops : List Op) (s : SetSt) : Option SetSt := ops.foldlM Op.gen s
def runModel (ops : List Op) (s : SetSt) : SetSt := ops.foldl Op.model s

/-- every call is admissible in the state the model has reached -/
def Admissible : List Op → SetSt → Prop
  | [], _ => True
  | op :: rest, s => op.ok s ∧ Admissible rest (op.model s)

theorem order_reachable {s : SetSt} (hr : Reachable s) (h : s.list.isSome ∨ s.hash = []) : Reachable s.order := by
  cases hl : s.list with
  | some l =>
    have : s.order = s := by unfold SetSt.order; simp [hl]
    rw [this]; exact hr
  | none =>
    rcases h with h | h
    · rw [hl] at h; cases h
    · exact .order hr h

theorem op_step {s : SetSt} (hr : Reachable s) (op : Op) (hok : op.ok s) :
    op.gen s = some (op.model s) ∧ Reachable (op.model s) := by
  have hi := hr.inv
  cases op with
  | add k => exact ⟨by simp [Op.gen, Op.model, AddCheck_tie (fresh_of_inv hi)], .add k hr⟩
  | del k => exact ⟨by simp [Op.gen, Op.model, DeleteCheck_tie], .delete k hr⟩
  | order => exact ⟨Order_tie hok, order_reachable hr hok⟩
  | sortQuick lt mo => exact ⟨SortQuick_tie lt s mo (fun _ => nodup_of_goodOrder hok), .sortQuick lt mo hok hr⟩
  | sortMerge lt mo => exact ⟨SortMerge_tie lt s mo (fun _ => nodup_of_goodOrder hok), .sortMerge lt mo hok hr⟩
  | populate ks => exact ⟨Populate_tie hi ks, .addAll ks hr⟩

theorem run_tie (ops : List Op) : ∀ {s : SetSt}, Reachable s → Admissible ops s →
    runGen ops s = some (runModel ops s) ∧ Reachable (runModel ops s) := by
  induction ops with
  | nil => intro s hr _; exact ⟨rfl, hr⟩
  | cons op rest ih =>
    intro s hr ha
    obtain ⟨h1, h2⟩ := op_step hr op ha.1
    unfold runGen runModel
    rw [List.foldlM_cons, h1]
    exact ih h2 ha.2

end FunProofs.GenTieSet
