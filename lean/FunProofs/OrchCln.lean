import FunModel.Orch
import FunProofs.OrchOrc

/-! Helper lemmas for C11, `srv.Cleanup`: inversion of `Cln.step` and the inductive invariant of the
    cleanup machine (code with the fix: `legacyNoSweep = false`). -/

namespace FunModel.Orch.Cln

/-! ### inversion of `step` -/

theorem step_start {c : Cfg} {s s' : St} (h : step c s .start = some s') :
    s.cphase = .idle ∧ s' = { s with cphase := .draining } := ite_some_eq h

theorem step_cancel {c : Cfg} {s s' : St} (h : step c s .cancel = some s') : s' = { s with cancelled := true } := by
  simp only [step, Option.some.injEq] at h; exact h.symm

theorem step_add {c : Cfg} {s s' : St} {j : Nat} {acc : Bool} (h : step c s (.add j acc) = some s') :
    s.addSt j = .none ∧ (acc = true → s.closed = false) ∧
      ((acc = true ∧ s' = { s with addSt := upd s.addSt j .accepted, queue := s.queue ++ [j] }) ∨
       (acc = false ∧ s' = { s with addSt := upd s.addSt j .rejected })) := by
  simp only [step] at h
  split at h
  · rename_i hg
    refine ⟨hg.1, hg.2, ?_⟩
    cases acc with
    | true => simp only [↓reduceIte, Option.some.injEq] at h; exact Or.inl ⟨rfl, h.symm⟩
    | false => simp only [Bool.false_eq_true, ↓reduceIte, Option.some.injEq] at h; exact Or.inr ⟨rfl, h.symm⟩
  · cases h

theorem step_drain {c : Cfg} {s s' : St} (h : step c s .drain = some s') :
    ∃ j q, s.cphase = .draining ∧ s.queue = j :: q ∧ s.cancelled = false ∧
      s' = { s with queue := q, cache := s.cache ++ [j] } := by
  simp only [step] at h
  split at h
  · rename_i j q hp hq
    obtain ⟨hc, hs⟩ := ite_some_eq h
    exact ⟨j, q, hp, hq, hc, hs⟩
  · cases h

theorem step_runExit {c : Cfg} {s s' : St} (h : step c s .runExit = some s') :
    (s.cphase = .draining ∧ (s.cancelled = true ∨ (s.queue = [] ∧ s.closed = true))) ∧ s' = { s with cphase := .exited } :=
  ite_some_eq h

theorem step_shutdown {c : Cfg} {s s' : St} (h : step c s .shutdown = some s') :
    ((s.cphase = .draining ∨ s.cphase = .exited) ∧ (s.cancelled = true ∨ s.cphase = .exited) ∧ s.closed = false) ∧
      s' = { s with closed := true } := ite_some_eq h

theorem step_beginSweep {c : Cfg} (hfix : c.legacyNoSweep = false) {s s' : St} (h : step c s .beginSweep = some s') :
    (s.cphase = .exited ∧ s.closed = true) ∧
      s' = { s with cphase := .sweeping, cache := s.cache ++ s.queue, todo := s.cache ++ s.queue, queue := [] } := by
  simp only [step, hfix, Bool.false_eq_true, ↓reduceIte] at h
  exact ite_some_eq h

theorem step_runJob {c : Cfg} {s s' : St} {j : Nat} (h : step c s (.runJob j) = some s') :
    (s.cphase = .sweeping ∧ j ∈ s.todo) ∧
      s' = { s with todo := s.todo.erase j, runs := upd s.runs j (s.runs j + 1), coll := j :: s.coll, ranEarly := upd s.ranEarly j (!s.cancelled) } :=
  ite_some_eq h

theorem step_finish {c : Cfg} {s s' : St} (h : step c s .finish = some s') :
    (s.cphase = .sweeping ∧ s.todo = []) ∧ s' = { s with cphase := .done } := ite_some_eq h

/-! ### the invariant -/

def St.swept (s : St) : Prop := s.cphase = .sweeping ∨ s.cphase = .done

structure Inv (s : St) : Prop where
  acc_where : ∀ j, s.addSt j = .accepted ↔ (j ∈ s.queue ∨ j ∈ s.cache)
  nodup : (s.queue ++ s.cache).Nodup
  ended : (s.cphase = .exited ∨ s.cphase = .sweeping ∨ s.cphase = .done ∨ s.closed = true) → s.cancelled = true
  pre : ¬ s.swept → s.todo = [] ∧ s.coll = [] ∧ ∀ j, s.runs j = 0
  post : s.swept → s.queue = [] ∧ s.closed = true
  todo_sub : ∀ j ∈ s.todo, j ∈ s.cache
  todo_nodup : s.todo.Nodup
  runs_spec : s.swept → ∀ j, (j ∈ s.cache ∧ j ∉ s.todo → s.runs j = 1 ∧ j ∈ s.coll) ∧ (¬(j ∈ s.cache ∧ j ∉ s.todo) → s.runs j = 0)
  done_todo : s.cphase = .done → s.todo = []
  early : ∀ j, s.ranEarly j = false

theorem inv_init : Inv init := by
  refine ⟨?_, ?_, ?_, ?_, ?_, ?_, ?_, ?_, ?_, ?_⟩ <;> simp [init, St.swept]

theorem inv_step {c : Cfg} (hfix : c.legacyNoSweep = false) {s s' : St} {a : Act} (hi : Inv s)
    (h : step c s a = some s') : Inv s' := by
  cases a with
  | start =>
    obtain ⟨hp, rfl⟩ := step_start h
    have hns : ¬ s.swept := by simp [St.swept, hp]
    exact { hi with ended := (by intro h'; apply hi.ended; simp at h'; exact Or.inr (Or.inr (Or.inr h'))), pre := fun _ => hi.pre hns,
                    post := (by intro h'; simp [St.swept] at h'), runs_spec := (by intro h'; simp [St.swept] at h'),
                    done_todo := by simp }
  | cancel =>
    rw [step_cancel h]
    exact { hi with ended := fun _ => rfl }
  | add j acc =>
    obtain ⟨hn, hcl, hcase⟩ := step_add h
    have hnq : j ∉ s.queue ∧ j ∉ s.cache := by
      constructor <;> intro hm
      · have := (hi.acc_where j).mpr (Or.inl hm); rw [hn] at this; cases this
      · have := (hi.acc_where j).mpr (Or.inr hm); rw [hn] at this; cases this
    rcases hcase with ⟨ha, rfl⟩ | ⟨_, rfl⟩
    · have hns : ¬ s.swept := fun hs => by have := (hi.post hs).2; rw [hcl ha] at this; cases this
      refine { hi with acc_where := ?_, nodup := ?_, pre := fun _ => hi.pre hns, post := fun hs => absurd hs hns,
                       runs_spec := fun hs => absurd hs hns }
      · intro k; by_cases hk : k = j
        · subst hk; simp
        · simp only [upd_other _ _ _ _ hk, List.mem_append, List.mem_singleton, hk, or_false]; exact hi.acc_where k
      · have := hi.nodup
        rw [List.nodup_append] at this ⊢
        refine ⟨List.nodup_append.mpr ⟨this.1, by simp, ?_⟩, this.2.1, ?_⟩
        · intro a ha b hb; simp at hb; subst hb; intro hab; subst hab; exact hnq.1 ha
        · intro a ha b hb hab; subst hab
          rcases List.mem_append.mp ha with ha | ha
          · exact this.2.2 a ha a hb rfl
          · simp at ha; subst ha; exact hnq.2 hb
    · refine { hi with acc_where := ?_ }
      intro k; by_cases hk : k = j
      · subst hk; simp [hnq.1, hnq.2]
      · simp only [upd_other _ _ _ _ hk]; exact hi.acc_where k
  | drain =>
    obtain ⟨j, q, hp, hq, _, rfl⟩ := step_drain h
    have hns : ¬ s.swept := by simp [St.swept, hp]
    refine { hi with acc_where := ?_, nodup := ?_, pre := fun _ => hi.pre hns, post := fun hs => absurd hs hns,
                     todo_sub := ?_, runs_spec := fun hs => absurd hs hns }
    · intro k; rw [hi.acc_where k, hq]; simp only [List.mem_cons, List.mem_append, List.not_mem_nil, or_false]
      constructor
      · rintro ((h1 | h1) | h1)
        · exact Or.inr (Or.inr h1)
        · exact Or.inl h1
        · exact Or.inr (Or.inl h1)
      · rintro (h1 | h1 | h1)
        · exact Or.inl (Or.inr h1)
        · exact Or.inr h1
        · exact Or.inl (Or.inl h1)
    · have := hi.nodup; rw [hq] at this
      have hperm : (q ++ (s.cache ++ [j])).Perm (j :: q ++ s.cache) := by
        have : (q ++ (s.cache ++ [j])).Perm (j :: (q ++ s.cache)) := by
          rw [← List.append_assoc]; exact List.perm_append_singleton j (q ++ s.cache)
        simpa using this
      exact hperm.nodup_iff.mpr this
    · intro k hk; simp [(hi.pre hns).1] at hk
  | runExit =>
    obtain ⟨⟨hp, hwhy⟩, rfl⟩ := step_runExit h
    have hns : ¬ s.swept := by simp [St.swept, hp]
    refine { hi with ended := ?_, pre := fun _ => hi.pre hns, post := (by intro h'; simp [St.swept] at h'),
                     runs_spec := (by intro h'; simp [St.swept] at h'), done_todo := by simp }
    intro _
    rcases hwhy with hc | ⟨_, hc⟩
    · exact hc
    · exact hi.ended (Or.inr (Or.inr (Or.inr hc)))
  | shutdown =>
    obtain ⟨⟨hp, hwhy, _⟩, rfl⟩ := step_shutdown h
    have hns : ¬ s.swept := by rcases hp with hp | hp <;> simp [St.swept, hp]
    refine { hi with ended := ?_, post := fun hs => absurd hs hns }
    intro _
    rcases hwhy with hc | hc
    · exact hc
    · exact hi.ended (Or.inl hc)
  | beginSweep =>
    obtain ⟨⟨hp, hcl⟩, rfl⟩ := step_beginSweep hfix h
    have hns : ¬ s.swept := by simp [St.swept, hp]
    have hnd : (s.cache ++ s.queue).Nodup := (List.perm_append_comm.nodup_iff).mp hi.nodup
    refine { hi with acc_where := ?_, nodup := ?_, ended := fun _ => hi.ended (Or.inl hp), pre := ?_, post := ?_,
                     todo_sub := ?_, todo_nodup := hnd, runs_spec := ?_, done_todo := by simp }
    · intro k; rw [hi.acc_where k]; simp only [List.not_mem_nil, List.mem_append, false_or]; exact Or.comm
    · simpa using hnd
    · intro h'; simp [St.swept] at h'
    · intro _; exact ⟨rfl, hcl⟩
    · intro k hk; exact hk
    · intro _ k
      refine ⟨fun hk => absurd hk.1 hk.2, fun _ => (hi.pre hns).2.2 k⟩
  | runJob j =>
    obtain ⟨⟨hp, hj⟩, rfl⟩ := step_runJob h
    have hsw : s.swept := Or.inl hp
    have hc : s.cancelled = true := hi.ended (Or.inr (Or.inl hp))
    have hjc : j ∈ s.cache := hi.todo_sub j hj
    have hr0 : s.runs j = 0 := ((hi.runs_spec hsw j).2 (fun hh => hh.2 hj))
    refine { hi with pre := fun hn => absurd hsw hn, todo_sub := ?_, todo_nodup := hi.todo_nodup.erase j,
                     runs_spec := ?_, done_todo := (by intro hd; simp [hp] at hd), early := ?_ }
    · intro k hk; exact hi.todo_sub k (List.mem_of_mem_erase hk)
    · intro _ k
      by_cases hk : k = j
      · subst hk
        refine ⟨fun _ => by simp [hr0], fun hn => absurd ⟨hjc, hi.todo_nodup.not_mem_erase⟩ hn⟩
      · simp only [upd_other _ _ _ _ hk, List.mem_erase_of_ne hk, List.mem_cons, hk, false_or]
        exact hi.runs_spec hsw k
    · intro k; by_cases hk : k = j
      · subst hk; simp [hc]
      · simpa [hk] using hi.early k
  | finish =>
    obtain ⟨⟨hp, ht⟩, rfl⟩ := step_finish h
    have hsw : s.swept := Or.inl hp
    exact { hi with ended := fun _ => hi.ended (Or.inr (Or.inl hp)), pre := (by intro hn; simp [St.swept] at hn),
                    post := fun _ => hi.post hsw, runs_spec := fun _ => hi.runs_spec hsw, done_todo := fun _ => ht }

theorem reachable_inv {c : Cfg} (hfix : c.legacyNoSweep = false) {s : St} (h : Reachable c s) : Inv s := by
  obtain ⟨acts, h⟩ := h
  suffices ∀ (acts : List Act) (s0 : St), Inv s0 → run c s0 acts = some s → Inv s from this acts init inv_init h
  intro acts
  induction acts with
  | nil => intro s0 h0 hr; simp [run] at hr; subst hr; exact h0
  | cons a as ih =>
    intro s0 h0 hr
    simp only [run, List.foldlM_cons, Option.bind_eq_bind] at hr
    cases hs : step c s0 a with
    | none => simp [hs] at hr
    | some s1 => rw [hs] at hr; exact ih s1 (inv_step hfix h0 hs) hr

end FunModel.Orch.Cln
