import FunProofs.ServiceInv

/-! C10 helper lemmas, part 5: every logged event meets its obligation (`evOk`); the combined invariant `Inv`
    holds in every reachable state of the current code. -/

namespace FunModel.Service

set_option linter.unusedSimpArgs false

/-! ### every logged event meets its obligation (`evOk`) -/

theorem endedBefore_tick {c : Cfg} {l : Log} {k K : Nat} (h : k ≤ K) (evs : List Ev) (ph : Phase) :
    endedBefore c (l ++ stamp K evs) k ph = endedBefore c l k ph := by
  simp only [endedBefore, before_tick h]

theorem phasesDoneBefore_tick {c : Cfg} {l : Log} {k K : Nat} (h : k ≤ K) (evs : List Ev) :
    phasesDoneBefore c (l ++ stamp K evs) k = phasesDoneBefore c l k := by
  simp only [phasesDoneBefore, endedBefore_tick h]

theorem ctxEndBefore_mono {c : Cfg} {l : Log} {k K : Nat} (h : k ≤ K) (evs : List Ev)
    (h0 : ctxEndBefore c l k = true) : ctxEndBefore c (l ++ stamp K evs) k = true := by
  simp only [ctxEndBefore, before_tick h, Bool.or_eq_true] at h0 ⊢
  rcases h0 with h0 | h0
  · exact Or.inl h0
  · refine Or.inr ?_
    rw [List.any_eq_true] at h0 ⊢
    obtain ⟨x, hx, hp⟩ := h0
    refine ⟨x, List.mem_append_left _ hx, ?_⟩
    cases hx2 : x.2 <;> simp only [hx2] at hp ⊢ <;> (try exact hp)
    simp only [Bool.and_eq_true] at hp ⊢
    refine ⟨hp.1, ?_⟩
    have := hp.2
    rw [List.any_eq_true] at this ⊢
    obtain ⟨y, hy, hq⟩ := this
    exact ⟨y, List.mem_append_left _ hy, hq⟩

theorem runningCallOk_mono {l : Log} {K : Nat} (hclk : ∀ x ∈ l, x.1 < K) (evs : List Ev) (t i : Nat)
    (h0 : runningCallOk l t i = true) : runningCallOk (l ++ stamp K evs) t i = true := by
  simp only [runningCallOk, List.any_eq_true] at h0 ⊢
  obtain ⟨y, hy, hp⟩ := h0
  refine ⟨y, List.mem_append_left _ hy, ?_⟩
  rw [before_tick (Nat.le_of_lt (hclk y hy))]
  exact hp

/-- an obligation met in a log stays met when a step appends its events -/
theorem evOk_mono {c : Cfg} {l : Log} {k K : Nat} (hclk : ∀ x ∈ l, x.1 < K) (hk : k ≤ K) (evs : List Ev) (e : Ev)
    (h0 : evOk c l k e = true) : evOk c (l ++ stamp K evs) k e = true := by
  cases e with
  | call t i op => simp [evOk]
  | cancelParent p => simp [evOk]
  | phEnd ph => simpa only [evOk, before_tick hk] using h0
  | phBegin ph agg =>
    cases ph with
    | run => simpa only [evOk] using h0
    | shutdown =>
      simp only [evOk, Bool.and_eq_true] at h0 ⊢
      exact ⟨h0.1, ctxEndBefore_mono hk evs h0.2⟩
    | cleanup => simpa only [evOk, endedBefore_tick hk] using h0
    | handler => simpa only [evOk, phasesDoneBefore_tick hk] using h0
  | ret t i r =>
    cases r with
    | waitResult ids => simpa only [evOk, phasesDoneBefore_tick hk] using h0
    | startReturned => simpa only [evOk, phasesDoneBefore_tick hk] using h0
    | running b =>
      cases b with
      | true => simp only [evOk] at h0 ⊢; exact runningCallOk_mono hclk evs t i h0
      | false => simp [evOk]
    | _ => simp [evOk]

/-- every logged event meets its obligation -/
def Evs (c : Cfg) (s : State) : Prop := ∀ x ∈ s.log, evOk c s.log x.1 x.2 = true

/-- a step preserves `Evs` if the events it appends meet their obligations in the new log -/
theorem Evs.step {c : Cfg} {s s' : State} (h : Evs c s) (hclk : Clk s) (evs : List Ev)
    (hl : s'.log = s.log ++ stamp s.clock evs)
    (hnew : ∀ e ∈ evs, evOk c (s.log ++ stamp s.clock evs) s.clock e = true) : Evs c s' := by
  intro x hx
  rw [hl] at hx ⊢
  rcases List.mem_append.mp hx with hx | hx
  · exact evOk_mono hclk (Nat.le_of_lt (hclk x hx)) evs x.2 (h x hx)
  · rw [mem_stamp] at hx
    rw [hx.1]; exact hnew _ hx.2


theorem before_new {s : State} (hclk : Clk s) (evs : List Ev) (p : Ev → Bool) :
    before (s.log ++ stamp s.clock evs) s.clock p = has s.log p := before_tick_new hclk evs p

theorem mem_mustIds {c : Cfg} {i : Nat} (h : i ∈ mustIds c) :
    (c.run = .err i) ∨ (runPanics c ∧ i = idPanic) ∨ (c.shutdown = .err i) ∨ ((∃ p, c.shutdown = .panic p) ∧ i = idPanic)
      ∨ (c.cleanup = .err i) ∨ ((∃ p, c.cleanup = .panic p) ∧ i = idPanic) := by
  unfold mustIds at h
  cases hr : c.run <;> cases hs : c.shutdown <;> cases hc : c.cleanup <;> simp_all [runPanics] <;> grind

/-- once `isFinished` is set, Run, Shutdown and Cleanup have returned and the collector is complete -/
theorem finished_facts {c : Cfg} {s : State} (hG : InvG c s) (h2 : Inv2 c s) (hf : s.isFinished = true) (evs : List Ev) :
    phasesDoneBefore c (s.log ++ stamp s.clock evs) s.clock = true
      ∧ (mustIds c).all (fun i => s.coll.contains i) = true ∧ (!(mustIds c).isEmpty || s.coll.isEmpty) = true := by
  have hr : 9 ≤ s.rg.rank := by have := hG.fin; rw [hf] at this; simpa using this.symm
  have hsig : s.shutdownSig = true := hG.rgSd (by omega)
  have hsd : 4 ≤ s.sd.rank := by have := hG.sdS; rw [hsig] at this; simpa using this.symm
  refine ⟨?_, ?_, ?_⟩
  · simp only [phasesDoneBefore, endedBefore, before_new h2.clk, h2.run.runE, h2.run.cuE, h2.sd.sdE, Cfg.get]
    have a1 : 3 ≤ s.rg.rank := by omega
    have a2 : 8 ≤ s.rg.rank := by omega
    have a3 : 3 ≤ s.sd.rank := by omega
    cases c.run.present <;> cases c.shutdown.present <;> cases c.cleanup.present <;> simp [a1, a2, a3]
  · rw [List.all_eq_true]
    intro i hi
    have hc := h2.coll
    simp only [List.contains_eq_mem, decide_eq_true_eq]
    rcases mem_mustIds hi with h | ⟨h, rfl⟩ | h | ⟨⟨p, h⟩, rfl⟩ | h | ⟨⟨p, h⟩, rfl⟩
    · exact hc.collRun (by omega) i h
    · exact hc.collRunP (by omega) h
    · exact hc.collSdE (by omega) i h
    · exact hc.collSdP (by omega) p h
    · exact hc.collCuE (by omega) i h
    · exact hc.collCuP (by omega) p h
  · cases hm : (mustIds c).isEmpty
    · rfl
    · have : mustIds c = [] := by simpa using hm
      have := h2.coll.collNil ((mustIds_nil_iff c).mp this)
      simp [this]

theorem RgStep.evs {c : Cfg} {s s' : State} (hG : InvG c s) (h2 : Inv2 c s) (h : Evs c s) (hs : RgStep c s s') :
    Evs c s' := by
  have hclk := h2.clk
  cases hs with
  | entry hr hc =>
    refine h.step hclk _ rfl ?_
    intro e he; simp at he; subst he
    cases hrun : c.run <;> simp_all [evOk, Outcome.present]
  | runPanic hr hb p hc =>
    refine h.step hclk _ rfl ?_
    intro e he; simp at he; subst he
    simp only [evOk, before_new hclk]
    apply has_of_count_pos; rw [h2.run.runB]; simp [hr, RgLoc.rank, h2.run.inRunP hr]
  | runRet hr hb hc =>
    refine h.step hclk _ rfl ?_
    intro e he; simp at he; subst he
    simp only [evOk, before_new hclk]
    apply has_of_count_pos; rw [h2.run.runB]; simp [hr, RgLoc.rank, h2.run.inRunP hr]
  | cleanupBegin hr hc =>
    refine h.step hclk _ rfl ?_
    intro e he; simp at he; subst he
    have hsig : s.shutdownSig = true := hG.rgSd (by simp [hr, RgLoc.rank])
    have hsd : 4 ≤ s.sd.rank := by have := hG.sdS; rw [hsig] at this; simpa using this.symm
    have a3 : 3 ≤ s.sd.rank := by omega
    simp only [evOk, endedBefore, before_new hclk, h2.run.runE, h2.sd.sdE, Cfg.get, hr, RgLoc.rank]
    cases hcu : c.cleanup <;> simp_all [Outcome.present]
    all_goals (cases c.run.present <;> cases c.shutdown.present <;> simp)
  | cleanupEnd hr =>
    refine h.step hclk _ rfl ?_
    intro e he; simp at he; subst he
    simp only [evOk, before_new hclk]
    apply has_of_count_pos; rw [h2.run.cuB]; simp [hr, RgLoc.rank, h2.run.inCuP hr]
  | _ => exact h.step hclk [] rfl (by simp)


theorem ctxEnd_new {c : Cfg} {s : State} (h2 : Inv2 c s) (hd : s.ctxDone = true) (evs : List Ev) :
    ctxEndBefore c (s.log ++ stamp s.clock evs) s.clock = true := by
  have hclk := h2.clk
  simp only [ctxEndBefore, before_new hclk, Bool.or_eq_true]
  simp only [State.ctxDone, Bool.or_eq_true] at hd
  rcases hd with hd | hd
  · rcases h2.ctx.cc hd with h | h | h
    · exact Or.inl (Or.inl (Or.inl (by simp [h])))
    · exact Or.inl (Or.inl (Or.inr h))
    · exact Or.inl (Or.inr h)
  · refine Or.inr ?_
    cases hp : s.svcParent with
    | none => simp [hp] at hd
    | some p =>
      simp only [hp, List.contains_eq_mem, decide_eq_true_eq] at hd
      obtain ⟨k, hk⟩ := h2.ctx.pc1 p hd
      obtain ⟨k', t, i, hk'⟩ := h2.ctx.pc2 p hp
      rw [List.any_eq_true]
      refine ⟨(k, .cancelParent p), List.mem_append_left _ hk, ?_⟩
      simp only [Bool.and_eq_true, decide_eq_true_eq]
      refine ⟨hclk _ hk, ?_⟩
      rw [List.any_eq_true]
      exact ⟨(k', .call t i (.start p)), List.mem_append_left _ hk', by simp⟩

theorem SdStep.evs {c : Cfg} {s s' : State} (h2 : Inv2 c s) (h : Evs c s) (hs : SdStep c s s') : Evs c s' := by
  have hclk := h2.clk
  cases hs with
  | entry hr hd hc =>
    refine h.step hclk _ rfl ?_
    intro e he; simp at he; subst he
    simp only [evOk, ctxEnd_new h2 hd]
    cases hsd : c.shutdown <;> simp_all [Outcome.present]
  | shutdownEnd hr =>
    refine h.step hclk _ rfl ?_
    intro e he; simp at he; subst he
    simp only [evOk, before_new hclk]
    apply has_of_count_pos; rw [h2.sd.sdB]; simp [hr, SdLoc.rank, h2.sd.inSdP hr]
  | _ => exact h.step hclk [] rfl (by simp)

theorem EhStep.evs {c : Cfg} {s s' : State} (hG : InvG c s) (h2 : Inv2 c s) (h : Evs c s) (hs : EhStep c s s') :
    Evs c s' := by
  have hclk := h2.clk
  cases hs with
  | call hr hg hc hn =>
    refine h.step hclk _ rfl ?_
    intro e he; simp at he; subst he
    have hm : s.mainSig = true := hG.ehMain (by simp [hr, EhLoc.rank])
    have hf : s.isFinished = true := by
      have h11 : 11 ≤ s.rg.rank := by have := hG.mainS; rw [hm] at this; simpa using this.symm
      rw [hG.fin]; simp; omega
    have := (finished_facts hG h2 hf [Ev.phBegin Phase.handler s.coll]).1
    simp only [evOk, this]
    cases hh : c.handler <;> simp_all [Outcome.present]
  | handlerPanic hr p hc =>
    refine h.step hclk _ rfl ?_
    intro e he; simp at he; subst he
    simp only [evOk, before_new hclk]; exact h2.eh.ehBeg hr
  | handlerEnd hr hc =>
    refine h.step hclk _ rfl ?_
    intro e he; simp at he; subst he
    simp only [evOk, before_new hclk]; exact h2.eh.ehBeg hr
  | _ => exact h.step hclk [] rfl (by simp)

theorem Evs.cancelParent {c : Cfg} {s : State} (h2 : Inv2 c s) (h : Evs c s) (p : Nat) :
    Evs c ({ s with cancelled := p :: s.cancelled }.tick [.cancelParent p]) := by
  refine h.step h2.clk _ rfl ?_
  intro e he; simp at he; subst he; simp [evOk]


theorem finished_of_wg {c : Cfg} {s : State} (hG : InvG c s) (hT : InvT c s) (hst : s.isStarted = true) (hw : s.wg = 0) :
    s.isFinished = true := by
  have hl := hG.launched (hT.st hst)
  have := hG.wgEq
  rw [hw] at this
  have hr : liveRg s.rg = 0 := by omega
  rw [hG.fin]
  have hne := hl.1
  cases hrg : s.rg <;> simp [hrg, liveRg, RgLoc.rank] at hr hne ⊢

theorem evOk_waitResult {c : Cfg} {s : State} (hG : InvG c s) (h2 : Inv2 c s) (hf : s.isFinished = true)
    (evs : List Ev) (t i : Nat) : evOk c (s.log ++ stamp s.clock evs) s.clock (.ret t i (.waitResult s.coll)) = true := by
  obtain ⟨a, b, d⟩ := finished_facts hG h2 hf evs
  simp only [evOk, a, b, d, Bool.and_self]

theorem evOk_startReturned {c : Cfg} {s : State} (hG : InvG c s) (h2 : Inv2 c s) (hf : s.isFinished = true)
    (evs : List Ev) (t i : Nat) : evOk c (s.log ++ stamp s.clock evs) s.clock (.ret t i .startReturned) = true := by
  simp only [evOk, (finished_facts hG h2 hf evs).1]

theorem ThStep.evs {c : Cfg} {s s' : State} {t : Nat} {th : Thread} (h1 : Inv1 c s) (h2 : Inv2 c s) (h : Evs c s)
    (hth : s.ths[t]? = some th) (hs : ThStep c s t th s') : Evs c s' := by
  have hclk := h2.clk
  obtain ⟨hG, hT⟩ := h1
  cases hs with
  | startReturned p ho hl hf =>
    refine h.step hclk _ rfl ?_
    intro e he; simp at he
    rcases he with rfl | rfl
    · simp [evOk]
    · exact evOk_startReturned hG h2 hf _ _ _
  | startUndo p ho hl =>
    refine h.step hclk _ rfl ?_
    intro e he; simp at he; subst he
    exact evOk_startReturned hG h2 (hT.t5 t th hth hl) _ _ _
  | waitFinished ho hl hf =>
    refine h.step hclk _ rfl ?_
    intro e he; simp at he
    rcases he with rfl | rfl
    · simp [evOk]
    · exact evOk_waitResult hG h2 hf _ _ _
  | waitDone ho hl hw =>
    refine h.step hclk _ rfl ?_
    intro e he; simp at he; subst he
    exact evOk_waitResult hG h2 (finished_of_wg hG hT (h2.th.ws t th hth hl) hw) _ _ _
  | runningLoad ho hl =>
    refine h.step hclk _ rfl ?_
    intro e he; simp at he; subst he
    cases hr : s.isRunning with
    | false => simp [evOk]
    | true =>
      obtain ⟨k, op, ho', hk⟩ := h2.book.cm1 t th hth (by simp [hl])
      rw [ho] at ho'; injection ho' with ho'; subst ho'
      simp only [evOk, runningCallOk, List.any_eq_true]
      refine ⟨(k, .call t th.pc .running), List.mem_append_left _ hk, ?_⟩
      have hkK : k ≤ s.clock := Nat.le_of_lt (hclk _ hk)
      simp only [before_tick hkK, beq_self_eq_true, Bool.true_and, Bool.not_eq_true']
      cases hb : before s.log k isWaitRes with
      | false => rfl
      | true =>
        simp only [before, List.any_eq_true, Bool.and_eq_true, decide_eq_true_eq] at hb
        obtain ⟨x, hx, hlt, hw⟩ := hb
        have := h2.th.rc t th hth hl x hx (k, .call t th.pc .running) hk hw rfl
        simp at this; omega
  | startCheck | startAlready | startSwap | startRecheck | startClaim | startLaunch | startOnceDone | startStore
  | startNil | close | waitCheck | waitStarted | waitNotStarted | runningFinished | runningCheck =>
    refine h.step hclk _ rfl ?_
    intro e he
    first
      | (simp at he; done)
      | (simp at he; rcases he with h | h <;> subst h <;> simp [evOk]; done)
      | (simp at he; subst he; simp [evOk]; done)

/-- all invariants together -/
structure Inv (c : Cfg) (s : State) : Prop where
  i1 : Inv1 c s
  i2 : Inv2 c s
  evs : Evs c s

theorem Inv.init (c : Cfg) (ps : List (List Op)) : Inv c (init ps) :=
  ⟨Inv1.init c ps, Inv2.init c ps, by intro x hx; simp [Service.init] at hx⟩

theorem Trans.inv {c : Cfg} {s s' : State} (h : Inv c s) (hs : Trans c s s') : Inv c s' := by
  obtain ⟨h1, h2, h3⟩ := h
  refine ⟨hs.inv1 h1, hs.inv2 h1 h2, ?_⟩
  cases hs with
  | th t th hth hs => exact hs.evs h1 h2 h3 hth
  | rg hs => exact hs.evs h1.1 h2 h3
  | sd hs => exact hs.evs h2 h3
  | eh hs => exact hs.evs h1.1 h2 h3
  | cancelParent p hp => exact h3.cancelParent h2 p

/-- every reachable state of the current code satisfies all invariants -/
theorem Inv.reachable {c : Cfg} (hc : c.current) {ps : List (List Op)} {s : State} (hr : Reachable c ps s) : Inv c s :=
  reachable_induction (Inv c) (Inv.init c ps) (fun _ _ _ h hs => (step_sound hc hs).inv h) hr

end FunModel.Service
