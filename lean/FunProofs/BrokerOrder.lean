import FunProofs.BrokerLog

/-! C08: order. Messages are taken by the event loop in each publisher's order; the distributor and
    the order of `Receive` keep it; with a single dispatch worker every subscriber's sequence is a
    subsequence of the dispatch order while the broker's context is live. -/

namespace FunProofs.Broker
open FunModel.Broker

/-- the order in which one publisher's messages must appear -/
def PubLt (a b : Msg) : Prop := a.1 = b.1 → a.2 < b.2

theorem filter_mem_of_sublist {l D : List Msg} (h : l.Sublist D) (hD : D.Nodup) :
    D.filter (fun x => l.contains x) = l := by
  induction h with
  | slnil => rfl
  | cons a hs ih =>
    rename_i l' D'
    have hD' := (List.nodup_cons.mp hD)
    have : a ∉ l' := fun ha => hD'.1 (hs.subset ha)
    simp only [List.filter_cons, List.contains_iff_mem, this]
    simpa using ih hD'.2
  | cons_cons a hs ih =>
    rename_i l' D'
    have hD' := (List.nodup_cons.mp hD)
    have e : D'.filter (fun x => (a :: l').contains x) = D'.filter (fun x => l'.contains x) := by
      apply List.filter_congr
      intro x hx
      have : x ≠ a := fun he => hD'.1 (he ▸ hx)
      simp [this]
    have e2 : (a :: D').filter (fun x => (a :: l').contains x)
        = a :: D'.filter (fun x => (a :: l').contains x) := by
      simp
    rw [e2, e, ih hD'.2]

theorem consistent_of_sublist {l1 l2 D : List Msg} (h1 : l1.Sublist D) (h2 : l2.Sublist D) (hD : D.Nodup) :
    consistent l1 l2 = true := by
  simp only [consistent, beq_iff_eq]
  have e1 := filter_mem_of_sublist h1 hD
  have e2 := filter_mem_of_sublist h2 hD
  conv => lhs; rw [← e1]
  conv => rhs; rw [← e2]
  simp only [List.filter_filter]
  apply List.filter_congr
  intro x _
  rw [Bool.and_comm]

theorem increasing_of_pairwise : ∀ {l : List Nat}, l.Pairwise (· < ·) → increasing l = true
  | [], _ => rfl
  | [_], _ => rfl
  | a :: b :: l, h => by
    have h' := List.pairwise_cons.mp h
    simp only [increasing, Bool.and_eq_true, decide_eq_true_eq]
    exact ⟨h'.1 b List.mem_cons_self, increasing_of_pairwise h'.2⟩

theorem pubOrdered_of_pairwise {l : List Msg} (h : l.Pairwise PubLt) : pubOrdered l = true := by
  simp only [pubOrdered, List.all_eq_true]
  intro p _
  apply increasing_of_pairwise
  rw [List.pairwise_map]
  rw [List.pairwise_filter]
  refine h.imp ?_
  intro a b hab ha hb
  simp only [beq_iff_eq] at ha hb
  exact hab (ha.trans hb.symm)

theorem nodup_of_pubLt {l : List Msg} (h : l.Pairwise PubLt) : l.Nodup := by
  refine h.imp ?_
  intro a b hab he
  subst he
  exact absurd (hab rfl) (Nat.lt_irrefl _)

/-! ### the order in which messages are taken and dispatched (any number of workers) -/

def callPubIds (cl : Call) : List Nat :=
  match cl.kind with
  | .pub m => [m.1]
  | _ => []

def pubIds (calls : List Call) : List Nat := calls.flatMap callPubIds

structure Ord1 (s : St) : Prop where
  pubOne : ∀ p, (pubIds s.calls).count p ≤ 1
  below : ∀ m ∈ s.taken, ∀ cl ∈ s.calls, ∀ m', cl.kind = CallKind.pub m' → m'.1 = m.1 → m.2 < m'.2
  takenLt : ∀ m ∈ s.taken, m.2 < s.nextSeq m.1
  pw : s.taken.Pairwise PubLt
  sub : (s.dispatched ++ s.buf ++ s.loop.msgs).Sublist s.taken

theorem ord1_init (c : Cfg) : Ord1 (init c) := by
  refine ⟨by simp [init, pubIds], by simp [init], by simp [init], by simp [init], by simp [init, Loop.msgs]⟩

theorem sendTo_sublist {b : Backend} {buf : List Msg} {m : Msg} {accept : Bool} {buf' dropped : List Msg}
    (h : sendTo b buf m accept = some (buf', dropped)) : buf'.Sublist (buf ++ [m]) := by
  cases b with
  | fifo =>
    simp only [sendTo] at h
    split at h
    · cases h; exact List.Sublist.refl _
    · cases h
  | blocking cap =>
    simp only [sendTo] at h
    split at h
    · cases h; exact List.Sublist.refl _
    · cases h
  | shedding hard =>
    simp only [sendTo] at h
    split at h
    · split at h
      · cases h; exact List.Sublist.refl _
      · cases h
    · split at h
      · cases h
      · cases h; exact List.sublist_append_left _ _
  | evicting cap =>
    simp only [sendTo] at h
    split at h
    · cases h
    · split at h
      · cases h; exact List.Sublist.refl _
      · split at h
        · cases h; exact List.Sublist.refl _
        · cases h; exact List.sublist_cons_self _ _

theorem count_pubIds_pos {calls : List Call} {cl : Call} {m : Msg} (hcl : cl ∈ calls)
    (hk : cl.kind = CallKind.pub m) : 0 < (pubIds calls).count m.1 := by
  apply List.count_pos_iff.mpr
  simp only [pubIds, List.mem_flatMap]
  exact ⟨cl, hcl, by simp [callPubIds, hk]⟩

theorem ord1_step {c : Cfg} {s s' : St} {a : Act} (hu : Uniq s) (ho : Ord1 s) (h : Step c s a s') : Ord1 s' := by
  obtain ⟨h1, h2, h3, h4, h5⟩ := ho
  -- removing a pending call
  have erase : ∀ {i : Nat} {cl : Call}, s.calls[i]? = some cl →
      (∀ p, (pubIds (s.calls.eraseIdx i)).count p ≤ 1) ∧
      (∀ m ∈ s.taken, ∀ cl ∈ s.calls.eraseIdx i, ∀ m', cl.kind = CallKind.pub m' → m'.1 = m.1 → m.2 < m'.2) := by
    intro i cl hc
    refine ⟨fun p => ?_, fun m hm cl' hcl' => h2 m hm cl' (List.mem_of_mem_eraseIdx hcl')⟩
    have := count_flatMap_eraseIdx callPubIds p s.calls i cl hc
    have := h1 p
    simp only [pubIds] at this ⊢
    omega
  -- adding a call that is not a Publish
  have app : ∀ (cl0 : Call), (∀ m, cl0.kind ≠ CallKind.pub m) →
      (∀ p, (pubIds (s.calls ++ [cl0])).count p ≤ 1) ∧
      (∀ m ∈ s.taken, ∀ cl ∈ s.calls ++ [cl0], ∀ m', cl.kind = CallKind.pub m' → m'.1 = m.1 → m.2 < m'.2) := by
    intro cl0 hne
    constructor
    · intro p
      have hz : callPubIds cl0 = [] := by
        cases hk : cl0.kind with
        | pub m => exact absurd hk (hne m)
        | _ => simp [callPubIds, hk]
      simp only [pubIds, List.flatMap_append, List.flatMap_cons, List.flatMap_nil, hz, List.append_nil]
      exact h1 p
    · intro m hm cl hcl m' hk
      simp only [List.mem_append, List.mem_singleton] at hcl
      rcases hcl with hcl | hcl
      · exact h2 m hm cl hcl m' hk
      · subst hcl; exact absurd hk (hne m')
  cases h
  case subCall => exact ⟨(app _ (by simp)).1, (app _ (by simp)).2, h3, h4, h5⟩
  case unsubCall k => exact ⟨(app _ (by simp)).1, (app _ (by simp)).2, h3, h4, h5⟩
  case statsCall => exact ⟨(app _ (by simp)).1, (app _ (by simp)).2, h3, h4, h5⟩
  case waitCall => exact ⟨(app _ (by simp)).1, (app _ (by simp)).2, h3, h4, h5⟩
  case pubCall p hp =>
    have hzero : (pubIds s.calls).count p = 0 := by
      apply List.count_eq_zero.mpr
      intro hmem
      simp only [pubIds, List.mem_flatMap] at hmem
      obtain ⟨cl, hcl, hin⟩ := hmem
      have hany : s.calls.any (Call.isPubOf p) = true := by
        simp only [List.any_eq_true]
        refine ⟨cl, hcl, ?_⟩
        simp only [callPubIds] at hin
        split at hin
        · rename_i m hm
          simp only [List.mem_singleton] at hin
          simp [Call.isPubOf, hm, hin]
        · cases hin
      rw [hp] at hany; cases hany
    refine ⟨?_, ?_, ?_, h4, h5⟩
    · intro p'
      simp only [pubIds, List.flatMap_append, List.flatMap_cons, List.flatMap_nil, callPubIds, List.append_nil,
        List.count_append, List.count_cons, List.count_nil, beq_iff_eq]
      have := h1 p'
      simp only [pubIds] at this hzero
      split
      · rename_i he; subst he; omega
      · omega
    · intro m hm cl hcl m' hk he
      simp only [List.mem_append, List.mem_singleton] at hcl
      rcases hcl with hcl | hcl
      · exact h2 m hm cl hcl m' hk he
      · subst hcl
        simp only [CallKind.pub.injEq] at hk
        subst hk
        have := h3 m hm
        simp only at he
        rw [← he] at this
        exact this
    · intro m hm
      have := h3 m hm
      simp only [upd_apply]
      split
      · rename_i he; rw [he] at this; exact Nat.lt_succ_of_lt this
      · exact this
  case cancelCall i cl hc =>
    refine ⟨?_, ?_, h3, h4, h5⟩
    · intro p
      have := count_flatMap_set callPubIds p s.calls i cl { cl with cancelled := true } hc
      have h1p := h1 p
      simp only [pubIds, callPubIds] at this h1p ⊢
      omega
    · intro m hm cl' hcl' m' hk
      rcases List.mem_or_eq_of_mem_set hcl' with h | h
      · exact h2 m hm cl' h m' hk
      · subst h; exact h2 m hm cl (List.mem_of_getElem? hc) m' hk
  case stop => exact ⟨h1, h2, h3, h4, h5⟩
  case openSub k => exact ⟨h1, h2, h3, h4, h5⟩
  case gateSub k => exact ⟨h1, h2, h3, h4, h5⟩
  case observeQuiet hq => exact ⟨h1, h2, h3, h4, h5⟩
  case census hq => exact ⟨h1, h2, h3, h4, h5⟩
  case enqSub i k x hc hq => exact ⟨(erase hc).1, (erase hc).2, h3, h4, h5⟩
  case enqUnsub i k x hc hq => exact ⟨(erase hc).1, (erase hc).2, h3, h4, h5⟩
  case callAbort i cl hc hx => exact ⟨(erase hc).1, (erase hc).2, h3, h4, h5⟩
  case waitRet i x hc hl hw => exact ⟨(erase hc).1, (erase hc).2, h3, h4, h5⟩
  case loopSubQ k rest hl hq => exact ⟨h1, h2, h3, h4, h5⟩
  case loopSub i k x hl hc => exact ⟨(erase hc).1, (erase hc).2, h3, h4, h5⟩
  case loopUnsubQ k rest hl hq => exact ⟨h1, h2, h3, h4, h5⟩
  case loopUnsub i k x hl hc => exact ⟨(erase hc).1, (erase hc).2, h3, h4, h5⟩
  case loopStats i x hl hc => exact ⟨(erase hc).1, (erase hc).2, h3, h4, h5⟩
  case loopTake i m0 x hl hc =>
    have hmem : (⟨CallKind.pub m0, x⟩ : Call) ∈ s.calls := List.mem_of_getElem? hc
    have hlt0 : m0.2 < s.nextSeq m0.1 := by
      apply hu.seq; apply hu.pub
      have h1' := count_flatMap_ge Call.msgs m0 s.calls i _ hc
      simp only [Call.msgs, List.count_cons_self, List.count_nil] at h1'
      rw [count_flight]; simp only [callMsgs]; omega
    refine ⟨(erase hc).1, ?_, ?_, ?_, ?_⟩
    · intro m hm cl hcl m' hk he
      simp only [List.mem_append, List.mem_singleton] at hm
      rcases hm with hm | hm
      · exact (erase hc).2 m hm cl hcl m' hk he
      · subst hm
        exfalso
        have hpos := count_pubIds_pos hcl hk
        have hce := count_flatMap_eraseIdx callPubIds m'.1 s.calls i _ hc
        have hle := h1 m'.1
        simp only [pubIds, callPubIds, he, List.count_cons_self, List.count_nil] at hpos hce hle
        omega
    · intro m hm
      simp only [List.mem_append, List.mem_singleton] at hm
      rcases hm with hm | hm
      · exact h3 m hm
      · subst hm; exact hlt0
    · rw [List.pairwise_append]
      refine ⟨h4, by simp, ?_⟩
      intro a ha b hb
      simp only [List.mem_singleton] at hb
      subst hb
      intro he
      exact h2 a ha _ hmem b rfl he.symm
    · rw [hl] at h5
      simp only [Loop.msgs, List.append_nil] at h5 ⊢
      have := h5.append (List.Sublist.refl [m0])
      simpa [List.append_assoc] using this
  case loopSend accept m buf' dropped hl hs =>
    refine ⟨h1, h2, h3, h4, ?_⟩
    rw [hl] at h5
    simp only [Loop.msgs, List.append_nil, List.append_assoc] at h5 ⊢
    exact ((sendTo_sublist hs).append_left s.dispatched).trans h5
  case loopSendAbort m hl hd =>
    refine ⟨h1, h2, h3, h4, ?_⟩
    rw [hl] at h5
    simp only [Loop.msgs, List.append_nil, List.append_assoc] at h5 ⊢
    exact ((List.sublist_append_left s.buf [m]).append_left s.dispatched).trans h5
  case loopExit hl hd =>
    refine ⟨h1, h2, h3, h4, ?_⟩
    rw [hl] at h5
    simpa [Loop.msgs] using h5
  case wRecvBuf w m rest hw hb =>
    refine ⟨h1, h2, h3, h4, ?_⟩
    rw [hb] at h5
    simpa [List.append_assoc] using h5
  case wRecvDirect w m cap hw hb hl hc =>
    refine ⟨h1, h2, h3, h4, ?_⟩
    rw [hb, hl] at h5
    simp only [hb]
    simpa [Loop.msgs, List.append_assoc] using h5
  all_goals exact ⟨h1, h2, h3, h4, h5⟩


/-! ### a single dispatch worker -/

/-- what subscriber `k` has received or has in its channel, in order -/
def rc (s : St) (k : Sub) : List Msg := s.recvd k ++ s.chan k

/-- single worker: how far each subscriber's sequence may have got in the dispatch order -/
def ord2At (s : St) : Worker → Prop
  | .got m => s.sends = [] ∧ ∃ d, s.dispatched = d ++ [m] ∧ ∀ k, (rc s k).Sublist d
  | .iter m _ visited =>
      (∀ p ∈ s.sends, p.2 = m ∧ p.1 ∈ visited) ∧ ∃ d, s.dispatched = d ++ [m] ∧
        ∀ k, ((k ∈ visited ∧ (k, m) ∉ s.sends) → (rc s k).Sublist (d ++ [m])) ∧
             ((k ∉ visited ∨ (k, m) ∈ s.sends) → (rc s k).Sublist d)
  | _ => s.sends = [] ∧ ∀ k, (rc s k).Sublist s.dispatched

def Ord2 (s : St) : Prop := s.live = true → ∀ x, s.ws = [x] → ord2At s x

theorem set_singleton {ws : List Worker} {w : Nat} {y x' z : Worker} (h : ws.set w y = [x'])
    (hw : ws[w]? = some z) : ws = [z] ∧ x' = y ∧ w = 0 := by
  have hlen : ws.length = 1 := by
    have := congrArg List.length h
    simpa using this
  match ws, hlen with
  | [x0], _ =>
    cases w with
    | zero =>
      simp only [List.getElem?_cons_zero, Option.some.injEq] at hw
      simp only [List.set_cons_zero, List.cons.injEq, and_true] at h
      exact ⟨by rw [hw], h.symm, rfl⟩
    | succ n => simp at hw

theorem ord2_init (c : Cfg) : Ord2 (init c) := by
  intro _ x hx
  have : x = Worker.idle := by
    have : x ∈ (init c).ws := by rw [hx]; exact List.mem_cons_self
    simp only [init, List.mem_replicate] at this
    exact this.2
  subst this
  simp [ord2At, init, rc]

theorem ord2_step {c : Cfg} {s s' : St} {a : Act} (hu : Uniq s) (ho : Ord2 s) (h : Step c s a s') : Ord2 s' := by
  have dead : ∀ {P : Prop}, s.live = false → s.live = true → P := by
    intro P h1 h2; rw [h1] at h2; cases h2
  intro hl' x' hws'
  cases h
  case stop => cases hl'
  case loopSendAbort m hl hd => exact dead hd hl'
  case loopExit hl hd => exact dead hd hl'
  case wAbandonGot w m hd hw => exact dead hd hl'
  case wAbandonIter w m start visited hd hw => exact dead hd hl'
  case wExit w hd hw => exact dead hd hl'
  case sendAbort k m hs hd => exact dead hd hl'
  case wRecvBuf w m rest hw hb =>
    obtain ⟨hws, hx, _⟩ := set_singleton hws' hw
    subst hx
    obtain ⟨h1, h2⟩ := ho hl' _ hws
    exact ⟨h1, s.dispatched, rfl, h2⟩
  case wRecvDirect w m cap hw hb hl hc =>
    obtain ⟨hws, hx, _⟩ := set_singleton hws' hw
    subst hx
    obtain ⟨h1, h2⟩ := ho hl' _ hws
    exact ⟨h1, s.dispatched, rfl, h2⟩
  case wStart w m hw =>
    obtain ⟨hws, hx, _⟩ := set_singleton hws' hw
    subst hx
    obtain ⟨h1, d, h2, h3⟩ := ho hl' _ hws
    refine ⟨(by intro p hp; rw [h1] at hp; cases hp), d, h2, fun k => ⟨(fun h => by simp at h), fun _ => h3 k⟩⟩
  case wNext w k0 m start visited hw hk0 hv hp =>
    obtain ⟨hws, hx, _⟩ := set_singleton hws' hw
    subst hx
    obtain ⟨h1, d, h2, h3⟩ := ho hl' _ hws
    refine ⟨?_, d, h2, fun k => ⟨?_, ?_⟩⟩
    · intro p hp'
      simp only [List.mem_append, List.mem_singleton] at hp'
      rcases hp' with hp' | hp'
      · exact ⟨(h1 p hp').1, List.mem_cons_of_mem _ (h1 p hp').2⟩
      · subst hp'; exact ⟨rfl, List.mem_cons_self⟩
    · intro ⟨hkv, hns⟩
      simp only [List.mem_append, List.mem_singleton, not_or, Prod.mk.injEq, and_true] at hns
      have hne : k ≠ k0 := hns.2
      have hkv' : k ∈ visited := by
        rcases List.mem_cons.mp hkv with h | h
        · exact absurd h hne
        · exact h
      exact (h3 k).1 ⟨hkv', hns.1⟩
    · intro hor
      rcases hor with hnv | hin
      · exact (h3 k).2 (Or.inl (fun h => hnv (List.mem_cons_of_mem _ h)))
      · simp only [List.mem_append, List.mem_singleton, Prod.mk.injEq, and_true] at hin
        rcases hin with hin | hin
        · exact (h3 k).2 (Or.inr hin)
        · subst hin; exact (h3 k).2 (Or.inl hv)
  case wDone w m start visited hw hr hp =>
    obtain ⟨hws, hx, _⟩ := set_singleton hws' hw
    subst hx
    obtain ⟨h1, d, h2, h3⟩ := ho hl' _ hws
    have hsends : s.sends = [] := by
      apply List.eq_nil_iff_forall_not_mem.mpr
      intro p hp'
      have : p ∈ pendingOf m s.sends := by
        simp only [pendingOf, List.mem_filter, beq_iff_eq]
        exact ⟨hp', (h1 p hp').1⟩
      rw [hp] at this; cases this
    refine ⟨hsends, fun k => ?_⟩
    show (rc s k).Sublist s.dispatched
    rw [h2]
    by_cases hkv : k ∈ visited
    · exact (h3 k).1 ⟨hkv, by rw [hsends]; simp⟩
    · exact ((h3 k).2 (Or.inl hkv)).trans (List.sublist_append_left _ _)
  case deliver k0 m0 hs hb =>
    have hcnt : (k0, m0) ∉ s.sends.erase (k0, m0) := by
      intro hmem
      have h1 : 0 < (s.sends.erase (k0, m0)).count (k0, m0) := List.count_pos_iff.mpr hmem
      have h2 := hu.donce k0 m0
      simp only [dcount] at h2
      rw [List.count_erase_self] at h1
      omega
    have hx := ho hl' x' hws'
    cases x' with
    | idle => exact absurd hs (by rw [hx.1]; simp)
    | exited => exact absurd hs (by rw [hx.1]; simp)
    | got m => exact absurd hs (by rw [hx.1]; simp)
    | iter m start visited =>
      obtain ⟨h1, d, h2, h3⟩ := hx
      have hm0 : m0 = m := (h1 _ hs).1
      subst hm0
      have hk0v : k0 ∈ visited := (h1 _ hs).2
      refine ⟨fun p hp => h1 p (List.mem_of_mem_erase hp), d, h2, fun k => ?_⟩
      by_cases hk : k = k0
      · subst hk
        have hrc : rc { s with sends := s.sends.erase (k, m0), chan := upd s.chan k (s.chan k ++ [m0]) } k
            = rc s k ++ [m0] := by simp [rc, List.append_assoc]
        rw [hrc]
        refine ⟨fun _ => ((h3 k).2 (Or.inr hs)).append (List.Sublist.refl _), ?_⟩
        intro hor
        rcases hor with h | h
        · exact absurd hk0v h
        · exact absurd h hcnt
      · have hrc : rc { s with sends := s.sends.erase (k0, m0), chan := upd s.chan k0 (s.chan k0 ++ [m0]) } k
            = rc s k := by simp [rc, upd_apply, hk]
        have hmem : (k, m0) ∈ s.sends.erase (k0, m0) ↔ (k, m0) ∈ s.sends :=
          List.mem_erase_of_ne (by simp [hk])
        rw [hrc]
        exact ⟨fun ⟨ha, hb'⟩ => (h3 k).1 ⟨ha, fun h => hb' (hmem.mpr h)⟩,
          fun hor => (h3 k).2 (hor.imp id hmem.mp)⟩
  case handoff k0 m0 hs hb hopen =>
    have hcnt : (k0, m0) ∉ s.sends.erase (k0, m0) := by
      intro hmem
      have h1 : 0 < (s.sends.erase (k0, m0)).count (k0, m0) := List.count_pos_iff.mpr hmem
      have h2 := hu.donce k0 m0
      simp only [dcount] at h2
      rw [List.count_erase_self] at h1
      omega
    have hx := ho hl' x' hws'
    cases x' with
    | idle => exact absurd hs (by rw [hx.1]; simp)
    | exited => exact absurd hs (by rw [hx.1]; simp)
    | got m => exact absurd hs (by rw [hx.1]; simp)
    | iter m start visited =>
      obtain ⟨h1, d, h2, h3⟩ := hx
      have hm0 : m0 = m := (h1 _ hs).1
      subst hm0
      have hk0v : k0 ∈ visited := (h1 _ hs).2
      refine ⟨fun p hp => h1 p (List.mem_of_mem_erase hp), d, h2, fun k => ?_⟩
      by_cases hk : k = k0
      · subst hk
        have hrc : rc { s with sends := s.sends.erase (k, m0), recvd := upd s.recvd k (s.recvd k ++ [m0]),
                               log := Ev.recv k m0 :: s.log } k
            = rc s k ++ [m0] := by simp [rc, hb]
        rw [hrc]
        refine ⟨fun _ => ((h3 k).2 (Or.inr hs)).append (List.Sublist.refl _), ?_⟩
        intro hor
        rcases hor with h | h
        · exact absurd hk0v h
        · exact absurd h hcnt
      · have hrc : rc { s with sends := s.sends.erase (k0, m0), recvd := upd s.recvd k0 (s.recvd k0 ++ [m0]),
                               log := Ev.recv k0 m0 :: s.log } k
            = rc s k := by simp [rc, upd_apply, hk]
        have hmem : (k, m0) ∈ s.sends.erase (k0, m0) ↔ (k, m0) ∈ s.sends :=
          List.mem_erase_of_ne (by simp [hk])
        rw [hrc]
        exact ⟨fun ⟨ha, hb'⟩ => (h3 k).1 ⟨ha, fun h => hb' (hmem.mpr h)⟩,
          fun hor => (h3 k).2 (hor.imp id hmem.mp)⟩
  case recv k0 m0 rest hb hopen =>
    have hrc : ∀ k, rc { s with chan := upd s.chan k0 rest, recvd := upd s.recvd k0 (s.recvd k0 ++ [m0]),
                                log := Ev.recv k0 m0 :: s.log } k = rc s k := by
      intro k
      by_cases hk : k = k0
      · subst hk; simp [rc, hb]
      · simp [rc, upd_apply, hk]
    have hx := ho hl' x' hws'
    cases x' with
    | idle => exact ⟨hx.1, fun k => by rw [hrc]; exact hx.2 k⟩
    | exited => exact ⟨hx.1, fun k => by rw [hrc]; exact hx.2 k⟩
    | got m =>
      obtain ⟨h1, d, h2, h3⟩ := hx
      exact ⟨h1, d, h2, fun k => by rw [hrc]; exact h3 k⟩
    | iter m start visited =>
      obtain ⟨h1, d, h2, h3⟩ := hx
      exact ⟨h1, d, h2, fun k => by rw [hrc]; exact h3 k⟩
  all_goals exact ho hl' x' hws'


theorem ord_reachable {c : Cfg} {s : St} (h : Reachable c s) : Ord1 s ∧ Ord2 s :=
  reachable_induction (fun s => Ord1 s ∧ Ord2 s) ⟨ord1_init c, ord2_init c⟩
    (fun _ _ _ hr hp hs => ⟨ord1_step (uniq_reachable hr) hp.1 hs, ord2_step (uniq_reachable hr) hp.2 hs⟩) s h

/-- the dispatch order keeps each publisher's order -/
theorem dispatched_pubLt {s : St} (ho : Ord1 s) : s.dispatched.Pairwise PubLt := by
  have h1 : s.dispatched.Sublist s.taken :=
    ((List.sublist_append_left _ _).trans (List.sublist_append_left _ _)).trans ho.sub
  exact ho.pw.sublist h1

/-- one worker, context live: what a subscriber received is a subsequence of the dispatch order -/
theorem recvd_sublist_dispatched {c : Cfg} (h1w : c.nworkers = 1) {s : St} (hw : WF c s) (ho : Ord2 s)
    (hl : s.live = true) (k : Sub) : (s.recvd k).Sublist s.dispatched := by
  have hlen : s.ws.length = 1 := by rw [hw.nws, h1w]
  match hws : s.ws, hlen with
  | [x], _ =>
    have hx := ho hl x hws
    have hrc : (s.recvd k).Sublist (rc s k) := List.sublist_append_left _ _
    cases x with
    | idle => exact hrc.trans (hx.2 k)
    | exited => exact hrc.trans (hx.2 k)
    | got m =>
      obtain ⟨_, d, h2, h3⟩ := hx
      rw [h2]; exact (hrc.trans (h3 k)).trans (List.sublist_append_left _ _)
    | iter m start visited =>
      obtain ⟨_, d, h2, h3⟩ := hx
      rw [h2]
      by_cases hc : k ∈ visited ∧ (k, m) ∉ s.sends
      · exact hrc.trans ((h3 k).1 hc)
      · have : k ∉ visited ∨ (k, m) ∈ s.sends := by
          by_cases hv : k ∈ visited
          · right; exact Classical.byContradiction (fun hn => hc ⟨hv, hn⟩)
          · left; exact hv
        exact (hrc.trans ((h3 k).2 this)).trans (List.sublist_append_left _ _)

/-! ### the log: the part older than the first `stop` fits one order -/

theorem liveLog_of_not_stopped : ∀ {l : List Ev}, stopped l = false → liveLog l = l
  | [], _ => rfl
  | e :: l, h => by
    simp only [stopped, List.contains_cons, Bool.or_eq_false_iff] at h
    have h2 : l.contains Ev.stop = false := h.2
    have h1 : (e == Ev.stop) = false := by
      have := h.1
      cases he : (e == Ev.stop) with
      | false => rfl
      | true =>
        have : (Ev.stop == e) = true := by
          rw [beq_iff_eq] at he ⊢; exact he.symm
        simp_all
    have h2' : Ev.stop ∉ l := by simpa using h2
    have h1' : e ≠ Ev.stop := by simpa using h1
    simp [liveLog, h1', h2']

theorem liveLog_cons_of_stopped {e : Ev} {l : List Ev} (h : stopped l = true) : liveLog (e :: l) = liveLog l := by
  have h' : Ev.stop ∈ l := by simpa [stopped] using h
  simp [liveLog, h']

theorem step_log_live {c : Cfg} {s s' : St} {a : Act} (h : Step c s a s') :
    (s'.live = s.live ∧ (s'.log = s.log ∨ ∃ e, s'.log = e :: s.log)) ∨
    (s'.live = false ∧ s'.log = Ev.stop :: s.log) := by
  cases h <;> first
    | exact Or.inl ⟨rfl, Or.inl rfl⟩
    | exact Or.inl ⟨rfl, Or.inr ⟨_, rfl⟩⟩
    | exact Or.inr ⟨rfl, rfl⟩

/-- one worker: the part of the log older than the first `stop` fits one dispatch order -/
def OrdLog (c : Cfg) (s : St) : Prop :=
  c.nworkers = 1 → ∃ D : List Msg, D.Pairwise PubLt ∧ ∀ k, (recvs k (liveLog s.log)).Sublist D

theorem ordlog_of_live {c : Cfg} {s : St} (hw : WF c s) (hli : LogInv c s) (ho : Ord1 s ∧ Ord2 s)
    (hl : s.live = true) : OrdLog c s := by
  intro h1w
  have hns : stopped s.log = false := by rw [hli.live, hl]; rfl
  refine ⟨s.dispatched, dispatched_pubLt ho.1, fun k => ?_⟩
  rw [liveLog_of_not_stopped hns, hli.recvs k]
  exact recvd_sublist_dispatched h1w hw ho.2 hl k

theorem ordlog_reachable {c : Cfg} {s : St} (h : Reachable c s) : OrdLog c s := by
  refine reachable_induction (OrdLog c) ?_ ?_ s h
  · intro _; exact ⟨[], List.Pairwise.nil, fun k => by simp [init, liveLog, recvs]⟩
  · intro s a s' hr hp hs
    have hu := uniq_reachable hr
    have hw := wf_reachable hr
    have hli := loginv_reachable hr
    have ho := ord_reachable hr
    cases hl' : s'.live with
    | true =>
      exact ordlog_of_live (wf_step hw hs) (loginv_step hu hw hli hs)
        ⟨ord1_step hu ho.1 hs, ord2_step hu ho.2 hs⟩ hl'
    | false =>
      intro h1w
      obtain ⟨D, hD, hsub⟩ := hp h1w
      refine ⟨D, hD, fun k => ?_⟩
      rcases step_log_live hs with ⟨hlive, hlog⟩ | ⟨_, hlog⟩
      · rcases hlog with hlog | ⟨e, hlog⟩
        · rw [hlog]; exact hsub k
        · have hst : stopped s.log = true := by rw [hli.live, ← hlive, hl']; rfl
          rw [hlog, liveLog_cons_of_stopped hst]; exact hsub k
      · cases hl : s.live with
        | true =>
          have hns : stopped s.log = false := by rw [hli.live, hl]; rfl
          have : liveLog (Ev.stop :: s.log) = s.log := by
            have h' : Ev.stop ∉ s.log := by simpa [stopped] using hns
            simp [liveLog, h']
          rw [hlog, this]
          have := hsub k
          rwa [liveLog_of_not_stopped hns] at this
        | false =>
          have hst : stopped s.log = true := by rw [hli.live, hl]; rfl
          rw [hlog, liveLog_cons_of_stopped hst]; exact hsub k

theorem orderOk_reachable {c : Cfg} {s : St} (h : Reachable c s) : orderOk c (liveLog s.log) = true := by
  simp only [orderOk, Bool.or_eq_true, bne_iff_ne, ne_eq, List.all_eq_true, Bool.and_eq_true]
  by_cases h1w : c.nworkers = 1
  · right
    obtain ⟨D, hD, hsub⟩ := ordlog_reachable h h1w
    intro k _
    refine ⟨pubOrdered_of_pairwise (hD.sublist (hsub k)), fun k' _ => ?_⟩
    exact consistent_of_sublist (hsub k) (hsub k') (nodup_of_pubLt hD)
  · left; exact h1w

/-- the outcome predicate holds of the log of every reachable state -/
theorem allowed_reachable {c : Cfg} (hv : Cfg.valid c) {s : St} (h : Reachable c s) : allowed c s.log = true := by
  simp only [allowed, Bool.and_eq_true]
  exact ⟨eventsOk_reachable hv h, orderOk_reachable h⟩

end FunProofs.Broker
