import FunProofs.Service

/-! C10 helper lemmas, part 2: the call log, phase events and the collector as functions of the goroutine locations. -/

namespace FunModel.Service

set_option linter.unusedSimpArgs false

/-! ### the call log -/

def has (l : Log) (p : Ev → Bool) : Bool := l.any (fun x => p x.2)

/-- the events appended by a step at clock `k` -/
def stamp (k : Nat) (evs : List Ev) : Log := evs.map (fun e => (k, e))

@[simp] theorem tick_log (s : State) (evs : List Ev) : (s.tick evs).log = s.log ++ stamp s.clock evs := rfl
@[simp] theorem tick_clock (s : State) (evs : List Ev) : (s.tick evs).clock = s.clock + 1 := rfl

@[simp] theorem tick_isRunning (s : State) (evs : List Ev) : (s.tick evs).isRunning = s.isRunning := rfl
@[simp] theorem tick_isFinished (s : State) (evs : List Ev) : (s.tick evs).isFinished = s.isFinished := rfl
@[simp] theorem tick_isStarted (s : State) (evs : List Ev) : (s.tick evs).isStarted = s.isStarted := rfl
@[simp] theorem tick_once (s : State) (evs : List Ev) : (s.tick evs).once = s.once := rfl
@[simp] theorem tick_cancelSet (s : State) (evs : List Ev) : (s.tick evs).cancelSet = s.cancelSet := rfl
@[simp] theorem tick_svcParent (s : State) (evs : List Ev) : (s.tick evs).svcParent = s.svcParent := rfl
@[simp] theorem tick_cancelled (s : State) (evs : List Ev) : (s.tick evs).cancelled = s.cancelled := rfl
@[simp] theorem tick_cancelCalled (s : State) (evs : List Ev) : (s.tick evs).cancelCalled = s.cancelCalled := rfl
@[simp] theorem tick_shutdownSig (s : State) (evs : List Ev) : (s.tick evs).shutdownSig = s.shutdownSig := rfl
@[simp] theorem tick_ehSig (s : State) (evs : List Ev) : (s.tick evs).ehSig = s.ehSig := rfl
@[simp] theorem tick_mainSig (s : State) (evs : List Ev) : (s.tick evs).mainSig = s.mainSig := rfl
@[simp] theorem tick_coll (s : State) (evs : List Ev) : (s.tick evs).coll = s.coll := rfl
@[simp] theorem tick_wg (s : State) (evs : List Ev) : (s.tick evs).wg = s.wg := rfl
@[simp] theorem tick_rg (s : State) (evs : List Ev) : (s.tick evs).rg = s.rg := rfl
@[simp] theorem tick_sd (s : State) (evs : List Ev) : (s.tick evs).sd = s.sd := rfl
@[simp] theorem tick_eh (s : State) (evs : List Ev) : (s.tick evs).eh = s.eh := rfl
@[simp] theorem tick_panicking (s : State) (evs : List Ev) : (s.tick evs).panicking = s.panicking := rfl
@[simp] theorem tick_ths (s : State) (evs : List Ev) : (s.tick evs).ths = s.ths := rfl
@[simp] theorem tick_claimed (s : State) (evs : List Ev) : (s.tick evs).claimed = s.claimed := rfl
@[simp] theorem setTh_isRunning (s : State) (t : Nat) (th : Thread) : (s.setTh t th).isRunning = s.isRunning := rfl
@[simp] theorem setTh_isFinished (s : State) (t : Nat) (th : Thread) : (s.setTh t th).isFinished = s.isFinished := rfl
@[simp] theorem setTh_isStarted (s : State) (t : Nat) (th : Thread) : (s.setTh t th).isStarted = s.isStarted := rfl
@[simp] theorem setTh_once (s : State) (t : Nat) (th : Thread) : (s.setTh t th).once = s.once := rfl
@[simp] theorem setTh_cancelSet (s : State) (t : Nat) (th : Thread) : (s.setTh t th).cancelSet = s.cancelSet := rfl
@[simp] theorem setTh_svcParent (s : State) (t : Nat) (th : Thread) : (s.setTh t th).svcParent = s.svcParent := rfl
@[simp] theorem setTh_cancelled (s : State) (t : Nat) (th : Thread) : (s.setTh t th).cancelled = s.cancelled := rfl
@[simp] theorem setTh_cancelCalled (s : State) (t : Nat) (th : Thread) : (s.setTh t th).cancelCalled = s.cancelCalled := rfl
@[simp] theorem setTh_shutdownSig (s : State) (t : Nat) (th : Thread) : (s.setTh t th).shutdownSig = s.shutdownSig := rfl
@[simp] theorem setTh_ehSig (s : State) (t : Nat) (th : Thread) : (s.setTh t th).ehSig = s.ehSig := rfl
@[simp] theorem setTh_mainSig (s : State) (t : Nat) (th : Thread) : (s.setTh t th).mainSig = s.mainSig := rfl
@[simp] theorem setTh_coll (s : State) (t : Nat) (th : Thread) : (s.setTh t th).coll = s.coll := rfl
@[simp] theorem setTh_wg (s : State) (t : Nat) (th : Thread) : (s.setTh t th).wg = s.wg := rfl
@[simp] theorem setTh_rg (s : State) (t : Nat) (th : Thread) : (s.setTh t th).rg = s.rg := rfl
@[simp] theorem setTh_sd (s : State) (t : Nat) (th : Thread) : (s.setTh t th).sd = s.sd := rfl
@[simp] theorem setTh_eh (s : State) (t : Nat) (th : Thread) : (s.setTh t th).eh = s.eh := rfl
@[simp] theorem setTh_panicking (s : State) (t : Nat) (th : Thread) : (s.setTh t th).panicking = s.panicking := rfl
@[simp] theorem setTh_claimed (s : State) (t : Nat) (th : Thread) : (s.setTh t th).claimed = s.claimed := rfl
@[simp] theorem setTh_clock (s : State) (t : Nat) (th : Thread) : (s.setTh t th).clock = s.clock := rfl
@[simp] theorem setTh_log (s : State) (t : Nat) (th : Thread) : (s.setTh t th).log = s.log := rfl
@[simp] theorem setTh_ths (s : State) (t : Nat) (th : Thread) : (s.setTh t th).ths = s.ths.set t th := rfl

theorem mem_stamp {k : Nat} {evs : List Ev} {x : Nat × Ev} : x ∈ stamp k evs ↔ x.1 = k ∧ x.2 ∈ evs := by
  simp only [stamp, List.mem_map]
  constructor
  · rintro ⟨e, he, rfl⟩; exact ⟨rfl, he⟩
  · rintro ⟨h1, h2⟩; exact ⟨x.2, h2, by cases x; simp_all⟩

@[simp] theorem stamp_nil (k : Nat) : stamp k [] = [] := rfl

theorem has_append (l l' : Log) (p : Ev → Bool) : has (l ++ l') p = (has l p || has l' p) := by
  simp [has]

theorem has_stamp (k : Nat) (evs : List Ev) (p : Ev → Bool) : has (stamp k evs) p = evs.any p := by
  simp [has, stamp, List.any_map, Function.comp_def]

theorem countEv_append (l l' : Log) (p : Ev → Bool) : countEv (l ++ l') p = countEv l p + countEv l' p := by
  simp [countEv]

theorem countEv_stamp (k : Nat) (evs : List Ev) (p : Ev → Bool) : countEv (stamp k evs) p = (evs.filter p).length := by
  simp [countEv, stamp, List.filter_map, Function.comp_def]

theorem has_iff {l : Log} {p : Ev → Bool} : has l p = true ↔ ∃ x ∈ l, p x.2 = true := by
  simp [has]

/-- with every logged clock below `k`, "before k" is "somewhere in the log" -/
theorem before_eq_has {l : Log} {k : Nat} (h : ∀ x ∈ l, x.1 < k) (p : Ev → Bool) : before l k p = has l p := by
  induction l with
  | nil => rfl
  | cons x xs ih =>
    have hx := h x (by simp)
    have := ih (fun y hy => h y (by simp [hy]))
    simp only [before, has, List.any_cons] at *
    simp [hx, this]

theorem before_stamp_ge {k K : Nat} (h : k ≤ K) (evs : List Ev) (p : Ev → Bool) : before (stamp K evs) k p = false := by
  simp only [before, stamp, List.any_map, List.any_eq_false]
  intro e _; simp; omega

theorem before_append (l l' : Log) (k : Nat) (p : Ev → Bool) : before (l ++ l') k p = (before l k p || before l' k p) := by
  simp [before]

/-- events stamped `K` are invisible to "before k" for `k ≤ K` -/
theorem before_tick {l : Log} {k K : Nat} (h : k ≤ K) (evs : List Ev) (p : Ev → Bool) :
    before (l ++ stamp K evs) k p = before l k p := by
  rw [before_append, before_stamp_ge h]; simp

theorem before_tick_new {l : Log} {K : Nat} (h : ∀ x ∈ l, x.1 < K) (evs : List Ev) (p : Ev → Bool) :
    before (l ++ stamp K evs) K p = has l p := by
  rw [before_tick (Nat.le_refl K), before_eq_has h]

/-- the ids one phase outcome obliges Wait's result to contain -/
def oneIds : Outcome → List Nat
  | .err e => [e]
  | .panic _ => [idPanic]
  | _ => []

def runPanics (c : Cfg) : Prop := c.run = .absent ∨ ∃ p, c.run = .panic p

/-- clocks in the log are below the current clock -/
def Clk (s : State) : Prop := ∀ x ∈ s.log, x.1 < s.clock

theorem Clk.tick {s s' : State} (h : Clk s) (evs : List Ev) (hl : s'.log = s.log ++ stamp s.clock evs)
    (hc : s'.clock = s.clock + 1) : Clk s' := by
  intro x hx
  rw [hl] at hx; rw [hc]
  rcases List.mem_append.mp hx with h1 | h1
  · exact Nat.lt_succ_of_lt (h x h1)
  · rw [mem_stamp] at h1; omega

/-- Run/Cleanup events as a function of the Run goroutine's location -/
structure RunLog (c : Cfg) (s : State) : Prop where
  runB : countEv s.log (isBegin .run) = if 2 ≤ s.rg.rank ∧ c.run.present = true then 1 else 0
  runE : has s.log (isEnd .run) = decide (3 ≤ s.rg.rank ∧ c.run.present = true)
  cuB : countEv s.log (isBegin .cleanup) = if 7 ≤ s.rg.rank ∧ c.cleanup.present = true then 1 else 0
  cuE : has s.log (isEnd .cleanup) = decide (8 ≤ s.rg.rank ∧ c.cleanup.present = true)
  inRunP : s.rg = .inRun → c.run.present = true
  inCuP : s.rg = .inCleanup → c.cleanup.present = true

def notPhase (ph : Phase) (e : Ev) : Prop := isBegin ph e = false ∧ isEnd ph e = false

theorem count_stamp_zero {k : Nat} {evs : List Ev} {p : Ev → Bool} (h : ∀ e ∈ evs, p e = false) :
    countEv (stamp k evs) p = 0 := by
  rw [countEv_stamp]; simp only [List.length_eq_zero_iff, List.filter_eq_nil_iff]; intro e he; simp [h e he]

theorem has_stamp_false {k : Nat} {evs : List Ev} {p : Ev → Bool} (h : ∀ e ∈ evs, p e = false) :
    has (stamp k evs) p = false := by
  rw [has_stamp]; simp only [List.any_eq_false]; intro e he; simp [h e he]

theorem RunLog.frame {c : Cfg} {s s' : State} (h : RunLog c s) (k : Nat) (evs : List Ev)
    (hrg : s'.rg = s.rg) (hl : s'.log = s.log ++ stamp k evs)
    (hev : ∀ e ∈ evs, notPhase .run e ∧ notPhase .cleanup e) : RunLog c s' := by
  obtain ⟨h1, h2, h3, h4, h5, h6⟩ := h
  constructor <;> (try rw [hl]) <;> rw [hrg] <;> (try simp only [countEv_append, has_append])
  · rw [count_stamp_zero (fun e he => (hev e he).1.1)]; simpa using h1
  · rw [has_stamp_false (fun e he => (hev e he).1.2)]; simpa using h2
  · rw [count_stamp_zero (fun e he => (hev e he).2.1)]; simpa using h3
  · rw [has_stamp_false (fun e he => (hev e he).2.2)]; simpa using h4
  · exact h5
  · exact h6

theorem RgStep.runLog {c : Cfg} {s s' : State} (h : RunLog c s) (hs : RgStep c s s') : RunLog c s' := by
  obtain ⟨h1, h2, h3, h4, h5, h6⟩ := h
  cases hs <;> constructor <;>
    simp_all [has_append, has_stamp, countEv_append, countEv_stamp, RgLoc.rank, isBegin, isEnd, Outcome.present]


/-- Shutdown events as a function of the shutdown goroutine's location -/
structure SdLog (c : Cfg) (s : State) : Prop where
  sdB : countEv s.log (isBegin .shutdown) = if 2 ≤ s.sd.rank ∧ c.shutdown.present = true then 1 else 0
  sdE : has s.log (isEnd .shutdown) = decide (3 ≤ s.sd.rank ∧ c.shutdown.present = true)
  inSdP : s.sd = .inShutdown → c.shutdown.present = true

theorem SdLog.frame {c : Cfg} {s s' : State} (h : SdLog c s) (k : Nat) (evs : List Ev)
    (hsd : s'.sd = s.sd) (hl : s'.log = s.log ++ stamp k evs)
    (hev : ∀ e ∈ evs, notPhase .shutdown e) : SdLog c s' := by
  obtain ⟨h1, h2, h3⟩ := h
  constructor <;> (try rw [hl]) <;> rw [hsd] <;> (try simp only [countEv_append, has_append])
  · rw [count_stamp_zero (fun e he => (hev e he).1)]; simpa using h1
  · rw [has_stamp_false (fun e he => (hev e he).2)]; simpa using h2
  · exact h3

theorem SdStep.sdLog {c : Cfg} {s s' : State} (h : SdLog c s) (hs : SdStep c s s') : SdLog c s' := by
  obtain ⟨h1, h2, h3⟩ := h
  cases hs <;> constructor <;>
    simp_all [has_append, has_stamp, countEv_append, countEv_stamp, SdLoc.rank, isBegin, isEnd, Outcome.present]

/-- ErrorHandler events as a function of the handler goroutine's location -/
structure EhLog (c : Cfg) (s : State) : Prop where
  ehB0 : s.eh.rank ≤ 2 → countEv s.log (isBegin .handler) = 0
  ehB1 : countEv s.log (isBegin .handler) ≤ 1
  ehBeg : s.eh = .inHandler → has s.log (isBegin .handler) = true
  ehAbs : c.handler.present = false → countEv s.log (isBegin .handler) = 0

theorem has_of_count_pos {l : Log} {p : Ev → Bool} (h : 0 < countEv l p) : has l p = true := by
  simp only [countEv, List.length_pos_iff_exists_mem, List.mem_filter] at h
  obtain ⟨x, hx, hp⟩ := h
  exact has_iff.mpr ⟨x, hx, hp⟩

theorem EhLog.frame {c : Cfg} {s s' : State} (h : EhLog c s) (k : Nat) (evs : List Ev)
    (heh : s'.eh = s.eh) (hl : s'.log = s.log ++ stamp k evs)
    (hev : ∀ e ∈ evs, isBegin .handler e = false) : EhLog c s' := by
  obtain ⟨h1, h2, h3, h4⟩ := h
  have hz := count_stamp_zero (k := k) hev
  constructor <;> rw [hl] <;> (try rw [heh]) <;> simp only [countEv_append, has_append, hz, Nat.add_zero]
  · exact h1
  · exact h2
  · intro h; simp [h3 h]
  · exact h4

theorem EhStep.ehLog {c : Cfg} {s s' : State} (h : EhLog c s) (hs : EhStep c s s') : EhLog c s' := by
  obtain ⟨h1, h2, h3, h4⟩ := h
  cases hs <;> constructor <;>
    simp_all [has_append, has_stamp, countEv_append, countEv_stamp, EhLoc.rank, isBegin, Outcome.present] <;>
    grind

def quiet (o : Outcome) : Prop := o = .ok ∨ o = .absent

/-- no phase reports anything -/
def noFail (c : Cfg) : Prop := c.run = .ok ∧ quiet c.shutdown ∧ quiet c.cleanup

theorem mustIds_nil_iff (c : Cfg) : mustIds c = [] ↔ noFail c := by
  unfold mustIds noFail quiet
  cases hr : c.run <;> cases hs : c.shutdown <;> cases hc : c.cleanup <;> simp

/-- the collector holds what the finished phases reported -/
structure Coll (c : Cfg) (s : State) : Prop where
  collRun : 3 ≤ s.rg.rank → ∀ e, c.run = .err e → e ∈ s.coll
  collPan : s.rg = .returned ∨ s.rg = .cancelled → runPanics c → s.panicking ≠ none
  collRunP : 5 ≤ s.rg.rank → runPanics c → idPanic ∈ s.coll
  collSdE : 3 ≤ s.sd.rank → ∀ e, c.shutdown = .err e → e ∈ s.coll
  collSdP : 3 ≤ s.sd.rank → ∀ p, c.shutdown = .panic p → idPanic ∈ s.coll
  collCuE : 8 ≤ s.rg.rank → ∀ e, c.cleanup = .err e → e ∈ s.coll
  collCuP : 8 ≤ s.rg.rank → ∀ p, c.cleanup = .panic p → idPanic ∈ s.coll
  collNil : noFail c → s.coll = []
  ehNonnil : s.eh = .inHandler → s.coll ≠ []
  panOnly : s.panicking ≠ none → runPanics c

theorem Coll.frame {c : Cfg} {s s' : State} (h : Coll c s)
    (e1 : s'.rg = s.rg) (e2 : s'.sd = s.sd) (e3 : s'.eh = s.eh) (e4 : s'.coll = s.coll)
    (e5 : s'.panicking = s.panicking) : Coll c s' := by
  obtain ⟨h1, h2, h3, h4, h5, h6, h7, h8, h9, h10⟩ := h
  constructor <;> simp only [e1, e2, e3, e4, e5] <;> assumption

theorem RgStep.coll {c : Cfg} {s s' : State} (h : Coll c s) (hR : RunLog c s) (hs : RgStep c s s') : Coll c s' := by
  obtain ⟨h1, h2, h3, h4, h5, h6, h7, h8, h9, h10⟩ := h
  have hp := hR.inRunP
  have hq := hR.inCuP
  clear hR
  cases hs <;> constructor <;>
    simp_all [RgLoc.rank, Outcome.adds, runPanics, Outcome.present, noFail, quiet] <;> grind [Outcome.adds]




end FunModel.Service
