import FunModel.SortSeq

/-! Helper definitions and lemmas for C17 (sequence-level model of `dt/cmp.go`). -/

namespace FunModel.SortSeq

variable {α β : Type}

/-! ### strict weak orderings -/

/-- `lt` is a strict weak ordering (given as a Bool-valued comparison, like Go's `cmp.LessThan`). -/
structure StrictWeak (lt : α → α → Bool) : Prop where
  irrefl : ∀ a, lt a a = false
  trans : ∀ a b c, lt a b = true → lt b c = true → lt a c = true
  /-- transitivity of "not less" (equivalently: incomparability is transitive) -/
  negTrans : ∀ a b c, lt a b = false → lt b c = false → lt a c = false

theorem StrictWeak.asymm {lt : α → α → Bool} (h : StrictWeak lt) {a b : α}
    (hab : lt a b = true) : lt b a = false := by
  cases hba : lt b a with
  | false => rfl
  | true =>
    have h1 := h.trans a b a hab hba
    rw [h.irrefl] at h1
    exact absurd h1 (by decide)

theorem StrictWeak.flip {lt : α → α → Bool} (h : StrictWeak lt) :
    StrictWeak (fun a b => lt b a) :=
  ⟨h.irrefl, fun a b c h1 h2 => h.trans c b a h2 h1, fun a b c h1 h2 => h.negTrans c b a h2 h1⟩

theorem StrictWeak.comap {lt : α → α → Bool} (f : β → α) (h : StrictWeak lt) :
    StrictWeak (fun a b => lt (f a) (f b)) :=
  ⟨fun _ => h.irrefl _, fun _ _ _ => h.trans _ _ _, fun _ _ _ => h.negTrans _ _ _⟩

theorem strictWeak_int_lt : StrictWeak (fun a b : Int => decide (a < b)) :=
  ⟨by intro a; simp, by intro a b c; simp; omega, by intro a b c; simp; omega⟩

theorem strictWeak_int_gt : StrictWeak (fun a b : Int => decide (a > b)) :=
  strictWeak_int_lt.flip

theorem strictWeak_int_key :
    StrictWeak (fun a b : Int => decide ((a + 1000) / 10 < (b + 1000) / 10)) :=
  strictWeak_int_lt.comap (fun a : Int => (a + 1000) / 10)

/-! ### definitions used in the statements -/

/-- no element is less than any earlier one -/
def Sorted (lt : α → α → Bool) (xs : List α) : Prop := xs.Pairwise (fun a b => lt b a = false)

/-- no element is less than its predecessor -/
def AdjSorted (lt : α → α → Bool) (xs : List α) : Prop :=
  ∀ i, (h : i + 1 < xs.length) → lt xs[i + 1] xs[i] = false

/-- `x` is equivalent to `k`: neither is less than the other -/
def equiv (lt : α → α → Bool) (k x : α) : Bool := !lt x k && !lt k x

theorem equiv_iff {lt : α → α → Bool} {k x : α} :
    equiv lt k x = true ↔ lt x k = false ∧ lt k x = false := by
  simp [equiv]

/-- the heap's list after pushing `ts` in order onto an empty heap -/
def heapOf (lt : α → α → Bool) (ts : List α) : List α :=
  ts.foldl (fun acc t => heapInsert lt t acc) []

theorem equiv_refl {lt : α → α → Bool} (h : StrictWeak lt) (k : α) : equiv lt k k = true := by
  simp [equiv, h.irrefl]

/-- two elements equivalent to the same `k` are not `lt` one another -/
theorem equiv_not_lt {lt : α → α → Bool} (h : StrictWeak lt) {k x e : α}
    (hx : equiv lt k x = true) (he : equiv lt k e = true) : lt x e = false :=
  h.negTrans x k e (equiv_iff.mp hx).1 (equiv_iff.mp he).2

/-- swapping two adjacent elements one of which is `lt` the other does not change any
    equivalence-class subsequence -/
theorem filter_swap_of_lt {lt : α → α → Bool} (h : StrictWeak lt) {x e : α} (hlt : lt x e = true)
    (k : α) (l : List α) :
    (x :: e :: l).filter (equiv lt k) = (e :: x :: l).filter (equiv lt k) := by
  cases hx : equiv lt k x with
  | false => simp [List.filter_cons, hx]
  | true =>
    cases he : equiv lt k e with
    | false => simp [hx, he]
    | true =>
      have := equiv_not_lt h hx he
      rw [hlt] at this
      exact absurd this (by decide)

/-! ### Sorted -/

theorem sorted_nil (lt : α → α → Bool) : Sorted lt [] := List.Pairwise.nil

theorem sorted_cons {lt : α → α → Bool} {x : α} {xs : List α} :
    Sorted lt (x :: xs) ↔ (∀ z ∈ xs, lt z x = false) ∧ Sorted lt xs :=
  List.pairwise_cons

theorem sorted_of_length_lt_two (lt : α → α → Bool) {xs : List α} (h : xs.length < 2) :
    Sorted lt xs := by
  match xs, h with
  | [], _ => exact sorted_nil lt
  | [x], _ => exact sorted_cons.mpr ⟨by simp, sorted_nil lt⟩

/-! ### merge -/

theorem merge_nil_left (lt : α → α → Bool) (b : List α) : merge lt [] b = b := by
  simp [merge]

theorem merge_nil_right (lt : α → α → Bool) (a : List α) : merge lt a [] = a := by
  cases a <;> simp [merge]

theorem merge_cons_cons (lt : α → α → Bool) (x y : α) (a b : List α) :
    merge lt (x :: a) (y :: b) =
      if lt x y then x :: merge lt a (y :: b) else y :: merge lt (x :: a) b := by
  rw [merge]

theorem merge_perm (lt : α → α → Bool) (a b : List α) : (merge lt a b).Perm (a ++ b) := by
  induction a generalizing b with
  | nil => simp [merge_nil_left]
  | cons x a iha =>
    induction b with
    | nil => simp [merge_nil_right]
    | cons y b ihb =>
      rw [merge_cons_cons]
      by_cases hxy : lt x y = true
      · rw [if_pos hxy]
        exact (iha (y :: b)).cons x
      · rw [if_neg hxy]
        exact (ihb.cons y).trans List.perm_middle.symm

theorem mem_merge {lt : α → α → Bool} {a b : List α} {z : α} :
    z ∈ merge lt a b ↔ z ∈ a ∨ z ∈ b := by
  rw [(merge_perm lt a b).mem_iff, List.mem_append]

theorem merge_sorted {lt : α → α → Bool} (h : StrictWeak lt) (a b : List α)
    (ha : Sorted lt a) (hb : Sorted lt b) : Sorted lt (merge lt a b) := by
  induction a generalizing b with
  | nil => rw [merge_nil_left]; exact hb
  | cons x a iha =>
    induction b with
    | nil => rw [merge_nil_right]; exact ha
    | cons y b ihb =>
      rw [merge_cons_cons]
      have hxa := sorted_cons.mp ha
      have hyb := sorted_cons.mp hb
      by_cases hxy : lt x y = true
      · rw [if_pos hxy]
        refine sorted_cons.mpr ⟨?_, iha (y :: b) hxa.2 hb⟩
        intro z hz
        rcases mem_merge.mp hz with hz | hz
        · exact hxa.1 z hz
        · rcases List.mem_cons.mp hz with rfl | hz
          · exact h.asymm hxy
          · cases hzx : lt z x with
            | false => rfl
            | true =>
              have := h.trans z x y hzx hxy
              rw [hyb.1 z hz] at this
              exact absurd this (by decide)
      · rw [if_neg hxy]
        have hxy' : lt x y = false := by simpa using hxy
        refine sorted_cons.mpr ⟨?_, ihb hyb.2⟩
        intro z hz
        rcases mem_merge.mp hz with hz | hz
        · rcases List.mem_cons.mp hz with rfl | hz
          · exact hxy'
          · exact h.negTrans z x y (hxa.1 z hz) hxy'
        · exact hyb.1 z hz

/-- nothing in a sorted list `y :: b` is equivalent to `k` if some `x` equivalent to `k` is
    less than `y` -/
theorem filter_equiv_eq_nil_of_lt {lt : α → α → Bool} (h : StrictWeak lt) {k x y : α} {b : List α}
    (hx : equiv lt k x = true) (hxy : lt x y = true) (hb : Sorted lt (y :: b)) :
    (y :: b).filter (equiv lt k) = [] := by
  have hall : ∀ z ∈ y :: b, lt z y = false := by
    intro z hz
    rcases List.mem_cons.mp hz with rfl | hz
    · exact h.irrefl _
    · exact (sorted_cons.mp hb).1 z hz
  rw [List.filter_eq_nil_iff]
  intro z hz hzk
  have h1 : lt k y = false := h.negTrans k z y (equiv_iff.mp hzk).2 (hall z hz)
  have h2 : lt x y = false := h.negTrans x k y (equiv_iff.mp hx).1 h1
  rw [hxy] at h2
  exact absurd h2 (by decide)

/-- `merge` is stable in favour of its SECOND argument (the front part in `mergeSort`) -/
theorem merge_filter {lt : α → α → Bool} (h : StrictWeak lt) (k : α) (a b : List α)
    (hb : Sorted lt b) :
    (merge lt a b).filter (equiv lt k) = b.filter (equiv lt k) ++ a.filter (equiv lt k) := by
  induction a generalizing b with
  | nil => simp [merge_nil_left]
  | cons x a iha =>
    induction b with
    | nil => simp [merge_nil_right]
    | cons y b ihb =>
      rw [merge_cons_cons]
      by_cases hxy : lt x y = true
      · rw [if_pos hxy]
        cases hx : equiv lt k x with
        | false =>
          rw [List.filter_cons, hx, iha (y :: b) hb]
          simp [List.filter_cons, hx]
        | true =>
          rw [List.filter_cons, hx, iha (y :: b) hb,
            filter_equiv_eq_nil_of_lt h hx hxy hb]
          simp [hx]
      · rw [if_neg hxy]
        have hb' := (sorted_cons.mp hb).2
        cases hy : equiv lt k y with
        | false =>
          rw [List.filter_cons, hy, ihb hb']
          simp [List.filter_cons, hy]
        | true =>
          rw [List.filter_cons, hy, ihb hb']
          simp [List.filter_cons, hy]

/-! ### split, mergeSort -/

theorem split_append (xs : List α) : (split xs).1 ++ (split xs).2 = xs := by
  simp [split]

theorem split_fst_length_lt {xs : List α} (h : 2 ≤ xs.length) :
    (split xs).1.length < xs.length := by
  simp [split]; omega

theorem split_snd_length_lt {xs : List α} (h : 2 ≤ xs.length) :
    (split xs).2.length < xs.length := by
  simp [split]; omega

theorem mergeSort_zero (lt : α → α → Bool) (xs : List α) : mergeSort lt xs 0 = xs := by
  rw [mergeSort]

theorem mergeSort_short (lt : α → α → Bool) {xs : List α} (h : xs.length < 2) (fuel : Nat) :
    mergeSort lt xs fuel = xs := by
  cases fuel with
  | zero => rw [mergeSort]
  | succ f => rw [mergeSort, if_pos h]

theorem mergeSort_succ (lt : α → α → Bool) {xs : List α} (h : 2 ≤ xs.length) (fuel : Nat) :
    mergeSort lt xs (fuel + 1) =
      merge lt (mergeSort lt (split xs).2 fuel) (mergeSort lt (split xs).1 fuel) := by
  rw [mergeSort, if_neg (Nat.not_lt.mpr h)]

theorem mergeSort_perm (lt : α → α → Bool) (fuel : Nat) (xs : List α) :
    (mergeSort lt xs fuel).Perm xs := by
  induction fuel generalizing xs with
  | zero => rw [mergeSort_zero]
  | succ f ih =>
    by_cases hlen : xs.length < 2
    · rw [mergeSort_short lt hlen]
    · rw [mergeSort_succ lt (Nat.le_of_not_lt hlen)]
      refine (merge_perm lt _ _).trans ?_
      refine ((ih _).append (ih _)).trans ?_
      refine List.perm_append_comm.trans ?_
      rw [split_append]

theorem mergeSort_sorted {lt : α → α → Bool} (h : StrictWeak lt) (fuel : Nat) (xs : List α)
    (hf : xs.length ≤ fuel) : Sorted lt (mergeSort lt xs fuel) := by
  induction fuel generalizing xs with
  | zero =>
    rw [mergeSort_zero]
    exact sorted_of_length_lt_two lt (by omega)
  | succ f ih =>
    by_cases hlen : xs.length < 2
    · rw [mergeSort_short lt hlen]
      exact sorted_of_length_lt_two lt hlen
    · have h2 : 2 ≤ xs.length := Nat.le_of_not_lt hlen
      rw [mergeSort_succ lt h2]
      have h1 := split_fst_length_lt h2
      have h3 := split_snd_length_lt h2
      exact merge_sorted h _ _ (ih _ (by omega)) (ih _ (by omega))

theorem mergeSort_filter {lt : α → α → Bool} (h : StrictWeak lt) (k : α) (fuel : Nat)
    (xs : List α) (hf : xs.length ≤ fuel) :
    (mergeSort lt xs fuel).filter (equiv lt k) = xs.filter (equiv lt k) := by
  induction fuel generalizing xs with
  | zero => rw [mergeSort_zero]
  | succ f ih =>
    by_cases hlen : xs.length < 2
    · rw [mergeSort_short lt hlen]
    · have h2 : 2 ≤ xs.length := Nat.le_of_not_lt hlen
      rw [mergeSort_succ lt h2]
      have h1 := split_fst_length_lt h2
      have h3 := split_snd_length_lt h2
      rw [merge_filter h k _ _ (mergeSort_sorted h f _ (by omega)),
        ih _ (by omega), ih _ (by omega), ← List.filter_append, split_append]

/-- with enough fuel the result does not depend on the fuel -/
theorem mergeSort_fuel (lt : α → α → Bool) (f1 f2 : Nat) (xs : List α)
    (h1 : xs.length ≤ f1) (h2 : xs.length ≤ f2) : mergeSort lt xs f1 = mergeSort lt xs f2 := by
  induction f1 generalizing xs f2 with
  | zero => rw [mergeSort_short lt (by omega), mergeSort_short lt (by omega)]
  | succ f1 ih =>
    by_cases hlen : xs.length < 2
    · rw [mergeSort_short lt hlen, mergeSort_short lt hlen]
    · have hl : 2 ≤ xs.length := Nat.le_of_not_lt hlen
      have ha := split_fst_length_lt hl
      have hb := split_snd_length_lt hl
      cases f2 with
      | zero => omega
      | succ f2 =>
        rw [mergeSort_succ lt hl, mergeSort_succ lt hl,
          ih f2 _ (by omega) (by omega), ih f2 _ (by omega) (by omega)]

/-! ### insertStable / sortQuick -/

theorem insertStable_perm (lt : α → α → Bool) (e : α) (l : List α) :
    (insertStable lt e l).Perm (e :: l) := by
  induction l with
  | nil => simp [insertStable]
  | cons x xs ih =>
    rw [insertStable]
    by_cases hx : lt x e = true
    · rw [if_pos hx]
      exact (ih.cons x).trans (List.Perm.swap e x xs)
    · rw [if_neg hx]

theorem insertStable_sorted {lt : α → α → Bool} (h : StrictWeak lt) (e : α) (l : List α)
    (hl : Sorted lt l) : Sorted lt (insertStable lt e l) := by
  induction l with
  | nil => exact sorted_cons.mpr ⟨by simp, sorted_nil lt⟩
  | cons x xs ih =>
    have hx' := sorted_cons.mp hl
    rw [insertStable]
    by_cases hx : lt x e = true
    · rw [if_pos hx]
      refine sorted_cons.mpr ⟨?_, ih hx'.2⟩
      intro z hz
      rcases List.mem_cons.mp ((insertStable_perm lt e xs).mem_iff.mp hz) with rfl | hz
      · exact h.asymm hx
      · exact hx'.1 z hz
    · rw [if_neg hx]
      have hxe : lt x e = false := by simpa using hx
      refine sorted_cons.mpr ⟨?_, hl⟩
      intro z hz
      rcases List.mem_cons.mp hz with rfl | hz
      · exact hxe
      · exact h.negTrans z x e (hx'.1 z hz) hxe

theorem insertStable_filter {lt : α → α → Bool} (h : StrictWeak lt) (k e : α) (l : List α) :
    (insertStable lt e l).filter (equiv lt k) = (e :: l).filter (equiv lt k) := by
  induction l with
  | nil => simp [insertStable]
  | cons x xs ih =>
    rw [insertStable]
    by_cases hx : lt x e = true
    · rw [if_pos hx, ← filter_swap_of_lt h hx k xs, List.filter_cons, ih,
        ← List.filter_cons]
    · rw [if_neg hx]

/-! ### uniqueness of the stable sorted arrangement -/

theorem sorted_eq_of_filter_eq {lt : α → α → Bool} (h : StrictWeak lt) (l1 l2 : List α)
    (h1 : Sorted lt l1) (h2 : Sorted lt l2)
    (hf : ∀ k, l1.filter (equiv lt k) = l2.filter (equiv lt k)) : l1 = l2 := by
  induction l1 generalizing l2 with
  | nil =>
    cases l2 with
    | nil => rfl
    | cons y l2 =>
      have := hf y
      simp [equiv_refl h] at this
  | cons x l1 ih =>
    cases l2 with
    | nil =>
      have := hf x
      simp [equiv_refl h] at this
    | cons y l2 =>
      have hx1 := sorted_cons.mp h1
      have hy2 := sorted_cons.mp h2
      -- the heads agree
      have hxy : x = y := by
        cases hyx : equiv lt y x with
        | true =>
          have := hf y
          simp [equiv_refl h, hyx] at this
          exact this.1
        | false =>
          -- y occurs in l1 and x occurs in l2
          have hy_mem : y ∈ (x :: l1).filter (equiv lt y) := by
            rw [hf y]; simp [equiv_refl h]
          have hx_mem : x ∈ (y :: l2).filter (equiv lt x) := by
            rw [← hf x]; simp [equiv_refl h]
          have hy_in : y ∈ x :: l1 := (List.mem_filter.mp hy_mem).1
          have hx_in : x ∈ y :: l2 := (List.mem_filter.mp hx_mem).1
          rcases List.mem_cons.mp hy_in with heq | hy_in
          · exact heq.symm
          · rcases List.mem_cons.mp hx_in with heq | hx_in
            · exact heq
            · have a1 : lt y x = false := hx1.1 y hy_in
              have a2 : lt x y = false := hy2.1 x hx_in
              have : equiv lt y x = true := equiv_iff.mpr ⟨a2, a1⟩
              rw [hyx] at this
              exact absurd this (by decide)
      subst hxy
      congr 1
      refine ih l2 hx1.2 hy2.2 ?_
      intro k
      have := hf k
      cases hk : equiv lt k x with
      | true => simpa [List.filter_cons, hk] using this
      | false => simpa [List.filter_cons, hk] using this

/-! ### isSorted -/

theorem adjSorted_cons_cons {lt : α → α → Bool} {x y : α} {rest : List α} :
    AdjSorted lt (x :: y :: rest) ↔ lt y x = false ∧ AdjSorted lt (y :: rest) := by
  constructor
  · intro hA
    refine ⟨hA 0 (by simp), ?_⟩
    intro i hi
    have := hA (i + 1) (by simpa using hi)
    simpa using this
  · rintro ⟨hyx, hA⟩ i hi
    cases i with
    | zero => simpa using hyx
    | succ i =>
      have := hA i (by simpa using hi)
      simpa using this

theorem isSorted_iff_adj (lt : α → α → Bool) (xs : List α) :
    isSorted lt xs = true ↔ AdjSorted lt xs := by
  match xs with
  | [] => simp [isSorted, AdjSorted]
  | [x] => simp [isSorted, AdjSorted]
  | x :: y :: rest =>
    rw [isSorted, adjSorted_cons_cons, ← isSorted_iff_adj lt (y :: rest)]
    simp

theorem isSorted_of_sorted (lt : α → α → Bool) (xs : List α) (h : Sorted lt xs) :
    isSorted lt xs = true := by
  match xs with
  | [] => simp [isSorted]
  | [x] => simp [isSorted]
  | x :: y :: rest =>
    have hx := sorted_cons.mp h
    rw [isSorted, isSorted_of_sorted lt (y :: rest) hx.2, hx.1 y (by simp)]
    rfl

theorem sorted_of_isSorted {lt : α → α → Bool} (h : StrictWeak lt) (xs : List α)
    (hs : isSorted lt xs = true) : Sorted lt xs := by
  match xs with
  | [] => exact sorted_nil lt
  | [x] => exact sorted_of_length_lt_two lt (by simp)
  | x :: y :: rest =>
    rw [isSorted] at hs
    simp at hs
    have ih := sorted_of_isSorted h (y :: rest) hs.2
    refine sorted_cons.mpr ⟨?_, ih⟩
    intro z hz
    rcases List.mem_cons.mp hz with rfl | hz
    · exact hs.1
    · exact h.negTrans z y x ((sorted_cons.mp ih).1 z hz) hs.1

/-! ### heapInsert -/

theorem heapInsert_go_perm (lt : α → α → Bool) (t : α) (l : List α) :
    (heapInsert.go lt t l).Perm (t :: l) := by
  induction l with
  | nil => simp [heapInsert.go]
  | cons x rest ih =>
    rw [heapInsert.go]
    by_cases hx : lt t x = true
    · rw [if_pos hx]
      exact (ih.cons x).trans (List.Perm.swap t x rest)
    · rw [if_neg hx]

/-- `go` works on the reversed list: "reverse sorted" is preserved -/
theorem heapInsert_go_sorted {lt : α → α → Bool} (h : StrictWeak lt) (t : α) (l : List α)
    (hl : l.Pairwise (fun a b => lt a b = false)) :
    (heapInsert.go lt t l).Pairwise (fun a b => lt a b = false) := by
  induction l with
  | nil => simp [heapInsert.go]
  | cons x rest ih =>
    have hx' := List.pairwise_cons.mp hl
    rw [heapInsert.go]
    by_cases hx : lt t x = true
    · rw [if_pos hx]
      refine List.pairwise_cons.mpr ⟨?_, ih hx'.2⟩
      intro z hz
      rcases List.mem_cons.mp ((heapInsert_go_perm lt t rest).mem_iff.mp hz) with rfl | hz
      · exact h.asymm hx
      · exact hx'.1 z hz
    · rw [if_neg hx]
      have htx : lt t x = false := by simpa using hx
      refine List.pairwise_cons.mpr ⟨?_, hl⟩
      intro z hz
      rcases List.mem_cons.mp hz with rfl | hz
      · exact htx
      · exact h.negTrans t x z htx (hx'.1 z hz)

theorem heapInsert_go_filter {lt : α → α → Bool} (h : StrictWeak lt) (k t : α) (l : List α) :
    (heapInsert.go lt t l).filter (equiv lt k) = (t :: l).filter (equiv lt k) := by
  induction l with
  | nil => simp [heapInsert.go]
  | cons x rest ih =>
    rw [heapInsert.go]
    by_cases hx : lt t x = true
    · rw [if_pos hx, filter_swap_of_lt h hx k rest, List.filter_cons, ih,
        ← List.filter_cons]
    · rw [if_neg hx]

theorem heapInsert_eq (lt : α → α → Bool) (t : α) (xs : List α) :
    heapInsert lt t xs = (heapInsert.go lt t xs.reverse).reverse := rfl

theorem heapInsert_filter {lt : α → α → Bool} (h : StrictWeak lt) (k t : α) (xs : List α) :
    (heapInsert lt t xs).filter (equiv lt k) = (xs ++ [t]).filter (equiv lt k) := by
  rw [heapInsert_eq, List.filter_reverse, heapInsert_go_filter h, ← List.filter_reverse]
  simp

theorem heapInsert_perm' (lt : α → α → Bool) (t : α) (xs : List α) :
    (heapInsert lt t xs).Perm (t :: xs) := by
  rw [heapInsert_eq]
  refine (List.reverse_perm _).trans ?_
  refine (heapInsert_go_perm lt t _).trans ?_
  exact (List.reverse_perm xs).cons t

theorem heapInsert_sorted' {lt : α → α → Bool} (h : StrictWeak lt) (t : α) (xs : List α)
    (hs : Sorted lt xs) : Sorted lt (heapInsert lt t xs) := by
  rw [heapInsert_eq]
  unfold Sorted
  rw [List.pairwise_reverse]
  apply heapInsert_go_sorted h
  rw [List.pairwise_reverse]
  exact hs

theorem foldl_heapInsert_perm (lt : α → α → Bool) (ts acc : List α) :
    (ts.foldl (fun acc t => heapInsert lt t acc) acc).Perm (acc ++ ts) := by
  induction ts generalizing acc with
  | nil => simp
  | cons t ts ih =>
    rw [List.foldl_cons]
    refine (ih _).trans ?_
    refine ((heapInsert_perm' lt t acc).append_right ts).trans ?_
    exact (List.perm_middle (a := t) (l₁ := acc) (l₂ := ts)).symm

theorem foldl_heapInsert_sorted {lt : α → α → Bool} (h : StrictWeak lt) (ts acc : List α)
    (ha : Sorted lt acc) : Sorted lt (ts.foldl (fun acc t => heapInsert lt t acc) acc) := by
  induction ts generalizing acc with
  | nil => exact ha
  | cons t ts ih =>
    rw [List.foldl_cons]
    exact ih _ (heapInsert_sorted' h t acc ha)

theorem foldl_heapInsert_filter {lt : α → α → Bool} (h : StrictWeak lt) (k : α)
    (ts acc : List α) :
    (ts.foldl (fun acc t => heapInsert lt t acc) acc).filter (equiv lt k)
      = (acc ++ ts).filter (equiv lt k) := by
  induction ts generalizing acc with
  | nil => simp
  | cons t ts ih =>
    rw [List.foldl_cons, ih, List.filter_append, heapInsert_filter h, ← List.filter_append]
    simp

end FunModel.SortSeq
