import FunModel.Sll

/-! Invariant and helper lemmas for the pointer-level model of `dt.Stack` / `dt.Item` (C16, stack part).

Ghost state: `g : Nat → List Nat` (stack address ↦ item addresses, top first) and
`sent : Nat → Option Nat` (stack address ↦ address of its sentinel, `none` while the head is nil). -/
namespace FunModel.Sll
open Heap

/-! ## function update -/

def upd {α : Type} (f : Nat → α) (s : Nat) (v : α) : Nat → α := fun t => if t = s then v else f t

@[simp] theorem upd_same {α : Type} (f : Nat → α) (s : Nat) (v : α) : upd f s v s = v := by simp [upd]
@[simp] theorem upd_ne {α : Type} (f : Nat → α) (s t : Nat) (v : α) (hne : t ≠ s) : upd f s v t = f t := by
  simp [upd, hne]
theorem upd_apply {α : Type} (f : Nat → α) (s t : Nat) (v : α) : upd f s v t = if t = s then v else f t := rfl

/-! ## heap get/set lemmas -/

namespace Heap
@[simp] theorem setItem_item_same (h : Heap) (a : Nat) (n : Item) : (h.setItem a n).item a = n := by simp [setItem]
@[simp] theorem setItem_item_ne (h : Heap) (a b : Nat) (n : Item) (hne : b ≠ a) : (h.setItem a n).item b = h.item b := by
  simp [setItem, hne]
theorem setItem_item (h : Heap) (a b : Nat) (n : Item) : (h.setItem a n).item b = if b = a then n else h.item b := rfl
@[simp] theorem setItem_hdr (h : Heap) (a : Nat) (n : Item) : (h.setItem a n).hdr = h.hdr := rfl
@[simp] theorem setItem_ni (h : Heap) (a : Nat) (n : Item) : (h.setItem a n).ni = h.ni := rfl
@[simp] theorem setItem_ns (h : Heap) (a : Nat) (n : Item) : (h.setItem a n).ns = h.ns := rfl

@[simp] theorem setHdr_hdr_same (h : Heap) (s : Nat) (d : SHdr) : (h.setHdr s d).hdr s = d := by simp [setHdr]
@[simp] theorem setHdr_hdr_ne (h : Heap) (s t : Nat) (d : SHdr) (hne : t ≠ s) : (h.setHdr s d).hdr t = h.hdr t := by
  simp [setHdr, hne]
theorem setHdr_hdr (h : Heap) (s t : Nat) (d : SHdr) : (h.setHdr s d).hdr t = if t = s then d else h.hdr t := rfl
@[simp] theorem setHdr_item (h : Heap) (s : Nat) (d : SHdr) : (h.setHdr s d).item = h.item := rfl
@[simp] theorem setHdr_ni (h : Heap) (s : Nat) (d : SHdr) : (h.setHdr s d).ni = h.ni := rfl
@[simp] theorem setHdr_ns (h : Heap) (s : Nat) (d : SHdr) : (h.setHdr s d).ns = h.ns := rfl

@[simp] theorem alloc_snd (h : Heap) (n : Item) : (h.alloc n).2 = h.ni := rfl
@[simp] theorem alloc_item_same (h : Heap) (n : Item) : (h.alloc n).1.item h.ni = n := by simp [alloc, setItem]
@[simp] theorem alloc_item_ne (h : Heap) (n : Item) (b : Nat) (hne : b ≠ h.ni) : (h.alloc n).1.item b = h.item b := by
  simp [alloc, setItem, hne]
theorem alloc_item (h : Heap) (n : Item) (b : Nat) : (h.alloc n).1.item b = if b = h.ni then n else h.item b := rfl
@[simp] theorem alloc_hdr (h : Heap) (n : Item) : (h.alloc n).1.hdr = h.hdr := rfl
@[simp] theorem alloc_ni (h : Heap) (n : Item) : (h.alloc n).1.ni = h.ni + 1 := rfl
@[simp] theorem alloc_ns (h : Heap) (n : Item) : (h.alloc n).1.ns = h.ns := rfl

@[simp] theorem allocStack_snd (h : Heap) : h.allocStack.2 = h.ns := rfl
@[simp] theorem allocStack_item (h : Heap) : h.allocStack.1.item = h.item := rfl
@[simp] theorem allocStack_hdr_same (h : Heap) : h.allocStack.1.hdr h.ns = {} := by simp [allocStack, setHdr]
@[simp] theorem allocStack_hdr_ne (h : Heap) (t : Nat) (hne : t ≠ h.ns) : h.allocStack.1.hdr t = h.hdr t := by
  simp [allocStack, setHdr, hne]
@[simp] theorem allocStack_ni (h : Heap) : h.allocStack.1.ni = h.ni := rfl
@[simp] theorem allocStack_ns (h : Heap) : h.allocStack.1.ns = h.ns + 1 := rfl
end Heap

/-! ## list segments in the heap -/

/-- `Seg h p xs q`: following `next` from the pointer `p` visits exactly the addresses `xs` and arrives at `q` -/
def Seg (h : Heap) : Option Nat → List Nat → Option Nat → Prop
  | p, [], q => p = q
  | p, x :: xs, q => p = some x ∧ Seg h (h.item x).next xs q

@[simp] theorem Seg_nil (h : Heap) (p q : Option Nat) : Seg h p [] q ↔ p = q := Iff.rfl
@[simp] theorem Seg_cons (h : Heap) (p q : Option Nat) (x : Nat) (xs : List Nat) :
    Seg h p (x :: xs) q ↔ p = some x ∧ Seg h (h.item x).next xs q := Iff.rfl

/-- frame lemma: only the `next` fields of the visited items matter -/
theorem Seg.congr {h h' : Heap} {xs : List Nat} {p q : Option Nat}
    (hs : Seg h p xs q) (hfr : ∀ x, x ∈ xs → (h'.item x).next = (h.item x).next) : Seg h' p xs q := by
  induction xs generalizing p with
  | nil => exact hs
  | cons x xs ih =>
    obtain ⟨hp, hrest⟩ := hs
    refine ⟨hp, ?_⟩
    rw [hfr x (List.mem_cons_self ..)]
    exact ih hrest (fun y hy => hfr y (List.mem_cons_of_mem _ hy))

theorem Seg_append (h : Heap) (xs ys : List Nat) (p q : Option Nat) :
    Seg h p (xs ++ ys) q ↔ ∃ m, Seg h p xs m ∧ Seg h m ys q := by
  induction xs generalizing p with
  | nil => simp
  | cons x xs ih =>
    simp only [List.cons_append, Seg_cons, ih]
    constructor
    · rintro ⟨hp, m, h1, h2⟩; exact ⟨m, ⟨hp, h1⟩, h2⟩
    · rintro ⟨m, ⟨hp, h1⟩, h2⟩; exact ⟨hp, m, h1, h2⟩

/-- an item on a segment that ends in a non-nil pointer has a non-nil `next` -/
theorem Seg.next_some {h : Heap} {xs : List Nat} {p : Option Nat} {z : Nat}
    (hs : Seg h p xs (some z)) {x : Nat} (hx : x ∈ xs) : ∃ m, (h.item x).next = some m := by
  induction xs generalizing p with
  | nil => cases hx
  | cons y ys ih =>
    obtain ⟨_, hrest⟩ := hs
    rcases List.mem_cons.1 hx with rfl | hx'
    · cases ys with
      | nil => exact ⟨z, hrest⟩
      | cons w ws => exact ⟨w, hrest.1⟩
    · exact ih hrest hx'

/-- the start pointer of a segment ending in a non-nil pointer is non-nil -/
theorem Seg.start_some {h : Heap} {xs : List Nat} {p : Option Nat} {z : Nat}
    (hs : Seg h p xs (some z)) : ∃ a, p = some a := by
  cases xs with
  | nil => exact ⟨z, hs⟩
  | cons x xs => exact ⟨x, hs.1⟩

/-! ## the invariant -/

/-- well-formedness of one stack `s` with ghost item list `xs` and ghost sentinel `sn` -/
structure WFS (h : Heap) (s : Nat) (xs : List Nat) (sn : Option Nat) : Prop where
  /-- no sentinel yet: the head pointer is nil and the stack is empty -/
  empty : sn = none → (h.hdr s).head = none ∧ xs = []
  /-- following `next` from the head visits exactly `xs` and then the sentinel -/
  chain : ∀ z, sn = some z → Seg h (h.hdr s).head xs (some z)
  /-- the sentinel (made by `lazyInit`) is allocated, not ok, has no successor, and points back to `s` -/
  sentinel : ∀ z, sn = some z →
    z < h.ni ∧ (h.item z).ok = false ∧ (h.item z).next = none ∧ (h.item z).stack = some s
  len : (h.hdr s).length = (xs.length : Int)
  items : ∀ x, x ∈ xs → x < h.ni ∧ (h.item x).ok = true ∧ (h.item x).stack = some s
  nodup : xs.Nodup

/-- the global invariant -/
structure WF (h : Heap) (g : Nat → List Nat) (sent : Nat → Option Nat) : Prop where
  fresh : ∀ s, h.ns ≤ s → g s = [] ∧ sent s = none
  stk : ∀ s, s < h.ns → WFS h s (g s) (sent s)
  sentInj : ∀ s t z, sent s = some z → sent t = some z → s = t
  detached : ∀ a, a < h.ni → (∀ s, a ∉ g s) → (∀ s, sent s ≠ some a) → (h.item a).stack = none

theorem WFS.frame {h h' : Heap} {s : Nat} {xs : List Nat} {sn : Option Nat} (hw : WFS h s xs sn)
    (hhdr : h'.hdr s = h.hdr s) (hni : h.ni ≤ h'.ni)
    (hit : ∀ a, a ∈ xs → (h'.item a).next = (h.item a).next ∧ (h'.item a).stack = (h.item a).stack ∧
      ((h.item a).ok = true → (h'.item a).ok = true))
    (hsn : ∀ z, sn = some z → h'.item z = h.item z) : WFS h' s xs sn where
  empty := fun e => by rw [hhdr]; exact hw.empty e
  chain := fun z e => by rw [hhdr]; exact (hw.chain z e).congr (fun x hx => (hit x hx).1)
  sentinel := fun z e => by
    rw [hsn z e]; obtain ⟨a, b, c, d⟩ := hw.sentinel z e; exact ⟨Nat.lt_of_lt_of_le a hni, b, c, d⟩
  len := by rw [hhdr]; exact hw.len
  items := fun x hx => by
    obtain ⟨a, b, c⟩ := hw.items x hx
    obtain ⟨_, e2, e3⟩ := hit x hx
    exact ⟨Nat.lt_of_lt_of_le a hni, e3 b, by rw [e2]; exact c⟩
  nodup := hw.nodup

namespace WF
variable {h : Heap} {g : Nat → List Nat} {sent : Nat → Option Nat}

theorem lt_ns_of_mem (hw : WF h g sent) {s x : Nat} (hx : x ∈ g s) : s < h.ns := by
  apply Nat.lt_of_not_le; intro hle
  rw [(hw.fresh s hle).1] at hx; cases hx

theorem lt_ns_of_sent (hw : WF h g sent) {s z : Nat} (hz : sent s = some z) : s < h.ns := by
  apply Nat.lt_of_not_le; intro hle
  rw [(hw.fresh s hle).2] at hz; cases hz

theorem item_of_mem (hw : WF h g sent) {s x : Nat} (hx : x ∈ g s) :
    x < h.ni ∧ (h.item x).ok = true ∧ (h.item x).stack = some s :=
  (hw.stk s (hw.lt_ns_of_mem hx)).items x hx

theorem sentinel_of_sent (hw : WF h g sent) {s z : Nat} (hz : sent s = some z) :
    z < h.ni ∧ (h.item z).ok = false ∧ (h.item z).next = none ∧ (h.item z).stack = some s :=
  (hw.stk s (hw.lt_ns_of_sent hz)).sentinel z hz

/-- different stacks share no items -/
theorem disjoint (hw : WF h g sent) {s t x : Nat} (hs : x ∈ g s) (ht : x ∈ g t) : s = t := by
  have a := (hw.item_of_mem hs).2.2
  have b := (hw.item_of_mem ht).2.2
  rw [a] at b; exact Option.some.inj b

/-- no item of any stack is a sentinel of any stack -/
theorem not_sent_of_mem (hw : WF h g sent) {s t x : Nat} (hs : x ∈ g s) : sent t ≠ some x := by
  intro hz
  have a := (hw.item_of_mem hs).2.1
  have b := (hw.sentinel_of_sent hz).2.1
  rw [a] at b; cases b

theorem head_none_iff (hw : WF h g sent) {s : Nat} (hs : s < h.ns) : (h.hdr s).head = none ↔ sent s = none := by
  constructor
  · intro hh
    cases hz : sent s with
    | none => rfl
    | some z =>
      obtain ⟨a, ha⟩ := ((hw.stk s hs).chain z hz).start_some
      rw [hh] at ha; cases ha
  · intro hz; exact ((hw.stk s hs).empty hz).1

/-- an allocated item whose `stack` field is `s` is an item of `s` or the sentinel of `s` -/
theorem of_stack_some (hw : WF h g sent) {a s : Nat} (ha : a < h.ni) (hst : (h.item a).stack = some s) :
    a ∈ g s ∨ sent s = some a := by
  by_cases h1 : ∃ t, a ∈ g t
  · obtain ⟨t, ht⟩ := h1
    have := (hw.item_of_mem ht).2.2
    rw [hst] at this; cases this; exact Or.inl ht
  · by_cases h2 : ∃ t, sent t = some a
    · obtain ⟨t, ht⟩ := h2
      have e := (hw.sentinel_of_sent ht).2.2.2
      rw [hst] at e; cases e; exact Or.inr ht
    · have := hw.detached a ha (fun t ht => h1 ⟨t, ht⟩) (fun t ht => h2 ⟨t, ht⟩)
      rw [hst] at this; cases this

theorem not_mem_of_stack_none (hw : WF h g sent) {a : Nat} (hst : (h.item a).stack = none) (s : Nat) : a ∉ g s := by
  intro hx
  have := (hw.item_of_mem hx).2.2
  rw [hst] at this; cases this

theorem not_sent_of_ok (hw : WF h g sent) {a : Nat} (hok : (h.item a).ok = true) (s : Nat) : sent s ≠ some a := by
  intro hz
  have := (hw.sentinel_of_sent hz).2.1
  rw [hok] at this; cases this

end WF

theorem WFS.nil {h : Heap} {s : Nat} (hh : (h.hdr s).head = none) (hl : (h.hdr s).length = 0) : WFS h s [] none where
  empty := fun _ => ⟨hh, rfl⟩
  chain := fun z e => by cases e
  sentinel := fun z e => by cases e
  len := by simp [hl]
  items := fun x hx => by cases hx
  nodup := List.nodup_nil

namespace WF
variable {h : Heap} {g : Nat → List Nat} {sent : Nat → Option Nat}

/-! ### the seven heap transformations -/

theorem allocStack (hw : WF h g sent) : WF h.allocStack.1 g sent where
  fresh := fun s hs => hw.fresh s (by simp at hs; omega)
  stk := fun s hs => by
    by_cases e : s = h.ns
    · subst e
      obtain ⟨e1, e2⟩ := hw.fresh h.ns (Nat.le_refl _)
      rw [e1, e2]
      exact WFS.nil (by simp) (by simp)
    · have hs' : s < h.ns := by simp at hs; omega
      exact (hw.stk s hs').frame (by simp [e]) (by simp) (fun a _ => by simp) (fun z _ => by simp)
  sentInj := hw.sentInj
  detached := fun a ha => hw.detached a (by simpa using ha)

theorem alloc (hw : WF h g sent) (n : Item) (hn : n.stack = none) : WF (h.alloc n).1 g sent where
  fresh := fun s hs => hw.fresh s (by simpa using hs)
  stk := fun s hs => by
    have hs' : s < h.ns := by simpa using hs
    refine (hw.stk s hs').frame (by simp) (by simp) (fun a ha => ?_) (fun z hz => ?_)
    · have : a ≠ h.ni := Nat.ne_of_lt (hw.item_of_mem ha).1
      simp [this]
    · have : z ≠ h.ni := Nat.ne_of_lt (hw.sentinel_of_sent hz).1
      simp [this]
  sentInj := hw.sentInj
  detached := fun a ha h1 h2 => by
    by_cases e : a = h.ni
    · subst e; simpa using hn
    · simp [e]; exact hw.detached a (by simp at ha; omega) h1 h2

/-- a fresh sentinel is allocated for a stack whose head is nil (`lazyInit`) -/
theorem newSentinel (hw : WF h g sent) {s : Nat} (hs : s < h.ns) (hh : (h.hdr s).head = none) :
    WF ((h.alloc { ok := false, stack := some s }).1.setHdr s { head := some h.ni, length := 0 }) g
      (upd sent s (some h.ni)) := by
  have hsn : sent s = none := (hw.head_none_iff hs).1 hh
  have hgs : g s = [] := ((hw.stk s hs).empty hsn).2
  refine ⟨fun t ht => ?_, fun t ht => ?_, fun a b z ha hb => ?_, fun a ha h1 h2 => ?_⟩
  · have ht' : h.ns ≤ t := by simpa using ht
    have : t ≠ s := by omega
    simpa [this] using hw.fresh t ht'
  · have ht' : t < h.ns := by simpa using ht
    by_cases e : t = s
    · subst e
      rw [hgs, upd_same]
      refine ⟨fun e => (by cases e), fun z e => ?_, fun z e => ?_, by simp,
        fun x hx => (by cases hx), List.nodup_nil⟩
      · cases e; simp
      · cases e; simp
    · rw [upd_ne _ _ _ _ e]
      refine (hw.stk t ht').frame (by simp [e]) (by simp) (fun a ha => ?_) (fun z hz => ?_)
      · have : a ≠ h.ni := Nat.ne_of_lt (hw.item_of_mem ha).1
        simp [this]
      · have : z ≠ h.ni := Nat.ne_of_lt (hw.sentinel_of_sent hz).1
        simp [this]
  · simp only [upd_apply] at ha hb
    by_cases ea : a = s <;> by_cases eb : b = s <;> simp only [ea, eb, if_true, if_false] at ha hb ⊢
    · cases ha; exact absurd (hw.sentinel_of_sent hb).1 (Nat.lt_irrefl _)
    · cases hb; exact absurd (hw.sentinel_of_sent ha).1 (Nat.lt_irrefl _)
    · exact hw.sentInj a b z ha hb
  · have hne : a ≠ h.ni := fun e => h2 s (by simp [e])
    have ha' : a < h.ni := by simp at ha; omega
    simp only [setHdr_item, alloc_item_ne _ _ _ hne]
    refine hw.detached a ha' h1 (fun t ht => ?_)
    by_cases e : t = s
    · subst e; rw [hsn] at ht; cases ht
    · exact h2 t (by rw [upd_ne _ _ _ _ e]; exact ht)

/-- a detached ok item `n` is linked on top of stack `s` (`Item.Append` accepted) -/
theorem link (hw : WF h g sent) {s n : Nat} (hs : s < h.ns) (hn : n < h.ni)
    (hnok : (h.item n).ok = true) (hnst : (h.item n).stack = none) (hhead : (h.hdr s).head ≠ none) :
    WF ((h.setItem n { h.item n with next := (h.hdr s).head, stack := some s }).setHdr s
          { head := some n, length := (h.hdr s).length + 1 }) (upd g s (n :: g s)) sent := by
  have hng : ∀ t, n ∉ g t := hw.not_mem_of_stack_none hnst
  have hnsent : ∀ t, sent t ≠ some n := hw.not_sent_of_ok hnok
  obtain ⟨z, hz⟩ : ∃ z, sent s = some z := by
    cases e : sent s with
    | none => exact absurd ((hw.head_none_iff hs).2 e) hhead
    | some z => exact ⟨z, rfl⟩
  have hS := hw.stk s hs
  refine ⟨fun t ht => ?_, fun t ht => ?_, hw.sentInj, fun a ha h1 h2 => ?_⟩
  · have ht' : h.ns ≤ t := by simpa using ht
    have : t ≠ s := by omega
    simpa [this] using hw.fresh t ht'
  · have ht' : t < h.ns := by simpa using ht
    by_cases e : t = s
    · subst e
      rw [upd_same, hz]
      have hfr : ∀ x, x ∈ g t → x ≠ n := fun x hx e => hng t (e ▸ hx)
      refine ⟨fun e => (by cases e), fun z' e => ?_, fun z' e => ?_, ?_,
        fun x hx => ?_, ?_⟩
      · cases e
        simp only [setHdr_hdr_same, setHdr_item, Seg_cons, setItem_item_same, true_and]
        exact (hS.chain z hz).congr (fun x hx => by simp [hfr x hx])
      · cases e
        have : z ≠ n := fun e => hnsent t (e ▸ hz)
        simpa [this] using hS.sentinel z hz
      · simp [hS.len]
      · rcases List.mem_cons.1 hx with rfl | hx
        · simp [hn, hnok]
        · simpa [hfr x hx] using hS.items x hx
      · exact List.nodup_cons.2 ⟨hng t, hS.nodup⟩
    · rw [upd_ne _ _ _ _ e]
      refine (hw.stk t ht').frame (by simp [e]) (by simp) (fun a ha => ?_) (fun z hz => ?_)
      · have : a ≠ n := fun e => hng t (e ▸ ha)
        simp [this]
      · have : z ≠ n := fun e => hnsent t (e ▸ hz)
        simp [this]
  · have h1s := h1 s
    rw [upd_same] at h1s
    have hne : a ≠ n := fun e => h1s (by simp [e])
    simp only [setHdr_item, setItem_item_ne _ _ _ _ hne]
    refine hw.detached a (by simpa using ha) (fun t ht => ?_) h2
    by_cases e : t = s
    · subst e; exact h1s (List.mem_cons_of_mem _ ht)
    · exact h1 t (by rw [upd_ne _ _ _ _ e]; exact ht)

/-- the top item of a non-empty stack is unlinked (`Pop`) -/
theorem unlinkTop (hw : WF h g sent) {s x : Nat} {xs : List Nat} (hs : s < h.ns) (hg : g s = x :: xs) :
    WF ((h.setItem x { h.item x with stack := none }).setHdr s
          { head := (h.item x).next, length := (h.hdr s).length - 1 }) (upd g s xs) sent := by
  have hS := hw.stk s hs
  have hxs : x ∈ g s := by rw [hg]; exact List.mem_cons_self ..
  obtain ⟨z, hz⟩ : ∃ z, sent s = some z := by
    cases e : sent s with
    | none => have := (hS.empty e).2; rw [hg] at this; cases this
    | some z => exact ⟨z, rfl⟩
  have hnd := hS.nodup
  rw [hg, List.nodup_cons] at hnd
  have hch := hS.chain z hz
  rw [hg, Seg_cons] at hch
  have hfr : ∀ y, y ∈ xs → y ≠ x := fun y hy e => hnd.1 (e ▸ hy)
  refine ⟨fun t ht => ?_, fun t ht => ?_, hw.sentInj, fun a ha h1 h2 => ?_⟩
  · have ht' : h.ns ≤ t := by simpa using ht
    have : t ≠ s := by omega
    simpa [this] using hw.fresh t ht'
  · have ht' : t < h.ns := by simpa using ht
    by_cases e : t = s
    · subst e
      rw [upd_same, hz]
      refine ⟨fun e => (by cases e), fun z' e => ?_, fun z' e => ?_, ?_,
        fun y hy => ?_, hnd.2⟩
      · cases e
        simp only [setHdr_hdr_same]
        exact hch.2.congr (fun y hy => by simp [hfr y hy])
      · cases e
        have : z ≠ x := fun e => hw.not_sent_of_mem hxs (e ▸ hz)
        simpa [this] using hS.sentinel z hz
      · simp [hS.len, hg]
      · have := hS.items y (by rw [hg]; exact List.mem_cons_of_mem _ hy)
        simpa [hfr y hy] using this
    · rw [upd_ne _ _ _ _ e]
      refine (hw.stk t ht').frame (by simp [e]) (by simp) (fun a ha => ?_) (fun z hz => ?_)
      · have : a ≠ x := fun e' => e (hw.disjoint (e' ▸ ha) hxs)
        simp [this]
      · have : z ≠ x := fun e => hw.not_sent_of_mem hxs (e ▸ hz)
        simp [this]
  · by_cases hax : a = x
    · subst hax; simp
    · simp only [setHdr_item, setItem_item_ne _ _ _ _ hax]
      refine hw.detached a (by simpa using ha) (fun t ht => ?_) h2
      by_cases e : t = s
      · subst e
        rw [hg] at ht
        rcases List.mem_cons.1 ht with e | ht
        · exact hax e
        · exact h1 t (by rw [upd_same]; exact ht)
      · exact h1 t (by rw [upd_ne _ _ _ _ e]; exact ht)

/-- `Item.Set` on anything that is not a sentinel -/
theorem setValue (hw : WF h g sent) {it : Nat} (v : Int) (hns : ∀ t, sent t ≠ some it) :
    WF (h.setItem it { h.item it with ok := true, value := v }) g sent := by
  refine ⟨hw.fresh, fun t ht => ?_, hw.sentInj, fun a ha h1 h2 => ?_⟩
  · refine (hw.stk t ht).frame rfl (Nat.le_refl _) (fun a ha => ?_) (fun z hz => ?_)
    · by_cases e : a = it
      · subst e; simp
      · simp [e]
    · have : z ≠ it := fun e => hns t (e ▸ hz)
      simp [this]
  · have := hw.detached a ha h1 h2
    by_cases e : a = it
    · subst e; simpa using this
    · simpa [e] using this

/-- a non-top item `it` is unlinked from its predecessor `pl` (`Item.Remove`, repaired branch) -/
theorem unlinkMid (hw : WF h g sent) {s pl it : Nat} {q post : List Nat} (hs : s < h.ns)
    (hg : g s = q ++ pl :: it :: post) :
    WF (((h.setItem pl { h.item pl with next := (h.item it).next }).setItem it
            { h.item it with stack := none }).setHdr s
          { h.hdr s with length := (h.hdr s).length - 1 }) (upd g s (q ++ pl :: post)) sent := by
  have hS := hw.stk s hs
  have hpls : pl ∈ g s := by rw [hg]; simp
  have hits : it ∈ g s := by rw [hg]; simp
  obtain ⟨z, hz⟩ : ∃ z, sent s = some z := by
    cases e : sent s with
    | none => have := (hS.empty e).2; rw [hg] at this; simp at this
    | some z => exact ⟨z, rfl⟩
  have hnd := hS.nodup
  rw [hg] at hnd
  have hnd' := hnd
  simp only [List.nodup_append, List.nodup_cons, List.mem_cons, not_or, ne_eq] at hnd'
  obtain ⟨hqnd, ⟨⟨hplit, hplpost⟩, hitpost, hpostnd⟩, hq⟩ := hnd'
  have hch := hS.chain z hz
  rw [hg, Seg_append] at hch
  obtain ⟨m, hch1, hch2⟩ := hch
  simp only [Seg_cons] at hch2
  obtain ⟨hm, hplnext, hch3⟩ := hch2
  subst hm
  -- members of the new list are members of the old list other than `it`
  have hsub : ∀ y, y ∈ q ++ pl :: post → y ∈ g s ∧ y ≠ it := by
    intro y hy
    rw [hg]
    simp only [List.mem_append, List.mem_cons] at hy ⊢
    rcases hy with hy | rfl | hy
    · exact ⟨Or.inl hy, hq y hy it (Or.inr (Or.inl rfl))⟩
    · exact ⟨Or.inr (Or.inl rfl), hplit⟩
    · exact ⟨Or.inr (Or.inr (Or.inr hy)), fun e => hitpost (e ▸ hy)⟩
  have hzpl : z ≠ pl := fun e => hw.not_sent_of_mem hpls (e ▸ hz)
  have hzit : z ≠ it := fun e => hw.not_sent_of_mem hits (e ▸ hz)
  refine ⟨fun t ht => ?_, fun t ht => ?_, hw.sentInj, fun a ha h1 h2 => ?_⟩
  · have ht' : h.ns ≤ t := by simpa using ht
    have : t ≠ s := by omega
    simpa [this] using hw.fresh t ht'
  · have ht' : t < h.ns := by simpa using ht
    by_cases e : t = s
    · subst e
      rw [upd_same, hz]
      refine ⟨fun e => (by cases e), fun z' e => ?_, fun z' e => ?_, ?_,
        fun y hy => ?_, ?_⟩
      · cases e
        simp only [setHdr_hdr_same, Seg_append]
        refine ⟨some pl, hch1.congr (fun y hy => ?_), ?_⟩
        · have h1 : y ≠ pl := hq y hy pl (Or.inl rfl)
          have h2 : y ≠ it := hq y hy it (Or.inr (Or.inl rfl))
          simp [h1, h2]
        · simp only [Seg_cons, true_and, setHdr_item, setItem_item_ne _ _ _ _ hplit, setItem_item_same]
          refine hch3.congr (fun y hy => ?_)
          have h1 : y ≠ pl := fun e => hplpost (e ▸ hy)
          have h2 : y ≠ it := fun e => hitpost (e ▸ hy)
          simp [h1, h2]
      · cases e
        simpa [hzpl, hzit] using hS.sentinel z hz
      · simp [hS.len, hg]; omega
      · obtain ⟨hy1, hy2⟩ := hsub y hy
        have := hS.items y hy1
        by_cases e : y = pl
        · subst e; simpa [hy2] using this
        · simpa [hy2, e] using this
      · refine hnd.sublist ?_
        exact List.Sublist.append (List.Sublist.refl _) (List.Sublist.cons_cons _ (List.sublist_cons_self _ _))
    · rw [upd_ne _ _ _ _ e]
      refine (hw.stk t ht').frame (by simp [e]) (by simp) (fun a ha => ?_) (fun z hz => ?_)
      · have h1 : a ≠ pl := fun e' => e (hw.disjoint (e' ▸ ha) hpls)
        have h2 : a ≠ it := fun e' => e (hw.disjoint (e' ▸ ha) hits)
        simp [h1, h2]
      · have h1 : z ≠ pl := fun e => hw.not_sent_of_mem hpls (e ▸ hz)
        have h2 : z ≠ it := fun e => hw.not_sent_of_mem hits (e ▸ hz)
        simp [h1, h2]
  · by_cases hait : a = it
    · subst hait; simp
    · have hapl : a ≠ pl := fun e => h1 s (by rw [upd_same, e]; simp)
      simp only [setHdr_item, setItem_item_ne _ _ _ _ hait, setItem_item_ne _ _ _ _ hapl]
      refine hw.detached a (by simpa using ha) (fun t ht => ?_) h2
      by_cases e : t = s
      · subst e
        refine h1 t ?_
        rw [upd_same]
        rw [hg] at ht
        simp only [List.mem_append, List.mem_cons] at ht ⊢
        rcases ht with ht | ht | ht | ht
        · exact Or.inl ht
        · exact Or.inr (Or.inl ht)
        · exact absurd ht hait
        · exact Or.inr (Or.inr ht)
      · exact h1 t (by rw [upd_ne _ _ _ _ e]; exact ht)

end WF

theorem Heap.ext' {h h' : Heap} (hi : ∀ a, h.item a = h'.item a) (hh : ∀ t, h.hdr t = h'.hdr t)
    (h1 : h.ni = h'.ni) (h2 : h.ns = h'.ns) : h = h' := by
  cases h; cases h'
  simp only at hi hh h1 h2
  simp only [Heap.mk.injEq]
  exact ⟨funext hi, funext hh, h1, h2⟩

theorem upd_eq_self {α : Type} (f : Nat → α) (s : Nat) (v : α) (e : f s = v) : upd f s v = f := by
  funext t; by_cases ht : t = s
  · subst ht; simp [e]
  · simp [ht]

@[simp] theorem upd_upd {α : Type} (f : Nat → α) (s : Nat) (v w : α) : upd (upd f s v) s w = upd f s w := by
  funext t; by_cases ht : t = s
  · subst ht; simp
  · simp [ht]

/-! ## operations -/

/-- ghost sentinel map after an operation that creates the sentinel of `s` on demand -/
def initSent (h : Heap) (sent : Nat → Option Nat) (s : Nat) : Nat → Option Nat :=
  if (h.hdr s).head = none then upd sent s (some h.ni) else sent

theorem lazyInit_of_head_some {h : Heap} {s a : Nat} (hh : (h.hdr s).head = some a) : h.lazyInit s = h := by
  simp [lazyInit, hh]

theorem lazyInit_head_some (h : Heap) (s : Nat) : ∃ a, ((h.lazyInit s).hdr s).head = some a := by
  cases hh : (h.hdr s).head with
  | none => exact ⟨h.ni, by simp [lazyInit, hh]⟩
  | some a => exact ⟨a, by simp [lazyInit, hh]⟩

theorem lazyInit_of_head_none {h : Heap} {s : Nat} (hh : (h.hdr s).head = none) :
    h.lazyInit s = (h.alloc { ok := false, stack := some s }).1.setHdr s { head := some h.ni, length := 0 } := by
  simp [lazyInit, hh]

namespace WF
variable {h : Heap} {g : Nat → List Nat} {sent : Nat → Option Nat}

theorem lazyInit (hw : WF h g sent) {s : Nat} (hs : s < h.ns) : WF (h.lazyInit s) g (initSent h sent s) := by
  cases hh : (h.hdr s).head with
  | none =>
    rw [lazyInit_of_head_none hh, initSent, if_pos hh]
    exact hw.newSentinel hs hh
  | some a =>
    rw [lazyInit_of_head_some hh, initSent, if_neg (by simp [hh])]
    exact hw

/-- the head pointer of an initialised stack: the top item, or the sentinel when the stack is empty -/
theorem head_eq (hw : WF h g sent) {s z : Nat} (hz : sent s = some z) :
    (h.hdr s).head = some ((g s).headD z) := by
  have hc := (hw.stk s (hw.lt_ns_of_sent hz)).chain z hz
  cases hg : g s with
  | nil => rw [hg] at hc; exact hc
  | cons x xs => rw [hg] at hc; exact hc.1

end WF

/-- heap after `n` has been linked on top of `s` -/
def Heap.linked (h : Heap) (s n : Nat) : Heap :=
  (h.setItem n { h.item n with next := (h.hdr s).head, stack := some s }).setHdr s
    { head := some n, length := (h.hdr s).length + 1 }

theorem itemAppend_reject (h : Heap) (it : Nat) (n : Option Nat)
    (hrej : ¬ ∃ n' s, n = some n' ∧ (h.item it).stack = some s ∧ (h.item n').stack = none ∧ (h.item n').ok = true) :
    h.itemAppend it n = some (h, it) := by
  unfold itemAppend
  cases n with
  | none => rfl
  | some n' =>
    cases hst : (h.item it).stack with
    | none => rfl
    | some s =>
      cases hn : (h.item n').stack with
      | some t => simp [hn]
      | none =>
        cases hok : (h.item n').ok with
        | false => simp [hn, hok]
        | true => exact absurd ⟨n', s, rfl, hst, hn, hok⟩ hrej

theorem itemAppend_accept {h : Heap} {g : Nat → List Nat} {sent : Nat → Option Nat} (hw : WF h g sent)
    {it n s : Nat} (hit : it < h.ni) (hn : n < h.ni) (hst : (h.item it).stack = some s)
    (hnst : (h.item n).stack = none) (hnok : (h.item n).ok = true) :
    h.itemAppend it (some n) = some (h.linked s n, n) ∧ WF (h.linked s n) (upd g s (n :: g s)) sent := by
  have hs : s < h.ns := by
    rcases hw.of_stack_some hit hst with e | e
    · exact hw.lt_ns_of_mem e
    · exact hw.lt_ns_of_sent e
  obtain ⟨z, hz⟩ : ∃ z, sent s = some z := by
    rcases hw.of_stack_some hit hst with e | e
    · cases e' : sent s with
      | none => have := ((hw.stk s hs).empty e').2; rw [this] at e; cases e
      | some z => exact ⟨z, rfl⟩
    · exact ⟨it, e⟩
  have hhead : (h.hdr s).head ≠ none := fun e => by
    rw [(hw.head_none_iff hs).1 e] at hz; cases hz
  obtain ⟨a, ha⟩ : ∃ a, (h.hdr s).head = some a := by
    cases e : (h.hdr s).head with
    | none => exact absurd e hhead
    | some a => exact ⟨a, rfl⟩
  refine ⟨?_, hw.link hs hn hnok hnst hhead⟩
  simp [itemAppend, hst, hnst, hnok, lazyInit_of_head_some ha, Heap.linked]


namespace WF
variable {h : Heap} {g : Nat → List Nat} {sent : Nat → Option Nat}

/-- the head pointer (if non-nil) is an allocated item: a member of `g s` or the sentinel -/
theorem head_cases (hw : WF h g sent) {s a : Nat} (hs : s < h.ns) (hh : (h.hdr s).head = some a) :
    a < h.ni ∧ (a ∈ g s ∨ (sent s = some a ∧ g s = [])) := by
  cases hz : sent s with
  | none => rw [(hw.head_none_iff hs).2 hz] at hh; cases hh
  | some z =>
    have := hw.head_eq hz
    rw [hh] at this
    cases hg : g s with
    | nil =>
      rw [hg] at this; simp at this; subst this
      exact ⟨(hw.sentinel_of_sent hz).1, Or.inr ⟨rfl, rfl⟩⟩
    | cons x xs =>
      rw [hg] at this; simp at this; subst this
      have hx : a ∈ g s := by rw [hg]; exact List.mem_cons_self ..
      exact ⟨(hw.item_of_mem hx).1, Or.inl (hg ▸ hx)⟩

/-- the head item (top item or sentinel) always points back to its stack -/
theorem head_stack (hw : WF h g sent) {s a : Nat} (hs : s < h.ns) (hh : (h.hdr s).head = some a) :
    (h.item a).stack = some s := by
  rcases (hw.head_cases hs hh).2 with e | ⟨e, _⟩
  · exact (hw.item_of_mem e).2.2
  · exact (hw.sentinel_of_sent e).2.2.2

end WF

theorem push_spec {h : Heap} {g : Nat → List Nat} {sent : Nat → Option Nat} (hw : WF h g sent) {s : Nat}
    (hs : s < h.ns) (v : Int) :
    h.push s v = some (((h.lazyInit s).alloc { ok := true, value := v }).1.linked s (h.lazyInit s).ni) ∧
    WF (((h.lazyInit s).alloc { ok := true, value := v }).1.linked s (h.lazyInit s).ni)
      (upd g s ((h.lazyInit s).ni :: g s)) (initSent h sent s) := by
  have hw1 := hw.lazyInit hs
  have hs1 : s < (h.lazyInit s).ns := by
    cases hh : (h.hdr s).head with
    | none => rw [lazyInit_of_head_none hh]; simpa using hs
    | some a => rw [lazyInit_of_head_some hh]; exact hs
  obtain ⟨hd, hhd⟩ := lazyInit_head_some h s
  simp only [push]
  generalize h.lazyInit s = h1 at hw1 hs1 hhd ⊢
  obtain ⟨hdlt, -⟩ := hw1.head_cases hs1 hhd
  have hw2 := hw1.alloc { ok := true, value := v } rfl
  have hne : hd ≠ h1.ni := Nat.ne_of_lt hdlt
  have hacc := itemAppend_accept hw2 (it := hd) (n := h1.ni) (s := s) (by simp; omega) (by simp)
    (by simpa [hne] using hw1.head_stack hs1 hhd) (by simp) (by simp)
  refine ⟨?_, hacc.2⟩
  simp [hhd, hacc.1]

/-- heap after the top item `x` of `s` has been popped -/
def Heap.popped (h : Heap) (s x : Nat) : Heap :=
  (h.setItem x { h.item x with stack := none }).setHdr s
    { head := (h.item x).next, length := (h.hdr s).length - 1 }

theorem pop_nonempty {h : Heap} {g : Nat → List Nat} {sent : Nat → Option Nat} (hw : WF h g sent) {s x : Nat}
    {xs : List Nat} (hs : s < h.ns) (hg : g s = x :: xs) :
    h.pop s = some (h.popped s x, x) ∧ WF (h.popped s x) (upd g s xs) sent := by
  refine ⟨?_, hw.unlinkTop hs hg⟩
  have hS := hw.stk s hs
  obtain ⟨z, hz⟩ : ∃ z, sent s = some z := by
    cases e : sent s with
    | none => have := (hS.empty e).2; rw [hg] at this; cases this
    | some z => exact ⟨z, rfl⟩
  have hh := hw.head_eq hz
  rw [hg] at hh
  have hl : (h.hdr s).length ≠ 0 := by rw [hS.len, hg]; simp; omega
  simp only [pop, hh, List.headD_cons, if_neg hl, Option.some.injEq, Prod.mk.injEq, and_true]
  apply Heap.ext'
  · intro a; by_cases e : a = x
    · subst e; simp [Heap.popped]
    · simp [Heap.popped, e]
  · intro t; by_cases e : t = s
    · subst e; simp [Heap.popped]
    · simp [Heap.popped, e]
  · rfl
  · rfl

theorem pop_empty_nil {h : Heap} {g : Nat → List Nat} {sent : Nat → Option Nat} (hw : WF h g sent) {s : Nat}
    (hs : s < h.ns) (hh : (h.hdr s).head = none) :
    h.pop s = some (h.lazyInit s, h.ni) ∧ WF (h.lazyInit s) g (upd sent s (some h.ni)) := by
  refine ⟨?_, ?_⟩
  · simp [pop, hh, lazyInit]
  · rw [lazyInit_of_head_none hh]; exact hw.newSentinel hs hh

theorem pop_empty_sentinel {h : Heap} {g : Nat → List Nat} {sent : Nat → Option Nat} (hw : WF h g sent) {s z : Nat}
    (hz : sent s = some z) (hg : g s = []) : h.pop s = some (h, z) := by
  have hs := hw.lt_ns_of_sent hz
  have hh := hw.head_eq hz
  have hl : (h.hdr s).length = 0 := by rw [(hw.stk s hs).len, hg]; rfl
  rw [hg] at hh
  simp [pop, hh, hl]

/-- heap after the non-top item `it` has been unlinked from its predecessor `pl` in stack `s` -/
def Heap.unlinked (h : Heap) (s pl it : Nat) : Heap :=
  ((h.setItem pl { h.item pl with next := (h.item it).next }).setItem it
      { h.item it with stack := none }).setHdr s
    { h.hdr s with length := (h.hdr s).length - 1 }

theorem itemRemove_reject (h : Heap) (it : Nat) (hrej : (h.item it).stack = none ∨ (h.item it).ok = false) :
    h.itemRemove it = some (h, false) := by
  unfold itemRemove
  cases hst : (h.item it).stack with
  | none => rfl
  | some s =>
    rcases hrej with e | e
    · rw [hst] at e; cases e
    · simp [e]

theorem removeLoop_spec {h : Heap} {it s pl : Nat} {post : List Nat} {m : Option Nat} (hne : pl ≠ it)
    (hok : (h.item pl).ok = true) :
    ∀ (q : List Nat) (p : Option Nat) (fuel : Nat), Seg h p (q ++ pl :: it :: post) m →
      (∀ y, y ∈ q → (h.item y).ok = true ∧ y ≠ it) → q.length < fuel →
      h.removeLoop it s p fuel = some (h.unlinked s pl it, true) := by
  intro q
  induction q with
  | nil =>
    intro p fuel hseg _ hf
    obtain ⟨rfl, hnx, _⟩ := hseg
    obtain ⟨f, rfl⟩ : ∃ f, fuel = f + 1 := ⟨fuel - 1, by simp at hf; omega⟩
    simp only [removeLoop, hok, hnx, if_true, Option.some.injEq, Prod.mk.injEq, and_true]
    apply Heap.ext'
    · intro a; by_cases e : a = it
      · subst e; simp [Heap.unlinked, Ne.symm hne]
      · by_cases e' : a = pl
        · subst e'; simp [Heap.unlinked, e, hok]
        · simp [Heap.unlinked, e, e']
    · intro t; by_cases e : t = s
      · subst e; simp [Heap.unlinked]
      · simp [Heap.unlinked, e]
    · rfl
    · rfl
  | cons a q ih =>
    intro p fuel hseg hq hf
    simp only [List.cons_append, Seg_cons] at hseg
    obtain ⟨rfl, hrest⟩ := hseg
    obtain ⟨f, rfl⟩ : ∃ f, fuel = f + 1 := ⟨fuel - 1, by simp at hf; omega⟩
    have hoka := (hq a (List.mem_cons_self ..)).1
    have hnext : (h.item a).next ≠ some it := by
      intro e
      rw [e] at hrest
      cases q with
      | nil => exact hne (Option.some.inj hrest.1).symm
      | cons b q => exact (hq b (by simp)).2 (Option.some.inj hrest.1).symm
    simp only [removeLoop, hoka, if_true, if_neg hnext]
    exact ih _ f hrest (fun y hy => hq y (List.mem_cons_of_mem _ hy)) (by simp at hf; omega)

theorem itemRemove_mid {h : Heap} {g : Nat → List Nat} {sent : Nat → Option Nat} (hw : WF h g sent) {s it : Nat}
    (hit : it ∈ g s) (hnh : (h.hdr s).head ≠ some it) :
    ∃ pl, pl ∈ g s ∧ h.itemRemove it = some (h.unlinked s pl it, true) ∧
      WF (h.unlinked s pl it) (upd g s ((g s).erase it)) sent := by
  have hs := hw.lt_ns_of_mem hit
  have hS := hw.stk s hs
  obtain ⟨z, hz⟩ : ∃ z, sent s = some z := by
    cases e : sent s with
    | none => have := (hS.empty e).2; rw [this] at hit; cases hit
    | some z => exact ⟨z, rfl⟩
  obtain ⟨q', post, hg⟩ := List.mem_iff_append.1 hit
  have hch := hS.chain z hz
  rcases List.eq_nil_or_concat q' with rfl | ⟨q, pl, rfl⟩
  · rw [hg] at hch; exact absurd hch.1 hnh
  · have hg' : g s = q ++ pl :: it :: post := by rw [hg]; simp
    have hnd := hS.nodup
    rw [hg'] at hnd
    simp only [List.nodup_append, List.nodup_cons, List.mem_cons, not_or, ne_eq] at hnd
    obtain ⟨-, ⟨⟨hplit, -⟩, -, -⟩, hq⟩ := hnd
    have hitq : it ∉ q := fun hm => hq it hm it (Or.inr (Or.inl rfl)) rfl
    have hpl : pl ∈ g s := by rw [hg']; simp
    have her : (g s).erase it = q ++ pl :: post := by
      rw [hg', List.erase_append_right _ hitq, List.erase_cons_tail (by simpa using hplit),
        List.erase_cons_head]
    refine ⟨pl, hpl, ?_, ?_⟩
    · obtain ⟨-, hok, hst⟩ := hw.item_of_mem hit
      have hlen : q.length < (h.hdr s).length.toNat + 2 := by
        rw [hS.len, hg']; simp; omega
      rw [hg'] at hch
      have := removeLoop_spec (s := s) hplit (hw.item_of_mem hpl).2.1 q _ _ hch
        (fun y hy => ⟨(hw.item_of_mem (s := s) (by rw [hg']; simp [hy])).2.1,
          fun e => hitq (e ▸ hy)⟩) hlen
      simp only [itemRemove, hst, hok, if_neg hnh]
      simpa using this
    · rw [her]; exact hw.unlinkMid hs hg'

/-! ### `Item.Set` -/

theorem itemSet_refuse (h : Heap) (it : Nat) (v : Int)
    (hr : (h.item it).stack.isSome = true ∧ (h.item it).next = none) : h.itemSet it v = (h, false) := by
  simp [itemSet, hr.1, hr.2]

theorem itemSet_accept (h : Heap) (it : Nat) (v : Int)
    (hr : ¬ ((h.item it).stack.isSome = true ∧ (h.item it).next = none)) :
    h.itemSet it v = (h.setItem it { h.item it with ok := true, value := v }, true) := by
  unfold itemSet
  rw [if_neg]
  intro hc
  simp only [Bool.and_eq_true, Option.isNone_iff_eq_none] at hc
  exact hr hc

/-- in a well-formed heap the refused items are exactly the sentinels -/
theorem refused_iff {h : Heap} {g : Nat → List Nat} {sent : Nat → Option Nat} (hw : WF h g sent) {it : Nat}
    (hit : it < h.ni) :
    ((h.item it).stack.isSome = true ∧ (h.item it).next = none) ↔
      ∃ s, sent s = some it := by
  constructor
  · rintro ⟨h1, h2⟩
    obtain ⟨s, hs⟩ := Option.isSome_iff_exists.1 h1
    rcases hw.of_stack_some hit hs with e | e
    · have hS := hw.stk s (hw.lt_ns_of_mem e)
      cases hz : sent s with
      | none => have := (hS.empty hz).2; rw [this] at e; cases e
      | some z =>
        obtain ⟨m, hm⟩ := (hS.chain z hz).next_some e
        rw [h2] at hm; cases hm
    · exact ⟨s, e⟩
  · rintro ⟨s, hz⟩
    obtain ⟨_, _, hnx, hst⟩ := hw.sentinel_of_sent hz
    exact ⟨by simp [hst], hnx⟩

/-! ### traversal -/

theorem walk_seg {h : Heap} {z : Nat} (hz : (h.item z).ok = false) :
    ∀ (xs : List Nat) (p : Option Nat) (fuel : Nat), Seg h p xs (some z) →
      (∀ x, x ∈ xs → (h.item x).ok = true) → xs.length < fuel → h.walk fuel p = (xs, "end") := by
  intro xs
  induction xs with
  | nil =>
    intro p fuel hseg _ hf
    obtain ⟨f, rfl⟩ : ∃ f, fuel = f + 1 := ⟨fuel - 1, by simp at hf; omega⟩
    cases hseg
    simp [walk, hz]
  | cons x xs ih =>
    intro p fuel hseg hok hf
    obtain ⟨f, rfl⟩ : ∃ f, fuel = f + 1 := ⟨fuel - 1, by simp at hf; omega⟩
    obtain ⟨rfl, hrest⟩ := hseg
    have := ih _ f hrest (fun y hy => hok y (List.mem_cons_of_mem _ hy)) (by simp at hf; omega)
    simp [walk, hok x (List.mem_cons_self ..), this]

/-! ### `PopIterator` run to EOF -/

theorem popIterLoop_spec {sent : Nat → Option Nat} {s : Nat} :
    ∀ (fuel : Nat) (h : Heap) (g : Nat → List Nat) (acc : List Nat), WF h g sent → s < h.ns →
      (g s).length < fuel →
      ∃ h', h.popIterLoop s fuel acc = some (h', acc.reverse ++ g s) ∧
        WF h' (upd g s []) (initSent h sent s) ∧ h.ni ≤ h'.ni ∧ h'.ns = h.ns := by
  intro fuel
  induction fuel with
  | zero => intro h g acc _ _ hf; cases hf
  | succ f ih =>
    intro h g acc hw hs hf
    cases hg : g s with
    | nil =>
      have hgg : upd g s [] = g := upd_eq_self _ _ _ hg
      cases hh : (h.hdr s).head with
      | none =>
        obtain ⟨hp, hw'⟩ := pop_empty_nil hw hs hh
        have hex := lazyInit_of_head_none hh
        refine ⟨h.lazyInit s, ?_, ?_, ?_, ?_⟩
        · simp only [popIterLoop, hp]
          simp [hex]
        · rw [hgg, initSent, if_pos hh]; exact hw'
        · simp [hex]
        · simp [hex]
      | some a =>
        obtain ⟨z, hz⟩ : ∃ z, sent s = some z := by
          cases e : sent s with
          | none => rw [(hw.head_none_iff hs).2 e] at hh; cases hh
          | some z => exact ⟨z, rfl⟩
        have hp := pop_empty_sentinel hw hz hg
        have hhz := hw.head_eq hz
        rw [hg] at hhz
        refine ⟨h, ?_, ?_, Nat.le_refl _, rfl⟩
        · simp only [popIterLoop, hp]
          simp [hhz]
        · rw [hgg, initSent, if_neg (by simp [hh])]; exact hw
    | cons x xs =>
      obtain ⟨hp, hw'⟩ := pop_nonempty hw hs hg
      have hS := hw.stk s hs
      obtain ⟨z, hz⟩ : ∃ z, sent s = some z := by
        cases e : sent s with
        | none => have := (hS.empty e).2; rw [hg] at this; cases this
        | some z => exact ⟨z, rfl⟩
      have hxs : x ∈ g s := by rw [hg]; exact List.mem_cons_self ..
      have hch := hS.chain z hz
      rw [hg] at hch
      have hnd := hS.nodup
      rw [hg, List.nodup_cons] at hnd
      -- the new head is not the popped item
      have hne : ((h.popped s x).hdr s).head ≠ some x := by
        simp only [Heap.popped, setHdr_hdr_same]
        intro e
        have hrest := hch.2
        rw [e] at hrest
        cases xs with
        | nil =>
          have : x = z := Option.some.inj hrest
          exact hw.not_sent_of_mem hxs (this ▸ hz)
        | cons y ys =>
          have : x = y := Option.some.inj hrest.1
          exact hnd.1 (this ▸ List.mem_cons_self ..)
      have hhead : (h.hdr s).head ≠ none := by rw [hch.1]; simp
      have hhead' : ((h.popped s x).hdr s).head ≠ none := by
        obtain ⟨a, ha⟩ := hch.2.start_some
        simp [Heap.popped, ha]
      obtain ⟨h', hrun, hwf, hni, hns⟩ := ih (h.popped s x) (upd g s xs) (x :: acc) hw' (by simpa [Heap.popped] using hs)
        (by rw [hg] at hf; simp at hf ⊢; omega)
      refine ⟨h', ?_, ?_, ?_, ?_⟩
      · simp only [popIterLoop, hp]
        simpa [hne] using hrun
      · rw [initSent, if_neg hhead]
        rw [initSent, if_neg hhead', upd_upd] at hwf
        exact hwf
      · simpa [Heap.popped] using hni
      · simpa [Heap.popped] using hns


/-! ## reachable states -/

/-- heaps reachable from the empty heap by the public operations (allocated arguments only).
`Item.Remove` of a top item is excluded (see the findings). -/
inductive Reachable : Heap → Prop
  | empty : Reachable {}
  | allocStack {h : Heap} : Reachable h → Reachable h.allocStack.1
  | alloc {h : Heap} (n : Item) : Reachable h → n.stack = none → Reachable (h.alloc n).1
  | push {h h' : Heap} {s : Nat} {v : Int} : Reachable h → s < h.ns → h.push s v = some h' → Reachable h'
  | pop {h h' : Heap} {s x : Nat} : Reachable h → s < h.ns → h.pop s = some (h', x) → Reachable h'
  | head {h : Heap} {s : Nat} : Reachable h → s < h.ns → Reachable (h.head s).1
  | itemAppend {h h' : Heap} {it r : Nat} {n : Option Nat} : Reachable h → it < h.ni →
      (∀ n', n = some n' → n' < h.ni) → h.itemAppend it n = some (h', r) → Reachable h'
  | itemRemove {h h' : Heap} {it : Nat} {b : Bool} : Reachable h → it < h.ni →
      (∀ s, (h.item it).stack = some s → (h.hdr s).head ≠ some it) →
      h.itemRemove it = some (h', b) → Reachable h'
  | itemSet {h : Heap} {it : Nat} {v : Int} : Reachable h → it < h.ni → Reachable (h.itemSet it v).1
  | popIter {h h' : Heap} {s fuel : Nat} {out : List Nat} : Reachable h → s < h.ns →
      (h.hdr s).length.toNat < fuel → h.popIterLoop s fuel [] = some (h', out) → Reachable h'

theorem WF.init : WF {} (fun _ => []) (fun _ => none) where
  fresh := fun _ _ => ⟨rfl, rfl⟩
  stk := fun s hs => by cases hs
  sentInj := fun _ _ _ e => by cases e
  detached := fun a ha => by cases ha

theorem pop_wf {h : Heap} {g : Nat → List Nat} {sent : Nat → Option Nat} (hw : WF h g sent) {s : Nat}
    (hs : s < h.ns) : ∃ h' x, h.pop s = some (h', x) ∧ WF h' (upd g s (g s).tail) (initSent h sent s) := by
  cases hg : g s with
  | nil =>
    have hgg : upd g s [].tail = g := upd_eq_self _ _ _ hg
    rw [hgg]
    cases hh : (h.hdr s).head with
    | none =>
      obtain ⟨hp, hw'⟩ := pop_empty_nil hw hs hh
      exact ⟨_, _, hp, by rw [initSent, if_pos hh]; exact hw'⟩
    | some a =>
      obtain ⟨z, hz⟩ : ∃ z, sent s = some z := by
        cases e : sent s with
        | none => rw [(hw.head_none_iff hs).2 e] at hh; cases hh
        | some z => exact ⟨z, rfl⟩
      exact ⟨_, _, pop_empty_sentinel hw hz hg, by rw [initSent, if_neg (by simp [hh])]; exact hw⟩
  | cons x xs =>
    obtain ⟨hp, hw'⟩ := pop_nonempty hw hs hg
    have hhead : (h.hdr s).head ≠ none := by
      intro e
      have := ((hw.stk s hs).empty ((hw.head_none_iff hs).1 e)).2
      rw [hg] at this; cases this
    exact ⟨_, _, hp, by rw [initSent, if_neg hhead]; exact hw'⟩

theorem push_wf {h : Heap} {g : Nat → List Nat} {sent : Nat → Option Nat} (hw : WF h g sent) {s : Nat}
    (hs : s < h.ns) (v : Int) : ∃ h' g' sent', h.push s v = some h' ∧ WF h' g' sent' := by
  obtain ⟨hp, hw'⟩ := push_spec hw hs v
  exact ⟨_, _, _, hp, hw'⟩

theorem Reachable.wf {h : Heap} (hr : Reachable h) : ∃ g sent, WF h g sent := by
  induction hr with
  | empty => exact ⟨_, _, WF.init⟩
  | allocStack _ ih => obtain ⟨g, sent, hw⟩ := ih; exact ⟨g, sent, hw.allocStack⟩
  | alloc n _ hn ih => obtain ⟨g, sent, hw⟩ := ih; exact ⟨g, sent, hw.alloc n hn⟩
  | @push h h' s v _ hs hp ih =>
    obtain ⟨g, sent, hw⟩ := ih
    obtain ⟨h'', g', sent', hp', hw'⟩ := push_wf hw hs v
    rw [hp] at hp'; cases hp'
    exact ⟨g', sent', hw'⟩
  | @pop h h' s x _ hs hp ih =>
    obtain ⟨g, sent, hw⟩ := ih
    obtain ⟨h'', x', hp', hw'⟩ := pop_wf hw hs
    rw [hp] at hp'; cases hp'
    exact ⟨_, _, hw'⟩
  | @head h s _ hs ih =>
    obtain ⟨g, sent, hw⟩ := ih
    exact ⟨_, _, hw.lazyInit hs⟩
  | @itemAppend h h' it r n _ hit hn hp ih =>
    obtain ⟨g, sent, hw⟩ := ih
    by_cases hacc : ∃ n' s, n = some n' ∧ (h.item it).stack = some s ∧ (h.item n').stack = none ∧
        (h.item n').ok = true
    · obtain ⟨n', s, rfl, h1, h2, h3⟩ := hacc
      obtain ⟨hp', hw'⟩ := itemAppend_accept hw hit (hn n' rfl) h1 h2 h3
      rw [hp] at hp'; cases hp'
      exact ⟨_, _, hw'⟩
    · rw [itemAppend_reject h it n hacc] at hp; cases hp
      exact ⟨g, sent, hw⟩
  | @itemRemove h h' it b _ hit hnh hp ih =>
    obtain ⟨g, sent, hw⟩ := ih
    by_cases hrej : (h.item it).stack = none ∨ (h.item it).ok = false
    · rw [itemRemove_reject h it hrej] at hp; cases hp
      exact ⟨g, sent, hw⟩
    · cases hst : (h.item it).stack with
      | none => exact absurd (Or.inl hst) hrej
      | some s =>
        have hok : (h.item it).ok = true := by
          cases e : (h.item it).ok with
          | true => rfl
          | false => exact absurd (Or.inr e) hrej
        have hmem : it ∈ g s := by
          rcases hw.of_stack_some hit hst with e | e
          · exact e
          · exact absurd e (hw.not_sent_of_ok hok s)
        obtain ⟨pl, _, hp', hw'⟩ := itemRemove_mid hw hmem (hnh s hst)
        rw [hp] at hp'; cases hp'
        exact ⟨_, _, hw'⟩
  | @itemSet h it v _ hit ih =>
    obtain ⟨g, sent, hw⟩ := ih
    by_cases hr : (h.item it).stack.isSome = true ∧ (h.item it).next = none
    · rw [itemSet_refuse h it v hr]; exact ⟨g, sent, hw⟩
    · rw [itemSet_accept h it v hr]
      refine ⟨g, sent, hw.setValue v (fun t ht => ?_)⟩
      obtain ⟨_, _, hnx, hst⟩ := hw.sentinel_of_sent ht
      exact hr ⟨by simp [hst], hnx⟩
  | @popIter h h' s fuel out _ hs hf hp ih =>
    obtain ⟨g, sent, hw⟩ := ih
    have hf' : (g s).length < fuel := by
      rw [(hw.stk s hs).len] at hf; simpa using hf
    obtain ⟨h'', hp', hw', _, _⟩ := popIterLoop_spec fuel h g [] hw hs hf'
    rw [hp] at hp'; cases hp'
    exact ⟨_, _, hw'⟩


end FunModel.Sll
