import FunModel.Pipe

/-! The Split model with per-output contexts: the abandoned-first-output leak (finding D25) as a
    kernel-checked schedule, and the proof that the leak is permanent. -/
namespace FunModel.Pipe.Split

/-- two outputs, input 1 2 3: output 0 is advanced first (the reader goroutine gets *its* context),
    both outputs take one item, output 1 is closed, output 0 is abandoned (never touched again) -/
def leakSchedule : List Act :=
  [.advance 0, .rRead, .deliver 0, .advance 1, .rRead, .deliver 1, .close 1, .rRead]

def leakState : St :=
  { src := [], rd := .running (some 3), rdCtx := some 0, spawned := 1, pclosed := false, ucancel := false,
    outs := [{ closed := false, parked := false, got := [1] }, { closed := true, parked := false, got := [2] }] }

theorem leak_reached : run (init [1, 2, 3] 2) leakSchedule = some leakState := by decide

/-- what stays true as long as nobody touches the abandoned output 0 and the caller's context lives -/
def Leaked (s : St) : Prop :=
  s.rd = .running (some 3) ∧ s.rdCtx = some 0 ∧ s.ucancel = false ∧
  ∃ o1, s.outs = [{ closed := false, parked := false, got := [1] }, o1] ∧ o1.closed = true ∧ o1.parked = false

theorem leaked_leakState : Leaked leakState := by
  refine ⟨rfl, rfl, rfl, _, rfl, rfl, rfl⟩

theorem leaked_step {s s' : St} {a : Act} (h : Leaked s) (ha : a.touches 0 = false) (hc : a ≠ .cancel)
    (hs : step s a = some s') : Leaked s' := by
  obtain ⟨h1, h2, h3, o1, h4, h5, h6⟩ := h
  cases a with
  | cancel => exact absurd rfl hc
  | rRead => simp [step, h1] at hs
  | rEof => simp [step, h1] at hs
  | rCtx => simp [step, h1, St.rdDone, h2, St.ctxDone, h3, h4] at hs
  | advance i =>
    match i with
    | 0 => simp [Act.touches] at ha
    | 1 => simp [step, h4, h5] at hs
    | j + 2 => simp [step, h4] at hs
  | deliver i =>
    match i with
    | 0 => simp [Act.touches] at ha
    | 1 => simp [step, h4, h1, h6] at hs
    | j + 2 => simp [step, h4] at hs
  | eof i =>
    match i with
    | 0 => simp [Act.touches] at ha
    | 1 => simp [step, h4, h6] at hs
    | j + 2 => simp [step, h4] at hs
  | ctx i =>
    match i with
    | 0 => simp [Act.touches] at ha
    | 1 => simp [step, h4, h6] at hs
    | j + 2 => simp [step, h4] at hs
  | close i =>
    match i with
    | 0 => simp [Act.touches] at ha
    | 1 =>
      simp [step, h4] at hs
      subst hs
      exact ⟨h1, h2, h3, { o1 with closed := true }, by simp, rfl, h6⟩
    | j + 2 => simp [step, h4] at hs

theorem leaked_run (as : List Act) : ∀ {s s' : St}, Leaked s →
    (∀ a ∈ as, a.touches 0 = false ∧ a ≠ .cancel) → run s as = some s' → Leaked s' := by
  induction as with
  | nil => intro s s' h _ hr; simp [run] at hr; subst hr; exact h
  | cons a as ih =>
    intro s s' h hall hr
    simp only [run, List.foldlM_cons] at hr
    cases hst : step s a with
    | none => simp [hst] at hr
    | some s1 =>
      simp only [hst] at hr
      have ha := hall a (by simp)
      exact ih (leaked_step h ha.1 ha.2 hst) (fun b hb => hall b (by simp [hb])) hr

theorem leaked_stuck {s : St} (h : Leaked s) : s.readerStuck = true := by
  obtain ⟨h1, h2, h3, o1, h4, h5, h6⟩ := h
  simp [St.readerStuck, step, h1, St.rdDone, h2, St.ctxDone, h3, h4]

/-- the reader goroutine is started at most once, by the first advance, under that output's context -/
def Once (s : St) : Prop :=
  (s.rd = .notStarted ∧ s.spawned = 0 ∧ s.rdCtx = none) ∨ (s.rd ≠ .notStarted ∧ s.spawned = 1 ∧ s.rdCtx ≠ none)

theorem once_step {s s' : St} {a : Act} (h : Once s) (hs : step s a = some s') : Once s' := by
  cases a <;> simp only [step] at hs <;> (repeat' (split at hs)) <;> cases hs
  all_goals (first | exact h | (unfold Once at h ⊢; simp_all))

theorem once_run (as : List Act) : ∀ {s s' : St}, Once s → run s as = some s' → Once s' := by
  induction as with
  | nil => intro s s' h hr; simp [run] at hr; subst hr; exact h
  | cons a as ih =>
    intro s s' h hr
    simp only [run, List.foldlM_cons] at hr
    cases hst : step s a with
    | none => simp [hst] at hr
    | some s1 =>
      simp only [hst] at hr
      exact ih (once_step h hst) hr

end FunModel.Pipe.Split
