import FunProofs.Broker

/-! C09: well-formedness of reachable states, what quiescence implies (no stuck state), shutdown. -/
namespace FunProofs.Broker
open FunModel.Broker

def Cfg.valid (c : Cfg) : Prop :=
  match c.backend with
  | .shedding hard => 0 < hard
  | .evicting cap => 0 < cap
  | _ => True

structure WF (c : Cfg) (s : St) : Prop where
  nws : s.ws.length = c.nworkers
  liveLoop : s.live = true → s.loop ≠ .exited
  liveWs : s.live = true → ∀ w ∈ s.ws, w ≠ Worker.exited
  subsLt : ∀ k ∈ s.subs, k < s.nextSub
  subQLt : ∀ k ∈ s.subQ, k < s.nextSub
  callLt : ∀ cl ∈ s.calls, ∀ k, cl.kind = CallKind.sub k → k < s.nextSub
  sendsLt : ∀ p ∈ s.sends, p.1 < s.nextSub
  chanLt : ∀ k, s.chan k ≠ [] → k < s.nextSub

theorem wf_init (c : Cfg) : WF c (init c) := by
  refine ⟨by simp [init], by simp [init], ?_, by simp [init], by simp [init], by simp [init], by simp [init],
    by simp [init]⟩
  intro _ w hw
  simp [init, List.mem_replicate] at hw
  simp [hw.2]

theorem mem_insertSub {k x : Sub} {l : List Sub} (h : x ∈ insertSub k l) : x ∈ l ∨ x = k := by
  simp only [insertSub] at h
  split at h
  · exact Or.inl h
  · simpa using h

theorem callLt_append {calls : List Call} {n : Nat} {cl : Call}
    (h6 : ∀ cl ∈ calls, ∀ k, cl.kind = CallKind.sub k → k < n) (hcl : ∀ k, cl.kind ≠ CallKind.sub k) :
    ∀ x ∈ calls ++ [cl], ∀ k, x.kind = CallKind.sub k → k < n := by
  intro x hx k hk
  simp only [List.mem_append, List.mem_singleton] at hx
  rcases hx with hx | hx
  · exact h6 x hx k hk
  · subst hx; exact absurd hk (hcl k)

theorem wf_step {c : Cfg} {s s' : St} {a : Act} (hw : WF c s) (h : Step c s a s') : WF c s' := by
  obtain ⟨h1, h2, h3, h4, h5, h6, h7, h8⟩ := hw
  cases h
  case subCall =>
    refine ⟨h1, h2, h3, fun k hk => Nat.lt_succ_of_lt (h4 k hk), fun k hk => Nat.lt_succ_of_lt (h5 k hk), ?_,
      fun p hp => Nat.lt_succ_of_lt (h7 p hp), fun k hk => Nat.lt_succ_of_lt (h8 k hk)⟩
    intro cl hcl k hk
    simp only [List.mem_append, List.mem_singleton] at hcl
    rcases hcl with hcl | hcl
    · exact Nat.lt_succ_of_lt (h6 cl hcl k hk)
    · subst hcl; simp at hk; subst hk; exact Nat.lt_succ_self _
  case unsubCall k => exact ⟨h1, h2, h3, h4, h5, callLt_append h6 (by simp), h7, h8⟩
  case pubCall p hp => exact ⟨h1, h2, h3, h4, h5, callLt_append h6 (by simp), h7, h8⟩
  case statsCall => exact ⟨h1, h2, h3, h4, h5, callLt_append h6 (by simp), h7, h8⟩
  case waitCall => exact ⟨h1, h2, h3, h4, h5, callLt_append h6 (by simp), h7, h8⟩
  case cancelCall i cl hc =>
    refine ⟨h1, h2, h3, h4, h5, ?_, h7, h8⟩
    intro x hx k hk
    rcases List.mem_or_eq_of_mem_set hx with hx | hx
    · exact h6 x hx k hk
    · subst hx; exact h6 cl (List.mem_of_getElem? hc) k hk
  case enqSub i k x hc hq =>
    refine ⟨h1, h2, h3, h4, ?_, fun cl hcl => h6 cl (List.mem_of_mem_eraseIdx hcl), h7, h8⟩
    intro k' hk'
    simp only [List.mem_append, List.mem_singleton] at hk'
    rcases hk' with hk' | hk'
    · exact h5 k' hk'
    · subst hk'; exact h6 _ (List.mem_of_getElem? hc) _ rfl
  case loopSubQ k rest hl hq =>
    refine ⟨h1, h2, h3, ?_, fun k' hk' => h5 k' (by rw [hq]; exact List.mem_cons_of_mem _ hk'), h6, h7, h8⟩
    intro k' hk'
    rcases mem_insertSub hk' with h | h
    · exact h4 k' h
    · subst h; exact h5 _ (by rw [hq]; exact List.mem_cons_self)
  case loopSub i k x hl hc =>
    refine ⟨h1, h2, h3, ?_, h5, fun cl hcl => h6 cl (List.mem_of_mem_eraseIdx hcl), h7, h8⟩
    intro k' hk'
    rcases mem_insertSub hk' with h | h
    · exact h4 k' h
    · subst h; exact h6 _ (List.mem_of_getElem? hc) _ rfl
  case loopExit hl hd => exact ⟨h1, (fun h => by rw [hd] at h; cases h), h3, h4, h5, h6, h7, h8⟩
  case wNext w k m start visited hw hk hv hp =>
    refine ⟨by simpa using h1, h2, ?_, h4, h5, h6, ?_, h8⟩
    · intro hl x hx
      rcases List.mem_or_eq_of_mem_set hx with h | h
      · exact h3 hl x h
      · subst h; simp
    · intro p hp'
      simp only [List.mem_append, List.mem_singleton] at hp'
      rcases hp' with h | h
      · exact h7 p h
      · subst h; exact h4 k hk
  case wExit w hd hw => exact ⟨(by simpa using h1), h2, (fun h => by rw [hd] at h; cases h), h4, h5, h6, h7, h8⟩
  case deliver k m hs hb =>
    refine ⟨h1, h2, h3, h4, h5, h6, fun p hp => h7 p (List.mem_of_mem_erase hp), ?_⟩
    intro k' hk'
    simp only [upd_apply] at hk'
    split at hk'
    · rename_i he; subst he; exact h7 _ hs
    · exact h8 k' hk'
  case recv k m rest hb ho =>
    refine ⟨h1, h2, h3, h4, h5, h6, h7, ?_⟩
    intro k' hk'
    simp only [upd_apply] at hk'
    split at hk'
    · rename_i he; subst he; exact h8 _ (by rw [hb]; simp)
    · exact h8 k' hk'
  all_goals (refine ⟨?_, ?_, ?_, ?_, ?_, ?_, ?_, ?_⟩ <;> (try simp only []) <;> (try assumption))
  all_goals first
    | (simp only [List.length_set]; exact h1)
    | (intro hl; simp at hl; done)
    | (intro _; simp; done)
    | (intro cl hcl; exact h6 cl (List.mem_of_mem_eraseIdx hcl))
    | (intro k hk; exact h4 k (List.mem_of_mem_erase hk))
    | (intro p hp; exact h7 p (List.mem_of_mem_erase hp))
    | (intro hl w hw; rcases List.mem_or_eq_of_mem_set hw with h | h
       · exact h3 hl w h
       · subst h; simp)


theorem wf_reachable {c : Cfg} {s : St} (h : Reachable c s) : WF c s :=
  reachable_induction (WF c) (wf_init c) (fun _ _ _ _ hw hs => wf_step hw hs) s h

/-! ### quiescence -/

theorem none_of_quiescent {c : Cfg} {s : St} {a : Act} (hq : quiescent c s = true) (ha : a ∈ candidates s) :
    stepCore c s a = none := by
  simp only [quiescent, enabledInternal, List.isEmpty_iff, List.filter_eq_nil_iff] at hq
  have := hq a ha
  cases h : stepCore c s a with
  | none => rfl
  | some x => simp [h] at this

theorem cand_call {s : St} {i : Nat} (hi : i < s.calls.length) :
    Act.enqSub i ∈ candidates s ∧ Act.enqUnsub i ∈ candidates s ∧ Act.callAbort i ∈ candidates s ∧
    Act.waitRet i ∈ candidates s ∧ Act.loopSub i ∈ candidates s ∧ Act.loopUnsub i ∈ candidates s ∧
    Act.loopStats i ∈ candidates s ∧ Act.loopTake i ∈ candidates s := by
  simp [candidates, callIdx, hi]

theorem cand_loop (s : St) :
    Act.loopSubQ ∈ candidates s ∧ Act.loopUnsubQ ∈ candidates s ∧ Act.loopSend true ∈ candidates s ∧
    Act.loopSend false ∈ candidates s ∧ Act.loopSendAbort ∈ candidates s ∧ Act.loopExit ∈ candidates s := by
  simp [candidates]

theorem cand_worker {s : St} {w : Nat} (hw : w < s.ws.length) :
    Act.wRecv w ∈ candidates s ∧ Act.wStart w ∈ candidates s ∧ Act.wDone w ∈ candidates s ∧
    Act.wAbandon w ∈ candidates s ∧ Act.wExit w ∈ candidates s ∧ ∀ k ∈ s.subs, Act.wNext w k ∈ candidates s := by
  simp [candidates, workerIdx, hw]

theorem cand_send {s : St} {k : Sub} {m : Msg} (h : (k, m) ∈ s.sends) :
    Act.deliver k m ∈ candidates s ∧ Act.handoff k m ∈ candidates s ∧ Act.sendAbort k m ∈ candidates s := by
  simp [candidates, h]

theorem cand_recv {s : St} {k : Sub} (h : k < s.nextSub) : Act.recv k ∈ candidates s := by
  simp [candidates, h]

/-- nothing is on its way and nothing is asked of the event loop -/
structure Idle (s : St) : Prop where
  sends : s.sends = []
  chans : ∀ k, s.chan k = []
  workers : ∀ w ∈ s.ws, w = Worker.idle
  loop : s.loop = .select
  buf : s.buf = []
  calls : ∀ cl ∈ s.calls, cl.kind = CallKind.wait

theorem isOpen_of_allOpen {s : St} (ho : allOpen s = true) {k : Sub} (hk : k < s.nextSub) : s.isOpen k = true := by
  simp only [allOpen, List.all_eq_true, List.mem_range] at ho
  exact ho k hk

theorem nworkers_pos (c : Cfg) : 0 < c.nworkers := by
  simp only [Cfg.nworkers]; split <;> omega

theorem idle_of_quiescent {c : Cfg} {s : St} (hv : Cfg.valid c) (hw : WF c s) (hl : s.live = true)
    (ho : allOpen s = true) (hq : quiescent c s = true) : Idle s := by
  have hsends : s.sends = [] := by
    cases hs : s.sends with
    | nil => rfl
    | cons p rest =>
      exfalso
      obtain ⟨k, m⟩ := p
      have hmem : (k, m) ∈ s.sends := by rw [hs]; exact List.mem_cons_self
      have hk : k < s.nextSub := hw.sendsLt _ hmem
      have hopen := isOpen_of_allOpen ho hk
      cases hc : s.chan k with
      | nil =>
        have := none_of_quiescent hq (cand_send hmem).2.1
        simp [stepCore, hmem, hc, hopen] at this
      | cons m' rest' =>
        have := none_of_quiescent hq (cand_recv hk)
        simp [stepCore, hc, hopen] at this
  have hchans : ∀ k, s.chan k = [] := by
    intro k
    cases hc : s.chan k with
    | nil => rfl
    | cons m' rest' =>
      exfalso
      have hk : k < s.nextSub := hw.chanLt k (by rw [hc]; simp)
      have := none_of_quiescent hq (cand_recv hk)
      simp [stepCore, hc, isOpen_of_allOpen ho hk] at this
  have hworkers : ∀ w ∈ s.ws, w = Worker.idle := by
    intro w hwm
    obtain ⟨i, hi⟩ := List.mem_iff_getElem?.mp hwm
    have hilt : i < s.ws.length := by
      rcases Nat.lt_or_ge i s.ws.length with h | h
      · exact h
      · simp [List.getElem?_eq_none h] at hi
    have hc := cand_worker hilt
    cases w with
    | idle => rfl
    | exited => exact absurd rfl (hw.liveWs hl _ hwm)
    | got m =>
      exfalso
      have := none_of_quiescent hq hc.2.1
      simp [stepCore, hi] at this
    | iter m start visited =>
      exfalso
      cases hr : rangeDone s.subs start visited with
      | true =>
        have := none_of_quiescent hq hc.2.2.1
        simp [stepCore, hi, hr, pendingOf, hsends] at this
      | false =>
        simp only [rangeDone, List.all_eq_false] at hr
        obtain ⟨k, hk, hnot⟩ := hr
        simp only [Bool.or_eq_true, Bool.not_eq_true', not_or, Bool.not_eq_false, Bool.not_eq_true] at hnot
        have hks : k ∈ s.subs := by simpa using hnot.1
        have hkv : k ∉ visited := by simpa using hnot.2
        have := none_of_quiescent hq (hc.2.2.2.2.2 k hks)
        simp [stepCore, hi, hks, hkv, pendingOf, hsends] at this
  have h0 : s.ws[0]? = some Worker.idle := by
    have hlen : 0 < s.ws.length := by rw [hw.nws]; exact nworkers_pos c
    have : s.ws[0]? = some s.ws[0] := List.getElem?_eq_getElem hlen
    rw [this, hworkers _ (List.getElem_mem hlen)]
  have hc0 : 0 < s.ws.length := by rw [hw.nws]; exact nworkers_pos c
  have hloop : s.loop = .select := by
    cases hlp : s.loop with
    | select => rfl
    | exited => exact absurd hlp (hw.liveLoop hl)
    | sending m =>
      exfalso
      cases hb : s.buf with
      | cons m' rest =>
        have := none_of_quiescent hq (cand_worker hc0).1
        simp [stepCore, h0, hb] at this
      | nil =>
        cases hbk : c.backend with
        | fifo =>
          have := none_of_quiescent hq (cand_loop s).2.2.1
          simp [stepCore, hlp, sendTo, hbk] at this
        | blocking cap =>
          have := none_of_quiescent hq (cand_worker hc0).1
          simp [stepCore, h0, hb, hlp, hbk] at this
        | shedding hard =>
          have hpos : 0 < hard := by simpa [Cfg.valid, hbk] using hv
          have := none_of_quiescent hq (cand_loop s).2.2.1
          simp [stepCore, hlp, sendTo, hbk, hb, hpos] at this
        | evicting cap =>
          have hpos : 0 < cap := by simpa [Cfg.valid, hbk] using hv
          have := none_of_quiescent hq (cand_loop s).2.2.1
          simp [stepCore, hlp, sendTo, hbk, hb, hpos] at this
  have hbuf : s.buf = [] := by
    cases hb : s.buf with
    | nil => rfl
    | cons m' rest =>
      exfalso
      have := none_of_quiescent hq (cand_worker hc0).1
      simp [stepCore, h0, hb] at this
  refine ⟨hsends, hchans, hworkers, hloop, hbuf, ?_⟩
  intro cl hcl
  obtain ⟨i, hi⟩ := List.mem_iff_getElem?.mp hcl
  have hilt : i < s.calls.length := by
    rcases Nat.lt_or_ge i s.calls.length with h | h
    · exact h
    · simp [List.getElem?_eq_none h] at hi
  have hc := cand_call hilt
  obtain ⟨kind, x⟩ := cl
  cases kind with
  | wait => rfl
  | sub k =>
    exfalso
    have := none_of_quiescent hq hc.2.2.2.2.1
    simp [stepCore, hloop, hi] at this
  | unsub k =>
    exfalso
    have := none_of_quiescent hq hc.2.2.2.2.2.1
    simp [stepCore, hloop, hi] at this
  | stats =>
    exfalso
    have := none_of_quiescent hq hc.2.2.2.2.2.2.1
    simp [stepCore, hloop, hi] at this
  | pub m =>
    exfalso
    have := none_of_quiescent hq hc.2.2.2.2.2.2.2
    simp [stepCore, hloop, hi] at this

/-- every broker goroutine has returned -/
structure Down (s : St) : Prop where
  loop : s.loop = .exited
  workers : ∀ w ∈ s.ws, w = Worker.exited
  sends : s.sends = []
  waits : ∀ cl ∈ s.calls, cl.kind ≠ CallKind.wait

theorem down_of_quiescent {c : Cfg} {s : St} (hd : s.live = false) (hq : quiescent c s = true) : Down s := by
  have hloop : s.loop = .exited := by
    cases hlp : s.loop with
    | exited => rfl
    | select =>
      exfalso
      have := none_of_quiescent hq (cand_loop s).2.2.2.2.2
      simp [stepCore, hlp, hd] at this
    | sending m =>
      exfalso
      have := none_of_quiescent hq (cand_loop s).2.2.2.2.1
      simp [stepCore, hlp, hd] at this
  have hworkers : ∀ w ∈ s.ws, w = Worker.exited := by
    intro w hwm
    obtain ⟨i, hi⟩ := List.mem_iff_getElem?.mp hwm
    have hilt : i < s.ws.length := by
      rcases Nat.lt_or_ge i s.ws.length with h | h
      · exact h
      · simp [List.getElem?_eq_none h] at hi
    have hc := cand_worker hilt
    cases w with
    | exited => rfl
    | idle =>
      exfalso
      have := none_of_quiescent hq hc.2.2.2.2.1
      simp [stepCore, hi, hd] at this
    | got m =>
      exfalso
      have := none_of_quiescent hq hc.2.2.2.1
      simp [stepCore, hi, hd] at this
    | iter m start visited =>
      exfalso
      have := none_of_quiescent hq hc.2.2.2.1
      simp [stepCore, hi, hd] at this
  have hsends : s.sends = [] := by
    cases hs : s.sends with
    | nil => rfl
    | cons p rest =>
      exfalso
      obtain ⟨k, m⟩ := p
      have hmem : (k, m) ∈ s.sends := by rw [hs]; exact List.mem_cons_self
      have := none_of_quiescent hq (cand_send hmem).2.2
      simp [stepCore, hmem, hd] at this
  refine ⟨hloop, hworkers, hsends, ?_⟩
  intro cl hcl hk
  obtain ⟨i, hi⟩ := List.mem_iff_getElem?.mp hcl
  have hilt : i < s.calls.length := by
    rcases Nat.lt_or_ge i s.calls.length with h | h
    · exact h
    · simp [List.getElem?_eq_none h] at hi
  have hall : allExited s.ws = true := by
    simp only [allExited, List.all_eq_true, beq_iff_eq]
    exact hworkers
  obtain ⟨kind, x⟩ := cl
  simp only at hk
  subst hk
  have := none_of_quiescent hq (cand_call hilt).2.2.2.1
  simp [stepCore, hi, hloop, hall] at this

/-- at quiescence no call is pending whose own context is done -/
theorem no_zombie_of_quiescent {c : Cfg} {s : St} (hq : quiescent c s = true) :
    ∀ cl ∈ s.calls, cl.cancelled = false := by
  intro cl hcl
  obtain ⟨i, hi⟩ := List.mem_iff_getElem?.mp hcl
  have hilt : i < s.calls.length := by
    rcases Nat.lt_or_ge i s.calls.length with h | h
    · exact h
    · simp [List.getElem?_eq_none h] at hi
  cases hx : cl.cancelled with
  | false => rfl
  | true =>
    exfalso
    have := none_of_quiescent hq (cand_call hilt).2.2.1
    simp [stepCore, hi, hx] at this

theorem zombies_zero {c : Cfg} {s : St} (hq : quiescent c s = true) : zombies s.calls = 0 := by
  simp only [zombies, List.length_eq_zero_iff, List.filter_eq_nil_iff]
  intro cl hcl
  simp [no_zombie_of_quiescent hq cl hcl]

theorem pendingApi_zero {s : St} (hi : Idle s) : pendingApi s.calls = 0 := by
  simp only [pendingApi, List.length_eq_zero_iff, List.filter_eq_nil_iff]
  intro cl hcl
  simp [hi.calls cl hcl]

theorem pendingWaits_zero {s : St} (hd : Down s) : pendingWaits s.calls = 0 := by
  simp only [pendingWaits, List.length_eq_zero_iff, List.filter_eq_nil_iff]
  intro cl hcl
  have := hd.waits cl hcl
  simp [this]

theorem alive_zero {s : St} (hd : Down s) : alive s = 0 := by
  have : s.ws.filter (fun w => w != Worker.exited) = [] := by
    simp only [List.filter_eq_nil_iff]
    intro w hw
    simp [hd.workers w hw]
  simp [alive, hd.loop, hd.sends, this]

theorem lt_of_getElem? {α : Type} {l : List α} {i : Nat} {x : α} (h : l[i]? = some x) : i < l.length := by
  rcases Nat.lt_or_ge i l.length with h' | h'
  · exact h'
  · simp [List.getElem?_eq_none h'] at h

/-- every enabled internal action is among the candidates `quiescent` looks at -/
theorem internal_mem_candidates {c : Cfg} {s s' : St} {a : Act} (hw : WF c s) (h : Step c s a s')
    (hi : a.internal = true) : a ∈ candidates s := by
  cases h <;> simp only [Act.internal] at hi <;> try (cases hi; done)
  case enqSub i k x hc hq => exact (cand_call (lt_of_getElem? hc)).1
  case enqUnsub i k x hc hq => exact (cand_call (lt_of_getElem? hc)).2.1
  case callAbort i cl hc hx => exact (cand_call (lt_of_getElem? hc)).2.2.1
  case waitRet i x hc hl hw' => exact (cand_call (lt_of_getElem? hc)).2.2.2.1
  case loopSubQ k rest hl hq => exact (cand_loop s).1
  case loopSub i k x hl hc => exact (cand_call (lt_of_getElem? hc)).2.2.2.2.1
  case loopUnsubQ k rest hl hq => exact (cand_loop s).2.1
  case loopUnsub i k x hl hc => exact (cand_call (lt_of_getElem? hc)).2.2.2.2.2.1
  case loopStats i x hl hc => exact (cand_call (lt_of_getElem? hc)).2.2.2.2.2.2.1
  case loopTake i m x hl hc => exact (cand_call (lt_of_getElem? hc)).2.2.2.2.2.2.2
  case loopSend accept m buf' dropped hl hs =>
    cases accept
    · exact (cand_loop s).2.2.2.1
    · exact (cand_loop s).2.2.1
  case loopSendAbort m hl hd => exact (cand_loop s).2.2.2.2.1
  case loopExit hl hd => exact (cand_loop s).2.2.2.2.2
  case wRecvBuf w m rest hw' hb => exact (cand_worker (lt_of_getElem? hw')).1
  case wRecvDirect w m cap hw' hb hl hc => exact (cand_worker (lt_of_getElem? hw')).1
  case wStart w m hw' => exact (cand_worker (lt_of_getElem? hw')).2.1
  case wNext w k m start visited hw' hk hv hp => exact (cand_worker (lt_of_getElem? hw')).2.2.2.2.2 k hk
  case wDone w m start visited hw' hr hp => exact (cand_worker (lt_of_getElem? hw')).2.2.1
  case wAbandonGot w m hd hw' => exact (cand_worker (lt_of_getElem? hw')).2.2.2.1
  case wAbandonIter w m start visited hd hw' => exact (cand_worker (lt_of_getElem? hw')).2.2.2.1
  case wExit w hd hw' => exact (cand_worker (lt_of_getElem? hw')).2.2.2.2.1
  case deliver k m hs hb => exact (cand_send hs).1
  case handoff k m hs hb ho => exact (cand_send hs).2.1
  case sendAbort k m hs hd => exact (cand_send hs).2.2
  case recv k m rest hb ho => exact cand_recv (hw.chanLt k (by rw [hb]; simp))

/-- `quiescent` is exactly: no internal action is enabled -/
theorem quiescent_iff {c : Cfg} {s : St} (hr : Reachable c s) :
    quiescent c s = true ↔ ∀ a, a.internal = true → step c s a = none := by
  constructor
  · intro hq a hi
    cases h : step c s a with
    | none => rfl
    | some s' =>
      exfalso
      have hst := step_sound h
      have hmem := internal_mem_candidates (wf_reachable hr) hst hi
      have hn := none_of_quiescent hq hmem
      have : step c s a = stepCore c s a := by
        cases a <;> first | rfl | (simp [Act.internal] at hi)
      rw [this, hn] at h; cases h
  · intro hall
    simp only [quiescent, enabledInternal, List.isEmpty_iff, List.filter_eq_nil_iff]
    intro a ha
    have hint : a.internal = true := by
      simp only [candidates, List.mem_append, List.mem_flatMap, List.mem_cons, List.mem_map] at ha
      rcases ha with (((⟨i, _, h⟩ | h) | ⟨w, _, h⟩) | ⟨p, _, h⟩) | ⟨k, _, h⟩
      · simp only [List.not_mem_nil, or_false] at h
        rcases h with h | h | h | h | h | h | h | h <;> subst h <;> rfl
      · simp only [List.not_mem_nil, or_false] at h
        rcases h with h | h | h | h | h | h <;> subst h <;> rfl
      · simp only [List.not_mem_nil, or_false] at h
        rcases h with (h | h | h | h | h) | ⟨k, _, h⟩ <;> subst h <;> rfl
      · simp only [List.not_mem_nil, or_false] at h
        rcases h with h | h | h <;> subst h <;> rfl
      · subst h; rfl
    have := hall a hint
    have hst : step c s a = stepCore c s a := by
      cases a <;> first | rfl | (simp [Act.internal] at hint)
    rw [hst] at this
    simp [this]

end FunProofs.Broker
