import FunProofs.Deque
import FunProofs.ConcDeque

/-! System-level (all schedules) theory of the Deque model for C06: the representation invariant
    in every reachable state, and linearizability against the sequential specification. -/

namespace FunModel.Deque
open FunModel.Conc

theorem subject_start (x : St) (t : Nat) (op : Op) : subject.start x t op = (startR x op).out := rfl
theorem subject_resume (x : St) (t : Nat) (op : Op) (c : Bool) : subject.resume x t op c = (resumeR x op c).out := rfl

@[simp] theorem SegR.out_st (o : SegR) : o.out.st = o.st := rfl
@[simp] theorem SegR.out_sigs (o : SegR) : o.out.sigs = o.sigs := rfl
@[simp] theorem SegR.out_fin (o : SegR) : o.out.fin = o.fin.out := rfl

theorem FinR.out_park {f : FinR} {c : Nat} : f.out = .park c ↔ f = .park c := by
  cases f <;> simp [FinR.out]

/-- `Inv` holds in every reachable state of every system started from a state with `Inv` -/
theorem reach_inv {s0 s : Sys St Op} (hwf0 : s0.WF) (h0 : Inv s0.subj) (hr : Reach subject s0 s) : Inv s.subj :=
  hr.subj_inv Inv hwf0 h0 (fun x _ op hx => startR_inv x hx op) (fun x _ op c hx => resumeR_inv x hx op c)

/-! ## only blocking operations park -/

theorem waitPopLoop_park_eq {s : St} {d : End} {k : Bool} {pre : List Sig} {c : Nat}
    (h : (waitPopLoop s d k pre).fin = .park c) :
    s.q.isEmpty = true ∧ s.closed = false ∧ k = false ∧ c = d.cond ∧
      waitPopLoop s d k pre = { st := s, sigs := pre ++ [.signal d.cond], fin := .park d.cond } := by
  unfold waitPopLoop at h ⊢
  by_cases he : s.q.isEmpty = true
  · simp only [he, ite_true] at h ⊢
    by_cases hc : s.closed = true
    · simp [hc] at h
    · by_cases hk : k = true
      · simp [hc, hk] at h
      · simp only [hc, hk, Bool.false_eq_true, ite_false, FinR.park.injEq] at h ⊢
        simp_all
  · simp only [he, Bool.false_eq_true, ite_false] at h
    by_cases hc : s.closed = true
    · simp [hc] at h
    · simp only [hc, Bool.false_eq_true, ite_false] at h
      rcases hpe : popEnd s d with ⟨s', ov, sg⟩
      rw [hpe] at h
      cases ov <;> simp at h

theorem waitPushLoop_park_eq {s : St} {d : End} {v : Int} {k : Bool} {pre : List Sig} {c : Nat}
    (h : (waitPushLoop s d v k pre).fin = .park c) :
    s.tracker.hasRoom = false ∧ s.closed = false ∧ k = false ∧ c = 2 ∧
      waitPushLoop s d v k pre = { st := s, sigs := pre ++ [.signal 2], fin := .park 2 } := by
  unfold waitPushLoop at h ⊢
  by_cases hr : s.tracker.hasRoom = true
  · simp only [hr, Bool.not_true, Bool.false_eq_true, ite_false] at h
    rcases hae : addEnd s d v with ⟨s', r, sg⟩
    rw [hae] at h
    simp at h
  · have hr' : s.tracker.hasRoom = false := by simpa using hr
    simp only [hr', Bool.not_false, ite_true] at h ⊢
    by_cases hc : s.closed = true
    · simp [hc] at h
    · by_cases hk : k = true
      · simp [hc, hk] at h
      · simp only [hc, hk, Bool.false_eq_true, ite_false, FinR.park.injEq] at h ⊢
        simp_all

theorem iterYield_not_park (s : St) (key : Nat) (d : End) (c0 c : Nat) : (iterYield s key d c0).fin ≠ .park c := by
  unfold iterYield
  by_cases hn : (s.nbr d c0 == 0) = true <;> simp [hn]

theorem iterLoop_park_eq {s : St} {key : Nat} {d : End} {k : Bool} {pre : List Sig} {c : Nat}
    (h : (iterLoop s key d k pre).fin = .park c) :
    s.nbr d (s.cursor key) = 0 ∧ s.closed = false ∧ k = false ∧ c = iterCond d (s.cursor key) ∧
      iterLoop s key d k pre =
        { st := s, sigs := pre ++ [.signal (iterCond d (s.cursor key))], fin := .park (iterCond d (s.cursor key)) } := by
  unfold iterLoop at h ⊢
  by_cases hn : (s.nbr d (s.cursor key) == 0) = true
  · simp only [hn, ite_true] at h ⊢
    by_cases hc : s.closed = true
    · simp [hc] at h
    · by_cases hk : k = true
      · simp [hc, hk] at h
      · simp only [hc, hk, Bool.false_eq_true, ite_false, FinR.park.injEq] at h ⊢
        simp_all
  · simp only [hn, Bool.false_eq_true, ite_false] at h
    exact absurd h (iterYield_not_park _ _ _ _ _)

theorem startR_park_blocking {s : St} {op : Op} {c : Nat} (h : (startR s op).fin = .park c) : op.blocking = true := by
  cases op with
  | wait d => rfl
  | wpush d v => rfl
  | next d b k =>
    simp only [startR] at h
    by_cases hn : (s.nbr d (s.cursor (cursorKey d b k)) == 0 && b) = true
    · simp only [Bool.and_eq_true] at hn; simpa [Op.blocking] using hn.2
    · simp only [hn, Bool.false_eq_true, ite_false] at h
      exact absurd h (iterYield_not_park _ _ _ _ _)
  | push d v =>
    simp only [startR] at h
    rcases hae : addEnd s d v with ⟨s', r, sg⟩
    rw [hae] at h; simp at h
  | fpush d v =>
    simp only [startR] at h
    rcases hae : forcePush s d v with ⟨s', r, sg⟩
    rw [hae] at h; simp at h
  | pop d =>
    simp only [startR] at h
    rcases hpe : popEnd s d with ⟨s', ov, sg⟩
    rw [hpe] at h
    cases ov <;> simp at h
  | len => simp [startR] at h
  | close => simp [startR] at h

theorem resumeR_park_blocking {s : St} {op : Op} {k : Bool} {c : Nat} (h : (resumeR s op k).fin = .park c) :
    op.blocking = true := by
  cases op with
  | wait d => rfl
  | wpush d v => rfl
  | next d b k' =>
    cases b with
    | true => rfl
    | false => simp [resumeR] at h
  | push d v => simp [resumeR] at h
  | fpush d v => simp [resumeR] at h
  | pop d => simp [resumeR] at h
  | len => simp [resumeR] at h
  | close => simp [resumeR] at h

/-- a goroutine that is parked or woken is inside a blocking operation, in every reachable state -/
theorem reach_waitingIn {s0 s : Sys St Op} (hwf0 : s0.WF) (h0 : WaitingIn (fun op => op.blocking = true) s0)
    (hr : Reach subject s0 s) : WaitingIn (fun op => op.blocking = true) s := by
  refine Reach.inv_wf (WaitingIn (fun op => op.blocking = true)) hwf0 h0 ?_ hr
  intro s a s' obs _ hwf hp hen hs
  refine hp.step hwf hen hs ?_
  intro t th0 op o hseg c hfin
  cases hseg with
  | start _ _ _ =>
    rw [subject_start, SegR.out_fin, FinR.out_park] at hfin
    exact startR_park_blocking hfin
  | resume _ _ _ =>
    rw [subject_resume, SegR.out_fin, FinR.out_park] at hfin
    exact resumeR_park_blocking hfin

/-! ## Linearizability -/

/-- one executed segment, with its structured outcome -/
structure LEv where
  t : Nat
  op : Op
  first : Bool         -- the segment that starts the operation (fresh, live context)
  cancelled : Bool     -- the operation's context was cancelled when the segment ran
  fin : FinR

/-- the segment thread record `th0` runs inside `op` from subject state `x` -/
def segROf (x : St) (th0 : Th Op) (op : Op) : SegR :=
  if th0.st = .idle then startR x op else resumeR x op th0.cancelled

theorem isSeg_segR {s : Sys St Op} {t : Nat} {a : Act} {th0 : Th Op} {op : Op} {o : SegOut St}
    (h : IsSeg subject s t a th0 op o) :
    o = (segROf s.subj th0 op).out ∧ (th0.st = .idle → th0.cancelled = false) ∧ (th0.st = .idle ∨ th0.st = .woken) := by
  cases h with
  | start _ hst _ => simp [segROf, hst, subject_start]
  | resume _ hst _ => simp [segROf, hst, subject_resume]

def evOf (x : St) (t : Nat) (th0 : Th Op) (op : Op) : LEv :=
  ⟨t, op, decide (th0.st = .idle), th0.cancelled, (segROf x th0 op).fin⟩

/-- reachability that records the executed segments, oldest first -/
inductive ReachL (s0 : Sys St Op) : List LEv → Sys St Op → Prop
  | init : ReachL s0 [] s0
  | seg {evs : List LEv} {s s' : Sys St Op} {a : Act} {obs : String} {t : Nat} {th0 : Th Op} {op : Op}
      {o : SegOut St} : ReachL s0 evs s → a ∈ enabled s true → step subject s a = some (s', obs) →
      IsSeg subject s t a th0 op o → ReachL s0 (evs ++ [evOf s.subj t th0 op]) s'
  | other {evs : List LEv} {s s' : Sys St Op} {a : Act} {obs : String} {t : Nat} :
      ReachL s0 evs s → a ∈ enabled s true → step subject s a = some (s', obs) →
      (a = .cancel t ∨ a = .fire t) → ReachL s0 evs s'

theorem ReachL.reach {s0 s : Sys St Op} {evs : List LEv} (h : ReachL s0 evs s) : Reach subject s0 s := by
  induction h with
  | init => exact .init
  | seg _ hen hs _ ih => exact .step ih hen hs
  | other _ hen hs _ ih => exact .step ih hen hs

theorem reach_reachL {s0 s : Sys St Op} (hr : Reach subject s0 s) (h0 : s0.WF) : ∃ evs, ReachL s0 evs s := by
  induction hr with
  | init => exact ⟨[], .init⟩
  | @step s1 s2 a obs hr1 hen hs ih =>
    obtain ⟨evs, ht⟩ := ih
    have hwf := hr1.wf h0
    cases a with
    | start t => obtain ⟨th0, op, o, hseg, _⟩ := step_seg hwf hen hs (Or.inl rfl); exact ⟨_, .seg ht hen hs hseg⟩
    | resume t => obtain ⟨th0, op, o, hseg, _⟩ := step_seg hwf hen hs (Or.inr rfl); exact ⟨_, .seg ht hen hs hseg⟩
    | cancel t => exact ⟨evs, .other ht hen hs (Or.inl rfl)⟩
    | fire t => exact ⟨evs, .other ht hen hs (Or.inr rfl)⟩

namespace Spec

/-- the effect of one logged segment on the sequential deque: a segment that parks and the
    iterator calls are not linearization points; a segment that returns `r` is the whole
    sequential operation and must produce exactly `r` (`none` = the log is not explained) -/
def lin (sp : Spec) (ev : LEv) : Option Spec :=
  match ev.fin with
  | .park _ => some sp
  | .ret r =>
    if ev.op.isIter then some sp
    else match sp.run ev.cancelled ev.op with
      | some (sp', r') => if r' = r then some sp' else none
      | none => none

/-- replay the operations in the order of their returning segments -/
def replay (sp : Spec) (evs : List LEv) : Option Spec := evs.foldlM lin sp

theorem replay_append (sp : Spec) (evs : List LEv) (ev : LEv) :
    replay sp (evs ++ [ev]) = (replay sp evs).bind (fun sp' => lin sp' ev) := by
  simp [replay, List.foldlM_append]

end Spec

/-- one segment, seen through the abstraction, is one step of the replay -/
theorem lin_segment (x : St) (hx : Inv x) (t : Nat) (th0 : Th Op) (op : Op)
    (hcan : th0.st = .idle → th0.cancelled = false) (hst : th0.st = .idle ∨ th0.st = .woken)
    (hblk : th0.st = .woken → op.blocking = true) :
    (absS x).lin (evOf x t th0 op) = some (absS (segROf x th0 op).st) := by
  unfold Spec.lin evOf
  simp only
  by_cases hit : op.isIter = true
  · -- iterator call: nothing changes
    have habs : absS (segROf x th0 op).st = absS x := by
      cases op with
      | next d b k =>
        unfold segROf
        by_cases hi : th0.st = .idle
        · simp only [hi, ite_true]; exact (iter_absS x d b k false).1
        · simp only [hi, ite_false]; exact (iter_absS x d b k th0.cancelled).2
      | _ => simp [Op.isIter] at hit
    rw [habs]
    cases (segROf x th0 op).fin <;> simp [hit]
  · have hit' : op.isIter = false := by simpa using hit
    have hspec : SegSpec x op th0.cancelled (segROf x th0 op) := by
      unfold segROf
      by_cases hi : th0.st = .idle
      · simp only [hi, ite_true]; rw [hcan hi]; exact startR_spec x hx op hit'
      · simp only [hi, ite_false]
        have hw : th0.st = .woken := by rcases hst with h | h; exact absurd h hi; exact h
        exact resumeR_spec x op th0.cancelled hit' (hblk hw)
    unfold SegSpec at hspec
    cases hfin : (segROf x th0 op).fin with
    | ret r => rw [hfin] at hspec; simp [hit', hspec]
    | park c => rw [hfin] at hspec; simp [hspec.2]

/-- `linearizable`: along every schedule, replaying the operations on the sequential deque in the
    order of their returning segments reproduces every returned result and ends in the abstract
    state of the system -/
theorem replay_reachL {s0 s : Sys St Op} {evs : List LEv} (hwf0 : s0.WF) (h0 : Inv s0.subj)
    (hw0 : WaitingIn (fun op => op.blocking = true) s0) (h : ReachL s0 evs s) :
    (absS s0.subj).replay evs = some (absS s.subj) := by
  induction h with
  | init => rfl
  | @seg evs s s' a obs t th0 op o hprev hen hs hseg ih =>
    rw [Spec.replay_append, ih]
    have hr := hprev.reach
    have hwf := hr.wf hwf0
    obtain ⟨ho, hcan, hst⟩ := isSeg_segR hseg
    have hrel := hseg.rel hwf hen hs
    have hblk : th0.st = .woken → op.blocking = true := by
      intro hwk
      obtain ⟨_, hth, _⟩ := hseg.of_woken hwk
      obtain ⟨op', hop', hb⟩ := reach_waitingIn hwf0 hw0 hr t th0 hth (Or.inl hwk)
      obtain ⟨_, _, _, _, _, _, hop, _⟩ := hseg.basic
      rw [hop] at hop'; cases hop'; exact hb
    rw [Option.bind_some, lin_segment s.subj (reach_inv hwf0 h0 hr) t th0 op hcan hst hblk, hrel.subj, ho]
    rfl
  | @other evs s s' a obs t hprev hen hs ha ih =>
    rw [ih]
    have hwf := hprev.reach.wf hwf0
    rcases step_subj hwf hen hs with ⟨t', th0, op, o, hseg, _, _⟩ | ⟨_, hsub⟩
    · exfalso; rcases ha with rfl | rfl <;> cases hseg
    · rw [hsub]

/-! ## The linearization point lies inside the operation's interval -/

/-- thread `t` has an operation in progress after the log `evs`: its last segment parked -/
def pendingAfter (evs : List LEv) (t : Nat) : Bool :=
  evs.foldl (fun b ev => if ev.t = t then (match ev.fin with | .park _ => true | .ret _ => false) else b) false

theorem pendingAfter_snoc (evs : List LEv) (ev : LEv) (t : Nat) :
    pendingAfter (evs ++ [ev]) t =
      if ev.t = t then (match ev.fin with | .park _ => true | .ret _ => false) else pendingAfter evs t := by
  simp [pendingAfter, List.foldl_append]

/-- every logged segment is the first segment of an operation exactly when its thread has no
    operation in progress: a thread's segments come in blocks `first, resume*, …` that end with the
    segment that returns. Hence the returning segment of an operation (its linearization point)
    lies between its first segment (the invocation) and its response (that same segment). -/
inductive Bracketed : List LEv → Prop
  | nil : Bracketed []
  | snoc {evs : List LEv} {ev : LEv} : Bracketed evs → ev.first = !(pendingAfter evs ev.t) → Bracketed (evs ++ [ev])

def Blocked (th : Th Op) : Prop := th.st = .woken ∨ ∃ c, th.st = .parked c

theorem blocked_thWake {th th' : Th Op} (w : ThWake th th') : Blocked th' ↔ Blocked th := by
  rcases w with rfl | ⟨hp, rfl⟩
  · exact Iff.rfl
  · exact ⟨fun _ => Or.inr hp, fun _ => Or.inl rfl⟩

theorem blocked_bwake (c : Nat) (th : Th Op) : Blocked (Th.bwake c th) ↔ Blocked th := by
  unfold Th.bwake
  split
  · rename_i hp; exact ⟨fun _ => Or.inr ⟨_, hp⟩, fun _ => Or.inl rfl⟩
  · exact Iff.rfl

theorem bracketed_reachL {init : St} {programs : List (List Op)} {evs : List LEv} {s : Sys St Op}
    (h : ReachL (initSys init programs) evs s) :
    Bracketed evs ∧ ∀ t th, s.ths[t]? = some th → (pendingAfter evs t = true ↔ Blocked th) := by
  induction h with
  | init =>
    refine ⟨.nil, ?_⟩
    intro t th hth
    simp only [initSys, List.getElem?_map] at hth
    cases hp : programs[t]? with
    | none => simp [hp] at hth
    | some p =>
      simp [hp] at hth; subst hth
      simp only [pendingAfter, List.foldl_nil, Bool.false_eq_true, false_iff]
      rintro (h | ⟨c, h⟩) <;> (simp only at h; split at h <;> cases h)
  | @seg evs s s' a obs t th0 op o hprev hen hs hseg ih =>
    obtain ⟨hb, hinv⟩ := ih
    have hwf := hprev.reach.wf (initSys_wf init programs)
    have r := hseg.rel hwf hen hs
    obtain ⟨ho, _, _⟩ := isSeg_segR hseg
    obtain ⟨th, hth, _, _, hst0, _, _, _, _⟩ := hseg.basic
    have hev_t : (evOf s.subj t th0 op).t = t := rfl
    have hev_fin : (evOf s.subj t th0 op).fin = (segROf s.subj th0 op).fin := rfl
    have hev_first : (evOf s.subj t th0 op).first = decide (th0.st = .idle) := rfl
    constructor
    · refine .snoc hb ?_
      rw [hev_t, hev_first]
      have hinvt := hinv t th hth
      rcases (isSeg_segR hseg).2.2 with hidle | hwk
      · have hnb : ¬ Blocked th := by
          rintro (h | ⟨c, h⟩) <;> (rw [← hst0, hidle] at h; cases h)
        have hpa : pendingAfter evs t = false := by
          cases hpa : pendingAfter evs t with
          | false => rfl
          | true => exact absurd (hinvt.1 hpa) hnb
        simp [hpa, hidle]
      · have hpa : pendingAfter evs t = true := hinvt.2 (Or.inl (by rw [← hst0]; exact hwk))
        simp [hpa, hwk]
    · intro u th' hth'
      rw [pendingAfter_snoc, hev_t]
      by_cases hut : u = t
      · subst hut
        simp only [ite_true, hev_fin]
        have he := r.self_eq hth'
        rw [ho, SegR.out_fin] at he
        cases hfin : (segROf s.subj th0 op).fin with
        | ret rv =>
          rw [hfin] at he
          replace he : th' = finTh (.ret rv.str) { th0 with helpers := sigHelpers (segROf s.subj th0 op).out.sigs th0.helpers } := he
          simp only [Bool.false_eq_true, false_iff]
          rintro (h | ⟨c, h⟩)
          · rw [he, finTh_ret] at h; simp only at h; split at h <;> cases h
          · exact finTh_ret_st _ _ c (by rw [← he]; exact h)
        | park c =>
          rw [hfin] at he
          replace he : th' = finTh (.park c) { th0 with helpers := sigHelpers (segROf s.subj th0 op).out.sigs th0.helpers } := he
          rw [finTh_park] at he
          simp only [true_iff]
          exact Or.inr ⟨c, by rw [he]⟩
      · have hne : ¬ t = u := fun h => hut h.symm
        simp only [hne, ite_false]
        obtain ⟨thu, hthu, w⟩ := r.other_inv hut hth'
        rw [blocked_thWake w]
        exact hinv u thu hthu
  | @other evs s s' a obs t hprev hen hs ha ih =>
    obtain ⟨hb, hinv⟩ := ih
    refine ⟨hb, ?_⟩
    have hwf := hprev.reach.wf (initSys_wf init programs)
    intro u th' hth'
    rcases ha with rfl | rfl
    · obtain ⟨th, hth, _, _, _, _, hself, hoth⟩ := step_cancel_rel hwf hen hs
      by_cases hut : u = t
      · subst hut; rw [hself] at hth'; cases hth'
        exact hinv u th hth
      · rw [hoth u hut] at hth'; exact hinv u th' hth'
    · obtain ⟨th, h0, hth, _, _, _, hself, hoth⟩ := step_fire_rel hwf hs
      by_cases hut : u = t
      · subst hut; rw [hself] at hth'; cases hth'
        rw [blocked_bwake]
        exact hinv u th hth
      · rw [hoth u hut] at hth'
        cases h1 : s.ths[u]? with
        | none => simp [h1] at hth'
        | some x =>
          simp [h1] at hth'; subst hth'
          rw [blocked_bwake]
          exact hinv u x h1

end FunModel.Deque
