import FunModel.Queue
import FunProofs.QueueSpec
import FunProofs.ConcSubj

/-! Sequential facts about the `pubsub.Queue` model: tracker invariant, the admission decision, and
    the one-segment simulation of the sequential specification (`FunProofs/QueueSpec.lean`). -/
namespace FunModel.Queue
open FunModel.Conc FunModel.ConcSubj

/-! ### tracker -/

/-- `length ≤ hardLimit ∧ 1 ≤ softQuota ≤ hardLimit` (nothing to say about the unlimited tracker) -/
def Tracker.Ok : Tracker → Prop
  | .noLimit _ => True
  | .soft sq hl l _ => l ≤ hl ∧ 1 ≤ sq ∧ sq ≤ hl

/-- `none` = no hard limit -/
def Tracker.hardLimit : Tracker → Option Nat
  | .noLimit _ => none
  | .soft _ hl _ _ => some hl

theorem Tracker.add_ok {tr : Tracker} (h : tr.Ok) : tr.add.1.Ok := by
  cases tr with
  | noLimit l => trivial
  | soft sq hl l cr =>
    simp only [Tracker.Ok] at h
    simp only [Tracker.add]
    by_cases h1 : l ≥ sq
    · by_cases h2 : (l == hl) = true
      · simp [h1, h2, Tracker.Ok]; omega
      · by_cases h3 : cr < 1
        · simp [h1, h2, h3, Tracker.Ok]; omega
        · have : l ≠ hl := by simpa using h2
          simp [h1, h2, h3, Tracker.Ok]; omega
    · simp [h1, Tracker.Ok]; omega

theorem Tracker.remove_ok {tr : Tracker} (h : tr.Ok) : tr.remove.Ok := by
  cases tr with
  | noLimit l => trivial
  | soft sq hl l cr =>
    simp only [Tracker.Ok] at h
    simp only [Tracker.remove]
    by_cases h1 : l - 1 < sq
    · by_cases h2 : (decide (sq > 1) && decide (l - 1 < sq / 2)) = true
      · have : sq > 1 := by simp at h2; omega
        simp only [h1, h2, if_true, Tracker.Ok]; omega
      · simp only [h1, h2, if_true, Tracker.Ok]; simp; omega
    · simp only [h1, if_false, Tracker.Ok]; omega

theorem Tracker.hardLimit_add (tr : Tracker) : tr.add.1.hardLimit = tr.hardLimit := by
  cases tr with
  | noLimit l => rfl
  | soft sq hl l cr =>
    simp only [Tracker.add]
    repeat' split
    all_goals rfl

theorem Tracker.hardLimit_remove (tr : Tracker) : tr.remove.hardLimit = tr.hardLimit := by
  cases tr with
  | noLimit l => rfl
  | soft sq hl l cr =>
    simp only [Tracker.remove]
    repeat' split
    all_goals rfl

theorem Tracker.remove_len (tr : Tracker) : tr.remove.len = tr.len - 1 := by
  cases tr with
  | noLimit l => rfl
  | soft sq hl l cr =>
    simp only [Tracker.remove]
    repeat' split
    all_goals rfl

/-- the decision of `add()`, and its effect on the length -/
theorem Tracker.add_cases (tr : Tracker) :
    (tr.add.2 = .ok ∧ tr.add.1.len = tr.len + 1) ∨ (tr.add.2 ≠ .ok ∧ tr.add.1 = tr) := by
  cases tr with
  | noLimit l => left; exact ⟨rfl, rfl⟩
  | soft sq hl l cr =>
    simp only [Tracker.add]
    by_cases h1 : l ≥ sq
    · by_cases h2 : (l == hl) = true
      · right; simp [h1, h2]
      · by_cases h3 : cr < 1
        · right; simp [h1, h2, h3]
        · left; simp [h1, h2, h3, Tracker.len]
    · left; simp [h1, Tracker.len]


/-! ### one segment against the specification -/

/-- the sequential invariant of a queue state -/
structure SInv (s : St) : Prop where
  ok : s.tracker.Ok
  len : s.tracker.len = s.q.length

theorem abs_length (s : St) : (abs s).length = s.q.length := by simp [abs]

theorem doAdd_sim {s : St} (h : SInv s) (v : Int) :
    SInv (doAdd s v).1 ∧
    (if s.closed then some (specOf s, "closed") else some (Spec.push (specOf s) v))
      = some (specOf (doAdd s v).1, (doAdd s v).2.1) := by
  unfold doAdd
  by_cases hc : s.closed = true
  · simp [hc, h]
  · have hc' : s.closed = false := by simpa using hc
    simp only [hc, if_false, Bool.false_eq_true]
    have hok := Tracker.add_ok h.ok
    have hcs := Tracker.add_cases s.tracker
    cases hadd : s.tracker.add with
    | mk tr r =>
      rw [hadd] at hok hcs
      cases r with
      | ok =>
        refine ⟨⟨hok, ?_⟩, ?_⟩
        · have : tr.len = s.tracker.len + 1 := by simpa using hcs
          simp [this, h.len]
        · simp [Spec.push, specOf, hadd, abs, hc']
      | full => exact ⟨h, by simp [Spec.push, specOf, hadd]⟩
      | noCredit => exact ⟨h, by simp [Spec.push, specOf, hadd]⟩

theorem popFront_sim {s : St} (h : SInv s) (p : Nat × Int) (rest : List (Nat × Int)) (hq : s.q = p :: rest) :
    SInv (popFront s).1 ∧ (popFront s).1.q = rest ∧
    Spec.pop (specOf s) p.2 (rest.map (·.2)) = (specOf (popFront s).1, toString (popFront s).2.1) := by
  obtain ⟨e, v⟩ := p
  have hlen := h.len
  simp only [popFront, hq]
  refine ⟨⟨Tracker.remove_ok h.ok, ?_⟩, trivial, ?_⟩
  · simp [Tracker.remove_len, hlen, hq]
  · simp [Spec.pop, specOf, abs, hq]


def Op.isNext : Op → Bool
  | .next _ => true
  | _ => false

/-- the operations that can park -/
def Op.blocking : Op → Bool
  | .badd _ | .wait | .recv | .next _ => true
  | _ => false

/-- what one segment `o` of the queue operation `op`, run in state `s` with context flag `c`, does in
    terms of the specification: a returning segment is the whole operation of the specification, a
    parking segment is no step at all (and the specification cannot complete the operation either) -/
def SegSim (s : St) (op : Op) (c : Bool) (o : SegOut St) : Prop :=
  SInv o.st ∧
  match o.fin with
  | .ret r => Spec.apply (specOf s) op c = some (specOf o.st, r)
  | .park _ => Spec.apply (specOf s) op c = none ∧ specOf o.st = specOf s

theorem len_zero_iff {s : St} (h : SInv s) : (s.tracker.len == 0) = true ↔ s.q = [] := by
  rw [h.len]; simp

theorem waitLoop_sim {s : St} (h : SInv s) (op : Op) (hop : op = .wait ∨ op = .recv) (c : Bool) (sigs : List Sig) :
    SegSim s op c (waitLoop s c sigs) := by
  unfold waitLoop
  by_cases hl : (s.tracker.len == 0) = true
  · have hq : s.q = [] := (len_zero_iff h).1 hl
    have ha : (specOf s).items = [] := by simp [specOf, abs, hq]
    have hcl : (specOf s).closed = s.closed := rfl
    simp only [hl, if_true]
    by_cases hc : s.closed = true
    · simp only [hc, if_true, SegSim]
      refine ⟨h, ?_⟩
      rcases hop with rfl | rfl <;> simp [Spec.apply, ha, hcl, hc]
    · by_cases hcc : c = true
      · simp only [hc, hcc, if_true, SegSim, if_false, Bool.false_eq_true]
        refine ⟨h, ?_⟩
        rcases hop with rfl | rfl <;> simp [Spec.apply, ha, hcl, hc]
      · simp only [hc, hcc, SegSim, if_false, Bool.false_eq_true]
        refine ⟨h, ?_, trivial⟩
        rcases hop with rfl | rfl <;> simp [Spec.apply, ha, hcl, hc]
  · have hq : s.q ≠ [] := fun e => hl ((len_zero_iff h).2 e)
    cases hq' : s.q with
    | nil => exact absurd hq' hq
    | cons p rest =>
      obtain ⟨h1, _, h3⟩ := popFront_sim h p rest hq'
      have ha : (specOf s).items = p.2 :: rest.map (·.2) := by simp [specOf, abs, hq']
      simp only [hl, if_false, Bool.false_eq_true, SegSim]
      refine ⟨h1, ?_⟩
      rcases hop with rfl | rfl <;> simp [Spec.apply, ha, h3]

theorem baddLoop_sim {s : St} (h : SInv s) (v : Int) (c : Bool) (sigs : List Sig) :
    SegSim s (.badd v) c (baddLoop s v c sigs) := by
  unfold baddLoop
  have hcl : (specOf s).closed = s.closed := rfl
  have htr : (specOf s).tracker = s.tracker := rfl
  by_cases hr : s.tracker.hasRoom = true
  · obtain ⟨h1, h2⟩ := doAdd_sim h v
    simp only [hr, Bool.not_true, if_false, Bool.false_eq_true, SegSim]
    refine ⟨h1, ?_⟩
    simp only [Spec.apply, hcl, htr, hr, if_true]
    exact h2
  · simp only [hr, Bool.not_false, if_true]
    by_cases hc : s.closed = true
    · simp only [hc, if_true, SegSim]
      exact ⟨h, by simp [Spec.apply, hcl, hc]⟩
    · by_cases hcc : c = true
      · simp only [hc, hcc, if_true, SegSim, if_false, Bool.false_eq_true]
        exact ⟨h, by simp [Spec.apply, hcl, htr, hc, hr]⟩
      · simp only [hc, hcc, SegSim, if_false, Bool.false_eq_true]
        exact ⟨h, by simp [Spec.apply, hcl, htr, hc, hr], trivial⟩

/-- first segment of a queue operation (fresh context) -/
theorem start_sim {s : St} (h : SInv s) (t : Nat) (op : Op) (hn : op.isNext = false) :
    SegSim s op false (start s t op) := by
  have hcl : (specOf s).closed = s.closed := rfl
  have htr : (specOf s).tracker = s.tracker := rfl
  cases op with
  | add v =>
    obtain ⟨h1, h2⟩ := doAdd_sim h v
    exact ⟨h1, by simpa [start, Spec.apply, hcl] using h2⟩
  | badd v =>
    simp only [start]
    by_cases hc : s.closed = true
    · simp only [hc, if_true, SegSim]
      exact ⟨h, by simp [Spec.apply, hcl, hc]⟩
    · by_cases hr : s.tracker.hasRoom = true
      · obtain ⟨h1, h2⟩ := doAdd_sim h v
        simp only [hc, hr, if_true, if_false, Bool.false_eq_true, SegSim]
        refine ⟨h1, ?_⟩
        simp only [Spec.apply, hcl, htr, hr, if_true]
        exact h2
      · simp only [hc, hr, if_false, Bool.false_eq_true]
        exact baddLoop_sim h v false _
  | remove =>
    simp only [start]
    by_cases hl : (s.tracker.len == 0) = true
    · have hq : s.q = [] := (len_zero_iff h).1 hl
      have ha : (specOf s).items = [] := by simp [specOf, abs, hq]
      simp only [hl, if_true, SegSim]
      exact ⟨h, by simp [Spec.apply, ha]⟩
    · have hq : s.q ≠ [] := fun e => hl ((len_zero_iff h).2 e)
      cases hq' : s.q with
      | nil => exact absurd hq' hq
      | cons p rest =>
        obtain ⟨h1, _, h3⟩ := popFront_sim h p rest hq'
        have ha : (specOf s).items = p.2 :: rest.map (·.2) := by simp [specOf, abs, hq']
        simp only [hl, if_false, Bool.false_eq_true, SegSim]
        exact ⟨h1, by simp [Spec.apply, ha, h3]⟩
  | wait => exact waitLoop_sim h .wait (Or.inl rfl) false _
  | recv =>
    simp only [start]
    by_cases hl : (s.tracker.len == 0) = true
    · simp only [hl, if_true]
      exact waitLoop_sim h .recv (Or.inr rfl) false _
    · have hq : s.q ≠ [] := fun e => hl ((len_zero_iff h).2 e)
      cases hq' : s.q with
      | nil => exact absurd hq' hq
      | cons p rest =>
        obtain ⟨h1, _, h3⟩ := popFront_sim h p rest hq'
        have ha : (specOf s).items = p.2 :: rest.map (·.2) := by simp [specOf, abs, hq']
        simp only [hl, if_false, Bool.false_eq_true, SegSim]
        exact ⟨h1, by simp [Spec.apply, ha, h3]⟩
  | len =>
    simp only [start, SegSim]
    exact ⟨h, by simp [Spec.apply, specOf, abs, h.len]⟩
  | close =>
    simp only [start, SegSim]
    exact ⟨⟨h.ok, h.len⟩, by simp [Spec.apply, specOf, abs]⟩
  | next k => simp [Op.isNext] at hn

/-- a later segment (after a wake-up) of a blocking queue operation -/
theorem resume_sim {s : St} (h : SInv s) (t : Nat) (op : Op) (c : Bool) (hn : op.isNext = false)
    (hb : op.blocking = true) : SegSim s op c (resume s t op c) := by
  cases op with
  | badd v => exact baddLoop_sim h v c _
  | wait => exact waitLoop_sim h .wait (Or.inl rfl) c _
  | recv => exact waitLoop_sim h .recv (Or.inr rfl) c _
  | next k => simp [Op.isNext] at hn
  | add v => simp [Op.blocking] at hb
  | remove => simp [Op.blocking] at hb
  | len => simp [Op.blocking] at hb
  | close => simp [Op.blocking] at hb


/-! ### iterator segments do not touch the queue -/

theorem nextLoop_frame (s : St) (t k : Nat) (c : Bool) :
    let s' := (nextLoop s t k c).st
    s'.tracker = s.tracker ∧ s'.closed = s.closed ∧ s'.q = s.q ∧ s'.links = s.links ∧ s'.vals = s.vals ∧
      s'.nextId = s.nextId := by
  simp only [nextLoop]
  split
  · simp [St.setCursor]
  · repeat' split
    all_goals simp [St.setCursor]

theorem next_frame (s : St) (t k : Nat) (c : Bool) (o : SegOut St)
    (ho : o = start s t (.next k) ∨ o = resume s t (.next k) c) :
    o.st.tracker = s.tracker ∧ o.st.closed = s.closed ∧ o.st.q = s.q ∧ o.st.links = s.links ∧ o.st.vals = s.vals ∧
      o.st.nextId = s.nextId := by
  rcases ho with rfl | rfl
  · exact nextLoop_frame s t k false
  · exact nextLoop_frame s t k c

theorem next_specOf (s : St) (t k : Nat) (c : Bool) (o : SegOut St)
    (ho : o = start s t (.next k) ∨ o = resume s t (.next k) c) : specOf o.st = specOf s := by
  obtain ⟨h1, h2, h3, -⟩ := next_frame s t k c o ho
  simp [specOf, abs, h1, h2, h3]

theorem next_sinv {s : St} (h : SInv s) (t k : Nat) (c : Bool) (o : SegOut St)
    (ho : o = start s t (.next k) ∨ o = resume s t (.next k) c) : SInv o.st := by
  obtain ⟨h1, h2, h3, -⟩ := next_frame s t k c o ho
  exact ⟨by rw [h1]; exact h.ok, by rw [h1, h3]; exact h.len⟩


/-! ### results are never confused: the decimal rendering of an item is not one of the keywords -/

theorem int_toString_chars (v : Int) : ∀ ch ∈ (toString v).toList, ch.isDigit = true ∨ ch = '-' := by
  intro ch hch
  rw [Int.toString_eq_repr, Int.repr_eq_if] at hch
  split at hch
  · left
    rw [Nat.toList_repr] at hch
    exact Nat.isDigit_of_mem_toDigits (by decide) (by decide) hch
  · rw [String.toList_append] at hch
    simp only [List.mem_append] at hch
    rcases hch with h | h
    · right; simpa using h
    · left
      rw [Nat.toList_repr] at h
      exact Nat.isDigit_of_mem_toDigits (by decide) (by decide) h

theorem int_toString_ne (v : Int) (w : String) (ch : Char) (hch : ch ∈ w.toList) (hd : ch.isDigit = false)
    (hm : ch ≠ '-') : toString v ≠ w := by
  intro e
  rcases int_toString_chars v ch (e ▸ hch) with h | h
  · rw [h] at hd; cases hd
  · exact hm h

theorem nat_toString_ne (n : Nat) (w : String) (ch : Char) (hch : ch ∈ w.toList) (hd : ch.isDigit = false) :
    toString n ≠ w := by
  intro e
  have hch' : ch ∈ (toString n).toList := e ▸ hch
  rw [Nat.toString_eq_repr, Nat.toList_repr] at hch'
  have := Nat.isDigit_of_mem_toDigits (by decide) (by decide) hch'
  rw [this] at hd; cases hd

theorem int_ne_ctx (v : Int) : toString v ≠ "ctx" := int_toString_ne v _ 'c' (by decide) (by decide) (by decide)
theorem int_ne_closed (v : Int) : toString v ≠ "closed" := int_toString_ne v _ 'c' (by decide) (by decide) (by decide)
theorem int_ne_none (v : Int) : toString v ≠ "none" := int_toString_ne v _ 'n' (by decide) (by decide) (by decide)
theorem int_ne_eof (v : Int) : toString v ≠ "eof" := int_toString_ne v _ 'e' (by decide) (by decide) (by decide)
theorem int_ne_ok (v : Int) : toString v ≠ "ok" := int_toString_ne v _ 'o' (by decide) (by decide) (by decide)

/-! ### initial queues -/

/-- the queues `NewUnlimitedQueue()` and `NewQueue(opts)` with valid options produce -/
def InitQ (q0 : St) : Prop :=
  q0 = mkUnlimited ∨ ∃ hard soft burst, 1 ≤ hard ∧ soft ≤ hard ∧ q0 = mkSoft hard soft burst

theorem InitQ.sinv {q0 : St} (h : InitQ q0) : SInv q0 := by
  rcases h with rfl | ⟨hard, soft, burst, h1, h2, rfl⟩
  · exact ⟨trivial, rfl⟩
  · refine ⟨?_, rfl⟩
    simp only [mkSoft, Tracker.Ok]
    by_cases hs : (soft == 0) = true
    · simp [hs]; omega
    · have : soft ≠ 0 := by simpa using hs
      simp [hs]; omega

theorem InitQ.empty {q0 : St} (h : InitQ q0) :
    q0.q = [] ∧ q0.closed = false ∧ q0.links = [] ∧ q0.vals = [] ∧ q0.nextId = 1 ∧ q0.cursors = [] ∧ q0.waited = [] := by
  rcases h with rfl | ⟨hard, soft, burst, h1, h2, rfl⟩ <;> simp [mkUnlimited, mkSoft]

theorem mkSoft_hardLimit (hard soft : Nat) (burst : Float) : (mkSoft hard soft burst).tracker.hardLimit = some hard := rfl

/-! ### specification-level facts -/

theorem Spec.apply_hardLimit {s s' : SpecState} {op : Op} {c : Bool} {r : String}
    (h : Spec.apply s op c = some (s', r)) : s'.tracker.hardLimit = s.tracker.hardLimit := by
  have hpush : ∀ v, (Spec.push s v).1.tracker.hardLimit = s.tracker.hardLimit := by
    intro v
    have := Tracker.hardLimit_add s.tracker
    simp only [Spec.push]
    cases hadd : s.tracker.add with
    | mk tr res => rw [hadd] at this; cases res <;> simp [this]
  have hpop : ∀ v rest, (Spec.pop s v rest).1.tracker.hardLimit = s.tracker.hardLimit := by
    intro v rest; simp [Spec.pop, Tracker.hardLimit_remove]
  have key : ∀ p : SpecState × String, some p = some (s', r) →
      p.1.tracker.hardLimit = s.tracker.hardLimit → s'.tracker.hardLimit = s.tracker.hardLimit := by
    intro p hp hh; cases hp; exact hh
  cases op with
  | add v =>
    simp only [Spec.apply] at h
    split at h
    · exact key _ h rfl
    · exact key _ h (hpush v)
  | badd v =>
    simp only [Spec.apply] at h
    repeat' split at h
    all_goals first | exact key _ h rfl | exact key _ h (hpush v) | cases h
  | remove =>
    simp only [Spec.apply] at h
    split at h
    · exact key _ h rfl
    · exact key _ h (hpop _ _)
  | wait =>
    simp only [Spec.apply] at h
    repeat' split at h
    all_goals first | exact key _ h rfl | exact key _ h (hpop _ _) | cases h
  | recv =>
    simp only [Spec.apply] at h
    repeat' split at h
    all_goals first | exact key _ h rfl | exact key _ h (hpop _ _) | cases h
  | len => simp only [Spec.apply] at h; exact key _ h rfl
  | close => simp only [Spec.apply] at h; exact key _ h rfl
  | next k => simp [Spec.apply] at h

theorem Spec.replay_snoc (s : SpecState) (h : List (Op × Bool)) (op : Op) (c : Bool) :
    Spec.replay s (h ++ [(op, c)]) =
      match Spec.replay s h with
      | none => none
      | some (s', rs) =>
        match Spec.apply s' op c with
        | none => none
        | some (s'', r) => some (s'', rs ++ [r]) := by
  induction h generalizing s with
  | nil =>
    simp only [List.nil_append, Spec.replay]
    cases Spec.apply s op c with
    | none => rfl
    | some p => rfl
  | cons x rest ih =>
    obtain ⟨op1, c1⟩ := x
    simp only [List.cons_append, Spec.replay]
    cases h1 : Spec.apply s op1 c1 with
    | none => rfl
    | some p =>
      obtain ⟨s1, r1⟩ := p
      simp only
      rw [ih s1]
      cases h2 : Spec.replay s1 rest with
      | none => rfl
      | some q =>
        obtain ⟨s2, rs⟩ := q
        simp only
        cases h3 : Spec.apply s2 op c with
        | none => rfl
        | some q3 => rfl

/-! ### only blocking operations park -/

theorem canPark_blocking {op : Op} (h : CanPark subject op) : op.blocking = true := by
  obtain ⟨s, t, first, c, cnd, h⟩ := h
  cases op with
  | badd v => rfl
  | wait => rfl
  | recv => rfl
  | next k => rfl
  | add v => cases first <;> simp [segOut, subject, start, resume] at h
  | remove =>
    cases first
    · simp [segOut, subject, resume] at h
    · simp only [segOut, subject, start, if_true] at h
      split at h <;> cases h
  | len => cases first <;> simp [segOut, subject, start, resume] at h
  | close => cases first <;> simp [segOut, subject, start, resume] at h

/-! ### the linearization invariant -/

/-- the linearization record of an event: a *returning* segment of a queue operation contributes the
    operation, the context flag it saw, and its result -/
def linOf : Ev St Op → Option ((Op × Bool) × String)
  | .seg _ _ op _ c _ o =>
    if op.isNext then none
    else match o.fin with
      | .ret r => some ((op, c), r)
      | .park _ => none
  | .env _ => none

/-- the completed queue operations of a run, ordered by their returning segments -/
def history (log : List (Ev St Op)) : List (Op × Bool) := (log.filterMap linOf).map (·.1)
/-- and the results the run returned, in the same order -/
def results (log : List (Ev St Op)) : List String := (log.filterMap linOf).map (·.2)

structure LinInv (q0 : St) (log : List (Ev St Op)) (s : St) : Prop where
  sinv : SInv s
  hard : s.tracker.hardLimit = q0.tracker.hardLimit
  lin : Spec.replay (specOf q0) (history log) = some (specOf s, results log)

theorem linOf_append (log : List (Ev St Op)) (ev : Ev St Op) :
    (log ++ [ev]).filterMap linOf = log.filterMap linOf ++ (linOf ev).toList := by
  simp only [List.filterMap_append]
  cases h : linOf ev <;> simp [List.filterMap, h]

theorem LinInv.run {q0 : St} (h0 : InitQ q0) {programs : List (List Op)} {log : List (Ev St Op)} {s : Sys St Op}
    (h : Reach' subject (initSys q0 programs) log s) : LinInv q0 log s.subj := by
  refine Reach'.induction (LinInv q0) ⟨h0.sinv, rfl, by simp [history, results, Spec.replay]⟩ ?_ ?_ h
  · intro log s t pc op first c hI hc hb
    by_cases hn : op.isNext = true
    · -- iterator segment: nothing changes
      obtain ⟨k, rfl⟩ : ∃ k, op = .next k := by cases op <;> simp [Op.isNext] at hn; exact ⟨_, rfl⟩
      have ho : segOut subject s t (.next k) first c = start s t (.next k) ∨
          segOut subject s t (.next k) first c = resume s t (.next k) c := by
        cases first <;> simp [segOut, subject]
      have hfr := next_frame s t k c _ ho
      refine ⟨next_sinv hI.sinv t k c _ ho, by rw [hfr.1]; exact hI.hard, ?_⟩
      rw [next_specOf s t k c _ ho]
      simp only [history, results]
      rw [linOf_append]
      simpa [history, results, linOf, Op.isNext] using hI.lin
    · have hn' : op.isNext = false := by simpa using hn
      have hsim : SegSim s op c (segOut subject s t op first c) := by
        cases first with
        | true =>
          have : c = false := hc rfl
          subst this
          exact start_sim hI.sinv t op hn'
        | false => exact resume_sim hI.sinv t op c hn' (canPark_blocking (hb rfl))
      obtain ⟨h1, h2⟩ := hsim
      cases hf : (segOut subject s t op first c).fin with
      | ret r =>
        rw [hf] at h2
        refine ⟨h1, ?_, ?_⟩
        · have := Spec.apply_hardLimit h2
          simp only [specOf] at this
          rw [this]; exact hI.hard
        · simp only [history, results]
          rw [linOf_append]
          simp only [linOf, hn', hf, Bool.false_eq_true, if_false,
            Option.toList_some, List.map_append, List.map_cons, List.map_nil]
          have hl := hI.lin
          simp only [history, results] at hl
          rw [Spec.replay_snoc, hl]
          simp only [h2]
      | park cnd =>
        rw [hf] at h2
        refine ⟨h1, ?_, ?_⟩
        · have := h2.2
          simp only [specOf, SpecState.mk.injEq] at this
          rw [this.2.2]; exact hI.hard
        · rw [h2.2]
          simp only [history, results]
          rw [linOf_append]
          simpa [history, results, linOf, hn', hf] using hI.lin
  · intro log s a hI
    refine ⟨hI.sinv, hI.hard, ?_⟩
    simp only [history, results]
    rw [linOf_append]
    simpa [history, results, linOf] using hI.lin


/-! ### the admission decision -/

/-- `length = hardLimit` -/
def Tracker.atHardLimit : Tracker → Bool
  | .noLimit _ => false
  | .soft _ hl l _ => l == hl
/-- `length ≥ softQuota` -/
def Tracker.atOrOverQuota : Tracker → Bool
  | .noLimit _ => false
  | .soft sq _ l _ => decide (l ≥ sq)
/-- `credit < 1` (the only question the decision asks about the float) -/
def Tracker.creditBelowOne : Tracker → Bool
  | .noLimit _ => false
  | .soft _ _ _ cr => decide (cr < 1)

theorem Tracker.atHard_over {tr : Tracker} (h : tr.Ok) (ha : tr.atHardLimit = true) : tr.atOrOverQuota = true := by
  cases tr with
  | noLimit l => simp [Tracker.atHardLimit] at ha
  | soft sq hl l cr =>
    simp only [Tracker.atHardLimit, beq_iff_eq] at ha
    simp only [Tracker.Ok] at h
    simp only [Tracker.atOrOverQuota, decide_eq_true_eq]; omega

theorem Tracker.add_decision (tr : Tracker) :
    (tr.add.2 = .full ↔ (tr.atOrOverQuota = true ∧ tr.atHardLimit = true)) ∧
    (tr.add.2 = .noCredit ↔ (tr.atOrOverQuota = true ∧ tr.atHardLimit = false ∧ tr.creditBelowOne = true)) ∧
    (tr.add.2 = .ok ↔ (tr.atOrOverQuota = false ∨ (tr.atHardLimit = false ∧ tr.creditBelowOne = false))) := by
  cases tr with
  | noLimit l => simp [Tracker.add, Tracker.atHardLimit, Tracker.atOrOverQuota, Tracker.creditBelowOne]
  | soft sq hl l cr =>
    simp only [Tracker.add, Tracker.atHardLimit, Tracker.atOrOverQuota, Tracker.creditBelowOne]
    by_cases h1 : l ≥ sq
    · by_cases h2 : (l == hl) = true
      · simp [h1, h2]
      · by_cases h3 : cr < 1
        · simp [h1, h2, h3]
        · simp [h1, h2, h3]
    · simp [h1]

theorem doAdd_result (s : St) (v : Int) :
    (doAdd s v).2.1 = (if s.closed then "closed" else
      match s.tracker.add.2 with | .ok => "ok" | .full => "full" | .noCredit => "nocredit") ∧
    ((doAdd s v).2.1 ≠ "ok" → (doAdd s v).1 = s) ∧
    ((doAdd s v).2.1 = "ok" → (doAdd s v).1.q = s.q ++ [((doAdd s v).1.nextId - 1, v)] ∧
        (doAdd s v).1.closed = s.closed) := by
  unfold doAdd
  by_cases hc : s.closed = true
  · simp [hc]
  · simp only [hc, if_false, Bool.false_eq_true]
    cases hadd : s.tracker.add with
    | mk tr r => cases r <;> simp

/-! ### readings of the specification (what `Spec.apply` says, operation by operation) -/

theorem Spec.push_cases (s : SpecState) (v : Int) :
    ((Spec.push s v).2 = "ok" ∧ (Spec.push s v).1.items = s.items ++ [v] ∧ (Spec.push s v).1.closed = s.closed) ∨
    (((Spec.push s v).2 = "full" ∨ (Spec.push s v).2 = "nocredit") ∧ (Spec.push s v).1 = s) := by
  simp only [Spec.push]
  cases hadd : s.tracker.add with
  | mk tr r => cases r <;> simp

/-- `Add`/`BlockingAdd` that report success appended exactly their item at the back of an open queue;
    any other result left the state as it was -/
theorem Spec.add_reading {s s' : SpecState} {op : Op} {v : Int} {c : Bool} {r : String}
    (hop : op = .add v ∨ op = .badd v) (h : Spec.apply s op c = some (s', r)) :
    (r = "ok" → s'.items = s.items ++ [v] ∧ s'.closed = false ∧ s.closed = false) ∧ (r ≠ "ok" → s' = s) := by
  have hp := Spec.push_cases s v
  have key : ∀ p : SpecState × String, some p = some (s', r) → p.1 = s' ∧ p.2 = r := by
    intro p hp; cases hp; exact ⟨rfl, rfl⟩
  have hpush : s.closed = false → some (Spec.push s v) = some (s', r) →
      (r = "ok" → s'.items = s.items ++ [v] ∧ s'.closed = false ∧ s.closed = false) ∧ (r ≠ "ok" → s' = s) := by
    intro hcl h
    obtain ⟨e1, e2⟩ := key _ h
    rw [← e1, ← e2]
    rcases hp with ⟨p1, p2, p3⟩ | ⟨p1, p2⟩
    · exact ⟨fun _ => ⟨p2, by rw [p3]; exact hcl, hcl⟩, fun hne => absurd p1 hne⟩
    · refine ⟨fun hok => ?_, fun _ => p2⟩
      rcases p1 with p1 | p1 <;> (rw [p1] at hok; exact absurd hok (by decide))
  have hsame : ∀ w : String, w ≠ "ok" → some (s, w) = some (s', r) →
      (r = "ok" → s'.items = s.items ++ [v] ∧ s'.closed = false ∧ s.closed = false) ∧ (r ≠ "ok" → s' = s) := by
    intro w hw h
    obtain ⟨e1, e2⟩ := key _ h
    simp only at e1 e2
    exact ⟨fun hok => absurd (e2.trans hok) hw, fun _ => e1.symm⟩
  rcases hop with rfl | rfl
  · simp only [Spec.apply] at h
    by_cases hcl : s.closed = true
    · simp only [hcl, if_true] at h; exact hsame _ (by decide) h
    · simp only [hcl, if_false, Bool.false_eq_true] at h; exact hpush (by simpa using hcl) h
  · simp only [Spec.apply] at h
    by_cases hcl : s.closed = true
    · simp only [hcl, if_true] at h; exact hsame _ (by decide) h
    · simp only [hcl, if_false, Bool.false_eq_true] at h
      by_cases hr : s.tracker.hasRoom = true
      · simp only [hr, if_true] at h; exact hpush (by simpa using hcl) h
      · simp only [hr, if_false, Bool.false_eq_true] at h
        by_cases hcc : c = true
        · simp only [hcc, if_true] at h; exact hsame _ (by decide) h
        · simp [hcc] at h

/-- `Remove`/`Wait`/`Receive`: on a non-empty queue the result is the oldest item and the rest stays, in
    order; on an empty queue nothing changes and the result is "none" (Remove), "closed" (closed queue),
    "ctx" (cancelled context), or the operation cannot complete -/
theorem Spec.take_reading {s s' : SpecState} {op : Op} {c : Bool} {r : String}
    (hop : op = .remove ∨ op = .wait ∨ op = .recv) (h : Spec.apply s op c = some (s', r)) :
    (∀ v rest, s.items = v :: rest → r = toString v ∧ s'.items = rest ∧ s'.closed = s.closed ∧
        s'.tracker = s.tracker.remove) ∧
    (s.items = [] → s' = s ∧
      ((op = .remove ∧ r = "none") ∨ (op ≠ .remove ∧ s.closed = true ∧ r = "closed") ∨
       (op ≠ .remove ∧ s.closed = false ∧ c = true ∧ r = "ctx"))) := by
  cases hi : s.items with
  | nil =>
    refine ⟨fun v rest e => (by cases e), fun _ => ?_⟩
    rcases hop with rfl | rfl | rfl
    · simp only [Spec.apply, hi, Option.some.injEq, Prod.mk.injEq] at h
      exact ⟨h.1.symm, Or.inl ⟨rfl, h.2.symm⟩⟩
    · simp only [Spec.apply, hi] at h
      by_cases hcl : s.closed = true
      · simp only [hcl, if_true, Option.some.injEq, Prod.mk.injEq] at h
        exact ⟨h.1.symm, Or.inr (Or.inl ⟨by decide, hcl, h.2.symm⟩)⟩
      · by_cases hcc : c = true
        · simp only [hcl, hcc, if_true, if_false, Bool.false_eq_true, Option.some.injEq, Prod.mk.injEq] at h
          exact ⟨h.1.symm, Or.inr (Or.inr ⟨by decide, by simpa using hcl, hcc, h.2.symm⟩)⟩
        · simp [hcl, hcc] at h
    · simp only [Spec.apply, hi] at h
      by_cases hcl : s.closed = true
      · simp only [hcl, if_true, Option.some.injEq, Prod.mk.injEq] at h
        exact ⟨h.1.symm, Or.inr (Or.inl ⟨by decide, hcl, h.2.symm⟩)⟩
      · by_cases hcc : c = true
        · simp only [hcl, hcc, if_true, if_false, Bool.false_eq_true, Option.some.injEq, Prod.mk.injEq] at h
          exact ⟨h.1.symm, Or.inr (Or.inr ⟨by decide, by simpa using hcl, hcc, h.2.symm⟩)⟩
        · simp [hcl, hcc] at h
  | cons v rest =>
    refine ⟨fun v' rest' e => ?_, fun e => (by cases e)⟩
    cases e
    rcases hop with rfl | rfl | rfl <;>
      (simp only [Spec.apply, hi, Spec.pop, Option.some.injEq, Prod.mk.injEq] at h
       obtain ⟨h1, h2⟩ := h
       subst h1
       exact ⟨h2.symm, rfl, rfl, rfl⟩)

theorem Spec.len_reading {s s' : SpecState} {c : Bool} {r : String} (h : Spec.apply s .len c = some (s', r)) :
    s' = s ∧ r = toString s.items.length := by
  simp only [Spec.apply, Option.some.injEq, Prod.mk.injEq] at h
  exact ⟨h.1.symm, h.2.symm⟩

theorem Spec.close_reading {s s' : SpecState} {c : Bool} {r : String} (h : Spec.apply s .close c = some (s', r)) :
    s'.items = s.items ∧ s'.tracker = s.tracker ∧ s'.closed = true ∧ r = "ok" := by
  simp only [Spec.apply, Option.some.injEq, Prod.mk.injEq] at h
  obtain ⟨h1, h2⟩ := h
  subst h1
  exact ⟨rfl, rfl, rfl, h2.symm⟩

/-- an operation that reports a context error had a cancelled context and changed nothing -/
theorem Spec.ctx_reading {s s' : SpecState} {op : Op} {c : Bool} (h : Spec.apply s op c = some (s', "ctx")) :
    s' = s ∧ c = true := by
  cases op with
  | add v =>
    have := (Spec.add_reading (Or.inl rfl) h).2 (by decide)
    refine ⟨this, ?_⟩
    subst this
    simp only [Spec.apply] at h
    have hp := Spec.push_cases s' v
    by_cases hcl : s'.closed = true
    · simp [hcl] at h
    · simp only [hcl, if_false, Bool.false_eq_true, Option.some.injEq] at h
      rw [h] at hp
      simp at hp
  | badd v =>
    have := (Spec.add_reading (Or.inr rfl) h).2 (by decide)
    refine ⟨this, ?_⟩
    subst this
    simp only [Spec.apply] at h
    have hp := Spec.push_cases s' v
    by_cases hcl : s'.closed = true
    · simp [hcl] at h
    · simp only [hcl, if_false, Bool.false_eq_true] at h
      by_cases hr : s'.tracker.hasRoom = true
      · simp only [hr, if_true, Option.some.injEq] at h
        rw [h] at hp
        simp at hp
      · by_cases hcc : c = true
        · exact hcc
        · simp [hr, hcc] at h
  | remove =>
    obtain ⟨h1, h2⟩ := Spec.take_reading (Or.inl rfl) h
    cases hi : s.items with
    | nil => obtain ⟨e, he⟩ := h2 hi; rcases he with ⟨_, he⟩ | ⟨he, _⟩ | ⟨he, _⟩ <;> simp at he
    | cons v rest => exact absurd (h1 v rest hi).1.symm (int_ne_ctx v)
  | wait =>
    obtain ⟨h1, h2⟩ := Spec.take_reading (Or.inr (Or.inl rfl)) h
    cases hi : s.items with
    | nil =>
      obtain ⟨e, he⟩ := h2 hi
      rcases he with ⟨he, _⟩ | ⟨_, _, he⟩ | ⟨_, _, hc, _⟩
      · cases he
      · simp at he
      · exact ⟨e, hc⟩
    | cons v rest => exact absurd (h1 v rest hi).1.symm (int_ne_ctx v)
  | recv =>
    obtain ⟨h1, h2⟩ := Spec.take_reading (Or.inr (Or.inr rfl)) h
    cases hi : s.items with
    | nil =>
      obtain ⟨e, he⟩ := h2 hi
      rcases he with ⟨he, _⟩ | ⟨_, _, he⟩ | ⟨_, _, hc, _⟩
      · cases he
      · simp at he
      · exact ⟨e, hc⟩
    | cons v rest => exact absurd (h1 v rest hi).1.symm (int_ne_ctx v)
  | len =>
    exact absurd (Spec.len_reading h).2.symm (nat_toString_ne _ _ 'c' (by decide) (by decide))
  | close => have := (Spec.close_reading h).2.2.2; simp at this
  | next k => simp [Spec.apply] at h


/-! ### the segments that occur in runs -/

/-- `o` is a segment of operation `op` of thread `t` in queue state `s`: either the invocation
    (`first`, the context is live) or a re-check after a wake-up of a blocking operation with context
    flag `c`. By `Reach'.induction` these are the only things that ever change the queue state. -/
structure IsSeg (s : St) (t : Nat) (op : Op) (first c : Bool) (o : SegOut St) : Prop where
  out : o = segOut subject s t op first c
  live : first = true → c = false
  blocking : first = false → op.blocking = true

theorem IsSeg.next_cases {s : St} {t k : Nat} {first c : Bool} {o : SegOut St} (h : IsSeg s t (.next k) first c o) :
    o = start s t (.next k) ∨ o = resume s t (.next k) c := by
  rw [h.out]; cases first <;> simp [segOut, subject]

theorem IsSeg.next_eq {s : St} {t k : Nat} {first c : Bool} {o : SegOut St} (h : IsSeg s t (.next k) first c o) :
    o = nextLoop s t k c := by
  rw [h.out]
  cases first with
  | false => simp [segOut, subject, resume]
  | true => have := h.live rfl; subst this; simp [segOut, subject, start]

theorem seg_sim {s : St} (h : SInv s) {t : Nat} {op : Op} {first c : Bool} {o : SegOut St}
    (hs : IsSeg s t op first c o) (hn : op.isNext = false) : SegSim s op c o := by
  rw [hs.out]
  cases first with
  | true => have := hs.live rfl; subst this; exact start_sim h t op hn
  | false => exact resume_sim h t op c hn (hs.blocking rfl)

theorem seg_sinv {s : St} (h : SInv s) {t : Nat} {op : Op} {first c : Bool} {o : SegOut St}
    (hs : IsSeg s t op first c o) : SInv o.st := by
  by_cases hn : op.isNext = true
  · obtain ⟨k, rfl⟩ : ∃ k, op = .next k := by cases op <;> simp [Op.isNext] at hn; exact ⟨_, rfl⟩
    exact next_sinv h t k c o hs.next_cases
  · exact (seg_sim h hs (by simpa using hn)).1

/-- what the log of a run records about a segment: it started in a state satisfying the sequential
    invariant and is a segment in the sense of `IsSeg` -/
def EvOK : Ev St Op → Prop
  | .seg t _ op first c pre out => SInv pre ∧ IsSeg pre t op first c out
  | .env _ => True

theorem run_segments {q0 : St} (h0 : InitQ q0) {programs : List (List Op)} {log : List (Ev St Op)} {s : Sys St Op}
    (h : Reach' subject (initSys q0 programs) log s) : SInv s.subj ∧ ∀ ev ∈ log, EvOK ev := by
  refine Reach'.induction (fun log s => SInv s ∧ ∀ ev ∈ log, EvOK ev) ⟨h0.sinv, by simp⟩ ?_ ?_ h
  · intro log s t pc op first c hI hc hb
    have hseg : IsSeg s t op first c (segOut subject s t op first c) :=
      ⟨rfl, hc, fun hf => canPark_blocking (hb hf)⟩
    refine ⟨seg_sinv hI.1 hseg, ?_⟩
    intro ev hev
    simp only [List.mem_append, List.mem_singleton] at hev
    rcases hev with hev | rfl
    · exact hI.2 ev hev
    · exact ⟨hI.1, hseg⟩
  · intro log s a hI
    refine ⟨hI.1, ?_⟩
    intro ev hev
    simp only [List.mem_append, List.mem_singleton] at hev
    rcases hev with hev | rfl
    · exact hI.2 ev hev
    · trivial

theorem Tracker.len_le_hard {tr : Tracker} (h : tr.Ok) {hl : Nat} (hh : tr.hardLimit = some hl) : tr.len ≤ hl := by
  cases tr with
  | noLimit l => cases hh
  | soft sq hl' l cr =>
    simp only [Tracker.hardLimit, Option.some.injEq] at hh
    subst hh
    exact h.1

end FunModel.Queue
