import FunModel.Queue
import FunProofs.QueueSpec

/-! Sequential facts about the `pubsub.Queue` model: tracker invariant, the admission decision, and
    the one-segment simulation of the sequential specification (`FunProofs/QueueSpec.lean`). -/
namespace FunModel.Queue
open FunModel.Conc

/-! ### tracker -/

/-- `length ≤ hardLimit ∧ 1 ≤ softQuota ≤ hardLimit` (nothing to say about the unlimited tracker) -/
def Tracker.Ok : Tracker → Prop
  | .noLimit _ => True
  | .soft sq hl l _ => l ≤ hl ∧ 1 ≤ sq ∧ sq ≤ hl

/-- `none` = no hard limit -/
def Tracker.hardLimit : Tracker → Option Nat
  | .noLimit _ => none
  | .soft _ hl _ _ => some hl

theorem Tracker.add_ok {tr : Tracker} (h : tr.Ok) : tr.add.1.Ok := by
  cases tr with
  | noLimit l => trivial
  | soft sq hl l cr =>
    simp only [Tracker.Ok] at h
    simp only [Tracker.add]
    by_cases h1 : l ≥ sq
    · by_cases h2 : (l == hl) = true
      · simp [h1, h2, Tracker.Ok]; omega
      · by_cases h3 : cr < 1
        · simp [h1, h2, h3, Tracker.Ok]; omega
        · have : l ≠ hl := by simpa using h2
          simp [h1, h2, h3, Tracker.Ok]; omega
    · simp [h1, Tracker.Ok]; omega

theorem Tracker.remove_ok {tr : Tracker} (h : tr.Ok) : tr.remove.Ok := by
  cases tr with
  | noLimit l => trivial
  | soft sq hl l cr =>
    simp only [Tracker.Ok] at h
    simp only [Tracker.remove]
    by_cases h1 : l - 1 < sq
    · by_cases h2 : (decide (sq > 1) && decide (l - 1 < sq / 2)) = true
      · have : sq > 1 := by simp at h2; omega
        simp only [h1, h2, if_true, Tracker.Ok]; omega
      · simp only [h1, h2, if_true, Tracker.Ok]; simp; omega
    · simp only [h1, if_false, Tracker.Ok]; omega

theorem Tracker.hardLimit_add (tr : Tracker) : tr.add.1.hardLimit = tr.hardLimit := by
  cases tr with
  | noLimit l => rfl
  | soft sq hl l cr =>
    simp only [Tracker.add]
    repeat' split
    all_goals rfl

theorem Tracker.hardLimit_remove (tr : Tracker) : tr.remove.hardLimit = tr.hardLimit := by
  cases tr with
  | noLimit l => rfl
  | soft sq hl l cr =>
    simp only [Tracker.remove]
    repeat' split
    all_goals rfl

theorem Tracker.remove_len (tr : Tracker) : tr.remove.len = tr.len - 1 := by
  cases tr with
  | noLimit l => rfl
  | soft sq hl l cr =>
    simp only [Tracker.remove]
    repeat' split
    all_goals rfl

/-- the decision of `add()`, and its effect on the length -/
theorem Tracker.add_cases (tr : Tracker) :
    (tr.add.2 = .ok ∧ tr.add.1.len = tr.len + 1) ∨ (tr.add.2 ≠ .ok ∧ tr.add.1 = tr) := by
  cases tr with
  | noLimit l => left; exact ⟨rfl, rfl⟩
  | soft sq hl l cr =>
    simp only [Tracker.add]
    by_cases h1 : l ≥ sq
    · by_cases h2 : (l == hl) = true
      · right; simp [h1, h2]
      · by_cases h3 : cr < 1
        · right; simp [h1, h2, h3]
        · left; simp [h1, h2, h3, Tracker.len]
    · left; simp [h1, Tracker.len]


/-! ### one segment against the specification -/

/-- the sequential invariant of a queue state -/
structure SInv (s : St) : Prop where
  ok : s.tracker.Ok
  len : s.tracker.len = s.q.length

theorem abs_length (s : St) : (abs s).length = s.q.length := by simp [abs]

theorem doAdd_sim {s : St} (h : SInv s) (v : Int) :
    SInv (doAdd s v).1 ∧
    (if s.closed then some (specOf s, "closed") else some (Spec.push (specOf s) v))
      = some (specOf (doAdd s v).1, (doAdd s v).2.1) := by
  unfold doAdd
  by_cases hc : s.closed = true
  · simp [hc, h]
  · have hc' : s.closed = false := by simpa using hc
    simp only [hc, if_false, Bool.false_eq_true]
    have hok := Tracker.add_ok h.ok
    have hcs := Tracker.add_cases s.tracker
    cases hadd : s.tracker.add with
    | mk tr r =>
      rw [hadd] at hok hcs
      cases r with
      | ok =>
        refine ⟨⟨hok, ?_⟩, ?_⟩
        · have : tr.len = s.tracker.len + 1 := by simpa using hcs
          simp [this, h.len]
        · simp [Spec.push, specOf, hadd, abs, hc']
      | full => exact ⟨h, by simp [Spec.push, specOf, hadd]⟩
      | noCredit => exact ⟨h, by simp [Spec.push, specOf, hadd]⟩

theorem popFront_sim {s : St} (h : SInv s) (p : Nat × Int) (rest : List (Nat × Int)) (hq : s.q = p :: rest) :
    SInv (popFront s).1 ∧ (popFront s).1.q = rest ∧
    Spec.pop (specOf s) p.2 (rest.map (·.2)) = (specOf (popFront s).1, toString (popFront s).2.1) := by
  obtain ⟨e, v⟩ := p
  have hlen := h.len
  simp only [popFront, hq]
  refine ⟨⟨Tracker.remove_ok h.ok, ?_⟩, trivial, ?_⟩
  · simp [Tracker.remove_len, hlen, hq]
  · simp [Spec.pop, specOf, abs, hq]


def Op.isNext : Op → Bool
  | .next _ => true
  | _ => false

/-- the operations that can park -/
def Op.blocking : Op → Bool
  | .badd _ | .wait | .recv | .next _ => true
  | _ => false

/-- what one segment `o` of the queue operation `op`, run in state `s` with context flag `c`, does in
    terms of the specification: a returning segment is the whole operation of the specification, a
    parking segment is no step at all (and the specification cannot complete the operation either) -/
def SegSim (s : St) (op : Op) (c : Bool) (o : SegOut St) : Prop :=
  SInv o.st ∧
  match o.fin with
  | .ret r => Spec.apply (specOf s) op c = some (specOf o.st, r)
  | .park _ => Spec.apply (specOf s) op c = none ∧ specOf o.st = specOf s

theorem len_zero_iff {s : St} (h : SInv s) : (s.tracker.len == 0) = true ↔ s.q = [] := by
  rw [h.len]; simp

theorem waitLoop_sim {s : St} (h : SInv s) (op : Op) (hop : op = .wait ∨ op = .recv) (c : Bool) (sigs : List Sig) :
    SegSim s op c (waitLoop s c sigs) := by
  unfold waitLoop
  by_cases hl : (s.tracker.len == 0) = true
  · have hq : s.q = [] := (len_zero_iff h).1 hl
    have ha : (specOf s).items = [] := by simp [specOf, abs, hq]
    have hcl : (specOf s).closed = s.closed := rfl
    simp only [hl, if_true]
    by_cases hc : s.closed = true
    · simp only [hc, if_true, SegSim]
      refine ⟨h, ?_⟩
      rcases hop with rfl | rfl <;> simp [Spec.apply, ha, hcl, hc]
    · by_cases hcc : c = true
      · simp only [hc, hcc, if_true, SegSim, if_false, Bool.false_eq_true]
        refine ⟨h, ?_⟩
        rcases hop with rfl | rfl <;> simp [Spec.apply, ha, hcl, hc]
      · simp only [hc, hcc, SegSim, if_false, Bool.false_eq_true]
        refine ⟨h, ?_, trivial⟩
        rcases hop with rfl | rfl <;> simp [Spec.apply, ha, hcl, hc]
  · have hq : s.q ≠ [] := fun e => hl ((len_zero_iff h).2 e)
    cases hq' : s.q with
    | nil => exact absurd hq' hq
    | cons p rest =>
      obtain ⟨h1, _, h3⟩ := popFront_sim h p rest hq'
      have ha : (specOf s).items = p.2 :: rest.map (·.2) := by simp [specOf, abs, hq']
      simp only [hl, if_false, Bool.false_eq_true, SegSim]
      refine ⟨h1, ?_⟩
      rcases hop with rfl | rfl <;> simp [Spec.apply, ha, h3]

theorem baddLoop_sim {s : St} (h : SInv s) (v : Int) (c : Bool) (sigs : List Sig) :
    SegSim s (.badd v) c (baddLoop s v c sigs) := by
  unfold baddLoop
  have hcl : (specOf s).closed = s.closed := rfl
  have htr : (specOf s).tracker = s.tracker := rfl
  by_cases hr : s.tracker.hasRoom = true
  · obtain ⟨h1, h2⟩ := doAdd_sim h v
    simp only [hr, Bool.not_true, if_false, Bool.false_eq_true, SegSim]
    refine ⟨h1, ?_⟩
    simp only [Spec.apply, hcl, htr, hr, if_true]
    exact h2
  · simp only [hr, Bool.not_false, if_true]
    by_cases hc : s.closed = true
    · simp only [hc, if_true, SegSim]
      exact ⟨h, by simp [Spec.apply, hcl, hc]⟩
    · by_cases hcc : c = true
      · simp only [hc, hcc, if_true, SegSim, if_false, Bool.false_eq_true]
        exact ⟨h, by simp [Spec.apply, hcl, htr, hc, hr]⟩
      · simp only [hc, hcc, SegSim, if_false, Bool.false_eq_true]
        exact ⟨h, by simp [Spec.apply, hcl, htr, hc, hr], trivial⟩

/-- first segment of a queue operation (fresh context) -/
theorem start_sim {s : St} (h : SInv s) (t : Nat) (op : Op) (hn : op.isNext = false) :
    SegSim s op false (start s t op) := by
  have hcl : (specOf s).closed = s.closed := rfl
  have htr : (specOf s).tracker = s.tracker := rfl
  cases op with
  | add v =>
    obtain ⟨h1, h2⟩ := doAdd_sim h v
    exact ⟨h1, by simpa [start, Spec.apply, hcl] using h2⟩
  | badd v =>
    simp only [start]
    by_cases hc : s.closed = true
    · simp only [hc, if_true, SegSim]
      exact ⟨h, by simp [Spec.apply, hcl, hc]⟩
    · by_cases hr : s.tracker.hasRoom = true
      · obtain ⟨h1, h2⟩ := doAdd_sim h v
        simp only [hc, hr, if_true, if_false, Bool.false_eq_true, SegSim]
        refine ⟨h1, ?_⟩
        simp only [Spec.apply, hcl, htr, hr, if_true]
        exact h2
      · simp only [hc, hr, if_false, Bool.false_eq_true]
        exact baddLoop_sim h v false _
  | remove =>
    simp only [start]
    by_cases hl : (s.tracker.len == 0) = true
    · have hq : s.q = [] := (len_zero_iff h).1 hl
      have ha : (specOf s).items = [] := by simp [specOf, abs, hq]
      simp only [hl, if_true, SegSim]
      exact ⟨h, by simp [Spec.apply, ha]⟩
    · have hq : s.q ≠ [] := fun e => hl ((len_zero_iff h).2 e)
      cases hq' : s.q with
      | nil => exact absurd hq' hq
      | cons p rest =>
        obtain ⟨h1, _, h3⟩ := popFront_sim h p rest hq'
        have ha : (specOf s).items = p.2 :: rest.map (·.2) := by simp [specOf, abs, hq']
        simp only [hl, if_false, Bool.false_eq_true, SegSim]
        exact ⟨h1, by simp [Spec.apply, ha, h3]⟩
  | wait => exact waitLoop_sim h .wait (Or.inl rfl) false _
  | recv =>
    simp only [start]
    by_cases hl : (s.tracker.len == 0) = true
    · simp only [hl, if_true]
      exact waitLoop_sim h .recv (Or.inr rfl) false _
    · have hq : s.q ≠ [] := fun e => hl ((len_zero_iff h).2 e)
      cases hq' : s.q with
      | nil => exact absurd hq' hq
      | cons p rest =>
        obtain ⟨h1, _, h3⟩ := popFront_sim h p rest hq'
        have ha : (specOf s).items = p.2 :: rest.map (·.2) := by simp [specOf, abs, hq']
        simp only [hl, if_false, Bool.false_eq_true, SegSim]
        exact ⟨h1, by simp [Spec.apply, ha, h3]⟩
  | len =>
    simp only [start, SegSim]
    exact ⟨h, by simp [Spec.apply, specOf, abs, h.len]⟩
  | close =>
    simp only [start, SegSim]
    exact ⟨⟨h.ok, h.len⟩, by simp [Spec.apply, specOf, abs]⟩
  | next k => simp [Op.isNext] at hn

/-- a later segment (after a wake-up) of a blocking queue operation -/
theorem resume_sim {s : St} (h : SInv s) (t : Nat) (op : Op) (c : Bool) (hn : op.isNext = false)
    (hb : op.blocking = true) : SegSim s op c (resume s t op c) := by
  cases op with
  | badd v => exact baddLoop_sim h v c _
  | wait => exact waitLoop_sim h .wait (Or.inl rfl) c _
  | recv => exact waitLoop_sim h .recv (Or.inr rfl) c _
  | next k => simp [Op.isNext] at hn
  | add v => simp [Op.blocking] at hb
  | remove => simp [Op.blocking] at hb
  | len => simp [Op.blocking] at hb
  | close => simp [Op.blocking] at hb


/-! ### iterator segments do not touch the queue -/

theorem nextLoop_frame (s : St) (t k : Nat) (c : Bool) :
    let s' := (nextLoop s t k c).st
    s'.tracker = s.tracker ∧ s'.closed = s.closed ∧ s'.q = s.q ∧ s'.links = s.links ∧ s'.vals = s.vals ∧
      s'.nextId = s.nextId := by
  simp only [nextLoop]
  split
  · simp [St.setCursor]
  · repeat' split
    all_goals simp [St.setCursor]

theorem next_frame (s : St) (t k : Nat) (c : Bool) (o : SegOut St)
    (ho : o = start s t (.next k) ∨ o = resume s t (.next k) c) :
    o.st.tracker = s.tracker ∧ o.st.closed = s.closed ∧ o.st.q = s.q ∧ o.st.links = s.links ∧ o.st.vals = s.vals ∧
      o.st.nextId = s.nextId := by
  rcases ho with rfl | rfl
  · exact nextLoop_frame s t k false
  · exact nextLoop_frame s t k c

theorem next_specOf (s : St) (t k : Nat) (c : Bool) (o : SegOut St)
    (ho : o = start s t (.next k) ∨ o = resume s t (.next k) c) : specOf o.st = specOf s := by
  obtain ⟨h1, h2, h3, -⟩ := next_frame s t k c o ho
  simp [specOf, abs, h1, h2, h3]

theorem next_sinv {s : St} (h : SInv s) (t k : Nat) (c : Bool) (o : SegOut St)
    (ho : o = start s t (.next k) ∨ o = resume s t (.next k) c) : SInv o.st := by
  obtain ⟨h1, h2, h3, -⟩ := next_frame s t k c o ho
  exact ⟨by rw [h1]; exact h.ok, by rw [h1, h3]; exact h.len⟩

end FunModel.Queue
