import FunGen.DequePtr
import FunModel.Deque
import FunProofs.Dll
import FunProofs.PtrCommon
import FunProofs.DequeIter

/-! Pointer level of `pubsub.Deque` (C06, C20): the circular doubly linked list with sentinel root of
    deque.go over the element heap of FunModel/Dll.lean, the representation relation `R` between a heap
    and a state of the list-level model FunModel/Deque.lean, and the proofs that the *generated* link
    updates of `addAfter` and `pop` (lean/FunGen/DequePtr.lean) refine the model's list operations
    (`addEnd`, `popEnd`), including what `pop` leaves in the removed element (`stale`). -/
namespace FunProofs.DequePtr
open FunModel.Dll FunModel.Deque FunModel.Conc FunProofs.Ptr

/-! ### list facts -/

theorem after_split {pre post : List Nat} {c : Nat} (h : c ∉ pre) :
    FunModel.Deque.after (pre ++ c :: post) c = some (post.headD 0) := by
  induction pre with
  | nil => simp [FunModel.Deque.after]
  | cons x xs ih =>
    simp only [List.mem_cons, not_or] at h
    have : (x == c) = false := by simp [Ne.symm h.1]
    simp [FunModel.Deque.after, this, ih h.2]

theorem after_not_mem {l : List Nat} {c : Nat} (h : c ∉ l) : FunModel.Deque.after l c = none := by
  induction l with
  | nil => rfl
  | cons x xs ih =>
    simp only [List.mem_cons, not_or] at h
    have : (x == c) = false := by simp [Ne.symm h.1]
    simp [FunModel.Deque.after, this, ih h.2]

theorem headD_reverse (a : Nat) (l : List Nat) : l.reverse.headD a = lastOr a l := by
  rcases List.eq_nil_or_concat l with rfl | ⟨L, b, rfl⟩
  · rfl
  · simp

theorem lastOr_eq_lastD (a : Nat) (l : List Nat) : lastOr a l = lastD a l := by
  induction l generalizing a with
  | nil => rfl
  | cons x xs ih => exact ih x

/-! ### the generated functions, computed -/

/-- the heap after the four link updates of `addAfter` that splice a fresh element between `a` and `n` -/
def spliceResult (h : Heap) (dq : Nat) (v : Int) (a n : Nat) : Heap :=
  ((((h.alloc { item := v, list := some dq }).1.setPrev h.nn (some a)).setNext h.nn (some n)).setNext a (some h.nn)).setPrev n
    (some h.nn)

/-- heaps are equal when all fields of all elements and the bookkeeping agree (used to finish the
    computation lemmas below whatever the order of independent assignments in the source) -/
theorem heap_ext {h1 h2 : Heap}
    (hn : ∀ c, (h1.node c).next = (h2.node c).next ∧ (h1.node c).prev = (h2.node c).prev ∧
      (h1.node c).list = (h2.node c).list ∧ (h1.node c).ok = (h2.node c).ok ∧ (h1.node c).item = (h2.node c).item)
    (hh : h1.hdr = h2.hdr) (hnn : h1.nn = h2.nn) (hnl : h1.nl = h2.nl) : h1 = h2 := by
  cases h1; cases h2
  simp only at hh hnn hnl hn
  subst hh hnn hnl
  congr
  funext c
  obtain ⟨e1, e2, e3, e4, e5⟩ := hn c
  exact Node.ext' e1 e2 e3 e4 e5

set_option linter.unusedSimpArgs false in
set_option linter.unusedVariables false in
theorem gen_addAfter_ok {h : Heap} {a n : Nat} (dq : Nat) (v : Int) (hn : (h.node a).next = some n) (ha : a ≠ h.nn)
    (hn' : n ≠ h.nn) :
    FunGen.DequePtr.addAfter h false false dq v a = some (spliceResult h dq v a n, 2, none) := by
  simp [FunGen.DequePtr.addAfter, spliceResult, hn, ha, Ne.symm ha, hn', Ne.symm hn']
  try (apply heap_ext <;> (try intro c) <;> simp <;> grind)

theorem gen_addAfter_refused (h : Heap) (c2 : Bool) (dq : Nat) (v : Int) (a : Nat) :
    FunGen.DequePtr.addAfter h true c2 dq v a = some (h, 0, none) ∧
    FunGen.DequePtr.addAfter h false true dq v a = some (h, 1, none) := by
  constructor <;> simp [FunGen.DequePtr.addAfter]

section splice
variable {h : Heap} {dq : Nat} {v : Int} {a n : Nat}

theorem splice_next (c : Nat) : ((spliceResult h dq v a n).node c).next =
    if c = a then some h.nn else if c = h.nn then some n else (h.node c).next := by
  simp only [spliceResult, Heap.setPrev_next, Heap.setNext_next, Heap.alloc_fst_node]
  by_cases h1 : c = a
  · simp [h1]
  · by_cases h2 : c = h.nn <;> simp [h1, h2]

theorem splice_prev (c : Nat) : ((spliceResult h dq v a n).node c).prev =
    if c = n then some h.nn else if c = h.nn then some a else (h.node c).prev := by
  simp only [spliceResult, Heap.setPrev_prev, Heap.setNext_prev, Heap.alloc_fst_node]
  by_cases h1 : c = n
  · simp [h1]
  · by_cases h2 : c = h.nn <;> simp [h1, h2]

theorem splice_item (c : Nat) : ((spliceResult h dq v a n).node c).item = if c = h.nn then v else (h.node c).item := by
  simp only [spliceResult, Heap.setPrev_item, Heap.setNext_item, Heap.alloc_fst_node]
  by_cases h2 : c = h.nn <;> simp [h2]

theorem splice_list (c : Nat) : ((spliceResult h dq v a n).node c).list = if c = h.nn then some dq else (h.node c).list := by
  simp only [spliceResult, Heap.setPrev_list, Heap.setNext_list, Heap.alloc_fst_node]
  by_cases h2 : c = h.nn <;> simp [h2]

@[simp] theorem splice_nn : (spliceResult h dq v a n).nn = h.nn + 1 := rfl
@[simp] theorem splice_hdr : (spliceResult h dq v a n).hdr = h.hdr := rfl
end splice

/-- the heap after the two link updates of `pop` that unlink an element whose neighbours are `p` and `n` -/
def unlinkResult (h : Heap) (p n : Nat) : Heap := (h.setNext p (some n)).setPrev n (some p)

theorem gen_pop_ok {h : Heap} {it p n : Nat} (dq : Nat) (hp : (h.node it).prev = some p) (hn : (h.node it).next = some n)
    : FunGen.DequePtr.pop h false dq it = some (unlinkResult h p n, 1, some (h.node it).item) := by
  simp [FunGen.DequePtr.pop, unlinkResult, hp, hn]
  try (apply heap_ext <;> (try intro c) <;> simp <;> grind)

theorem gen_pop_refused (h : Heap) (dq it : Nat) : FunGen.DequePtr.pop h true dq it = some (h, 0, none) := by
  simp [FunGen.DequePtr.pop]

section unlink
variable {h : Heap} {p n : Nat}
theorem unlink_next (c : Nat) : ((unlinkResult h p n).node c).next = if c = p then some n else (h.node c).next := by
  simp [unlinkResult]
theorem unlink_prev (c : Nat) : ((unlinkResult h p n).node c).prev = if c = n then some p else (h.node c).prev := by
  simp [unlinkResult]
@[simp] theorem unlink_item (c : Nat) : ((unlinkResult h p n).node c).item = (h.node c).item := by simp [unlinkResult]
@[simp] theorem unlink_list (c : Nat) : ((unlinkResult h p n).node c).list = (h.node c).list := by simp [unlinkResult]
@[simp] theorem unlink_nn : (unlinkResult h p n).nn = h.nn := rfl
@[simp] theorem unlink_hdr : (unlinkResult h p n).hdr = h.hdr := rfl
end unlink

/-! ### cycles through the root -/

/-- splicing `new` in right after an inner element `a` of the cycle through the root -/
theorem chain_insert_mid {h h' : Heap} {pre post : List Nat} {a new n : Nat}
    (hc : Chain h 0 (pre ++ a :: post) 0) (hnd : (0 :: (pre ++ a :: post)).Nodup) (hnew : new ∉ 0 :: (pre ++ a :: post))
    (hn : (h.node a).next = some n)
    (hnext : ∀ c, (h'.node c).next = if c = a then some new else if c = new then some n else (h.node c).next)
    (hprev : ∀ c, (h'.node c).prev = if c = n then some new else if c = new then some a else (h.node c).prev) :
    Chain h' 0 (pre ++ a :: new :: post) 0 := by
  rw [chain_rotate] at hc
  have h1 : Chain h' a (new :: (post ++ 0 :: pre)) a := by
    refine cycle_insert hc ?_ ?_ ?_ ?_ hn hnext hprev
    · intro e; subst e; exact hnew (by simp)
    · intro hm; apply hnew
      simp only [List.mem_append, List.mem_cons] at hm ⊢
      rcases hm with hm | hm | hm <;> simp [hm]
    · intro hm
      simp only [List.nodup_cons, List.nodup_append, List.mem_append, List.mem_cons, not_or] at hnd
      simp only [List.mem_append, List.mem_cons] at hm
      rcases hm with hm | hm | hm
      · exact hnd.2.2.1.1 hm
      · exact hnd.1.2.1 hm.symm
      · exact hnd.2.2.2 a hm a (Or.inl rfl) rfl
    · simp only [List.nodup_cons, List.nodup_append, List.mem_append, List.mem_cons, not_or] at hnd ⊢
      refine ⟨hnd.2.2.1.2, ⟨hnd.1.1, hnd.2.1⟩, ?_⟩
      intro b hb c hcm
      rcases hcm with rfl | hcm
      · intro e; subst e; exact hnd.1.2.2 hb
      · intro e; subst e; exact hnd.2.2.2 b hcm b (Or.inr hb) rfl
  have h2 : Chain h' a ((new :: post) ++ 0 :: pre) a := h1
  exact chain_rotate.2 h2

/-- unlinking an element `e` of the cycle through the root -/
theorem chain_remove_mid {h h' : Heap} {pre post : List Nat} {e p : Nat}
    (hc : Chain h 0 (pre ++ e :: post) 0) (hnd : (0 :: (pre ++ e :: post)).Nodup)
    (hp : (h.node e).prev = some p)
    (hnext : ∀ c, (h'.node c).next = if c = p then some (post.headD 0) else (h.node c).next)
    (hprev : ∀ c, (h'.node c).prev = if c = post.headD 0 then some p else (h.node c).prev) :
    Chain h' 0 (pre ++ post) 0 := by
  rw [chain_rotate] at hc
  simp only [List.nodup_cons, List.nodup_append, List.mem_append, List.mem_cons, not_or] at hnd
  cases post with
  | nil =>
    simp only [List.nil_append, List.headD_nil, List.append_nil] at hc hnext hprev ⊢
    refine cycle_remove hc ?_ ?_ hp hnext hprev
    · simp only [List.mem_cons, not_or]
      exact ⟨fun e0 => hnd.1.2.1 e0.symm, fun hm => hnd.2.2.2 e hm e (Or.inl rfl) rfl⟩
    · exact List.nodup_cons.2 ⟨hnd.1.1, hnd.2.1⟩
  | cons y post' =>
    simp only [List.cons_append, List.headD_cons] at hc hnext hprev
    have h1 : Chain h' y (post' ++ 0 :: pre) y := by
      refine cycle_remove hc ?_ ?_ hp hnext hprev
      · simp only [List.mem_cons, List.mem_append, not_or]
        refine ⟨?_, ?_, ?_, ?_⟩
        · intro e1; subst e1; simp at hnd
        · intro hm; simp [hm] at hnd
        · intro e0; exact hnd.1.2.1 e0.symm
        · intro hm; exact hnd.2.2.2 e hm e (Or.inl rfl) rfl
      · simp only [List.nodup_cons, List.nodup_append, List.mem_append, List.mem_cons, not_or] at hnd ⊢
        refine ⟨⟨hnd.2.2.1.2.1, ?_, ?_⟩, hnd.2.2.1.2.2, ⟨hnd.1.1, hnd.2.1⟩, ?_⟩
        · intro e0; exact hnd.1.2.2.1 e0.symm
        · intro hm; exact hnd.2.2.2 y hm y (Or.inr (Or.inl rfl)) rfl
        · intro b hb c hcm
          rcases hcm with rfl | hcm
          · intro e0; subst e0; exact hnd.1.2.2.2 hb
          · intro e0; subst e0; exact hnd.2.2.2 b hcm b (Or.inr (Or.inr hb)) rfl
    exact chain_rotate.2 h1

/-! ### the representation relation -/

/-- the heap `h` represents the element structure of the model state `x` of the deque whose header is
    at `dq` (element identities are addresses; 0 is the root sentinel) -/
structure R (h : Heap) (dq : Nat) (x : St) : Prop where
  /-- `dq.root` is the sentinel -/
  root : (h.hdr dq).root = some 0
  /-- the circular list: `next` from the root visits the linked elements front to back and returns to
      the root, `prev` is the inverse -/
  chain : Chain h 0 x.ids 0
  nodup : (0 :: x.ids).Nodup
  lt : ∀ e ∈ x.ids, e < h.nn
  nn : h.nn = x.nextId
  pos : 0 < h.nn
  items : ∀ p ∈ x.q, (h.node p.1).item = p.2
  vals : ∀ c, c ≠ 0 → c < h.nn → (h.node c).item = x.valOf c
  /-- every element ever allocated, the root included, points back at the deque -/
  list : ∀ c, c < h.nn → (h.node c).list = some dq
  /-- a removed element still has the `next`/`prev` it had when it was unlinked, and the model recorded them -/
  stale : ∀ c, c ≠ 0 → c < h.nn → c ∉ x.ids →
    ∃ n p, x.stale.find? (fun t => t.1 == c) = some (c, n, p) ∧ (h.node c).next = some n ∧ (h.node c).prev = some p

/-- `makeDeque` (hand-written from the constructor: root element with `list: q`, linked to itself) -/
def initHeap (dq : Nat) : Heap :=
  let (h, r) := ({} : Heap).alloc { list := some dq }
  ((h.setNext r (some r)).setPrev r (some r)).setHdr dq { root := some r }

theorem R.init (dq : Nat) {x : St} (hq : x.q = []) (hid : x.nextId = 1) : R (initHeap dq) dq x := by
  have hids : x.ids = [] := by simp [St.ids, hq]
  have hnn : (initHeap dq).nn = 1 := rfl
  refine ⟨by simp [initHeap], ?_, by simp [hids], by simp [hids], by rw [hid]; rfl, by rw [hnn]; decide, by simp [hq], ?_, ?_, ?_⟩
  · rw [hids]; simp [initHeap]
  · intro c h0 h1; omega
  · intro c h1
    have : c = 0 := by omega
    subst this; simp [initHeap]
  · intro c h0 h1; omega

theorem R.congr {h : Heap} {dq : Nat} {x x' : St} (hr : R h dq x) (hq : x'.q = x.q) (hs : x'.stale = x.stale)
    (hv : x'.vals = x.vals) (hid : x'.nextId = x.nextId) : R h dq x' := by
  have hids : x'.ids = x.ids := by simp [St.ids, hq]
  have hvo : ∀ c, x'.valOf c = x.valOf c := fun c => by simp [St.valOf, hv]
  refine ⟨hr.root, by rw [hids]; exact hr.chain, by rw [hids]; exact hr.nodup, by rw [hids]; exact hr.lt,
    by rw [hid]; exact hr.nn, hr.pos, by rw [hq]; exact hr.items, ?_, hr.list, ?_⟩
  · intro c h0 h1; rw [hvo]; exact hr.vals c h0 h1
  · intro c h0 h1 h2; rw [hids] at h2; rw [hs]; exact hr.stale c h0 h1 h2

/-- the model's neighbour function is the `next` pointer of the heap, for every element ever
    allocated: the root, linked elements, removed elements -/
theorem R.next_eq {h : Heap} {dq : Nat} {x : St} (hr : R h dq x) {c : Nat} (hc : c < h.nn) :
    (h.node c).next = some (x.nbr .front c) := by
  unfold St.nbr
  by_cases h0 : c = 0
  · subst h0; simp only [if_true]; exact hr.chain.next_first
  · simp only [h0, if_false]
    by_cases hm : c ∈ x.ids
    · obtain ⟨pre, post, hsplit⟩ := List.append_of_mem hm
      have hnd := hr.nodup
      have hch := hr.chain
      rw [hsplit] at hnd hch ⊢
      have hcp : c ∉ pre := by
        intro hp
        simp only [List.nodup_cons, List.nodup_append, List.mem_append, List.mem_cons, not_or] at hnd
        exact hnd.2.2.2 c hp c (Or.inl rfl) rfl
      rw [after_split hcp]
      exact hch.next_mid
    · rw [after_not_mem hm]
      obtain ⟨n, p, hf, hn, _⟩ := hr.stale c h0 hc hm
      simp only [hf]; exact hn

theorem R.prev_eq {h : Heap} {dq : Nat} {x : St} (hr : R h dq x) {c : Nat} (hc : c < h.nn) :
    (h.node c).prev = some (x.nbr .back c) := by
  unfold St.nbr
  by_cases h0 : c = 0
  · subst h0; simp only [if_true]; rw [headD_reverse]; exact hr.chain.prev_last
  · simp only [h0, if_false]
    by_cases hm : c ∈ x.ids
    · obtain ⟨pre, post, hsplit⟩ := List.append_of_mem hm
      have hnd := hr.nodup
      have hch := hr.chain
      rw [hsplit] at hnd hch ⊢
      have hcp : c ∉ post.reverse := by
        intro hp
        simp only [List.nodup_cons, List.nodup_append, List.mem_append, List.mem_cons, not_or] at hnd
        exact hnd.2.2.1.1 (List.mem_reverse.1 hp)
      have : (pre ++ c :: post).reverse = post.reverse ++ c :: pre.reverse := by simp
      rw [this, after_split hcp, headD_reverse]
      exact hch.prev_mid
    · have hm' : c ∉ x.ids.reverse := fun e => hm (List.mem_reverse.1 e)
      rw [after_not_mem hm']
      obtain ⟨n, p, hf, _, hp⟩ := hr.stale c h0 hc hm
      simp only [hf]; exact hp

theorem nbr_root_mem (x : St) (d : End) : x.nbr d 0 = 0 ∨ x.nbr d 0 ∈ x.ids := by
  cases d with
  | front => simp only [St.nbr, if_true]; cases x.ids <;> simp
  | back =>
    simp only [St.nbr, if_true]
    cases hx : x.ids.reverse with
    | nil => simp
    | cons y ys =>
      right
      have : y ∈ x.ids.reverse := by rw [hx]; simp
      simpa using List.mem_reverse.1 this

/-- the root's `next` (`prev`) is the root itself exactly when the model's deque is empty
    (`it.isRoot()` for `it = dq.root.next`) -/
theorem R.nbr_zero_iff {h : Heap} {dq : Nat} {x : St} (hr : R h dq x) (d : End) : x.nbr d 0 = 0 ↔ x.q = [] := by
  have hnd := hr.nodup
  constructor
  · intro hz
    have hm : x.ids = [] := by
      cases d with
      | front =>
        simp only [St.nbr, if_true] at hz
        cases hx : x.ids with
        | nil => rfl
        | cons y ys => rw [hx] at hz hnd; simp at hz; subst hz; simp at hnd
      | back =>
        simp only [St.nbr, if_true, headD_reverse, lastOr_eq_lastD] at hz
        exact lastD_eq_self hnd hz
    simpa [St.ids] using hm
  · intro hq
    cases d <;> simp [St.nbr, St.ids, hq]

/-! ### `addAfter` -/

theorem R.spliced {h : Heap} {dq : Nat} {x x' : St} (hr : R h dq x) (v : Int) {a n : Nat}
    (ha : a = 0 ∨ a ∈ x.ids) (hn : n = 0 ∨ n ∈ x.ids)
    (hchain : Chain (spliceResult h dq v a n) 0 x'.ids 0)
    (hperm : x'.ids.Perm (h.nn :: x.ids))
    (hq : ∀ p, p ∈ x'.q → p = (h.nn, v) ∨ p ∈ x.q)
    (hv : x'.vals = (x.nextId, v) :: x.vals) (hid : x'.nextId = x.nextId + 1) (hst : x'.stale = x.stale) :
    R (spliceResult h dq v a n) dq x' := by
  have hnn := hr.nn
  have hnew : h.nn ∉ 0 :: x.ids := by
    intro hm
    rcases List.mem_cons.1 hm with e | e
    · have := hr.pos; omega
    · have := hr.lt _ e; omega
  have hmem : ∀ e, e ∈ x'.ids ↔ e = h.nn ∨ e ∈ x.ids := fun e => by rw [hperm.mem_iff]; simp
  have hqlt : ∀ p ∈ x.q, p.1 ≠ h.nn := by
    intro p hp e
    have := hr.lt p.1 (by simp only [St.ids]; exact List.mem_map_of_mem hp)
    omega
  refine ⟨by rw [splice_hdr]; exact hr.root, hchain, ?_, ?_, by rw [splice_nn, hid, hnn], by rw [splice_nn]; omega, ?_, ?_, ?_, ?_⟩
  · have : (0 :: x'.ids).Perm (0 :: h.nn :: x.ids) := List.Perm.cons 0 hperm
    rw [this.nodup_iff]
    have h1 := hr.nodup
    simp only [List.nodup_cons, List.mem_cons, not_or] at h1 hnew ⊢
    exact ⟨⟨fun e => hnew.1 e.symm, h1.1⟩, hnew.2, h1.2⟩
  · intro e he
    rw [splice_nn]
    rcases (hmem e).1 he with rfl | he
    · omega
    · have := hr.lt e he; omega
  · intro p hp
    rw [splice_item]
    rcases hq p hp with rfl | hp
    · simp
    · rw [if_neg (hqlt p hp)]; exact hr.items p hp
  · intro c h0 h1
    rw [splice_nn] at h1
    rw [splice_item]
    by_cases hcn : c = h.nn
    · subst hcn; simp [St.valOf, hv, hnn]
    · rw [if_neg hcn]
      have : x'.valOf c = x.valOf c := by
        have : ¬ x.nextId = c := by rw [← hnn]; exact fun e => hcn e.symm
        simp [St.valOf, hv, this]
      rw [this]; exact hr.vals c h0 (by omega)
  · intro c h1
    rw [splice_nn] at h1
    rw [splice_list]
    by_cases hcn : c = h.nn
    · simp [hcn]
    · rw [if_neg hcn]; exact hr.list c (by omega)
  · intro c h0 h1 h2
    rw [splice_nn] at h1
    have hcn : c ≠ h.nn := fun e => h2 ((hmem c).2 (Or.inl e))
    have hci : c ∉ x.ids := fun e => h2 ((hmem c).2 (Or.inr e))
    obtain ⟨n0, p0, hf, e1, e2⟩ := hr.stale c h0 (by omega) hci
    have hca : c ≠ a := by rcases ha with rfl | ha; exact h0; exact fun e => hci (e ▸ ha)
    have hcn' : c ≠ n := by rcases hn with rfl | hn; exact h0; exact fun e => hci (e ▸ hn)
    refine ⟨n0, p0, by rw [hst]; exact hf, ?_, ?_⟩
    · rw [splice_next, if_neg hca, if_neg hcn]; exact e1
    · rw [splice_prev, if_neg hcn', if_neg hcn]; exact e2

/-- `after` as the callers compute it: `dq.root` (PushFront) / `dq.root.prev` (PushBack) -/
def aOf (x : St) : End → Nat
  | .front => 0
  | .back => x.nbr .back 0

/-- the element that follows `after` before the splice -/
def nOf (x : St) : End → Nat
  | .front => x.nbr .front 0
  | .back => 0

theorem R.after_next {h : Heap} {dq : Nat} {x : St} (hr : R h dq x) (d : End) :
    (h.node (aOf x d)).next = some (nOf x d) := by
  cases d with
  | front => exact hr.next_eq hr.pos
  | back =>
    simp only [aOf, nOf, St.nbr, if_true, headD_reverse]
    rcases List.eq_nil_or_concat x.ids with e | ⟨L, b, e⟩
    · have := hr.chain; rw [e] at this ⊢; exact this.1
    · have := hr.chain
      simp only [List.concat_eq_append] at e
      rw [e] at this ⊢
      rw [lastOr_snoc]
      exact this.next_mid

theorem R.aOf_lt {h : Heap} {dq : Nat} {x : St} (hr : R h dq x) (d : End) : aOf x d < h.nn := by
  cases d with
  | front => exact hr.pos
  | back => rcases nbr_root_mem x .back with e | e
            · simp only [aOf, e]; exact hr.pos
            · exact hr.lt _ e

theorem R.nOf_ne {h : Heap} {dq : Nat} {x : St} (hr : R h dq x) (d : End) : nOf x d ≠ h.nn := by
  have hp := hr.pos
  cases d with
  | front => rcases nbr_root_mem x .front with e | e
             · simp only [nOf, e]; omega
             · have := hr.lt _ e; simp only [nOf]; omega
  | back => simp only [nOf]; omega

/-- a successful `addAfter` at either end -/
theorem R.pushed {h : Heap} {dq : Nat} {x x' : St} (hr : R h dq x) (d : End) (v : Int)
    (hq : x'.q = addQ d (x.nextId, v) x.q) (hv : x'.vals = (x.nextId, v) :: x.vals) (hid : x'.nextId = x.nextId + 1)
    (hst : x'.stale = x.stale) : R (spliceResult h dq v (aOf x d) (nOf x d)) dq x' := by
  have hnn := hr.nn
  have hnd := hr.nodup
  have hnew : h.nn ∉ 0 :: x.ids := by
    intro hm
    rcases List.mem_cons.1 hm with e | e
    · have := hr.pos; omega
    · have := hr.lt _ e; omega
  have hanext := hr.after_next d
  have ha : aOf x d = 0 ∨ aOf x d ∈ x.ids := by
    cases d with
    | front => exact Or.inl rfl
    | back => exact nbr_root_mem x .back
  have hn : nOf x d = 0 ∨ nOf x d ∈ x.ids := by
    cases d with
    | front => exact nbr_root_mem x .front
    | back => exact Or.inl rfl
  have hq' : ∀ p, p ∈ x'.q → p = (h.nn, v) ∨ p ∈ x.q := by
    intro p hp; rw [hq, ← hnn] at hp
    cases d <;> simp [addQ] at hp <;> rcases hp with hp | hp <;> simp [hp]
  have hnext := @splice_next h dq v (aOf x d) (nOf x d)
  have hprev := @splice_prev h dq v (aOf x d) (nOf x d)
  refine hr.spliced v ha hn ?_ ?_ hq' hv hid hst
  · -- the cycle
    cases d with
    | front =>
      have hids : x'.ids = h.nn :: x.ids := by simp [St.ids, hq, addQ, hnn]
      rw [hids]
      simp only [List.mem_cons, not_or, List.nodup_cons] at hnew hnd
      exact cycle_insert hr.chain hnew.1 hnew.2 hnd.1 hnd.2 hanext hnext hprev
    | back =>
      have hids : x'.ids = x.ids ++ [h.nn] := by simp [St.ids, hq, addQ, hnn]
      rw [hids]
      rcases List.eq_nil_or_concat x.ids with e | ⟨L, b, e⟩
      · have hch := hr.chain
        have ha0 : aOf x .back = 0 := by simp [aOf, St.nbr, e]
        rw [ha0] at hanext hnext hprev ⊢
        rw [e] at hch ⊢
        simp only [List.mem_cons, not_or] at hnew
        exact cycle_insert hch hnew.1 (by simp) (by simp) List.nodup_nil hanext hnext hprev
      · simp only [List.concat_eq_append] at e
        have hab : aOf x .back = b := by simp [aOf, St.nbr, e]
        rw [hab] at hanext hnext hprev ⊢
        have hch := hr.chain
        rw [e] at hch hnd hnew ⊢
        have := chain_insert_mid (pre := L) (post := []) hch hnd hnew hanext hnext hprev
        simpa using this
  · cases d with
    | front => simp [St.ids, hq, addQ, hnn]
    | back =>
      have hids : x'.ids = x.ids ++ [h.nn] := by simp [St.ids, hq, addQ, hnn]
      rw [hids]; exact List.perm_append_singleton _ _

/-! ### `pop` -/

theorem R.unlinked {h : Heap} {dq : Nat} {x x' : St} (hr : R h dq x) {e p n : Nat} {pre post : List Nat}
    (hsplit : x.ids = pre ++ e :: post) (hids' : x'.ids = pre ++ post)
    (hp : p = lastOr 0 pre) (hn : n = post.headD 0)
    (hq : ∀ t ∈ x'.q, t ∈ x.q) (hst : x'.stale = (e, n, p) :: x.stale) (hv : x'.vals = x.vals)
    (hid : x'.nextId = x.nextId) : R (unlinkResult h p n) dq x' := by
  have hch := hr.chain
  have hnd := hr.nodup
  rw [hsplit] at hch hnd
  have heprev : (h.node e).prev = some p := by rw [hp]; exact hch.prev_mid
  have henext : (h.node e).next = some n := by rw [hn]; exact hch.next_mid
  have hnd' := hnd
  simp only [List.nodup_cons, List.nodup_append, List.mem_append, List.mem_cons, not_or] at hnd'
  have hpm : p = 0 ∨ p ∈ pre := by rw [hp]; exact lastOr_mem 0 pre
  have hnm : n = 0 ∨ n ∈ post := by rw [hn]; cases post <;> simp
  have hep : e ≠ p := by
    rcases hpm with e0 | hm
    · rw [e0]; exact fun e1 => hnd'.1.2.1 e1.symm
    · exact fun e1 => hnd'.2.2.2 p hm p (Or.inl e1.symm) rfl
  have hen : e ≠ n := by
    rcases hnm with e0 | hm
    · rw [e0]; exact fun e1 => hnd'.1.2.1 e1.symm
    · exact fun e1 => hnd'.2.2.1.1 (e1 ▸ hm)
  have hvo : ∀ c, x'.valOf c = x.valOf c := fun c => by simp [St.valOf, hv]
  have hsub : ∀ c, c ∈ x'.ids → c ∈ x.ids := by
    intro c hc; rw [hids'] at hc; rw [hsplit]
    simp only [List.mem_append, List.mem_cons] at hc ⊢
    rcases hc with hc | hc <;> simp [hc]
  refine ⟨by rw [unlink_hdr]; exact hr.root, ?_, ?_, ?_, by rw [unlink_nn, hid]; exact hr.nn, by rw [unlink_nn]; exact hr.pos,
    ?_, ?_, ?_, ?_⟩
  · rw [hids']
    refine chain_remove_mid hch hnd heprev ?_ ?_
    · intro c; rw [unlink_next, hn]
    · intro c; rw [unlink_prev, hn]
  · rw [hids']
    simp only [List.nodup_cons, List.nodup_append, List.mem_append, not_or]
    refine ⟨⟨hnd'.1.1, hnd'.1.2.2⟩, hnd'.2.1, hnd'.2.2.1.2, ?_⟩
    intro a ha b hb; exact hnd'.2.2.2 a ha b (Or.inr hb)
  · intro c hc; rw [unlink_nn]; exact hr.lt c (hsub c hc)
  · intro t ht; rw [unlink_item]; exact hr.items t (hq t ht)
  · intro c h0 h1; rw [unlink_nn] at h1; rw [unlink_item, hvo]; exact hr.vals c h0 h1
  · intro c h1; rw [unlink_nn] at h1; rw [unlink_list]; exact hr.list c h1
  · intro c h0 h1 h2
    rw [unlink_nn] at h1
    rw [hids'] at h2
    simp only [List.mem_append, not_or] at h2
    by_cases hce : c = e
    · subst hce
      refine ⟨n, p, by rw [hst]; simp, ?_, ?_⟩
      · rw [unlink_next, if_neg hep]; exact henext
      · rw [unlink_prev, if_neg hen]; exact heprev
    · have hci : c ∉ x.ids := by
        rw [hsplit]; simp only [List.mem_append, List.mem_cons, not_or]; exact ⟨h2.1, hce, h2.2⟩
      obtain ⟨n0, p0, hf, e1, e2⟩ := hr.stale c h0 h1 hci
      have hcp : c ≠ p := by
        rcases hpm with e0 | hm
        · rw [e0]; exact h0
        · exact fun e1 => h2.1 (e1 ▸ hm)
      have hcn : c ≠ n := by
        rcases hnm with e0 | hm
        · rw [e0]; exact h0
        · exact fun e1 => h2.2 (e1 ▸ hm)
      refine ⟨n0, p0, ?_, ?_, ?_⟩
      · rw [hst]
        have : (e == c) = false := by simp [Ne.symm hce]
        simp only [List.find?_cons, this]; exact hf
      · rw [unlink_next, if_neg hcp]; exact e1
      · rw [unlink_prev, if_neg hcn]; exact e2

/-! ### the model's functions against the generated ones, all branches -/

theorem addEnd_refines {h : Heap} {dq : Nat} {x : St} (hr : R h dq x) (d : End) (v : Int) :
    ∃ h' k, FunGen.DequePtr.addAfter h x.closed (x.tracker.add.2 != .ok) dq v (aOf x d) = some (h', k, none) ∧
      R h' dq (addEnd x d v).1 ∧ (k = 2 ↔ (addEnd x d v).2.1 = .ok) := by
  unfold addEnd
  by_cases hc : x.closed = true
  · simp only [hc, if_true]
    exact ⟨h, 0, (gen_addAfter_refused h _ dq v _).1, hr, by simp⟩
  · have hc' : x.closed = false := by simpa using hc
    simp only [hc', Bool.false_eq_true, if_false]
    cases hadd : x.tracker.add with
    | mk tr r =>
      cases r with
      | ok =>
        have hlt := hr.aOf_lt d
        refine ⟨_, 2, gen_addAfter_ok dq v (hr.after_next d) (by omega) (hr.nOf_ne d), ?_, by simp⟩
        refine hr.pushed d v ?_ rfl rfl rfl
        cases d <;> rfl
      | full => exact ⟨h, 1, (gen_addAfter_refused h false dq v _).2, hr, by simp⟩
      | noCredit => exact ⟨h, 1, (gen_addAfter_refused h false dq v _).2, hr, by simp⟩

/-- what the popped element `e` keeps: exactly the links it had -/
theorem unlink_keeps {h : Heap} {e p n : Nat} (hp : e ≠ p) (hn : e ≠ n) :
    ((unlinkResult h p n).node e).next = (h.node e).next ∧ ((unlinkResult h p n).node e).prev = (h.node e).prev := by
  rw [unlink_next, unlink_prev, if_neg hp, if_neg hn]; exact ⟨rfl, rfl⟩

theorem popEnd_refines {h : Heap} {dq : Nat} {x : St} (hr : R h dq x) (d : End) :
    ∃ h' k, FunGen.DequePtr.pop h (x.closed || x.q.isEmpty) dq (x.nbr d 0) = some (h', k, (popEnd x d).2.1) ∧
      R h' dq (popEnd x d).1 ∧
      (∀ e, x.closed = false → x.nbr d 0 = e → e ≠ 0 →
        (h'.node e).next = (h.node e).next ∧ (h'.node e).prev = (h.node e).prev) := by
  unfold popEnd
  by_cases hc : x.closed = true
  · simp only [hc, if_true, Bool.true_or]
    exact ⟨h, 0, gen_pop_refused h dq _, hr, fun e h1 => by simp at h1⟩
  · have hc' : x.closed = false := by simpa using hc
    simp only [hc', Bool.false_eq_true, if_false, Bool.false_or]
    have hnd := hr.nodup
    cases d with
    | front =>
      cases hq : x.q with
      | nil =>
        simp only [List.isEmpty_nil]
        exact ⟨h, 0, gen_pop_refused h dq _, hr, fun e _ h2 h3 => absurd ((hr.nbr_zero_iff .front).2 hq ▸ h2.symm) h3⟩
      | cons t rest =>
        obtain ⟨e, v⟩ := t
        have hids : x.ids = [] ++ e :: rest.map (·.1) := by simp [St.ids, hq]
        have hnbr : x.nbr .front 0 = e := by simp [St.nbr, St.ids, hq]
        have hch := hr.chain
        rw [hids] at hch hnd
        have hprev : (h.node e).prev = some 0 := hch.prev_mid
        have hnext : (h.node e).next = some ((rest.map (·.1)).headD 0) := hch.next_mid
        have hit : (h.node e).item = v := hr.items (e, v) (by rw [hq]; simp)
        simp only [List.isEmpty_cons, hnbr]
        refine ⟨_, 1, by rw [gen_pop_ok dq hprev hnext, hit], ?_, ?_⟩
        · refine hr.unlinked (pre := []) hids (by simp [St.ids]) rfl rfl ?_ rfl rfl rfl
          intro t ht; rw [hq]; exact List.mem_cons_of_mem _ ht
        · intro e' _ he' h0
          subst he'
          simp only [List.nil_append, List.nodup_cons, List.mem_cons, not_or] at hnd
          refine unlink_keeps (Ne.symm hnd.1.1) ?_
          intro e1
          rcases (by cases (rest.map (·.1)) <;> simp : (rest.map (·.1)).headD 0 = 0 ∨ (rest.map (·.1)).headD 0 ∈ rest.map (·.1)) with e2 | e2
          · rw [e2] at e1; exact hnd.1.1 e1.symm
          · rw [← e1] at e2; exact hnd.2.1 e2
    | back =>
      cases hl : x.q.getLast? with
      | none =>
        have hq : x.q = [] := List.getLast?_eq_none_iff.1 hl
        simp only [hq, List.isEmpty_nil]
        exact ⟨h, 0, gen_pop_refused h dq _, hr, fun e _ h2 h3 => absurd ((hr.nbr_zero_iff .back).2 hq ▸ h2.symm) h3⟩
      | some t =>
        obtain ⟨e, v⟩ := t
        obtain ⟨ys, hys⟩ := List.getLast?_eq_some_iff.1 hl
        have hdl : x.q.dropLast = ys := by rw [hys]; simp
        have hq : x.q = x.q.dropLast ++ [(e, v)] := by rw [hdl]; exact hys
        have hne : x.q.isEmpty = false := by rw [hq]; simp
        have hids : x.ids = x.q.dropLast.map (·.1) ++ e :: [] := by
          simp only [St.ids]; conv => lhs; rw [hq]
          simp
        have hnbr : x.nbr .back 0 = e := by simp [St.nbr, hids]
        have hch := hr.chain
        rw [hids] at hch hnd
        have hprev : (h.node e).prev = some (lastOr 0 (x.q.dropLast.map (·.1))) := hch.prev_mid
        have hnext : (h.node e).next = some 0 := hch.next_mid
        have hit : (h.node e).item = v := hr.items (e, v) (by rw [hq]; simp)
        have hpv : ((x.q.dropLast.map (·.1)).getLast?).getD 0 = lastOr 0 (x.q.dropLast.map (·.1)) := by
          rw [lastOr_eq_lastD, lastD_eq_getLast?]
        simp only [hne, hnbr]
        refine ⟨_, 1, by rw [gen_pop_ok dq hprev hnext, hit], ?_, ?_⟩
        · refine hr.unlinked (post := []) hids (by simp [St.ids]) rfl rfl ?_ (by simp only [hpv]) rfl rfl
          intro t ht; exact List.dropLast_subset _ ht
        · intro e' _ he' h0
          subst he'
          simp only [List.nodup_cons, List.nodup_append, List.mem_append, List.mem_cons, not_or] at hnd
          refine unlink_keeps ?_ (Ne.symm hnd.1.2.1)
          intro e1
          rcases lastOr_mem 0 (x.q.dropLast.map (·.1)) with e2 | e2
          · rw [e2] at e1; exact hnd.1.2.1 e1.symm
          · rw [← e1] at e2; exact hnd.2.2.2 _ e2 _ (Or.inl rfl) rfl

/-! ### the same, stated on heaps alone: `abs (ptrOp h) = listOp (abs h)` -/

/-- follow `next` until the root comes round again (at most `fuel` elements) -/
def walk (h : Heap) : Nat → Option Nat → List Nat
  | 0, _ => []
  | _ + 1, none => []
  | fuel + 1, some e => if e = 0 then [] else e :: walk h fuel (h.node e).next

/-- the abstraction function: the elements between `root.next` and the root, with their items -/
def abs (h : Heap) : List (Nat × Int) := (walk h h.nn (h.node 0).next).map (fun e => (e, (h.node e).item))

theorem walk_chain {h : Heap} {a : Nat} {xs : List Nat} (hc : Chain h a xs 0) (h0 : 0 ∉ xs) :
    ∀ fuel, xs.length < fuel → walk h fuel (h.node a).next = xs := by
  induction xs generalizing a with
  | nil =>
    intro fuel hf
    rw [chain_nil] at hc; rw [hc.1]
    cases fuel with
    | zero => simp at hf
    | succ f => simp [walk]
  | cons x xs ih =>
    intro fuel hf
    cases fuel with
    | zero => simp at hf
    | succ f =>
      rw [chain_cons] at hc
      simp only [List.mem_cons, not_or] at h0
      rw [hc.1.1]
      simp only [walk, if_neg (Ne.symm h0.1)]
      rw [ih hc.2 h0.2 f (by simpa using hf)]

theorem R.abs_eq {h : Heap} {dq : Nat} {x : St} (hr : R h dq x) : abs h = x.q := by
  have hnd := hr.nodup
  have hlen : (0 :: x.ids).length ≤ h.nn :=
    length_le_of_nodup_lt _ _ hnd (by
      intro e he; rcases List.mem_cons.1 he with rfl | he
      · exact hr.pos
      · exact hr.lt e he)
  unfold abs
  rw [walk_chain hr.chain (List.nodup_cons.1 hnd).1 _ (by simp only [List.length_cons] at hlen; omega), St.ids, List.map_map]
  conv => rhs; rw [← List.map_id x.q]
  apply List.map_congr_left
  intro p hp
  simp [hr.items p hp]

/-- the representation invariant of the heap: a duplicate-free cycle through the root in which `prev`
    inverts `next` (some model state is represented) -/
def Inv (h : Heap) (dq : Nat) : Prop := ∃ x, R h dq x

/-- a model state with the same element structure on which `addAfter`/`pop` take their main branch -/
def openSt (x : St) : St := { x with closed := false, tracker := .noLimit 0 }

theorem R.openSt {h : Heap} {dq : Nat} {x : St} (hr : R h dq x) : R h dq (openSt x) := hr.congr rfl rfl rfl rfl

theorem Inv.init (dq : Nat) : Inv (initHeap dq) dq ∧ abs (initHeap dq) = [] := by
  have hr : R (initHeap dq) dq { tracker := .noLimit 0 } := R.init dq rfl rfl
  exact ⟨⟨_, hr⟩, hr.abs_eq⟩

/-- the root's links, read off the abstraction -/
theorem Inv.root_links {h : Heap} {dq : Nat} (hi : Inv h dq) :
    (h.hdr dq).root = some 0 ∧ (h.node 0).next = some (((abs h).map (·.1)).headD 0) ∧
    (h.node 0).prev = some (lastOr 0 ((abs h).map (·.1))) := by
  obtain ⟨x, hr⟩ := hi
  rw [hr.abs_eq]
  exact ⟨hr.root, hr.chain.next_first, hr.chain.prev_last⟩

theorem Inv.push {h : Heap} {dq : Nat} (hi : Inv h dq) (d : End) (v : Int) {a : Nat}
    (ha : some a = match d with | .front => (h.hdr dq).root | .back => (h.node 0).prev) :
    ∃ h', FunGen.DequePtr.addAfter h false false dq v a = some (h', 2, none) ∧ Inv h' dq ∧
      abs h' = addQ d (h.nn, v) (abs h) := by
  obtain ⟨x, hr⟩ := hi
  have hro := hr.openSt
  have ha' : a = aOf (openSt x) d := by
    cases d with
    | front => simp only [hr.root] at ha; exact Option.some.inj ha
    | back => simp only [hro.prev_eq hr.pos] at ha; exact Option.some.inj ha
  obtain ⟨h', k, hg, hr', hk⟩ := addEnd_refines hro d v
  have hok : (addEnd (openSt x) d v).2.1 = .ok := by simp [addEnd, openSt, Tracker.add]
  have hk2 : k = 2 := hk.2 hok
  subst hk2
  refine ⟨h', by rw [ha']; simpa [openSt, Tracker.add] using hg, ⟨_, hr'⟩, ?_⟩
  rw [hr'.abs_eq, hr.abs_eq, hr.nn]
  cases d <;> simp [addEnd, openSt, Tracker.add, addQ]

theorem Inv.pop {h : Heap} {dq : Nat} (hi : Inv h dq) (d : End) {e : Nat} {v : Int} {rest : List (Nat × Int)}
    (ha : abs h = addQ d (e, v) rest) :
    (match d with | .front => (h.node 0).next | .back => (h.node 0).prev) = some e ∧
    ∃ h', FunGen.DequePtr.pop h false dq e = some (h', 1, some v) ∧ Inv h' dq ∧ abs h' = rest ∧
      (h'.node e).next = (h.node e).next ∧ (h'.node e).prev = (h.node e).prev := by
  obtain ⟨x, hr⟩ := hi
  have hro := hr.openSt
  rw [hr.abs_eq] at ha
  have hq : (openSt x).q = addQ d (e, v) rest := ha
  have hne : (openSt x).q.isEmpty = false := by rw [hq]; cases d <;> simp [addQ]
  have hnbr : (openSt x).nbr d 0 = e := by
    cases d <;> simp [St.nbr, St.ids, hq, addQ]
  have he0 : e ≠ 0 := by
    intro e0
    have := (hro.nbr_zero_iff d).1 (hnbr.trans e0)
    rw [this] at hne; simp at hne
  obtain ⟨h', k, hg, hr', hkeep⟩ := popEnd_refines hro d
  rw [hnbr, hne] at hg
  have hcl : ((openSt x).closed || false) = false := rfl
  rw [hcl] at hg
  have hres : (popEnd (openSt x) d).2.1 = some v ∧ (popEnd (openSt x) d).1.q = rest := by
    cases d with
    | front => simp [popEnd, openSt, addQ] at hq ⊢; simp [hq]
    | back =>
      have h1 : x.q.getLast? = some (e, v) := by simp [openSt, addQ] at hq; simp [hq]
      have h2 : x.q.dropLast = rest := by simp [openSt, addQ] at hq; simp [hq]
      simp [popEnd, openSt, h1, h2]
  rw [hres.1] at hg
  have hk : k = 1 := by
    have hc := hro.chain
    cases d with
    | front =>
      have hi : (openSt x).ids = [] ++ e :: rest.map (·.1) := by simp [St.ids, hq, addQ]
      rw [hi] at hc
      rw [gen_pop_ok dq hc.prev_mid hc.next_mid] at hg
      exact ((Prod.mk.inj (Prod.mk.inj (Option.some.inj hg)).2).1).symm
    | back =>
      have hi : (openSt x).ids = rest.map (·.1) ++ e :: [] := by simp [St.ids, hq, addQ]
      rw [hi] at hc
      rw [gen_pop_ok dq hc.prev_mid hc.next_mid] at hg
      exact ((Prod.mk.inj (Prod.mk.inj (Option.some.inj hg)).2).1).symm
  subst hk
  refine ⟨?_, h', hg, ⟨_, hr'⟩, by rw [hr'.abs_eq, hres.2], hkeep e rfl hnbr he0⟩
  cases d with
  | front => rw [hro.next_eq hr.pos, hnbr]
  | back => rw [hro.prev_eq hr.pos, hnbr]

/-- the deque is empty exactly when the root points at itself (`it.isRoot()` for `it = root.next`) -/
theorem Inv.empty_iff {h : Heap} {dq : Nat} (hi : Inv h dq) :
    (abs h = [] ↔ (h.node 0).next = some 0) ∧ (abs h = [] ↔ (h.node 0).prev = some 0) := by
  obtain ⟨x, hr⟩ := hi
  rw [hr.abs_eq, hr.next_eq hr.pos, hr.prev_eq hr.pos]
  constructor
  · rw [← hr.nbr_zero_iff .front]; simp
  · rw [← hr.nbr_zero_iff .back]; simp

/-! ### every step of the model is a run of the generated pointer code -/

/-- one call of a generated function (or none) on the deque at `dq` -/
inductive PStep (dq : Nat) (h : Heap) : Heap → Prop where
  | none : PStep dq h h
  | add (c1 c2 : Bool) (v : Int) (a : Nat) (h' : Heap) (k : Nat)
      (hg : FunGen.DequePtr.addAfter h c1 c2 dq v a = some (h', k, none)) : PStep dq h h'
  | pop (c1 : Bool) (it : Nat) (h' : Heap) (k : Nat) (r : Option Int)
      (hg : FunGen.DequePtr.pop h c1 dq it = some (h', k, r)) : PStep dq h h'

/-- heaps reachable from `makeDeque` by calls of the generated `addAfter` / `pop` -/
inductive PReach (dq : Nat) : Heap → Prop where
  | init : PReach dq (initHeap dq)
  | step {h h' : Heap} : PReach dq h → PStep dq h h' → PReach dq h'

/-- the model state is represented by a heap the generated code can produce -/
def Rep (dq : Nat) (x : St) : Prop := ∃ h, PReach dq h ∧ R h dq x

theorem Rep.congr {dq : Nat} {x x' : St} (hp : Rep dq x) (hq : x'.q = x.q) (hs : x'.stale = x.stale)
    (hv : x'.vals = x.vals) (hid : x'.nextId = x.nextId) : Rep dq x' := by
  obtain ⟨h, h1, h2⟩ := hp; exact ⟨h, h1, h2.congr hq hs hv hid⟩

theorem Rep.addEnd {dq : Nat} {x : St} (hp : Rep dq x) (d : End) (v : Int) : Rep dq (addEnd x d v).1 := by
  obtain ⟨h, h1, h2⟩ := hp
  obtain ⟨h', k, hg, hr', _⟩ := addEnd_refines h2 d v
  exact ⟨h', .step h1 (.add _ _ v _ h' k hg), hr'⟩

theorem Rep.popEnd {dq : Nat} {x : St} (hp : Rep dq x) (d : End) : Rep dq (popEnd x d).1 := by
  obtain ⟨h, h1, h2⟩ := hp
  obtain ⟨h', k, hg, hr', _⟩ := popEnd_refines h2 d
  exact ⟨h', .step h1 (.pop _ _ h' k _ hg), hr'⟩

theorem Rep.forcePush {dq : Nat} {x : St} (hp : Rep dq x) (d : End) (v : Int) : Rep dq (forcePush x d v).1 := by
  unfold FunModel.Deque.forcePush
  by_cases hc : x.tracker.atCap = true
  · simp only [hc, ite_true]; exact (hp.popEnd d.opp).addEnd d v
  · simp only [hc, Bool.false_eq_true, ite_false]; exact hp.addEnd d v

theorem iterYield_frame (x : St) (key : Nat) (d : End) (c : Nat) :
    (iterYield x key d c).st.q = x.q ∧ (iterYield x key d c).st.stale = x.stale ∧
    (iterYield x key d c).st.vals = x.vals ∧ (iterYield x key d c).st.nextId = x.nextId := by
  unfold iterYield
  by_cases hn : (x.nbr d c == 0) = true <;> simp [hn, St.setCursor]

theorem iterLoop_frame (x : St) (key : Nat) (d : End) (k : Bool) (pre : List Sig) :
    (iterLoop x key d k pre).st.q = x.q ∧ (iterLoop x key d k pre).st.stale = x.stale ∧
    (iterLoop x key d k pre).st.vals = x.vals ∧ (iterLoop x key d k pre).st.nextId = x.nextId := by
  unfold iterLoop
  by_cases hn : (x.nbr d (x.cursor key) == 0) = true
  · simp only [hn, ite_true]
    by_cases hc : x.closed = true
    · simp [hc]
    · by_cases hk : k = true <;> simp [hc, hk]
  · simp only [hn, Bool.false_eq_true, ite_false]; exact iterYield_frame x key d _

theorem Rep.waitPopLoop {dq : Nat} {x : St} (hp : Rep dq x) (d : End) (k : Bool) (pre : List Sig) :
    Rep dq (waitPopLoop x d k pre).st := by
  rcases waitPopLoop_cases x d k pre with h1 | ⟨h1, _⟩
  · rw [h1]; exact hp
  · rw [h1]; exact hp.popEnd d

theorem Rep.waitPushLoop {dq : Nat} {x : St} (hp : Rep dq x) (d : End) (v : Int) (k : Bool) (pre : List Sig) :
    Rep dq (waitPushLoop x d v k pre).st := by
  rcases waitPushLoop_cases x d v k pre with h1 | ⟨h1, _⟩
  · rw [h1]; exact hp
  · rw [h1]; exact hp.addEnd d v

theorem Rep.startR {dq : Nat} {x : St} (hp : Rep dq x) (op : FunModel.Deque.Op) : Rep dq (startR x op).st := by
  cases op with
  | push d v => exact hp.addEnd d v
  | fpush d v => exact hp.forcePush d v
  | pop d =>
    have := hp.popEnd d
    simp only [FunModel.Deque.startR]
    rcases hpe : FunModel.Deque.popEnd x d with ⟨s', ov, sg⟩
    rw [hpe] at this
    cases ov <;> exact this
  | wait d =>
    simp only [FunModel.Deque.startR]
    by_cases hc : x.closed = true
    · simpa [hc] using hp
    · simp only [hc, Bool.false_eq_true, ite_false]
      by_cases he : x.q.isEmpty = true
      · simp only [he, ite_true]; exact hp.waitPopLoop d false _
      · simp only [he, Bool.false_eq_true, ite_false]; exact hp.waitPopLoop d false _
  | wpush d v =>
    simp only [FunModel.Deque.startR]
    by_cases hr : x.tracker.hasRoom = true
    · simp only [hr, ite_true]; exact hp.addEnd d v
    · simp only [hr, Bool.false_eq_true, ite_false]; exact hp.waitPushLoop d v false _
  | len => exact hp
  | close => exact hp.congr rfl rfl rfl rfl
  | next d b k =>
    simp only [FunModel.Deque.startR]
    by_cases hn : (x.nbr d (x.cursor (cursorKey d b k)) == 0 && b) = true
    · simp only [hn, ite_true]
      obtain ⟨f1, f2, f3, f4⟩ := iterLoop_frame x (cursorKey d b k) d false [.spawn (iterCond d (x.cursor (cursorKey d b k)))]
      exact hp.congr f1 f2 f3 f4
    · simp only [hn, Bool.false_eq_true, ite_false]
      obtain ⟨f1, f2, f3, f4⟩ := iterYield_frame x (cursorKey d b k) d (x.cursor (cursorKey d b k))
      exact hp.congr f1 f2 f3 f4

theorem Rep.resumeR {dq : Nat} {x : St} (hp : Rep dq x) (op : FunModel.Deque.Op) (c : Bool) : Rep dq (resumeR x op c).st := by
  cases op with
  | wait d => exact hp.waitPopLoop d c _
  | wpush d v => exact hp.waitPushLoop d v c _
  | next d b k =>
    cases b with
    | true =>
      obtain ⟨f1, f2, f3, f4⟩ := iterLoop_frame x (cursorKey d true k) d c []
      exact hp.congr f1 f2 f3 f4
    | false => exact hp
  | push d v => exact hp
  | fpush d v => exact hp
  | pop d => exact hp
  | len => exact hp
  | close => exact hp

/-- in every reachable state of the concurrent system the model's element structure (linked elements,
    items, and the stale links of removed elements) is represented by a heap that the generated code
    produces from `makeDeque`'s -/
theorem reach_rep (dq : Nat) {s0 s : Sys St FunModel.Deque.Op} (hwf0 : s0.WF) (h0 : Rep dq s0.subj) (hr : Reach subject s0 s) :
    Rep dq s.subj :=
  hr.subj_inv (Rep dq) hwf0 h0 (fun _ _ op hx => hx.startR op) (fun _ _ op c hx => hx.resumeR op c)

end FunProofs.DequePtr
