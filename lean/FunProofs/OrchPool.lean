import FunModel.Orch
import FunProofs.OrchOrc

/-! Helper lemmas for C11, WorkerPool / HandlerWorkerPool: inversion of `Pool.step`, conservation of
    jobs (every accepted job is in exactly one place: queue, reader, a worker, finished, dropped) and
    the inductive invariant of the pool machine. -/

namespace FunModel.Orch.Pool

/-! ### worker vectors -/

theorem flatMap_set_perm {α : Type} (f : α → List Nat) :
    ∀ (ws : List α) (w : Nat) (a b : α), ws[w]? = some a →
      ((ws.set w b).flatMap f ++ f a).Perm (ws.flatMap f ++ f b)
  | [], w, a, b, h => by simp at h
  | v :: ws, 0, a, b, h => by
    simp at h; subst h
    simp only [List.set_cons_zero, List.flatMap_cons]
    have h1 : (f b ++ List.flatMap f ws ++ f v).Perm (f v ++ (f b ++ List.flatMap f ws)) := List.perm_append_comm
    have h2 : (f v ++ (f b ++ List.flatMap f ws)).Perm (f v ++ (List.flatMap f ws ++ f b)) :=
      List.Perm.append_left _ List.perm_append_comm
    simpa [List.append_assoc] using h1.trans h2
  | v :: ws, w + 1, a, b, h => by
    simp at h
    have ih := flatMap_set_perm f ws w a b h
    simp only [List.set_cons_succ, List.flatMap_cons, List.append_assoc]
    exact List.Perm.append_left _ ih

theorem count_flatMap_set {α : Type} (f : α → List Nat) (ws : List α) (w : Nat) (a b : α) (h : ws[w]? = some a)
    (k : Nat) : ((ws.set w b).flatMap f).count k + (f a).count k = (ws.flatMap f).count k + (f b).count k := by
  have := (flatMap_set_perm f ws w a b h).count_eq k
  simpa [List.count_append] using this

def held (s : St) : List Nat := s.ws.flatMap heldOf
def busy (s : St) : List Nat := s.ws.flatMap busyOf
def b2n (b : Bool) : Nat := if b then 1 else 0

@[simp] theorem b2n_true : b2n true = 1 := rfl
@[simp] theorem b2n_false : b2n false = 0 := rfl

/-- in how many places job `j` is -/
def places (s : St) (j : Nat) : Nat :=
  s.queue.count j + s.rd.toList.count j + (held s).count j + (busy s).count j + b2n (s.fin j) + s.dropped.count j

/-! ### inversion of `step` -/

theorem step_startPool {c : Cfg} {s s' : St} (h : step c s .startPool = some s') :
    s.started = false ∧ s' = { s with started := true, ws := List.replicate c.n .idle } := ite_some_eq h

theorem step_cancel {c : Cfg} {s s' : St} (h : step c s .cancel = some s') : s' = { s with cancelled := true } := by
  simp only [step, Option.some.injEq] at h; exact h.symm

theorem step_add {c : Cfg} {s s' : St} {j : Nat} {acc : Bool} (h : step c s (.add j acc) = some s') :
    s.addSt j = .none ∧ (acc = true → s.closed = false) ∧
      ((acc = true ∧ s' = { s with addSt := upd s.addSt j .accepted, queue := s.queue ++ [j] }) ∨
       (acc = false ∧ s' = { s with addSt := upd s.addSt j .rejected })) := by
  simp only [step] at h
  split at h
  · rename_i hg
    refine ⟨hg.1, hg.2, ?_⟩
    cases acc with
    | true => simp only [↓reduceIte, Option.some.injEq] at h; exact Or.inl ⟨rfl, h.symm⟩
    | false => simp only [Bool.false_eq_true, ↓reduceIte, Option.some.injEq] at h; exact Or.inr ⟨rfl, h.symm⟩
  · cases h

theorem step_release {c : Cfg} {s s' : St} {j : Nat} (h : step c s (.release j) = some s') :
    s' = { s with released := upd s.released j true } := by
  simp only [step, Option.some.injEq] at h; exact h.symm

theorem step_shutdown {c : Cfg} {s s' : St} (h : step c s .shutdown = some s') :
    (s.started = true ∧ s.svcCtxEnded = true ∧ s.closed = false) ∧ s' = { s with closed := true } := ite_some_eq h

theorem step_read {c : Cfg} {s s' : St} (h : step c s .read = some s') :
    ∃ j q, s.queue = j :: q ∧ s.rd = none ∧ (s.started = true ∧ s.rdDone = false ∧ s.wctxEnded = false) ∧
      s' = { s with queue := q, rd := some j } := by
  simp only [step] at h
  split at h
  · rename_i j q hq hr
    obtain ⟨hg, hs⟩ := ite_some_eq h
    exact ⟨j, q, hq, hr, hg, hs⟩
  · cases h

theorem step_handoff {c : Cfg} {s s' : St} {w : Nat} (h : step c s (.handoff w) = some s') :
    ∃ j, s.rd = some j ∧ s.ws[w]? = some .idle ∧ s' = { s with rd := none, ws := s.ws.set w (.holding j) } := by
  simp only [step] at h
  split at h
  · rename_i j h1 h2
    exact ⟨j, h1, h2, by simpa using h.symm⟩
  · cases h

theorem step_drop {c : Cfg} {s s' : St} (h : step c s .drop = some s') :
    ∃ j, s.rd = some j ∧ (s.wctxEnded = true ∧ s.rdDone = false) ∧
      s' = { s with rd := none, rdDone := true, dropped := j :: s.dropped } := by
  simp only [step] at h
  split at h
  · rename_i j h1
    obtain ⟨hg, hs⟩ := ite_some_eq h
    exact ⟨j, h1, hg, hs⟩
  · cases h

theorem step_rdExit {c : Cfg} {s s' : St} (h : step c s .rdExit = some s') :
    (s.started = true ∧ s.rd = none ∧ s.rdDone = false ∧ (s.wctxEnded = true ∨ (s.queue = [] ∧ s.closed = true))) ∧
      s' = { s with rdDone := true } := ite_some_eq h

theorem step_wstart {c : Cfg} {s s' : St} {w : Nat} (h : step c s (.wstart w) = some s') :
    ∃ j, s.ws[w]? = some (.holding j) ∧
      s' = { s with ws := s.ws.set w (.busy j), runs := upd s.runs j (s.runs j + 1) } := by
  simp only [step] at h
  split at h
  · rename_i j h1
    exact ⟨j, h1, by simpa using h.symm⟩
  · cases h

theorem step_wfinish {c : Cfg} {s s' : St} {w : Nat} (h : step c s (.wfinish w) = some s') :
    ∃ j, s.ws[w]? = some (.busy j) ∧ (s.released j = true ∧ ((c.outcome j).blocks = true → s.wctxEnded = true)) ∧
      s' = { s with ws := s.ws.set w (if c.cont j then .idle else .done), aborted := s.aborted || !c.cont j, fin := upd s.fin j true, coll := if c.reports j then j :: s.coll else s.coll, handled := if c.handles j then j :: s.handled else s.handled } := by
  simp only [step] at h
  split at h
  · rename_i j h1
    obtain ⟨hg, hs⟩ := ite_some_eq h
    exact ⟨j, h1, hg, hs⟩
  · cases h

theorem step_wexit {c : Cfg} {s s' : St} {w : Nat} (h : step c s (.wexit w) = some s') :
    s.ws[w]? = some .idle ∧ (s.wctxEnded = true ∨ s.rdDone = true) ∧ s' = { s with ws := s.ws.set w .done } := by
  simp only [step] at h
  split at h
  · rename_i h1
    obtain ⟨hg, hs⟩ := ite_some_eq h
    exact ⟨h1, hg, hs⟩
  · cases h

theorem step_runReturn {c : Cfg} {s s' : St} (h : step c s .runReturn = some s') :
    (s.started = true ∧ s.runReturned = false ∧ s.rdDone = true ∧ s.ws.all (fun w => decide (w = .done)) = true) ∧
      s' = { s with runReturned := true } := ite_some_eq h

theorem step_svcReturn {c : Cfg} {s s' : St} (h : step c s .svcReturn = some s') :
    (s.runReturned = true ∧ s.closed = true ∧ s.svcDone = false) ∧ s' = { s with svcDone := true, finAtW := s.fin } :=
  ite_some_eq h

/-! ### the invariant -/

structure Inv (c : Cfg) (s : St) : Prop where
  cons : ∀ j, places s j = b2n (decide (s.addSt j = .accepted))
  runs_eq : ∀ j, s.runs j = (busy s).count j + b2n (s.fin j)
  coll_spec : ∀ j, s.fin j = true → (c.reports j = true → j ∈ s.coll) ∧ (c.handles j = true → j ∈ s.handled)
  rd_done : s.rdDone = true → s.rd = none
  drop_ctx : s.dropped ≠ [] → s.wctxEnded = true
  closed_ctx : s.closed = true → s.cancelled = true ∨ s.runReturned = true
  rdDone_why : s.rdDone = true → s.wctxEnded = true ∨ s.closed = true
  rr_all : s.runReturned = true → s.rdDone = true ∧ ∀ w ∈ s.ws, w = .done
  svc : s.svcDone = true → s.runReturned = true ∧ ∀ j, s.runs j = 1 → s.finAtW j = true
  unstarted : s.started = false → s.ws = [] ∧ s.rd = none ∧ s.rdDone = false ∧ s.runReturned = false ∧ s.closed = false

theorem inv_init (c : Cfg) : Inv c init := by
  refine ⟨?_, ?_, ?_, ?_, ?_, ?_, ?_, ?_, ?_, ?_⟩ <;> simp [init, places, held, busy, St.wctxEnded]

theorem count_single (j k : Nat) : [j].count k = if j = k then 1 else 0 := by
  by_cases h : j = k <;> simp [h]

theorem Inv.runs_le {c : Cfg} {s : St} (hi : Inv c s) (j : Nat) : s.runs j ≤ 1 := by
  have h1 := hi.cons j
  have h2 := hi.runs_eq j
  have : b2n (decide (s.addSt j = .accepted)) ≤ 1 := by unfold b2n; split <;> omega
  unfold places at h1; omega

theorem Inv.runs_accepted {c : Cfg} {s : St} (hi : Inv c s) (j : Nat) (h : s.runs j ≠ 0) : s.addSt j = .accepted := by
  have h1 := hi.cons j
  have h2 := hi.runs_eq j
  by_cases ha : s.addSt j = .accepted
  · exact ha
  · simp only [ha, decide_false, b2n_false] at h1; unfold places at h1; omega

/-- the all-done worker vector admits no worker action -/
theorem not_done_of_get {s : St} (hall : ∀ w ∈ s.ws, w = .done) {w : Nat} {x : WSt} (h : s.ws[w]? = some x) : x = .done :=
  hall x (List.mem_of_getElem? h)

theorem inv_step {c : Cfg} {s s' : St} {a : Act} (hi : Inv c s) (h : step c s a = some s') : Inv c s' := by
  cases a with
  | startPool =>
    obtain ⟨hs, rfl⟩ := step_startPool h
    obtain ⟨hws, hrd, hrdd, hrr, hcl⟩ := hi.unstarted hs
    have hheld : (List.replicate c.n WSt.idle).flatMap heldOf = [] := by simp [List.flatMap_replicate, heldOf]
    have hbusy : (List.replicate c.n WSt.idle).flatMap busyOf = [] := by simp [List.flatMap_replicate, busyOf]
    refine { hi with cons := ?_, runs_eq := ?_, rr_all := ?_, unstarted := by simp }
    · intro j; have := hi.cons j; simp only [places, held, busy, hws, List.flatMap_nil] at this
      simp only [places, held, busy, hheld, hbusy]; exact this
    · intro j; have := hi.runs_eq j; simp only [busy, hws, List.flatMap_nil] at this
      simp only [busy, hbusy]; exact this
    · intro h'; rw [hrr] at h'; cases h'
  | cancel =>
    rw [step_cancel h]
    exact { hi with drop_ctx := fun _ => by simp [St.wctxEnded], closed_ctx := fun _ => Or.inl rfl,
                    rdDone_why := fun _ => Or.inl (by simp [St.wctxEnded]) }
  | add j acc =>
    obtain ⟨hn, hcl, hcase⟩ := step_add h
    rcases hcase with ⟨_, rfl⟩ | ⟨_, rfl⟩
    · refine { hi with cons := ?_ }
      intro k
      have := hi.cons k
      by_cases hk : k = j
      · subst hk
        simp only [hn, reduceCtorEq, decide_false, b2n_false] at this
        simp only [places, held, busy, List.count_append, count_single, upd_same, decide_true, b2n_true, ↓reduceIte] at this ⊢
        omega
      · have hjk : ¬ j = k := fun e => hk e.symm
        simp only [places, held, busy, List.count_append, count_single, hjk, ↓reduceIte, upd_other _ _ _ _ hk] at this ⊢
        omega
    · refine { hi with cons := ?_ }
      intro k
      have := hi.cons k
      by_cases hk : k = j
      · subst hk
        simp only [hn, reduceCtorEq, decide_false, b2n_false] at this
        simpa [places, held, busy] using this
      · simpa [places, held, busy, hk] using this
  | release j => rw [step_release h]; exact { hi with }
  | shutdown =>
    obtain ⟨⟨hst, hctx, _⟩, rfl⟩ := step_shutdown h
    refine { hi with closed_ctx := ?_, rdDone_why := fun _ => Or.inr rfl, unstarted := by simp [hst] }
    intro _; simpa [St.svcCtxEnded] using hctx
  | read =>
    obtain ⟨j, q, hq, hrd, ⟨hst, _, _⟩, rfl⟩ := step_read h
    refine { hi with cons := ?_, rd_done := ?_, unstarted := by simp [hst] }
    · intro k
      have := hi.cons k
      simp only [places, held, busy, hq, hrd, List.count_cons, Option.toList_none, List.count_nil, Option.toList_some,
        beq_iff_eq] at this ⊢
      omega
    · intro hd; have := hi.rd_done hd; rw [hrd] at this
      rename_i hg; simp_all
  | handoff w =>
    obtain ⟨j, hrd, hw, rfl⟩ := step_handoff h
    have hst : s.started = true := by
      cases hs : s.started with
      | true => rfl
      | false => have := (hi.unstarted hs).1; rw [this] at hw; simp at hw
    have hnr : s.runReturned = false := by
      cases hr : s.runReturned with
      | false => rfl
      | true => have := not_done_of_get (hi.rr_all hr).2 hw; cases this
    have hnd : s.rdDone = false := by
      cases hd : s.rdDone with
      | false => rfl
      | true => have := hi.rd_done hd; rw [hrd] at this; cases this
    refine { hi with cons := ?_, runs_eq := ?_, rd_done := fun _ => rfl, rr_all := ?_, unstarted := by simp [hst] }
    · intro k
      have := hi.cons k
      have h1 := count_flatMap_set heldOf s.ws w .idle (.holding j) hw k
      have h2 := count_flatMap_set busyOf s.ws w .idle (.holding j) hw k
      simp only [heldOf, busyOf, List.count_nil, count_single] at h1 h2
      simp only [places, held, busy, hrd, Option.toList_some, Option.toList_none, List.count_nil, count_single] at this ⊢
      omega
    · intro k
      have := hi.runs_eq k
      have h2 := count_flatMap_set busyOf s.ws w .idle (.holding j) hw k
      simp only [busyOf, List.count_nil] at h2
      simp only [busy] at this ⊢
      omega
    · intro hr; rw [hnr] at hr; cases hr
  | drop =>
    obtain ⟨j, hrd, ⟨hctx, _⟩, rfl⟩ := step_drop h
    have hst : s.started = true := by
      cases hs : s.started with
      | true => rfl
      | false => have := (hi.unstarted hs).2.1; rw [this] at hrd; cases hrd
    refine { hi with cons := ?_, rd_done := fun _ => rfl, drop_ctx := fun _ => hctx, rdDone_why := fun _ => Or.inl hctx,
                     rr_all := ?_, unstarted := by simp [hst] }
    · intro k
      have := hi.cons k
      simp only [places, held, busy, hrd, Option.toList_some, Option.toList_none, List.count_nil, List.count_cons,
        beq_iff_eq] at this ⊢
      omega
    · intro hr; exact ⟨rfl, (hi.rr_all hr).2⟩
  | rdExit =>
    obtain ⟨⟨hst, hrd, _, hwhy⟩, rfl⟩ := step_rdExit h
    refine { hi with rd_done := fun _ => hrd, rdDone_why := ?_, rr_all := ?_, unstarted := by simp [hst] }
    · intro _; rcases hwhy with h1 | ⟨_, h1⟩
      · exact Or.inl h1
      · exact Or.inr h1
    · intro hr; exact ⟨rfl, (hi.rr_all hr).2⟩
  | wstart w =>
    obtain ⟨j, hw, rfl⟩ := step_wstart h
    have hst : s.started = true := by
      cases hs : s.started with
      | true => rfl
      | false => have := (hi.unstarted hs).1; rw [this] at hw; simp at hw
    have hnr : s.runReturned = false := by
      cases hr : s.runReturned with
      | false => rfl
      | true => have := not_done_of_get (hi.rr_all hr).2 hw; cases this
    have hns : s.svcDone = false := by
      cases hd : s.svcDone with
      | false => rfl
      | true => have := (hi.svc hd).1; rw [hnr] at this; cases this
    refine { hi with cons := ?_, runs_eq := ?_, rr_all := ?_, svc := ?_, unstarted := by simp [hst] }
    · intro k
      have := hi.cons k
      have h1 := count_flatMap_set heldOf s.ws w (.holding j) (.busy j) hw k
      have h2 := count_flatMap_set busyOf s.ws w (.holding j) (.busy j) hw k
      simp only [heldOf, busyOf, List.count_nil, count_single] at h1 h2
      simp only [places, held, busy] at this ⊢
      omega
    · intro k
      have := hi.runs_eq k
      have h2 := count_flatMap_set busyOf s.ws w (.holding j) (.busy j) hw k
      simp only [busyOf, List.count_nil, count_single] at h2
      simp only [busy] at this ⊢
      by_cases hk : k = j
      · subst hk; simp only [upd_same, ↓reduceIte] at h2 ⊢; omega
      · have hjk : ¬ j = k := fun e => hk e.symm
        simp only [upd_other _ _ _ _ hk, hjk, ↓reduceIte] at h2 ⊢; omega
    · intro hr; rw [hnr] at hr; cases hr
    · intro hd; rw [hns] at hd; cases hd
  | wfinish w =>
    obtain ⟨j, hw, _, rfl⟩ := step_wfinish h
    have hst : s.started = true := by
      cases hs : s.started with
      | true => rfl
      | false => have := (hi.unstarted hs).1; rw [this] at hw; simp at hw
    have hnr : s.runReturned = false := by
      cases hr : s.runReturned with
      | false => rfl
      | true => have := not_done_of_get (hi.rr_all hr).2 hw; cases this
    have hns : s.svcDone = false := by
      cases hd : s.svcDone with
      | false => rfl
      | true => have := (hi.svc hd).1; rw [hnr] at this; cases this
    -- the job is busy, so (conservation) it has not finished before
    have hbusyj : 1 ≤ (busy s).count j := by
      have : j ∈ busy s := List.mem_flatMap.mpr ⟨.busy j, List.mem_of_getElem? hw, by simp [busyOf]⟩
      exact List.count_pos_iff.mpr this
    have hfin : s.fin j = false := by
      have h1 := hi.cons j
      have : b2n (decide (s.addSt j = .accepted)) ≤ 1 := by unfold b2n; split <;> omega
      cases hf : s.fin j with
      | false => rfl
      | true => simp only [places, hf, b2n_true] at h1; omega
    have hcnt : ∀ (b : WSt), busyOf b = [] → heldOf b = [] → ∀ k,
        ((s.ws.set w b).flatMap heldOf).count k = (held s).count k ∧
        ((s.ws.set w b).flatMap busyOf).count k + (if j = k then 1 else 0) = (busy s).count k := by
      intro b hb1 hb2 k
      have h1 := count_flatMap_set heldOf s.ws w (.busy j) b hw k
      have h2 := count_flatMap_set busyOf s.ws w (.busy j) b hw k
      rw [hb2] at h1; rw [hb1] at h2
      simp only [heldOf, busyOf, List.count_nil, count_single] at h1 h2
      simp only [held, busy]; omega
    have hb : busyOf (if c.cont j then WSt.idle else WSt.done) = [] ∧ heldOf (if c.cont j then WSt.idle else WSt.done) = [] := by
      split <;> simp [busyOf, heldOf]
    refine { hi with cons := ?_, runs_eq := ?_, coll_spec := ?_, drop_ctx := ?_, rdDone_why := ?_, rr_all := ?_,
                     svc := ?_, unstarted := by simp [hst] }
    · intro k
      have := hi.cons k
      obtain ⟨h1, h2⟩ := hcnt _ hb.1 hb.2 k
      simp only [places, held, busy] at this h1 h2 ⊢
      by_cases hk : k = j
      · subst hk; simp only [upd_same, b2n_true, ↓reduceIte, hfin, b2n_false] at this h2 ⊢; omega
      · have hjk : ¬ j = k := fun e => hk e.symm
        simp only [upd_other _ _ _ _ hk, hjk, ↓reduceIte] at h2 ⊢; omega
    · intro k
      have := hi.runs_eq k
      obtain ⟨_, h2⟩ := hcnt _ hb.1 hb.2 k
      simp only [busy] at this h2 ⊢
      by_cases hk : k = j
      · subst hk; simp only [upd_same, b2n_true, ↓reduceIte, hfin, b2n_false] at this h2 ⊢; omega
      · have hjk : ¬ j = k := fun e => hk e.symm
        simp only [upd_other _ _ _ _ hk, hjk, ↓reduceIte] at h2 ⊢; omega
    · intro k hk
      by_cases hkj : k = j
      · subst hkj
        constructor
        · intro hr; simp [hr]
        · intro hr; simp [hr]
      · have := hi.coll_spec k (by simpa [hkj] using hk)
        constructor
        · intro hr; have := this.1 hr
          show k ∈ (if c.reports j = true then j :: s.coll else s.coll)
          by_cases hrj : c.reports j = true <;> simp [hrj, this]
        · intro hr; have := this.2 hr
          show k ∈ (if c.handles j = true then j :: s.handled else s.handled)
          by_cases hrj : c.handles j = true <;> simp [hrj, this]
    · intro hd; have := hi.drop_ctx hd; simp only [St.wctxEnded] at this ⊢
      rcases Bool.or_eq_true _ _ |>.mp this with h1 | h1 <;> simp [h1]
    · intro hd; rcases hi.rdDone_why hd with h1 | h1
      · left; simp only [St.wctxEnded] at h1 ⊢
        rcases Bool.or_eq_true _ _ |>.mp h1 with h1 | h1 <;> simp [h1]
      · exact Or.inr h1
    · intro hr; rw [hnr] at hr; cases hr
    · intro hd; rw [hns] at hd; cases hd
  | wexit w =>
    obtain ⟨hw, _, rfl⟩ := step_wexit h
    have hst : s.started = true := by
      cases hs : s.started with
      | true => rfl
      | false => have := (hi.unstarted hs).1; rw [this] at hw; simp at hw
    have hnr : s.runReturned = false := by
      cases hr : s.runReturned with
      | false => rfl
      | true => have := not_done_of_get (hi.rr_all hr).2 hw; cases this
    refine { hi with cons := ?_, runs_eq := ?_, rr_all := ?_, unstarted := by simp [hst] }
    · intro k
      have := hi.cons k
      have h1 := count_flatMap_set heldOf s.ws w .idle .done hw k
      have h2 := count_flatMap_set busyOf s.ws w .idle .done hw k
      simp only [heldOf, busyOf, List.count_nil] at h1 h2
      simp only [places, held, busy] at this ⊢
      omega
    · intro k
      have := hi.runs_eq k
      have h2 := count_flatMap_set busyOf s.ws w .idle .done hw k
      simp only [busyOf, List.count_nil] at h2
      simp only [busy] at this ⊢
      omega
    · intro hr; rw [hnr] at hr; cases hr
  | runReturn =>
    obtain ⟨⟨hst, _, hrd, hall⟩, rfl⟩ := step_runReturn h
    refine { hi with closed_ctx := ?_, rr_all := ?_, svc := ?_, unstarted := by simp [hst] }
    · intro _; exact Or.inr rfl
    · intro _; exact ⟨hrd, by simpa [List.all_eq_true] using hall⟩
    · intro hd; exact ⟨rfl, (hi.svc hd).2⟩
  | svcReturn =>
    obtain ⟨⟨hrr, _, _⟩, rfl⟩ := step_svcReturn h
    refine { hi with svc := ?_ }
    intro _
    refine ⟨hrr, ?_⟩
    intro j hj
    have hb : (busy s).count j = 0 := by
      have hall := (hi.rr_all hrr).2
      have : busy s = [] := by
        simp only [busy, List.flatMap_eq_nil_iff]
        intro w hw; rw [hall w hw]; rfl
      simp [this]
    have := hi.runs_eq j
    have hj' : s.runs j = 1 := hj
    show s.fin j = true
    cases hf : s.fin j with
    | true => rfl
    | false => simp only [hf, b2n_false] at this; omega

theorem reachable_inv {c : Cfg} {s : St} (h : Reachable c s) : Inv c s := by
  obtain ⟨acts, h⟩ := h
  suffices ∀ (acts : List Act) (s0 : St), Inv c s0 → run c s0 acts = some s → Inv c s from this acts init (inv_init c) h
  intro acts
  induction acts with
  | nil => intro s0 h0 hr; simp [run] at hr; subst hr; exact h0
  | cons a as ih =>
    intro s0 h0 hr
    simp only [run, List.foldlM_cons, Option.bind_eq_bind] at hr
    cases hs : step c s0 a with
    | none => simp [hs] at hr
    | some s1 => rw [hs] at hr; exact ih s1 (inv_step h0 hs) hr

end FunModel.Orch.Pool
