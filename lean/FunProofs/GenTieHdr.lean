import FunGen.Hdr
import FunModel.Hdr
import FunProofs.Hdr

/-! T-gen tie: the hand-written models used by the property theorems equal the definitions that
    tools/go2lean regenerates from the current source of tychoish/fun on every run. If the Go code of
    a translated function changes, the generated definition changes and these theorems are
    re-checked against it. -/

namespace FunProofs.GenTie
open FunModel FunGen

/-! ## dt/hdrhist/hdr.go -/
section Hdr
open FunModel.Hdr FunGen.Hdr

/-- the generated `Histogram` record holding the scalar fields `New` computes for shape `s` -/
def genHist (s : Shape) : Histogram :=
  { lowestTrackableValue := s.lowest, highestTrackableValue := s.highest, unitMagnitude := s.unitMag,
    significantFigures := s.sigfigs, subBucketHalfCountMagnitude := s.halfMag,
    subBucketHalfCount := s.subBucketHalfCount, subBucketMask := s.subBucketMask,
    subBucketCount := s.subBucketCount, bucketCount := s.bucketCount, countsLen := s.countsLen, totalCount := 0 }

theorem shr_cast (x k : Nat) : ((x : Int) >>> k) = ((x >>> k : Nat) : Int) := rfl
theorem shl_cast (x k : Nat) : ((x : Int) <<< k) = ((x <<< k : Nat) : Int) := by
  simp [Int.shiftLeft_eq, Nat.shiftLeft_eq]

theorem loop_tie (fuel x n : Nat) :
    bitLen_loop1 fuel (n : Int) (x : Int)
      = (((bitLenLoop fuel x n).2 : Int), ((bitLenLoop fuel x n).1 : Int)) := by
  induction fuel generalizing x n with
  | zero => rfl
  | succ f ih =>
    unfold bitLen_loop1 bitLenLoop
    by_cases h : x ≥ 0x8000
    · have h' : (x : Int) ≥ 0x8000 := by omega
      have e : ((x : Int) >>> Int.toNat 16) = ((x >>> 16 : Nat) : Int) := rfl
      have e2 : ((n : Int) + 16) = ((n + 16 : Nat) : Int) := by omega
      simp only [h, h', decide_true, if_true]
      rw [e, e2, ih]
    · have h' : ¬ ((x : Int) ≥ 0x8000) := by omega
      simp only [h, h', decide_false, if_false, Bool.false_eq_true]

/-- one "if x >= c { x >>= k; n += k }" step of the generated code, on the pair (n, x) -/
def gstep (c : Int) (k : Nat) (p : Int × Int) : Int × Int :=
  if decide (p.2 ≥ c) then (p.1 + k, p.2 >>> k) else p

theorem gen_bitLen_unfold (x : Int) :
    FunGen.Hdr.bitLen x =
      (let p := gstep 0x2 2 (gstep 0x8 4 (gstep 0x80 8 (bitLen_loop1 8 0 x)))
       if decide (p.2 ≥ 0x1) then p.1 + 1 else p.1) := rfl

theorem gstep_tie (c : Int) (k : Nat) (hk : c = ((2 ^ (k - 1) : Nat) : Int)) (p : Nat × Nat) :
    gstep c k ((p.2 : Int), (p.1 : Int)) = (((bitStep k p).2 : Int), ((bitStep k p).1 : Int)) := by
  unfold gstep bitStep
  subst hk
  by_cases h : p.1 ≥ 2 ^ (k - 1)
  · have h' : (p.1 : Int) ≥ ((2 ^ (k - 1) : Nat) : Int) := by exact_mod_cast h
    simp only [h, h', decide_true, if_true]
    rw [shr_cast]; simp
  · have h' : ¬ ((p.1 : Int) ≥ ((2 ^ (k - 1) : Nat) : Int)) := by
      intro hh; exact h (by exact_mod_cast hh)
    simp only [h, h', decide_false, if_false, Bool.false_eq_true]

/-- `bitLen` as generated from hdr.go equals the hand-written mirror `bitLenGo` (hence, by
    `bitLenGo_eq_bitLen`, `⌊log2 x⌋ + 1` for `0 < x < 2^63`) -/
theorem bitLen_tie (x : Nat) : FunGen.Hdr.bitLen (x : Int) = (bitLenGo x : Int) := by
  rw [gen_bitLen_unfold, bitLenGo_unfold]
  have l := loop_tie 8 x 0
  simp only [Int.natCast_zero] at l
  rw [l]
  generalize bitLenLoop 8 x 0 = p0
  rw [gstep_tie 0x80 8 (by decide) p0, gstep_tie 0x8 4 (by decide), gstep_tie 0x2 2 (by decide)]
  generalize bitStep 2 (bitStep 4 (bitStep 8 p0)) = p3
  by_cases h : p3.1 ≥ 1
  · have h' : (p3.1 : Int) ≥ 0x1 := by omega
    simp [h, h']
  · have h' : ¬ ((p3.1 : Int) ≥ 0x1) := by omega
    simp [h, h']

theorem bitLen_ge (s : Shape) (v : Nat) : s.unitMag + (s.halfMag + 1) ≤ FunModel.Hdr.bitLen (v ||| s.subBucketMask) := by
  have h2 : 2 ^ (s.halfMag + s.unitMag) ≤ v ||| s.subBucketMask := Nat.le_trans s.mask_ge Nat.right_le_or
  have := le_bitLen_of_le h2
  omega

/-- `getBucketIndex` (values below 2^63, i.e. every non-negative int64) -/
theorem getBucketIndex_tie (s : Shape) (v : Nat) (hv : v ||| s.subBucketMask < 2 ^ 63) :
    (genHist s).getBucketIndex (v : Int) = (s.bucketIdx v : Int) := by
  unfold Histogram.getBucketIndex Shape.bucketIdx genHist
  simp only [Int.toNat_natCast]
  rw [bitLen_tie, bitLenGo_eq_bitLen _ hv]
  have := bitLen_ge s v
  omega

/-- shifts of the generated code on casts of naturals; the side conditions are linear, so `omega`
    discharges them however the Go expressions are associated or commuted -/
theorem shl_int (a k : Int) (n m : Nat) (ha : a = (n : Int)) (hk : k.toNat = m) :
    a <<< k.toNat = ((n <<< m : Nat) : Int) := by subst ha; subst hk; exact shl_cast _ _
theorem shr_int (a k : Int) (n m : Nat) (ha : a = (n : Int)) (hk : k.toNat = m) :
    a >>> k.toNat = ((n >>> m : Nat) : Int) := by subst ha; subst hk; rfl

/-- `getSubBucketIdx` -/
theorem getSubBucketIdx_tie (s : Shape) (v b : Nat) :
    (genHist s).getSubBucketIdx (v : Int) (b : Int) = (s.subBucketIdx v b : Int) := by
  unfold Histogram.getSubBucketIdx Shape.subBucketIdx genHist
  dsimp only
  exact shr_int _ _ v (b + s.unitMag) rfl (by omega)

/-- `countsIndex` (the Go code subtracts before adding; no intermediate result is observable) -/
theorem countsIndex_tie (s : Shape) (b sb : Nat) :
    (genHist s).countsIndex (b : Int) (sb : Int) = (s.countsIndex b sb : Int) := by
  unfold Histogram.countsIndex Shape.countsIndex genHist
  dsimp only
  rw [shl_int _ _ (b + 1) s.halfMag (by omega) (by omega)]
  have h1 : s.subBucketHalfCount ≤ (b + 1) <<< s.halfMag := by
    rw [s.subBucketHalfCount_eq, Nat.shiftLeft_eq]
    exact Nat.le_mul_of_pos_left _ (by omega)
  omega

/-- `valueFromIndex` -/
theorem valueFromIndex_tie (s : Shape) (b sb : Nat) :
    (genHist s).valueFromIndex (b : Int) (sb : Int) = (s.valueFromIndex b sb : Int) := by
  unfold Histogram.valueFromIndex Shape.valueFromIndex genHist
  dsimp only
  exact shl_int _ _ sb (b + s.unitMag) rfl (by omega)

/-- `countsIndexFor` -/
theorem countsIndexFor_tie (s : Shape) (v : Nat) (hv : v ||| s.subBucketMask < 2 ^ 63) :
    (genHist s).countsIndexFor (v : Int) = (s.countsIndexFor v : Int) := by
  unfold Histogram.countsIndexFor Shape.countsIndexFor
  simp only [getBucketIndex_tie s v hv, getSubBucketIdx_tie, countsIndex_tie]

/-- `sizeOfEquivalentValueRange` (the `fun.Invariant.IsTrue` assertion is not translated) -/
theorem sizeOfRange_tie (s : Shape) (v : Nat) (hv : v ||| s.subBucketMask < 2 ^ 63) :
    (genHist s).sizeOfEquivalentValueRange (v : Int) = (s.sizeOfRange v : Int) := by
  unfold Histogram.sizeOfEquivalentValueRange Shape.sizeOfRange
  simp only [getBucketIndex_tie s v hv]
  exact shl_int _ _ 1 (s.unitMag + s.bucketIdx v) rfl (by simp only [genHist]; omega)

/-- `lowestEquivalentValue` -/
theorem lowestEquiv_tie (s : Shape) (v : Nat) (hv : v ||| s.subBucketMask < 2 ^ 63) :
    (genHist s).lowestEquivalentValue (v : Int) = (s.lowestEquiv v : Int) := by
  unfold Histogram.lowestEquivalentValue Shape.lowestEquiv
  simp only [getBucketIndex_tie s v hv, getSubBucketIdx_tie, valueFromIndex_tie]

/-- `nextNonEquivalentValue` -/
theorem nextNonEquiv_tie (s : Shape) (v : Nat) (hv : v ||| s.subBucketMask < 2 ^ 63) :
    (genHist s).nextNonEquivalentValue (v : Int) = (s.nextNonEquiv v : Int) := by
  unfold Histogram.nextNonEquivalentValue Shape.nextNonEquiv
  rw [lowestEquiv_tie s v hv, sizeOfRange_tie s v hv]; omega

/-- `highestEquivalentValue` -/
theorem highestEquiv_tie (s : Shape) (v : Nat) (hv : v ||| s.subBucketMask < 2 ^ 63) :
    (genHist s).highestEquivalentValue (v : Int) = (s.highestEquiv v : Int) := by
  unfold Histogram.highestEquivalentValue Shape.highestEquiv
  rw [nextNonEquiv_tie s v hv]
  have := s.sizeOfRange_pos v
  unfold Shape.nextNonEquiv; omega

/-- `medianEquivalentValue` -/
theorem medianEquiv_tie (s : Shape) (v : Nat) (hv : v ||| s.subBucketMask < 2 ^ 63) :
    (genHist s).medianEquivalentValue (v : Int) = (s.medianEquiv v : Int) := by
  unfold Histogram.medianEquivalentValue Shape.medianEquiv
  rw [lowestEquiv_tie s v hv, sizeOfRange_tie s v hv]
  rw [shr_int _ 1 (s.sizeOfRange v) 1 rfl rfl]; omega

end Hdr
end FunProofs.GenTie
