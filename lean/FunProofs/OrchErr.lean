import FunModel.Orch
import FunProofs.Err
import FunProps.C12

/-! Helper lemmas for C11: what a collector of collectors resolves to (Service.Wait results handed
    to the orchestrator's / group's collector, whose result is handed to the collector of the
    construct's own service), in terms of C12's theorems. -/

namespace FunModel.Orch
open FunModel FunModel.C12

theorem collect_eq_c12 (adds : List (Option Err)) : collect adds = FunModel.C12.collect adds := rfl

theorem collect_parts (adds : List (Option Err)) : collect adds = (adds.flatMap optParts).reverse := by
  rw [collect_eq_c12, collect_eq]

theorem collect_plain (adds : List (Option Err)) : ∀ c ∈ collect adds, c.plain = true := by
  intro c hc
  rw [collect_parts] at hc
  simp only [List.mem_reverse, List.mem_flatMap] at hc
  obtain ⟨o, _, hco⟩ := hc
  cases o with
  | none => simp [optParts] at hco
  | some e => exact Err.parts_plain e c (by simpa [optParts] using hco)

/-- the constituents of a resolved collector are its items -/
theorem optParts_resolve (adds : List (Option Err)) :
    optParts (collectorResolve (collect adds)) = collect adds := by
  unfold collectorResolve
  by_cases h : (collect adds).isEmpty = true
  · simp only [h, ↓reduceIte, optParts]
    exact (List.isEmpty_iff.mp h).symm
  · simp only [h, Bool.false_eq_true, ↓reduceIte, optParts, Err.parts]
    exact ErrList.partsAll_ofErrs_plain _ (collect_plain adds)

/-- errors.Is on a resolved collector, by constituents of what was added -/
theorem resolve_is_parts (adds : List (Option Err)) (t : Nat) :
    isOpt (collectorResolve (collect adds)) t = (adds.flatMap optParts).any (fun c => c.is t) := by
  rw [collect_eq_c12, collector_is, ← collect_eq_c12, collect_parts, List.any_reverse]

/-- … and on the collector of the construct's own service, which holds the resolved inner collector -/
theorem nested_is_parts (adds : List (Option Err)) (t : Nat) :
    isOpt (collectorResolve (collect [collectorResolve (collect adds)])) t =
      (adds.flatMap optParts).any (fun c => c.is t) := by
  rw [resolve_is_parts]
  simp only [List.flatMap_cons, List.flatMap_nil, List.append_nil]
  rw [optParts_resolve, collect_parts, List.any_reverse]

/-- the constituents of `Service.Wait()`'s result are those of what `Run` returned -/
theorem optParts_svcWait (o : Outcome) : optParts (svcWait o) = (optParts o.result).reverse := by
  unfold svcWait
  rw [optParts_resolve, collect_parts]
  simp

theorem mem_flatMap_of_mem {α β : Type} {f : α → List β} {l : List α} {a : α} {b : β}
    (ha : a ∈ l) (hb : b ∈ f a) : b ∈ l.flatMap f := List.mem_flatMap.mpr ⟨a, ha, hb⟩

/-- if the result of a unit whose function returned `e` is among the adds (as such, or as the Wait
    result of its service), errors.Is finds in the construct's Wait result whatever it finds in `e`
    (except the identity of a multi-error wrapper that `Stack.Push` opens up) -/
theorem nested_is_of_result (adds : List (Option Err)) (o : Outcome) (e : Err) (ho : o.result = some e)
    (hmem : o.result ∈ adds ∨ svcWait o ∈ adds) (t : Nat) (ht : e.is t = true) (hs : t ∉ e.shellIds) :
    isOpt (collectorResolve (collect [collectorResolve (collect adds)])) t = true := by
  rw [nested_is_parts]
  cases Err.parts_of_is t e ht with
  | inl h => exact absurd h hs
  | inr h =>
    simp only [List.any_eq_true] at h ⊢
    obtain ⟨p, hp, hpt⟩ := h
    refine ⟨p, ?_, hpt⟩
    cases hmem with
    | inl hm => exact mem_flatMap_of_mem hm (by simpa [ho, optParts] using hp)
    | inr hm => exact mem_flatMap_of_mem hm (by rw [optParts_svcWait, ho]; simpa [optParts] using hp)

/-- a unit that panicked shows as ErrRecoveredPanic -/
theorem nested_is_of_panic (adds : List (Option Err)) (o : Outcome) (p : Err) (ho : o = .panic p)
    (hmem : o.result ∈ adds ∨ svcWait o ∈ adds) :
    isOpt (collectorResolve (collect [collectorResolve (collect adds)])) idRecoveredPanic = true := by
  subst ho
  cases hr : parsePanicErr (some p) with
  | none => exact absurd hr (parsePanic_ne_nil p)
  | some r =>
    have hparts := join_join_parts _ r (by simpa [parsePanicErr] using hr)
    have hmemp : Err.leaf idRecoveredPanic ∈ r.parts := by
      have : Err.leaf idRecoveredPanic ∈ r.parts.reverse := by
        rw [hparts]; simp [ErrList.partsAll, Err.parts]
      simpa using this
    rw [nested_is_parts]
    simp only [List.any_eq_true]
    refine ⟨.leaf idRecoveredPanic, ?_, by simp [Err.is]⟩
    have hres : (Outcome.panic p).result = some r := by simpa [Outcome.result] using hr
    cases hmem with
    | inl hm => exact mem_flatMap_of_mem hm (by rw [hres]; simpa [optParts] using hmemp)
    | inr hm => exact mem_flatMap_of_mem hm (by rw [optParts_svcWait, hres]; simpa [optParts] using hmemp)

/-- the injected error of a failing unit, as the harness builds it -/
theorem Outcome.result_of_fails {o : Outcome} (h : o.fails = true) : ∃ e, o.result = some e ∧ (o = .err e ∨ o = .blockErr e) := by
  cases o <;> simp_all [Outcome.fails, Outcome.result]

end FunModel.Orch
