import FunProofs.QueueSeq

/-! The non-destructive iterator of `pubsub.Queue` (C20, safety): cursors, entry identities, links. -/
namespace FunModel.Queue
open FunModel.Conc FunModel.ConcSubj

/-! ### cursors -/

theorem find_filter_ne (l : List (Nat × Nat)) {k k' : Nat} (h : k' ≠ k) :
    (l.filter (fun p => p.1 != k)).find? (fun p => p.1 == k') = l.find? (fun p => p.1 == k') := by
  induction l with
  | nil => rfl
  | cons p rest ih =>
    by_cases hp : p.1 = k
    · have e1 : (p.1 != k) = false := by simp [hp]
      have e2 : (p.1 == k') = false := by
        simp only [hp, beq_eq_false_iff_ne, ne_eq]; exact fun e => h e.symm
      simp only [List.filter_cons, List.find?_cons, e1, e2]
      exact ih
    · have e1 : (p.1 != k) = true := by simp [hp]
      by_cases hp' : p.1 = k'
      · have e2 : (p.1 == k') = true := by simp [hp']
        simp only [List.filter_cons, List.find?_cons, e1, e2, if_true]
      · have e2 : (p.1 == k') = false := by simp [hp']
        simp only [List.filter_cons, List.find?_cons, e1, e2, if_true, ih]

@[simp] theorem cursor_setCursor_same (s : St) (k c : Nat) : (s.setCursor k c).cursor k = c := by
  simp [St.cursor, St.setCursor]

theorem cursor_setCursor_ne (s : St) {k k' : Nat} (c : Nat) (h : k' ≠ k) : (s.setCursor k c).cursor k' = s.cursor k' := by
  have : ¬ k = k' := fun e => h e.symm
  simp [St.cursor, St.setCursor, this, find_filter_ne _ h]

theorem cursor_mem (s : St) (k : Nat) : s.cursor k = 0 ∨ (k, s.cursor k) ∈ s.cursors := by
  simp only [St.cursor]
  cases hf : s.cursors.find? (fun p => p.1 == k) with
  | none => left; rfl
  | some p =>
    right
    have h1 := List.mem_of_find?_eq_some hf
    have h2 := List.find?_some hf
    simp only [beq_iff_eq] at h2
    simp only [Option.map_some, Option.getD_some]
    rw [← h2]; exact h1

/-- the cursor the iterator continues from: the stored one, or the sentinel if the entry it yielded last
    was removed while it was the newest one -/
def St.effCursor (s : St) (k : Nat) : Nat :=
  if s.cursor k != 0 && (s.linkOf (s.cursor k)).isNone && s.cursor k != s.back then 0 else s.cursor k

/-- the entry the next call of iterator `k` yields, if any -/
def St.nextEntry (s : St) (k : Nat) : Option Nat := s.linkOf (s.effCursor k)

theorem nextLoop_yield (s : St) (t k : Nat) (c : Bool) {n : Nat} (h : s.nextEntry k = some n) :
    (nextLoop s t k c).fin = .ret (toString (s.valOf n)) ∧ (nextLoop s t k c).st.cursors = (s.setCursor k n).cursors := by
  simp only [St.nextEntry, St.effCursor] at h
  simp only [nextLoop, h]
  exact ⟨trivial, trivial⟩

theorem nextLoop_noyield (s : St) (t k : Nat) (c : Bool) (h : s.nextEntry k = none) :
    (nextLoop s t k c).st.cursors = (s.setCursor k (s.effCursor k)).cursors ∧
    (((nextLoop s t k c).fin = .ret "eof" ∧ s.closed = true) ∨
     ((nextLoop s t k c).fin = .ret "ctx" ∧ s.closed = false ∧ c = true) ∨
     ((nextLoop s t k c).fin = .park 1 ∧ s.closed = false ∧ c = false)) := by
  simp only [St.nextEntry, St.effCursor] at h
  simp only [nextLoop, h]
  have hcl : (s.setCursor k (s.effCursor k)).closed = s.closed := rfl
  simp only [St.effCursor] at hcl
  by_cases h1 : s.closed = true
  · simp [St.setCursor, h1, St.effCursor]
  · by_cases h2 : c = true
    · simp [St.setCursor, h1, h2, St.effCursor]
    · by_cases h3 : (s.setCursor k (s.effCursor k)).waited.contains t = true
      · simp only [St.effCursor] at h3
        simp [St.setCursor, h1, h2, St.effCursor] at h3 ⊢
        simp [h3]
      · simp only [St.effCursor] at h3
        simp [St.setCursor, h1, h2, St.effCursor] at h3 ⊢
        simp [h3]


/-! ### what queue operations do to the entry structure -/

/-- the effect of one segment of a queue operation on entries, links and cursors -/
inductive QEffect (s : St) (op : Op) (o : SegOut St) : Prop where
  | same (hq : o.st.q = s.q) (hlinks : o.st.links = s.links) (hvals : o.st.vals = s.vals)
      (hid : o.st.nextId = s.nextId) (hcur : o.st.cursors = s.cursors)
      (hnot : ∀ v, op = .add v ∨ op = .badd v → o.fin ≠ .ret "ok")
  | added (v : Int) (hop : op = .add v ∨ op = .badd v) (hfin : o.fin = .ret "ok")
      (hq : o.st.q = s.q ++ [(s.nextId, v)]) (hvals : o.st.vals = (s.nextId, v) :: s.vals)
      (hid : o.st.nextId = s.nextId + 1)
      (hlinks : o.st.links = if s.back = 0 then s.links else (s.back, s.nextId) :: s.links)
      (hcur : o.st.cursors = s.cursors)
  | popped (p : Nat × Int) (rest : List (Nat × Int)) (hop : op = .remove ∨ op = .wait ∨ op = .recv)
      (hs : s.q = p :: rest) (hq : o.st.q = rest) (hfin : o.fin = .ret (toString p.2))
      (hlinks : o.st.links = s.links) (hvals : o.st.vals = s.vals) (hid : o.st.nextId = s.nextId)
      (hcur : o.st.cursors = s.cursors)

theorem doAdd_effect (s : St) (v : Int) (sigs : List Sig) (op : Op) (hop : op = .add v ∨ op = .badd v) :
    QEffect s op { st := (doAdd s v).1, sigs := sigs, fin := .ret (doAdd s v).2.1 } := by
  unfold doAdd
  by_cases hc : s.closed = true
  · simp only [hc, if_true]
    exact QEffect.same rfl rfl rfl rfl rfl (fun _ _ h => by simp at h)
  · simp only [hc, if_false, Bool.false_eq_true]
    cases hadd : s.tracker.add with
    | mk tr r =>
      cases r with
      | ok => exact QEffect.added v hop rfl rfl rfl rfl rfl rfl
      | full => exact QEffect.same rfl rfl rfl rfl rfl (fun _ _ h => by simp at h)
      | noCredit => exact QEffect.same rfl rfl rfl rfl rfl (fun _ _ h => by simp at h)

theorem popFront_effect (s : St) (sigs : List Sig) (op : Op) (hop : op = .remove ∨ op = .wait ∨ op = .recv)
    (hne : s.q ≠ []) :
    QEffect s op { st := (popFront s).1, sigs := sigs, fin := .ret (toString (popFront s).2.1) } := by
  cases hq : s.q with
  | nil => exact absurd hq hne
  | cons p rest =>
    obtain ⟨e, v⟩ := p
    simp only [popFront, hq]
    exact QEffect.popped (e, v) rest hop hq rfl rfl rfl rfl rfl rfl

theorem QEffect.of_same (s : St) (op : Op) (sigs : List Sig) (fin : SegEnd)
    (hnot : ∀ v, op = .add v ∨ op = .badd v → fin ≠ .ret "ok") : QEffect s op { st := s, sigs := sigs, fin := fin } :=
  QEffect.same rfl rfl rfl rfl rfl hnot

theorem waitLoop_effect {s : St} (h : SInv s) (op : Op) (hop : op = .wait ∨ op = .recv) (c : Bool) (sigs : List Sig) :
    QEffect s op (waitLoop s c sigs) := by
  have hop' : op = .remove ∨ op = .wait ∨ op = .recv := Or.inr hop
  have hna : ∀ v, ¬ (op = .add v ∨ op = .badd v) := by
    intro v hv; rcases hop with rfl | rfl <;> rcases hv with hv | hv <;> cases hv
  unfold waitLoop
  by_cases hl : (s.tracker.len == 0) = true
  · simp only [hl, if_true]
    repeat' split
    all_goals exact QEffect.of_same _ _ _ _ (fun v hv => absurd hv (hna v))
  · simp only [hl, if_false, Bool.false_eq_true]
    exact popFront_effect s _ op hop' (fun e => hl ((len_zero_iff h).2 e))

theorem baddLoop_effect (s : St) (v : Int) (c : Bool) (sigs : List Sig) : QEffect s (.badd v) (baddLoop s v c sigs) := by
  unfold baddLoop
  by_cases hr : s.tracker.hasRoom = true
  · simp only [hr, Bool.not_true, if_false, Bool.false_eq_true]
    exact doAdd_effect s v _ _ (Or.inr rfl)
  · simp only [hr, Bool.not_false, if_true]
    repeat' split
    all_goals exact QEffect.of_same _ _ _ _ (fun _ _ h => by simp at h)

theorem seg_effect {s : St} (h : SInv s) {t : Nat} {op : Op} {first c : Bool} {o : SegOut St}
    (hs : IsSeg s t op first c o) (hn : op.isNext = false) : QEffect s op o := by
  rw [hs.out]
  cases first with
  | true =>
    simp only [segOut, subject, if_true]
    cases op with
    | add v => exact doAdd_effect s v _ _ (Or.inl rfl)
    | badd v =>
      simp only [start]
      by_cases hc : s.closed = true
      · simp only [hc, if_true]
        exact QEffect.of_same _ _ _ _ (fun _ _ h => by simp at h)
      · by_cases hr : s.tracker.hasRoom = true
        · simp only [hc, hr, if_true, if_false, Bool.false_eq_true]
          exact doAdd_effect s v _ _ (Or.inr rfl)
        · simp only [hc, hr, if_false, Bool.false_eq_true]
          exact baddLoop_effect s v false _
    | remove =>
      simp only [start]
      by_cases hl : (s.tracker.len == 0) = true
      · simp only [hl, if_true]
        exact QEffect.of_same _ _ _ _ (fun _ hv => by rcases hv with hv | hv <;> cases hv)
      · simp only [hl, if_false, Bool.false_eq_true]
        exact popFront_effect s _ _ (Or.inl rfl) (fun e => hl ((len_zero_iff h).2 e))
    | wait => exact waitLoop_effect h .wait (Or.inl rfl) false _
    | recv =>
      simp only [start]
      by_cases hl : (s.tracker.len == 0) = true
      · simp only [hl, if_true]
        exact waitLoop_effect h .recv (Or.inr rfl) false _
      · simp only [hl, if_false, Bool.false_eq_true]
        exact popFront_effect s _ _ (Or.inr (Or.inr rfl)) (fun e => hl ((len_zero_iff h).2 e))
    | len => exact QEffect.of_same _ _ _ _ (fun _ hv => by rcases hv with hv | hv <;> cases hv)
    | close => exact QEffect.same rfl rfl rfl rfl rfl (fun _ hv => by rcases hv with hv | hv <;> cases hv)
    | next k => simp [Op.isNext] at hn
  | false =>
    have hb := hs.blocking rfl
    simp only [segOut, subject, Bool.false_eq_true, if_false]
    cases op with
    | badd v => exact baddLoop_effect s v c _
    | wait => exact waitLoop_effect h .wait (Or.inl rfl) c _
    | recv => exact waitLoop_effect h .recv (Or.inr rfl) c _
    | next k => simp [Op.isNext] at hn
    | add v => simp [Op.blocking] at hb
    | remove => simp [Op.blocking] at hb
    | len => simp [Op.blocking] at hb
    | close => simp [Op.blocking] at hb


/-! ### the entry-structure invariant -/

theorem linkOf_mem {s : St} {c n : Nat} (h : s.linkOf c = some n) :
    (c = 0 ∧ ∃ v rest, s.q = (n, v) :: rest) ∨ (c ≠ 0 ∧ (c, n) ∈ s.links) := by
  simp only [St.linkOf] at h
  by_cases hc : c = 0
  · left
    simp only [hc, if_true] at h
    cases hq : s.q with
    | nil => simp [hq] at h
    | cons p rest =>
      simp only [hq, List.head?_cons, Option.map_some, Option.some.injEq] at h
      exact ⟨hc, p.2, rest, by rw [← h]⟩
  · right
    simp only [hc, if_false] at h
    cases hf : s.links.find? (fun p => p.1 == c) with
    | none => simp [hf] at h
    | some p =>
      simp only [hf, Option.map_some, Option.some.injEq] at h
      have h1 := List.mem_of_find?_eq_some hf
      have h2 := List.find?_some hf
      simp only [beq_iff_eq] at h2
      refine ⟨hc, ?_⟩
      rw [← h, ← h2]; exact h1

theorem back_cases (s : St) : (s.q = [] ∧ s.back = 0) ∨ (∃ v, (s.back, v) ∈ s.q ∧ s.q.getLast? = some (s.back, v)) := by
  simp only [St.back]
  cases hl : s.q.getLast? with
  | none => left; exact ⟨List.getLast?_eq_none_iff.1 hl, rfl⟩
  | some p => right; exact ⟨p.2, List.mem_of_getLast? hl, rfl⟩

theorem valOf_mem {s : St} {e : Nat} {v : Int} (h : (e, v) ∈ s.vals) : (e, s.valOf e) ∈ s.vals := by
  simp only [St.valOf]
  cases hf : s.vals.find? (fun p => p.1 == e) with
  | none =>
    have := List.find?_eq_none.1 hf (e, v) h
    simp at this
  | some p =>
    have h1 := List.mem_of_find?_eq_some hf
    have h2 := List.find?_some hf
    simp only [beq_iff_eq] at h2
    simp only [Option.map_some, Option.getD_some]
    rw [← h2]; exact h1

structure IInv (s : St) : Prop where
  /-- linked entries have identities below `nextId` and are recorded in `vals` -/
  qids : ∀ p ∈ s.q, 1 ≤ p.1 ∧ p.1 < s.nextId ∧ p ∈ s.vals
  /-- the queue is ordered by identity -/
  qsorted : (s.q.map (·.1)).Pairwise (· < ·)
  vids : ∀ p ∈ s.vals, 1 ≤ p.1 ∧ p.1 < s.nextId
  /-- a link points from an entry to a younger entry that exists -/
  links : ∀ p ∈ s.links, 1 ≤ p.1 ∧ p.1 < p.2 ∧ ∃ v, (p.2, v) ∈ s.vals
  /-- a cursor is the sentinel or an entry that exists -/
  curs : ∀ p ∈ s.cursors, p.2 = 0 ∨ ∃ v, (p.2, v) ∈ s.vals
  /-- an entry without a link is the newest linked one, or everything linked is younger -/
  nolink : ∀ e, 1 ≤ e → e < s.nextId → s.linkOf e = none → e = s.back ∨ ∀ p ∈ s.q, e < p.1
  idpos : 1 ≤ s.nextId

theorem IInv.init {q0 : St} (h : InitQ q0) : IInv q0 := by
  obtain ⟨h1, _, h3, h4, h5, h6, _⟩ := h.empty
  refine ⟨?_, ?_, ?_, ?_, ?_, ?_, by rw [h5]; exact Nat.le_refl 1⟩
  · intro p hp; rw [h1] at hp; cases hp
  · rw [h1]; exact List.Pairwise.nil
  · intro p hp; rw [h4] at hp; cases hp
  · intro p hp; rw [h3] at hp; cases hp
  · intro p hp; rw [h6] at hp; cases hp
  · intro e he1 he2; rw [h5] at he2; omega

theorem linkOf_congr {s s' : St} (hq : s'.q = s.q) (hl : s'.links = s.links) (e : Nat) : s'.linkOf e = s.linkOf e := by
  simp [St.linkOf, hq, hl]

theorem back_congr {s s' : St} (hq : s'.q = s.q) : s'.back = s.back := by simp [St.back, hq]

theorem IInv.same {s s' : St} (h : IInv s) (hq : s'.q = s.q) (hl : s'.links = s.links) (hv : s'.vals = s.vals)
    (hid : s'.nextId = s.nextId) (hc : s'.cursors = s.cursors) : IInv s' := by
  refine ⟨?_, ?_, ?_, ?_, ?_, ?_, by rw [hid]; exact h.idpos⟩
  · rw [hq, hv, hid]; exact h.qids
  · rw [hq]; exact h.qsorted
  · rw [hv, hid]; exact h.vids
  · rw [hl, hv]; exact h.links
  · rw [hc, hv]; exact h.curs
  · intro e h1 h2 h3
    rw [hid] at h2; rw [linkOf_congr hq hl] at h3; rw [back_congr hq, hq]
    exact h.nolink e h1 h2 h3

theorem IInv.back_lt {s : St} (h : IInv s) : s.back < s.nextId ∧ (s.back = 0 → s.q = []) := by
  rcases back_cases s with ⟨h1, h2⟩ | ⟨v, h1, _⟩
  · exact ⟨by rw [h2]; exact h.idpos, fun _ => h1⟩
  · obtain ⟨a, b, _⟩ := h.qids _ h1
    exact ⟨b, fun e => by simp only at a; omega⟩


theorem linkOf_pos (s : St) {e : Nat} (he : e ≠ 0) : s.linkOf e = (s.links.find? (fun p => p.1 == e)).map (·.2) := by
  simp [St.linkOf, he]

theorem IInv.added {s s' : St} (h : IInv s) {v : Int} (hq : s'.q = s.q ++ [(s.nextId, v)])
    (hv : s'.vals = (s.nextId, v) :: s.vals) (hid : s'.nextId = s.nextId + 1)
    (hl : s'.links = if s.back = 0 then s.links else (s.back, s.nextId) :: s.links)
    (hc : s'.cursors = s.cursors) : IInv s' := by
  have hpos := h.idpos
  have hback : s'.back = s.nextId := by simp [St.back, hq]
  refine ⟨?_, ?_, ?_, ?_, ?_, ?_, by rw [hid]; omega⟩
  · intro p hp
    rw [hq] at hp; rw [hid, hv]
    simp only [List.mem_append, List.mem_singleton] at hp
    rcases hp with hp | rfl
    · obtain ⟨a, b, c⟩ := h.qids p hp
      exact ⟨a, by omega, List.mem_cons_of_mem _ c⟩
    · exact ⟨hpos, by simp, List.mem_cons_self⟩
  · rw [hq, List.map_append, List.pairwise_append]
    refine ⟨h.qsorted, by simp, ?_⟩
    intro a ha b hb
    simp only [List.map_cons, List.map_nil, List.mem_singleton] at hb
    simp only [List.mem_map] at ha
    obtain ⟨p, hp, rfl⟩ := ha
    rw [hb]; exact (h.qids p hp).2.1
  · intro p hp
    rw [hv] at hp; rw [hid]
    simp only [List.mem_cons] at hp
    rcases hp with rfl | hp
    · exact ⟨hpos, by simp⟩
    · obtain ⟨a, b⟩ := h.vids p hp; exact ⟨a, by omega⟩
  · intro p hp
    rw [hl] at hp; rw [hv]
    have hold : p ∈ s.links → 1 ≤ p.1 ∧ p.1 < p.2 ∧ ∃ v', (p.2, v') ∈ (s.nextId, v) :: s.vals := by
      intro hp
      obtain ⟨a, b, w, c⟩ := h.links p hp
      exact ⟨a, b, w, List.mem_cons_of_mem _ c⟩
    by_cases hb : s.back = 0
    · simp only [hb, if_true] at hp; exact hold hp
    · simp only [hb, if_false, List.mem_cons] at hp
      rcases hp with rfl | hp
      · exact ⟨by simp only; omega, h.back_lt.1, v, List.mem_cons_self⟩
      · exact hold hp
  · intro p hp
    rw [hc] at hp; rw [hv]
    rcases h.curs p hp with a | ⟨w, a⟩
    · exact Or.inl a
    · exact Or.inr ⟨w, List.mem_cons_of_mem _ a⟩
  · intro e he1 he2 he3
    rw [hback]
    by_cases hen : e = s.nextId
    · exact Or.inl hen
    · right
      have he0 : e ≠ 0 := by omega
      rw [linkOf_pos _ he0, hl] at he3
      have hold : s.linkOf e = none → e ≠ s.back → ∀ p ∈ s'.q, e < p.1 := by
        intro hn hne p hp
        rw [hq] at hp
        simp only [List.mem_append, List.mem_singleton] at hp
        rcases hp with hp | rfl
        · rcases h.nolink e he1 (by omega) hn with hb | hb
          · exact absurd hb hne
          · exact hb p hp
        · simp only; omega
      by_cases hb : s.back = 0
      · simp only [hb, if_true] at he3
        exact hold (by rw [linkOf_pos _ he0]; exact he3) (by omega)
      · simp only [hb, if_false, List.find?_cons] at he3
        by_cases hbe : s.back = e
        · simp [hbe] at he3
        · have : (s.back == e) = false := by simp [hbe]
          simp only [this] at he3
          exact hold (by rw [linkOf_pos _ he0]; exact he3) (fun e' => hbe e'.symm)

theorem IInv.popped {s s' : St} (h : IInv s) {p : Nat × Int} {rest : List (Nat × Int)} (hs : s.q = p :: rest)
    (hq : s'.q = rest) (hl : s'.links = s.links) (hv : s'.vals = s.vals) (hid : s'.nextId = s.nextId)
    (hc : s'.cursors = s.cursors) : IInv s' := by
  refine ⟨?_, ?_, ?_, ?_, ?_, ?_, by rw [hid]; exact h.idpos⟩
  · intro x hx
    rw [hq] at hx; rw [hid, hv]
    exact h.qids x (by rw [hs]; exact List.mem_cons_of_mem _ hx)
  · have := h.qsorted
    rw [hs, List.map_cons, List.pairwise_cons] at this
    rw [hq]; exact this.2
  · rw [hv, hid]; exact h.vids
  · rw [hl, hv]; exact h.links
  · rw [hc, hv]; exact h.curs
  · intro e he1 he2 he3
    have he0 : e ≠ 0 := by omega
    rw [linkOf_pos _ he0, hl, ← linkOf_pos _ he0] at he3
    rw [hid] at he2
    rcases h.nolink e he1 he2 he3 with hb | hb
    · cases hr : rest with
      | nil => right; intro x hx; rw [hq, hr] at hx; cases hx
      | cons y ys =>
        left
        rw [hb]
        simp [St.back, hq, hs, hr]
    · right
      intro x hx
      rw [hq] at hx
      exact hb x (by rw [hs]; exact List.mem_cons_of_mem _ hx)

theorem IInv.nextEntry_exists {s : St} (h : IInv s) {k n : Nat} (hn : s.nextEntry k = some n) :
    1 ≤ n ∧ ∃ v, (n, v) ∈ s.vals := by
  rcases linkOf_mem hn with ⟨_, v, rest, hq⟩ | ⟨_, hl⟩
  · obtain ⟨a, _, c⟩ := h.qids (n, v) (by rw [hq]; exact List.mem_cons_self)
    exact ⟨a, v, c⟩
  · obtain ⟨a, b, c⟩ := h.links _ hl
    exact ⟨by simp only at a b; omega, c⟩

theorem IInv.cursor_exists {s : St} (h : IInv s) (k : Nat) : s.cursor k = 0 ∨ ∃ v, (s.cursor k, v) ∈ s.vals := by
  rcases cursor_mem s k with h0 | hm
  · exact Or.inl h0
  · exact h.curs _ hm

theorem IInv.setCursor {s s' : St} (h : IInv s) {k n : Nat} (hq : s'.q = s.q) (hl : s'.links = s.links)
    (hv : s'.vals = s.vals) (hid : s'.nextId = s.nextId) (hc : s'.cursors = (s.setCursor k n).cursors)
    (hn : n = 0 ∨ ∃ v, (n, v) ∈ s.vals) : IInv s' := by
  have h' : IInv { s with cursors := (s.setCursor k n).cursors } := by
    refine ⟨h.qids, h.qsorted, h.vids, h.links, ?_, h.nolink, h.idpos⟩
    intro p hp
    simp only [St.setCursor, List.mem_cons, List.mem_filter] at hp
    rcases hp with rfl | ⟨hp, _⟩
    · exact hn
    · exact h.curs p hp
  exact h'.same hq hl hv hid hc

/-- iterator segments keep the invariant -/
theorem IInv.next {s : St} (h : IInv s) {t k : Nat} {first c : Bool} {o : SegOut St}
    (hs : IsSeg s t (.next k) first c o) : IInv o.st := by
  obtain ⟨_, _, f3, f4, f5, f6⟩ := next_frame s t k c o hs.next_cases
  rw [hs.next_eq] at f3 f4 f5 f6 ⊢
  cases hn : s.nextEntry k with
  | some n =>
    obtain ⟨_, hcur⟩ := nextLoop_yield s t k c hn
    exact h.setCursor f3 f4 f5 f6 hcur (Or.inr (h.nextEntry_exists hn).2)
  | none =>
    obtain ⟨hcur, _⟩ := nextLoop_noyield s t k c hn
    refine h.setCursor f3 f4 f5 f6 hcur ?_
    simp only [St.effCursor]
    split
    · exact Or.inl rfl
    · exact h.cursor_exists k

/-- every segment keeps the invariant -/
theorem IInv.seg {s : St} (hS : SInv s) (h : IInv s) {t : Nat} {op : Op} {first c : Bool} {o : SegOut St}
    (hs : IsSeg s t op first c o) : IInv o.st := by
  by_cases hn : op.isNext = true
  · obtain ⟨k, rfl⟩ : ∃ k, op = .next k := by cases op <;> simp [Op.isNext] at hn; exact ⟨_, rfl⟩
    exact h.next hs
  · cases seg_effect hS hs (by simpa using hn) with
    | same hq hl hv hid hc _ => exact h.same hq hl hv hid hc
    | added v _ _ hq hv hid hl hc => exact h.added hq hv hid hl hc
    | popped p rest _ hs' hq _ hl hv hid hc => exact h.popped hs' hq hl hv hid hc


/-! ### what the log says about iterators and adds -/

/-- the entry (identity, item) that iterator `k` yields in this event: a `next k` segment that finds a
    next entry returns it (`next_result`) -/
def yieldOf (k : Nat) : Ev St Op → Option (Nat × Int)
  | .seg _ _ (.next k') _ _ pre _ => if k' = k then (pre.nextEntry k).map (fun n => (n, pre.valOf n)) else none
  | _ => none

/-- everything iterator `k` has yielded, in the order of the log -/
def yields (k : Nat) (log : List (Ev St Op)) : List (Nat × Int) := log.filterMap (yieldOf k)

/-- the item a successful `Add`/`BlockingAdd` segment added -/
def addedOf : Ev St Op → Option Int
  | .seg _ _ (.add v) _ _ _ out => if out.fin = .ret "ok" then some v else none
  | .seg _ _ (.badd v) _ _ _ out => if out.fin = .ret "ok" then some v else none
  | _ => none

/-- all items ever added, in the order their adds took effect -/
def added (log : List (Ev St Op)) : List Int := log.filterMap addedOf

/-- a `Remove`/`Wait`/`Receive` segment that returns an item -/
def returnsItem : Ev St Op → Prop
  | .seg _ _ op _ _ _ out => (op = .remove ∨ op = .wait ∨ op = .recv) ∧ ∃ v : Int, out.fin = .ret (toString v)
  | .env _ => False

theorem filterMap_snoc {α β : Type} (f : α → Option β) (l : List α) (a : α) :
    (l ++ [a]).filterMap f = l.filterMap f ++ (f a).toList := by
  simp only [List.filterMap_append]
  cases h : f a <;> simp [List.filterMap, h]

theorem cursor_congr {s s' : St} (h : s'.cursors = s.cursors) (k : Nat) : s'.cursor k = s.cursor k := by
  simp [St.cursor, h]

/-- result of an iterator segment -/
theorem next_result {s : St} (h : IInv s) {t k : Nat} {first c : Bool} {o : SegOut St}
    (hs : IsSeg s t (.next k) first c o) :
    (∀ n, s.nextEntry k = some n → o.fin = .ret (toString (s.valOf n)) ∧ o.st.cursor k = n ∧ 1 ≤ n ∧
        (n, s.valOf n) ∈ s.vals) ∧
    (s.nextEntry k = none → o.st.cursor k = s.effCursor k ∧
      ((o.fin = .ret "eof" ∧ s.closed = true) ∨ (o.fin = .ret "ctx" ∧ s.closed = false ∧ c = true ∧ first = false) ∨
       (o.fin = .park 1 ∧ s.closed = false ∧ c = false))) := by
  rw [hs.next_eq]
  constructor
  · intro n hn
    obtain ⟨h1, h2⟩ := nextLoop_yield s t k c hn
    obtain ⟨h3, v, h4⟩ := h.nextEntry_exists hn
    exact ⟨h1, by rw [cursor_congr h2]; simp, h3, valOf_mem h4⟩
  · intro hn
    obtain ⟨h1, h2⟩ := nextLoop_noyield s t k c hn
    refine ⟨by rw [cursor_congr h1]; simp, ?_⟩
    rcases h2 with h2 | ⟨h2, h3, h4⟩ | h2
    · exact Or.inl h2
    · refine Or.inr (Or.inl ⟨h2, h3, h4, ?_⟩)
      cases first with
      | false => rfl
      | true => have := hs.live rfl; rw [this] at h4; cases h4
    · exact Or.inr (Or.inr h2)

/-- a yielded value is never mistaken for "eof"/"ctx" -/
theorem next_yield_iff {s : St} (h : IInv s) {t k : Nat} {first c : Bool} {o : SegOut St}
    (hs : IsSeg s t (.next k) first c o) {r : String} (hr : o.fin = .ret r) :
    (r ≠ "eof" ∧ r ≠ "ctx") ↔ ∃ n, s.nextEntry k = some n := by
  obtain ⟨h1, h2⟩ := next_result h hs
  cases hn : s.nextEntry k with
  | some n =>
    have := (h1 n hn).1
    rw [hr] at this
    simp only [SegEnd.ret.injEq] at this
    simp only [this, ne_eq, Option.some.injEq, exists_eq', iff_true]
    exact ⟨int_ne_eof _, int_ne_ctx _⟩
  | none =>
    simp only [reduceCtorEq, exists_false, iff_false, ne_eq]
    rcases (h2 hn).2 with ⟨e, _⟩ | ⟨e, _⟩ | ⟨e, _⟩
    · rw [hr] at e; simp only [SegEnd.ret.injEq] at e; exact fun hh => hh.1 e
    · rw [hr] at e; simp only [SegEnd.ret.injEq] at e; exact fun hh => hh.2 e
    · rw [hr] at e; cases e


/-! ### the yields of one iterator are strictly increasing in entry identity -/

structure YInv (k : Nat) (log : List (Ev St Op)) (s : St) (y : Nat) : Prop where
  bound : ∀ a ∈ (yields k log).map (·.1), a ≤ y
  cur : s.cursor k ≠ 0 → s.cursor k = y
  sent : s.cursor k = 0 → ∀ p ∈ s.q, y < p.1
  lt : y < s.nextId
  incr : ((yields k log).map (·.1)).Pairwise (· < ·)

theorem yields_snoc_none (k : Nat) (log : List (Ev St Op)) (ev : Ev St Op) (h : yieldOf k ev = none) :
    yields k (log ++ [ev]) = yields k log := by
  simp [yields, h]

theorem YInv.seg {s : St} (hS : SInv s) (hI : IInv s) {t pc : Nat} {op : Op} {first c : Bool} {o : SegOut St}
    (hs : IsSeg s t op first c o) {k : Nat} {log : List (Ev St Op)} {y : Nat} (hy : YInv k log s y) :
    ∃ y', YInv k (log ++ [.seg t pc op first c s o]) o.st y' := by
  by_cases hn : op.isNext = true
  · obtain ⟨k', rfl⟩ : ∃ k', op = .next k' := by cases op <;> simp [Op.isNext] at hn; exact ⟨_, rfl⟩
    obtain ⟨_, _, f3, _, _, f6⟩ := next_frame s t k' c o hs.next_cases
    by_cases hk : k' = k
    · subst hk
      obtain ⟨r1, r2⟩ := next_result hI hs
      cases hne : s.nextEntry k' with
      | some n =>
        obtain ⟨_, e2, e3, e4⟩ := r1 n hne
        have hyl : yields k' (log ++ [.seg t pc (.next k') first c s o]) = yields k' log ++ [(n, s.valOf n)] := by
          simp [yields, yieldOf, hne]
        -- the new entry is younger than everything yielded before
        have hlt : y < n := by
          rcases linkOf_mem hne with ⟨h0, v, rest, hq⟩ | ⟨h0, hl⟩
          · -- continuing from the sentinel: `n` is the oldest linked entry
            have hmem : (n, v) ∈ s.q := by rw [hq]; exact List.mem_cons_self
            simp only [St.effCursor] at h0
            by_cases hc0 : s.cursor k' = 0
            · exact hy.sent hc0 _ hmem
            · have hcy := hy.cur hc0
              split at h0
              · rename_i hcond
                simp only [Bool.and_eq_true, bne_iff_ne, ne_eq, Option.isNone_iff_eq_none] at hcond
                rcases hI.nolink (s.cursor k') (by omega) (by rw [hcy]; exact hy.lt) hcond.1.2 with hb | hb
                · exact absurd hb hcond.2
                · rw [← hcy]; exact hb _ hmem
              · exact absurd h0 hc0
          · have hlt' := (hI.links _ hl).2.1
            simp only at hlt'
            by_cases hcond : (s.cursor k' != 0 && (s.linkOf (s.cursor k')).isNone && s.cursor k' != s.back) = true
            · simp [St.effCursor, hcond] at h0
            · have he : s.effCursor k' = s.cursor k' := by simp only [St.effCursor, hcond]; rfl
              rw [he] at h0 hlt'
              rw [← hy.cur h0]; exact hlt'
        refine ⟨n, ?_, ?_, ?_, ?_, ?_⟩
        · intro a ha
          rw [hyl, List.map_append, List.mem_append] at ha
          rcases ha with ha | ha
          · have := hy.bound a ha; omega
          · simp only [List.map_cons, List.map_nil, List.mem_singleton] at ha; omega
        · intro _; exact e2
        · intro h0; rw [e2] at h0; omega
        · rw [f6]; exact (hI.vids _ e4).2
        · rw [hyl, List.map_append, List.pairwise_append]
          refine ⟨hy.incr, by simp, ?_⟩
          intro a ha b hb
          simp only [List.map_cons, List.map_nil, List.mem_singleton] at hb
          have := hy.bound a ha; omega
      | none =>
        obtain ⟨e1, _⟩ := r2 hne
        have hyl : yields k' (log ++ [.seg t pc (.next k') first c s o]) = yields k' log :=
          yields_snoc_none _ _ _ (by simp [yieldOf, hne])
        refine ⟨y, by rw [hyl]; exact hy.bound, ?_, ?_, by rw [f6]; exact hy.lt, by rw [hyl]; exact hy.incr⟩
        · intro h0
          rw [e1] at h0 ⊢
          simp only [St.effCursor] at h0 ⊢
          split
          · rename_i hcond; simp [hcond] at h0
          · rename_i hcond; simp only [hcond] at h0
            exact hy.cur (by simpa using h0)
        · intro h0
          rw [e1] at h0
          rw [f3]
          simp only [St.effCursor] at h0
          split at h0
          · rename_i hcond
            simp only [Bool.and_eq_true, bne_iff_ne, ne_eq, Option.isNone_iff_eq_none] at hcond
            have hcy := hy.cur hcond.1.1
            rcases hI.nolink (s.cursor k') (by omega) (by rw [hcy]; exact hy.lt) hcond.1.2 with hb | hb
            · exact absurd hb hcond.2
            · rw [← hcy]; exact hb
          · exact hy.sent h0
    · -- another iterator: cursor `k` and the queue are untouched
      have hyl : yields k (log ++ [.seg t pc (.next k') first c s o]) = yields k log :=
        yields_snoc_none _ _ _ (by simp [yieldOf, hk])
      have hcur : o.st.cursor k = s.cursor k := by
        rw [hs.next_eq]
        cases hne : s.nextEntry k' with
        | some n => rw [cursor_congr (nextLoop_yield s t k' c hne).2]; exact cursor_setCursor_ne s n (fun e => hk e.symm)
        | none => rw [cursor_congr (nextLoop_noyield s t k' c hne).1]; exact cursor_setCursor_ne s _ (fun e => hk e.symm)
      exact ⟨y, by rw [hyl]; exact hy.bound, by rw [hcur]; exact hy.cur, by rw [hcur, f3]; exact hy.sent,
        by rw [f6]; exact hy.lt, by rw [hyl]; exact hy.incr⟩
  · have hn' : op.isNext = false := by simpa using hn
    have hyl : yields k (log ++ [.seg t pc op first c s o]) = yields k log :=
      yields_snoc_none _ _ _ (by cases op <;> simp [yieldOf] <;> simp [Op.isNext] at hn')
    refine ⟨y, by rw [hyl]; exact hy.bound, ?_, ?_, ?_, by rw [hyl]; exact hy.incr⟩
    all_goals
      cases seg_effect hS hs hn' with
      | same hq hl hv hid hc _ => simp only [cursor_congr hc, hq, hid]; first | exact hy.cur | exact hy.sent | exact hy.lt
      | added v _ _ hq hv hid hl hc =>
        simp only [cursor_congr hc, hq, hid]
        first
          | exact hy.cur
          | (intro h0 p hp
             simp only [List.mem_append, List.mem_singleton] at hp
             rcases hp with hp | rfl
             · exact hy.sent h0 p hp
             · exact hy.lt)
          | exact Nat.lt_succ_of_lt hy.lt
      | popped p rest _ hs' hq _ hl hv hid hc =>
        simp only [cursor_congr hc, hq, hid]
        first
          | exact hy.cur
          | (intro h0 x hx; exact hy.sent h0 x (by rw [hs']; exact List.mem_cons_of_mem _ hx))
          | exact hy.lt


/-! ### the run invariant (removals allowed) -/

def EvOK' : Ev St Op → Prop
  | .seg t _ op first c pre out => SInv pre ∧ IInv pre ∧ IsSeg pre t op first c out
  | .env _ => True

structure IterInv (log : List (Ev St Op)) (s : St) : Prop where
  sinv : SInv s
  iinv : IInv s
  yinv : ∀ k, ∃ y, YInv k log s y
  /-- `vals` records exactly the items of the successful adds, newest first -/
  addedEq : added log = s.vals.reverse.map (·.2)
  evs : ∀ ev ∈ log, EvOK' ev
  /-- entries are never forgotten: what existed when a segment ran still exists -/
  valsMono : ∀ t pc op first c pre out, Ev.seg t pc op first c pre out ∈ log → ∀ x ∈ pre.vals, x ∈ s.vals

theorem vals_mono_seg {s : St} (hS : SInv s) {t : Nat} {op : Op} {first c : Bool} {o : SegOut St}
    (hs : IsSeg s t op first c o) : ∀ x ∈ s.vals, x ∈ o.st.vals := by
  intro x hx
  by_cases hn : op.isNext = true
  · obtain ⟨k, rfl⟩ : ∃ k, op = .next k := by cases op <;> simp [Op.isNext] at hn; exact ⟨_, rfl⟩
    obtain ⟨_, _, _, _, f5, _⟩ := next_frame s t k c o hs.next_cases
    rw [f5]; exact hx
  · cases seg_effect hS hs (by simpa using hn) with
    | same hq hl hv hid hc _ => rw [hv]; exact hx
    | added v _ _ hq hv hid hl hc => rw [hv]; exact List.mem_cons_of_mem _ hx
    | popped p rest _ hs' hq _ hl hv hid hc => rw [hv]; exact hx

theorem added_seg {s : St} (hS : SInv s) {t pc : Nat} {op : Op} {first c : Bool} {o : SegOut St}
    (hs : IsSeg s t op first c o) {log : List (Ev St Op)} (ha : added log = s.vals.reverse.map (·.2)) :
    added (log ++ [.seg t pc op first c s o]) = o.st.vals.reverse.map (·.2) := by
  by_cases hn : op.isNext = true
  · obtain ⟨k, rfl⟩ : ∃ k, op = .next k := by cases op <;> simp [Op.isNext] at hn; exact ⟨_, rfl⟩
    obtain ⟨_, _, _, _, f5, _⟩ := next_frame s t k c o hs.next_cases
    rw [f5, ← ha]
    simp [added, addedOf]
  · have hn' : op.isNext = false := by simpa using hn
    cases seg_effect hS hs hn' with
    | same hq hl hv hid hc hnot =>
      rw [hv, ← ha]
      have : addedOf (.seg t pc op first c s o) = none := by
        cases op <;> simp only [addedOf]
        · rename_i v; simp [hnot v (Or.inl rfl)]
        · rename_i v; simp [hnot v (Or.inr rfl)]
      simp [added, this]
    | added v hop hfin hq hv hid hl hc =>
      have : addedOf (.seg t pc op first c s o) = some v := by
        rcases hop with rfl | rfl <;> simp [addedOf, hfin]
      rw [hv]
      simp only [added, filterMap_snoc, this, Option.toList_some, List.reverse_cons, List.map_append, List.map_cons,
        List.map_nil]
      rw [← ha]; rfl
    | popped p rest hop hs' hq hfin hl hv hid hc =>
      rw [hv, ← ha]
      have : addedOf (.seg t pc op first c s o) = none := by
        rcases hop with rfl | rfl | rfl <;> rfl
      simp [added, this]

theorem IterInv.init {q0 : St} (h0 : InitQ q0) : IterInv [] q0 := by
  obtain ⟨e1, _, _, e4, e5, e6, _⟩ := h0.empty
  refine ⟨h0.sinv, IInv.init h0, ?_, by simp [added, e4], by simp, by simp⟩
  intro k
  refine ⟨0, by simp [yields], ?_, ?_, by rw [e5]; exact Nat.one_pos, by simp [yields]⟩
  · intro hc; exact absurd (by simp [St.cursor, e6]) hc
  · intro _ p hp; rw [e1] at hp; cases hp

theorem IterInv.seg {log : List (Ev St Op)} {s : St} (hI : IterInv log s) {t : Nat} (pc : Nat) {op : Op} {first c : Bool}
    {o : SegOut St} (hseg : IsSeg s t op first c o) : IterInv (log ++ [.seg t pc op first c s o]) o.st := by
  refine ⟨seg_sinv hI.sinv hseg, hI.iinv.seg hI.sinv hseg, ?_, added_seg hI.sinv hseg hI.addedEq, ?_, ?_⟩
  · intro k
    obtain ⟨y, hy⟩ := hI.yinv k
    exact hy.seg hI.sinv hI.iinv hseg
  · intro ev hev
    simp only [List.mem_append, List.mem_singleton] at hev
    rcases hev with hev | rfl
    · exact hI.evs ev hev
    · exact ⟨hI.sinv, hI.iinv, hseg⟩
  · intro t2 pc2 op2 f2 c2 pre2 out2 hmem x hx
    simp only [List.mem_append, List.mem_singleton] at hmem
    rcases hmem with hmem | hmem
    · exact vals_mono_seg hI.sinv hseg x (hI.valsMono _ _ _ _ _ _ _ hmem x hx)
    · cases hmem; exact vals_mono_seg hI.sinv hseg x hx

theorem IterInv.env {log : List (Ev St Op)} {s : St} (hI : IterInv log s) (a : Act) : IterInv (log ++ [.env a]) s := by
  refine ⟨hI.sinv, hI.iinv, ?_, by rw [← hI.addedEq]; simp [added, addedOf], ?_, ?_⟩
  · intro k
    obtain ⟨y, hy⟩ := hI.yinv k
    have hyl : yields k (log ++ [.env a]) = yields k log := yields_snoc_none _ _ _ rfl
    exact ⟨y, by rw [hyl]; exact hy.bound, hy.cur, hy.sent, hy.lt, by rw [hyl]; exact hy.incr⟩
  · intro ev hev
    simp only [List.mem_append, List.mem_singleton] at hev
    rcases hev with hev | rfl
    · exact hI.evs ev hev
    · trivial
  · intro t2 pc2 op2 f2 c2 pre2 out2 hmem x hx
    simp only [List.mem_append, List.mem_singleton] at hmem
    rcases hmem with hmem | hmem
    · exact hI.valsMono _ _ _ _ _ _ _ hmem x hx
    · cases hmem

theorem IterInv.run {q0 : St} (h0 : InitQ q0) {programs : List (List Op)} {log : List (Ev St Op)} {s : Sys St Op}
    (h : Reach' subject (initSys q0 programs) log s) : IterInv log s.subj := by
  refine Reach'.induction IterInv (IterInv.init h0) ?_ ?_ h
  · intro log s t pc op first c hI hc hb
    exact hI.seg pc ⟨rfl, hc, fun hf => canPark_blocking (hb hf)⟩
  · intro log s a hI
    exact hI.env a

/-! ### runs without removals: the iterator sees every added item, in order -/

structure NRInv (log : List (Ev St Op)) (s : St) : Prop where
  /-- nothing was removed: every entry ever created is still linked, oldest first -/
  q : s.q = s.vals.reverse
  /-- identities are 1, 2, …, nextId - 1 in creation order -/
  ids : s.vals.reverse.map (·.1) = List.range' 1 (s.nextId - 1)
  back : s.back = s.nextId - 1
  /-- entry `e` links to entry `e + 1` as soon as that exists -/
  links : ∀ e, 1 ≤ e → s.linkOf e = if e + 1 < s.nextId then some (e + 1) else none
  /-- iterator `k` has yielded exactly the first `cursor k` entries -/
  ys : ∀ k, yields k log = s.vals.reverse.take (s.cursor k)

theorem NRInv.entry {log : List (Ev St Op)} {s : St} (h : NRInv log s) {n : Nat} (h1 : 1 ≤ n) (h2 : n < s.nextId) :
    s.vals.reverse[n - 1]? = some (n, s.valOf n) := by
  have hid : (s.vals.reverse.map (·.1))[n - 1]? = some n := by
    rw [h.ids, List.getElem?_range' (by omega)]; congr 1; omega
  rw [List.getElem?_map] at hid
  cases hx : s.vals.reverse[n - 1]? with
  | none => simp [hx] at hid
  | some x =>
    simp only [hx, Option.map_some, Option.some.injEq] at hid
    have hmem : (n, x.2) ∈ s.vals := by
      have := List.mem_of_getElem? hx
      rw [List.mem_reverse] at this
      rw [← hid]; exact this
    have hv := valOf_mem hmem
    rw [← List.mem_reverse, List.mem_iff_getElem?] at hv
    obtain ⟨j, hj⟩ := hv
    have hjid : (s.vals.reverse.map (·.1))[j]? = some n := by rw [List.getElem?_map, hj]; rfl
    have hjlt : j < s.nextId - 1 := by
      have := (List.getElem?_eq_some_iff.1 hjid).1
      rw [h.ids, List.length_range'] at this; exact this
    rw [h.ids, List.getElem?_range' hjlt] at hjid
    simp only [Nat.one_mul, Option.some.injEq] at hjid
    have : j = n - 1 := by omega
    rw [this, hx] at hj
    exact hj

theorem NRInv.cursor_lt {s : St} (hI : IInv s) (k : Nat) : s.cursor k < s.nextId := by
  rcases hI.cursor_exists k with h0 | ⟨v, hv⟩
  · rw [h0]; exact hI.idpos
  · exact (hI.vids _ hv).2

theorem NRInv.nextEntry {log : List (Ev St Op)} {s : St} (h : NRInv log s) (hI : IInv s) (k : Nat) :
    s.effCursor k = s.cursor k ∧
    s.nextEntry k = if s.cursor k + 1 < s.nextId then some (s.cursor k + 1) else none := by
  have hlt := NRInv.cursor_lt hI k
  by_cases hc : s.cursor k = 0
  · have he : s.effCursor k = 0 := by simp [St.effCursor, hc]
    refine ⟨by rw [he, hc], ?_⟩
    simp only [St.nextEntry, he, hc, St.linkOf, if_true, Nat.zero_add]
    rw [h.q, ← List.head?_map, h.ids, List.head?_range']
    by_cases h1 : 1 < s.nextId
    · have : s.nextId - 1 ≠ 0 := by omega
      simp [h1, this]
    · have : s.nextId - 1 = 0 := by omega
      simp [h1, this]
  · have hl := h.links (s.cursor k) (by omega)
    have he : s.effCursor k = s.cursor k := by
      simp only [St.effCursor]
      split
      · rename_i hcond
        simp only [Bool.and_eq_true, bne_iff_ne, ne_eq, Option.isNone_iff_eq_none] at hcond
        rw [hl] at hcond
        by_cases h1 : s.cursor k + 1 < s.nextId
        · simp [h1] at hcond
        · exact absurd (by rw [h.back]; omega) hcond.2
      · rfl
    exact ⟨he, by rw [St.nextEntry, he, hl]⟩

theorem NRInv.seg {log : List (Ev St Op)} {s : St} (hI : IterInv log s) (h : NRInv log s) {t : Nat} (pc : Nat)
    {op : Op} {first c : Bool} {o : SegOut St} (hs : IsSeg s t op first c o)
    (hnr : ¬ returnsItem (.seg t pc op first c s o)) : NRInv (log ++ [.seg t pc op first c s o]) o.st := by
  by_cases hn : op.isNext = true
  · obtain ⟨k', rfl⟩ : ∃ k', op = .next k' := by cases op <;> simp [Op.isNext] at hn; exact ⟨_, rfl⟩
    obtain ⟨_, _, f3, f4, f5, f6⟩ := next_frame s t k' c o hs.next_cases
    refine ⟨by rw [f3, f5]; exact h.q, by rw [f5, f6]; exact h.ids, by rw [back_congr f3, f6]; exact h.back, ?_, ?_⟩
    · intro e he; rw [linkOf_congr f3 f4, f6]; exact h.links e he
    · intro k
      rw [f5]
      obtain ⟨r1, r2⟩ := next_result hI.iinv hs
      obtain ⟨he, hne⟩ := h.nextEntry hI.iinv k'
      by_cases hk : k' = k
      · subst hk
        by_cases hlt : s.cursor k' + 1 < s.nextId
        · rw [if_pos hlt] at hne
          obtain ⟨_, e2, _, _⟩ := r1 _ hne
          have hyl : yields k' (log ++ [.seg t pc (.next k') first c s o]) =
              yields k' log ++ [(s.cursor k' + 1, s.valOf (s.cursor k' + 1))] := by
            simp [yields, yieldOf, hne]
          have hent := h.entry (n := s.cursor k' + 1) (by omega) hlt
          simp only [Nat.add_sub_cancel] at hent
          rw [hyl, e2, h.ys k', List.take_add_one, hent]
          rfl
        · rw [if_neg hlt] at hne
          obtain ⟨e1, _⟩ := r2 hne
          rw [yields_snoc_none _ _ _ (by simp [yieldOf, hne]), e1, he]
          exact h.ys k'
      · have hcur : o.st.cursor k = s.cursor k := by
          rw [hs.next_eq]
          cases hne' : s.nextEntry k' with
          | some n => rw [cursor_congr (nextLoop_yield s t k' c hne').2]; exact cursor_setCursor_ne s n (fun e => hk e.symm)
          | none => rw [cursor_congr (nextLoop_noyield s t k' c hne').1]; exact cursor_setCursor_ne s _ (fun e => hk e.symm)
        rw [yields_snoc_none _ _ _ (by simp [yieldOf, hk]), hcur]
        exact h.ys k
  · have hn' : op.isNext = false := by simpa using hn
    have hyl : ∀ k, yields k (log ++ [.seg t pc op first c s o]) = yields k log := fun k =>
      yields_snoc_none _ _ _ (by cases op <;> simp [yieldOf] <;> simp [Op.isNext] at hn')
    cases seg_effect hI.sinv hs hn' with
    | same hq hl hv hid hc _ =>
      refine ⟨by rw [hq, hv]; exact h.q, by rw [hv, hid]; exact h.ids, by rw [back_congr hq, hid]; exact h.back, ?_, ?_⟩
      · intro e he; rw [linkOf_congr hq hl, hid]; exact h.links e he
      · intro k; rw [hyl, hv, cursor_congr hc]; exact h.ys k
    | added v _ _ hq hv hid hl hc =>
      have hpos := hI.iinv.idpos
      have hlen : s.vals.reverse.length = s.nextId - 1 := by
        have := congrArg List.length h.ids
        simpa using this
      refine ⟨?_, ?_, ?_, ?_, ?_⟩
      · rw [hq, hv, h.q]; simp
      · rw [hv, hid]
        simp only [List.reverse_cons, List.map_append, List.map_cons, List.map_nil, Nat.add_sub_cancel]
        rw [h.ids]
        have : s.nextId = (s.nextId - 1) + 1 := by omega
        conv => rhs; rw [this, List.range'_1_concat]
        congr 2; omega
      · rw [hid]; simp [St.back, hq]
      · intro e he
        have he0 : e ≠ 0 := by omega
        rw [linkOf_pos _ he0, hl, hid]
        have hold := h.links e he
        rw [linkOf_pos _ he0] at hold
        by_cases hb : s.back = 0
        · have : s.nextId = 1 := by rw [h.back] at hb; omega
          simp only [hb, if_true, hold, this]
          have h1 : ¬ e + 1 < 1 := by omega
          have h2 : ¬ e + 1 < 1 + 1 := by omega
          simp [h1, h2]
        · simp only [hb, if_false, List.find?_cons]
          by_cases hbe : s.back = e
          · have : (s.back == e) = true := by simp [hbe]
            simp only [this, Option.map_some]
            have h1 : e + 1 < s.nextId + 1 := by rw [← hbe, h.back]; omega
            rw [if_pos h1]; congr 1; rw [← hbe, h.back]; omega
          · have : (s.back == e) = false := by simp [hbe]
            simp only [this, hold]
            have hne : e ≠ s.nextId - 1 := by rw [← h.back]; exact fun e' => hbe e'.symm
            by_cases h1 : e + 1 < s.nextId
            · have h2 : e + 1 < s.nextId + 1 := by omega
              simp [h1, h2]
            · have h2 : ¬ e + 1 < s.nextId + 1 := by omega
              simp [h1, h2]
      · intro k
        rw [hyl, hv, cursor_congr hc, h.ys k]
        have hlt := NRInv.cursor_lt hI.iinv k
        simp only [List.reverse_cons]
        rw [List.take_append_of_le_length (by rw [hlen]; omega)]
    | popped p rest hop hs' hq hfin hl hv hid hc =>
      exact absurd ⟨hop, p.2, hfin⟩ hnr

theorem NRInv.env {log : List (Ev St Op)} {s : St} (h : NRInv log s) (a : Act) : NRInv (log ++ [.env a]) s :=
  ⟨h.q, h.ids, h.back, h.links, fun k => by rw [yields_snoc_none _ _ _ rfl]; exact h.ys k⟩

theorem NRInv.init {q0 : St} (h0 : InitQ q0) : NRInv [] q0 := by
  obtain ⟨e1, _, e3, e4, e5, e6, _⟩ := h0.empty
  refine ⟨by rw [e1, e4]; rfl, by rw [e4, e5]; rfl, by simp [St.back, e1, e5], ?_, ?_⟩
  · intro e he
    have : ¬ e + 1 < q0.nextId := by rw [e5]; omega
    rw [linkOf_pos _ (by omega), e3, if_neg this]; rfl
  · intro k; simp [yields, e4]

/-- in a run in which no `Remove`/`Wait`/`Receive` ever returns an item -/
theorem NRInv.run {q0 : St} (h0 : InitQ q0) {programs : List (List Op)} {log : List (Ev St Op)} {s : Sys St Op}
    (h : Reach' subject (initSys q0 programs) log s) (hnr : ∀ ev ∈ log, ¬ returnsItem ev) :
    IterInv log s.subj ∧ NRInv log s.subj := by
  have := Reach'.induction (fun log s => IterInv log s ∧ ((∀ ev ∈ log, ¬ returnsItem ev) → NRInv log s))
    ⟨IterInv.init h0, fun _ => NRInv.init h0⟩ ?_ ?_ h
  · exact ⟨this.1, this.2 hnr⟩
  · intro log s t pc op first c hI hc hb
    have hseg : IsSeg s t op first c (segOut subject s t op first c) := ⟨rfl, hc, fun hf => canPark_blocking (hb hf)⟩
    refine ⟨hI.1.seg pc hseg, fun hnr' => ?_⟩
    exact (hI.2 (fun ev hev => hnr' ev (List.mem_append_left _ hev))).seg hI.1 pc hseg
      (hnr' _ (List.mem_append_right _ (List.mem_singleton.2 rfl)))
  · intro log s a hI
    exact ⟨hI.1.env a, fun hnr' => (hI.2 (fun ev hev => hnr' ev (List.mem_append_left _ hev))).env a⟩


/-! ### the strings the iterator returned -/

/-- the value a `next k` call returned in this event (results other than "eof"/"ctx") -/
def nextValOf (k : Nat) : Ev St Op → Option String
  | .seg _ _ (.next k') _ _ _ out =>
    if k' = k then
      match out.fin with
      | .ret r => if r = "eof" ∨ r = "ctx" then none else some r
      | .park _ => none
    else none
  | _ => none

/-- the sequence of values returned by the successive `next k` calls of a run -/
def nextVals (k : Nat) (log : List (Ev St Op)) : List String := log.filterMap (nextValOf k)

theorem nextValOf_eq (k : Nat) {ev : Ev St Op} (h : EvOK' ev) :
    nextValOf k ev = (yieldOf k ev).map (fun p => toString p.2) := by
  cases ev with
  | env a => rfl
  | seg t pc op first c pre out =>
    obtain ⟨_, hI, hs⟩ := h
    cases op with
    | next k' =>
      simp only [nextValOf, yieldOf]
      by_cases hk : k' = k
      · subst hk
        simp only [if_true]
        obtain ⟨r1, r2⟩ := next_result hI hs
        cases hne : pre.nextEntry k' with
        | some n =>
          have := (r1 n hne).1
          have e1 := int_ne_eof (pre.valOf n)
          have e2 := int_ne_ctx (pre.valOf n)
          rw [this]
          simp only [e1, e2, or_self, if_false, Option.map_some]
        | none =>
          rcases (r2 hne).2 with ⟨e, _⟩ | ⟨e, _⟩ | ⟨e, _⟩ <;> simp [e]
      · simp [hk]
    | _ => rfl

theorem nextVals_eq (k : Nat) {log : List (Ev St Op)} (h : ∀ ev ∈ log, EvOK' ev) :
    nextVals k log = (yields k log).map (fun p => toString p.2) := by
  induction log with
  | nil => rfl
  | cons ev rest ih =>
    have h1 := nextValOf_eq k (h ev List.mem_cons_self)
    have h2 := ih (fun e he => h e (List.mem_cons_of_mem _ he))
    simp only [nextVals, yields, List.filterMap_cons] at h2 ⊢
    rw [h1]
    cases yieldOf k ev with
    | none => simpa using h2
    | some p => simp [h2]

end FunModel.Queue
