import FunModel.Err

/-! Helper lemmas about the error model (C12). Core Lean only. -/

namespace FunModel

/-! ### Push = prepend the reversed parts -/
mutual
theorem Err.push_eq (acc : List Err) : (e : Err) → e.push acc = e.parts.reverse ++ acc
  | .stack cs => by simp [Err.push, Err.parts, ErrList.pushAll_eq acc cs]
  | .unwinder _ cs => by simp [Err.push, Err.parts, ErrList.pushAll_eq acc cs]
  | .multi _ cs => by simp [Err.push, Err.parts, ErrList.pushAll_eq acc cs]
  | .leaf _ => by simp [Err.push, Err.parts]
  | .typed _ _ => by simp [Err.push, Err.parts]
  | .wrap _ _ => by simp [Err.push, Err.parts]
theorem ErrList.pushAll_eq (acc : List Err) : (cs : ErrList) → cs.pushAll acc = cs.partsAll.reverse ++ acc
  | .nil => by simp [ErrList.pushAll, ErrList.partsAll]
  | .cons e r => by
      rw [ErrList.pushAll, ErrList.pushAll_eq (e.push acc) r, Err.push_eq acc e]
      simp [ErrList.partsAll]
  | .skip r => by simp [ErrList.pushAll, ErrList.partsAll, ErrList.pushAll_eq acc r]
end

theorem flatten_eq (es : ErrList) : flatten es = es.partsAll.reverse := by
  simp [flatten, ErrList.pushAll_eq]

/-! ### parts are plain (never a container) -/
def Err.plain : Err → Bool
  | .leaf _ => true
  | .typed _ _ => true
  | .wrap _ _ => true
  | _ => false

mutual
theorem Err.parts_plain : (e : Err) → ∀ c ∈ e.parts, c.plain = true
  | .stack cs => by simpa [Err.parts] using ErrList.partsAll_plain cs
  | .unwinder _ cs => by simpa [Err.parts] using ErrList.partsAll_plain cs
  | .multi _ cs => by simpa [Err.parts] using ErrList.partsAll_plain cs
  | .leaf _ => by simp [Err.parts, Err.plain]
  | .typed _ _ => by simp [Err.parts, Err.plain]
  | .wrap _ _ => by simp [Err.parts, Err.plain]
theorem ErrList.partsAll_plain : (cs : ErrList) → ∀ c ∈ cs.partsAll, c.plain = true
  | .nil => by simp [ErrList.partsAll]
  | .cons e r => by
      intro c hc
      simp [ErrList.partsAll] at hc
      cases hc with
      | inl h => exact Err.parts_plain e c h
      | inr h => exact ErrList.partsAll_plain r c h
  | .skip r => by simpa [ErrList.partsAll] using ErrList.partsAll_plain r
end

theorem Err.parts_of_plain (e : Err) (h : e.plain = true) : e.parts = [e] := by
  cases e <;> simp_all [Err.plain, Err.parts]

/-! ### ofErrs -/
@[simp] theorem ErrList.isAny_ofErrs (xs : List Err) (t : Nat) :
    (ErrList.ofErrs xs).isAny t = xs.any (fun c => c.is t) := by
  induction xs with
  | nil => simp [ErrList.ofErrs, ErrList.isAny]
  | cons x xs ih => simp [ErrList.ofErrs, ErrList.isAny, ih]

@[simp] theorem ErrList.toList_ofErrs (xs : List Err) : (ErrList.ofErrs xs).toList = xs := by
  induction xs with
  | nil => simp [ErrList.ofErrs, ErrList.toList]
  | cons x xs ih => simp [ErrList.ofErrs, ErrList.toList, ih]

@[simp] theorem ErrList.partsAll_ofErrs_plain (xs : List Err) (h : ∀ c ∈ xs, c.plain = true) :
    (ErrList.ofErrs xs).partsAll = xs := by
  induction xs with
  | nil => simp [ErrList.ofErrs, ErrList.partsAll]
  | cons x xs ih =>
    simp [ErrList.ofErrs, ErrList.partsAll]
    rw [Err.parts_of_plain x (h x (by simp)), ih (fun c hc => h c (by simp [hc]))]
    simp

theorem ErrList.asFirst_ofErrs (xs : List Err) (ty : Nat) :
    (ErrList.ofErrs xs).asFirst ty = xs.findSome? (fun c => c.as ty) := by
  induction xs with
  | nil => simp [ErrList.ofErrs, ErrList.asFirst]
  | cons x xs ih =>
    simp only [ErrList.ofErrs, ErrList.asFirst, ih, List.findSome?_cons]
    cases x.as ty <;> simp [Option.orElse]

/-! ### resolve -/
theorem resolve_is (xs : List Err) (t : Nat) :
    isOpt (resolve xs) t = xs.any (fun c => c.is t) := by
  match xs with
  | [] => simp [resolve, isOpt]
  | [x] => simp [resolve, isOpt]
  | x :: y :: r => simp [resolve, isOpt, Err.is]

theorem resolve_as (xs : List Err) (ty : Nat) :
    asOpt (resolve xs) ty = xs.findSome? (fun c => c.as ty) := by
  match xs with
  | [] => simp [resolve, asOpt]
  | [x] => simp [resolve, asOpt]
  | x :: y :: r => simp only [resolve, asOpt, Err.as, ErrList.asFirst_ofErrs]

/-! ### what errors.Is sees of an error versus its parts -/

/-! ids of the multi/unwinder wrappers that flattening throws away -/
mutual
def Err.shellIds : Err → List Nat
  | .stack cs => cs.shellIdsAll
  | .unwinder id cs => id :: cs.shellIdsAll
  | .multi id cs => id :: cs.shellIdsAll
  | _ => []
def ErrList.shellIdsAll : ErrList → List Nat
  | .nil => []
  | .cons e r => e.shellIds ++ r.shellIdsAll
  | .skip r => r.shellIdsAll
end

/-! no `Unwind()`-only node at a position that flattening opens up -/
mutual
def Err.visible : Err → Bool
  | .stack cs => cs.visibleAll
  | .unwinder _ _ => false
  | .multi _ cs => cs.visibleAll
  | _ => true
def ErrList.visibleAll : ErrList → Bool
  | .nil => true
  | .cons e r => e.visible && r.visibleAll
  | .skip r => r.visibleAll
end

mutual
/-- everything errors.Is finds in a part it finds in the whole, when the whole is visible -/
theorem Err.is_of_parts (t : Nat) : (e : Err) → e.visible = true →
    (e.parts.any (fun c => c.is t)) = true → e.is t = true
  | .stack cs, hv, h => by
      simp only [Err.parts, Err.visible] at *; simp only [Err.is]; exact ErrList.isAny_of_parts t cs hv h
  | .unwinder _ _, hv, _ => by simp [Err.visible] at hv
  | .multi _ cs, hv, h => by
      simp only [Err.parts, Err.visible] at *; simp only [Err.is]
      simp [ErrList.isAny_of_parts t cs hv h]
  | .leaf _, _, h => by simpa [Err.parts] using h
  | .typed _ _, _, h => by simpa [Err.parts] using h
  | .wrap _ _, _, h => by simpa [Err.parts] using h
theorem ErrList.isAny_of_parts (t : Nat) : (cs : ErrList) → cs.visibleAll = true →
    (cs.partsAll.any (fun c => c.is t)) = true → cs.isAny t = true
  | .nil, _, h => by simp [ErrList.partsAll] at h
  | .cons e r, hv, h => by
      simp only [ErrList.visibleAll, Bool.and_eq_true] at hv
      simp only [ErrList.partsAll, List.any_append, Bool.or_eq_true] at h
      simp only [ErrList.isAny, Bool.or_eq_true]
      cases h with
      | inl h => exact Or.inl (Err.is_of_parts t e hv.1 h)
      | inr h => exact Or.inr (ErrList.isAny_of_parts t r hv.2 h)
  | .skip r, hv, h => by
      simp only [ErrList.visibleAll] at hv
      simp only [ErrList.partsAll] at h
      simp only [ErrList.isAny]; exact ErrList.isAny_of_parts t r hv h
end

mutual
/-- everything errors.Is finds in the whole is a discarded wrapper or is found in a part -/
theorem Err.parts_of_is (t : Nat) : (e : Err) → e.is t = true →
    t ∈ e.shellIds ∨ (e.parts.any (fun c => c.is t)) = true
  | .stack cs, h => by
      simp only [Err.is] at h; simp only [Err.parts, Err.shellIds]; exact ErrList.parts_of_isAny t cs h
  | .unwinder id cs, h => by
      simp only [Err.is, beq_iff_eq] at h; simp [Err.shellIds, h]
  | .multi id cs, h => by
      simp only [Err.is, Bool.or_eq_true, beq_iff_eq] at h
      simp only [Err.parts, Err.shellIds]
      cases h with
      | inl h => simp [h]
      | inr h =>
        cases ErrList.parts_of_isAny t cs h with
        | inl h => exact Or.inl (by simp [h])
        | inr h => exact Or.inr h
  | .leaf _, h => by right; simpa [Err.parts] using h
  | .typed _ _, h => by right; simpa [Err.parts] using h
  | .wrap _ _, h => by right; simpa [Err.parts] using h
theorem ErrList.parts_of_isAny (t : Nat) : (cs : ErrList) → cs.isAny t = true →
    t ∈ cs.shellIdsAll ∨ (cs.partsAll.any (fun c => c.is t)) = true
  | .nil, h => by simp [ErrList.isAny] at h
  | .cons e r, h => by
      simp only [ErrList.isAny, Bool.or_eq_true] at h
      simp only [ErrList.shellIdsAll, ErrList.partsAll, List.mem_append, List.any_append, Bool.or_eq_true]
      cases h with
      | inl h => cases Err.parts_of_is t e h with
        | inl h => exact Or.inl (Or.inl h)
        | inr h => exact Or.inr (Or.inl h)
      | inr h => cases ErrList.parts_of_isAny t r h with
        | inl h => exact Or.inl (Or.inr h)
        | inr h => exact Or.inr (Or.inr h)
  | .skip r, h => by
      simp only [ErrList.isAny] at h
      simp only [ErrList.shellIdsAll, ErrList.partsAll]; exact ErrList.parts_of_isAny t r h
end

/-! ### errors.As of the whole versus the parts -/
mutual
theorem Err.as_of_parts (ty : Nat) : (e : Err) → e.visible = true →
    e.as ty = e.parts.findSome? (fun c => c.as ty)
  | .stack cs, hv => by
      simp only [Err.visible] at hv; simp only [Err.as, Err.parts]; exact ErrList.asFirst_of_parts ty cs hv
  | .unwinder _ _, hv => by simp [Err.visible] at hv
  | .multi _ cs, hv => by
      simp only [Err.visible] at hv; simp only [Err.as, Err.parts]; exact ErrList.asFirst_of_parts ty cs hv
  | .leaf _, _ => by simp [Err.parts, Err.as]
  | .typed _ _, _ => by simp [Err.parts]
  | .wrap _ _, _ => by simp [Err.parts]
theorem ErrList.asFirst_of_parts (ty : Nat) : (cs : ErrList) → cs.visibleAll = true →
    cs.asFirst ty = cs.partsAll.findSome? (fun c => c.as ty)
  | .nil, _ => by simp [ErrList.asFirst, ErrList.partsAll]
  | .cons e r, hv => by
      simp only [ErrList.visibleAll, Bool.and_eq_true] at hv
      simp only [ErrList.asFirst, ErrList.partsAll, List.findSome?_append,
        ← Err.as_of_parts ty e hv.1, ← ErrList.asFirst_of_parts ty r hv.2]
      cases e.as ty <;> simp [Option.orElse, Option.or]
  | .skip r, hv => by
      simp only [ErrList.visibleAll] at hv
      simp only [ErrList.asFirst, ErrList.partsAll]; exact ErrList.asFirst_of_parts ty r hv
end

/-! ### solid: no container that is empty all the way down -/
mutual
def Err.solid : Err → Bool
  | .stack cs => cs.someSolid
  | .unwinder _ cs => cs.someSolid
  | .multi _ cs => cs.someSolid
  | _ => true
def ErrList.someSolid : ErrList → Bool
  | .nil => false
  | .cons e r => e.solid || r.someSolid
  | .skip r => r.someSolid
end

mutual
theorem Err.parts_ne_nil : (e : Err) → e.solid = true → e.parts ≠ []
  | .stack cs, h => by simp only [Err.solid] at h; simp only [Err.parts]; exact ErrList.partsAll_ne_nil cs h
  | .unwinder _ cs, h => by simp only [Err.solid] at h; simp only [Err.parts]; exact ErrList.partsAll_ne_nil cs h
  | .multi _ cs, h => by simp only [Err.solid] at h; simp only [Err.parts]; exact ErrList.partsAll_ne_nil cs h
  | .leaf _, _ => by simp [Err.parts]
  | .typed _ _, _ => by simp [Err.parts]
  | .wrap _ _, _ => by simp [Err.parts]
theorem ErrList.partsAll_ne_nil : (cs : ErrList) → cs.someSolid = true → cs.partsAll ≠ []
  | .nil, h => by simp [ErrList.someSolid] at h
  | .cons e r, h => by
      simp only [ErrList.someSolid, Bool.or_eq_true] at h
      simp only [ErrList.partsAll, ne_eq, List.append_eq_nil_iff, not_and]
      cases h with
      | inl h => intro h'; exact absurd h' (Err.parts_ne_nil e h)
      | inr h => intro _; exact ErrList.partsAll_ne_nil r h
  | .skip r, h => by
      simp only [ErrList.someSolid] at h; simp only [ErrList.partsAll]; exact ErrList.partsAll_ne_nil r h
end

mutual
theorem Err.parts_nil_of_not_solid : (e : Err) → e.solid = false → e.parts = []
  | .stack cs, h => by simp only [Err.solid] at h; simp only [Err.parts]; exact ErrList.partsAll_nil_of_not cs h
  | .unwinder _ cs, h => by simp only [Err.solid] at h; simp only [Err.parts]; exact ErrList.partsAll_nil_of_not cs h
  | .multi _ cs, h => by simp only [Err.solid] at h; simp only [Err.parts]; exact ErrList.partsAll_nil_of_not cs h
  | .leaf _, h => by simp [Err.solid] at h
  | .typed _ _, h => by simp [Err.solid] at h
  | .wrap _ _, h => by simp [Err.solid] at h
theorem ErrList.partsAll_nil_of_not : (cs : ErrList) → cs.someSolid = false → cs.partsAll = []
  | .nil, _ => by simp [ErrList.partsAll]
  | .cons e r, h => by
      simp only [ErrList.someSolid, Bool.or_eq_false_iff] at h
      simp [ErrList.partsAll, Err.parts_nil_of_not_solid e h.1, ErrList.partsAll_nil_of_not r h.2]
  | .skip r, h => by
      simp only [ErrList.someSolid] at h; simp only [ErrList.partsAll]; exact ErrList.partsAll_nil_of_not r h
end

/-! ### partsAll over plain lists and permutations -/
def optParts : Option Err → List Err
  | none => []
  | some e => e.parts

theorem ErrList.partsAll_ofList (xs : List (Option Err)) :
    (ErrList.ofList xs).partsAll = xs.flatMap optParts := by
  induction xs with
  | nil => simp [ErrList.ofList, ErrList.partsAll]
  | cons x xs ih =>
    cases x with
    | none => simp [ErrList.ofList, ErrList.partsAll, ih, optParts]
    | some e => simp [ErrList.ofList, ErrList.partsAll, ih, optParts]

theorem ErrList.toList_nil_of_parts (es : ErrList) (hs : ∀ e ∈ es.toList, e.solid = true) :
    es.partsAll = [] ↔ es.toList = [] := by
  match es with
  | .nil => simp [ErrList.partsAll, ErrList.toList]
  | .cons e r =>
    have := Err.parts_ne_nil e (hs e (by simp [ErrList.toList]))
    simp [ErrList.partsAll, ErrList.toList, this]
  | .skip r =>
    simpa [ErrList.partsAll, ErrList.toList] using
      ErrList.toList_nil_of_parts r (by simpa [ErrList.toList] using hs)

end FunModel
