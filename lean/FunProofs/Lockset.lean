import FunModel.Lockset

/-! Lemmas for C13: the classical lock-set argument, once per protection class, over traces of
unboundedly many threads, then the bridge from extracted facts to the semantic discipline. -/

namespace FunModel.Lockset

variable {tr : Trace}

theorem At.inj {i : Nat} {t t' : Tid} {a a' : Act} (h : At tr i t a) (h' : At tr i t' a') : t = t' ∧ a = a' := by
  unfold At at h h'
  rw [h] at h'
  injection h' with h'
  injection h' with h1 h2
  exact ⟨h1, h2⟩

theorem HB.lt {i j : Nat} (h : HB tr i j) : i < j := by
  induction h with
  | po h _ _ => exact h
  | relAcq h _ _ => exact h
  | once h _ _ => exact h
  | latch h _ _ => exact h
  | spawn h _ _ => exact h
  | trans _ _ ih1 ih2 => exact Nat.lt_trans ih1 ih2

/-! ### mutex -/

/-- two steps of different moments that both hold mutex `m` are ordered: the earlier holder must
have released `m` before the later one acquired it -/
theorem hb_mutex (wf : WF tr) {i j : Nat} {t₁ t₂ : Tid} {a b : Act} {m : Nat}
    (hij : i < j) (hi : At tr i t₁ a) (hj : At tr j t₂ b)
    (h1 : Holds tr i t₁ (.mu m)) (h2 : Holds tr j t₂ (.mu m)) : HB tr i j := by
  by_cases ht : t₁ = t₂
  · subst ht; exact HB.po hij hi hj
  obtain ⟨j1, hj1i, hacq1, hnorel1⟩ := h1
  obtain ⟨j2, hj2j, hacq2, hnorel2⟩ := h2
  have hj2 : i < j2 := by
    apply Classical.byContradiction
    intro hle
    have hle : j2 ≤ i := Nat.le_of_not_lt hle
    rcases Nat.lt_trichotomy j2 j1 with h | h | h
    · exact wf.mutex j1 t₁ m hacq1 t₂ ⟨j2, h, hacq2, fun k hk1 hk2 => hnorel2 k hk1 (by omega)⟩
    · subst h; exact ht (At.inj hacq1 hacq2).1
    · by_cases hji : j2 = i
      · subst hji; exact ht (At.inj hi hacq2).1
      · exact wf.mutex j2 t₂ m hacq2 t₁ ⟨j1, h, hacq1, fun k hk1 hk2 => hnorel1 k hk1 (by omega)⟩
  have hnh : ¬ Holds tr j2 t₁ (.mu m) := wf.mutex j2 t₂ m hacq2 t₁
  have hex : ∃ k, j1 < k ∧ k < j2 ∧ At tr k t₁ (.rel m) := by
    apply Classical.byContradiction
    intro hne
    apply hnh
    exact ⟨j1, by omega, hacq1, fun k hk1 hk2 hat => hne ⟨k, hk1, hk2, hat⟩⟩
  obtain ⟨k, hk1, hk2, hrel⟩ := hex
  have hki : i ≤ k := by
    apply Classical.byContradiction
    intro h
    exact hnorel1 k hk1 (by omega) hrel
  have h_k_j2 : HB tr k j2 := HB.relAcq hk2 hrel hacq2
  have h_j2_j : HB tr j2 j := HB.po hj2j hacq2 hj
  rcases Nat.lt_or_eq_of_le hki with h | h
  · exact HB.trans (HB.po h hi hrel) (HB.trans h_k_j2 h_j2_j)
  · subst h; exact HB.trans h_k_j2 h_j2_j

/-! ### sync.Once -/

theorem once_same_thread (wf : WF tr) {i j : Nat} {t₁ t₂ : Tid} {o : Nat}
    (h1 : Holds tr i t₁ (.inOnce o)) (h2 : Holds tr j t₂ (.inOnce o)) : t₁ = t₂ := by
  obtain ⟨b1, _, hb1, _⟩ := h1
  obtain ⟨b2, _, hb2, _⟩ := h2
  have := wf.onceBeginUniq b1 b2 _ _ o hb1 hb2
  subst this
  exact (At.inj hb1 hb2).1

/-- a step inside the body of Once `o` happens before every step of a thread to which `Do` has returned -/
theorem hb_once (wf : WF tr) {i j : Nat} {t₁ t₂ : Tid} {a b : Act} {o : Nat}
    (hi : At tr i t₁ a) (hj : At tr j t₂ b)
    (h1 : Holds tr i t₁ (.inOnce o)) (h2 : Holds tr j t₂ (.afterOnce o)) : HB tr i j := by
  obtain ⟨b0, hbi, hbeg, hnoend⟩ := h1
  obtain ⟨l, hlj, hret⟩ := h2
  obtain ⟨e, t3, hel, hend⟩ := wf.onceRet l t₂ o hret
  obtain ⟨b', hb'e, hbeg', _⟩ := wf.onceEnd e t3 o hend
  have hbb := wf.onceBeginUniq b0 b' _ _ o hbeg hbeg'
  subst hbb
  have ht := (At.inj hbeg hbeg').1
  subst ht
  have hie : i ≤ e := by
    apply Classical.byContradiction
    intro h
    exact hnoend e hb'e (by omega) hend
  have h2 : HB tr e j := HB.trans (HB.once hel hend hret) (HB.po hlj hret hj)
  rcases Nat.lt_or_eq_of_le hie with h | h
  · exact HB.trans (HB.po h hi hend) h2
  · subst h; exact h2

/-- a thread cannot be past `Do` while another step is still inside the body later on -/
theorem once_order (wf : WF tr) {i j : Nat} {t₁ t₂ : Tid} {o : Nat} (hij : i < j)
    (h1 : Holds tr i t₁ (.afterOnce o)) (h2 : Holds tr j t₂ (.inOnce o)) : False := by
  obtain ⟨l, hli, hret⟩ := h1
  obtain ⟨b0, hbj, hbeg, hnoend⟩ := h2
  obtain ⟨e, t3, hel, hend⟩ := wf.onceRet l t₁ o hret
  obtain ⟨b', hb'e, hbeg', _⟩ := wf.onceEnd e t3 o hend
  have hbb := wf.onceBeginUniq b0 b' _ _ o hbeg hbeg'
  subst hbb
  have ht := (At.inj hbeg hbeg').1
  subst ht
  exact hnoend e hb'e (by omega) hend

/-! ### guards -/

theorem mem_of_contains {l : List Tok} {t : Tok} (h : l.contains t = true) : t ∈ l := by
  simpa using h

theorem guard_unknown_kind {c : Class} {h : List Tok} : guardOK c .unknown h = false := by
  cases c <;> rfl

theorem guard_mutex {m : Nat} {k : Kind} {h : List Tok} (hg : guardOK (.mutex m) k h = true) : Tok.mu m ∈ h := by
  cases k <;> simp [guardOK] at hg <;> simpa using hg

theorem guard_once {o : Nat} {k : Kind} {h : List Tok} (hg : guardOK (.once o) k h = true) :
    (k = .wr ∧ Tok.inOnce o ∈ h) ∨ (k = .rd ∧ (Tok.inOnce o ∈ h ∨ Tok.afterOnce o ∈ h)) := by
  cases k <;> simp [guardOK] at hg
  · right; exact ⟨rfl, by simpa using hg⟩
  · left; exact ⟨rfl, by simpa using hg⟩

theorem guard_atomic {k : Kind} {h : List Tok} (hg : guardOK .atomic k h = true) : k = .atomic := by
  cases k <;> simp [guardOK] at hg; rfl

theorem guard_published {k : Kind} {h : List Tok} (hg : guardOK .published k h = true) : k = .rd := by
  cases k <;> simp [guardOK] at hg; rfl

theorem guard_latched {m a : Nat} {k : Kind} {h : List Tok} (hg : guardOK (.latched m a) k h = true) :
    (k = .wr ∧ Tok.mu m ∈ h) ∨ (k = .rd ∧ (Tok.mu m ∈ h ∨ Tok.afterLatch a ∈ h)) := by
  cases k <;> simp [guardOK] at hg
  · right; exact ⟨rfl, by simpa using hg⟩
  · left; exact ⟨rfl, by simpa using hg⟩

theorem guard_latch {m : Nat} {k : Kind} {h : List Tok} (hg : guardOK (.latch m) k h = true) :
    (k = .latchSet ∧ Tok.mu m ∈ h) ∨ k = .atomic := by
  cases k <;> simp [guardOK] at hg
  · right; rfl
  · left; exact ⟨rfl, by simpa using hg⟩

theorem guard_unknown {k : Kind} {h : List Tok} (hg : guardOK .unknown k h = true) : False := by
  cases k <;> simp [guardOK] at hg

/-! ### publication flags -/

/-- a write of a `latched m a` location happens before every step of a thread that observed flag `a` final -/
theorem hb_latch (wf : WF tr) {cls : Nat → Class} (hd : TraceDisciplined cls tr) (hpre : PreLatch cls tr)
    (hcons : LatchConsistent cls) {i j : Nat} {t₁ t₂ : Tid} {n f s l c m a : Nat} {b : Act}
    (hi : At tr i t₁ (.acc n f s l c .wr)) (hj : At tr j t₂ b) (hc : cls l = .latched m a)
    (h1 : Holds tr i t₁ (.mu m)) (h2 : Holds tr j t₂ (.afterLatch a)) : HB tr i j := by
  obtain ⟨lo, hloj, hobs⟩ := h2
  obtain ⟨k, t3, n', f', s', c', hklo, hset⟩ := wf.latchObs lo t₂ a hobs
  have hik : i < k := by
    apply Classical.byContradiction
    intro h
    have hle : k ≤ i := Nat.le_of_not_lt h
    rcases Nat.lt_or_eq_of_le hle with h' | h'
    · exact hpre i t₁ n f s l c m a hi hc k t3 n' f' s' c' h' hset
    · subst h'
      have := (At.inj hi hset).2
      injection this with _ _ _ _ _ hk
      cases hk
  obtain ⟨held, hheld, hg⟩ := hd k t3 n' f' s' a c' .latchSet hset
  rw [hcons l m a hc] at hg
  have hmu : Holds tr k t3 (.mu m) := by
    rcases guard_latch hg with ⟨_, hm⟩ | hk
    · exact hheld _ hm
    · cases hk
  exact HB.trans (hb_mutex wf hik hi hset h1 hmu) (HB.trans (HB.latch hklo hset hobs) (HB.po hloj hobs hj))

theorem latch_order (wf : WF tr) {cls : Nat → Class} (hpre : PreLatch cls tr)
    {i j : Nat} {t₁ t₂ : Tid} {n f s l c m a : Nat} (hij : i < j)
    (hj : At tr j t₂ (.acc n f s l c .wr)) (hc : cls l = .latched m a)
    (h1 : Holds tr i t₁ (.afterLatch a)) : False := by
  obtain ⟨lo, hloi, hobs⟩ := h1
  obtain ⟨k, t3, n', f', s', c', hklo, hset⟩ := wf.latchObs lo t₁ a hobs
  exact hpre j t₂ n f s l c m a hj hc k t3 n' f' s' c' (by omega) hset

/-! ### the lock-set theorem on traces -/

theorem lockset_race_free_core (cls : Nat → Class) (tr : Trace) (wf : WF tr)
    (hd : TraceDisciplined cls tr) (hconf : ConfinedOK cls tr) (hpre : PreLatch cls tr)
    (hcons : LatchConsistent cls) : ¬ Race tr := by
  rintro ⟨i, j, t₁, t₂, n₁, f₁, s₁, n₂, f₂, s₂, l, c, k₁, k₂, hij, hi, hj, hcf, hnhb⟩
  apply hnhb
  by_cases ht : t₁ = t₂
  · subst ht; exact HB.po hij hi hj
  obtain ⟨h1, hh1, hg1⟩ := hd i t₁ n₁ f₁ s₁ l c k₁ hi
  obtain ⟨h2, hh2, hg2⟩ := hd j t₂ n₂ f₂ s₂ l c k₂ hj
  cases hc : cls l with
  | mutex m =>
    rw [hc] at hg1 hg2
    exact hb_mutex wf hij hi hj (hh1 _ (guard_mutex hg1)) (hh2 _ (guard_mutex hg2))
  | once o =>
    rw [hc] at hg1 hg2
    rcases guard_once hg1 with ⟨hk1, hin1⟩ | ⟨hk1, hin1 | haf1⟩ <;>
      rcases guard_once hg2 with ⟨hk2, hin2⟩ | ⟨hk2, hin2 | haf2⟩
    · exact absurd (once_same_thread wf (hh1 _ hin1) (hh2 _ hin2)) ht
    · exact absurd (once_same_thread wf (hh1 _ hin1) (hh2 _ hin2)) ht
    · exact hb_once wf hi hj (hh1 _ hin1) (hh2 _ haf2)
    · exact absurd (once_same_thread wf (hh1 _ hin1) (hh2 _ hin2)) ht
    · subst hk1; subst hk2; simp [conflicting] at hcf
    · subst hk1; subst hk2; simp [conflicting] at hcf
    · exact (once_order wf hij (hh1 _ haf1) (hh2 _ hin2)).elim
    · subst hk1; subst hk2; simp [conflicting] at hcf
    · subst hk1; subst hk2; simp [conflicting] at hcf
  | atomic =>
    rw [hc] at hg1 hg2
    have e1 := guard_atomic hg1
    have e2 := guard_atomic hg2
    subst e1; subst e2; simp [conflicting] at hcf
  | published =>
    rw [hc] at hg1 hg2
    have e1 := guard_published hg1
    have e2 := guard_published hg2
    subst e1; subst e2; simp [conflicting] at hcf
  | confined => exact absurd (hconf i j t₁ t₂ n₁ f₁ s₁ n₂ f₂ s₂ l c k₁ k₂ hi hj hc) ht
  | latched m a =>
    rw [hc] at hg1 hg2
    rcases guard_latched hg1 with ⟨hk1, hm1⟩ | ⟨hk1, hm1 | hl1⟩ <;>
      rcases guard_latched hg2 with ⟨hk2, hm2⟩ | ⟨hk2, hm2 | hl2⟩
    · exact hb_mutex wf hij hi hj (hh1 _ hm1) (hh2 _ hm2)
    · exact hb_mutex wf hij hi hj (hh1 _ hm1) (hh2 _ hm2)
    · subst hk1; exact hb_latch wf hd hpre hcons hi hj hc (hh1 _ hm1) (hh2 _ hl2)
    · exact hb_mutex wf hij hi hj (hh1 _ hm1) (hh2 _ hm2)
    · exact hb_mutex wf hij hi hj (hh1 _ hm1) (hh2 _ hm2)
    · subst hk1; subst hk2; simp [conflicting] at hcf
    · subst hk2; exact (latch_order wf hpre hij hj hc (hh1 _ hl1)).elim
    · subst hk1; subst hk2; simp [conflicting] at hcf
    · subst hk1; subst hk2; simp [conflicting] at hcf
  | latch m =>
    rw [hc] at hg1 hg2
    rcases guard_latch hg1 with ⟨hk1, _⟩ | hk1 <;> rcases guard_latch hg2 with ⟨hk2, _⟩ | hk2 <;>
      (subst hk1; subst hk2; simp [conflicting] at hcf)
  | unknown =>
    rw [hc] at hg1
    exact (guard_unknown hg1).elim

/-! ### from extracted facts to the semantic discipline -/

theorem nodeOK_of_disciplined {F : Facts} (hD : Disciplined F = true) {n : Nat} {nd : Node}
    (hn : F.nodes[n]? = some nd) : nodeOK F nd = true := by
  unfold Disciplined at hD
  rw [Bool.and_eq_true] at hD
  exact (List.all_eq_true.mp hD.2) nd (List.mem_of_getElem? hn)

theorem assumesOf_eq {F : Facts} {n : Nat} {nd : Node} (hn : F.nodes[n]? = some nd) : F.assumesOf n = nd.assumes := by
  unfold Facts.assumesOf; rw [hn]

theorem latchConsistent_of_disciplined {F : Facts} (hD : Disciplined F = true) : LatchConsistent F.classOf := by
  intro l m a hl
  unfold Disciplined at hD
  rw [Bool.and_eq_true] at hD
  have hall := List.all_eq_true.mp hD.1
  unfold Facts.classOf at hl
  have hmem : Class.latched m a ∈ F.classes := by
    rw [List.getD_eq_getElem?_getD] at hl
    cases h : F.classes[l]? with
    | none => rw [h] at hl; simp at hl
    | some c => rw [h] at hl; simp at hl; subst hl; exact List.mem_of_getElem? h
  have := hall _ hmem
  simpa [classOK] using this

/-- every frame is created with the tokens its node assumes really held (induction over the trace:
entries provide them by the entry check, calls by the call check and the caller's own frame) -/
theorem assumes_held {F : Facts} (hD : Disciplined F = true) (hc : Conforms F tr) :
    ∀ (e : Nat) (t : Tid) (n : Nat) (nd : Node), Creates F tr e t n → F.nodes[n]? = some nd →
      ∀ tok ∈ nd.assumes, Holds tr e t tok := by
  intro e
  induction e using Nat.strongRecOn with
  | _ e ih =>
    intro t n nd hcr hn tok htok
    rcases hcr with ⟨k, hat⟩ | ⟨n₀, e₀, c, nd₀, cl, hat, hn₀, hcl, hcallee⟩
    · obtain ⟨nd', en, hn', hen, hheld⟩ := hc.enterOK e t n k hat
      rw [hn] at hn'; injection hn' with hn'; subst hn'
      have hok := nodeOK_of_disciplined hD hn
      unfold nodeOK at hok
      rw [Bool.and_eq_true, Bool.and_eq_true] at hok
      have hsub := (List.all_eq_true.mp hok.1.1) en (List.mem_of_getElem? hen)
      unfold subset at hsub
      have := (List.all_eq_true.mp hsub) tok htok
      exact hheld tok (mem_of_contains this)
    · obtain ⟨nd', cl', hn', hcl', hcr₀, he₀, hheld, hcarry⟩ := hc.callOK e t n₀ e₀ c hat
      rw [hn₀] at hn'; injection hn' with hn'; subst hn'
      rw [hcl] at hcl'; injection hcl' with hcl'; subst hcl'
      have hok := nodeOK_of_disciplined hD hn₀
      unfold nodeOK at hok
      rw [Bool.and_eq_true, Bool.and_eq_true] at hok
      have hcok := (List.all_eq_true.mp hok.1.2) cl (List.mem_of_getElem? hcl)
      unfold callOK at hcok
      rw [Bool.and_eq_true] at hcok
      have hsub := hcok.2
      rw [hcallee, assumesOf_eq hn] at hsub
      unfold subset at hsub
      have hmem := mem_of_contains ((List.all_eq_true.mp hsub) tok htok)
      unfold callHeld at hmem
      by_cases hf : cl.foreign = true
      · rw [if_pos hf] at hmem; cases hmem
      · rw [if_neg hf] at hmem
        rcases List.mem_append.mp hmem with h | h
        · rw [List.mem_filter] at h
          have hnl : tok ∉ cl.lost := by simpa using h.2
          exact hcarry (by simpa using hf) tok h.1 hnl (ih e₀ he₀ t n₀ nd₀ hcr₀ hn₀ tok h.1)
        · exact hheld tok h

theorem conforms_disciplined {F : Facts} (hD : Disciplined F = true) (hc : Conforms F tr) :
    TraceDisciplined F.classOf tr := by
  intro i t n f s l c k hat
  obtain ⟨nd, st, hn, hst, hl, hk, hex, hcr, hfi, hloc, hcarry⟩ := hc.accOK i t n f s l c k hat
  refine ⟨siteHeld nd st, ?_, ?_⟩
  · intro tok htok
    unfold siteHeld at htok
    by_cases hf : st.foreign = true
    · rw [if_pos hf] at htok; cases htok
    · rw [if_neg hf] at htok
      rcases List.mem_append.mp htok with h | h
      · rw [List.mem_filter] at h
        have hnl : tok ∉ st.lost := by simpa using h.2
        exact hcarry (by simpa using hf) tok h.1 hnl (assumes_held hD hc f t n nd hcr hn tok h.1)
      · exact hloc tok h
  · have hok := nodeOK_of_disciplined hD hn
    unfold nodeOK at hok
    rw [Bool.and_eq_true, Bool.and_eq_true] at hok
    have hs := (List.all_eq_true.mp hok.2) st (List.mem_of_getElem? hst)
    unfold siteOK at hs
    rw [hex, Bool.false_or, hl, hk] at hs
    exact hs

/-- a disciplined table describes race-free code: no conforming execution has a data race -/
theorem facts_race_free (F : Facts) (hD : Disciplined F = true) (tr : Trace) (wf : WF tr) (hc : Conforms F tr) :
    ¬ Race tr :=
  lockset_race_free_core F.classOf tr wf (conforms_disciplined hD hc) hc.confined hc.prelatch
    (latchConsistent_of_disciplined hD)

end FunModel.Lockset
