import FunProofs.Conc

/-! Generic additions to `FunProofs/Conc.lean` used by the Deque proofs (kept in a separate file:
    `Conc.lean` is owned by another author and copied verbatim). Core Lean only. -/

namespace FunModel.Conc
variable {σ Op : Type}

/-- what a step does to the subject: a segment installs its outcome, `cancel`/`fire` leave it -/
theorem step_subj {sub : Subject σ Op} {s s' : Sys σ Op} {a : Act} {obs : String} (hwf : s.WF)
    (hen : a ∈ enabled s true) (hs : step sub s a = some (s', obs)) :
    (∃ t th0 op o, IsSeg sub s t a th0 op o ∧ SegRel s s' t o th0 ∧ s'.subj = o.st) ∨
    ((∃ t, a = .cancel t ∨ a = .fire t) ∧ s'.subj = s.subj) := by
  cases a with
  | start t =>
    obtain ⟨th0, op, o, hseg, r⟩ := step_seg hwf hen hs (Or.inl rfl)
    exact Or.inl ⟨t, th0, op, o, hseg, r, r.subj⟩
  | resume t =>
    obtain ⟨th0, op, o, hseg, r⟩ := step_seg hwf hen hs (Or.inr rfl)
    exact Or.inl ⟨t, th0, op, o, hseg, r, r.subj⟩
  | cancel t =>
    obtain ⟨_, _, _, _, _, h, _⟩ := step_cancel_rel hwf hen hs
    exact Or.inr ⟨⟨t, Or.inl rfl⟩, h⟩
  | fire t =>
    obtain ⟨_, _, _, _, _, h, _⟩ := step_fire_rel hwf hs
    exact Or.inr ⟨⟨t, Or.inr rfl⟩, h⟩

/-- a property of the subject state that every segment preserves holds in every reachable state -/
theorem Reach.subj_inv {sub : Subject σ Op} {s0 s : Sys σ Op} (P : σ → Prop) (hwf0 : s0.WF) (h0 : P s0.subj)
    (hstart : ∀ x t op, P x → P (sub.start x t op).st)
    (hresume : ∀ x t op c, P x → P (sub.resume x t op c).st)
    (hr : Reach sub s0 s) : P s.subj := by
  refine Reach.inv_wf (fun s => P s.subj) hwf0 h0 ?_ hr
  intro s a s' obs _ hwf hp hen hs
  rcases step_subj hwf hen hs with ⟨t, th0, op, o, hseg, _, hsub⟩ | ⟨_, hsub⟩
  · rw [hsub]
    cases hseg with
    | start _ _ _ => exact hstart _ _ _ hp
    | resume _ _ _ => exact hresume _ _ _ _ hp
  · rw [hsub]; exact hp

/-- programs never change -/
theorem Reach.ops_eq {sub : Subject σ Op} {s0 s : Sys σ Op} (hwf0 : s0.WF) (hr : Reach sub s0 s) :
    ∀ u : Nat, (s.ths[u]?).map Th.ops = (s0.ths[u]?).map Th.ops := by
  refine Reach.inv_wf (fun s => ∀ u : Nat, (s.ths[u]?).map Th.ops = (s0.ths[u]?).map Th.ops) hwf0 (fun _ => rfl) ?_ hr
  intro s a s' obs _ hwf hp hen hs u
  rw [← hp u]
  cases a with
  | start t =>
    obtain ⟨th0, op, o, hseg, r⟩ := step_seg hwf hen hs (Or.inl rfl)
    obtain ⟨th, hth, hops, _⟩ := hseg.basic
    by_cases hut : u = t
    · subst hut; rw [r.self, hth]; simp [hops]
    · cases h1 : s.ths[u]? with
      | none => rw [r.none u h1]
      | some th1 =>
        obtain ⟨th', h', w⟩ := r.other u th1 hut h1
        rw [h']; simp [w.ops]
  | resume t =>
    obtain ⟨th0, op, o, hseg, r⟩ := step_seg hwf hen hs (Or.inr rfl)
    obtain ⟨th, hth, hops, _⟩ := hseg.basic
    by_cases hut : u = t
    · subst hut; rw [r.self, hth]; simp [hops]
    · cases h1 : s.ths[u]? with
      | none => rw [r.none u h1]
      | some th1 =>
        obtain ⟨th', h', w⟩ := r.other u th1 hut h1
        rw [h']; simp [w.ops]
  | cancel t =>
    obtain ⟨th, hth, _, _, _, _, hself, hoth⟩ := step_cancel_rel hwf hen hs
    by_cases hut : u = t
    · subst hut; rw [hself, hth]; rfl
    · rw [hoth u hut]
  | fire t =>
    obtain ⟨th, h0, hth, _, _, _, hself, hoth⟩ := step_fire_rel hwf hs
    have hb : ∀ (c : Nat) (x : Th Op), (Th.bwake c x).ops = x.ops := by
      intro c x; unfold Th.bwake; split <;> rfl
    by_cases hut : u = t
    · subst hut; rw [hself, hth]; simp [hb]
    · rw [hoth u hut]; cases s.ths[u]? <;> simp [hb]

/-- a thread that is woken or parked is inside an operation for which `P` holds, provided only
    operations with `P` ever park -/
def WaitingIn (P : Op → Prop) (s : Sys σ Op) : Prop :=
  ∀ (u : Nat) (th : Th Op), s.ths[u]? = some th → (th.st = .woken ∨ ∃ c, th.st = .parked c) →
    ∃ op, th.ops[th.pc]? = some op ∧ P op

theorem initSys_waitingIn (P : Op → Prop) (init : σ) (programs : List (List Op)) :
    WaitingIn P (initSys init programs) := by
  intro u th hth hst
  simp only [initSys, List.getElem?_map] at hth
  cases hp : programs[u]? with
  | none => simp [hp] at hth
  | some p =>
    simp [hp] at hth; subst hth
    exfalso
    rcases hst with h | ⟨c, h⟩
    · simp only at h; split at h <;> cases h
    · simp only at h; split at h <;> cases h

theorem WaitingIn.step {P : Op → Prop} {sub : Subject σ Op} {s s' : Sys σ Op} {a : Act} {obs : String}
    (hw : WaitingIn P s) (hwf : s.WF) (hen : a ∈ enabled s true) (hs : step sub s a = some (s', obs))
    (hpark : ∀ t th0 op o, IsSeg sub s t a th0 op o → ∀ c, o.fin = .park c → P op) : WaitingIn P s' := by
  have seg : ∀ t, (a = .start t ∨ a = .resume t) → WaitingIn P s' := by
    intro t ha u th' hth' hst
    obtain ⟨th0, op, o, hseg, r⟩ := step_seg hwf hen hs ha
    by_cases hut : u = t
    · subst hut
      have he := r.self_eq hth'
      obtain ⟨th, hth, hops, hpc, _, _, hop, _, _⟩ := hseg.basic
      cases hfin : o.fin with
      | ret rv =>
        exfalso
        rw [hfin] at he
        rcases hst with h | ⟨c, h⟩
        · rw [he, finTh_ret] at h; simp only at h; split at h <;> cases h
        · exact finTh_ret_st rv _ c (by rw [← he]; exact h)
      | park c =>
        rw [hfin, finTh_park] at he
        subst he
        exact ⟨op, hop, hpark u th0 op o hseg c hfin⟩
    · obtain ⟨th, hth, w⟩ := r.other_inv hut hth'
      have hst0 : th.st = .woken ∨ ∃ c, th.st = .parked c := by
        rcases w with rfl | ⟨hp, _⟩
        · exact hst
        · exact Or.inr hp
      obtain ⟨op, hop, hP⟩ := hw u th hth hst0
      exact ⟨op, by rw [w.ops, w.pc]; exact hop, hP⟩
  cases a with
  | start t => exact seg t (Or.inl rfl)
  | resume t => exact seg t (Or.inr rfl)
  | cancel t =>
    obtain ⟨th, hth, hst0, _, _, _, hself, hoth⟩ := step_cancel_rel hwf hen hs
    intro u th' hth' hst
    by_cases hut : u = t
    · subst hut; rw [hself] at hth'; cases hth'
      exact hw u th hth hst0
    · rw [hoth u hut] at hth'; exact hw u th' hth' hst
  | fire t =>
    obtain ⟨th, h0, hth, _, _, _, hself, hoth⟩ := step_fire_rel hwf hs
    have key : ∀ (x : Th Op), ((Th.bwake h0.cond x).st = .woken ∨ ∃ c, (Th.bwake h0.cond x).st = .parked c) →
        (x.st = .woken ∨ ∃ c, x.st = .parked c) ∧ (Th.bwake h0.cond x).ops = x.ops ∧ (Th.bwake h0.cond x).pc = x.pc := by
      intro x hx
      unfold Th.bwake at hx ⊢
      split
      · rename_i hp; exact ⟨Or.inr ⟨_, hp⟩, rfl, rfl⟩
      · rename_i hp; simp only [hp, ite_false] at hx; exact ⟨hx, rfl, rfl⟩
    intro u th' hth' hst
    by_cases hut : u = t
    · subst hut; rw [hself] at hth'; cases hth'
      obtain ⟨h1, h2, h3⟩ := key _ hst
      obtain ⟨op, hop, hP⟩ := hw u th hth h1
      exact ⟨op, by rw [h2, h3]; exact hop, hP⟩
    · rw [hoth u hut] at hth'
      cases h1 : s.ths[u]? with
      | none => simp [h1] at hth'
      | some x =>
        simp [h1] at hth'; subst hth'
        obtain ⟨h1', h2, h3⟩ := key _ hst
        obtain ⟨op, hop, hP⟩ := hw u x h1 h1'
        exact ⟨op, by rw [h2, h3]; exact hop, hP⟩

/-! ## Quiescence up to ping-pong (subjects whose waiters signal before they park, D28) -/

/-- reachability by internal actions (resumptions and helper firings) only -/
inductive ReachInt (sub : Subject σ Op) (s : Sys σ Op) : Sys σ Op → Prop
  | refl : ReachInt sub s s
  | step {s1 s2 : Sys σ Op} {a : Act} {obs : String} : ReachInt sub s s1 → a ∈ enabled s1 false → a.internal = true →
      FunModel.Conc.step sub s1 a = some (s2, obs) → ReachInt sub s s2

theorem ReachInt.reach {sub : Subject σ Op} {s0 s s' : Sys σ Op} (h0 : Reach sub s0 s) (h : ReachInt sub s s') :
    Reach sub s0 s' := by
  induction h with
  | refl => exact h0
  | step _ hen _ hs ih => exact .step ih (enabled_false_sub hen) hs

theorem ReachInt.trans {sub : Subject σ Op} {s s1 s2 : Sys σ Op} (h1 : ReachInt sub s s1) (h2 : ReachInt sub s1 s2) :
    ReachInt sub s s2 := by
  induction h2 with
  | refl => exact h1
  | step _ hen hi hs ih => exact .step ih hen hi hs

/-- the action is the resumption of a goroutine that parks again and leaves the subject alone -/
def RePark (sub : Subject σ Op) (s : Sys σ Op) (a : Act) : Prop :=
  ∃ (t : Nat) (s' : Sys σ Op) (obs : String) (th : Th Op) (c : Nat), a = .resume t ∧ step sub s a = some (s', obs) ∧
    s'.subj = s.subj ∧ s'.ths[t]? = some th ∧ th.st = .parked c

/-- quiescent up to ping-pong: whatever internal actions are taken from here on, the only ones
    ever enabled are resumptions that park again without changing the subject -/
def QuiescentPP (sub : Subject σ Op) (s : Sys σ Op) : Prop :=
  ∀ s', ReachInt sub s s' → ∀ a ∈ enabled s' false, a.internal = true → RePark sub s' a

theorem Quiescent.pp {sub : Subject σ Op} {s : Sys σ Op} (q : Quiescent s) : QuiescentPP sub s := by
  have key : ∀ s', ReachInt sub s s' → s' = s := by
    intro s' h
    induction h with
    | refl => rfl
    | step _ hen hi _ ih => subst ih; rw [q _ hen] at hi; cases hi
  intro s' h a hen hi
  rw [key s' h] at hen
  rw [q a hen] at hi; cases hi

theorem QuiescentPP.step {sub : Subject σ Op} {s s' : Sys σ Op} (q : QuiescentPP sub s) (h : ReachInt sub s s') :
    QuiescentPP sub s' :=
  fun s'' h' a hen hi => q s'' (h.trans h') a hen hi

/-! ### FIFO: who a `Signal` wakes -/

/-- the parked list after the segment "Signal c; Wait on c" of thread `u` -/
theorem repark_parked {sub : Subject σ Op} {s s' : Sys σ Op} {u : Nat} {obs : String} {th : Th Op} {op : Op} {c : Nat}
    (hth : s.ths[u]? = some th) (hop : th.ops[th.pc]? = some op)
    (ho : sub.resume s.subj u op th.cancelled = { st := s.subj, sigs := [.signal c], fin := .park c })
    (hs : step sub s (.resume u) = some (s', obs)) :
    s'.subj = s.subj ∧
    s'.parked = (match s.parked.find? (fun p => p.2 == c) with
      | some p => s.parked.filter (fun q => q.1 != p.1)
      | none => s.parked) ++ [(u, c)] := by
  simp only [step, hth, hop, Option.bind_eq_bind, Option.bind_some, ho, pure, Option.some.injEq, Prod.mk.injEq] at hs
  rw [← hs.1]
  simp only [applySeg, List.foldl_cons, List.foldl_nil, applySig, signal]
  cases hf : s.parked.find? (fun p => p.2 == c) with
  | none => simp [hf, modTh]
  | some p => simp [hf, modTh, wake]

theorem takeWhile_filter_comm {α : Type} (P Q : α → Bool) (l : List α) (h : ∀ x ∈ l, P x = false → Q x = true) :
    (l.filter Q).takeWhile P = (l.takeWhile P).filter Q := by
  induction l with
  | nil => rfl
  | cons x r ih =>
    have ihr := ih (fun y hy => h y (List.mem_cons_of_mem _ hy))
    by_cases hp : P x = true
    · by_cases hq : Q x = true
      · simp [List.filter_cons, List.takeWhile_cons, hp, hq, ihr]
      · simp [List.filter_cons, List.takeWhile_cons, hp, hq, ihr]
    · have hp' : P x = false := by simpa using hp
      have hq := h x (List.mem_cons_self) hp'
      simp [List.filter_cons, List.takeWhile_cons, hp', hq]

theorem length_filter_lt {α : Type} (Q : α → Bool) (l : List α) (x : α) (hx : x ∈ l) (hq : Q x = false) :
    (l.filter Q).length < l.length := by
  induction l with
  | nil => cases hx
  | cons y r ih =>
    simp only [List.mem_cons] at hx
    rcases hx with rfl | hx
    · simp only [List.filter_cons, hq, Bool.false_eq_true, ite_false, List.length_cons]
      exact Nat.lt_succ_of_le (List.length_filter_le _ _)
    · have := ih hx
      by_cases hy : Q y = true
      · simp only [List.filter_cons, hy, ite_true, List.length_cons]; omega
      · simp only [List.filter_cons, hy, Bool.false_eq_true, ite_false, List.length_cons]; omega

/-- the first entry for condition `c` stands before the entry of any other thread parked on `c` -/
theorem first_before {l : List (Nat × Nat)} {c t : Nat} {p : Nat × Nat} (hnd : l.Pairwise (fun p q => p.1 ≠ q.1))
    (hf : l.find? (fun q => q.2 == c) = some p)
    (ht : (t, c) ∈ l) (hne : p.1 ≠ t) : p ∈ l.takeWhile (fun q => q.1 != t) := by
  induction l with
  | nil => cases ht
  | cons x r ih =>
    have hnd' := List.pairwise_cons.1 hnd
    simp only [List.find?_cons] at hf
    by_cases hx : (x.2 == c) = true
    · simp only [hx, Option.some.injEq] at hf
      subst hf
      have : (x.1 != t) = true := by simpa using hne
      simp [List.takeWhile_cons, this]
    · simp only [hx] at hf
      simp only [List.mem_cons] at ht
      rcases ht with h | h
      · subst h; simp at hx
      · have hxt : (x.1 != t) = true ∨ (x.1 != t) = false := by cases (x.1 != t) <;> simp
        rcases hxt with h1 | h1
        · simp only [List.takeWhile_cons, h1, ite_true, List.mem_cons]
          exact Or.inr (ih hnd'.2 hf h)
        · -- x would be a second entry of thread t
          exfalso
          have hx1 : x.1 = t := by simpa using h1
          exact hnd'.1 _ h hx1

theorem takeWhile_append_left {α : Type} (P : α → Bool) (A B : List α) (h : ∃ x ∈ A, P x = false) :
    (A ++ B).takeWhile P = A.takeWhile P := by
  induction A with
  | nil => obtain ⟨x, hx, _⟩ := h; cases hx
  | cons a r ih =>
    by_cases hp : P a = true
    · obtain ⟨x, hx, hpx⟩ := h
      simp only [List.mem_cons] at hx
      rcases hx with rfl | hx
      · rw [hp] at hpx; cases hpx
      · simp [List.takeWhile_cons, hp, ih ⟨x, hx, hpx⟩]
    · simp [List.takeWhile_cons, hp]

end FunModel.Conc
