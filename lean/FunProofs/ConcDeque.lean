import FunProofs.Conc

/-! Generic additions to `FunProofs/Conc.lean` used by the Deque proofs (kept in a separate file:
    `Conc.lean` is owned by another author and copied verbatim). Core Lean only. -/

namespace FunModel.Conc
variable {σ Op : Type}

/-- what a step does to the subject: a segment installs its outcome, `cancel`/`fire` leave it -/
theorem step_subj {sub : Subject σ Op} {s s' : Sys σ Op} {a : Act} {obs : String} (hwf : s.WF)
    (hen : a ∈ enabled s true) (hs : step sub s a = some (s', obs)) :
    (∃ t th0 op o, IsSeg sub s t a th0 op o ∧ SegRel s s' t o th0 ∧ s'.subj = o.st) ∨
    ((∃ t, a = .cancel t ∨ a = .fire t) ∧ s'.subj = s.subj) := by
  cases a with
  | start t =>
    obtain ⟨th0, op, o, hseg, r⟩ := step_seg hwf hen hs (Or.inl rfl)
    exact Or.inl ⟨t, th0, op, o, hseg, r, r.subj⟩
  | resume t =>
    obtain ⟨th0, op, o, hseg, r⟩ := step_seg hwf hen hs (Or.inr rfl)
    exact Or.inl ⟨t, th0, op, o, hseg, r, r.subj⟩
  | cancel t =>
    obtain ⟨_, _, _, _, _, h, _⟩ := step_cancel_rel hwf hen hs
    exact Or.inr ⟨⟨t, Or.inl rfl⟩, h⟩
  | fire t =>
    obtain ⟨_, _, _, _, _, h, _⟩ := step_fire_rel hwf hs
    exact Or.inr ⟨⟨t, Or.inr rfl⟩, h⟩

/-- a property of the subject state that every segment preserves holds in every reachable state -/
theorem Reach.subj_inv {sub : Subject σ Op} {s0 s : Sys σ Op} (P : σ → Prop) (hwf0 : s0.WF) (h0 : P s0.subj)
    (hstart : ∀ x t op, P x → P (sub.start x t op).st)
    (hresume : ∀ x t op c, P x → P (sub.resume x t op c).st)
    (hr : Reach sub s0 s) : P s.subj := by
  refine Reach.inv_wf (fun s => P s.subj) hwf0 h0 ?_ hr
  intro s a s' obs _ hwf hp hen hs
  rcases step_subj hwf hen hs with ⟨t, th0, op, o, hseg, _, hsub⟩ | ⟨_, hsub⟩
  · rw [hsub]
    cases hseg with
    | start _ _ _ => exact hstart _ _ _ hp
    | resume _ _ _ => exact hresume _ _ _ _ hp
  · rw [hsub]; exact hp

/-- programs never change -/
theorem Reach.ops_eq {sub : Subject σ Op} {s0 s : Sys σ Op} (hwf0 : s0.WF) (hr : Reach sub s0 s) :
    ∀ u : Nat, (s.ths[u]?).map Th.ops = (s0.ths[u]?).map Th.ops := by
  refine Reach.inv_wf (fun s => ∀ u : Nat, (s.ths[u]?).map Th.ops = (s0.ths[u]?).map Th.ops) hwf0 (fun _ => rfl) ?_ hr
  intro s a s' obs _ hwf hp hen hs u
  rw [← hp u]
  cases a with
  | start t =>
    obtain ⟨th0, op, o, hseg, r⟩ := step_seg hwf hen hs (Or.inl rfl)
    obtain ⟨th, hth, hops, _⟩ := hseg.basic
    by_cases hut : u = t
    · subst hut; rw [r.self, hth]; simp [hops]
    · cases h1 : s.ths[u]? with
      | none => rw [r.none u h1]
      | some th1 =>
        obtain ⟨th', h', w⟩ := r.other u th1 hut h1
        rw [h']; simp [w.ops]
  | resume t =>
    obtain ⟨th0, op, o, hseg, r⟩ := step_seg hwf hen hs (Or.inr rfl)
    obtain ⟨th, hth, hops, _⟩ := hseg.basic
    by_cases hut : u = t
    · subst hut; rw [r.self, hth]; simp [hops]
    · cases h1 : s.ths[u]? with
      | none => rw [r.none u h1]
      | some th1 =>
        obtain ⟨th', h', w⟩ := r.other u th1 hut h1
        rw [h']; simp [w.ops]
  | cancel t =>
    obtain ⟨th, hth, _, _, _, _, hself, hoth⟩ := step_cancel_rel hwf hen hs
    by_cases hut : u = t
    · subst hut; rw [hself, hth]; rfl
    · rw [hoth u hut]
  | fire t =>
    obtain ⟨th, h0, hth, _, _, _, hself, hoth⟩ := step_fire_rel hwf hs
    have hb : ∀ (c : Nat) (x : Th Op), (Th.bwake c x).ops = x.ops := by
      intro c x; unfold Th.bwake; split <;> rfl
    by_cases hut : u = t
    · subst hut; rw [hself, hth]; simp [hb]
    · rw [hoth u hut]; cases s.ths[u]? <;> simp [hb]

/-- a thread that is woken or parked is inside an operation for which `P` holds, provided only
    operations with `P` ever park -/
def WaitingIn (P : Op → Prop) (s : Sys σ Op) : Prop :=
  ∀ (u : Nat) (th : Th Op), s.ths[u]? = some th → (th.st = .woken ∨ ∃ c, th.st = .parked c) →
    ∃ op, th.ops[th.pc]? = some op ∧ P op

theorem initSys_waitingIn (P : Op → Prop) (init : σ) (programs : List (List Op)) :
    WaitingIn P (initSys init programs) := by
  intro u th hth hst
  simp only [initSys, List.getElem?_map] at hth
  cases hp : programs[u]? with
  | none => simp [hp] at hth
  | some p =>
    simp [hp] at hth; subst hth
    exfalso
    rcases hst with h | ⟨c, h⟩
    · simp only at h; split at h <;> cases h
    · simp only at h; split at h <;> cases h

theorem WaitingIn.step {P : Op → Prop} {sub : Subject σ Op} {s s' : Sys σ Op} {a : Act} {obs : String}
    (hw : WaitingIn P s) (hwf : s.WF) (hen : a ∈ enabled s true) (hs : step sub s a = some (s', obs))
    (hpark : ∀ t th0 op o, IsSeg sub s t a th0 op o → ∀ c, o.fin = .park c → P op) : WaitingIn P s' := by
  have seg : ∀ t, (a = .start t ∨ a = .resume t) → WaitingIn P s' := by
    intro t ha u th' hth' hst
    obtain ⟨th0, op, o, hseg, r⟩ := step_seg hwf hen hs ha
    by_cases hut : u = t
    · subst hut
      have he := r.self_eq hth'
      obtain ⟨th, hth, hops, hpc, _, _, hop, _, _⟩ := hseg.basic
      cases hfin : o.fin with
      | ret rv =>
        exfalso
        rw [hfin] at he
        rcases hst with h | ⟨c, h⟩
        · rw [he, finTh_ret] at h; simp only at h; split at h <;> cases h
        · exact finTh_ret_st rv _ c (by rw [← he]; exact h)
      | park c =>
        rw [hfin, finTh_park] at he
        subst he
        exact ⟨op, hop, hpark u th0 op o hseg c hfin⟩
    · obtain ⟨th, hth, w⟩ := r.other_inv hut hth'
      have hst0 : th.st = .woken ∨ ∃ c, th.st = .parked c := by
        rcases w with rfl | ⟨hp, _⟩
        · exact hst
        · exact Or.inr hp
      obtain ⟨op, hop, hP⟩ := hw u th hth hst0
      exact ⟨op, by rw [w.ops, w.pc]; exact hop, hP⟩
  cases a with
  | start t => exact seg t (Or.inl rfl)
  | resume t => exact seg t (Or.inr rfl)
  | cancel t =>
    obtain ⟨th, hth, hst0, _, _, _, hself, hoth⟩ := step_cancel_rel hwf hen hs
    intro u th' hth' hst
    by_cases hut : u = t
    · subst hut; rw [hself] at hth'; cases hth'
      exact hw u th hth hst0
    · rw [hoth u hut] at hth'; exact hw u th' hth' hst
  | fire t =>
    obtain ⟨th, h0, hth, _, _, _, hself, hoth⟩ := step_fire_rel hwf hs
    have key : ∀ (x : Th Op), ((Th.bwake h0.cond x).st = .woken ∨ ∃ c, (Th.bwake h0.cond x).st = .parked c) →
        (x.st = .woken ∨ ∃ c, x.st = .parked c) ∧ (Th.bwake h0.cond x).ops = x.ops ∧ (Th.bwake h0.cond x).pc = x.pc := by
      intro x hx
      unfold Th.bwake at hx ⊢
      split
      · rename_i hp; exact ⟨Or.inr ⟨_, hp⟩, rfl, rfl⟩
      · rename_i hp; simp only [hp, ite_false] at hx; exact ⟨hx, rfl, rfl⟩
    intro u th' hth' hst
    by_cases hut : u = t
    · subst hut; rw [hself] at hth'; cases hth'
      obtain ⟨h1, h2, h3⟩ := key _ hst
      obtain ⟨op, hop, hP⟩ := hw u th hth h1
      exact ⟨op, by rw [h2, h3]; exact hop, hP⟩
    · rw [hoth u hut] at hth'
      cases h1 : s.ths[u]? with
      | none => simp [h1] at hth'
      | some x =>
        simp [h1] at hth'; subst hth'
        obtain ⟨h1', h2, h3⟩ := key _ hst
        obtain ⟨op, hop, hP⟩ := hw u x h1 h1'
        exact ⟨op, by rw [h2, h3]; exact hop, hP⟩

end FunModel.Conc
