import FunGen.QueuePtr
import FunModel.Queue
import FunProofs.PtrCommon
import FunProofs.QueueIter

/-! Pointer level of `pubsub.Queue` (C05, C20): the singly linked chain `front → … → back` of
    queue.go, the representation invariant `R` that relates a heap to a state of the list-level
    model FunModel/Queue.lean, and the proofs that the *generated* link updates of `doAdd` and
    `popFront` (lean/FunGen/QueuePtr.lean) refine the model's list operations. -/
namespace FunProofs.QueuePtr
open FunModel.QueuePtr FunModel.Queue FunModel.Conc FunModel.ConcSubj FunProofs.Ptr

/-! ### heap get/set -/
section simp
variable (h : Heap) (a : Nat) (v : Option Nat) (x : Int)
@[simp] theorem setLink_link (i : Nat) : (h.setLink a v).link i = if i = a then v else h.link i := rfl
@[simp] theorem setLink_item : (h.setLink a v).item = h.item := rfl
@[simp] theorem setLink_front : (h.setLink a v).front = h.front := rfl
@[simp] theorem setLink_back : (h.setLink a v).back = h.back := rfl
@[simp] theorem setLink_nn : (h.setLink a v).nn = h.nn := rfl
@[simp] theorem setFront_link : (h.setFront v).link = h.link := rfl
@[simp] theorem setFront_item : (h.setFront v).item = h.item := rfl
@[simp] theorem setFront_front : (h.setFront v).front = v := rfl
@[simp] theorem setFront_back : (h.setFront v).back = h.back := rfl
@[simp] theorem setFront_nn : (h.setFront v).nn = h.nn := rfl
@[simp] theorem setBack_link : (h.setBack v).link = h.link := rfl
@[simp] theorem setBack_item : (h.setBack v).item = h.item := rfl
@[simp] theorem setBack_front : (h.setBack v).front = h.front := rfl
@[simp] theorem setBack_back : (h.setBack v).back = v := rfl
@[simp] theorem setBack_nn : (h.setBack v).nn = h.nn := rfl
@[simp] theorem alloc_link (i : Nat) : (h.alloc x).1.link i = if i = h.nn then none else h.link i := rfl
@[simp] theorem alloc_item (i : Nat) : (h.alloc x).1.item i = if i = h.nn then x else h.item i := rfl
@[simp] theorem alloc_front : (h.alloc x).1.front = h.front := rfl
@[simp] theorem alloc_back : (h.alloc x).1.back = h.back := rfl
@[simp] theorem alloc_nn : (h.alloc x).1.nn = h.nn + 1 := rfl
@[simp] theorem alloc_snd : (h.alloc x).2 = h.nn := rfl
end simp

/-! ### chains -/

/-- `Path h a xs`: following `link` from `a` visits exactly `xs`, and the last of `a :: xs` has a nil link -/
def Path (h : Heap) : Nat → List Nat → Prop
  | a, [] => h.link a = none
  | a, x :: xs => h.link a = some x ∧ Path h x xs

@[simp] theorem path_nil {h : Heap} {a : Nat} : Path h a [] ↔ h.link a = none := Iff.rfl
@[simp] theorem path_cons {h : Heap} {a x : Nat} {xs : List Nat} :
    Path h a (x :: xs) ↔ h.link a = some x ∧ Path h x xs := Iff.rfl

theorem Path.link_head {h : Heap} {a : Nat} {xs : List Nat} (hp : Path h a xs) : h.link a = xs.head? := by
  cases xs with
  | nil => exact hp
  | cons x xs => exact hp.1

theorem Path.frame {h h' : Heap} {a : Nat} {xs : List Nat} (hp : Path h a xs)
    (hf : ∀ c, c = a ∨ c ∈ xs → h'.link c = h.link c) : Path h' a xs := by
  induction xs generalizing a with
  | nil => simp only [path_nil] at hp ⊢; rw [hf a (Or.inl rfl)]; exact hp
  | cons x xs ih =>
    simp only [path_cons] at hp ⊢
    refine ⟨by rw [hf a (Or.inl rfl)]; exact hp.1, ih hp.2 ?_⟩
    intro c hc; apply hf; rcases hc with rfl | hc <;> simp [*]

/-- the last entry of the chain has a nil link -/
theorem Path.link_last {h : Heap} {a : Nat} {xs : List Nat} (hp : Path h a xs) : h.link (lastD a xs) = none := by
  induction xs generalizing a with
  | nil => exact hp
  | cons x xs ih => exact ih hp.2

/-- appending a fresh entry behind the last one -/
theorem Path.snoc {h h' : Heap} {a e : Nat} {xs : List Nat} (hp : Path h a xs)
    (hn : (a :: xs).Nodup) (he : e ∉ a :: xs)
    (h1 : h'.link (lastD a xs) = some e) (h2 : h'.link e = none)
    (hf : ∀ c, c ≠ lastD a xs → c ≠ e → h'.link c = h.link c) : Path h' a (xs ++ [e]) := by
  induction xs generalizing a with
  | nil => exact ⟨h1, h2⟩
  | cons x xs ih =>
    simp only [List.cons_append, path_cons] at hp ⊢
    simp only [lastD_cons] at h1 hf
    have hax : a ≠ lastD x xs := by
      intro e1
      rcases lastD_mem x xs with e2 | e2
      · rw [← e1] at e2; subst e2; simp at hn
      · rw [← e1] at e2; simp [e2] at hn
    have hae : a ≠ e := by intro e1; subst e1; simp at he
    refine ⟨by rw [hf a hax hae]; exact hp.1, ih hp.2 ?_ ?_ h1 hf⟩
    · exact (List.nodup_cons.1 hn).2
    · intro hm; exact he (List.mem_cons_of_mem _ hm)

/-- unlinking the first entry: the start of the chain takes over its link -/
theorem Path.unlink {h h' : Heap} {a x : Nat} {xs : List Nat} (hp : Path h a (x :: xs))
    (ha : a ∉ xs) (h1 : h'.link a = h.link x) (hf : ∀ c, c ≠ a → h'.link c = h.link c) : Path h' a xs := by
  obtain ⟨_, hp⟩ := hp
  cases xs with
  | nil => simp only [path_nil] at hp ⊢; rw [h1]; exact hp
  | cons y ys =>
    simp only [path_cons] at hp ⊢
    refine ⟨by rw [h1]; exact hp.1, hp.2.frame ?_⟩
    intro c hc
    apply hf
    rintro rfl
    rcases hc with rfl | hc
    · simp at ha
    · exact ha (List.mem_cons_of_mem _ hc)

theorem walk_path {h : Heap} {a : Nat} {xs : List Nat} (hp : Path h a xs) :
    ∀ fuel, xs.length ≤ fuel → h.walk fuel (h.link a) = xs := by
  induction xs generalizing a with
  | nil =>
    intro fuel _
    rw [path_nil] at hp; rw [hp]
    cases fuel <;> rfl
  | cons x xs ih =>
    intro fuel hf
    cases fuel with
    | zero => simp at hf
    | succ f =>
      rw [path_cons] at hp
      rw [hp.1]
      simp only [Heap.walk]
      rw [ih hp.2 f (by simpa using hf)]

/-! ### the representation relation -/

def ids (s : St) : List Nat := s.q.map (·.1)

/-- the heap `h` represents the entry structure of the model state `s` (entry identities are
    addresses; 0 is the sentinel) -/
structure R (h : Heap) (s : St) : Prop where
  /-- `front` is the sentinel -/
  front : h.front = some 0
  /-- `back` is the newest linked entry, or the sentinel when the queue is empty -/
  back : h.back = some s.back
  /-- `front → q₁ → … → qₙ`, and the link of the last one is nil -/
  path : Path h 0 (ids s)
  nodup : (0 :: ids s).Nodup
  lt : ∀ x ∈ ids s, x < h.nn
  nn : h.nn = s.nextId
  pos : 0 < h.nn
  /-- unallocated addresses have nil links -/
  fresh : ∀ c, h.nn ≤ c → h.link c = none
  /-- the `link` field of *every* entry, linked or already removed, is what the model's `linkOf` says
      (this is what the iterators of C20 follow) -/
  links : ∀ c, h.link c = s.linkOf c
  items : ∀ p ∈ s.q, h.item p.1 = p.2
  vals : ∀ c, c ≠ 0 → c < h.nn → h.item c = s.valOf c

/-- the abstraction function: walk from `front.link`, pair every entry with its item -/
def abs (h : Heap) : List (Nat × Int) :=
  (h.walk h.nn (h.front.bind h.link)).map (fun e => (e, h.item e))

theorem back_eq_lastD (s : St) : s.back = lastD 0 (ids s) := by
  rw [lastD_eq_getLast?, ids, List.getLast?_map, St.back]
  cases s.q.getLast? <;> rfl

theorem R.back_zero_iff {h : Heap} {s : St} (hr : R h s) : s.back = 0 ↔ s.q = [] := by
  constructor
  · intro hb
    rw [back_eq_lastD] at hb
    have := lastD_eq_self hr.nodup hb
    simpa [ids] using this
  · intro hq; simp [St.back, hq]

theorem R.abs_eq {h : Heap} {s : St} (hr : R h s) : abs h = s.q := by
  have hlen : (ids s).length ≤ h.nn :=
    length_le_of_nodup_lt _ _ (List.nodup_cons.1 hr.nodup).2 hr.lt
  unfold abs
  rw [hr.front, Option.bind_some, walk_path hr.path _ hlen, ids, List.map_map]
  conv => rhs; rw [← List.map_id s.q]
  apply List.map_congr_left
  intro p hp
  simp [hr.items p hp]

/-- `front == back` (what `popFront` restores) exactly when the model's queue is empty -/
theorem R.back_front_iff {h : Heap} {s : St} (hr : R h s) : h.back = h.front ↔ s.q = [] := by
  rw [hr.back, hr.front, ← hr.back_zero_iff]; simp

theorem R.congr {h : Heap} {s s' : St} (hr : R h s) (hq : s'.q = s.q) (hl : s'.links = s.links)
    (hv : s'.vals = s.vals) (hid : s'.nextId = s.nextId) : R h s' := by
  have hids : ids s' = ids s := by simp [ids, hq]
  have hb : s'.back = s.back := by simp [St.back, hq]
  have hlk : ∀ c, s'.linkOf c = s.linkOf c := fun c => by simp [St.linkOf, hq, hl]
  have hvo : ∀ c, s'.valOf c = s.valOf c := fun c => by simp [St.valOf, hv]
  refine ⟨hr.front, by rw [hb]; exact hr.back, by rw [hids]; exact hr.path, by rw [hids]; exact hr.nodup,
    by rw [hids]; exact hr.lt, by rw [hid]; exact hr.nn, hr.pos, hr.fresh, ?_, by rw [hq]; exact hr.items, ?_⟩
  · intro c; rw [hlk]; exact hr.links c
  · intro c h0 h1; rw [hvo]; exact hr.vals c h0 h1

theorem init_link (c : Nat) : Heap.init.link c = none := by
  simp [Heap.init, Heap.alloc, Heap.setFront, Heap.setBack]

/-- `makeQueue` establishes the relation with every initial model state -/
theorem R.init {s : St} (hq : s.q = []) (hl : s.links = []) (hid : s.nextId = 1) :
    R Heap.init s := by
  refine ⟨rfl, by simp [St.back, hq]; rfl, by simp [ids, hq]; rfl, by simp [ids, hq], by simp [ids, hq],
    by rw [hid]; rfl, by decide, ?_, ?_, by simp [hq], ?_⟩
  · intro c _; exact init_link c
  · intro c
    rw [init_link]
    simp [St.linkOf, hq, hl]
  · intro c h0 h1
    have : Heap.init.nn = 1 := rfl
    omega

/-! ### `doAdd` -/

/-- the heap after the link updates of a successful `doAdd` -/
def addResult (h : Heap) (b : Nat) (v : Int) : Heap := (((h.alloc v).1).setLink b (some h.nn)).setBack (some h.nn)

/-- heaps are equal when all fields agree (used to finish the computation lemmas below whatever the
    order of independent assignments in the source) -/
theorem heap_ext {h1 h2 : Heap} (hl : ∀ c, h1.link c = h2.link c) (hi : ∀ c, h1.item c = h2.item c)
    (hf : h1.front = h2.front) (hb : h1.back = h2.back) (hn : h1.nn = h2.nn) : h1 = h2 := by
  cases h1; cases h2
  simp only at hl hi hf hb hn
  subst hf hb hn
  have e1 := funext hl
  have e2 := funext hi
  subst e1 e2
  rfl

theorem gen_doAdd_ok {h : Heap} {b : Nat} (hb : h.back = some b) (v : Int) :
    FunGen.QueuePtr.doAdd h false false v = some (addResult h b v, 2, none) := by
  simp [FunGen.QueuePtr.doAdd, addResult, hb]
  try (apply heap_ext <;> (try intro c) <;> simp <;> grind)

theorem gen_doAdd_refused (h : Heap) (c2 : Bool) (v : Int) :
    FunGen.QueuePtr.doAdd h true c2 v = some (h, 0, none) ∧ FunGen.QueuePtr.doAdd h false true v = some (h, 1, none) := by
  constructor <;> simp [FunGen.QueuePtr.doAdd]

theorem find_links_cons (l : List (Nat × Nat)) (b e c : Nat) :
    (((b, e) :: l).find? (fun p => p.1 == c)).map (·.2) =
      if b = c then some e else (l.find? (fun p => p.1 == c)).map (·.2) := by
  by_cases hbc : b = c <;> simp [hbc]

theorem R.added {h : Heap} {s s' : St} (hr : R h s) (v : Int)
    (hq : s'.q = s.q ++ [(s.nextId, v)]) (hv : s'.vals = (s.nextId, v) :: s.vals) (hid : s'.nextId = s.nextId + 1)
    (hl : s'.links = if s.back = 0 then s.links else (s.back, s.nextId) :: s.links) :
    R (addResult h s.back v) s' := by
  have hnn := hr.nn
  have hids : ids s' = ids s ++ [h.nn] := by simp [ids, hq, hnn]
  have hb' : s'.back = h.nn := by rw [back_eq_lastD, hids, lastD_snoc]
  have hnew : h.nn ∉ 0 :: ids s := by
    intro hm
    rcases List.mem_cons.1 hm with e | e
    · have := hr.pos; omega
    · have := hr.lt _ e; omega
  have hblt : s.back < h.nn := by
    rcases lastD_mem 0 (ids s) with e | e
    · rw [back_eq_lastD, e]; exact hr.pos
    · rw [back_eq_lastD]; exact hr.lt _ e
  have hbne : s.back ≠ h.nn := by omega
  refine ⟨?_, ?_, ?_, ?_, ?_, ?_, ?_, ?_, ?_, ?_, ?_⟩
  · simpa [addResult] using hr.front
  · simp [addResult, hb']
  · rw [hids]
    refine hr.path.snoc hr.nodup hnew ?_ ?_ ?_
    · simp [addResult, ← back_eq_lastD]
    · simp [addResult, Ne.symm hbne]
    · intro c h1 h2
      rw [← back_eq_lastD] at h1
      simp [addResult, h1, h2]
  · rw [hids]
    have : (0 :: (ids s ++ [h.nn])) = (0 :: ids s) ++ [h.nn] := rfl
    rw [this, List.nodup_append]
    refine ⟨hr.nodup, by simp, ?_⟩
    intro a ha b hb
    simp only [List.mem_singleton] at hb
    subst hb
    intro e; subst e; exact hnew ha
  · intro x hx
    rw [hids] at hx
    simp only [addResult, setBack_nn, setLink_nn, alloc_nn]
    rcases List.mem_append.1 hx with e | e
    · have := hr.lt x e; omega
    · simp at e; omega
  · simp [addResult, hid, hnn]
  · simp [addResult]
  · intro c hc
    simp only [addResult, setBack_nn, setLink_nn, alloc_nn] at hc
    have h1 : c ≠ s.back := by omega
    have h2 : c ≠ h.nn := by omega
    simp only [addResult, setBack_link, setLink_link, alloc_link, h1, h2, if_false]
    exact hr.fresh c (by omega)
  · intro c
    have hfr : s.linkOf h.nn = none := by rw [← hr.links]; exact hr.fresh _ (Nat.le_refl _)
    have h0nn : h.nn ≠ 0 := by have := hr.pos; omega
    simp only [addResult, setBack_link, setLink_link, alloc_link]
    by_cases hb0 : s.back = 0
    · -- the queue was empty: the sentinel's link is the new entry
      have hqe : s.q = [] := hr.back_zero_iff.1 hb0
      rw [if_pos hb0] at hl
      rw [hb0]
      by_cases hc0 : c = 0
      · subst hc0
        simp [St.linkOf, hq, hqe, hnn]
      · have e1 : s'.linkOf c = s.linkOf c := by simp [St.linkOf, hc0, hl]
        rw [if_neg hc0, e1]
        by_cases hcn : c = h.nn
        · subst hcn; simp [hfr]
        · simp only [hcn, if_false]; exact hr.links c
    · rw [if_neg hb0] at hl
      have hqne : s.q ≠ [] := fun e => hb0 (hr.back_zero_iff.2 e)
      by_cases hc0 : c = 0
      · subst hc0
        have e0 : (0 : Nat) ≠ s.back := fun e => hb0 e.symm
        have e1 : (0 : Nat) ≠ h.nn := fun e => h0nn e.symm
        rw [if_neg e0, if_neg e1, hr.links 0]
        cases hqq : s.q with
        | nil => exact absurd hqq hqne
        | cons p rest => simp [St.linkOf, hq, hqq]
      · have e1 : s'.linkOf c = if s.back = c then some s.nextId else s.linkOf c := by
          simp only [St.linkOf, hc0, if_false, hl]
          exact find_links_cons _ _ _ _
        rw [e1]
        by_cases hcb : c = s.back
        · subst hcb; simp [hnn]
        · have hcb' : s.back ≠ c := fun e => hcb e.symm
          rw [if_neg hcb, if_neg hcb']
          by_cases hcn : c = h.nn
          · subst hcn; simp [hfr]
          · simp only [hcn, if_false]; exact hr.links c
  · intro p hp
    rw [hq] at hp
    simp only [addResult, setBack_item, setLink_item, alloc_item]
    rcases List.mem_append.1 hp with e | e
    · have hlt := hr.lt p.1 (by simp only [ids]; exact List.mem_map_of_mem e)
      have : p.1 ≠ h.nn := by omega
      rw [if_neg this]; exact hr.items p e
    · simp only [List.mem_singleton] at e; subst e; simp [hnn]
  · intro c h0 h1
    simp only [addResult, setBack_nn, setLink_nn, alloc_nn] at h1
    simp only [addResult, setBack_item, setLink_item, alloc_item]
    by_cases hcn : c = h.nn
    · subst hcn; simp [St.valOf, hv, hnn]
    · rw [if_neg hcn]
      have : s'.valOf c = s.valOf c := by
        have : ¬ s.nextId = c := by rw [← hnn]; exact fun e => hcn e.symm
        simp [St.valOf, hv, this]
      rw [this]; exact hr.vals c h0 (by omega)

/-! ### `popFront` -/

/-- the heap after the link updates of `popFront` when the first entry is `e` -/
def popResult (h : Heap) (e : Nat) : Heap :=
  let h1 := h.setLink 0 (h.link e)
  if some e = h.back then h1.setBack h.front else h1

theorem gen_popFront_ok {h : Heap} {e : Nat} (hf : h.front = some 0) (he : h.link 0 = some e) :
    FunGen.QueuePtr.popFront h = some (popResult h e, 0, some (h.item e)) := by
  unfold popResult
  by_cases hb : h.back = some e
  · simp [FunGen.QueuePtr.popFront, hf, he, hb]
    try (apply heap_ext <;> (try intro c) <;> simp <;> grind)
  · have hb' : ¬ some e = h.back := fun x => hb x.symm
    simp [FunGen.QueuePtr.popFront, hf, he, hb']
    try (apply heap_ext <;> (try intro c) <;> simp <;> grind)

/-- on an empty queue `popFront` dereferences nil (`e.link` with `e == nil`) -/
theorem gen_popFront_empty {h : Heap} (hf : h.front = some 0) (he : h.link 0 = none) :
    FunGen.QueuePtr.popFront h = none := by
  simp [FunGen.QueuePtr.popFront, hf, he]

theorem R.popped {h : Heap} {s s' : St} (hr : R h s) {p : Nat × Int} {rest : List (Nat × Int)}
    (hs : s.q = p :: rest) (hq : s'.q = rest) (hl : s'.links = s.links) (hv : s'.vals = s.vals)
    (hid : s'.nextId = s.nextId) : R (popResult h p.1) s' := by
  have hids : ids s = p.1 :: ids s' := by simp [ids, hs, hq]
  have hpath := hr.path
  have hnd := hr.nodup
  rw [hids] at hpath hnd
  have hp0 : p.1 ≠ 0 := by intro e; simp [e] at hnd
  have h0r : 0 ∉ ids s' := by intro e; simp [e] at hnd
  have hpr : p.1 ∉ ids s' := by intro e; simp [e] at hnd
  -- the link structure after the update, whichever way the test on `back` goes
  have hlink : ∀ c, (popResult h p.1).link c = if c = 0 then h.link p.1 else h.link c := by
    intro c; unfold popResult; split <;> simp
  have hitem : (popResult h p.1).item = h.item := by unfold popResult; split <;> simp
  have hnn' : (popResult h p.1).nn = h.nn := by unfold popResult; split <;> simp
  have hfront : (popResult h p.1).front = h.front := by unfold popResult; split <;> simp
  have hlk : ∀ c, c ≠ 0 → s'.linkOf c = s.linkOf c := fun c hc => by simp [St.linkOf, hc, hl]
  refine ⟨by rw [hfront]; exact hr.front, ?_, ?_, ?_, ?_, ?_, ?_, ?_, ?_, ?_, ?_⟩
  · -- `back`
    have hb := hr.back
    rw [back_eq_lastD, hids, lastD_cons] at hb
    unfold popResult
    by_cases hlast : some p.1 = h.back
    · rw [if_pos hlast]
      rw [hb] at hlast
      have hnil : ids s' = [] := lastD_eq_self (List.nodup_cons.1 hnd).2 (Option.some.inj hlast).symm
      simp only [setBack_back, hr.front, back_eq_lastD, hnil, lastD_nil]
    · rw [if_neg hlast]
      simp only [setLink_back, hb]
      rw [back_eq_lastD]
      have hne : ids s' ≠ [] := by
        intro e; rw [e] at hb; exact hlast (by rw [hb]; rfl)
      rw [lastD_cons_of_ne_nil p.1 hne 0]
  · refine hpath.unlink h0r ?_ ?_
    · simp [hlink]
    · intro c hc; simp [hlink, hc]
  · exact List.nodup_cons.2 ⟨h0r, (List.nodup_cons.1 (List.nodup_cons.1 hnd).2).2⟩
  · intro x hx; rw [hnn']; exact hr.lt x (by rw [hids]; exact List.mem_cons_of_mem _ hx)
  · rw [hnn', hid]; exact hr.nn
  · rw [hnn']; exact hr.pos
  · intro c hc
    rw [hnn'] at hc
    have : c ≠ 0 := by have := hr.pos; omega
    rw [hlink, if_neg this]; exact hr.fresh c hc
  · intro c
    rw [hlink]
    by_cases hc0 : c = 0
    · subst hc0
      rw [if_pos rfl, hpath.2.link_head]
      simp [St.linkOf, ids]
    · rw [if_neg hc0, hlk c hc0]; exact hr.links c
  · intro x hx
    rw [hitem]; exact hr.items x (by rw [hs]; exact List.mem_cons_of_mem _ (hq ▸ hx))
  · intro c h0 h1
    rw [hnn'] at h1
    rw [hitem]
    have : s'.valOf c = s.valOf c := by simp [St.valOf, hv]
    rw [this]; exact hr.vals c h0 h1

/-! ### every step of the model is a step of the generated pointer code -/

/-- one call of a generated function (or none) -/
inductive PStep (h : Heap) : Heap → Prop where
  | none : PStep h h
  | add (v : Int) (h' : Heap) (c1 c2 : Bool) (k : Nat) (hg : FunGen.QueuePtr.doAdd h c1 c2 v = some (h', k, none)) : PStep h h'
  | pop (v : Int) (h' : Heap) (hg : FunGen.QueuePtr.popFront h = some (h', 0, some v)) : PStep h h'

/-- heaps reachable from `makeQueue` by calls of the generated `doAdd` / `popFront` -/
inductive PReach : Heap → Prop where
  | init : PReach Heap.init
  | step {h h' : Heap} : PReach h → PStep h h' → PReach h'

theorem R.effect {h : Heap} {s : St} (hr : R h s) {op : Op} {o : SegOut St} (he : QEffect s op o) :
    ∃ h', PStep h h' ∧ R h' o.st := by
  cases he with
  | same hq hl hv hid _ _ => exact ⟨h, .none, hr.congr hq hl hv hid⟩
  | added v _ _ hq hv hid hl _ =>
    exact ⟨_, .add v _ false false 2 (gen_doAdd_ok hr.back v), hr.added v hq hv hid hl⟩
  | popped p rest _ hs hq _ hl hv hid _ =>
    have hp := hr.path
    have : ids s = p.1 :: rest.map (·.1) := by simp [ids, hs]
    rw [this] at hp
    exact ⟨_, .pop _ _ (gen_popFront_ok hr.front hp.1), hr.popped hs hq hl hv hid⟩

theorem R.seg {h : Heap} {s : St} (hS : SInv s) (hr : R h s) {t : Nat} {op : Op} {first c : Bool} {o : SegOut St}
    (hs : IsSeg s t op first c o) : ∃ h', PStep h h' ∧ R h' o.st := by
  by_cases hn : op.isNext = true
  · obtain ⟨k, rfl⟩ : ∃ k, op = .next k := by cases op <;> simp [Op.isNext] at hn; exact ⟨_, rfl⟩
    obtain ⟨_, _, f3, f4, f5, f6⟩ := next_frame s t k c o hs.next_cases
    exact ⟨h, .none, hr.congr f3 f4 f5 f6⟩
  · exact hr.effect (seg_effect hS hs (by simpa using hn))

/-! ### the model's functions against the generated ones, all branches -/

theorem doAdd_refines {h : Heap} {s : St} (hr : R h s) (v : Int) :
    ∃ h' k, FunGen.QueuePtr.doAdd h s.closed (s.tracker.add.2 != .ok) v = some (h', k, none) ∧
      R h' (doAdd s v).1 ∧ (k = 2 ↔ (doAdd s v).2.1 = "ok") := by
  unfold FunModel.Queue.doAdd
  by_cases hc : s.closed = true
  · simp only [hc, if_true]
    exact ⟨h, 0, (gen_doAdd_refused h _ v).1, hr, by simp⟩
  · have hc' : s.closed = false := by simpa using hc
    simp only [hc', Bool.false_eq_true, if_false]
    cases hadd : s.tracker.add with
    | mk tr r =>
      cases r with
      | ok => exact ⟨_, 2, gen_doAdd_ok hr.back v, hr.added v rfl rfl rfl rfl, by simp⟩
      | full => exact ⟨h, 1, (gen_doAdd_refused h false v).2, hr, by simp⟩
      | noCredit => exact ⟨h, 1, (gen_doAdd_refused h false v).2, hr, by simp⟩

theorem popFront_refines {h : Heap} {s : St} (hr : R h s) (hne : s.q ≠ []) :
    ∃ h', FunGen.QueuePtr.popFront h = some (h', 0, some (popFront s).2.1) ∧ R h' (popFront s).1 ∧
      (h'.back = h'.front ↔ (popFront s).1.q = []) := by
  cases hq : s.q with
  | nil => exact absurd hq hne
  | cons p rest =>
    obtain ⟨e, x⟩ := p
    have hp := hr.path
    have hi : ids s = e :: rest.map (·.1) := by simp [ids, hq]
    rw [hi] at hp
    have hit : h.item e = x := hr.items (e, x) (by rw [hq]; simp)
    have hr' : R (popResult h e) (popFront s).1 := by
      have := hr.popped (s' := (popFront s).1) (p := (e, x)) hq (by simp [popFront, hq]) (by simp [popFront, hq])
        (by simp [popFront, hq]) (by simp [popFront, hq])
      exact this
    refine ⟨popResult h e, ?_, hr', hr'.back_front_iff⟩
    rw [gen_popFront_ok hr.front hp.1, hit]
    simp [popFront, hq]

/-- the popped entry keeps its own `link` (the iterator of C20 may still stand on it) -/
theorem popFront_keeps_link {h : Heap} {s : St} (hr : R h s) {e : Nat} (he : h.link 0 = some e) :
    (popResult h e).link e = h.link e := by
  have hp := hr.path
  have hnd := hr.nodup
  have he0 : e ≠ 0 := by
    intro e0; subst e0
    cases hi : ids s with
    | nil => rw [hi] at hp; simp only [path_nil] at hp; rw [hp] at he; cases he
    | cons x xs =>
      rw [hi] at hp hnd; simp only [path_cons] at hp
      rw [hp.1] at he; cases he; simp at hnd
  unfold popResult; split <;> simp [he0]

/-! ### the same, stated on heaps alone: `abs (ptrOp h) = listOp (abs h)` -/

/-- the representation invariant of the heap: a nil-terminated duplicate-free chain from the sentinel
    `front` to `back` (some model state is represented) -/
def Inv (h : Heap) : Prop := ∃ s, R h s

theorem Inv.init : Inv Heap.init ∧ abs Heap.init = [] := by
  have hr : R Heap.init mkUnlimited := R.init rfl rfl rfl
  exact ⟨⟨_, hr⟩, hr.abs_eq⟩

theorem Inv.doAdd {h : Heap} (hi : Inv h) (v : Int) :
    ∃ h', FunGen.QueuePtr.doAdd h false false v = some (h', 2, none) ∧ Inv h' ∧ abs h' = abs h ++ [(h.nn, v)] := by
  obtain ⟨s, hr⟩ := hi
  let s' : St := { s with q := s.q ++ [(s.nextId, v)], vals := (s.nextId, v) :: s.vals, nextId := s.nextId + 1,
                          links := if s.back = 0 then s.links else (s.back, s.nextId) :: s.links }
  have hr' : R (addResult h s.back v) s' := hr.added v rfl rfl rfl rfl
  refine ⟨_, gen_doAdd_ok hr.back v, ⟨s', hr'⟩, ?_⟩
  rw [hr'.abs_eq, hr.abs_eq, hr.nn]

theorem Inv.popFront {h : Heap} (hi : Inv h) {e : Nat} {x : Int} {rest : List (Nat × Int)} (ha : abs h = (e, x) :: rest) :
    ∃ h', FunGen.QueuePtr.popFront h = some (h', 0, some x) ∧ Inv h' ∧ abs h' = rest ∧
      (h'.back = h'.front ↔ rest = []) ∧ h'.link e = h.link e := by
  obtain ⟨s, hr⟩ := hi
  rw [hr.abs_eq] at ha
  have hne : s.q ≠ [] := by rw [ha]; simp
  obtain ⟨h', hg, hr', hb⟩ := popFront_refines hr hne
  have hq' : (FunModel.Queue.popFront s).1.q = rest := by simp [FunModel.Queue.popFront, ha]
  have hx : (FunModel.Queue.popFront s).2.1 = x := by simp [FunModel.Queue.popFront, ha]
  have hp := hr.path
  have hids : ids s = e :: rest.map (·.1) := by simp [ids, ha]
  rw [hids] at hp
  have hh : h' = popResult h e := by
    have := gen_popFront_ok hr.front hp.1
    rw [hg] at this
    exact (Prod.mk.inj (Option.some.inj this)).1
  refine ⟨h', by rw [hg, hx], ⟨_, hr'⟩, by rw [hr'.abs_eq, hq'], by rw [hb, hq'], ?_⟩
  rw [hh]; exact popFront_keeps_link hr hp.1

theorem Inv.popFront_empty {h : Heap} (hi : Inv h) (ha : abs h = []) : FunGen.QueuePtr.popFront h = none := by
  obtain ⟨s, hr⟩ := hi
  rw [hr.abs_eq] at ha
  have hp := hr.path
  simp only [ids, ha, List.map_nil, path_nil] at hp
  exact gen_popFront_empty hr.front hp

def RunInv (_ : List (Ev St Op)) (x : St) : Prop := SInv x ∧ ∃ hp, PReach hp ∧ R hp x

/-- in every reachable state of the concurrent system the model's entry structure is represented by a heap
    that the generated code produces from `makeQueue`'s -/
theorem run_rep {q0 : St} (h0 : InitQ q0) {programs : List (List Op)} {log : List (Ev St Op)} {s : Sys St Op}
    (h : Reach' subject (initSys q0 programs) log s) : ∃ hp, PReach hp ∧ R hp s.subj := by
  have key : RunInv log s.subj := by
    refine Reach'.induction RunInv ?_ ?_ ?_ h
    · obtain ⟨e1, _, e3, _, e5, _, _⟩ := h0.empty
      exact ⟨h0.sinv, Heap.init, .init, R.init e1 e3 e5⟩
    · intro log x t pc op first c hI hc hb
      obtain ⟨hS, hp, hreach, hr⟩ := hI
      have hseg : IsSeg x t op first c (segOut subject x t op first c) := ⟨rfl, hc, fun hf => canPark_blocking (hb hf)⟩
      obtain ⟨h', hst, hr'⟩ := hr.seg hS hseg
      exact ⟨seg_sinv hS hseg, h', .step hreach hst, hr'⟩
    · intro log x a hI; exact hI
  exact key.2

end FunProofs.QueuePtr
