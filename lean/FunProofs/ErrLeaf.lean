import FunProofs.Err

/-! errors.As with a leaf-typed target (`*ers.Error`): the same development as for `Err.as`. -/
namespace FunModel
open FunModel

def asLeafOpt (p : Nat → Bool) (o : Option Err) : Option Nat :=
  match o with | none => none | some r => r.asLeaf p

theorem ErrList.asLeafFirst_ofErrs (p : Nat → Bool) (xs : List Err) :
    (ErrList.ofErrs xs).asLeafFirst p = xs.findSome? (fun c => c.asLeaf p) := by
  induction xs with
  | nil => simp [ErrList.ofErrs, ErrList.asLeafFirst]
  | cons x xs ih =>
    simp only [ErrList.ofErrs, ErrList.asLeafFirst, ih, List.findSome?_cons]
    cases x.asLeaf p <;> simp [Option.orElse]

theorem resolve_asLeaf (p : Nat → Bool) (xs : List Err) :
    asLeafOpt p (resolve xs) = xs.findSome? (fun c => c.asLeaf p) := by
  match xs with
  | [] => simp [resolve, asLeafOpt]
  | [x] => simp [resolve, asLeafOpt]
  | x :: y :: r => simp only [resolve, asLeafOpt, Err.asLeaf, ErrList.asLeafFirst_ofErrs]

end FunModel
