import FunProofs.BrokerOnce

/-! C08/C09: the log of a reachable state mirrors its history (what was received, what was published,
    which subscribers are in the map); every event of the log passes the check of the outcome
    predicate against its past (`eventsOk`). -/
namespace FunProofs.Broker
open FunModel.Broker

theorem log_recvs_step {c : Cfg} {s s' : St} {a : Act} (h : Step c s a s')
    (hi : ∀ k, recvs k s.log = s.recvd k) : ∀ k, recvs k s'.log = s'.recvd k := by
  cases h <;> intro k <;> simp only [recvs] <;> first
    | exact hi k
    | (simp only [upd_apply]; split
       · rename_i he; subst he; simp [hi]
       · rename_i he; simp [hi, Ne.symm he])

theorem log_live_step {c : Cfg} {s s' : St} {a : Act} (h : Step c s a s')
    (hi : stopped s.log = !s.live) : stopped s'.log = !s'.live := by
  cases h <;> simp [stopped] at hi ⊢ <;> first | exact hi | skip

theorem log_pubc_step {c : Cfg} {s s' : St} {a : Act} (h : Step c s a s')
    (hi : ∀ m, m ∈ s.published → Ev.pubCall m ∈ s.log) : ∀ m, m ∈ s'.published → Ev.pubCall m ∈ s'.log := by
  cases h <;> intro m hm <;> first
    | exact hi m hm
    | exact List.mem_cons_of_mem _ (hi m hm)
    | skip
  case pubCall p hp =>
    rcases List.mem_cons.mp hm with h | h
    · subst h; exact List.mem_cons_self
    · exact List.mem_cons_of_mem _ (hi m h)

theorem log_pubr_step {c : Cfg} {s s' : St} {a : Act} (hu : Uniq s) (h : Step c s a s')
    (hi : ∀ m, Ev.pubRet m ∈ s.log → m ∈ s.published) : ∀ m, Ev.pubRet m ∈ s'.log → m ∈ s'.published := by
  cases h <;> intro m hm <;> first
    | exact hi m hm
    | (simp only [List.mem_cons, reduceCtorEq, false_or] at hm; exact hi m hm)
    | skip
  case pubCall p hp =>
    simp only [List.mem_cons, reduceCtorEq, false_or] at hm
    exact List.mem_cons_of_mem _ (hi m hm)
  case loopTake i m0 x hl hc =>
    simp only [List.mem_cons, Ev.pubRet.injEq] at hm
    rcases hm with h | h
    · subst h
      apply hu.pub
      have h1 := count_flatMap_ge Call.msgs m s.calls i _ hc
      simp only [Call.msgs, List.count_cons_self, List.count_nil] at h1
      rw [count_flight]; simp only [callMsgs]; omega
    · exact hi m h

theorem insertSub_nodup {k : Sub} {l : List Sub} (h : l.Nodup) : (insertSub k l).Nodup := by
  simp only [insertSub]; split
  · exact h
  · rename_i hn
    rw [List.nodup_append]
    refine ⟨h, by simp, ?_⟩
    intro a ha b hb
    simp only [List.mem_singleton] at hb
    subst hb
    intro he; subst he; exact hn ha

theorem log_subsNodup_step {c : Cfg} {s s' : St} {a : Act} (h : Step c s a s')
    (hi : s.subs.Nodup) : s'.subs.Nodup := by
  cases h <;> first
    | exact hi
    | exact insertSub_nodup hi
    | exact hi.erase _

theorem log_subRetLt_step {c : Cfg} {s s' : St} {a : Act} (hw : WF c s) (h : Step c s a s')
    (hi : ∀ k, Ev.subRet k ∈ s.log → k < s.nextSub) : ∀ k, Ev.subRet k ∈ s'.log → k < s'.nextSub := by
  cases h <;> intro k hk <;> first
    | exact hi k hk
    | (simp only [List.mem_cons, reduceCtorEq, false_or] at hk; exact hi k hk)
    | skip
  case subCall => exact Nat.lt_succ_of_lt (hi k hk)
  case enqSub i k0 x hc hq =>
    simp only [List.mem_cons, Ev.subRet.injEq] at hk
    rcases hk with h | h
    · subst h; exact hw.callLt _ (List.mem_of_getElem? hc) _ rfl
    · exact hi k h
  case loopSub i k0 x hl hc =>
    simp only [List.mem_cons, Ev.subRet.injEq] at hk
    rcases hk with h | h
    · subst h; exact hw.callLt _ (List.mem_of_getElem? hc) _ rfl
    · exact hi k h

def callSubIds (cl : Call) : List Sub :=
  match cl.kind with
  | .sub k => [k]
  | _ => []

def subIds (calls : List Call) : List Sub := calls.flatMap callSubIds

theorem count_subIds_erase {calls : List Call} {i : Nat} {cl : Call} (h : calls[i]? = some cl) (k : Sub) :
    (subIds (calls.eraseIdx i)).count k + (callSubIds cl).count k = (subIds calls).count k :=
  count_flatMap_eraseIdx callSubIds k calls i cl h

theorem count_subIds_set {calls : List Call} {i : Nat} {cl cl' : Call} (h : calls[i]? = some cl)
    (hm : callSubIds cl' = callSubIds cl) (k : Sub) : (subIds (calls.set i cl')).count k = (subIds calls).count k := by
  have := count_flatMap_set callSubIds k calls i cl cl' h
  rw [hm] at this
  simpa [subIds] using this

theorem log_subOnce_step {c : Cfg} {s s' : St} {a : Act} (hw : WF c s)
    (hlt : ∀ k, Ev.subRet k ∈ s.log → k < s.nextSub) (h : Step c s a s')
    (hi : ∀ k, (subIds s.calls).count k + s.log.count (Ev.subRet k) ≤ 1) :
    ∀ k, (subIds s'.calls).count k + s'.log.count (Ev.subRet k) ≤ 1 := by
  cases h <;> intro k <;> have hk := hi k <;> first
    | exact hk
    | (simp only [List.count_cons, reduceCtorEq, beq_iff_eq, if_false, Nat.add_zero]; exact hk)
    | skip
  case subCall =>
    have h1 : (subIds s.calls).count s.nextSub = 0 := by
      apply List.count_eq_zero.mpr
      intro hmem
      simp only [subIds, List.mem_flatMap] at hmem
      obtain ⟨cl, hcl, hin⟩ := hmem
      simp only [callSubIds] at hin
      split at hin
      · rename_i k' hk'
        simp only [List.mem_singleton] at hin
        have := hw.callLt cl hcl k' hk'
        rw [← hin] at this
        exact absurd this (Nat.lt_irrefl _)
      · cases hin
    have h2 : s.log.count (Ev.subRet s.nextSub) = 0 := by
      apply List.count_eq_zero.mpr
      intro hmem
      exact absurd (hlt _ hmem) (Nat.lt_irrefl _)
    have h3 : (subIds (s.calls ++ [{ kind := CallKind.sub s.nextSub }])).count k
        = (subIds s.calls).count k + (if k = s.nextSub then 1 else 0) := by
      simp only [subIds, List.flatMap_append, List.count_append, List.flatMap_cons, List.flatMap_nil,
        callSubIds, List.append_nil, List.count_cons, List.count_nil, beq_iff_eq]
      by_cases he : k = s.nextSub
      · simp [he]
      · have : ¬ s.nextSub = k := fun h => he h.symm
        simp [he, this]
    simp only [h3]
    by_cases he : k = s.nextSub
    · subst he; simp; omega
    · simp [he]; exact hk
  case unsubCall k0 =>
    simp only [subIds, List.flatMap_append, List.count_append, List.count_cons] at hk ⊢
    simpa [callSubIds] using hk
  case pubCall p hp =>
    simp only [subIds, List.flatMap_append, List.count_append, List.count_cons] at hk ⊢
    simpa [callSubIds] using hk
  case statsCall =>
    simp only [subIds, List.flatMap_append, List.count_append] at hk ⊢
    simpa [callSubIds] using hk
  case waitCall =>
    simp only [subIds, List.flatMap_append, List.count_append] at hk ⊢
    simpa [callSubIds] using hk
  case cancelCall i cl hc =>
    rw [count_subIds_set hc (by simp [callSubIds])]; exact hk
  case enqSub i k0 x hc hq =>
    have h1 := count_subIds_erase hc k
    dsimp only
    simp only [callSubIds, List.count_cons, List.count_nil, beq_iff_eq, Ev.subRet.injEq] at h1 ⊢
    by_cases he : k0 = k
    · subst he; simp at h1 ⊢; omega
    · simp [he] at h1 ⊢; omega
  case enqUnsub i k0 x hc hq =>
    have h1 := count_subIds_erase hc k
    dsimp only
    simp only [callSubIds, List.count_nil] at h1; omega
  case callAbort i cl hc hx =>
    have h1 := count_subIds_erase hc k
    dsimp only
    omega
  case waitRet i x hc hl hw' =>
    have h1 := count_subIds_erase hc k
    dsimp only
    simp only [callSubIds, List.count_nil] at h1; omega
  case loopSub i k0 x hl hc =>
    have h1 := count_subIds_erase hc k
    dsimp only
    simp only [callSubIds, List.count_cons, List.count_nil, beq_iff_eq, Ev.subRet.injEq] at h1 ⊢
    by_cases he : k0 = k
    · subst he; simp at h1 ⊢; omega
    · simp [he] at h1 ⊢; omega
  case loopUnsub i k0 x hl hc =>
    have h1 := count_subIds_erase hc k
    dsimp only
    simp only [callSubIds, List.count_nil] at h1; omega
  case loopStats i x hl hc =>
    have h1 := count_subIds_erase hc k
    dsimp only
    simp only [callSubIds, List.count_nil] at h1; omega
  case loopTake i m x hl hc =>
    have h1 := count_subIds_erase hc k
    dsimp only
    simp only [callSubIds, List.count_nil, List.count_cons, reduceCtorEq, beq_iff_eq] at h1 ⊢
    simp; omega

theorem log_unsub_step {c : Cfg} {s s' : St} {a : Act} (h : Step c s a s')
    (hi : (∀ cl ∈ s.calls, ∀ k, cl.kind = CallKind.unsub k → Ev.unsubCall k ∈ s.log) ∧
      ∀ k ∈ s.unsubQ, Ev.unsubCall k ∈ s.log) :
    (∀ cl ∈ s'.calls, ∀ k, cl.kind = CallKind.unsub k → Ev.unsubCall k ∈ s'.log) ∧
      ∀ k ∈ s'.unsubQ, Ev.unsubCall k ∈ s'.log := by
  obtain ⟨h1, h2⟩ := hi
  have app : ∀ (cl0 : Call) (l : List Ev), (∀ k, cl0.kind = CallKind.unsub k → Ev.unsubCall k ∈ l) →
      (∀ e ∈ s.log, e ∈ l) → ∀ cl ∈ s.calls ++ [cl0], ∀ k, cl.kind = CallKind.unsub k → Ev.unsubCall k ∈ l := by
    intro cl0 l h0 hsub cl hcl k hk
    simp only [List.mem_append, List.mem_singleton] at hcl
    rcases hcl with hcl | hcl
    · exact hsub _ (h1 cl hcl k hk)
    · subst hcl; exact h0 k hk
  cases h
  case subCall => exact ⟨app _ _ (by simp) (fun e he => he), h2⟩
  case unsubCall k0 =>
    refine ⟨app _ _ ?_ (fun e he => List.mem_cons_of_mem _ he), fun k hk => List.mem_cons_of_mem _ (h2 k hk)⟩
    intro k hk; simp at hk; subst hk; exact List.mem_cons_self
  case pubCall p hp =>
    exact ⟨app _ _ (by simp) (fun e he => List.mem_cons_of_mem _ he), fun k hk => List.mem_cons_of_mem _ (h2 k hk)⟩
  case statsCall => exact ⟨app _ _ (by simp) (fun e he => he), h2⟩
  case waitCall => exact ⟨app _ _ (by simp) (fun e he => he), h2⟩
  case cancelCall i cl hc =>
    refine ⟨?_, h2⟩
    intro x hx k hk
    rcases List.mem_or_eq_of_mem_set hx with hx | hx
    · exact h1 x hx k hk
    · subst hx; exact h1 cl (List.mem_of_getElem? hc) k hk
  case enqUnsub i k0 x hc hq =>
    refine ⟨fun cl hcl => h1 cl (List.mem_of_mem_eraseIdx hcl), ?_⟩
    intro k hk
    simp only [List.mem_append, List.mem_singleton] at hk
    rcases hk with hk | hk
    · exact h2 k hk
    · subst hk; exact h1 _ (List.mem_of_getElem? hc) _ rfl
  case loopUnsubQ k0 rest hl hq =>
    exact ⟨h1, fun k hk => h2 k (by rw [hq]; exact List.mem_cons_of_mem _ hk)⟩
  all_goals first
    | exact ⟨h1, h2⟩
    | exact ⟨fun cl hcl => h1 cl (List.mem_of_mem_eraseIdx hcl), h2⟩
    | exact ⟨fun cl hcl k hk => List.mem_cons_of_mem _ (h1 cl hcl k hk), fun k hk => List.mem_cons_of_mem _ (h2 k hk)⟩
    | exact ⟨fun cl hcl k hk => List.mem_cons_of_mem _ (h1 cl (List.mem_of_mem_eraseIdx hcl) k hk),
        fun k hk => List.mem_cons_of_mem _ (h2 k hk)⟩

theorem log_qlen_step {c : Cfg} {s s' : St} {a : Act} (h : Step c s a s')
    (hi : s.subQ.length ≤ c.bufSize ∧ s.unsubQ.length ≤ c.bufSize) :
    s'.subQ.length ≤ c.bufSize ∧ s'.unsubQ.length ≤ c.bufSize := by
  obtain ⟨h1, h2⟩ := hi
  cases h <;> first
    | exact ⟨h1, h2⟩
    | skip
  case enqSub i k x hc hq => exact ⟨by simp; omega, h2⟩
  case enqUnsub i k x hc hq => exact ⟨h1, by simp; omega⟩
  case loopSubQ k rest hl hq => rw [hq] at h1; exact ⟨by simp at h1; dsimp only; omega, h2⟩
  case loopUnsubQ k rest hl hq => rw [hq] at h2; exact ⟨h1, by simp at h2; dsimp only; omega⟩

theorem mem_insertSub_self (k : Sub) (l : List Sub) : k ∈ insertSub k l := by
  simp only [insertSub]; split
  · assumption
  · simp

theorem mem_insertSub_of_mem {k x : Sub} {l : List Sub} (h : x ∈ l) : x ∈ insertSub k l := by
  simp only [insertSub]; split
  · exact h
  · exact List.mem_append_left _ h

theorem log_inMap_step {c : Cfg} (hb : c.bufSize = 0) {s s' : St} {a : Act} (h : Step c s a s')
    (hun : (∀ cl ∈ s.calls, ∀ k, cl.kind = CallKind.unsub k → Ev.unsubCall k ∈ s.log) ∧
      ∀ k ∈ s.unsubQ, Ev.unsubCall k ∈ s.log)
    (hi : ∀ k, Ev.subRet k ∈ s.log → Ev.unsubCall k ∉ s.log → k ∈ s.subs) :
    ∀ k, Ev.subRet k ∈ s'.log → Ev.unsubCall k ∉ s'.log → k ∈ s'.subs := by
  cases h <;> intro k hs hn <;> first
    | exact hi k hs hn
    | (simp only [List.mem_cons, reduceCtorEq, false_or, not_or] at hs hn; exact hi k hs hn)
    | skip
  case unsubCall k0 =>
    simp only [List.mem_cons, reduceCtorEq, false_or, not_or] at hs hn
    exact hi k hs hn.2
  case enqSub i k0 x hc hq => omega
  case loopSubQ k0 rest hl hq => exact mem_insertSub_of_mem (hi k hs hn)
  case loopSub i k0 x hl hc =>
    simp only [List.mem_cons, Ev.subRet.injEq, reduceCtorEq, false_or] at hs hn
    rcases hs with hs | hs
    · subst hs; exact mem_insertSub_self _ _
    · exact mem_insertSub_of_mem (hi k hs hn)
  case loopUnsubQ k0 rest hl hq =>
    have hlog := hun.2 k0 (by rw [hq]; exact List.mem_cons_self)
    have hne : k ≠ k0 := by intro he; subst he; exact hn hlog
    exact (List.mem_erase_of_ne hne).mpr (hi k hs hn)
  case loopUnsub i k0 x hl hc =>
    have hlog := hun.1 _ (List.mem_of_getElem? hc) k0 rfl
    have hne : k ≠ k0 := by intro he; subst he; exact hn hlog
    exact (List.mem_erase_of_ne hne).mpr (hi k hs hn)

theorem seenAfter_cons_ne {a b e : Ev} {l : List Ev} (h : e ≠ b) : seenAfter a b (e :: l) = seenAfter a b l := by
  simp [seenAfter, h]

theorem seenAfter_mem {a b : Ev} {l : List Ev} (h : seenAfter a b l = true) : a ∈ l := by
  induction l with
  | nil => simp [seenAfter] at h
  | cons e rest ih =>
    simp only [seenAfter, Bool.or_eq_true, Bool.and_eq_true, beq_iff_eq, List.contains_iff_mem] at h
    rcases h with ⟨_, h⟩ | h
    · exact List.mem_cons_of_mem _ h
    · exact List.mem_cons_of_mem _ (ih h)

theorem log_since_step {c : Cfg} (hb : c.bufSize = 0) {s s' : St} {a : Act} (hu : Uniq s)
    (hpr : ∀ m, Ev.pubRet m ∈ s.log → m ∈ s.published)
    (hnd : s.subs.Nodup)
    (hso : ∀ k, (subIds s.calls).count k + s.log.count (Ev.subRet k) ≤ 1)
    (hq : s.subQ.length ≤ c.bufSize)
    (h : Step c s a s')
    (hi : ∀ k ∈ s.subs, ∀ m, seenAfter (.subRet k) (.pubCall m) s.log = true → Ev.pubRet m ∈ s.log → m ∈ s.since k) :
    ∀ k ∈ s'.subs, ∀ m, seenAfter (.subRet k) (.pubCall m) s'.log = true → Ev.pubRet m ∈ s'.log → m ∈ s'.since k := by
  cases h
  case pubCall p hp =>
    intro k hk m hsa hpm
    simp only [List.mem_cons, reduceCtorEq, false_or] at hpm
    by_cases he : m = (p, s.nextSeq p)
    · exfalso
      have := hu.seq m (hpr m hpm)
      rw [he] at this
      exact absurd this (Nat.lt_irrefl _)
    · rw [seenAfter_cons_ne (by simp; exact fun h => he h.symm)] at hsa
      exact hi k hk m hsa hpm
  case enqSub i k0 x hc hq' =>
    intro k hk m hsa hpm; omega
  case loopSubQ k0 rest hl hq' =>
    intro k hk m hsa hpm; rw [hq'] at hq; simp at hq; omega
  case loopSub i k0 x hl hc =>
    intro k hk m hsa hpm
    rw [seenAfter_cons_ne (by simp)] at hsa
    simp only [List.mem_cons, reduceCtorEq, false_or] at hpm
    rcases mem_insertSub hk with h | h
    · exact hi k h m hsa hpm
    · subst h
      exfalso
      have h1 : 0 < s.log.count (Ev.subRet k) := List.count_pos_iff.mpr (seenAfter_mem hsa)
      have h2 := count_flatMap_ge callSubIds k s.calls i _ hc
      simp only [callSubIds, List.count_cons_self, List.count_nil] at h2
      have := hso k
      simp only [subIds] at this
      omega
  case loopUnsubQ k0 rest hl hq' =>
    intro k hk m hsa hpm
    have hne : k ≠ k0 := by
      intro he; subst he; exact (List.Nodup.mem_erase_iff hnd).mp hk |>.1 rfl
    simp only [upd_apply, hne, if_false]
    exact hi k (List.mem_of_mem_erase hk) m hsa hpm
  case loopUnsub i k0 x hl hc =>
    intro k hk m hsa hpm
    have hne : k ≠ k0 := by
      intro he; subst he; exact (List.Nodup.mem_erase_iff hnd).mp hk |>.1 rfl
    simp only [upd_apply, hne, if_false]
    exact hi k (List.mem_of_mem_erase hk) m hsa hpm
  case loopTake i m0 x hl hc =>
    intro k hk m hsa hpm
    rw [seenAfter_cons_ne (by simp)] at hsa
    simp only [List.mem_cons, Ev.pubRet.injEq] at hpm
    simp only [hk, if_true, List.mem_append, List.mem_singleton]
    rcases hpm with h | h
    · exact Or.inr h
    · exact Or.inl (hi k hk m hsa h)
  all_goals
    intro k hk m hsa hpm
    first
      | exact hi k hk m hsa hpm
      | (rw [seenAfter_cons_ne (by simp)] at hsa
         simp only [List.mem_cons, reduceCtorEq, false_or] at hpm
         exact hi k hk m hsa hpm)

structure LogInv (c : Cfg) (s : St) : Prop where
  recvs : ∀ k, recvs k s.log = s.recvd k
  live : stopped s.log = !s.live
  pubc : ∀ m, m ∈ s.published → Ev.pubCall m ∈ s.log
  pubr : ∀ m, Ev.pubRet m ∈ s.log → m ∈ s.published
  subsNodup : s.subs.Nodup
  subRetLt : ∀ k, Ev.subRet k ∈ s.log → k < s.nextSub
  subOnce : ∀ k, (subIds s.calls).count k + s.log.count (Ev.subRet k) ≤ 1
  unsub : (∀ cl ∈ s.calls, ∀ k, cl.kind = CallKind.unsub k → Ev.unsubCall k ∈ s.log) ∧
      ∀ k ∈ s.unsubQ, Ev.unsubCall k ∈ s.log
  qlen : s.subQ.length ≤ c.bufSize ∧ s.unsubQ.length ≤ c.bufSize
  inMap : c.bufSize = 0 → ∀ k, Ev.subRet k ∈ s.log → Ev.unsubCall k ∉ s.log → k ∈ s.subs
  since : c.bufSize = 0 → ∀ k ∈ s.subs, ∀ m,
      seenAfter (.subRet k) (.pubCall m) s.log = true → Ev.pubRet m ∈ s.log → m ∈ s.since k

theorem loginv_init (c : Cfg) : LogInv c (init c) := by
  refine ⟨by simp [init, recvs], by simp [init, stopped], by simp [init], by simp [init], by simp [init],
    by simp [init], by simp [init, subIds], by simp [init], by simp [init], by simp [init], by simp [init]⟩

theorem loginv_step {c : Cfg} {s s' : St} {a : Act} (hu : Uniq s) (hw : WF c s) (hi : LogInv c s)
    (h : Step c s a s') : LogInv c s' :=
  ⟨log_recvs_step h hi.recvs, log_live_step h hi.live, log_pubc_step h hi.pubc, log_pubr_step hu h hi.pubr,
   log_subsNodup_step h hi.subsNodup, log_subRetLt_step hw h hi.subRetLt,
   log_subOnce_step hw hi.subRetLt h hi.subOnce, log_unsub_step h hi.unsub, log_qlen_step h hi.qlen,
   fun hb => log_inMap_step hb h hi.unsub (hi.inMap hb),
   fun hb => log_since_step hb hu hi.pubr hi.subsNodup hi.subOnce hi.qlen.1 h (hi.since hb)⟩

theorem loginv_reachable {c : Cfg} {s : St} (h : Reachable c s) : LogInv c s :=
  reachable_induction (LogInv c) (loginv_init c)
    (fun _ _ _ hr hp hs => loginv_step (uniq_reachable hr) (wf_reachable hr) hp hs) s h

theorem mem_subsOf {k : Sub} {l : List Ev} (h : k ∈ subsOf l) : Ev.subRet k ∈ l := by
  induction l with
  | nil => simp [subsOf] at h
  | cons e rest ih =>
    cases e <;> simp only [subsOf] at h <;> try exact List.mem_cons_of_mem _ (ih h)
    rename_i k'
    rcases List.mem_cons.mp h with h | h
    · subst h; exact List.mem_cons_self
    · exact List.mem_cons_of_mem _ (ih h)

/-- the check of a `quiet` event holds in a quiescent reachable state -/
theorem check_quiet {c : Cfg} (hv : Cfg.valid c) {s : St} (hr : Reachable c s) (hq : quiescent c s = true) :
    checkEvent c s.log (.quiet (s.live && allOpen s) (pendingApi s.calls) (pendingWaits s.calls)
      (zombies s.calls)) = true := by
  have hli := loginv_reachable hr
  have hw := wf_reachable hr
  simp only [checkEvent, Bool.and_eq_true, Bool.or_eq_true, Bool.not_eq_true', beq_iff_eq,
    Bool.and_eq_false_iff, List.all_eq_true]
  refine ⟨⟨⟨zombies_zero hq, ?_⟩, ?_⟩, ?_⟩
  · cases hl : s.live with
    | false => simp
    | true =>
      cases ho : allOpen s with
      | false => simp
      | true => exact Or.inr (pendingApi_zero (idle_of_quiescent hv hw hl ho hq))
  · cases hl : s.live with
    | false => simp
    | true =>
      cases ho : allOpen s with
      | false => simp
      | true =>
        cases hloss : c.lossless with
        | false => simp
        | true =>
          right
          simp only [Cfg.lossless, Bool.and_eq_true, beq_iff_eq] at hloss
          intro k hk m _
          cases hwin : inWindow s.log k m with
          | false => simp
          | true =>
            right
            simp only [inWindow, Bool.and_eq_true, Bool.not_eq_true', List.contains_iff_mem] at hwin
            have hnu : Ev.unsubCall k ∉ s.log := by
              have := hwin.2
              intro hm; simp [hm] at this
            have hin : k ∈ s.subs := hli.inMap hloss.2 k (mem_subsOf hk) hnu
            have hsince := hli.since hloss.2 k hin m hwin.1.1 (by simpa using hwin.1.2)
            have hone := once_at_quiet hloss.1 hv hr hl ho hq hin hsince
            rw [hli.recvs k]
            simp only [List.contains_iff_mem]
            exact List.count_pos_iff.mp (by omega)
  · cases hst : stopped s.log with
    | false => simp
    | true =>
      right
      have hd : s.live = false := by
        have := hli.live; rw [hst] at this; simpa using this.symm
      exact pendingWaits_zero (down_of_quiescent hd hq)

theorem check_census {c : Cfg} {s : St} (hr : Reachable c s) (hq : quiescent c s = true) :
    checkEvent c s.log (.census (alive s)) = true := by
  have hli := loginv_reachable hr
  simp only [checkEvent, Bool.or_eq_true, Bool.not_eq_true', beq_iff_eq]
  cases hst : stopped s.log with
  | false => simp
  | true =>
    right
    have hd : s.live = false := by
      have := hli.live; rw [hst] at this; simpa using this.symm
    exact alive_zero (down_of_quiescent hd hq)

/-- a message about to be received by `k` (it is in `k`'s channel or being sent to `k`) was
    published and has not been received by `k` before -/
theorem check_recv {c : Cfg} {s : St} (hr : Reachable c s) {k : Sub} {m : Msg}
    (h : m ∈ s.chan k ∨ (k, m) ∈ s.sends) : checkEvent c s.log (.recv k m) = true := by
  have hli := loginv_reachable hr
  have hu := uniq_reachable hr
  have hpos : 0 < (s.chan k).count m + s.sends.count (k, m) := by
    rcases h with h | h
    · have : 0 < (s.chan k).count m := List.count_pos_iff.mpr h
      omega
    · have : 0 < s.sends.count (k, m) := List.count_pos_iff.mpr h
      omega
  have hd := hu.donce k m
  simp only [dcount] at hd
  simp only [checkEvent, Bool.and_eq_true, Bool.not_eq_true', List.contains_iff_mem]
  constructor
  · rw [hli.recvs k]
    cases hc : (s.recvd k).contains m with
    | false => rfl
    | true =>
      have : 0 < (s.recvd k).count m := List.count_pos_iff.mpr (by simpa using hc)
      omega
  · have : m ∈ s.published := by
      apply hu.pub
      rw [count_flight]
      have hdp : 0 < dcount s k m := by simp only [dcount]; omega
      rcases hu.dsrc k m hdp with h | ⟨w, start, visited, hw, _⟩
      · have : 0 < s.fin.count m := List.count_pos_iff.mpr h
        omega
      · have := count_workerMsgs_ge hw m
        simp only [Worker.msgs, List.count_cons_self, List.count_nil] at this
        omega
    simpa using hli.pubc m this

theorem eventsOk_step {c : Cfg} (hv : Cfg.valid c) {s s' : St} {a : Act} (hr : Reachable c s)
    (hi : eventsOk c s.log = true) (h : Step c s a s') : eventsOk c s'.log = true := by
  cases h <;> first
    | exact hi
    | (simp only [eventsOk, checkEvent]; exact hi)
    | skip
  case observeQuiet hq =>
    simp only [eventsOk, Bool.and_eq_true]
    exact ⟨check_quiet hv hr hq, hi⟩
  case census hq =>
    simp only [eventsOk, Bool.and_eq_true]
    exact ⟨check_census hr hq, hi⟩
  case handoff k m hs hb ho =>
    simp only [eventsOk, Bool.and_eq_true]
    exact ⟨check_recv hr (Or.inr hs), hi⟩
  case recv k m rest hb ho =>
    simp only [eventsOk, Bool.and_eq_true]
    exact ⟨check_recv hr (Or.inl (by rw [hb]; exact List.mem_cons_self)), hi⟩

theorem eventsOk_reachable {c : Cfg} (hv : Cfg.valid c) {s : St} (h : Reachable c s) : eventsOk c s.log = true :=
  reachable_induction (fun s => eventsOk c s.log = true) (by simp [init, eventsOk])
    (fun _ _ _ hr hp hs => eventsOk_step hv hr hp hs) s h

end FunProofs.Broker
