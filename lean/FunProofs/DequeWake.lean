import FunProofs.DequeLive

/-! The wake-up invariant of the Deque model over all schedules (C07, C20): in every reachable
    state, a parked goroutine whose condition holds has a wake-up on its way (`LiveInv`). -/

namespace FunModel.Deque
open FunModel.Conc

/-! ## One goroutine per iterator -/

/-- each iterator (producer closure) is used by one goroutine: no iterator call occurs in the
    programs of two different threads -/
def Owned (s : Sys St Op) : Prop :=
  ∀ (t u : Nat) (tht thu : Th Op), t ≠ u → s.ths[t]? = some tht → s.ths[u]? = some thu →
    ∀ d b k, Op.next d b k ∈ tht.ops → Op.next d b k ∉ thu.ops

theorem reach_owned {s0 s : Sys St Op} (hwf0 : s0.WF) (h0 : Owned s0) (hr : Reach subject s0 s) : Owned s := by
  intro t u tht thu htu ht hu d b k hm
  have e1 := hr.ops_eq hwf0 t
  have e2 := hr.ops_eq hwf0 u
  rw [ht] at e1; rw [hu] at e2
  cases h1 : s0.ths[t]? with
  | none => rw [h1] at e1; simp at e1
  | some tht0 =>
    cases h2 : s0.ths[u]? with
    | none => rw [h2] at e2; simp at e2
    | some thu0 =>
      rw [h1] at e1; rw [h2] at e2
      simp only [Option.map_some, Option.some.injEq] at e1 e2
      rw [e2]
      exact h0 t u tht0 thu0 htu h1 h2 d b k (by rw [← e1]; exact hm)

theorem forcePush_cursors (x : St) (d : End) (v : Int) : (forcePush x d v).1.cursors = x.cursors := by
  unfold forcePush
  by_cases hc : x.tracker.atCap = true
  · simp only [hc, ite_true]; rw [addEnd_cursors, popEnd_cursors]
  · simp only [hc, Bool.false_eq_true, ite_false]; rw [addEnd_cursors]

theorem cursor_of_cursors {x y : St} (h : y.cursors = x.cursors) (k : Nat) : y.cursor k = x.cursor k := by
  simp [St.cursor, h]

theorem iterYield_cursor (x : St) (key : Nat) (d : End) (c : Nat) {key' : Nat} (h : key' ≠ key) :
    (iterYield x key d c).st.cursor key' = x.cursor key' := by
  unfold iterYield
  by_cases hn : (x.nbr d c == 0) = true
  · simp [hn]
  · simp only [hn, Bool.false_eq_true, ite_false]; exact setCursor_cursor_ne x _ h

theorem iterLoop_cursor (x : St) (key : Nat) (d : End) (k : Bool) (pre : List Sig) {key' : Nat} (h : key' ≠ key) :
    (iterLoop x key d k pre).st.cursor key' = x.cursor key' := by
  unfold iterLoop
  by_cases hn : (x.nbr d (x.cursor key) == 0) = true
  · simp only [hn, ite_true]
    by_cases hc : x.closed = true
    · simp [hc]
    · by_cases hk : k = true <;> simp [hc, hk]
  · simp only [hn, Bool.false_eq_true, ite_false]; exact iterYield_cursor x key d _ h

theorem waitPopLoop_cursors (x : St) (d : End) (k : Bool) (pre : List Sig) : (waitPopLoop x d k pre).st.cursors = x.cursors := by
  rcases waitPopLoop_cases x d k pre with h | ⟨h, _⟩
  · rw [h]
  · rw [h, popEnd_cursors]

theorem waitPushLoop_cursors (x : St) (d : End) (v : Int) (k : Bool) (pre : List Sig) :
    (waitPushLoop x d v k pre).st.cursors = x.cursors := by
  rcases waitPushLoop_cases x d v k pre with h | ⟨h, _⟩
  · rw [h]
  · rw [h, addEnd_cursors]

/-- a segment only moves the cursor of the iterator it is a call of -/
theorem startR_cursor (x : St) (opt : Op) (key' : Nat) (h : ∀ d b k, opt = .next d b k → cursorKey d b k ≠ key') :
    (startR x opt).st.cursor key' = x.cursor key' := by
  cases opt with
  | push d v => exact cursor_of_cursors (addEnd_cursors x d v) _
  | fpush d v => exact cursor_of_cursors (forcePush_cursors x d v) _
  | pop d =>
    have := popEnd_cursors x d
    simp only [startR]
    rcases hpe : popEnd x d with ⟨s', ov, sg⟩
    rw [hpe] at this
    cases ov <;> exact cursor_of_cursors this _
  | wait d =>
    simp only [startR]
    by_cases hc : x.closed = true
    · simp [hc]
    · simp only [hc, Bool.false_eq_true, ite_false]
      by_cases he : x.q.isEmpty = true
      · simp only [he, ite_true]; exact cursor_of_cursors (waitPopLoop_cursors x d false _) _
      · simp only [he, Bool.false_eq_true, ite_false]; exact cursor_of_cursors (waitPopLoop_cursors x d false _) _
  | wpush d v =>
    simp only [startR]
    by_cases hr : x.tracker.hasRoom = true
    · simp only [hr, ite_true]; exact cursor_of_cursors (addEnd_cursors x d v) _
    · simp only [hr, Bool.false_eq_true, ite_false]; exact cursor_of_cursors (waitPushLoop_cursors x d v false _) _
  | len => rfl
  | close => rfl
  | next d b k =>
    have hne : key' ≠ cursorKey d b k := fun e => h d b k rfl e.symm
    simp only [startR]
    by_cases hn : (x.nbr d (x.cursor (cursorKey d b k)) == 0 && b) = true
    · simp only [hn, ite_true]; exact iterLoop_cursor x _ d false _ hne
    · simp only [hn, Bool.false_eq_true, ite_false]; exact iterYield_cursor x _ d _ hne

theorem resumeR_cursor (x : St) (opt : Op) (kt : Bool) (key' : Nat) (h : ∀ d b k, opt = .next d b k → cursorKey d b k ≠ key') :
    (resumeR x opt kt).st.cursor key' = x.cursor key' := by
  cases opt with
  | wait d => exact cursor_of_cursors (waitPopLoop_cursors x d kt _) _
  | wpush d v => exact cursor_of_cursors (waitPushLoop_cursors x d v kt _) _
  | next d b k =>
    cases b with
    | false => rfl
    | true =>
      have hne : key' ≠ cursorKey d true k := fun e => h d true k rfl e.symm
      exact iterLoop_cursor x _ d kt _ hne
  | push d v => rfl
  | fpush d v => rfl
  | pop d => rfl
  | len => rfl
  | close => rfl

/-- the state a segment leaves has, for the operation another thread is in, the cursor it had -/
theorem seg_sameCursor {s : Sys St Op} (hown : Owned s) {t : Nat} {a : Act} {th0 : Th Op} {opt : Op} {o : SegOut St}
    (hseg : IsSeg subject s t a th0 opt o) {u : Nat} {thu : Th Op} (hut : u ≠ t) (hu : s.ths[u]? = some thu)
    {opu : Op} (hopu : thu.ops[thu.pc]? = some opu) : SameCursor s.subj o.st opu := by
  intro d key hop
  subst hop
  obtain ⟨tht, htht, hops, hpc, _, _, hopt, _, _⟩ := hseg.basic
  have hne : ∀ d' b' k', opt = .next d' b' k' → cursorKey d' b' k' ≠ cursorKey d true key := by
    intro d' b' k' he hk
    obtain ⟨rfl, rfl, rfl⟩ := cursorKey_inj hk
    subst he
    have hm1 : Op.next d' true k' ∈ tht.ops := by
      rw [← hops]; exact List.mem_of_getElem? hopt
    have hm2 : Op.next d' true k' ∈ thu.ops := List.mem_of_getElem? hopu
    exact hown t u tht thu (Ne.symm hut) htht hu d' true k' hm1 hm2
  cases hseg with
  | start _ _ _ => exact startR_cursor _ _ _ hne
  | resume _ _ _ => exact resumeR_cursor _ _ _ _ hne

theorem seg_stable {s : Sys St Op} (hown : Owned s) {t : Nat} {a : Act} {th0 : Th Op} {opt : Op} {o : SegOut St}
    (hseg : IsSeg subject s t a th0 opt o) : Stable condOf s t o := by
  intro u thu hut hu _ opu hopu
  exact condOf_congr (seg_sameCursor hown hseg hut hu hopu)

theorem seg_parkOK {s : Sys St Op} {t : Nat} {a : Act} {th0 : Th Op} {opt : Op} {o : SegOut St}
    (hseg : IsSeg subject s t a th0 opt o) : ParkOK (condOf s.subj) (condOf o.st) th0 opt o := by
  intro c hfin
  cases hseg with
  | start _ _ _ =>
    rw [subject_start, SegR.out_fin, FinR.out_park] at hfin
    obtain ⟨heq, _, hc⟩ := startR_park_shape hfin
    rw [subject_start]
    refine ⟨rfl, ?_, ?_, Or.inl ?_⟩
    · rw [SegR.out_st, heq]; exact hc
    · rw [SegR.out_sigs, heq]; simp
    · rw [SegR.out_sigs, heq]; simp
  | @resume th _ hth hst hop =>
    rw [subject_resume, SegR.out_fin, FinR.out_park] at hfin
    obtain ⟨heq, hk⟩ := resumeR_park_shape hfin
    have hc := ((resumeR_park_iff _ _ _ _).1 hfin).2
    rw [subject_resume]
    refine ⟨hk, ?_, ?_, Or.inr ⟨hst, hc⟩⟩
    · rw [SegR.out_st, heq]; exact hc
    · rw [SegR.out_sigs, heq]; simp

/-! ## The invariant -/

/-- a parked goroutine whose loop test would let it go has a wake-up on its way: a woken
    goroutine waiting on the same condition whose helper is yet to broadcast, or a helper for that
    condition at its gate -/
def LiveInv (s : Sys St Op) : Prop :=
  ∀ (u : Nat) (th : Th Op) (c : Nat) (op : Op), s.ths[u]? = some th → th.st = .parked c → th.ops[th.pc]? = some op →
    parks s.subj op th.cancelled = false → Wit condOf s c

structure Good (s : Sys St Op) : Prop where
  wf : s.WF
  helper : HelperInv condOf s
  waiting : WaitingIn (fun op => op.blocking = true) s
  inv2 : Inv2 s.subj
  owned : Owned s
  live : LiveInv s

theorem good_init (init : St) (h2 : Inv2 init) (programs : List (List Op)) (hown : Owned (initSys init programs)) :
    Good (initSys init programs) := by
  refine ⟨initSys_wf _ _, initSys_helperInv _ _ _, initSys_waitingIn _ _ _, h2, hown, ?_⟩
  intro u th c op hth hst
  exfalso
  simp only [initSys, List.getElem?_map] at hth
  cases hp : programs[u]? with
  | none => simp [hp] at hth
  | some p =>
    simp [hp] at hth; subst hth
    simp only at hst; split at hst <;> cases hst

theorem Good.step {s s' : Sys St Op} {a : Act} {obs : String} (g : Good s) (hr0 : ∃ s0, s0.WF ∧ Owned s0 ∧ Reach subject s0 s)
    (hen : a ∈ enabled s true) (hs : step subject s a = some (s', obs)) : Good s' := by
  have hwf' := step_wf g.wf hen hs
  have hstable : ∀ t th0 op o, IsSeg subject s t a th0 op o → Stable condOf s t o :=
    fun t th0 op o hseg => seg_stable g.owned hseg
  have hhelper' : HelperInv condOf s' :=
    g.helper.step g.wf hen hs (fun t th0 op o hseg => seg_parkOK hseg) hstable
  have hwaiting' : WaitingIn (fun op => op.blocking = true) s' := by
    refine g.waiting.step g.wf hen hs ?_
    intro t th0 op o hseg c hfin
    cases hseg with
    | start _ _ _ => rw [subject_start, SegR.out_fin, FinR.out_park] at hfin; exact startR_park_blocking hfin
    | resume _ _ _ => rw [subject_resume, SegR.out_fin, FinR.out_park] at hfin; exact resumeR_park_blocking hfin
  have hinv2' : Inv2 s'.subj := by
    rcases step_subj g.wf hen hs with ⟨t, th0, op, o, hseg, _, hsub⟩ | ⟨_, hsub⟩
    · rw [hsub]
      cases hseg with
      | start _ _ _ => exact startR_inv2 _ g.inv2 _
      | resume _ _ _ => exact resumeR_inv2 _ g.inv2 _ _
    · rw [hsub]; exact g.inv2
  have howned' : Owned s' := by
    obtain ⟨s0, hwf0, hown0, hr⟩ := hr0
    exact reach_owned hwf0 hown0 (.step hr hen hs)
  refine ⟨hwf', hhelper', hwaiting', hinv2', howned', ?_⟩
  -- the wake-up invariant
  intro u th' c op hth' hst' hop' hready'
  have witStep : Wit condOf s c → ParkedOn s' c →
      (∀ t, a = .resume t → ∀ thp c', s'.ths[t]? = some thp → thp.st = .parked c' →
        ∀ opt, thp.ops[thp.pc]? = some opt → condOf s.subj opt = some c → Wit condOf s' c) → Wit condOf s' c := by
    intro w hpo h3
    rcases w.step g.wf hen hs hstable with h | h | ⟨t, thp, opt, c', rfl, hthp, hstp, hopt, hcond⟩
    · exact h
    · exact absurd hpo h
    · exact h3 t rfl thp c' hthp hstp opt hopt hcond
  have seg : ∀ t, (a = .start t ∨ a = .resume t) → Wit condOf s' c := by
    intro t ha
    obtain ⟨th0, opt, o, hseg, r⟩ := step_seg g.wf hen hs ha
    have hsub : s'.subj = o.st := r.subj
    by_cases hut : u = t
    · -- the running thread parked: its loop test said "park", and it left the state alone
      exfalso
      subst hut
      have he := r.self_eq hth'
      have hfin : o.fin = .park c := (r.parked_iff hth' c).2 hst'
      rw [hfin, finTh_park] at he
      obtain ⟨_, _, _, _, _, _, hopt, _, _⟩ := hseg.basic
      have hop0 : th0.ops[th0.pc]? = some op := by rw [he] at hop'; exact hop'
      rw [hopt] at hop0; cases hop0
      have hcan : th'.cancelled = th0.cancelled := by rw [he]
      rw [hsub, hcan] at hready'
      cases hseg with
      | start _ _ _ =>
        rw [subject_start, SegR.out_fin, FinR.out_park] at hfin
        obtain ⟨heq, hp, _⟩ := startR_park_shape hfin
        rw [subject_start, SegR.out_st, heq] at hready'
        simp only at hready'
        rw [hp] at hready'; cases hready'
      | resume _ _ _ =>
        rw [subject_resume, SegR.out_fin, FinR.out_park] at hfin
        obtain ⟨heq, _⟩ := resumeR_park_shape hfin
        have hp := ((resumeR_park_iff _ _ _ _).1 hfin).1
        rw [subject_resume, SegR.out_st, heq] at hready'
        simp only at hready'
        rw [hp] at hready'; cases hready'
    · -- another thread, parked before the segment and untouched by it
      have hth : s.ths[u]? = some th' := r.parked_inv hut hth' hst'
      have hpo : ParkedOn s' c := ⟨u, th', hth', hst'⟩
      have hparked : ∃ (u : Nat) (th : Th Op), u ≠ t ∧ s.ths[u]? = some th ∧ th.st = .parked c := ⟨u, th', hut, hth, hst'⟩
      have hst_t := hstable t th0 opt o hseg
      cases hbefore : parks s.subj op th'.cancelled with
      | false =>
        -- ready before: the old witness survives, or the re-parking thread signalled (D28)
        refine witStep (g.live u th' c op hth hst' hop' hbefore) hpo ?_
        intro t' hat thp c' hthp hstp opt' hopt' hcond
        have htt : t' = t := by
          rcases ha with rfl | rfl
          · cases hat
          · cases hat; rfl
        subst htt
        have hfin : o.fin = .park c' := (r.parked_iff hthp c').2 hstp
        have he := r.self_eq hthp
        rw [hfin, finTh_park] at he
        obtain ⟨_, _, _, _, _, _, hopt0, _, _⟩ := hseg.basic
        have : thp.ops[thp.pc]? = th0.ops[th0.pc]? := by rw [he]
        rw [this, hopt0] at hopt'; cases hopt'
        cases hseg with
        | start _ _ _ => cases hat
        | resume _ _ _ =>
          rw [subject_resume, SegR.out_fin, FinR.out_park] at hfin
          have hc' := ((resumeR_park_iff _ _ _ _).1 hfin).2
          rw [hcond] at hc'; cases hc'
          obtain ⟨heq, _⟩ := resumeR_park_shape hfin
          refine Wit.of_signal g.helper r hst_t (c := c) ?_ hparked
          rw [subject_resume, SegR.out_sigs, heq]; simp
      | true =>
        -- made ready by this segment: the segment signalled or broadcast its condition
        have hcond : condOf s.subj op = some c := by
          obtain ⟨op', hop'', hc⟩ := (g.helper u th' hth).op_of_parked c hst'
          rw [hop'] at hop''; cases hop''; exact hc
        have hsame : SameCursor s.subj o.st op := seg_sameCursor g.owned hseg hut hth hop'
        rw [hsub] at hready'
        have hsig : Sig.signal c ∈ o.sigs ∨ Sig.broadcast c ∈ o.sigs := by
          cases hseg with
          | start _ _ _ => exact startR_sig_ok _ g.inv2 _ _ _ _ hcond hsame hbefore hready'
          | resume _ _ _ => exact resumeR_sig_ok _ g.inv2 _ _ _ _ _ hcond hsame hbefore hready'
        rcases hsig with h | h
        · exact Wit.of_signal g.helper r hst_t h hparked
        · exfalso
          have := r.bcast c h u th' hut hth hst'
          rw [hth'] at this
          have h2 : th'.st = (Th.wake th').st := by rw [← Option.some.inj this]
          rw [hst'] at h2
          simp [Th.wake] at h2
  cases a with
  | start t => exact seg t (Or.inl rfl)
  | resume t => exact seg t (Or.inr rfl)
  | cancel t =>
    obtain ⟨th, hth, hst0, hcan, _, hsub, hself, hoth⟩ := step_cancel_rel g.wf hen hs
    by_cases hut : u = t
    · subst hut
      rw [hself] at hth'; cases hth'
      have hlive : Live c th.helpers := (g.helper u th hth).live hst'
      exact ⟨u, _, hself, Or.inr (pending_gateAll.2 hlive)⟩
    · rw [hoth u hut] at hth'
      rw [hsub] at hready'
      refine witStep (g.live u th' c op hth' hst' hop' hready') ⟨u, th', by rw [hoth u hut]; exact hth', hst'⟩ ?_
      intro t' hat; cases hat
  | fire t =>
    obtain ⟨th, h0, hth, hf, _, hsub, hself, hoth⟩ := step_fire_rel g.wf hs
    rw [hsub] at hready'
    have hpo : ParkedOn s' c := ⟨u, th', hth', hst'⟩
    -- the thread was parked before the broadcast and is not on the broadcast condition
    have horig : ∃ th1, s.ths[u]? = some th1 ∧ th1.st = .parked c ∧ th1.ops = th'.ops ∧ th1.pc = th'.pc ∧
        th1.cancelled = th'.cancelled := by
      by_cases hut : u = t
      · subst hut
        rw [hself] at hth'
        have he : th' = Th.bwake h0.cond { th with helpers := step.markFired th.helpers } := (Option.some.inj hth').symm
        have hst1 : (Th.bwake h0.cond { th with helpers := step.markFired th.helpers }).st = .parked c := by rw [← he]; exact hst'
        rw [Th.bwake_st] at hst1
        split at hst1
        · cases hst1
        · rename_i hnp
          refine ⟨th, hth, hst1, ?_, ?_, ?_⟩ <;> (rw [he, Th.bwake_of_not hnp])
      · rw [hoth u hut] at hth'
        cases h1 : s.ths[u]? with
        | none => simp [h1] at hth'
        | some th1 =>
          simp [h1] at hth'
          have hst1 : (Th.bwake h0.cond th1).st = .parked c := by rw [hth']; exact hst'
          rw [Th.bwake_st] at hst1
          split at hst1
          · cases hst1
          · rename_i hnp
            rw [Th.bwake_of_not hnp] at hth'
            subst hth'
            exact ⟨th1, rfl, hst', rfl, rfl, rfl⟩
    obtain ⟨th1, hth1, hst1, hops1, hpc1, hcan1⟩ := horig
    refine witStep (g.live u th1 c op hth1 hst1 (by rw [hops1, hpc1]; exact hop') (by rw [hcan1]; exact hready')) hpo ?_
    intro t' hat; cases hat

/-- the invariant holds in every reachable state -/
theorem reach_good (init : St) (h2 : Inv2 init) (programs : List (List Op)) (hown : Owned (initSys init programs))
    {s : Sys St Op} (hr : Reach subject (initSys init programs) s) : Good s := by
  induction hr with
  | init => exact good_init init h2 programs hown
  | step hr1 hen hs ih => exact ih.step ⟨_, initSys_wf _ _, hown, hr1⟩ hen hs

/-! ## No stuck state, at quiescence up to ping-pong -/

theorem no_stuck_pp_aux (init : St) (h2 : Inv2 init) (programs : List (List Op)) (hown : Owned (initSys init programs)) :
    ∀ (n : Nat) (s : Sys St Op), Reach subject (initSys init programs) s → QuiescentPP subject s →
      ∀ (u : Nat) (th : Th Op) (c : Nat) (op : Op), s.ths[u]? = some th → th.st = .parked c → th.ops[th.pc]? = some op →
        (s.parked.takeWhile (fun q => q.1 != u)).length ≤ n → parks s.subj op th.cancelled = false → False := by
  intro n
  induction n with
  | zero =>
    intro s hr hq u th c op hth hst hop hn hready
    exact aux s hr hq u th c op hth hst hop hready (fun s' hr' hq' th' hth' hst' hop' hlt hready' => by omega)
  | succ n ih =>
    intro s hr hq u th c op hth hst hop hn hready
    exact aux s hr hq u th c op hth hst hop hready
      (fun s' hr' hq' th' hth' hst' hop' hlt hready' => ih s' hr' hq' u th' c op hth' hst' hop' (by omega) hready')
where
  /-- one round: either an immediate contradiction, or a successor state in which the thread has
      moved up in its condition's queue -/
  aux (s : Sys St Op) (hr : Reach subject (initSys init programs) s) (hq : QuiescentPP subject s)
      (u : Nat) (th : Th Op) (c : Nat) (op : Op) (hth : s.ths[u]? = some th) (hst : th.st = .parked c)
      (hop : th.ops[th.pc]? = some op) (hready : parks s.subj op th.cancelled = false)
      (next : ∀ (s' : Sys St Op), Reach subject (initSys init programs) s' → QuiescentPP subject s' →
        ∀ th', s'.ths[u]? = some th' → th'.st = .parked c → th'.ops[th'.pc]? = some op →
          (s'.parked.takeWhile (fun q => q.1 != u)).length < (s.parked.takeWhile (fun q => q.1 != u)).length →
          parks s'.subj op th'.cancelled = false → False) : False := by
    have g := reach_good init h2 programs hown hr
    obtain ⟨v, thv, hthv, hw | hpend⟩ := g.live u th c op hth hst hop hready
    · obtain ⟨hwk, ⟨opv, hopv, hcv⟩, _⟩ := hw
      have hen : Act.resume v ∈ enabled s false := mem_enabled_resume.2 ⟨thv, hthv, hwk⟩
      obtain ⟨t, s', obs, thp, c', hat, hs, hsubj, hthp, hstp⟩ := hq s .refl _ hen rfl
      cases hat
      obtain ⟨thv', opv', hthv', _, hopv', r⟩ := step_resume_rel g.wf (enabled_false_sub hen) hs
      rw [hthv] at hthv'; cases hthv'
      rw [hopv] at hopv'; cases hopv'
      have hfin := (r.parked_iff hthp c').2 hstp
      rw [subject_resume, SegR.out_fin, FinR.out_park] at hfin
      have hc' := ((resumeR_park_iff _ _ _ _).1 hfin).2
      rw [hcv] at hc'; cases hc'
      obtain ⟨heq, _⟩ := resumeR_park_shape hfin
      have ho : subject.resume s.subj v opv thv.cancelled = { st := s.subj, sigs := [.signal c], fin := .park c } := by
        rw [subject_resume, heq]; rfl
      obtain ⟨_, hparked'⟩ := repark_parked hthv hopv ho hs
      have huv : u ≠ v := by
        intro e; subst e; rw [hth] at hthv; cases hthv; rw [hst] at hwk; cases hwk
      have hmem : (u, c) ∈ s.parked := (g.wf.parked_iff u c).2 ⟨th, hth, hst⟩
      have hwf' := step_wf g.wf (enabled_false_sub hen) hs
      have hreach' : Reach subject (initSys init programs) s' := .step hr (enabled_false_sub hen) hs
      have hint : ReachInt subject s s' := .step .refl hen rfl hs
      cases hf : s.parked.find? (fun p => p.2 == c) with
      | none =>
        have := List.find?_eq_none.1 hf _ hmem
        simp at this
      | some p =>
        rw [hf] at hparked'
        simp only at hparked'
        have hp2 : p.2 = c := by simpa using List.find?_some hf
        obtain ⟨thu', hthu', hwake⟩ := r.other u th huv hth
        by_cases hpu : p.1 = u
        · -- the signal woke `u`: it is ready, so its resumption would not park again
          have hnot : ∀ x, (u, x) ∉ s'.parked := by
            intro x hx
            rw [hparked', List.mem_append, List.mem_filter] at hx
            rcases hx with ⟨_, hx⟩ | hx
            · simp [hpu] at hx
            · simp at hx; exact huv hx.1
          have hwoke : thu' = th.wake := by
            rcases hwake with h | ⟨_, h⟩
            · exfalso; subst h
              exact hnot c ((hwf'.parked_iff u c).2 ⟨thu', hthu', hst⟩)
            · exact h
          subst hwoke
          have hen2 : Act.resume u ∈ enabled s' false := mem_enabled_resume.2 ⟨_, hthu', rfl⟩
          obtain ⟨t2, s2, obs2, thp2, c2, hat2, hs2, _, hthp2, hstp2⟩ := hq s' hint _ hen2 rfl
          cases hat2
          obtain ⟨thx, opx, hthx, _, hopx, r2⟩ := step_resume_rel hwf' (enabled_false_sub hen2) hs2
          rw [hthu'] at hthx; cases hthx
          have : (Th.wake th).ops[(Th.wake th).pc]? = some op := hop
          rw [this] at hopx; cases hopx
          have hfin2 := (r2.parked_iff hthp2 c2).2 hstp2
          rw [subject_resume, SegR.out_fin, FinR.out_park] at hfin2
          have hp := ((resumeR_park_iff _ _ _ _).1 hfin2).1
          rw [hsubj] at hp
          have : (Th.wake th).cancelled = th.cancelled := rfl
          rw [this, hready] at hp; cases hp
        · -- the signal woke somebody standing before `u`: `u` has moved up
          have hmem' : (u, c) ∈ s'.parked := by
            rw [hparked', List.mem_append, List.mem_filter]
            left; exact ⟨hmem, by simp; exact fun h => hpu h.symm⟩
          obtain ⟨th'', hth'', hst''⟩ := (hwf'.parked_iff u c).1 hmem'
          have hsame : s.ths[u]? = some th'' := r.parked_inv huv hth'' hst''
          rw [hth] at hsame; cases hsame
          refine next s' hreach' (hq.step hint) th hth'' hst hop ?_ (by rw [hsubj]; exact hready)
          rw [hparked']
          have hex : ∃ x ∈ s.parked.filter (fun q => q.1 != p.1), (fun q : Nat × Nat => q.1 != u) x = false :=
            ⟨(u, c), List.mem_filter.2 ⟨hmem, by simp; exact fun h => hpu h.symm⟩, by simp⟩
          rw [takeWhile_append_left _ _ _ hex, takeWhile_filter_comm]
          · refine length_filter_lt _ _ p (first_before g.wf.once hf hmem hpu) (by simp)
          · intro x _ hx
            have : x.1 = u := by simpa using hx
            simp [this]; exact fun h => hpu h.symm
    · -- a helper for `c` at its gate: `fire` is enabled, and it is not a re-parking resumption
      have hen : Act.fire v ∈ enabled s false := mem_enabled_fire.2 ⟨thv, hthv, hpend.hasGate⟩
      obtain ⟨t, _, _, _, _, hat, _⟩ := hq s .refl _ hen rfl
      cases hat

/-- at quiescence up to ping-pong no goroutine is parked whose loop test would let it go -/
theorem no_stuck_pp (init : St) (h2 : Inv2 init) (programs : List (List Op)) (hown : Owned (initSys init programs))
    {s : Sys St Op} (hr : Reach subject (initSys init programs) s) (hq : QuiescentPP subject s)
    {u : Nat} {th : Th Op} {c : Nat} {op : Op} (hth : s.ths[u]? = some th) (hst : th.st = .parked c)
    (hop : th.ops[th.pc]? = some op) : parks s.subj op th.cancelled = true := by
  cases h : parks s.subj op th.cancelled with
  | true => rfl
  | false => exact (no_stuck_pp_aux init h2 programs hown _ s hr hq u th c op hth hst hop (Nat.le_refl _) h).elim

/-- a woken goroutine at such a state parks again when resumed: its loop test says "park" -/
theorem woken_pp_parks (init : St) (h2 : Inv2 init) (programs : List (List Op)) (hown : Owned (initSys init programs))
    {s : Sys St Op} (hr : Reach subject (initSys init programs) s) (hq : QuiescentPP subject s)
    {u : Nat} {th : Th Op} {op : Op} (hth : s.ths[u]? = some th) (hst : th.st = .woken)
    (hop : th.ops[th.pc]? = some op) : parks s.subj op th.cancelled = true := by
  have g := reach_good init h2 programs hown hr
  have hen : Act.resume u ∈ enabled s false := mem_enabled_resume.2 ⟨th, hth, hst⟩
  obtain ⟨t, s', obs, thp, c', hat, hs, _, hthp, hstp⟩ := hq s .refl _ hen rfl
  cases hat
  obtain ⟨thx, opx, hthx, _, hopx, r⟩ := step_resume_rel g.wf (enabled_false_sub hen) hs
  rw [hth] at hthx; cases hthx
  rw [hop] at hopx; cases hopx
  have hfin := (r.parked_iff hthp c').2 hstp
  rw [subject_resume, SegR.out_fin, FinR.out_park] at hfin
  exact ((resumeR_park_iff _ _ _ _).1 hfin).1

end FunModel.Deque
