import FunModel.Deque

/-! Sequential theory of the `pubsub.Deque` model (`FunModel/Deque.lean`): tracker arithmetic,
    the representation invariant, the abstraction to `List Int`, the sequential bounded-deque
    specification `Spec` and the refinement of every atomic segment to it. Core Lean only. -/

namespace FunModel.Deque
open FunModel.Conc

/-! ## Trackers -/
namespace Tracker

/-- `0 ≤ length ≤ cap() ≤ limit`, capacity / quota at least 1 -/
def WF : Tracker → Prop
  | .noLimit _ => True
  | .hard c l => 1 ≤ c ∧ l ≤ c
  | .soft sq hl l _ => 1 ≤ sq ∧ sq ≤ hl ∧ l ≤ sq

theorem add_fail_eq (tr : Tracker) (h : tr.add.2 ≠ .ok) : tr.add.1 = tr := by
  cases tr with
  | noLimit l => simp [add] at h
  | hard c l =>
    unfold add at h ⊢
    by_cases hc : l ≥ c <;> simp [hc] at h ⊢
  | soft sq hl l cr =>
    unfold add at h ⊢
    by_cases h1 : l ≥ sq
    · by_cases h2 : (l == hl) = true
      · simp [h1, h2]
      · by_cases h3 : cr < 1
        · simp [h1, h2, h3]
        · simp [h1, h2, h3] at h
    · simp [h1] at h

theorem add_ok_len (tr : Tracker) (h : tr.add.2 = .ok) : tr.add.1.len = tr.len + 1 := by
  cases tr with
  | noLimit l => simp [add, len]
  | hard c l =>
    unfold add at h ⊢
    by_cases hc : l ≥ c <;> simp [hc, len] at h ⊢
  | soft sq hl l cr =>
    unfold add at h ⊢
    by_cases h1 : l ≥ sq
    · by_cases h2 : (l == hl) = true
      · simp [h1, h2] at h
      · by_cases h3 : cr < 1
        · simp [h1, h2, h3] at h
        · simp [h1, h2, h3, len]
    · simp [h1, len]

theorem add_wf (tr : Tracker) (h : tr.WF) : tr.add.1.WF := by
  cases tr with
  | noLimit l => simp [add, WF]
  | hard c l =>
    unfold add
    by_cases hc : l ≥ c
    · simpa [hc] using h
    · simp only [hc, ite_false, WF] at h ⊢; omega
  | soft sq hl l cr =>
    unfold add
    by_cases h1 : l ≥ sq
    · by_cases h2 : (l == hl) = true
      · simpa [h1, h2] using h
      · by_cases h3 : cr < 1
        · simpa [h1, h2, h3] using h
        · have hne : l ≠ hl := by simpa using h2
          simp only [WF] at h
          simp [h1, h2, h3, WF]
          omega
    · simp only [h1, ite_false, WF] at h ⊢; omega

theorem remove_len (tr : Tracker) : tr.remove.len = tr.len - 1 := by
  cases tr with
  | noLimit l => simp [remove, len]
  | hard c l => simp [remove, len]
  | soft sq hl l cr =>
    simp only [remove]
    by_cases h1 : l - 1 < sq <;> simp [h1, len]

theorem remove_wf (tr : Tracker) (h : tr.WF) : tr.remove.WF := by
  cases tr with
  | noLimit l => simp [remove, WF]
  | hard c l => simp only [remove, WF] at h ⊢; omega
  | soft sq hl l cr =>
    simp only [remove]
    by_cases h1 : l - 1 < sq
    · simp only [h1, ite_true]
      by_cases h2 : (decide (sq > 1) && decide (l - 1 < sq / 2)) = true
      · simp only [h2, ite_true, WF] at h ⊢
        simp only [Bool.and_eq_true, decide_eq_true_eq] at h2
        omega
      · simp only [h2, WF] at h ⊢; simp only [Bool.false_eq_true, ite_false]; omega
    · simp only [h1, ite_false, WF] at h ⊢; omega

theorem len_le_limit (tr : Tracker) (h : tr.WF) (n : Nat) (hn : tr.limit = some n) : tr.len ≤ n := by
  cases tr with
  | noLimit l => simp [limit] at hn
  | hard c l => simp only [limit, Option.some.injEq] at hn; subst hn; exact h.2
  | soft sq hl l cr => simp only [limit, Option.some.injEq] at hn; subst hn; simp only [WF, len] at h ⊢; omega

theorem len_le_cap (tr : Tracker) (h : tr.WF) (n : Nat) (hn : tr.cap = some n) : tr.len ≤ n := by
  cases tr with
  | noLimit l => simp [cap] at hn
  | hard c l => simp only [cap, Option.some.injEq] at hn; subst hn; exact h.2
  | soft sq hl l cr => simp only [cap, Option.some.injEq] at hn; subst hn; simp only [WF, len] at h ⊢; omega

/-- `cap() > len()` ⇒ `add()` succeeds -/
theorem hasRoom_add_ok (tr : Tracker) (h : tr.hasRoom = true) : tr.add.2 = .ok := by
  cases tr with
  | noLimit l => simp [add]
  | hard c l =>
    simp [hasRoom, cap, len] at h
    unfold add
    have : ¬ l ≥ c := by omega
    simp [this]
  | soft sq hl l cr =>
    simp [hasRoom, cap, len] at h
    unfold add
    have : ¬ l ≥ sq := by omega
    simp [this]

/-- at the capacity / hard limit `add()` refuses with `ErrQueueFull` -/
theorem full_at_limit (tr : Tracker) (h : tr.WF) (hl : tr.limit = some tr.len) : tr.add.2 = .full := by
  cases tr with
  | noLimit l => simp [limit] at hl
  | hard c l =>
    simp only [limit, len, Option.some.injEq] at hl
    unfold add
    have : l ≥ c := by omega
    simp [this]
  | soft sq hl' l cr =>
    simp only [limit, len, Option.some.injEq] at hl
    simp only [WF] at h
    unfold add
    have h1 : l ≥ sq := by omega
    have h2 : (l == hl') = true := by simp [hl]
    simp [h1, h2]

/-- `ErrQueueFull` is only ever reported at the capacity / hard limit -/
theorem full_only_at_limit (tr : Tracker) (h : tr.add.2 = .full) : tr.limit = some tr.len ∨ (∃ c, tr.limit = some c ∧ c ≤ tr.len) := by
  cases tr with
  | noLimit l => simp [add] at h
  | hard c l =>
    unfold add at h
    by_cases hc : l ≥ c
    · right; exact ⟨c, rfl, hc⟩
    · simp [hc] at h
  | soft sq hl l cr =>
    unfold add at h
    by_cases h1 : l ≥ sq
    · by_cases h2 : (l == hl) = true
      · left; simp only [limit, len]; simp at h2; rw [h2]
      · by_cases h3 : cr < 1
        · simp [h1, h2, h3] at h
        · simp [h1, h2, h3] at h
    · simp [h1] at h

/-- after `remove()` on a tracker that is at `cap()` with something in it, `add()` succeeds and
    the length is back where it was: the room a Force push makes is exactly the room it uses -/
theorem atCap_remove_add (tr : Tracker) (h : tr.WF) (hc : tr.atCap = true) :
    tr.remove.add.2 = .ok ∧ tr.remove.add.1.len = tr.len := by
  cases tr with
  | noLimit l => simp [atCap, cap] at hc
  | hard c l =>
    simp only [atCap, cap, len, beq_iff_eq] at hc
    simp only [WF] at h
    subst hc
    simp only [remove]
    unfold add
    have : ¬ c - 1 ≥ c := by omega
    simp only [this, ite_false, len, true_and]; omega
  | soft sq hl l cr =>
    simp only [atCap, cap, len, beq_iff_eq] at hc
    simp only [WF] at h
    subst hc
    simp only [remove]
    have h1 : sq - 1 < sq := by omega
    have h2 : (decide (sq > 1) && decide (sq - 1 < sq / 2)) = false := by
      simp only [Bool.and_eq_false_iff, decide_eq_false_iff_not]; omega
    simp only [h1, ite_true, h2, Bool.false_eq_true, ite_false]
    unfold add
    have : ¬ sq - 1 ≥ sq := by omega
    simp only [this, ite_false, len, true_and]; omega

theorem not_atCap_noLimit (l : Nat) : (Tracker.noLimit l).atCap = false := rfl

end Tracker

/-! ## Representation invariant and abstraction -/

/-- the abstract contents, front first -/
def abs (s : St) : List Int := s.q.map (·.2)

/-- the tracker counts exactly the linked elements and is within its bounds -/
structure Inv (s : St) : Prop where
  len : s.tracker.len = s.q.length
  wf : s.tracker.WF

theorem abs_length (s : St) : (abs s).length = s.q.length := by simp [abs]

/-! ## The sequential specification

    A bounded double-ended queue: a list of items, a closed flag and the capacity rule (the
    tracker, i.e. which of `ok / full / nocredit` a push gets and what `cap()`, `len()` are). -/

structure Spec where
  items : List Int
  closed : Bool
  tr : Tracker

def absS (s : St) : Spec := ⟨abs s, s.closed, s.tracker⟩

namespace Spec

def push (sp : Spec) (e : End) (v : Int) : Spec × Res :=
  if sp.closed then (sp, .closed)
  else match sp.tr.add with
    | (_, .full) => (sp, .full)
    | (_, .noCredit) => (sp, .nocredit)
    | (tr, .ok) =>
      ({ sp with tr := tr, items := match e with | .front => v :: sp.items | .back => sp.items ++ [v] }, .ok)

/-- remove and return the item at end `e` -/
def take (sp : Spec) (e : End) : Spec × Option Int :=
  if sp.closed then (sp, none)
  else match e with
    | .front =>
      match sp.items with
      | [] => (sp, none)
      | v :: rest => ({ sp with items := rest, tr := sp.tr.remove }, some v)
    | .back =>
      match sp.items.getLast? with
      | none => (sp, none)
      | some v => ({ sp with items := sp.items.dropLast, tr := sp.tr.remove }, some v)

def fpush (sp : Spec) (e : End) (v : Int) : Spec × Res :=
  if sp.tr.atCap then (sp.take e.opp).1.push e v else sp.push e v

def popRes : Spec × Option Int → Res → Spec × Res
  | (sp, some v), _ => (sp, .val v)
  | (sp, none), dflt => (sp, dflt)

/-- one operation of the sequential deque; `none` = the operation blocks (sequentially: for ever).
    The iterator calls are not operations of the deque (they never change it, `iter_nondestructive`). -/
def run (sp : Spec) (cancelled : Bool) : Op → Option (Spec × Res)
  | .push e v => some (sp.push e v)
  | .fpush e v => some (sp.fpush e v)
  | .pop e => some (popRes (sp.take e) .none)
  | .wait e =>
    if sp.closed then some (sp, .closed)
    else if sp.items.isEmpty then (if cancelled then some (sp, .ctx) else none)
    else some (popRes (sp.take e) .closed)
  | .wpush e v =>
    if sp.tr.hasRoom then some (sp.push e v)
    else if sp.closed then some (sp, .closed)
    else if cancelled then some (sp, .ctx)
    else none
  | .len => some (sp, .num sp.items.length)
  | .close => some ({ sp with closed := true }, .ok)
  | .next _ _ _ => none

end Spec

/-! ## Segments against the specification -/

theorem addEnd_spec (s : St) (d : End) (v : Int) :
    absS (addEnd s d v).1 = ((absS s).push d v).1 ∧ (addEnd s d v).2.1 = ((absS s).push d v).2 := by
  unfold addEnd Spec.push
  by_cases hc : s.closed = true
  · simp [hc, absS]
  · have hc' : s.closed = false := by simpa using hc
    simp only [hc', absS, Bool.false_eq_true, ite_false]
    rcases hadd : s.tracker.add with ⟨tr, r⟩
    cases r with
    | full => simp [abs, hc']
    | noCredit => simp [abs, hc']
    | ok => cases d <;> simp [abs, hc']

theorem addEnd_inv (s : St) (d : End) (v : Int) (h : Inv s) : Inv (addEnd s d v).1 := by
  unfold addEnd
  by_cases hc : s.closed = true
  · simpa [hc] using h
  · simp only [hc, Bool.false_eq_true, ite_false]
    rcases hadd : s.tracker.add with ⟨tr, r⟩
    have hwf := Tracker.add_wf s.tracker h.wf
    have hlen := Tracker.add_ok_len s.tracker
    rw [hadd] at hwf hlen
    cases r with
    | full => exact h
    | noCredit => exact h
    | ok =>
      have hlen : tr.len = s.tracker.len + 1 := hlen rfl
      refine ⟨?_, hwf⟩
      show tr.len = _
      rw [hlen, h.len]
      cases d <;> simp

/-- a refused push changes nothing at all -/
theorem addEnd_fail_eq (s : St) (d : End) (v : Int) (h : (addEnd s d v).2.1 ≠ .ok) : (addEnd s d v).1 = s := by
  unfold addEnd at h ⊢
  by_cases hc : s.closed = true
  · simp [hc]
  · simp only [hc, Bool.false_eq_true, ite_false] at h ⊢
    rcases hadd : s.tracker.add with ⟨tr, r⟩
    rw [hadd] at h
    cases r with
    | full => rfl
    | noCredit => rfl
    | ok => simp at h

theorem popEnd_spec (s : St) (d : End) :
    absS (popEnd s d).1 = ((absS s).take d).1 ∧ (popEnd s d).2.1 = ((absS s).take d).2 := by
  unfold popEnd Spec.take
  by_cases hc : s.closed = true
  · simp [hc, absS]
  · have hc' : s.closed = false := by simpa using hc
    simp only [hc', absS, Bool.false_eq_true, ite_false]
    cases d with
    | front =>
      cases hq : s.q with
      | nil => simp [abs, hq, hc']
      | cons p rest => obtain ⟨e, v⟩ := p; simp [abs, hq, hc']
    | back =>
      cases hq : s.q.getLast? with
      | none =>
        have : s.q = [] := by simpa using hq
        simp [abs, this, hc']
      | some p =>
        obtain ⟨e, v⟩ := p
        have h1 : (abs s).getLast? = some v := by simp [abs, List.getLast?_map, hq]
        simp only [h1]
        simp [abs, List.map_dropLast, hc']

theorem popEnd_inv (s : St) (d : End) (h : Inv s) : Inv (popEnd s d).1 := by
  unfold popEnd
  by_cases hc : s.closed = true
  · simpa [hc] using h
  · simp only [hc, Bool.false_eq_true, ite_false]
    cases d with
    | front =>
      cases hq : s.q with
      | nil => simpa [hq] using h
      | cons p rest =>
        obtain ⟨e, v⟩ := p
        refine ⟨?_, Tracker.remove_wf _ h.wf⟩
        simp only [Tracker.remove_len, h.len, hq]; simp
    | back =>
      cases hq : s.q.getLast? with
      | none => simpa [hq] using h
      | some p =>
        obtain ⟨e, v⟩ := p
        refine ⟨?_, Tracker.remove_wf _ h.wf⟩
        simp only [Tracker.remove_len, h.len]; simp

/-- a pop that reports not-ok changes nothing -/
theorem popEnd_none_eq (s : St) (d : End) (h : (popEnd s d).2.1 = none) : (popEnd s d).1 = s := by
  unfold popEnd at h ⊢
  by_cases hc : s.closed = true
  · simp [hc]
  · simp only [hc, Bool.false_eq_true, ite_false] at h ⊢
    cases d with
    | front =>
      cases hq : s.q with
      | nil => simp
      | cons p rest => obtain ⟨e, v⟩ := p; simp [hq] at h
    | back =>
      cases hq : s.q.getLast? with
      | none => simp
      | some p => obtain ⟨e, v⟩ := p; simp [hq] at h

theorem forcePush_spec (s : St) (d : End) (v : Int) :
    absS (forcePush s d v).1 = ((absS s).fpush d v).1 ∧ (forcePush s d v).2.1 = ((absS s).fpush d v).2 := by
  unfold forcePush Spec.fpush
  have ht : (absS s).tr = s.tracker := rfl
  rw [ht]
  by_cases hc : s.tracker.atCap = true
  · simp only [hc, ite_true]
    have hp := popEnd_spec s d.opp
    have ha := addEnd_spec (popEnd s d.opp).1 d v
    rw [hp.1] at ha
    exact ha
  · simp only [hc, Bool.false_eq_true, ite_false]
    exact addEnd_spec s d v

theorem forcePush_inv (s : St) (d : End) (v : Int) (h : Inv s) : Inv (forcePush s d v).1 := by
  unfold forcePush
  by_cases hc : s.tracker.atCap = true
  · simp only [hc, ite_true]
    exact addEnd_inv _ d v (popEnd_inv s d.opp h)
  · simp only [hc, Bool.false_eq_true, ite_false]
    exact addEnd_inv s d v h

/-! ## Every atomic segment acts as the sequential specification -/

def Op.isIter : Op → Bool
  | .next _ _ _ => true
  | _ => false

/-- operations that can park -/
def Op.blocking : Op → Bool
  | .wait _ => true
  | .wpush _ _ => true
  | .next _ b _ => b
  | _ => false

/-- what the sequential specification demands of a segment of `op` run from `s`: if the segment
    returns `r`, then `r` and the new abstract state are those of the sequential operation; if it
    parks, the sequential operation blocks and nothing changed -/
def SegSpec (s : St) (op : Op) (cancelled : Bool) (o : SegR) : Prop :=
  match o.fin with
  | .ret r => Spec.run (absS s) cancelled op = some (absS o.st, r)
  | .park _ => Spec.run (absS s) cancelled op = none ∧ o.st = s

theorem absS_items_isEmpty (s : St) : (absS s).items.isEmpty = s.q.isEmpty := by
  simp [absS, abs, List.isEmpty_iff]

theorem popRes_popEnd (s : St) (d : End) (dflt : Res) :
    (match popEnd s d with
      | (s', some v, _) => (absS s', Res.val v)
      | (s', none, _) => (absS s', dflt)) = Spec.popRes ((absS s).take d) dflt := by
  have h := popEnd_spec s d
  rcases hp : popEnd s d with ⟨s', ov, sg⟩
  rw [hp] at h
  rcases ht : (absS s).take d with ⟨sp', ov'⟩
  rw [ht] at h
  obtain ⟨h1, h2⟩ := h
  simp only at h1 h2
  subst h1; subst h2
  cases ov <;> rfl

theorem waitPopLoop_spec (s : St) (d : End) (cancelled : Bool) (pre : List Sig) :
    SegSpec s (.wait d) cancelled (waitPopLoop s d cancelled pre) := by
  unfold waitPopLoop SegSpec
  by_cases he : s.q.isEmpty = true
  · simp only [he, ite_true]
    by_cases hc : s.closed = true
    · simp [hc, Spec.run, absS]
    · have hc' : s.closed = false := by simpa using hc
      by_cases hk : cancelled = true
      · simp [hc', hk, Spec.run, absS_items_isEmpty, he]; simp [absS, hc']
      · have hk' : cancelled = false := by simpa using hk
        simp [hc', hk', Spec.run, absS_items_isEmpty, he]; simp [absS, hc']
  · have he' : s.q.isEmpty = false := by simpa using he
    simp only [he', Bool.false_eq_true, ite_false]
    by_cases hc : s.closed = true
    · simp [hc, Spec.run, absS]
    · have hc' : s.closed = false := by simpa using hc
      simp only [hc', Bool.false_eq_true, ite_false]
      have hp := popRes_popEnd s d .closed
      rcases hpe : popEnd s d with ⟨s', ov, sg⟩
      rw [hpe] at hp
      have hcl : (absS s).closed = false := hc'
      cases ov with
      | some v =>
        simp only at hp ⊢
        simp [Spec.run, hcl, absS_items_isEmpty, he', ← hp]
      | none =>
        simp only at hp ⊢
        simp [Spec.run, hcl, absS_items_isEmpty, he', ← hp]

theorem waitPushLoop_spec (s : St) (d : End) (v : Int) (cancelled : Bool) (pre : List Sig) :
    SegSpec s (.wpush d v) cancelled (waitPushLoop s d v cancelled pre) := by
  unfold waitPushLoop SegSpec
  have htr : (absS s).tr = s.tracker := rfl
  by_cases hr : s.tracker.hasRoom = true
  · simp only [hr, Bool.not_true, Bool.false_eq_true, ite_false]
    have ha := addEnd_spec s d v
    rcases hae : addEnd s d v with ⟨s', r, sg⟩
    rw [hae] at ha
    simp only at ha ⊢
    simp [Spec.run, htr, hr, ha.1, ha.2]
  · have hr' : s.tracker.hasRoom = false := by simpa using hr
    simp only [hr', Bool.not_false, ite_true]
    by_cases hc : s.closed = true
    · simp [hc, Spec.run, htr, hr']; simp [absS, hc]
    · have hc' : s.closed = false := by simpa using hc
      have hcl : (absS s).closed = false := hc'
      by_cases hk : cancelled = true
      · simp [hc', hk, Spec.run, htr, hr', hcl]
      · have hk' : cancelled = false := by simpa using hk
        simp [hc', hk', Spec.run, htr, hr', hcl]

/-- `deque_refines`, start segments: every operation of C06 (everything but the iterator calls) -/
theorem startR_spec (s : St) (h : Inv s) (op : Op) (hop : op.isIter = false) : SegSpec s op false (startR s op) := by
  cases op with
  | push d v =>
    have ha := addEnd_spec s d v
    rcases hae : addEnd s d v with ⟨s', r, sg⟩
    rw [hae] at ha
    simp only at ha
    simp [startR, SegSpec, hae, Spec.run, ha.1, ha.2]
  | fpush d v =>
    have ha := forcePush_spec s d v
    rcases hae : forcePush s d v with ⟨s', r, sg⟩
    rw [hae] at ha
    simp only at ha
    simp [startR, SegSpec, hae, Spec.run, ha.1, ha.2]
  | pop d =>
    have hp := popRes_popEnd s d .none
    rcases hpe : popEnd s d with ⟨s', ov, sg⟩
    rw [hpe] at hp
    cases ov with
    | some v => simp only at hp; simp [startR, SegSpec, hpe, Spec.run, ← hp]
    | none => simp only at hp; simp [startR, SegSpec, hpe, Spec.run, ← hp]
  | wait d =>
    simp only [startR]
    by_cases hc : s.closed = true
    · simp [hc, SegSpec, Spec.run, absS]
    · have hc' : s.closed = false := by simpa using hc
      simp only [hc', Bool.false_eq_true, ite_false]
      by_cases he : s.q.isEmpty = true
      · simp only [he, ite_true]; exact waitPopLoop_spec s d false _
      · simp only [he, Bool.false_eq_true, ite_false]; exact waitPopLoop_spec s d false _
  | wpush d v =>
    simp only [startR]
    by_cases hr : s.tracker.hasRoom = true
    · simp only [hr, ite_true]
      have ha := addEnd_spec s d v
      rcases hae : addEnd s d v with ⟨s', r, sg⟩
      rw [hae] at ha
      simp only at ha
      have htr : (absS s).tr = s.tracker := rfl
      simp [SegSpec, Spec.run, htr, hr, ha.1, ha.2]
    · simp only [hr, Bool.false_eq_true, ite_false]; exact waitPushLoop_spec s d v false _
  | len => simp [startR, SegSpec, Spec.run, absS, abs, h.len]
  | close => simp [startR, SegSpec, Spec.run, absS, abs]
  | next d b k => simp [Op.isIter] at hop

/-- `deque_refines`, resume segments of the two blocking operations of C06 -/
theorem resumeR_spec (s : St) (op : Op) (cancelled : Bool) (hop : op.isIter = false) (hb : op.blocking = true) :
    SegSpec s op cancelled (resumeR s op cancelled) := by
  cases op with
  | wait d => exact waitPopLoop_spec s d cancelled _
  | wpush d v => exact waitPushLoop_spec s d v cancelled _
  | next d b k => simp [Op.isIter] at hop
  | push d v => simp [Op.blocking] at hb
  | fpush d v => simp [Op.blocking] at hb
  | pop d => simp [Op.blocking] at hb
  | len => simp [Op.blocking] at hb
  | close => simp [Op.blocking] at hb

/-! ### the invariant is preserved by every segment -/

theorem waitPopLoop_inv (s : St) (d : End) (cancelled : Bool) (pre : List Sig) (h : Inv s) :
    Inv (waitPopLoop s d cancelled pre).st := by
  unfold waitPopLoop
  by_cases he : s.q.isEmpty = true
  · simp only [he, ite_true]
    by_cases hc : s.closed = true
    · simpa [hc] using h
    · by_cases hk : cancelled = true <;> simpa [hc, hk] using h
  · simp only [he, Bool.false_eq_true, ite_false]
    by_cases hc : s.closed = true
    · simpa [hc] using h
    · simp only [hc, Bool.false_eq_true, ite_false]
      have hp := popEnd_inv s d h
      rcases hpe : popEnd s d with ⟨s', ov, sg⟩
      rw [hpe] at hp
      cases ov <;> exact hp

theorem waitPushLoop_inv (s : St) (d : End) (v : Int) (cancelled : Bool) (pre : List Sig) (h : Inv s) :
    Inv (waitPushLoop s d v cancelled pre).st := by
  unfold waitPushLoop
  by_cases hr : s.tracker.hasRoom = true
  · simp only [hr, Bool.not_true, Bool.false_eq_true, ite_false]
    exact addEnd_inv s d v h
  · simp only [hr, Bool.not_false, ite_true]
    by_cases hc : s.closed = true
    · simpa [hc] using h
    · by_cases hk : cancelled = true <;> simpa [hc, hk] using h

theorem iterYield_inv (s : St) (key : Nat) (d : End) (c : Nat) (h : Inv s) : Inv (iterYield s key d c).st := by
  unfold iterYield
  by_cases hn : (s.nbr d c == 0) = true
  · simpa [hn] using h
  · simp only [hn, Bool.false_eq_true, ite_false]; exact ⟨h.len, h.wf⟩

theorem iterLoop_inv (s : St) (key : Nat) (d : End) (cancelled : Bool) (pre : List Sig) (h : Inv s) :
    Inv (iterLoop s key d cancelled pre).st := by
  unfold iterLoop
  by_cases hn : (s.nbr d (s.cursor key) == 0) = true
  · simp only [hn, ite_true]
    by_cases hc : s.closed = true
    · simpa [hc] using h
    · by_cases hk : cancelled = true <;> simpa [hc, hk] using h
  · simp only [hn, Bool.false_eq_true, ite_false]; exact iterYield_inv s key d _ h

theorem startR_inv (s : St) (h : Inv s) (op : Op) : Inv (startR s op).st := by
  cases op with
  | push d v => exact addEnd_inv s d v h
  | fpush d v => exact forcePush_inv s d v h
  | pop d =>
    have hp := popEnd_inv s d h
    simp only [startR]
    rcases hpe : popEnd s d with ⟨s', ov, sg⟩
    rw [hpe] at hp
    cases ov <;> exact hp
  | wait d =>
    simp only [startR]
    by_cases hc : s.closed = true
    · simpa [hc] using h
    · simp only [hc, Bool.false_eq_true, ite_false]
      by_cases he : s.q.isEmpty = true
      · simp only [he, ite_true]; exact waitPopLoop_inv s d false _ h
      · simp only [he, Bool.false_eq_true, ite_false]; exact waitPopLoop_inv s d false _ h
  | wpush d v =>
    simp only [startR]
    by_cases hr : s.tracker.hasRoom = true
    · simp only [hr, ite_true]; exact addEnd_inv s d v h
    · simp only [hr, Bool.false_eq_true, ite_false]; exact waitPushLoop_inv s d v false _ h
  | len => exact h
  | close => exact ⟨h.len, h.wf⟩
  | next d b k =>
    simp only [startR]
    by_cases hn : (s.nbr d (s.cursor (cursorKey d b k)) == 0 && b) = true
    · simp only [hn, ite_true]; exact iterLoop_inv s _ d false _ h
    · simp only [hn, Bool.false_eq_true, ite_false]; exact iterYield_inv s _ d _ h

theorem resumeR_inv (s : St) (h : Inv s) (op : Op) (cancelled : Bool) : Inv (resumeR s op cancelled).st := by
  cases op with
  | wait d => exact waitPopLoop_inv s d cancelled _ h
  | wpush d v => exact waitPushLoop_inv s d v cancelled _ h
  | next d b k => cases b with
    | true => exact iterLoop_inv s _ d cancelled _ h
    | false => exact h
  | push d v => exact h
  | fpush d v => exact h
  | pop d => exact h
  | len => exact h
  | close => exact h

/-- the iterator calls change neither the contents, nor the closed flag, nor the tracker -/
theorem iter_absS (s : St) (d : End) (b : Bool) (k : Nat) (cancelled : Bool) :
    absS (startR s (.next d b k)).st = absS s ∧ absS (resumeR s (.next d b k) cancelled).st = absS s := by
  have hy : ∀ key c, absS (iterYield s key d c).st = absS s := by
    intro key c
    unfold iterYield
    by_cases hn : (s.nbr d c == 0) = true
    · simp [hn]
    · simp [hn, absS, abs, St.setCursor]
  have hl : ∀ key cancelled pre, absS (iterLoop s key d cancelled pre).st = absS s := by
    intro key cancelled pre
    unfold iterLoop
    by_cases hn : (s.nbr d (s.cursor key) == 0) = true
    · simp only [hn, ite_true]
      by_cases hc : s.closed = true
      · simp [hc]
      · by_cases hk : cancelled = true <;> simp [hc, hk]
    · simp only [hn, Bool.false_eq_true, ite_false]; exact hy _ _
  constructor
  · simp only [startR]
    by_cases hn : (s.nbr d (s.cursor (cursorKey d b k)) == 0 && b) = true
    · simp only [hn, ite_true]; exact hl _ _ _
    · simp only [hn, Bool.false_eq_true, ite_false]; exact hy _ _
  · cases b with
    | true => exact hl _ _ _
    | false => rfl

/-! ## The clauses of C06 on the model -/

/-- `Len` never exceeds the capacity (all three trackers), and is the number of items -/
theorem inv_len_le (s : St) (h : Inv s) : s.tracker.len = (abs s).length ∧ ∀ n, s.tracker.limit = some n → (abs s).length ≤ n := by
  refine ⟨by rw [abs_length]; exact h.len, ?_⟩
  intro n hn
  rw [abs_length, ← h.len]
  exact Tracker.len_le_limit _ h.wf n hn

theorem addEnd_res (s : St) (d : End) (v : Int) :
    (addEnd s d v).2.1 = .ok ∨ (addEnd s d v).2.1 = .closed ∨ (addEnd s d v).2.1 = .full ∨ (addEnd s d v).2.1 = .nocredit := by
  unfold addEnd
  by_cases hc : s.closed = true
  · simp [hc]
  · simp only [hc, Bool.false_eq_true, ite_false]
    rcases hadd : s.tracker.add with ⟨tr, r⟩
    cases r <;> simp

theorem addEnd_closed (s : St) (d : End) (v : Int) (hc : s.closed = true) : addEnd s d v = (s, .closed, []) := by
  simp [addEnd, hc]

theorem popEnd_closed (s : St) (d : End) (hc : s.closed = true) : popEnd s d = (s, none, []) := by
  simp [popEnd, hc]

/-- a plain push at the capacity / hard limit fails with `ErrQueueFull` and changes nothing -/
theorem push_full (s : St) (h : Inv s) (hc : s.closed = false) (hl : s.tracker.limit = some s.q.length) (d : End) (v : Int) :
    addEnd s d v = (s, .full, [.broadcast 2]) := by
  have hf := Tracker.full_at_limit s.tracker h.wf (by rw [h.len]; exact hl)
  unfold addEnd
  simp only [hc, Bool.false_eq_true, ite_false]
  rcases hadd : s.tracker.add with ⟨tr, r⟩
  rw [hadd] at hf
  simp only at hf
  subst hf
  rfl

/-- room (`cap() > len()`) ⇒ a push on an open deque succeeds -/
theorem addEnd_room_ok (s : St) (hc : s.closed = false) (hr : s.tracker.hasRoom = true) (d : End) (v : Int) :
    (addEnd s d v).2.1 = .ok ∧ abs (addEnd s d v).1 = (match d with | .front => v :: abs s | .back => abs s ++ [v]) := by
  have hok := Tracker.hasRoom_add_ok s.tracker hr
  unfold addEnd
  simp only [hc, Bool.false_eq_true, ite_false]
  rcases hadd : s.tracker.add with ⟨tr, r⟩
  rw [hadd] at hok
  simp only at hok
  subst hok
  cases d <;> simp [abs]

theorem atCap_nonempty (s : St) (h : Inv s) (hcap : s.tracker.atCap = true) : s.q ≠ [] := by
  intro hq
  have hl : s.tracker.len = 0 := by rw [h.len, hq]; rfl
  have hwf := h.wf
  cases htr : s.tracker with
  | noLimit l => rw [htr] at hcap; simp [Tracker.atCap, Tracker.cap] at hcap
  | hard c l =>
    rw [htr] at hcap hl hwf
    simp only [Tracker.atCap, Tracker.cap, Tracker.len, beq_iff_eq] at hcap hl
    simp only [Tracker.WF] at hwf; omega
  | soft sq hl' l cr =>
    rw [htr] at hcap hl hwf
    simp only [Tracker.atCap, Tracker.cap, Tracker.len, beq_iff_eq] at hcap hl
    simp only [Tracker.WF] at hwf; omega

/-- a Force push on a full (`cap() == len()`) open deque evicts exactly one item, from the
    opposite end, and then succeeds; the length is unchanged -/
theorem forcePush_full (s : St) (h : Inv s) (hc : s.closed = false) (hcap : s.tracker.atCap = true) (d : End) (v : Int) :
    (forcePush s d v).2.1 = .ok ∧
    abs (forcePush s d v).1 = (match d with | .front => v :: (abs s).dropLast | .back => (abs s).tail ++ [v]) ∧
    (abs (forcePush s d v).1).length = (abs s).length ∧ abs s ≠ [] := by
  have hne := atCap_nonempty s h hcap
  have hne' : abs s ≠ [] := by simpa [abs] using hne
  obtain ⟨hok, _⟩ := Tracker.atCap_remove_add s.tracker h.wf hcap
  unfold forcePush
  simp only [hcap, ite_true]
  cases d with
  | front =>
    -- evict at the back
    obtain ⟨p, hp⟩ : ∃ p, s.q.getLast? = some p := by
      cases hq : s.q.getLast? with
      | none => exact absurd (by simpa using hq) hne
      | some p => exact ⟨p, rfl⟩
    obtain ⟨e, x⟩ := p
    have hpop : popEnd s .back =
        (({ s with q := s.q.dropLast, tracker := s.tracker.remove, stale := (e, 0, ((s.q.dropLast.map (·.1)).getLast?).getD 0) :: s.stale } : St), some x,
        [Sig.broadcast 2, Sig.signal 1] ++ (if s.q.dropLast.isEmpty then [Sig.signal 0] else [])) := by
      simp [popEnd, hc, hp]
    simp only [End.opp, hpop]
    unfold addEnd
    simp only [hc, Bool.false_eq_true, ite_false]
    rcases hadd : s.tracker.remove.add with ⟨tr, r⟩
    rw [hadd] at hok
    simp only at hok
    subst hok
    refine ⟨rfl, ?_, ?_, hne'⟩
    · simp [abs, List.map_dropLast]
    · simp [abs, List.length_dropLast]
      have : 0 < s.q.length := List.length_pos_iff.2 hne
      omega
  | back =>
    -- evict at the front
    cases hq : s.q with
    | nil => exact absurd hq hne
    | cons p rest =>
      obtain ⟨e, x⟩ := p
      have hpop : popEnd s .front =
          (({ s with q := rest, tracker := s.tracker.remove, stale := (e, (rest.map (·.1)).headD 0, 0) :: s.stale } : St), some x,
          [Sig.broadcast 2] ++ (if rest.isEmpty then [Sig.signal 1] else []) ++ [Sig.signal 0]) := by
        simp [popEnd, hc, hq]
      simp only [End.opp, hpop]
      unfold addEnd
      simp only [hc, Bool.false_eq_true, ite_false]
      rcases hadd : s.tracker.remove.add with ⟨tr, r⟩
      rw [hadd] at hok
      simp only at hok
      subst hok
      refine ⟨rfl, ?_, ?_, hne'⟩
      · simp [abs, hq]
      · simp [abs, hq]

/-- a Force push on a deque that is not full is a plain push -/
theorem forcePush_notfull (s : St) (hcap : s.tracker.atCap = false) (d : End) (v : Int) :
    forcePush s d v = addEnd s d v := by
  simp [forcePush, hcap]

/-- after `Close` every push fails with `ErrQueueClosed`, every pop reports not-ok (also on a
    non-empty deque), nothing changes, and the deque stays closed -/
theorem closed_start (s : St) (hc : s.closed = true) (op : Op) :
    (startR s op).st.closed = true ∧
    (match op with
     | .push _ _ | .fpush _ _ | .wpush _ _ | .wait _ => (startR s op).fin = .ret .closed ∧ (startR s op).st = s
     | .pop _ => (startR s op).fin = .ret .none ∧ (startR s op).st = s
     | _ => True) := by
  cases op with
  | push d v => simp [startR, addEnd_closed s d v hc, hc]
  | fpush d v =>
    have : forcePush s d v = (s, .closed, []) := by
      unfold forcePush
      by_cases hcap : s.tracker.atCap = true
      · simp [hcap, popEnd_closed s d.opp hc, addEnd_closed s d v hc]
      · simp [hcap, addEnd_closed s d v hc]
    simp [startR, this, hc]
  | pop d => simp [startR, popEnd_closed s d hc, hc]
  | wait d => simp [startR, hc]
  | wpush d v =>
    simp only [startR]
    by_cases hr : s.tracker.hasRoom = true
    · simp [hr, addEnd_closed s d v hc, hc]
    · simp [hr, waitPushLoop, hc]
  | len => simp [startR, hc]
  | close => simp [startR]
  | next d b k =>
    refine ⟨?_, trivial⟩
    have := (iter_absS s d b k false).1
    have h2 : (absS (startR s (.next d b k)).st).closed = (absS s).closed := by rw [this]
    simpa [absS, hc] using h2

theorem closed_resume (s : St) (hc : s.closed = true) (op : Op) (k : Bool) :
    (resumeR s op k).st.closed = true ∧
    (match op with
     | .wpush _ _ | .wait _ => (resumeR s op k).fin = .ret .closed ∧ (resumeR s op k).st = s
     | _ => True) := by
  cases op with
  | wait d =>
    simp only [resumeR, waitPopLoop]
    by_cases he : s.q.isEmpty = true <;> simp [he, hc]
  | wpush d v =>
    simp only [resumeR, waitPushLoop]
    by_cases hr : s.tracker.hasRoom = true
    · simp [hr, addEnd_closed s d v hc, hc]
    · simp [hr, hc]
  | next d b k' =>
    refine ⟨?_, trivial⟩
    have := (iter_absS s d b k' k).2
    have h2 : (absS (resumeR s (.next d b k') k).st).closed = (absS s).closed := by rw [this]
    simpa [absS, hc] using h2
  | push d v => simp [resumeR, hc]
  | fpush d v => simp [resumeR, hc]
  | pop d => simp [resumeR, hc]
  | len => simp [resumeR, hc]
  | close => simp [resumeR, hc]

/-- an operation that returns a context error has no effect (and its context was cancelled) -/
theorem ctx_start (s : St) (op : Op) : (startR s op).fin ≠ .ret .ctx := by
  cases op with
  | push d v =>
    simp only [startR]
    rcases hae : addEnd s d v with ⟨s', r, sg⟩
    have := addEnd_res s d v; rw [hae] at this
    simp only at this ⊢
    rcases this with h | h | h | h <;> simp [h]
  | fpush d v =>
    simp only [startR]
    rcases hae : forcePush s d v with ⟨s', r, sg⟩
    simp only
    intro h
    have hr : r = .ctx := by simpa using h
    subst hr
    unfold forcePush at hae
    by_cases hcap : s.tracker.atCap = true
    · simp only [hcap, ite_true] at hae
      have := addEnd_res (popEnd s d.opp).1 d v
      rcases hp : popEnd s d.opp with ⟨s1, ov, sg1⟩
      rw [hp] at hae this
      rcases ha : addEnd s1 d v with ⟨s2, r2, sg2⟩
      rw [ha] at hae this
      simp only [Prod.mk.injEq] at hae
      simp only at this
      rw [hae.2.1] at this
      simp at this
    · simp only [hcap, Bool.false_eq_true, ite_false] at hae
      have := addEnd_res s d v
      rw [hae] at this
      simp at this
  | pop d =>
    simp only [startR]
    rcases hpe : popEnd s d with ⟨s', ov, sg⟩
    cases ov <;> simp
  | wait d =>
    simp only [startR]
    by_cases hc : s.closed = true
    · simp [hc]
    · simp only [hc, Bool.false_eq_true, ite_false]
      by_cases he : s.q.isEmpty = true
      · simp [he, waitPopLoop, hc]
      · simp only [he, Bool.false_eq_true, ite_false, waitPopLoop, hc]
        rcases hpe : popEnd s d with ⟨s', ov, sg⟩
        cases ov <;> simp
  | wpush d v =>
    simp only [startR]
    by_cases hr : s.tracker.hasRoom = true
    · simp only [hr, ite_true]
      rcases hae : addEnd s d v with ⟨s', r, sg⟩
      have := addEnd_res s d v; rw [hae] at this
      simp only at this ⊢
      rcases this with h | h | h | h <;> simp [h]
    · simp only [hr, Bool.false_eq_true, ite_false, waitPushLoop, Bool.not_false, ite_true]
      by_cases hc : s.closed = true <;> simp [hc]
  | len => simp [startR]
  | close => simp [startR]
  | next d b k =>
    simp only [startR]
    by_cases hn : (s.nbr d (s.cursor (cursorKey d b k)) == 0 && b) = true
    · simp only [hn, ite_true, iterLoop]
      simp only [Bool.and_eq_true] at hn
      simp only [hn.1, ite_true]
      by_cases hc : s.closed = true <;> simp [hc]
    · simp only [hn, Bool.false_eq_true, ite_false, iterYield]
      by_cases h0 : (s.nbr d (s.cursor (cursorKey d b k)) == 0) = true <;> simp [h0]

theorem ctx_resume (s : St) (op : Op) (k : Bool) (h : (resumeR s op k).fin = .ret .ctx) :
    (resumeR s op k).st = s ∧ k = true := by
  cases op with
  | wait d =>
    simp only [resumeR, waitPopLoop] at h ⊢
    by_cases he : s.q.isEmpty = true
    · simp only [he, ite_true] at h ⊢
      by_cases hc : s.closed = true
      · simp [hc] at h
      · by_cases hk : k = true
        · simp [hc, hk]
        · simp [hc, hk] at h
    · simp only [he, Bool.false_eq_true, ite_false] at h
      by_cases hc : s.closed = true
      · simp [hc] at h
      · simp only [hc, Bool.false_eq_true, ite_false] at h
        rcases hpe : popEnd s d with ⟨s', ov, sg⟩
        rw [hpe] at h
        cases ov <;> simp at h
  | wpush d v =>
    simp only [resumeR, waitPushLoop] at h ⊢
    by_cases hr : s.tracker.hasRoom = true
    · simp only [hr, Bool.not_true, Bool.false_eq_true, ite_false] at h
      rcases hae : addEnd s d v with ⟨s', r, sg⟩
      have := addEnd_res s d v; rw [hae] at this
      rw [hae] at h
      simp only at this h
      rcases this with h' | h' | h' | h' <;> simp [h'] at h
    · simp only [hr, Bool.not_false, ite_true] at h ⊢
      by_cases hc : s.closed = true
      · simp [hc] at h
      · by_cases hk : k = true
        · simp [hc, hk]
        · simp [hc, hk] at h
  | next d b k' =>
    cases b with
    | false => simp [resumeR] at h
    | true =>
      simp only [resumeR, iterLoop] at h ⊢
      by_cases hn : (s.nbr d (s.cursor (cursorKey d true k')) == 0) = true
      · simp only [hn, ite_true] at h ⊢
        by_cases hc : s.closed = true
        · simp [hc] at h
        · by_cases hk : k = true
          · simp [hc, hk]
          · simp [hc, hk] at h
      · simp only [hn, Bool.false_eq_true, ite_false, iterYield] at h
        by_cases h0 : (s.nbr d (s.cursor (cursorKey d true k')) == 0) = true <;> simp [h0] at h
  | push d v => simp [resumeR] at h
  | fpush d v => simp [resumeR] at h
  | pop d => simp [resumeR] at h
  | len => simp [resumeR] at h
  | close => simp [resumeR] at h

/-! ## `DequeOptions.Validate` / `NewDeque` -/

theorem QOpts.validate_some {o o' : QOpts} (h : o.validate = some o') :
    o'.hard = o.hard ∧ 0 < o.hard ∧ o.soft ≤ o.hard ∧ 1 ≤ o'.soft ∧ o'.soft ≤ o'.hard ∧
      o'.soft = (if o.soft ≤ 0 then o.hard else o.soft) := by
  unfold QOpts.validate at h
  by_cases h1 : (decide (o.hard ≤ 0) || decide (o.hard < o.soft)) = true
  · simp [h1] at h
  · simp only [h1, Bool.false_eq_true, ite_false] at h
    by_cases h2 : o.burst < 0
    · simp [h2] at h
    · simp only [h2, ite_false, Option.some.injEq] at h
      subst h
      simp only [Bool.or_eq_true, decide_eq_true_eq, not_or, Int.not_le, Int.not_lt] at h1
      refine ⟨rfl, h1.1, h1.2, ?_, ?_, rfl⟩ <;> (simp only; split <;> omega)

/-- the accepted set of `DequeOptions.Validate`, as a decision table -/
theorem validate_accepts (o : Opts) :
    (o.validate).isSome = true ↔
      (o.qopts = none ∧ ((o.unlimited = true ∧ o.capacity = 0) ∨ o.unlimited = false)) ∨
      (∃ qo, o.qopts = some qo ∧ (qo.validate).isSome = true ∧ o.capacity ≤ 0 ∧ o.unlimited = false) := by
  unfold Opts.validate
  cases hq : o.qopts with
  | none =>
    simp only
    by_cases h1 : (o.unlimited && o.capacity == 0) = true
    · simp only [h1, ite_true, Option.isSome_some, true_iff]
      simp only [Bool.and_eq_true, beq_iff_eq] at h1
      exact Or.inl ⟨trivial, Or.inl h1⟩
    · simp only [h1, Bool.false_eq_true, ite_false]
      cases hu : o.unlimited with
      | true =>
        simp only [hu, Bool.true_and, beq_iff_eq] at h1
        simp [h1]
      | false => simp
  | some qo =>
    simp only
    cases hv : qo.validate with
    | none => simp [hv]
    | some qo' =>
      by_cases hcap : o.capacity > 0
      · simp only [hcap, ite_true]
        simp; intro _ _; omega
      · simp only [hcap, ite_false]
        cases hu : o.unlimited with
        | true => simp
        | false => simp [hv]; omega

/-- `NewDeque` never leaves the tracker nil, and a new deque is empty, open, and satisfies the
    representation invariant -/
theorem newDeque_ok (o : Opts) : newDeque o ≠ some none ∧
    ∀ st, newDeque o = some (some st) → Inv st ∧ st.q = [] ∧ st.closed = false ∧ st.stale = [] ∧ st.cursors = [] ∧ st.nextId = 1 ∧ st.vals = [] := by
  unfold newDeque
  cases hv : o.validate with
  | none => simp
  | some o' =>
    simp only
    unfold Opts.validate at hv
    cases hq : o.qopts with
    | some qo =>
      rw [hq] at hv
      simp only at hv
      cases hqv : qo.validate with
      | none => simp [hqv] at hv
      | some qo' =>
        simp only [hqv] at hv
        by_cases hcap : o.capacity > 0
        · simp [hcap] at hv
        · simp only [hcap, ite_false] at hv
          cases hu : o.unlimited with
          | true => simp [hu] at hv
          | false =>
            simp only [hu, Bool.false_eq_true, ite_false, Option.some.injEq] at hv
            subst hv
            obtain ⟨_, h0, _, h1, h2, _⟩ := QOpts.validate_some hqv
            refine ⟨by simp, ?_⟩
            intro st hst
            simp only [Option.some.injEq] at hst; subst hst
            refine ⟨⟨rfl, ?_⟩, rfl, rfl, rfl, rfl, rfl, rfl⟩
            simp only [Tracker.WF]; omega
    | none =>
      rw [hq] at hv
      simp only at hv
      by_cases h1 : (o.unlimited && o.capacity == 0) = true
      · simp only [h1, ite_true, Option.some.injEq] at hv
        subst hv
        simp only [Bool.and_eq_true, beq_iff_eq] at h1
        simp only [hq, h1.2, h1.1]
        simp only [Int.lt_irrefl, ite_false, ite_true]
        refine ⟨by simp, ?_⟩
        intro st hst
        simp only [Option.some.injEq] at hst; subst hst
        exact ⟨⟨rfl, trivial⟩, rfl, rfl, rfl, rfl, rfl, rfl⟩
      · simp only [h1, Bool.false_eq_true, ite_false] at hv
        cases hu : o.unlimited with
        | true => simp [hu] at hv
        | false =>
          simp only [hu, Bool.false_eq_true, ite_false, Option.some.injEq] at hv
          subst hv
          simp only [hq]
          have hpos : (if o.capacity ≤ 0 then (1 : Int) else o.capacity) > 0 := by split <;> omega
          simp only [hpos, ite_true]
          refine ⟨by simp, ?_⟩
          intro st hst
          simp only [Option.some.injEq] at hst; subst hst
          refine ⟨⟨rfl, ?_⟩, rfl, rfl, rfl, rfl, rfl, rfl⟩
          simp only [Tracker.WF]; omega

end FunModel.Deque
