import FunGen.Sll
import FunProofs.Sll

/-! T-gen tie for dt/stack.go: the functions tools/go2lean (stack.go) regenerates from the current source
    (lean/FunGen/Sll.lean: `makeItem`, `Item_Ok`, `Stack_lazyInit`, `Item_Set`, `Item_Append`, `Item_Remove`
    with its loop, `Stack_Pop`) agree, on every heap, with the hand-written model of FunModel/Sll.lean the C16
    stack theorems are about.

    The generated code treats every pointer as an `Option Nat` and re-reads fields where the source does
    (`n.stack.head = n` after `n.stack = it.stack`); the model matches once on the pointers and writes a record
    at a time. The proofs therefore do not use `rfl`: both sides are unfolded, the nil/guard cases are split, and
    the resulting heaps are compared cell by cell (`heap_eq`), so re-ordering independent field writes in the
    source still proves, while a lost, added or re-ordered dependent write does not. -/
namespace FunProofs.GenTieSll
open FunModel.Sll FunModel.Sll.Heap FunGen.Sll

set_option linter.unusedSimpArgs false

theorem heap_ext {h1 h2 : Heap} (hi : ∀ a, h1.item a = h2.item a) (hh : ∀ a, h1.hdr a = h2.hdr a)
    (h3 : h1.ni = h2.ni) (h4 : h1.ns = h2.ns) : h1 = h2 := by
  cases h1; cases h2; simp only [Heap.mk.injEq] at *
  exact ⟨funext hi, funext hh, h3, h4⟩

/-- two heaps built by field writes are equal: compare them cell by cell -/
macro "heap_eq" : tactic => `(tactic| (
  apply heap_ext
  · intro a
    try simp [Heap.setItem_item, Heap.setHdr_hdr, Heap.alloc_item]
    all_goals (repeat' split)
    all_goals simp_all
  · intro a
    try simp [Heap.setItem_item, Heap.setHdr_hdr, Heap.alloc_item]
    all_goals (repeat' split)
    all_goals simp_all
  · simp
  · simp))

theorem makeItem_tie (h : Heap) (v : Int) :
    makeItem h v = some ((h.alloc { ok := true, value := v }).1, some (h.alloc { ok := true, value := v }).2) := rfl

theorem Ok_tie (h : Heap) (a : Nat) : Item_Ok h (some a) = some (h.item a).ok := by
  simp [Item_Ok, andP, neP, ldI]

theorem Ok_nil (h : Heap) : Item_Ok h none = some false := by
  simp [Item_Ok, andP, neP, ldI]

theorem lazyInit_nil (h : Heap) : Stack_lazyInit h none = none := by
  simp [Stack_lazyInit, eqP]

theorem lazyInit_tie (h : Heap) (s : Nat) : Stack_lazyInit h (some s) = some (h.lazyInit s) := by
  cases hd : (h.hdr s).head with
  | some a => simp [Stack_lazyInit, Heap.lazyInit, eqP, ldS, hd]
  | none =>
    simp [Stack_lazyInit, Heap.lazyInit, eqP, ldS, hd, makeItem]
    heap_eq

theorem Set_tie (h : Heap) (it : Nat) (v : Int) : Item_Set h (some it) v = some (h.itemSet it v) := by
  cases hx : h.item it with
  | mk nx st ok vl =>
    cases st <;> cases nx <;> simp [Item_Set, Heap.itemSet, andP, neP, eqP, ldI, hx]
    all_goals heap_eq

theorem lazyInit_stack (h : Heap) (s it : Nat) (hs : (h.item it).stack = some s) :
    ((h.lazyInit s).item it).stack = some s := by
  unfold Heap.lazyInit
  cases hd : (h.hdr s).head with
  | some a => simpa using hs
  | none =>
    by_cases hi : it = h.ni
    · subst hi; simp
    · simp [Heap.alloc_item, hi, hs]

theorem Append_nil (h : Heap) (it : Nat) : Item_Append h (some it) none = some (h, some it) := by
  simp [Item_Append, orP, eqP]

theorem Append_tie (h : Heap) (it : Nat) (n : Option Nat) :
    Item_Append h (some it) n = (h.itemAppend it n).map (fun p => (p.1, some p.2)) := by
  cases n with
  | none => simp [Item_Append, orP, eqP, Heap.itemAppend]
  | some n =>
    cases hs : (h.item it).stack with
    | none => simp [Item_Append, orP, eqP, neP, notP, ldI, Heap.itemAppend, hs]
    | some s =>
      cases hns : (h.item n).stack with
      | some s' =>
        by_cases hss : s = s' <;> simp [Item_Append, orP, eqP, neP, notP, ldI, Heap.itemAppend, hs, hns, hss]
      | none =>
        cases hok : (h.item n).ok with
        | false => simp [Item_Append, orP, eqP, neP, notP, ldI, Heap.itemAppend, hs, hns, hok]
        | true =>
          have h1 := lazyInit_stack h s it hs
          have hne : it ≠ n := by rintro rfl; simp [hs] at hns
          simp [Item_Append, orP, eqP, neP, notP, ldI, ldS, Heap.itemAppend, hs, hns, hok, lazyInit_tie, hne, h1]
          generalize h.lazyInit s = h' at h1
          heap_eq

theorem lazyInit_head (h : Heap) (s : Nat) : ∃ a, ((h.lazyInit s).hdr s).head = some a := by
  unfold Heap.lazyInit
  cases hd : (h.hdr s).head with
  | some a => exact ⟨a, hd⟩
  | none => exact ⟨h.ni, by simp⟩

theorem Pop_tie (h : Heap) (s : Nat) :
    Stack_Pop h (some s) = (h.pop s).map (fun p => (p.1, some p.2)) := by
  cases hd : (h.hdr s).head with
  | none =>
    obtain ⟨a, ha⟩ := lazyInit_head h s
    simp [Stack_Pop, Heap.pop, eqP, ldS, hd, lazyInit_tie, ha]
  | some x =>
    by_cases hl : (h.hdr s).length = 0
    · simp [Stack_Pop, Heap.pop, eqP, ldS, hd, hl]
    · simp [Stack_Pop, Heap.pop, eqP, ldS, ldI, hd, hl]
      try heap_eq

theorem Remove_nil (fuel : Nat) (h : Heap) : Item_Remove fuel h none = some (h, false) := by
  simp [Item_Remove, orP, eqP]

theorem Remove_loop_tie (h : Heap) (it s : Nat) (hs : (h.item it).stack = some s) (fuel : Nat) (prev : Option Nat) :
    Item_Remove_loop1 fuel h (some it) prev =
      (h.removeLoop it s prev fuel).map (fun p => (p.1, if p.2 then some true else none)) := by
  induction fuel generalizing prev with
  | zero => simp [Item_Remove_loop1, Heap.removeLoop]
  | succ fuel ih =>
    cases prev with
    | none => simp [Item_Remove_loop1, Heap.removeLoop, Ok_nil]
    | some p =>
      cases hok : (h.item p).ok with
      | false => simp [Item_Remove_loop1, Heap.removeLoop, Ok_tie, hok]
      | true =>
        by_cases hn : (h.item p).next = some it
        · simp [Item_Remove_loop1, Heap.removeLoop, Ok_tie, hok, hn, eqP, ldI, hs]
          by_cases hp : it = p
          · subst hp; simp [hs]; try heap_eq
          · simp [hp, hs]; try heap_eq
        · simp [Item_Remove_loop1, Heap.removeLoop, Ok_tie, hok, hn, eqP, ldI, ih]

/-- the fuel the model gives the loop of `Item.Remove` -/
def removeFuel (h : Heap) (it : Nat) : Nat :=
  match (h.item it).stack with
  | some s => ((h.hdr s).length.toNat + 2)
  | none => 0

theorem Remove_tie (h : Heap) (it : Nat) :
    Item_Remove (removeFuel h it) h (some it) = h.itemRemove it := by
  cases hs : (h.item it).stack with
  | none => simp [Item_Remove, Heap.itemRemove, orP, eqP, notP, ldI, hs]
  | some s =>
    cases hok : (h.item it).ok with
    | false => simp [Item_Remove, Heap.itemRemove, orP, eqP, notP, ldI, hs, hok]
    | true =>
      by_cases hh : (h.hdr s).head = some it
      · simp [Item_Remove, Heap.itemRemove, orP, eqP, notP, ldI, ldS, hs, hok, hh]
        try heap_eq
      · simp [Item_Remove, Heap.itemRemove, orP, eqP, notP, ldI, ldS, hs, hok, hh, removeFuel, Remove_loop_tie h it s hs]
        generalize h.removeLoop it s (h.hdr s).head ((h.hdr s).length.toNat + 2) = r
        cases r with
        | none => rfl
        | some q => obtain ⟨h', b⟩ := q; cases b <;> rfl

theorem Push_tie (h : Heap) (s : Nat) (v : Int) : Stack_Push h (some s) v = h.push s v := by
  obtain ⟨a, ha⟩ := lazyInit_head h s
  simp [Stack_Push, Heap.push, lazyInit_tie, ldS, makeItem_tie, ha, Append_tie]
  cases (((h.lazyInit s).alloc { ok := true, value := v }).1.itemAppend a (some (h.lazyInit s).ni)) <;> rfl

theorem Head_tie (h : Heap) (s : Nat) :
    Stack_Head h (some s) = some ((h.head s).1, (h.head s).2) := by
  simp [Stack_Head, Heap.head, lazyInit_tie, ldS]

end FunProofs.GenTieSll
