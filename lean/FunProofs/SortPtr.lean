import FunProofs.Dll
import FunProofs.SortPtrSeq

set_option linter.unusedSimpArgs false

/-! Refinement of the pointer-level `dt/cmp.go` (`FunModel/Dll.lean`: `split`, `merge`, `mergeSort`,
    `sortMerge`, `sortQuick`, `isSorted`, `heapPush`, `popFront`) to the sequence-level algorithms of
    `FunModel/SortSeq.lean`, on every well-formed heap (`WF h g` of `FunProofs/Dll.lean`).

    Conventions. `g l` is the ghost sequence of element addresses of list `l`; `Keyed h g k` says
    that the item of every element that is in some list is given by the key function `k` (so that
    comparisons made by the code through `(h.node x).item` are comparisons `ltOn lt k`); results
    describe the new ghost state `g'` list by list. The fuel arguments of the inner loops are the
    ones the model's own wrappers (`split`, `merge`, `isSorted`, `sortQuick`, `heapPush`) pass;
    each loop lemma asks for "fuel > number of iterations needed" and each wrapper lemma shows that
    the fuel passed satisfies it, for lists of any length. -/

namespace FunProofs.SortPtr
open FunModel FunModel.Dll

/-! ### 1. keys -/

/-- the item of every element held by some list is `k` of its address -/
def Keyed (h : Heap) (g : Nat → List Nat) (k : Nat → Int) : Prop :=
  ∀ l x, x ∈ g l → (h.node x).item = k x

theorem Keyed.self (h : Heap) (g : Nat → List Nat) : Keyed h g (fun a => (h.node a).item) :=
  fun _ _ _ => rfl

/-- operations that only move existing elements around keep the keys -/
theorem Keyed.sub {h h' : Heap} {g g' : Nat → List Nat} {k : Nat → Int} (hk : Keyed h g k) (hw : WF h g)
    (hf : Frame h h') (hs : ∀ l x, x ∈ g' l → ∃ l0, x ∈ g l0) : Keyed h' g' k := by
  intro l x hx
  obtain ⟨l0, hx0⟩ := hs l x hx
  rw [(hf.data x ((hw.lwf l0).elem x hx0).1).2]
  exact hk l0 x hx0

theorem Keyed.frame {h h' : Heap} {g : Nat → List Nat} {k : Nat → Int} (hk : Keyed h g k) (hw : WF h g)
    (hf : Frame h h') : Keyed h' g k :=
  hk.sub hw hf (fun l _ hx => ⟨l, hx⟩)

theorem Keyed.vals {h : Heap} {g : Nat → List Nat} {k : Nat → Int} (hk : Keyed h g k) (l : Nat) :
    vals h g l = (g l).map k := by
  unfold Dll.vals
  exact List.map_congr_left (fun _ hx => hk l _ hx)

theorem wf_congr {h : Heap} {g g' : Nat → List Nat} (hw : WF h g) (he : g = g') : WF h g' := he ▸ hw

/-! ### 2. moving the front element of one list to the back of another
    (`out.Back().Append(list.PopFront())`) -/

theorem move {h : Heap} {g : Nat → List Nat} {k : Nat → Int} (hw : WF h g) (hk : Keyed h g k)
    {src dst r x : Nat} {xs : List Nat} (hne : src ≠ dst) (hg : g src = x :: xs)
    (hr : (h.hdr dst).root = some r) :
    ∃ h1 h2, h.popFront src = some (h1, x) ∧
      h1.elemAppend (lastOr r (g dst)) (some x) = some (h2, x) ∧
      WF h2 (upd (upd g src xs) dst (g dst ++ [x])) ∧ Frame h h2 ∧
      Keyed h2 (upd (upd g src xs) dst (g dst ++ [x])) k := by
  have hxm : x ∈ g src := by simp [hg]
  obtain ⟨hx1, hx2, _⟩ := (hw.lwf src).elem x hxm
  obtain ⟨h1, e1, hw1, hf1, hd1⟩ := hw.popFront_cons hg
  have hok1 : (h1.node x).ok = true := by rw [(hf1.data x hx1).1]; exact hx2
  have hr1 := hf1.root dst r hr
  have hgl : upd g src xs dst = g dst := upd_other g xs hne.symm
  have hbl : (h1.node (lastOr r (g dst))).list = some dst := by
    have := hw1.last_list hr1; rw [hgl] at this; exact this
  obtain ⟨h2, e2, hw2, hf2, _, _⟩ :=
    hw1.elemAppend_accept hbl (Nat.lt_of_lt_of_le hx1 hf1.nn) hok1 hd1
  have hrew := hw1.append_last_eq hr1 x
  rw [hgl] at hrew
  rw [hgl, hrew] at hw2
  refine ⟨h1, h2, e1, e2, hw2, hf1.trans hf2, hk.sub hw (hf1.trans hf2) ?_⟩
  intro l y hy
  by_cases hld : l = dst
  · subst hld
    rw [upd_same] at hy
    rcases List.mem_append.1 hy with hy | hy
    · exact ⟨l, hy⟩
    · simp at hy; subst hy; exact ⟨src, hxm⟩
  · rw [upd_other _ _ hld] at hy
    by_cases hls : l = src
    · subst hls
      rw [upd_same] at hy
      exact ⟨l, by rw [hg]; exact List.mem_cons_of_mem _ hy⟩
    · rw [upd_other _ _ hls] at hy; exact ⟨l, hy⟩

/-! ### 3. `split` -/

theorem splitLoop_spec {l out r : Nat} (hlo : l ≠ out) (m : Nat) :
    ∀ (fuel : Nat) {h : Heap} {g : Nat → List Nat} {k : Nat → Int},
    WF h g → Keyed h g k → (h.hdr out).root = some r → (g l).length - m < fuel →
    ∃ h' g', h.splitLoop l out (m : Int) fuel = some h' ∧ WF h' g' ∧ Frame h h' ∧ Keyed h' g' k ∧
      g' out = g out ++ (g l).take ((g l).length - m) ∧ g' l = (g l).drop ((g l).length - m) ∧
      ∀ l', l' ≠ l → l' ≠ out → g' l' = g l' := by
  intro fuel
  induction fuel with
  | zero => intro h g k _ _ _ hf; cases hf
  | succ f ih =>
    intro h g k hw hk hr hf
    by_cases hlen : m < (g l).length
    · have hcond : (h.hdr l).length > (m : Int) := by rw [(hw.lwf l).len]; omega
      cases hg : g l with
      | nil => rw [hg] at hlen; cases hlen
      | cons x xs =>
        obtain ⟨h1, h2, e1, e2, hw2, hf2, hk2⟩ := move hw hk hlo hg hr
        have hgl2 : upd (upd g l xs) out (g out ++ [x]) l = xs := by
          rw [upd_other _ _ hlo, upd_same]
        have hlen' : (g l).length = xs.length + 1 := by rw [hg]; rfl
        obtain ⟨h', g', e3, hw', hf', hk', ho, hl', hoth⟩ := ih hw2 hk2 (hf2.root out r hr)
          (by rw [hgl2]; omega)
        refine ⟨h', g', ?_, hw', hf2.trans hf', hk', ?_, ?_, ?_⟩
        · rw [Heap.splitLoop]
          simp [hcond, hw.back_eq hr, e1, e2, e3]
        · rw [ho, hgl2, upd_same]
          have : (x :: xs).length - m = (xs.length - m) + 1 := by simp; omega
          rw [this, List.take_succ_cons]
          simp
        · rw [hl', hgl2]
          have : (x :: xs).length - m = (xs.length - m) + 1 := by simp; omega
          rw [this, List.drop_succ_cons]
        · intro l' h1' h2'
          rw [hoth l' h1' h2', upd_other _ _ h2', upd_other _ _ h1']
    · have hcond : ¬ (h.hdr l).length > (m : Int) := by rw [(hw.lwf l).len]; omega
      have hz : (g l).length - m = 0 := by omega
      refine ⟨h, g, ?_, hw, Frame.refl h, hk, by simp [hz], by simp [hz], fun _ _ _ => rfl⟩
      rw [Heap.splitLoop]
      simp [hcond]

theorem split_spec {h : Heap} {g : Nat → List Nat} {k : Nat → Int} (hw : WF h g) (hk : Keyed h g k)
    {l : Nat} (hl : l < h.nl) :
    ∃ h' g', h.split l = some (h', h.nl) ∧ WF h' g' ∧ Frame h h' ∧ Keyed h' g' k ∧ h.nl < h'.nl ∧
      g' h.nl = (SortSeq.split (g l)).1 ∧ g' l = (SortSeq.split (g l)).2 ∧
      ∀ l', l' ≠ l → l' ≠ h.nl → g' l' = g l' := by
  have hw1 := hw.allocList
  have hf1 := Frame.allocList hw
  have hgo : g h.nl = [] := hw.ghost_unalloc (Nat.le_refl _)
  have hlo : l ≠ h.nl := Nat.ne_of_lt hl
  obtain ⟨hw2, hf2, r, hr⟩ := hw1.lazySetup (l := h.nl) (by simp)
  have hk2 : Keyed (h.allocList.1.lazySetup h.nl) g k := hk.frame hw (hf1.trans hf2)
  have hlen := (hw.lwf l).len
  have hhalf : (h.hdr l).length / 2 = (((g l).length / 2 : Nat) : Int) := by rw [hlen]; omega
  obtain ⟨h', g', e1, hw', hf', hk', ho, hl', hoth⟩ :=
    splitLoop_spec hlo ((g l).length / 2) ((h.hdr l).length.toNat + 1) hw2 hk2 hr
      (by rw [hlen]; simp; omega)
  refine ⟨h', g', ?_, hw', (hf1.trans hf2).trans hf', hk', ?_, ?_, ?_, hoth⟩
  · simp only [Heap.split, Heap.allocList_snd]
    rw [hhalf, e1]
    rfl
  · have := (hf2.trans hf').nl
    simp at this; omega
  · rw [ho, hgo]; simp [SortSeq.split]
  · rw [hl']; simp [SortSeq.split]

/-! ### 4. `merge` -/

theorem mergeLoop_spec {a b out r : Nat} (hab : a ≠ b) (hao : a ≠ out) (hbo : b ≠ out)
    (lt : Int → Int → Bool) :
    ∀ (fuel : Nat) {h : Heap} {g : Nat → List Nat} {k : Nat → Int},
    WF h g → Keyed h g k → (h.hdr out).root = some r → (g a).length + (g b).length < fuel →
    ∃ h' g' M, h.mergeLoop lt a b out fuel = some h' ∧ WF h' g' ∧ Frame h h' ∧ Keyed h' g' k ∧
      g' out = g out ++ M ∧ (g' a = [] ∨ g' b = []) ∧
      M ++ (g' a ++ g' b) = SortSeq.merge (ltOn lt k) (g a) (g b) ∧
      ∀ l', l' ≠ a → l' ≠ b → l' ≠ out → g' l' = g l' := by
  intro fuel
  induction fuel with
  | zero => intro h g k _ _ _ hf; cases hf
  | succ f ih =>
    intro h g k hw hk hr hf
    cases ha : g a with
    | nil =>
      have hz : (h.hdr a).length = 0 := hw.len_eq_zero.2 ha
      refine ⟨h, g, [], ?_, hw, Frame.refl h, hk, by simp, Or.inl ha, ?_, fun _ _ _ _ => rfl⟩
      · rw [Heap.mergeLoop]; simp [hz]
      · rw [ha]; simp [SortSeq.merge_nil_left]
    | cons x xa =>
      cases hb : g b with
      | nil =>
        have hz : (h.hdr b).length = 0 := hw.len_eq_zero.2 hb
        refine ⟨h, g, [], ?_, hw, Frame.refl h, hk, by simp, Or.inr hb, ?_, fun _ _ _ _ => rfl⟩
        · rw [Heap.mergeLoop]; simp [hz]
        · rw [ha, hb]; simp [SortSeq.merge_nil_right]
      | cons y yb =>
        have hxm : x ∈ g a := by simp [ha]
        have hym : y ∈ g b := by simp [hb]
        have hca : (h.hdr a).length ≠ 0 := by
          intro hz; have := hw.len_eq_zero.1 hz; rw [ha] at this; cases this
        have hcb : (h.hdr b).length ≠ 0 := by
          intro hz; have := hw.len_eq_zero.1 hz; rw [hb] at this; cases this
        obtain ⟨ra, hra⟩ := hw.mem_root hxm
        obtain ⟨rb, hrb⟩ := hw.mem_root hym
        have hfa : h.front a = some x := by rw [hw.front_eq hra, ha]; rfl
        have hfb : h.front b = some y := by rw [hw.front_eq hrb, hb]; rfl
        have hcmp : lt (h.node x).item (h.node y).item = ltOn lt k x y := by
          rw [hk a x hxm, hk b y hym]; rfl
        have hlena : (g a).length = xa.length + 1 := by rw [ha]; rfl
        have hlenb : (g b).length = yb.length + 1 := by rw [hb]; rfl
        cases hxy : ltOn lt k x y with
        | true =>
          rw [hxy] at hcmp
          obtain ⟨h1, h2, e1, e2, hw2, hf2, hk2⟩ := move hw hk hao ha hr
          have g2a : upd (upd g a xa) out (g out ++ [x]) a = xa := by
            rw [upd_other _ _ hao, upd_same]
          have g2b : upd (upd g a xa) out (g out ++ [x]) b = y :: yb := by
            rw [upd_other _ _ hbo, upd_other _ _ hab.symm, hb]
          obtain ⟨h', g', M, e3, hw', hf', hk', ho, hemp, hm, hoth⟩ := ih hw2 hk2 (hf2.root out r hr)
            (by rw [g2a, g2b]; simp; omega)
          refine ⟨h', g', x :: M, ?_, hw', hf2.trans hf', hk', ?_, hemp, ?_, ?_⟩
          · rw [Heap.mergeLoop]
            simp [hca, hcb, Heap.lazySetup_some hra, Heap.lazySetup_some hrb, hfa, hfb, hw.back_eq hr,
              hcmp, e1, e2, e3]
          · rw [ho, upd_same]; simp
          · rw [SortSeq.merge_cons_cons, hxy, if_pos rfl, List.cons_append, hm, g2a, g2b]
          · intro l' h1' h2' h3'
            rw [hoth l' h1' h2' h3', upd_other _ _ h3', upd_other _ _ h1']
        | false =>
          rw [hxy] at hcmp
          obtain ⟨h1, h2, e1, e2, hw2, hf2, hk2⟩ := move hw hk hbo hb hr
          have g2a : upd (upd g b yb) out (g out ++ [y]) a = x :: xa := by
            rw [upd_other _ _ hao, upd_other _ _ hab, ha]
          have g2b : upd (upd g b yb) out (g out ++ [y]) b = yb := by
            rw [upd_other _ _ hbo, upd_same]
          obtain ⟨h', g', M, e3, hw', hf', hk', ho, hemp, hm, hoth⟩ := ih hw2 hk2 (hf2.root out r hr)
            (by rw [g2a, g2b]; simp; omega)
          refine ⟨h', g', y :: M, ?_, hw', hf2.trans hf', hk', ?_, hemp, ?_, ?_⟩
          · rw [Heap.mergeLoop]
            simp [hca, hcb, Heap.lazySetup_some hra, Heap.lazySetup_some hrb, hfa, hfb, hw.back_eq hr,
              hcmp, e1, e2, e3]
          · rw [ho, upd_same]; simp
          · rw [SortSeq.merge_cons_cons, hxy, if_neg (by simp), List.cons_append, hm, g2a, g2b]
          · intro l' h1' h2' h3'
            rw [hoth l' h1' h2' h3', upd_other _ _ h3', upd_other _ _ h2']

theorem Keyed.extend {h h' : Heap} {g : Nat → List Nat} {k : Nat → Int} (hk : Keyed h g k) (hw : WF h g)
    (hf : Frame h h') (l src : Nat) : Keyed h' (upd (upd g l (g l ++ g src)) src []) k := by
  refine hk.sub hw hf ?_
  intro l' x hx
  by_cases h1 : l' = src
  · subst h1; rw [upd_same] at hx; cases hx
  · rw [upd_other _ _ h1] at hx
    by_cases h2 : l' = l
    · subst h2
      rw [upd_same] at hx
      rcases List.mem_append.1 hx with hx | hx
      · exact ⟨_, hx⟩
      · exact ⟨_, hx⟩
    · rw [upd_other _ _ h2] at hx; exact ⟨_, hx⟩

theorem merge_spec {h : Heap} {g : Nat → List Nat} {k : Nat → Int} (hw : WF h g) (hk : Keyed h g k)
    {a b : Nat} (ha : a < h.nl) (hb : b < h.nl) (hab : a ≠ b) (lt : Int → Int → Bool) :
    ∃ h' g', h.merge lt a b = some (h', h.nl) ∧ WF h' g' ∧ Frame h h' ∧ Keyed h' g' k ∧ h.nl < h'.nl ∧
      g' h.nl = SortSeq.merge (ltOn lt k) (g a) (g b) ∧ g' a = [] ∧ g' b = [] ∧
      ∀ l', l' ≠ a → l' ≠ b → l' ≠ h.nl → g' l' = g l' := by
  have hw1 := hw.allocList
  have hf1 := Frame.allocList hw
  have hgo : g h.nl = [] := hw.ghost_unalloc (Nat.le_refl _)
  have hao : a ≠ h.nl := Nat.ne_of_lt ha
  have hbo : b ≠ h.nl := Nat.ne_of_lt hb
  obtain ⟨hw2, hf2, r, hr⟩ := hw1.lazySetup (l := h.nl) (by simp)
  have hk2 : Keyed (h.allocList.1.lazySetup h.nl) g k := hk.frame hw (hf1.trans hf2)
  have hnl2 : h.nl + 1 ≤ (h.allocList.1.lazySetup h.nl).nl := by have := hf2.nl; simpa using this
  simp only [Heap.merge, Heap.allocList_snd]
  generalize h.allocList.1.lazySetup h.nl = h2 at *
  obtain ⟨h3, g3, M, e3, hw3, hf3, hk3, ho3, hemp3, hm3, hoth3⟩ :=
    mergeLoop_spec hab hao hbo lt (((h2.hdr a).length + (h2.hdr b).length).toNat + 1) hw2 hk2 hr
      (by rw [(hw2.lwf a).len, (hw2.lwf b).len]; omega)
  have hout3 : h.nl < h3.nl := by have := hf3.nl; omega
  have ha3 : a < h3.nl := by omega
  have hb3 : b < h3.nl := by omega
  obtain ⟨h4, e4, hw4, hf4⟩ := hw3.extend hout3 ha3 hao.symm
  have hk4 := hk3.extend hw3 hf4 h.nl a
  generalize hg4 : upd (upd g3 h.nl (g3 h.nl ++ g3 a)) a [] = g4 at hw4 hk4
  have hout4 : h.nl < h4.nl := by have := hf4.nl; omega
  have hb4 : b < h4.nl := by have := hf4.nl; omega
  obtain ⟨h5, e5, hw5, hf5⟩ := hw4.extend hout4 hb4 hbo.symm
  have hk5 := hk4.extend hw4 hf5 h.nl b
  have g4o : g4 h.nl = g3 h.nl ++ g3 a := by rw [← hg4, upd_other _ _ hao.symm, upd_same]
  have g4b : g4 b = g3 b := by rw [← hg4, upd_other _ _ hab.symm, upd_other _ _ hbo]
  refine ⟨h5, _, ?_, hw5, (((hf1.trans hf2).trans hf3).trans hf4).trans hf5, hk5, ?_, ?_, ?_, ?_, ?_⟩
  · rw [e3]; simp [e4, e5]
  · have := hf5.nl; omega
  · rw [upd_other _ _ hbo.symm, upd_same, g4o, g4b, ho3, hgo, ← hm3]; simp
  · rw [upd_other _ _ hab, upd_other _ _ hao, ← hg4, upd_same]
  · rw [upd_same]
  · intro l' h1' h2' h3'
    rw [upd_other _ _ h2', upd_other _ _ h3', ← hg4, upd_other _ _ h1', upd_other _ _ h3',
      hoth3 l' h1' h2' h3']

/-! ### 5. `mergeSort`, `SortMerge` -/

theorem mergeSort_spec (lt : Int → Int → Bool) :
    ∀ (fuel : Nat) {h : Heap} {g : Nat → List Nat} {k : Nat → Int} {head : Nat},
    WF h g → Keyed h g k → head < h.nl →
    ∃ h' g' res, h.mergeSort lt head fuel = some (h', res) ∧ WF h' g' ∧ Frame h h' ∧ Keyed h' g' k ∧
      res < h'.nl ∧ (res = head ∨ h.nl ≤ res) ∧
      g' res = SortSeq.mergeSort (ltOn lt k) (g head) fuel ∧ (res ≠ head → g' head = []) ∧
      ∀ l', l' ≠ head → l' ≠ res → g' l' = g l' := by
  intro fuel
  induction fuel with
  | zero =>
    intro h g k head hw hk hh
    exact ⟨h, g, head, by rw [Heap.mergeSort], hw, Frame.refl h, hk, hh, Or.inl rfl,
      by rw [SortSeq.mergeSort_zero], fun hx => absurd rfl hx, fun _ _ _ => rfl⟩
  | succ f ih =>
    intro h g k head hw hk hh
    by_cases hlen : (g head).length < 2
    · have hcond : (h.hdr head).length < 2 := by rw [(hw.lwf head).len]; omega
      refine ⟨h, g, head, ?_, hw, Frame.refl h, hk, hh, Or.inl rfl,
        by rw [SortSeq.mergeSort_short _ hlen], fun hx => absurd rfl hx, fun _ _ _ => rfl⟩
      rw [Heap.mergeSort]; simp [hcond]
    · have hcond : ¬ (h.hdr head).length < 2 := by rw [(hw.lwf head).len]; omega
      have hunalloc : ∀ l', h.nl ≤ l' → g l' = [] := fun l' hl' => hw.ghost_unalloc hl'
      -- tail := split(head)
      obtain ⟨h1, g1, e1, hw1, hf1, hk1, hnl1, g1t, g1h, g1o⟩ := split_spec hw hk hh
      have hth : h.nl ≠ head := (Nat.ne_of_lt hh).symm
      -- head = mergeSort(head)
      obtain ⟨h2, g2, res1, e2, hw2, hf2, hk2, hr1, hd1, g2r, g2h, g2o⟩ :=
        ih (head := head) hw1 hk1 (by omega)
      have hnl2 := hf2.nl
      have htr1 : h.nl ≠ res1 := by rcases hd1 with hd1 | hd1 <;> omega
      have g2t : g2 h.nl = (SortSeq.split (g head)).1 := by rw [g2o _ hth htr1, g1t]
      -- tail = mergeSort(tail)
      obtain ⟨h3, g3, res2, e3, hw3, hf3, hk3, hr2, hd2, g3r, g3t, g3o⟩ :=
        ih (head := h.nl) hw2 hk2 (by omega)
      have hnl3 := hf3.nl
      have hr12 : res1 ≠ res2 := by rcases hd2 with hd2 | hd2 <;> omega
      have hhr2 : head ≠ res2 := by rcases hd2 with hd2 | hd2 <;> omega
      have g3r1 : g3 res1 = SortSeq.mergeSort (ltOn lt k) (SortSeq.split (g head)).2 f := by
        rw [g3o _ htr1.symm hr12, g2r, g1h]
      rw [g2t] at g3r
      -- merge(lt, head, tail)
      obtain ⟨h4, g4, e4, hw4, hf4, hk4, hnl4, g4o, g4a, g4b, g4oth⟩ :=
        merge_spec hw3 hk3 (a := res1) (b := res2) (by omega) hr2 hr12 lt
      have hho : head ≠ h3.nl := by omega
      refine ⟨h4, g4, h3.nl, ?_, hw4, ((hf1.trans hf2).trans hf3).trans hf4, hk4, hnl4,
        Or.inr (by omega), ?_, ?_, ?_⟩
      · rw [Heap.mergeSort]; simp [hcond, e1, e2, e3, e4]
      · rw [g4o, g3r1, g3r, SortSeq.mergeSort_succ _ (Nat.le_of_not_lt hlen)]
      · intro _
        by_cases hx : head = res1
        · rw [hx]; exact g4a
        · rw [g4oth _ hx hhr2 hho, g3o _ hth.symm hhr2]
          exact g2h (fun hy => hx hy.symm)
      · intro l' hl1 hl2
        by_cases hx1 : l' = res1
        · subst hx1
          rw [g4a]
          rcases hd1 with hd1 | hd1
          · exact absurd hd1 hl1
          · exact (hunalloc _ (by omega)).symm
        · by_cases hx2 : l' = res2
          · subst hx2
            rw [g4b]
            exact (hunalloc _ (by rcases hd2 with hd2 | hd2 <;> omega)).symm
          · rw [g4oth _ hx1 hx2 hl2]
            by_cases hx3 : l' = h.nl
            · subst hx3
              rw [g3t (fun hy => hx2 hy.symm)]
              exact (hunalloc _ (Nat.le_refl _)).symm
            · rw [g3o _ hx3 hx2, g2o _ hl1 hx1, g1o _ hl1 hx3]

theorem sortMerge_spec {h : Heap} {g : Nat → List Nat} {k : Nat → Int} (hw : WF h g) (hk : Keyed h g k)
    {l : Nat} (hl : l < h.nl) (lt : Int → Int → Bool) :
    ∃ h' g', h.sortMerge lt l = some h' ∧ WF h' g' ∧ Frame h h' ∧ Keyed h' g' k ∧
      g' l = SortSeq.sortMerge (ltOn lt k) (g l) ∧ ∀ l', l' ≠ l → g' l' = g l' := by
  obtain ⟨h1, g1, res, e1, hw1, hf1, hk1, hr, hd, g1r, g1l, g1o⟩ :=
    mergeSort_spec lt ((h.hdr l).length.toNat + 1) hw hk hl
  rw [hw.len_toNat] at e1 g1r
  by_cases hres : res = l
  · subst hres
    refine ⟨h1, g1, ?_, hw1, hf1, hk1, g1r, fun l' hl' => g1o l' hl' hl'⟩
    simp [Heap.sortMerge, hw.len_toNat, e1]
  · have hge : h.nl ≤ res := by rcases hd with hd | hd; exact absurd hd hres; exact hd
    have hl1 : l < h1.nl := Nat.lt_of_lt_of_le hl hf1.nl
    obtain ⟨h2, e2, hw2, hf2⟩ := hw1.extend hl1 hr (fun hx => hres hx.symm)
    refine ⟨h2, _, ?_, hw2, hf1.trans hf2, hk1.extend hw1 hf2 l res, ?_, ?_⟩
    · simp [Heap.sortMerge, hw.len_toNat, e1, hres, e2]
    · rw [upd_other _ _ (fun hx => hres hx.symm), upd_same, g1l hres, g1r]; rfl
    · intro l' hl'
      by_cases hx : l' = res
      · subst hx; rw [upd_same]; exact (hw.ghost_unalloc hge).symm
      · rw [upd_other _ _ hx, upd_other _ _ hl', g1o l' hl' hx]

/-! ### 6. `SortQuick` -/

theorem popAllLoop_spec {l : Nat} : ∀ (fuel : Nat) {h : Heap} {g : Nat → List Nat} {acc : List Nat},
    WF h g → (g l).length < fuel →
    ∃ h', h.popAllLoop l fuel acc = some (h', acc.reverse ++ g l) ∧ WF h' (upd g l []) ∧ Frame h h' := by
  intro fuel
  induction fuel with
  | zero => intro h g acc _ hf; cases hf
  | succ f ih =>
    intro h g acc hw hf
    cases hg : g l with
    | nil =>
      have hz : (h.hdr l).length = 0 := hw.len_eq_zero.2 hg
      refine ⟨h, ?_, ?_, Frame.refl h⟩
      · rw [Heap.popAllLoop]; simp [hz]
      · have : upd g l [] = g := by have := upd_self g l; rwa [hg] at this
        rw [this]; exact hw
    | cons x xs =>
      have hpos : (h.hdr l).length > 0 := by rw [(hw.lwf l).len, hg]; simp
      obtain ⟨h1, e1, hw1, hf1, _⟩ := hw.popFront_cons hg
      obtain ⟨h2, e2, hw2, hf2⟩ := ih (acc := x :: acc) hw1 (by rw [upd_same]; rw [hg] at hf; simpa using hf)
      refine ⟨h2, ?_, ?_, hf1.trans hf2⟩
      · rw [Heap.popAllLoop]; simp [hpos, e1, e2]
      · rw [upd_upd] at hw2; exact hw2

theorem insertStable_eq {h : Heap} {lt : Int → Int → Bool} {k : Nat → Int} (e : Nat) (xs : List Nat)
    (he : (h.node e).item = k e) (hx : ∀ x, x ∈ xs → (h.node x).item = k x) :
    h.insertStable lt e xs = SortSeq.insertStable (ltOn lt k) e xs := by
  induction xs with
  | nil => rfl
  | cons x xs ih =>
    have hx0 := hx x (by simp)
    have ih' := ih (fun y hy => hx y (by simp [hy]))
    by_cases hc : lt (k x) (k e) = true <;>
      simp [Heap.insertStable, SortSeq.insertStable, hx0, he, hc, ih']

theorem stableSort_eq {h : Heap} {lt : Int → Int → Bool} {k : Nat → Int} (xs : List Nat)
    (hx : ∀ x, x ∈ xs → (h.node x).item = k x) :
    h.stableSort lt xs = SortSeq.sortQuick (ltOn lt k) xs := by
  induction xs with
  | nil => rfl
  | cons x xs ih =>
    have ih' := ih (fun y hy => hx y (by simp [hy]))
    show h.insertStable lt x (h.stableSort lt xs) = SortSeq.insertStable (ltOn lt k) x (SortSeq.sortQuick (ltOn lt k) xs)
    rw [ih']
    apply insertStable_eq _ _ (hx x (by simp))
    intro y hy
    exact hx y (by simp [(sortQuick_perm' (ltOn lt k) xs).mem_iff.1 hy])

theorem appendAll_spec {l : Nat} : ∀ (es : List Nat) {h : Heap} {g : Nat → List Nat},
    WF h g → l < h.nl → es.Nodup →
    (∀ e, e ∈ es → e < h.nn ∧ (h.node e).ok = true ∧ ∀ l', e ∉ g l') →
    ∃ h', h.appendAll l es = some h' ∧ WF h' (upd g l (g l ++ es)) ∧ Frame h h' := by
  intro es
  induction es with
  | nil =>
    intro h g hw _ _ _
    refine ⟨h, rfl, ?_, Frame.refl h⟩
    simpa using hw
  | cons e es ih =>
    intro h g hw hl hnd hes
    obtain ⟨hw0, hf0, r, hr⟩ := hw.lazySetup hl
    obtain ⟨he1, he2, he3⟩ := hes e (by simp)
    simp only [Heap.appendAll]
    have hes0 : ∀ e', e' ∈ e :: es → e' < (h.lazySetup l).nn ∧ ((h.lazySetup l).node e').ok = true := by
      intro e' he'
      obtain ⟨h1, h2, _⟩ := hes e' he'
      exact ⟨Nat.lt_of_lt_of_le h1 hf0.nn, by rw [(hf0.data e' h1).1]; exact h2⟩
    generalize h.lazySetup l = h0 at *
    have hdet : (h0.node e).list = none := by
      apply hw0.detached
      · intro l' hr'
        have := ((hw0.lwf l').root e hr').2.1
        rw [(hes0 e (by simp)).2] at this; cases this
      · exact he3
    obtain ⟨h1, e1, hw1, hf1, hn1, _⟩ :=
      hw0.elemAppend_accept (hw0.last_list hr) (hes0 e (by simp)).1 (hes0 e (by simp)).2 hdet
    rw [hw0.append_last_eq hr e] at hw1
    have hnd' := List.nodup_cons.1 hnd
    obtain ⟨h2, e2, hw2, hf2⟩ := ih hw1 (Nat.lt_of_lt_of_le hl (hf0.trans hf1).nl) hnd'.2 (by
      intro e' he'
      have hm : e' ∈ e :: es := List.mem_cons_of_mem _ he'
      obtain ⟨h1', h2'⟩ := hes0 e' hm
      refine ⟨Nat.lt_of_lt_of_le h1' hf1.nn, by rw [(hf1.data e' h1').1]; exact h2', ?_⟩
      intro l' hx
      by_cases hl' : l' = l
      · subst hl'
        rw [upd_same] at hx
        rcases List.mem_append.1 hx with hx | hx
        · exact (hes e' hm).2.2 _ hx
        · simp at hx; subst hx; exact hnd'.1 he'
      · rw [upd_other _ _ hl'] at hx
        exact (hes e' hm).2.2 _ hx)
    refine ⟨h2, ?_, ?_, (hf0.trans hf1).trans hf2⟩
    · simp [hw0.back_eq hr, e1, e2]
    · rw [upd_upd, upd_same] at hw2
      simpa using hw2

theorem sortQuick_spec {h : Heap} {g : Nat → List Nat} {k : Nat → Int} (hw : WF h g) (hk : Keyed h g k)
    {l : Nat} (hl : l < h.nl) (lt : Int → Int → Bool) :
    ∃ h' g', h.sortQuick lt l = some h' ∧ WF h' g' ∧ Frame h h' ∧ Keyed h' g' k ∧
      g' l = SortSeq.sortQuick (ltOn lt k) (g l) ∧ ∀ l', l' ≠ l → g' l' = g l' := by
  obtain ⟨h1, e1, hw1, hf1⟩ := popAllLoop_spec (l := l) ((h.hdr l).length.toNat + 1) (acc := []) hw
    (by rw [hw.len_toNat]; exact Nat.lt_succ_self _)
  have hitem : ∀ x, x ∈ g l → (h1.node x).item = k x := by
    intro x hx
    rw [(hf1.data x ((hw.lwf l).elem x hx).1).2]; exact hk l x hx
  have hss := stableSort_eq (h := h1) (lt := lt) (g l) hitem
  have hperm := sortQuick_perm' (ltOn lt k) (g l)
  obtain ⟨h2, e2, hw2, hf2⟩ := appendAll_spec (l := l) (SortSeq.sortQuick (ltOn lt k) (g l)) hw1
    (Nat.lt_of_lt_of_le hl hf1.nl) (hperm.nodup_iff.2 (hw.lwf l).nodup) (by
      intro e he
      have hm : e ∈ g l := hperm.mem_iff.1 he
      obtain ⟨h1', h2', _⟩ := (hw.lwf l).elem e hm
      refine ⟨Nat.lt_of_lt_of_le h1' hf1.nn, by rw [(hf1.data e h1').1]; exact h2', ?_⟩
      intro l' hx
      by_cases hl' : l' = l
      · subst hl'; rw [upd_same] at hx; cases hx
      · rw [upd_other _ _ hl'] at hx
        exact hl' (hw.disjoint hx hm))
  rw [upd_upd, upd_same, List.nil_append] at hw2
  refine ⟨h2, _, ?_, hw2, hf1.trans hf2, hk.sub hw (hf1.trans hf2) ?_, upd_same _ _ _,
    fun l' hl' => upd_other _ _ hl'⟩
  · simp only [Heap.sortQuick]
    rw [e1]
    simp [hss, e2]
  · intro l' x hx
    by_cases hl' : l' = l
    · subst hl'; rw [upd_same] at hx; exact ⟨l', hperm.mem_iff.1 hx⟩
    · rw [upd_other _ _ hl'] at hx; exact ⟨l', hx⟩

/-! ### 7. `IsSorted` -/

theorem isSortedLoop_spec {h : Heap} {g : Nat → List Nat} (hw : WF h g) {l r : Nat}
    (hr : (h.hdr l).root = some r) (lt : Int → Int → Bool) :
    ∀ (rest pre : List Nat) (p fuel : Nat), g l = pre ++ p :: rest → rest.length < fuel →
    h.isSortedLoop lt (some (rest.headD r)) fuel =
      some (SortSeq.isSorted (ltOn lt (fun a => (h.node a).item)) (p :: rest)) := by
  intro rest
  induction rest with
  | nil =>
    intro pre p fuel _ hf
    cases fuel with
    | zero => cases hf
    | succ f =>
      have := ((hw.lwf l).root r hr).2.1
      simp [Heap.isSortedLoop, this, SortSeq.isSorted]
  | cons e rest ih =>
    intro pre p fuel hg hf
    cases fuel with
    | zero => cases hf
    | succ f =>
      have hem : e ∈ g l := by rw [hg]; simp
      have hok := ((hw.lwf l).elem e hem).2.1
      have hch := ((hw.lwf l).root r hr).2.2.2
      have hg' : g l = (pre ++ [p]) ++ e :: rest := by rw [hg]; simp
      rw [hg'] at hch
      have hprev : (h.node e).prev = some p := by rw [hch.prev_mid, lastOr_snoc]
      have hnext : (h.node e).next = some (rest.headD r) := hch.next_mid
      have ih' := ih (pre ++ [p]) e f hg' (by simpa using hf)
      cases hlt : lt (h.node e).item (h.node p).item with
      | true => simp [Heap.isSortedLoop, hok, hprev, hlt, SortSeq.isSorted]
      | false =>
        simp only [List.headD_cons, Heap.isSortedLoop, hok, hprev, hnext, if_true]
        simp [hlt, SortSeq.isSorted]
        simpa using ih'

theorem isSorted_spec {h : Heap} {g : Nat → List Nat} (hw : WF h g) (l : Nat) (lt : Int → Int → Bool) :
    h.isSorted lt l = some (SortSeq.isSorted (ltOn lt (fun a => (h.node a).item)) (g l)) := by
  have hlen := (hw.lwf l).len
  match hg : g l with
  | [] => rw [hg] at hlen; simp [Heap.isSorted, hlen, SortSeq.isSorted]
  | [x] => rw [hg] at hlen; simp [Heap.isSorted, hlen, SortSeq.isSorted]
  | x :: y :: rest =>
    have hcond : ¬ (h.hdr l).length ≤ 1 := by rw [hlen, hg]; simp; omega
    obtain ⟨r, hr⟩ := hw.mem_root (l := l) (x := x) (by simp [hg])
    have hch := ((hw.lwf l).root r hr).2.2.2
    have hfirst : (h.node r).next = some x := by rw [hch.next_first, hg]; rfl
    have hg' : g l = [] ++ x :: (y :: rest) := by simp [hg]
    rw [hg'] at hch
    have hsecond : (h.node x).next = some y := by rw [hch.next_mid]; rfl
    have := isSortedLoop_spec hw hr lt (y :: rest) [] x ((h.hdr l).length.toNat + 1) hg'
      (by rw [hw.len_toNat, hg]; simp)
    simp only [List.headD_cons] at this
    simp [Heap.isSorted, hcond, Heap.root, hr, hfirst, hsecond, this]

/-! ### 8. `Heap.Push` / `Heap.Pop` -/

theorem heapPushLoop_spec {h : Heap} {g : Nat → List Nat} {l r : Nat} (hw : WF h g) (hl : l < h.nl)
    (hr : (h.hdr l).root = some r) (lt : Int → Int → Bool) (t : Int) :
    ∀ (fuel : Nat) (front back_ : List Nat), g l = front ++ back_ →
    (∀ y, y ∈ back_ → lt t (h.node y).item = true) → front.length < fuel →
    ∃ h' n f1 f2, h.heapPushLoop lt l t (some (lastOr r front)) fuel = some h' ∧
      WF h' (upd g l (f1 ++ n :: (f2 ++ back_))) ∧ Frame h h' ∧ h.nn ≤ n ∧ (h'.node n).item = t ∧
      front = f1 ++ f2 ∧ (∀ y, y ∈ f2 → lt t (h.node y).item = true) ∧
      (f1 = [] ∨ ∃ f e, f1 = f ++ [e] ∧ lt t (h.node e).item = false) := by
  intro fuel
  induction fuel with
  | zero => intro front back_ _ _ hf; cases hf
  | succ f ih =>
    intro front back_ hg hb hf
    rcases List.eq_nil_or_concat front with rfl | ⟨fr, e, rfl⟩
    · have hrok := ((hw.lwf l).root r hr).2.1
      obtain ⟨h', n, e1, hw', hf', hn, hi⟩ := hw.pushFront hl t
      refine ⟨h', n, [], [], ?_, ?_, hf', hn, hi, rfl, by simp, Or.inl rfl⟩
      · rw [Heap.heapPushLoop]; simp [hrok, e1]
      · simpa [hg] using hw'
    · rw [List.concat_eq_append] at hg hf ⊢
      have hg' : g l = fr ++ e :: back_ := by rw [hg]; simp
      have hem : e ∈ g l := by rw [hg']; simp
      obtain ⟨_, hok, hlist⟩ := (hw.lwf l).elem e hem
      have hch := ((hw.lwf l).root r hr).2.2.2
      rw [hg'] at hch
      rw [lastOr_snoc]
      cases hlt : lt t (h.node e).item with
      | true =>
        have hprev : (h.node e).prev = some (lastOr r fr) := hch.prev_mid
        obtain ⟨h', n, f1, f2, e1, hw', hf', hn, hi, hfr, h2, h1⟩ := ih fr (e :: back_) hg'
          (by intro y hy; rcases List.mem_cons.1 hy with rfl | hy; exact hlt; exact hb y hy)
          (by simp at hf; omega)
        refine ⟨h', n, f1, f2 ++ [e], ?_, ?_, hf', hn, hi, by rw [hfr]; simp, ?_, h1⟩
        · rw [Heap.heapPushLoop]; simp [hok, hlt, hprev, e1]
        · simpa using hw'
        · intro y hy
          rcases List.mem_append.1 hy with hy | hy
          · exact h2 y hy
          · simp at hy; subst hy; exact hlt
      | false =>
        obtain ⟨h', e1, hw', hf', hi⟩ := hw.appendNew hlist t
        have hnr : (h.hdr l).root ≠ some e := fun hx => hw.root_not_mem hx hem
        have hefr : e ∉ fr := by
          have hnd := (hw.lwf l).nodup
          rw [hg'] at hnd
          intro hx; rw [List.nodup_append] at hnd; exact hnd.2.2 e hx e (by simp) rfl
        rw [if_neg hnr, hg', insertAfter_split hefr] at hw'
        refine ⟨h', h.nn, fr ++ [e], [], ?_, ?_, hf', Nat.le_refl _, hi, by simp, by simp,
          Or.inr ⟨fr, e, rfl, hlt⟩⟩
        · rw [Heap.heapPushLoop]; simp [hok, hlt, Heap.makeElem, e1]
        · simpa using hw'

theorem heapPush_spec {h : Heap} {g : Nat → List Nat} (hw : WF h g) {l : Nat} (hl : l < h.nl)
    (lt : Int → Int → Bool) (t : Int) :
    ∃ h' g' n f1 f2, h.heapPush lt l t = some h' ∧ WF h' g' ∧ Frame h h' ∧ h.nn ≤ n ∧
      (h'.node n).item = t ∧ g l = f1 ++ f2 ∧ g' l = f1 ++ n :: f2 ∧ (∀ l', l' ≠ l → g' l' = g l') ∧
      vals h' g' l = SortSeq.heapInsert lt t (vals h g l) := by
  obtain ⟨hw0, hf0, r, hr⟩ := hw.lazySetup hl
  have hv0 : vals (h.lazySetup l) g l = vals h g l := hf0.vals hw rfl
  have hl0 : l < (h.lazySetup l).nl := Nat.lt_of_lt_of_le hl hf0.nl
  have hnn0 := hf0.nn
  simp only [Heap.heapPush]
  rw [← hv0]
  generalize h.lazySetup l = h0 at *
  have key : ∃ h' n f1 f2, (if (h0.hdr l).length = 0 then h0.pushBack l t
        else h0.heapPushLoop lt l t (h0.back l) ((h0.hdr l).length.toNat + 1)) = some h' ∧
      WF h' (upd g l (f1 ++ n :: f2)) ∧ Frame h0 h' ∧ h0.nn ≤ n ∧ (h'.node n).item = t ∧
      g l = f1 ++ f2 ∧ (∀ y, y ∈ f2 → lt t (h0.node y).item = true) ∧
      (f1 = [] ∨ ∃ f e, f1 = f ++ [e] ∧ lt t (h0.node e).item = false) := by
    by_cases hz : (h0.hdr l).length = 0
    · have hg := hw0.len_eq_zero.1 hz
      obtain ⟨h', n, e1, hw', hf', hn, hi⟩ := hw0.pushBack hl0 t
      refine ⟨h', n, [], [], by simp [hz, e1], ?_, hf', hn, hi, by simp [hg], by simp, Or.inl rfl⟩
      simpa [hg] using hw'
    · obtain ⟨h', n, f1, f2, e1, hw', hf', hn, hi, hfr, h2, h1⟩ :=
        heapPushLoop_spec hw0 hl0 hr lt t ((h0.hdr l).length.toNat + 1) (g l) [] (by simp) (by simp)
          (by rw [hw0.len_toNat]; exact Nat.lt_succ_self _)
      refine ⟨h', n, f1, f2, ?_, by simpa using hw', hf', hn, hi, hfr, h2, h1⟩
      simp [hz, hw0.back_eq hr, e1]
  obtain ⟨h', n, f1, f2, e1, hw', hf', hn, hi, hgl, h2, h1⟩ := key
  refine ⟨h', _, n, f1, f2, e1, hw', hf0.trans hf', Nat.le_trans hnn0 hn, hi, hgl, upd_same _ _ _,
    fun l' hl' => upd_other _ _ hl', ?_⟩
  have hlt0 : ∀ x, x ∈ g l → x < h0.nn := fun x hx => ((hw0.lwf l).elem x hx).1
  have hm1 : f1.map (fun a => (h'.node a).item) = f1.map (fun a => (h0.node a).item) :=
    hf'.map_item (fun x hx => hlt0 x (by rw [hgl]; simp [hx]))
  have hm2 : f2.map (fun a => (h'.node a).item) = f2.map (fun a => (h0.node a).item) :=
    hf'.map_item (fun x hx => hlt0 x (by rw [hgl]; simp [hx]))
  simp only [vals, upd_same, List.map_append, List.map_cons, hi, hm1, hm2, hgl]
  symm
  apply heapInsert_split
  · intro y hy
    obtain ⟨a, ha, rfl⟩ := List.mem_map.1 hy
    exact h2 a ha
  · rcases h1 with rfl | ⟨f, e, rfl, he⟩
    · exact Or.inl rfl
    · exact Or.inr ⟨f.map (fun a => (h0.node a).item), (h0.node e).item, by simp, he⟩

/-- `Heap.Pop` on a non-empty backing list: the front element comes back, ok, with its item -/
theorem heapPop_cons {h : Heap} {g : Nat → List Nat} (hw : WF h g) {l x : Nat} {xs : List Nat}
    (hg : g l = x :: xs) :
    ∃ h', h.popFront l = some (h', x) ∧ WF h' (upd g l xs) ∧ Frame h h' ∧
      (h'.node x).ok = true ∧ (h'.node x).item = (h.node x).item ∧
      vals h g l = (h.node x).item :: vals h' (upd g l xs) l := by
  obtain ⟨h', e1, hw', hf', _⟩ := hw.popFront_cons hg
  obtain ⟨hx1, hx2, _⟩ := (hw.lwf l).elem x (by simp [hg])
  refine ⟨h', e1, hw', hf', by rw [(hf'.data x hx1).1]; exact hx2, (hf'.data x hx1).2, ?_⟩
  simp only [vals, upd_same, hg, List.map_cons]
  rw [hf'.map_item (fun y hy => ((hw.lwf l).elem y (by simp [hg, hy])).1)]

/-! ### 9. whole runs of the heap: any interleaving of `Push` and `Pop` -/

inductive HOp where
  | push (t : Int)
  | pop
  deriving Repr, DecidableEq

/-- pointer level: `Heap.Push t` = `heapPush`, `Heap.Pop()` = `PopFront` then `(e.Value(), e.Ok())`;
    returns the final heap and what the pops returned -/
def heapRun (lt : Int → Int → Bool) (l : Nat) : List HOp → Heap → Option (Heap × List (Int × Bool))
  | [], h => some (h, [])
  | .push t :: ops, h => (h.heapPush lt l t).bind (heapRun lt l ops)
  | .pop :: ops, h =>
    (h.popFront l).bind fun p =>
      (heapRun lt l ops p.1).map fun q => (q.1, ((p.1.node p.2).item, (p.1.node p.2).ok) :: q.2)

/-- sequence level: the heap is the list of its values; `Push` = `heapInsert`, `Pop` takes the head
    (zero value and `false` when empty) -/
def seqRun (lt : Int → Int → Bool) : List HOp → List Int → List Int × List (Int × Bool)
  | [], xs => (xs, [])
  | .push t :: ops, xs => seqRun lt ops (SortSeq.heapInsert lt t xs)
  | .pop :: ops, [] => ((seqRun lt ops []).1, (0, false) :: (seqRun lt ops []).2)
  | .pop :: ops, x :: xs => ((seqRun lt ops xs).1, (x, true) :: (seqRun lt ops xs).2)

theorem heapRun_refines (lt : Int → Int → Bool) {l : Nat} :
    ∀ (ops : List HOp) {h : Heap} {g : Nat → List Nat}, WF h g → l < h.nl →
    ∃ h' g', heapRun lt l ops h = some (h', (seqRun lt ops (vals h g l)).2) ∧ WF h' g' ∧ Frame h h' ∧
      vals h' g' l = (seqRun lt ops (vals h g l)).1 ∧ ∀ l', l' ≠ l → g' l' = g l' := by
  intro ops
  induction ops with
  | nil => intro h g hw _; exact ⟨h, g, rfl, hw, Frame.refl h, rfl, fun _ _ => rfl⟩
  | cons op ops ih =>
    intro h g hw hl
    cases op with
    | push t =>
      obtain ⟨h1, g1, n, f1, f2, e1, hw1, hf1, _, _, _, _, hoth, hv⟩ := heapPush_spec hw hl lt t
      obtain ⟨h2, g2, e2, hw2, hf2, hv2, hoth2⟩ := ih hw1 (Nat.lt_of_lt_of_le hl hf1.nl)
      refine ⟨h2, g2, ?_, hw2, hf1.trans hf2, ?_, fun l' hl' => (hoth2 l' hl').trans (hoth l' hl')⟩
      · simp only [heapRun, seqRun, e1, Option.bind_some]; rw [e2, hv]
      · simp only [seqRun]; rw [hv2, hv]
    | pop =>
      cases hg : g l with
      | nil =>
        obtain ⟨h1, z, e1, _, hw1, hf1, _, _, hz⟩ := hw.pop_empty hl hg
        obtain ⟨h2, g2, e2, hw2, hf2, hv2, hoth2⟩ := ih hw1 (Nat.lt_of_lt_of_le hl hf1.nl)
        have hv : vals h g l = [] := by simp [vals, hg]
        have hv1 : vals h1 g l = [] := by simp [vals, hg]
        rw [hv1] at e2 hv2
        refine ⟨h2, g2, ?_, hw2, hf1.trans hf2, ?_, hoth2⟩
        · simp [heapRun, seqRun, hv, e1, e2, hz]
        · simp [seqRun, hv, hv2]
      | cons x xs =>
        obtain ⟨h1, e1, hw1, hf1, hok, hit, hv⟩ := heapPop_cons hw hg
        obtain ⟨h2, g2, e2, hw2, hf2, hv2, hoth2⟩ := ih hw1 (Nat.lt_of_lt_of_le hl hf1.nl)
        refine ⟨h2, g2, ?_, hw2, hf1.trans hf2, ?_,
          fun l' hl' => (hoth2 l' hl').trans (upd_other _ _ hl')⟩
        · simp [heapRun, seqRun, hv, e1, e2, hok, hit]
        · simp [seqRun, hv, hv2]

theorem seqRun_pushes (lt : Int → Int → Bool) (ts : List Int) (ops : List HOp) (xs : List Int) :
    seqRun lt (ts.map HOp.push ++ ops) xs =
      seqRun lt ops (ts.foldl (fun acc t => SortSeq.heapInsert lt t acc) xs) := by
  induction ts generalizing xs with
  | nil => rfl
  | cons t ts ih => simp only [List.map_cons, List.cons_append, seqRun, List.foldl_cons, ih]

theorem seqRun_pops (lt : Int → Int → Bool) (ops : List HOp) (xs : List Int) :
    seqRun lt (List.replicate xs.length HOp.pop ++ ops) xs =
      ((seqRun lt ops []).1, xs.map (fun v => (v, true)) ++ (seqRun lt ops []).2) := by
  induction xs with
  | nil => rfl
  | cons x xs ih =>
    simp only [List.length_cons, List.replicate_succ, List.cons_append, seqRun, ih, List.map_cons]

/-- pushing `ts` and popping `ts.length + 1` times, at the sequence level -/
theorem seqRun_push_pop (lt : Int → Int → Bool) (ts : List Int) :
    seqRun lt (ts.map HOp.push ++ (List.replicate ts.length HOp.pop ++ [HOp.pop])) [] =
      ([], (SortSeq.heapOf lt ts).map (fun v => (v, true)) ++ [(0, false)]) := by
  rw [seqRun_pushes]
  have hlen : ts.length = (SortSeq.heapOf lt ts).length := by
    have := (SortSeq.foldl_heapInsert_perm lt ts []).length_eq
    simpa [SortSeq.heapOf] using this.symm
  rw [hlen]
  exact seqRun_pops lt [HOp.pop] (SortSeq.heapOf lt ts)

/-! ### 10. witnesses -/

/-- for every sequence of values there is a well-formed heap whose list 0 holds it -/
theorem exists_list (vs : List Int) : ∃ h g, WF h g ∧ 0 < h.nl ∧ vals h g 0 = vs := by
  induction vs with
  | nil =>
    refine ⟨({} : Heap).allocList.1, fun _ => [], WF.empty.allocList, by simp, rfl⟩
  | cons v vs ih =>
    obtain ⟨h, g, hw, hl, hv⟩ := ih
    obtain ⟨h', n, _, hw', hf, _, hi⟩ := hw.pushFront hl v
    refine ⟨h', _, hw', Nat.lt_of_lt_of_le hl hf.nl, ?_⟩
    simp only [vals, upd_same, List.map_cons, hi]
    rw [hf.map_item (fun x hx => ((hw.lwf 0).elem x hx).1)]
    exact congrArg _ hv

/-- the list 3,-1,2,-1,0 (elements 1..5 of list 0), built by `PushBack`s -/
def demo5 : Option Heap := do
  let h := ({} : Heap).allocList.1
  let h ← h.pushBack 0 3
  let h ← h.pushBack 0 (-1)
  let h ← h.pushBack 0 2
  let h ← h.pushBack 0 (-1)
  h.pushBack 0 0

/-- what the driver prints for a list: items along the forward walk, along the backward walk, `Len` -/
def observe (h : Heap) (l : Nat) : List Int × List Int × Int :=
  let h := h.lazySetup l
  ((h.walkFwd l 100).1.map (fun a => (h.node a).item),
   (h.walkBwd l 100).1.map (fun a => (h.node a).item), (h.hdr l).length)

/-! ### 11. value-level forms (the key function is "the item in the heap before the call") -/

/-- the item of address `a` in heap `h` -/
def item (h : Heap) : Nat → Int := fun a => (h.node a).item

theorem vals_eq_map_item (h : Heap) (g : Nat → List Nat) (l : Nat) : vals h g l = (g l).map (item h) := rfl

/-- what "the rest of the heap is untouched" means for the lists other than `l` -/
theorem others_vals {h h' : Heap} {g g' : Nat → List Nat} (hw : WF h g) (hf : Frame h h') {l : Nat}
    (ho : ∀ l', l' ≠ l → g' l' = g l') :
    ∀ l', l' ≠ l → g' l' = g l' ∧ vals h' g' l' = vals h g l' :=
  fun l' hl' => ⟨ho l' hl', hf.vals hw (ho l' hl')⟩

theorem split_vals {h : Heap} {g : Nat → List Nat} (hw : WF h g) {l : Nat} (hl : l < h.nl) :
    ∃ h' g', h.split l = some (h', h.nl) ∧ WF h' g' ∧ Frame h h' ∧ h.nl < h'.nl ∧
      g' h.nl = (SortSeq.split (g l)).1 ∧ g' l = (SortSeq.split (g l)).2 ∧
      vals h' g' h.nl = (SortSeq.split (vals h g l)).1 ∧ vals h' g' l = (SortSeq.split (vals h g l)).2 ∧
      ∀ l', l' ≠ l → l' ≠ h.nl → g' l' = g l' := by
  obtain ⟨h', g', e1, hw', hf', hk', hnl, g1, g2, go⟩ := split_spec hw (Keyed.self h g) hl
  refine ⟨h', g', e1, hw', hf', hnl, g1, g2, ?_, ?_, go⟩
  · rw [hk'.vals, g1, map_split_fst]; rfl
  · rw [hk'.vals, g2, map_split_snd]; rfl

theorem merge_vals {h : Heap} {g : Nat → List Nat} (hw : WF h g) {a b : Nat} (ha : a < h.nl)
    (hb : b < h.nl) (hab : a ≠ b) (lt : Int → Int → Bool) :
    ∃ h' g', h.merge lt a b = some (h', h.nl) ∧ WF h' g' ∧ Frame h h' ∧ h.nl < h'.nl ∧
      g' h.nl = SortSeq.merge (ltOn lt (item h)) (g a) (g b) ∧ g' a = [] ∧ g' b = [] ∧
      vals h' g' h.nl = SortSeq.merge lt (vals h g a) (vals h g b) ∧
      ∀ l', l' ≠ a → l' ≠ b → l' ≠ h.nl → g' l' = g l' := by
  obtain ⟨h', g', e1, hw', hf', hk', hnl, g1, g2, g3, go⟩ := merge_spec hw (Keyed.self h g) ha hb hab lt
  refine ⟨h', g', e1, hw', hf', hnl, g1, g2, g3, ?_, go⟩
  rw [hk'.vals, g1, map_merge]; rfl

theorem mergeSort_vals {h : Heap} {g : Nat → List Nat} (hw : WF h g) {head : Nat} (hh : head < h.nl)
    (lt : Int → Int → Bool) (fuel : Nat) :
    ∃ h' g' res, h.mergeSort lt head fuel = some (h', res) ∧ WF h' g' ∧ Frame h h' ∧
      res < h'.nl ∧ (res = head ∨ h.nl ≤ res) ∧
      g' res = SortSeq.mergeSort (ltOn lt (item h)) (g head) fuel ∧
      vals h' g' res = SortSeq.mergeSort lt (vals h g head) fuel ∧ (res ≠ head → g' head = []) ∧
      ∀ l', l' ≠ head → l' ≠ res → g' l' = g l' := by
  obtain ⟨h', g', res, e1, hw', hf', hk', hr, hd, g1, g2, go⟩ :=
    mergeSort_spec lt fuel hw (Keyed.self h g) hh
  refine ⟨h', g', res, e1, hw', hf', hr, hd, g1, ?_, g2, go⟩
  rw [hk'.vals, g1, map_mergeSort]; rfl

theorem sortMerge_vals {h : Heap} {g : Nat → List Nat} (hw : WF h g) {l : Nat} (hl : l < h.nl)
    (lt : Int → Int → Bool) :
    ∃ h' g', h.sortMerge lt l = some h' ∧ WF h' g' ∧ Frame h h' ∧
      g' l = SortSeq.sortMerge (ltOn lt (item h)) (g l) ∧
      vals h' g' l = SortSeq.sortMerge lt (vals h g l) ∧
      ∀ l', l' ≠ l → g' l' = g l' ∧ vals h' g' l' = vals h g l' := by
  obtain ⟨h', g', e1, hw', hf', hk', g1, go⟩ := sortMerge_spec hw (Keyed.self h g) hl lt
  refine ⟨h', g', e1, hw', hf', g1, ?_, others_vals hw hf' go⟩
  rw [hk'.vals, g1, map_sortMerge]; rfl

theorem sortQuick_vals {h : Heap} {g : Nat → List Nat} (hw : WF h g) {l : Nat} (hl : l < h.nl)
    (lt : Int → Int → Bool) :
    ∃ h' g', h.sortQuick lt l = some h' ∧ WF h' g' ∧ Frame h h' ∧
      g' l = SortSeq.sortQuick (ltOn lt (item h)) (g l) ∧
      vals h' g' l = SortSeq.sortQuick lt (vals h g l) ∧
      ∀ l', l' ≠ l → g' l' = g l' ∧ vals h' g' l' = vals h g l' := by
  obtain ⟨h', g', e1, hw', hf', hk', g1, go⟩ := sortQuick_spec hw (Keyed.self h g) hl lt
  refine ⟨h', g', e1, hw', hf', g1, ?_, others_vals hw hf' go⟩
  rw [hk'.vals, g1, map_sortQuick]; rfl

theorem isSorted_vals {h : Heap} {g : Nat → List Nat} (hw : WF h g) (l : Nat) (lt : Int → Int → Bool) :
    h.isSorted lt l = some (SortSeq.isSorted lt (vals h g l)) := by
  rw [isSorted_spec hw l lt, isSorted_map]; rfl

/-- what "the list remains fully usable" means, for any well-formed heap: `Len` is the number of
    elements, every element is ok and owned by the list (`In(list)`), no element occurs twice, and
    the forward and the backward traversal (as every iterator of `dt.List` does them) visit exactly
    the elements, in order resp. in reverse order, and stop at the sentinel -/
theorem usable {h : Heap} {g : Nat → List Nat} (hw : WF h g) {l : Nat} (hl : l < h.nl) :
    (h.hdr l).length = (g l).length ∧ (g l).Nodup ∧
      (∀ x, x ∈ g l → (h.node x).ok = true ∧ (h.node x).list = some l) ∧
      ∀ fuel, (g l).length < fuel →
        (h.lazySetup l).walkFwd l fuel = (g l, "end") ∧
        (h.lazySetup l).walkBwd l fuel = ((g l).reverse, "end") := by
  obtain ⟨hw0, _, r, hr⟩ := hw.lazySetup hl
  exact ⟨(hw.lwf l).len, (hw.lwf l).nodup, fun x hx => ((hw.lwf l).elem x hx).2,
    fun fuel hf => ⟨hw0.walkFwd hr hf, hw0.walkBwd hr hf⟩⟩

end FunProofs.SortPtr
