import FunModel.SetModel
import FunProofs.SortSeq

/-! Invariant, reference model and helper lemmas for the model of `dt.Set` (C18).
    The property theorems are in `FunProps/C18.lean`. -/

namespace FunModel.SetModel
open FunModel.SortSeq

/-! ### generic list lemmas -/

theorem eq_of_map_eq_of_nodup {α β : Type} (f : α → β) {l : List α} (h : (l.map f).Nodup)
    {p q : α} (hp : p ∈ l) (hq : q ∈ l) (e : f p = f q) : p = q := by
  induction l with
  | nil => cases hp
  | cons x t ih =>
    simp only [List.map_cons, List.nodup_cons, List.mem_map, not_exists, not_and] at h
    rcases List.mem_cons.mp hp with rfl | hp' <;> rcases List.mem_cons.mp hq with rfl | hq'
    · rfl
    · exact absurd e.symm (h.1 q hq')
    · exact absurd e (h.1 p hp')
    · exact ih h.2 hp' hq'

theorem nodup_of_nodup_map {α β : Type} (f : α → β) {l : List α} (h : (l.map f).Nodup) :
    l.Nodup := by
  induction l with
  | nil => exact List.nodup_nil
  | cons x t ih =>
    simp only [List.map_cons, List.nodup_cons, List.mem_map, not_exists, not_and] at h
    exact List.nodup_cons.mpr ⟨fun hx => h.1 x hx rfl, ih h.2⟩

theorem filterMap_congr' {α β : Type} {f g : α → Option β} {l : List α}
    (h : ∀ x, x ∈ l → f x = g x) : l.filterMap f = l.filterMap g := by
  induction l with
  | nil => rfl
  | cons x t ih =>
    rw [List.filterMap_cons, List.filterMap_cons, h x List.mem_cons_self,
      ih (fun y hy => h y (List.mem_cons_of_mem _ hy))]

theorem nodup_filter {α : Type} (p : α → Bool) {l : List α} (h : l.Nodup) : (l.filter p).Nodup :=
  List.Nodup.sublist List.filter_sublist h

/-- a duplicate-free list included in a list that is not longer contains all of it -/
theorem subset_of_nodup_of_length_le {l1 l2 : List Int} (hn : l1.Nodup)
    (hs : ∀ a, a ∈ l1 → a ∈ l2) (hl : l2.length ≤ l1.length) : ∀ a, a ∈ l2 → a ∈ l1 := by
  induction l1 generalizing l2 with
  | nil =>
    intro a ha
    have : l2 = [] := List.eq_nil_of_length_eq_zero (Nat.le_zero.mp hl)
    rw [this] at ha; exact ha
  | cons x t ih =>
    have hx : x ∈ l2 := hs x List.mem_cons_self
    have hn' := List.nodup_cons.mp hn
    have hsub : ∀ a, a ∈ t → a ∈ l2.erase x := by
      intro a ha
      have hne : a ≠ x := fun e => hn'.1 (e ▸ ha)
      exact (List.mem_erase_of_ne hne).mpr (hs a (List.mem_cons_of_mem _ ha))
    have hlen : (l2.erase x).length ≤ t.length := by
      rw [List.length_erase_of_mem hx]
      simp only [List.length_cons] at hl
      omega
    intro a ha
    by_cases e : a = x
    · exact e ▸ List.mem_cons_self
    · exact List.mem_cons_of_mem _ (ih hn'.2 hsub hlen a ((List.mem_erase_of_ne e).mpr ha))

/-! ### the invariant and the reference model -/

namespace SetSt

/-- the keys of the map, in insertion order -/
def keys (s : SetSt) : List Int := s.hash.map (·.1)

/-- the reference model: the members in iteration order — the list's items for an ordered set,
    the keys in insertion order for an unordered one -/
def members (s : SetSt) : List Int :=
  match s.list with
  | some l => l.map (·.2)
  | none => s.hash.map (·.1)

/-- `mo` is a possible order for `range s.hash`: no repetitions, every key occurs -/
def GoodOrder (s : SetSt) (mo : List Int) : Prop := mo.Nodup ∧ ∀ k, k ∈ s.hash.map (·.1) → k ∈ mo

end SetSt

structure Inv (s : SetSt) : Prop where
  keys_nodup : (s.hash.map (·.1)).Nodup
  items_nodup : ∀ l, s.list = some l → (l.map (·.2)).Nodup
  addrs_nodup : ∀ l, s.list = some l → (l.map (·.1)).Nodup
  addrs_lt : ∀ l, s.list = some l → ∀ p, p ∈ l → p.1 < s.nextId
  items_keys : ∀ l, s.list = some l → ∀ k, k ∈ l.map (·.2) ↔ k ∈ s.hash.map (·.1)
  entry_ordered : ∀ l, s.list = some l → ∀ k e, (k, e) ∈ s.hash → ∃ a, e = some a ∧ (a, k) ∈ l
  entry_unordered : s.list = none → ∀ p, p ∈ s.hash → p.2 = none

/-- total on distinct values -/
def Total (lt : Int → Int → Bool) : Prop := ∀ a b, a ≠ b → lt a b = true ∨ lt b a = true

namespace SetSt

/-! ### lookup / check / len -/

theorem mem_keys_iff {h : List (Int × Option Nat)} {k : Int} :
    k ∈ h.map (·.1) ↔ ∃ e, (k, e) ∈ h := by
  constructor
  · intro hk
    obtain ⟨p, hp, rfl⟩ := List.mem_map.mp hk
    exact ⟨p.2, hp⟩
  · rintro ⟨e, he⟩
    exact List.mem_map.mpr ⟨(k, e), he, rfl⟩

theorem check_iff_keys (s : SetSt) (k : Int) : s.check k = true ↔ k ∈ s.hash.map (·.1) := by
  unfold check lookup
  rw [Option.isSome_map, List.find?_isSome]
  constructor
  · rintro ⟨p, hp, hpk⟩
    exact List.mem_map.mpr ⟨p, hp, by simpa using hpk⟩
  · intro hk
    obtain ⟨p, hp, rfl⟩ := List.mem_map.mp hk
    exact ⟨p, hp, by simp⟩

theorem check_false_iff_keys (s : SetSt) (k : Int) : s.check k = false ↔ k ∉ s.hash.map (·.1) := by
  rw [← check_iff_keys]; simp

theorem lookup_eq_some_iff {s : SetSt} (hn : (s.hash.map (·.1)).Nodup) (k : Int) (e : Option Nat) :
    s.lookup k = some e ↔ (k, e) ∈ s.hash := by
  unfold lookup
  constructor
  · intro h
    cases hf : s.hash.find? (fun p => p.1 == k) with
    | none => rw [hf] at h; cases h
    | some p =>
      rw [hf] at h
      have hm := List.mem_of_find?_eq_some hf
      have hk : p.1 = k := by simpa using List.find?_some hf
      have he : p.2 = e := by simpa using h
      rw [← hk, ← he]; exact hm
  · intro h
    cases hf : s.hash.find? (fun p => p.1 == k) with
    | none =>
      have := List.find?_eq_none.mp hf (k, e) h
      simp at this
    | some p =>
      have hm := List.mem_of_find?_eq_some hf
      have hk : p.1 = k := by simpa using List.find?_some hf
      have : p = (k, e) := eq_of_map_eq_of_nodup (·.1) hn hm h hk
      simp [this]

theorem lookup_eq_none_iff (s : SetSt) (k : Int) : s.lookup k = none ↔ k ∉ s.hash.map (·.1) := by
  rw [← check_iff_keys]
  unfold check
  cases s.lookup k <;> simp

theorem members_perm_keys {s : SetSt} (hi : Inv s) : (members s).Perm (s.hash.map (·.1)) := by
  unfold members
  cases hl : s.list with
  | none => exact List.Perm.refl _
  | some l =>
    exact (List.perm_ext_iff_of_nodup (hi.items_nodup l hl) hi.keys_nodup).mpr (hi.items_keys l hl)

theorem members_nodup {s : SetSt} (hi : Inv s) : (members s).Nodup :=
  (members_perm_keys hi).nodup_iff.mpr hi.keys_nodup

theorem mem_members_iff_keys {s : SetSt} (hi : Inv s) (k : Int) :
    k ∈ members s ↔ k ∈ s.hash.map (·.1) := (members_perm_keys hi).mem_iff

theorem check_iff_members {s : SetSt} (hi : Inv s) (k : Int) :
    s.check k = true ↔ k ∈ members s := by
  rw [check_iff_keys, mem_members_iff_keys hi]

theorem len_eq_members {s : SetSt} (hi : Inv s) : s.len = (members s).length := by
  unfold len
  rw [(members_perm_keys hi).length_eq, List.length_map]

/-! ### empty sets -/

theorem inv_empty : Inv ({} : SetSt) where
  keys_nodup := List.nodup_nil
  items_nodup := by intro l h; cases h
  addrs_nodup := by intro l h; cases h
  addrs_lt := by intro l h; cases h
  items_keys := by intro l h; cases h
  entry_ordered := by intro l h; cases h
  entry_unordered := by intro _ p hp; cases hp

theorem inv_order_empty : Inv (SetSt.order {}) where
  keys_nodup := List.nodup_nil
  items_nodup := by intro l h; cases h; exact List.nodup_nil
  addrs_nodup := by intro l h; cases h; exact List.nodup_nil
  addrs_lt := by intro l h; cases h; intro p hp; cases hp
  items_keys := by intro l h; cases h; intro k; exact Iff.rfl
  entry_ordered := by intro l h k e he; cases he
  entry_unordered := by intro h; cases h

/-- `Order()` preserves the invariant of a set with no elements (it panics otherwise) -/
theorem inv_order {s : SetSt} (hi : Inv s) (he : s.hash = []) : Inv s.order := by
  unfold order
  by_cases h : s.list.isSome
  · rw [if_pos h]; exact hi
  · rw [if_neg h]
    exact {
      keys_nodup := hi.keys_nodup
      items_nodup := by intro l h; cases h; exact List.nodup_nil
      addrs_nodup := by intro l h; cases h; exact List.nodup_nil
      addrs_lt := by intro l h; cases h; intro p hp; cases hp
      items_keys := by intro l h; cases h; intro k; show k ∈ [] ↔ k ∈ s.hash.map (·.1); rw [he]; exact Iff.rfl
      entry_ordered := by intro l h k e hke; change (k, e) ∈ s.hash at hke; rw [he] at hke; cases hke
      entry_unordered := by intro h; cases h }

/-! ### `AddCheck` -/

theorem addCheck_present {s : SetSt} {k : Int} (h : s.check k = true) : s.addCheck k = (s, true) := by
  unfold addCheck; rw [if_pos h]

theorem addCheck_absent_unordered {s : SetSt} {k : Int} (h : s.check k = false) (hl : s.list = none) :
    s.addCheck k = ({ s with hash := s.hash ++ [(k, none)] }, false) := by
  unfold addCheck; rw [if_neg (by simp [h])]; rw [hl]

theorem addCheck_absent_ordered {s : SetSt} {k : Int} (h : s.check k = false) {l : List (Nat × Int)}
    (hl : s.list = some l) :
    s.addCheck k = ({ s with hash := s.hash ++ [(k, some s.nextId)], list := some (l ++ [(s.nextId, k)]),
                             nextId := s.nextId + 1 }, false) := by
  unfold addCheck; rw [if_neg (by simp [h])]; rw [hl]

theorem addCheck_absent_members {s : SetSt} {k : Int} (h : s.check k = false) :
    (s.addCheck k).2 = false ∧ members (s.addCheck k).1 = members s ++ [k] := by
  cases hl : s.list with
  | none => rw [addCheck_absent_unordered h hl]; simp [members, hl]
  | some l => rw [addCheck_absent_ordered h hl]; simp [members, hl]

theorem addCheck_list_isSome (s : SetSt) (k : Int) : (s.addCheck k).1.list.isSome = s.list.isSome := by
  cases hc : s.check k with
  | true => rw [addCheck_present hc]
  | false =>
    cases hl : s.list with
    | none => rw [addCheck_absent_unordered hc hl]; simp [hl]
    | some l => rw [addCheck_absent_ordered hc hl]; simp

theorem addCheck_inv {s : SetSt} (hi : Inv s) (k : Int) : Inv (s.addCheck k).1 := by
  cases hc : s.check k with
  | true => rw [addCheck_present hc]; exact hi
  | false =>
    have hk : k ∉ s.hash.map (·.1) := (check_false_iff_keys s k).mp hc
    have hkn : ((s.hash ++ [(k, (none : Option Nat))]).map (·.1)).Nodup := by
      rw [List.map_append, List.nodup_append]
      refine ⟨hi.keys_nodup, by simp, ?_⟩
      intro a ha b hb
      simp only [List.map_cons, List.map_nil, List.mem_singleton] at hb
      subst hb
      exact fun e => hk (e ▸ ha)
    cases hl : s.list with
    | none =>
      rw [addCheck_absent_unordered hc hl]
      exact {
        keys_nodup := hkn
        items_nodup := by intro l h; rw [hl] at h; cases h
        addrs_nodup := by intro l h; rw [hl] at h; cases h
        addrs_lt := by intro l h; rw [hl] at h; cases h
        items_keys := by intro l h; rw [hl] at h; cases h
        entry_ordered := by intro l h; rw [hl] at h; cases h
        entry_unordered := by
          intro _ p hp
          rcases List.mem_append.mp hp with hp | hp
          · exact hi.entry_unordered hl p hp
          · simp only [List.mem_singleton] at hp; rw [hp] }
    | some l =>
      rw [addCheck_absent_ordered hc hl]
      have hkl : k ∉ l.map (·.2) := fun h => hk ((hi.items_keys l hl k).mp h)
      exact {
        keys_nodup := by
          have : (s.hash ++ [(k, some s.nextId)]).map (·.1) = (s.hash ++ [(k, (none : Option Nat))]).map (·.1) := by
            simp
          show ((s.hash ++ [(k, some s.nextId)]).map (·.1)).Nodup
          rw [this]; exact hkn
        items_nodup := by
          intro l' h; cases h
          rw [List.map_append, List.nodup_append]
          refine ⟨hi.items_nodup l hl, by simp, ?_⟩
          intro a ha b hb
          simp only [List.map_cons, List.map_nil, List.mem_singleton] at hb
          subst hb
          exact fun e => hkl (e ▸ ha)
        addrs_nodup := by
          intro l' h; cases h
          rw [List.map_append, List.nodup_append]
          refine ⟨hi.addrs_nodup l hl, by simp, ?_⟩
          intro a ha b hb
          simp only [List.map_cons, List.map_nil, List.mem_singleton] at hb
          subst hb
          obtain ⟨p, hp, rfl⟩ := List.mem_map.mp ha
          exact Nat.ne_of_lt (hi.addrs_lt l hl p hp)
        addrs_lt := by
          intro l' h p hp; cases h
          show p.1 < s.nextId + 1
          rcases List.mem_append.mp hp with hp | hp
          · exact Nat.lt_succ_of_lt (hi.addrs_lt l hl p hp)
          · simp only [List.mem_singleton] at hp; rw [hp]; exact Nat.lt_succ_self _
        items_keys := by
          intro l' h k'; cases h
          show k' ∈ (l ++ [(s.nextId, k)]).map (·.2) ↔ k' ∈ (s.hash ++ [(k, some s.nextId)]).map (·.1)
          rw [List.map_append, List.map_append, List.mem_append, List.mem_append, hi.items_keys l hl k']
          simp
        entry_ordered := by
          intro l' h k' e he; cases h
          rcases List.mem_append.mp he with he | he
          · obtain ⟨a, ha, hm⟩ := hi.entry_ordered l hl k' e he
            exact ⟨a, ha, List.mem_append_left _ hm⟩
          · simp only [List.mem_singleton, Prod.mk.injEq] at he
            obtain ⟨rfl, rfl⟩ := he
            exact ⟨s.nextId, rfl, List.mem_append_right _ (List.mem_singleton.mpr rfl)⟩
        entry_unordered := by intro h; cases h }

/-! ### `DeleteCheck` -/

theorem filter_addr_eq_filter_item {l : List (Nat × Int)} (hn2 : (l.map (·.2)).Nodup)
    (hn1 : (l.map (·.1)).Nodup) {a : Nat} {k : Int} (h : (a, k) ∈ l) :
    l.filter (fun p => p.1 != a) = l.filter (fun p => p.2 != k) := by
  apply List.filter_congr
  intro p hp
  by_cases e1 : p.1 = a
  · have : p = (a, k) := eq_of_map_eq_of_nodup (·.1) hn1 hp h e1
    simp [this]
  · have e2 : p.2 ≠ k := fun e2 => e1 (by
      have : p = (a, k) := eq_of_map_eq_of_nodup (·.2) hn2 hp h e2
      rw [this])
    rw [bne_iff_ne.mpr e1, bne_iff_ne.mpr e2]

theorem deleteCheck_absent {s : SetSt} {k : Int} (h : s.check k = false) :
    s.deleteCheck k = (s, false) := by
  have : s.lookup k = none := (lookup_eq_none_iff s k).mpr ((check_false_iff_keys s k).mp h)
  unfold deleteCheck; rw [this]

theorem deleteCheck_present_unordered {s : SetSt} (hi : Inv s) {k : Int} (h : s.check k = true)
    (hl : s.list = none) :
    s.deleteCheck k = ({ s with hash := s.hash.filter (fun p => p.1 != k) }, true) := by
  obtain ⟨e, he⟩ := mem_keys_iff.mp ((check_iff_keys s k).mp h)
  have hlk := (lookup_eq_some_iff hi.keys_nodup k e).mpr he
  unfold deleteCheck; rw [hlk, hl]
  cases e <;> rfl

theorem deleteCheck_present_ordered {s : SetSt} (hi : Inv s) {k : Int} (h : s.check k = true)
    {l : List (Nat × Int)} (hl : s.list = some l) :
    s.deleteCheck k = ({ s with hash := s.hash.filter (fun p => p.1 != k),
                                list := some (l.filter (fun p => p.2 != k)) }, true) := by
  obtain ⟨e, he⟩ := mem_keys_iff.mp ((check_iff_keys s k).mp h)
  have hlk := (lookup_eq_some_iff hi.keys_nodup k e).mpr he
  obtain ⟨a, rfl, ha⟩ := hi.entry_ordered l hl k e he
  unfold deleteCheck; rw [hlk, hl]
  show ({ s with hash := _, list := some (l.filter (fun p => p.1 != a)) }, true) = _
  rw [filter_addr_eq_filter_item (hi.items_nodup l hl) (hi.addrs_nodup l hl) ha]

theorem map_fst_filter_key (h : List (Int × Option Nat)) (k : Int) :
    (h.filter (fun p => p.1 != k)).map (·.1) = (h.map (·.1)).filter (· != k) := by
  rw [List.filter_map]; rfl

theorem map_snd_filter_item (l : List (Nat × Int)) (k : Int) :
    (l.filter (fun p => p.2 != k)).map (·.2) = (l.map (·.2)).filter (· != k) := by
  rw [List.filter_map]; rfl

theorem deleteCheck_present_members {s : SetSt} (hi : Inv s) {k : Int} (h : s.check k = true) :
    (s.deleteCheck k).2 = true ∧ members (s.deleteCheck k).1 = (members s).filter (· != k) := by
  cases hl : s.list with
  | none =>
    rw [deleteCheck_present_unordered hi h hl]
    simp only [members, hl, true_and]
    exact map_fst_filter_key _ _
  | some l =>
    rw [deleteCheck_present_ordered hi h hl]
    simp only [members, hl, true_and]
    exact map_snd_filter_item _ _

theorem deleteCheck_list_isSome {s : SetSt} (hi : Inv s) (k : Int) :
    (s.deleteCheck k).1.list.isSome = s.list.isSome := by
  cases hc : s.check k with
  | false => rw [deleteCheck_absent hc]
  | true =>
    cases hl : s.list with
    | none => rw [deleteCheck_present_unordered hi hc hl]; simp [hl]
    | some l => rw [deleteCheck_present_ordered hi hc hl]; simp

theorem deleteCheck_inv {s : SetSt} (hi : Inv s) (k : Int) : Inv (s.deleteCheck k).1 := by
  cases hc : s.check k with
  | false => rw [deleteCheck_absent hc]; exact hi
  | true =>
    have hkn : ((s.hash.filter (fun p => p.1 != k)).map (·.1)).Nodup :=
      List.Nodup.sublist (List.filter_sublist.map _) hi.keys_nodup
    cases hl : s.list with
    | none =>
      rw [deleteCheck_present_unordered hi hc hl]
      exact {
        keys_nodup := hkn
        items_nodup := by intro l h; rw [hl] at h; cases h
        addrs_nodup := by intro l h; rw [hl] at h; cases h
        addrs_lt := by intro l h; rw [hl] at h; cases h
        items_keys := by intro l h; rw [hl] at h; cases h
        entry_ordered := by intro l h; rw [hl] at h; cases h
        entry_unordered := by
          intro _ p hp
          exact hi.entry_unordered hl p (List.mem_filter.mp hp).1 }
    | some l =>
      rw [deleteCheck_present_ordered hi hc hl]
      exact {
        keys_nodup := hkn
        items_nodup := by
          intro l' h; cases h
          exact List.Nodup.sublist (List.filter_sublist.map _) (hi.items_nodup l hl)
        addrs_nodup := by
          intro l' h; cases h
          exact List.Nodup.sublist (List.filter_sublist.map _) (hi.addrs_nodup l hl)
        addrs_lt := by
          intro l' h p hp; cases h
          exact hi.addrs_lt l hl p (List.mem_filter.mp hp).1
        items_keys := by
          intro l' h k'; cases h
          show k' ∈ (l.filter (fun p => p.2 != k)).map (·.2) ↔
            k' ∈ (s.hash.filter (fun p => p.1 != k)).map (·.1)
          rw [map_snd_filter_item, map_fst_filter_key, List.mem_filter, List.mem_filter,
            hi.items_keys l hl k']
        entry_ordered := by
          intro l' h k' e he; cases h
          have he' := List.mem_filter.mp he
          obtain ⟨a, ha, hm⟩ := hi.entry_ordered l hl k' e he'.1
          exact ⟨a, ha, List.mem_filter.mpr ⟨hm, he'.2⟩⟩
        entry_unordered := by intro h; cases h }

/-! ### `Populate` / `Extend` / `UnmarshalJSON` -/

/-- reference `Add`: append unless present -/
def refAdd (m : List Int) (k : Int) : List Int := if k ∈ m then m else m ++ [k]

theorem addCheck_members {s : SetSt} (hi : Inv s) (k : Int) :
    members (s.addCheck k).1 = refAdd (members s) k := by
  unfold refAdd
  cases hc : s.check k with
  | true => rw [addCheck_present hc, if_pos ((check_iff_members hi k).mp hc)]
  | false =>
    have : k ∉ members s := fun h => by
      have := (check_iff_members hi k).mpr h
      rw [hc] at this; cases this
    rw [if_neg this]; exact (addCheck_absent_members hc).2

theorem addAll_nil (s : SetSt) : s.addAll [] = s := rfl
theorem addAll_cons (s : SetSt) (k : Int) (ks : List Int) :
    s.addAll (k :: ks) = (s.addCheck k).1.addAll ks := rfl

theorem addAll_inv {s : SetSt} (hi : Inv s) (ks : List Int) : Inv (s.addAll ks) := by
  induction ks generalizing s with
  | nil => exact hi
  | cons k ks ih => rw [addAll_cons]; exact ih (addCheck_inv hi k)

theorem addAll_members {s : SetSt} (hi : Inv s) (ks : List Int) :
    members (s.addAll ks) = ks.foldl refAdd (members s) := by
  induction ks generalizing s with
  | nil => rfl
  | cons k ks ih => rw [addAll_cons, ih (addCheck_inv hi k), addCheck_members hi k]; rfl

theorem addAll_list_isSome (s : SetSt) (ks : List Int) : (s.addAll ks).list.isSome = s.list.isSome := by
  induction ks generalizing s with
  | nil => rfl
  | cons k ks ih => rw [addAll_cons, ih, addCheck_list_isSome]

theorem refAdd_nodup {m : List Int} (h : m.Nodup) (k : Int) : (refAdd m k).Nodup := by
  unfold refAdd
  by_cases hk : k ∈ m
  · rw [if_pos hk]; exact h
  · rw [if_neg hk, List.nodup_append]
    refine ⟨h, by simp, ?_⟩
    intro a ha b hb
    simp only [List.mem_singleton] at hb
    subst hb
    exact fun e => hk (e ▸ ha)

theorem mem_refAdd {m : List Int} {k x : Int} : x ∈ refAdd m k ↔ x ∈ m ∨ x = k := by
  unfold refAdd
  by_cases hk : k ∈ m
  · rw [if_pos hk]
    exact ⟨Or.inl, fun h => h.elim id (fun e => e ▸ hk)⟩
  · rw [if_neg hk]; simp

theorem foldl_refAdd_nodup {m : List Int} (h : m.Nodup) (ks : List Int) :
    (ks.foldl refAdd m).Nodup := by
  induction ks generalizing m with
  | nil => exact h
  | cons k ks ih => exact ih (refAdd_nodup h k)

theorem mem_foldl_refAdd {m : List Int} {ks : List Int} {x : Int} :
    x ∈ ks.foldl refAdd m ↔ x ∈ m ∨ x ∈ ks := by
  induction ks generalizing m with
  | nil => simp
  | cons k ks ih =>
    rw [List.foldl_cons, ih, mem_refAdd, List.mem_cons, or_assoc]

theorem foldl_refAdd_prefix (m ks : List Int) : m <+: ks.foldl refAdd m := by
  induction ks generalizing m with
  | nil => exact List.prefix_refl _
  | cons k ks ih =>
    refine List.IsPrefix.trans ?_ (ih (refAdd m k))
    unfold refAdd
    by_cases hk : k ∈ m
    · rw [if_pos hk]; exact List.prefix_refl _
    · rw [if_neg hk]; exact List.prefix_append _ _

theorem foldl_refAdd_of_nodup {m ks : List Int} (h : (m ++ ks).Nodup) :
    ks.foldl refAdd m = m ++ ks := by
  induction ks generalizing m with
  | nil => simp
  | cons k ks ih =>
    have hk : k ∉ m := by
      intro hk
      have := (List.nodup_append.mp h).2.2 k hk k List.mem_cons_self
      exact this rfl
    have e : m ++ k :: ks = (m ++ [k]) ++ ks := by simp
    rw [List.foldl_cons, refAdd, if_neg hk, ih (e ▸ h), e]

theorem eraseDups_filter (p : Int → Bool) (l : List Int) :
    (l.filter p).eraseDups = l.eraseDups.filter p := by
  induction hn : l.length using Nat.strongRecOn generalizing l with
  | ind n ih =>
    cases l with
    | nil => rfl
    | cons a as =>
      have hlen : (as.filter (fun b => !b == a)).length < n := by
        rw [← hn]; exact Nat.lt_succ_of_le (List.length_filter_le _ _)
      rw [List.eraseDups_cons]
      by_cases hp : p a = true
      · rw [List.filter_cons_of_pos hp, List.filter_cons_of_pos hp, List.eraseDups_cons,
          ← ih _ hlen _ rfl, List.filter_filter, List.filter_filter]
        congr 2
        apply List.filter_congr
        intro x _
        exact Bool.and_comm _ _
      · rw [List.filter_cons_of_neg hp, List.filter_cons_of_neg hp, ← ih _ hlen _ rfl,
          List.filter_filter]
        congr 1
        apply List.filter_congr
        intro x _
        by_cases hx : x = a
        · subst hx; simp [hp]
        · simp [hx]

/-- the members added by a bulk add are the first occurrences of the values that were absent -/
theorem foldl_refAdd_eq (m ks : List Int) :
    ks.foldl refAdd m = m ++ ks.eraseDups.filter (fun x => decide (x ∉ m)) := by
  induction ks generalizing m with
  | nil => simp
  | cons k ks ih =>
    rw [List.foldl_cons, ih, List.eraseDups_cons, eraseDups_filter, refAdd]
    by_cases hk : k ∈ m
    · rw [if_pos hk, List.filter_cons_of_neg (by simpa using hk), List.filter_filter]
      congr 1
      apply List.filter_congr
      intro x _
      by_cases hx : x ∈ m
      · simp [hx]
      · have : x ≠ k := fun e => hx (e ▸ hk)
        simp [hx, this]
    · rw [if_neg hk, List.filter_cons_of_pos (by simpa using hk), List.filter_filter,
        List.append_assoc, List.singleton_append]
      congr 2
      apply List.filter_congr
      intro x _
      by_cases hx : x = k
      · subst hx; simp
      · simp [hx]

/-! ### map orders, `ascKeys`, iteration -/

theorem insertAsc_perm (k : Int) (l : List Int) : (insertAsc k l).Perm (k :: l) := by
  induction l with
  | nil => exact List.Perm.refl _
  | cons x xs ih =>
    unfold insertAsc
    by_cases h : k ≤ x
    · rw [if_pos h]
    · rw [if_neg h]; exact (ih.cons x).trans (List.Perm.swap k x xs)

theorem ascKeys_perm (s : SetSt) : s.ascKeys.Perm (s.hash.map (·.1)) := by
  unfold ascKeys
  induction s.hash.map (·.1) with
  | nil => exact List.Perm.refl _
  | cons x xs ih => exact (insertAsc_perm x _).trans (ih.cons x)

theorem ascKeys_good {s : SetSt} (hn : (s.hash.map (·.1)).Nodup) : GoodOrder s s.ascKeys :=
  ⟨(ascKeys_perm s).nodup_iff.mpr hn, fun _ hk => (ascKeys_perm s).mem_iff.mpr hk⟩

theorem keys_good {s : SetSt} (hn : (s.hash.map (·.1)).Nodup) : GoodOrder s (s.hash.map (·.1)) :=
  ⟨hn, fun _ hk => hk⟩

theorem iter_ordered {s : SetSt} {l : List (Nat × Int)} (hl : s.list = some l) (mo : List Int) :
    s.iter mo = members s := by
  unfold iter members; rw [hl]

theorem iter_unordered_eq {s : SetSt} (hl : s.list = none) (mo : List Int) :
    s.iter mo = mo.filter (fun k => s.check k) := by
  unfold iter; rw [hl]

theorem filter_check_nodup {s : SetSt} {mo : List Int} (hg : GoodOrder s mo) :
    (mo.filter (fun k => s.check k)).Nodup := nodup_filter _ hg.1

theorem mem_filter_check {s : SetSt} {mo : List Int} (hg : GoodOrder s mo) (k : Int) :
    k ∈ mo.filter (fun k => s.check k) ↔ k ∈ s.hash.map (·.1) := by
  rw [List.mem_filter, check_iff_keys]
  exact ⟨fun h => h.2, fun h => ⟨hg.2 k h, h⟩⟩

theorem filter_check_perm_keys {s : SetSt} (hn : (s.hash.map (·.1)).Nodup) {mo : List Int}
    (hg : GoodOrder s mo) : (mo.filter (fun k => s.check k)).Perm (s.hash.map (·.1)) :=
  (List.perm_ext_iff_of_nodup (filter_check_nodup hg) hn).mpr (mem_filter_check hg)

theorem iter_perm_members {s : SetSt} (hi : Inv s) {mo : List Int} (hg : GoodOrder s mo) :
    (s.iter mo).Perm (members s) := by
  cases hl : s.list with
  | some l => rw [iter_ordered hl]
  | none =>
    rw [iter_unordered_eq hl]
    exact (filter_check_perm_keys hi.keys_nodup hg).trans (members_perm_keys hi).symm

/-! ### `forceSetupOrdered` -/

/-- the elements `forceSetupOrdered` allocates -/
def mkElems (n : Nat) (ks : List Int) (i : Nat) : List (Nat × Int) :=
  (ks.zipIdx i).map (fun (k, j) => (n + j, k))

theorem mkElems_nil (n i : Nat) : mkElems n [] i = [] := rfl
theorem mkElems_cons (n : Nat) (k : Int) (ks : List Int) (i : Nat) :
    mkElems n (k :: ks) i = (n + i, k) :: mkElems n ks (i + 1) := rfl

theorem mkElems_map_snd (n : Nat) (ks : List Int) (i : Nat) : (mkElems n ks i).map (·.2) = ks := by
  induction ks generalizing i with
  | nil => rfl
  | cons k ks ih => rw [mkElems_cons, List.map_cons, ih]

theorem mkElems_bounds {n : Nat} {ks : List Int} {i : Nat} {p : Nat × Int} (hp : p ∈ mkElems n ks i) :
    n + i ≤ p.1 ∧ p.1 < n + i + ks.length := by
  induction ks generalizing i with
  | nil => cases hp
  | cons k ks ih =>
    rw [mkElems_cons] at hp
    rcases List.mem_cons.mp hp with rfl | hp
    · simp only [List.length_cons]; omega
    · have := ih hp
      simp only [List.length_cons]; omega

theorem mkElems_addrs_nodup (n : Nat) (ks : List Int) (i : Nat) :
    ((mkElems n ks i).map (·.1)).Nodup := by
  induction ks generalizing i with
  | nil => exact List.nodup_nil
  | cons k ks ih =>
    rw [mkElems_cons, List.map_cons, List.nodup_cons]
    refine ⟨?_, ih (i + 1)⟩
    intro h
    obtain ⟨p, hp, hpe⟩ := List.mem_map.mp h
    have := (mkElems_bounds hp).1
    simp only at hpe
    omega

/-- how `forceSetupOrdered` re-points a map entry -/
def repoint (elems : List (Nat × Int)) (p : Int × Option Nat) : Int × Option Nat :=
  match elems.find? (fun e => e.2 == p.1) with
  | some e => (p.1, some e.1)
  | none => p

theorem forceSetupOrdered_eq (s : SetSt) (mo : List Int) :
    s.forceSetupOrdered mo =
      { hash := s.hash.map (repoint (mkElems s.nextId (mo.filter (fun k => s.check k)) 0)),
        list := some (mkElems s.nextId (mo.filter (fun k => s.check k)) 0),
        nextId := s.nextId + (mo.filter (fun k => s.check k)).length } := rfl

theorem repoint_fst (elems : List (Nat × Int)) (p : Int × Option Nat) : (repoint elems p).1 = p.1 := by
  unfold repoint
  cases elems.find? (fun e => e.2 == p.1) <;> rfl

theorem repoint_of_mem {elems : List (Nat × Int)} {p : Int × Option Nat}
    (h : p.1 ∈ elems.map (·.2)) : ∃ a, repoint elems p = (p.1, some a) ∧ (a, p.1) ∈ elems := by
  unfold repoint
  cases hf : elems.find? (fun e => e.2 == p.1) with
  | none =>
    obtain ⟨e, he, hek⟩ := List.mem_map.mp h
    have := List.find?_eq_none.mp hf e he
    simp at this
    exact absurd hek this
  | some e =>
    have hm := List.mem_of_find?_eq_some hf
    have hk : e.2 = p.1 := by simpa using List.find?_some hf
    exact ⟨e.1, rfl, by rw [← hk]; exact hm⟩

theorem forceSetupOrdered_keys (s : SetSt) (mo : List Int) :
    (s.forceSetupOrdered mo).hash.map (·.1) = s.hash.map (·.1) := by
  rw [forceSetupOrdered_eq, List.map_map]
  apply List.map_congr_left
  intro p _
  exact repoint_fst _ _

theorem forceSetupOrdered_members (s : SetSt) (mo : List Int) :
    members (s.forceSetupOrdered mo) = mo.filter (fun k => s.check k) := by
  rw [forceSetupOrdered_eq]
  exact mkElems_map_snd _ _ _

theorem forceSetupOrdered_check (s : SetSt) (mo : List Int) (k : Int) :
    (s.forceSetupOrdered mo).check k = s.check k := by
  rw [Bool.eq_iff_iff, check_iff_keys, check_iff_keys, forceSetupOrdered_keys]

theorem forceSetupOrdered_len (s : SetSt) (mo : List Int) : (s.forceSetupOrdered mo).len = s.len := by
  rw [forceSetupOrdered_eq]; unfold len; exact List.length_map _

/-- `forceSetupOrdered` establishes the invariant of an ordered set from no more than the keys
    being distinct -/
theorem forceSetupOrdered_inv {s : SetSt} (hn : (s.hash.map (·.1)).Nodup) {mo : List Int}
    (hg : GoodOrder s mo) : Inv (s.forceSetupOrdered mo) := by
  have hkeys := forceSetupOrdered_keys s mo
  rw [forceSetupOrdered_eq] at hkeys ⊢
  exact {
    keys_nodup := by rw [hkeys]; exact hn
    items_nodup := by
      intro l h; cases h
      rw [mkElems_map_snd]; exact filter_check_nodup hg
    addrs_nodup := by
      intro l h; cases h
      exact mkElems_addrs_nodup _ _ _
    addrs_lt := by
      intro l h p hp; cases h
      have := (mkElems_bounds hp).2
      show p.1 < s.nextId + _
      omega
    items_keys := by
      intro l h k; cases h
      rw [hkeys, mkElems_map_snd]; exact mem_filter_check hg k
    entry_ordered := by
      intro l h k e he; cases h
      obtain ⟨p, hp, hpe⟩ := List.mem_map.mp he
      have hpk : p.1 ∈ (mkElems s.nextId (mo.filter (fun k => s.check k)) 0).map (·.2) := by
        rw [mkElems_map_snd]
        exact (mem_filter_check hg p.1).mpr (List.mem_map.mpr ⟨p, hp, rfl⟩)
      obtain ⟨a, ha, hm⟩ := repoint_of_mem hpk
      rw [ha] at hpe
      cases hpe
      exact ⟨a, rfl, hm⟩
    entry_unordered := by intro h; cases h }

/-! ### `SortQuick` / `SortMerge` -/

theorem find_item_self {l : List (Nat × Int)} (hn : (l.map (·.2)).Nodup) {p : Nat × Int}
    (hp : p ∈ l) : l.find? (fun q => q.2 == p.2) = some p := by
  cases hf : l.find? (fun q => q.2 == p.2) with
  | none =>
    have := List.find?_eq_none.mp hf p hp
    simp at this
  | some q =>
    have hm := List.mem_of_find?_eq_some hf
    have hk : q.2 = p.2 := by simpa using List.find?_some hf
    rw [eq_of_map_eq_of_nodup (·.2) hn hm hp hk]

theorem filterMap_find_self {l : List (Nat × Int)} (hn : (l.map (·.2)).Nodup) :
    (l.map (·.2)).filterMap (fun it => l.find? (fun p => p.2 == it)) = l := by
  rw [List.filterMap_map]
  have : l.filterMap ((fun it => l.find? (fun p => p.2 == it)) ∘ (·.2)) = l.filterMap some := by
    apply filterMap_congr'
    intro p hp
    exact find_item_self hn hp
  rw [this, List.filterMap_some]

theorem reorder_perm {l : List (Nat × Int)} (hn : (l.map (·.2)).Nodup) {its : List Int}
    (hp : its.Perm (l.map (·.2))) :
    (its.filterMap (fun it => l.find? (fun p => p.2 == it))).Perm l := by
  have := hp.filterMap (fun it => l.find? (fun p => p.2 == it))
  rwa [filterMap_find_self hn] at this

theorem reorder_map_snd {l : List (Nat × Int)} {its : List Int} (h : ∀ it, it ∈ its → it ∈ l.map (·.2)) :
    (its.filterMap (fun it => l.find? (fun p => p.2 == it))).map (·.2) = its := by
  induction its with
  | nil => rfl
  | cons it its ih =>
    cases hf : l.find? (fun p => p.2 == it) with
    | none =>
      obtain ⟨e, he, hek⟩ := List.mem_map.mp (h it List.mem_cons_self)
      have := List.find?_eq_none.mp hf e he
      simp at this
      exact absurd hek this
    | some q =>
      have hk : q.2 = it := by simpa using List.find?_some hf
      rw [List.filterMap_cons_some (f := fun it => l.find? (fun p => p.2 == it)) hf, List.map_cons, ih (fun x hx => h x (List.mem_cons_of_mem _ hx)), hk]

theorem sortWith_ordered (sorter : (Int → Int → Bool) → List Int → List Int) (lt : Int → Int → Bool)
    {s : SetSt} {l : List (Nat × Int)} (hl : s.list = some l) (mo : List Int) :
    sortWith sorter lt s mo =
      { s with list := some ((sorter lt (l.map (·.2))).filterMap (fun it => l.find? (fun p => p.2 == it))) } := by
  unfold sortWith
  simp only [hl, Option.isNone_some, Bool.false_eq_true, if_false]

theorem sortWith_unordered (sorter : (Int → Int → Bool) → List Int → List Int) (lt : Int → Int → Bool)
    {s : SetSt} (hl : s.list = none) (mo mo' : List Int) :
    sortWith sorter lt s mo = sortWith sorter lt (s.forceSetupOrdered mo) mo' := by
  rw [sortWith_ordered sorter lt (s := s.forceSetupOrdered mo) rfl mo']
  unfold sortWith
  simp only [hl, Option.isNone_none, if_true]
  rfl

/-- sorting an ordered set: the map is untouched, the list is a rearrangement -/
theorem sortWith_ordered_spec {sorter : (Int → Int → Bool) → List Int → List Int}
    (hperm : ∀ lt xs, (sorter lt xs).Perm xs) (lt : Int → Int → Bool)
    {s : SetSt} (hi : Inv s) {l : List (Nat × Int)} (hl : s.list = some l) (mo : List Int) :
    Inv (sortWith sorter lt s mo) ∧ (sortWith sorter lt s mo).hash = s.hash ∧
      (sortWith sorter lt s mo).list.isSome = true ∧
      members (sortWith sorter lt s mo) = sorter lt (members s) := by
  rw [sortWith_ordered sorter lt hl mo]
  have hpr := reorder_perm (hi.items_nodup l hl) (hperm lt (l.map (·.2)))
  have hms := reorder_map_snd (l := l) (its := sorter lt (l.map (·.2)))
    (fun it h => (hperm lt _).mem_iff.mp h)
  refine ⟨?_, rfl, rfl, ?_⟩
  · exact {
      keys_nodup := hi.keys_nodup
      items_nodup := by
        intro l' h; cases h
        exact ((hpr.map (·.2)).nodup_iff).mpr (hi.items_nodup l hl)
      addrs_nodup := by
        intro l' h; cases h
        exact ((hpr.map (·.1)).nodup_iff).mpr (hi.addrs_nodup l hl)
      addrs_lt := by
        intro l' h p hp; cases h
        exact hi.addrs_lt l hl p (hpr.mem_iff.mp hp)
      items_keys := by
        intro l' h k; cases h
        exact ((hpr.map (·.2)).mem_iff).trans (hi.items_keys l hl k)
      entry_ordered := by
        intro l' h k e he; cases h
        obtain ⟨a, ha, hm⟩ := hi.entry_ordered l hl k e he
        exact ⟨a, ha, hpr.mem_iff.mpr hm⟩
      entry_unordered := by intro h; cases h }
  · show List.map _ _ = _
    rw [hms]; unfold members; rw [hl]

/-- sorting any set -/
theorem sortWith_spec {sorter : (Int → Int → Bool) → List Int → List Int}
    (hperm : ∀ lt xs, (sorter lt xs).Perm xs) (lt : Int → Int → Bool)
    {s : SetSt} (hi : Inv s) {mo : List Int} (hg : GoodOrder s mo) :
    Inv (sortWith sorter lt s mo) ∧ (sortWith sorter lt s mo).hash.map (·.1) = s.hash.map (·.1) ∧
      (sortWith sorter lt s mo).list.isSome = true ∧
      members (sortWith sorter lt s mo) = sorter lt (s.iter mo) := by
  cases hl : s.list with
  | some l =>
    obtain ⟨h1, h2, h3, h4⟩ := sortWith_ordered_spec hperm lt hi hl mo
    exact ⟨h1, by rw [h2], h3, by rw [h4, iter_ordered hl]⟩
  | none =>
    rw [sortWith_unordered sorter lt hl mo mo]
    obtain ⟨h1, h2, h3, h4⟩ := sortWith_ordered_spec hperm lt
      (forceSetupOrdered_inv hi.keys_nodup hg) (s := s.forceSetupOrdered mo) rfl mo
    exact ⟨h1, by rw [h2, forceSetupOrdered_keys], h3,
      by rw [h4, forceSetupOrdered_members, iter_unordered_eq hl]⟩

theorem check_congr_keys {s t : SetSt} (h : t.hash.map (·.1) = s.hash.map (·.1)) (k : Int) :
    t.check k = s.check k := by
  rw [Bool.eq_iff_iff, check_iff_keys, check_iff_keys, h]

theorem len_congr_keys {s t : SetSt} (h : t.hash.map (·.1) = s.hash.map (·.1)) : t.len = s.len := by
  have := congrArg List.length h
  simpa [len] using this

theorem sortQuick_perm' (lt : Int → Int → Bool) (xs : List Int) : (SortSeq.sortQuick lt xs).Perm xs := by
  induction xs with
  | nil => exact List.Perm.refl _
  | cons x xs ih => exact (insertStable_perm lt x _).trans (ih.cons x)

theorem sortQuick_sorted' {lt : Int → Int → Bool} (h : StrictWeak lt) (xs : List Int) :
    Sorted lt (SortSeq.sortQuick lt xs) := by
  induction xs with
  | nil => exact sorted_nil lt
  | cons x xs ih => exact insertStable_sorted h x _ ih

theorem sortMerge_perm' (lt : Int → Int → Bool) (xs : List Int) : (SortSeq.sortMerge lt xs).Perm xs :=
  mergeSort_perm lt _ xs

theorem sortMerge_sorted' {lt : Int → Int → Bool} (h : StrictWeak lt) (xs : List Int) :
    Sorted lt (SortSeq.sortMerge lt xs) :=
  mergeSort_sorted h _ xs (Nat.le_succ _)

/-- for a total order on distinct values a sorted duplicate-free list is strictly ascending -/
theorem sorted_strict {lt : Int → Int → Bool} (ht : Total lt) {xs : List Int} (hs : Sorted lt xs)
    (hn : xs.Nodup) : xs.Pairwise (fun a b => lt a b = true) := by
  unfold Sorted at hs
  have := hs.and hn
  refine this.imp ?_
  intro a b ⟨h1, h2⟩
  rcases ht a b h2 with h | h
  · exact h
  · rw [h1] at h; cases h

/-- … and is determined by its elements -/
theorem sorted_unique_of_perm {lt : Int → Int → Bool} (hsw : StrictWeak lt) (ht : Total lt)
    {xs ys : List Int} (hx : Sorted lt xs) (hy : Sorted lt ys) (hn : xs.Nodup) (hp : xs.Perm ys) :
    xs = ys := by
  induction xs generalizing ys with
  | nil => exact (List.nil_perm.mp hp).symm ▸ rfl
  | cons x xs ih =>
    cases ys with
    | nil => exact absurd hp.symm (by simp)
    | cons y ys =>
      have hny : (y :: ys).Nodup := hp.nodup_iff.mp hn
      have hxy : x = y := by
        apply Classical.byContradiction
        intro hne
        have hx' := sorted_strict ht hx hn
        have hy' := sorted_strict ht hy hny
        have hxin : x ∈ ys := by
          have : x ∈ y :: ys := hp.mem_iff.mp List.mem_cons_self
          rcases List.mem_cons.mp this with e | h
          · exact absurd e hne
          · exact h
        have hyin : y ∈ xs := by
          have : y ∈ x :: xs := hp.mem_iff.mpr List.mem_cons_self
          rcases List.mem_cons.mp this with e | h
          · exact absurd e.symm hne
          · exact h
        have h1 := (List.pairwise_cons.mp hx').1 y hyin
        have h2 := (List.pairwise_cons.mp hy').1 x hxin
        have := hsw.asymm h1
        rw [h2] at this; cases this
      subst hxy
      rw [ih (List.pairwise_cons.mp hx).2 (List.pairwise_cons.mp hy).2 (List.nodup_cons.mp hn).2
        (List.Perm.cons_inv hp)]

/-! ### sorting, packaged -/

theorem sortWith_full {sorter : (Int → Int → Bool) → List Int → List Int}
    (hperm : ∀ lt xs, (sorter lt xs).Perm xs) {lt : Int → Int → Bool}
    (hsorted : ∀ xs, Sorted lt (sorter lt xs))
    {s : SetSt} (hi : Inv s) {mo : List Int} (hg : GoodOrder s mo) :
    Inv (sortWith sorter lt s mo) ∧ (sortWith sorter lt s mo).list.isSome = true ∧
      (members (sortWith sorter lt s mo)).Perm (members s) ∧
      Sorted lt (members (sortWith sorter lt s mo)) ∧
      (∀ k, (sortWith sorter lt s mo).check k = s.check k) ∧
      (sortWith sorter lt s mo).len = s.len := by
  obtain ⟨h1, h2, h3, h4⟩ := sortWith_spec hperm lt hi hg
  refine ⟨h1, h3, ?_, ?_, check_congr_keys h2, len_congr_keys h2⟩
  · rw [h4]; exact (hperm lt _).trans (iter_perm_members hi hg)
  · rw [h4]; exact hsorted _

/-- sort, then iterate, then delete: iteration yields the sorted order and the deletion removes
    exactly the deleted value from it -/
theorem sortWith_then_delete {sorter : (Int → Int → Bool) → List Int → List Int}
    (hperm : ∀ lt xs, (sorter lt xs).Perm xs) {lt : Int → Int → Bool}
    (hsorted : ∀ xs, Sorted lt (sorter lt xs))
    {s : SetSt} (hi : Inv s) {mo : List Int} (hg : GoodOrder s mo) (mo' : List Int) (k : Int) :
    (sortWith sorter lt s mo).iter mo' = members (sortWith sorter lt s mo) ∧
      Sorted lt ((sortWith sorter lt s mo).iter mo') ∧
      ((sortWith sorter lt s mo).deleteCheck k).2 = s.check k ∧
      ((sortWith sorter lt s mo).deleteCheck k).1.iter mo' = ((sortWith sorter lt s mo).iter mo').erase k ∧
      Sorted lt (((sortWith sorter lt s mo).deleteCheck k).1.iter mo') ∧
      (((sortWith sorter lt s mo).deleteCheck k).1.iter mo').Perm ((members s).erase k) := by
  obtain ⟨h1, h2, h3, h4, h5, _⟩ := sortWith_full hperm hsorted hi hg
  generalize sortWith sorter lt s mo = t at h1 h2 h3 h4 h5
  obtain ⟨l, hl⟩ := Option.isSome_iff_exists.mp h2
  have hit : t.iter mo' = members t := iter_ordered hl mo'
  have hdl : (t.deleteCheck k).1.list.isSome = true := by rw [deleteCheck_list_isSome h1, h2]
  obtain ⟨l', hl'⟩ := Option.isSome_iff_exists.mp hdl
  have hit' : (t.deleteCheck k).1.iter mo' = members (t.deleteCheck k).1 := iter_ordered hl' mo'
  have hmem : members (t.deleteCheck k).1 = (members t).erase k := by
    cases hc : t.check k with
    | true =>
      rw [(deleteCheck_present_members h1 hc).2, (members_nodup h1).erase_eq_filter]
    | false =>
      rw [deleteCheck_absent hc]
      have : k ∉ members t := fun h => by
        have := (check_iff_members h1 k).mpr h
        rw [hc] at this; cases this
      rw [List.erase_of_not_mem this]
  have hres : (t.deleteCheck k).2 = s.check k := by
    rw [← h5 k]
    cases hc : t.check k with
    | true => exact (deleteCheck_present_members h1 hc).1
    | false => rw [deleteCheck_absent hc]
  refine ⟨hit, hit ▸ h4, hres, ?_, ?_, ?_⟩
  · rw [hit', hit, hmem]
  · rw [hit', hmem]; exact List.Pairwise.sublist List.erase_sublist h4
  · rw [hit', hmem]; exact h3.erase k

/-- with a comparison that is total on distinct values the sorted order is strict and does not
    depend on the sorter or on the order in which the map was ranged over -/
theorem sortWith_unique {sorter1 sorter2 : (Int → Int → Bool) → List Int → List Int}
    (hperm1 : ∀ lt xs, (sorter1 lt xs).Perm xs) (hperm2 : ∀ lt xs, (sorter2 lt xs).Perm xs)
    {lt : Int → Int → Bool} (hsw : StrictWeak lt) (ht : Total lt)
    (hsorted1 : ∀ xs, Sorted lt (sorter1 lt xs)) (hsorted2 : ∀ xs, Sorted lt (sorter2 lt xs))
    {s : SetSt} (hi : Inv s) {mo1 mo2 : List Int} (hg1 : GoodOrder s mo1) (hg2 : GoodOrder s mo2) :
    members (sortWith sorter1 lt s mo1) = members (sortWith sorter2 lt s mo2) := by
  obtain ⟨a1, _, a3, a4, _, _⟩ := sortWith_full hperm1 hsorted1 hi hg1
  obtain ⟨_, _, b3, b4, _, _⟩ := sortWith_full hperm2 hsorted2 hi hg2
  exact sorted_unique_of_perm hsw ht a4 b4 (members_nodup a1) (a3.trans b3.symm)

/-! ### `Equal` -/

theorem equal_of_isOrdered_ne {s o : SetSt} (h : s.list.isSome ≠ o.list.isSome) : s.equal o = false := by
  unfold equal isOrdered
  have : (s.list.isSome != o.list.isSome) = true := bne_iff_ne.mpr h
  rw [this, Bool.or_true, if_pos rfl]

theorem equal_ordered {s o : SetSt} (hs : Inv s) (ho : Inv o) {a b : List (Nat × Int)}
    (hsl : s.list = some a) (hol : o.list = some b) :
    s.equal o = true ↔ members s = members o := by
  have hms : members s = a.map (·.2) := by unfold members; rw [hsl]
  have hmo : members o = b.map (·.2) := by unfold members; rw [hol]
  have hord : (s.isOrdered != o.isOrdered) = false := by simp [isOrdered, hsl, hol]
  unfold equal
  rw [hord, Bool.or_false, hms, hmo]
  constructor
  · intro h
    by_cases hc : (s.len != o.len) = true
    · rw [if_pos hc] at h; cases h
    · rw [if_neg hc, hsl, hol] at h
      exact eq_of_beq h
  · intro h
    have hlen : s.len = o.len := by
      rw [len_eq_members hs, len_eq_members ho, hms, hmo, h]
    have hc : ¬ (s.len != o.len) = true := by simp [hlen]
    rw [if_neg hc, hsl, hol]
    exact beq_iff_eq.mpr h

theorem equal_unordered {s o : SetSt} (hs : Inv s) (ho : Inv o)
    (hsl : s.list = none) (hol : o.list = none) :
    s.equal o = true ↔ ∀ k, k ∈ members s ↔ k ∈ members o := by
  have hms : members s = s.hash.map (·.1) := by unfold members; rw [hsl]
  have hmo : members o = o.hash.map (·.1) := by unfold members; rw [hol]
  have hord : (s.isOrdered != o.isOrdered) = false := by simp [isOrdered, hsl, hol]
  have hall : s.hash.all (fun p => o.check p.1) = true ↔ ∀ k, k ∈ s.hash.map (·.1) → k ∈ o.hash.map (·.1) := by
    rw [List.all_eq_true]
    constructor
    · intro h k hk
      obtain ⟨p, hp, rfl⟩ := List.mem_map.mp hk
      exact (check_iff_keys o p.1).mp (h p hp)
    · intro h p hp
      exact (check_iff_keys o p.1).mpr (h p.1 (List.mem_map.mpr ⟨p, hp, rfl⟩))
  unfold equal
  rw [hord, Bool.or_false, hms, hmo]
  constructor
  · intro h
    by_cases hc : (s.len != o.len) = true
    · rw [if_pos hc] at h; cases h
    · rw [if_neg hc, hsl, hol] at h
      have hsub := hall.mp h
      have hlen : s.len = o.len := by simpa using hc
      have hlen' : (o.hash.map (·.1)).length ≤ (s.hash.map (·.1)).length := by
        simp only [len] at hlen
        simp [hlen]
      intro k
      exact ⟨hsub k, subset_of_nodup_of_length_le hs.keys_nodup hsub hlen' k⟩
  · intro h
    have hperm := (List.perm_ext_iff_of_nodup hs.keys_nodup ho.keys_nodup).mpr h
    have hlen : s.len = o.len := by
      have := hperm.length_eq
      simpa [len] using this
    have hc : ¬ (s.len != o.len) = true := by simp [hlen]
    rw [if_neg hc, hsl, hol]
    exact hall.mpr (fun k hk => (h k).mp hk)

/-! ### reachable states -/

/-- the states a client can produce: any sequence of operations from an empty set; the comparison
    passed to the sorts is arbitrary and the map may be ranged over in any possible order -/
inductive Reachable : SetSt → Prop
  | empty : Reachable {}
  | order {s : SetSt} : Reachable s → s.hash = [] → Reachable s.order
  | add {s : SetSt} (k : Int) : Reachable s → Reachable (s.addCheck k).1
  | delete {s : SetSt} (k : Int) : Reachable s → Reachable (s.deleteCheck k).1
  | addAll {s : SetSt} (ks : List Int) : Reachable s → Reachable (s.addAll ks)
  | sortQuick {s : SetSt} (lt : Int → Int → Bool) (mo : List Int) :
      GoodOrder s mo → Reachable s → Reachable (SetSt.sortQuick lt s mo)
  | sortMerge {s : SetSt} (lt : Int → Int → Bool) (mo : List Int) :
      GoodOrder s mo → Reachable s → Reachable (SetSt.sortMerge lt s mo)

theorem Reachable.inv {s : SetSt} (h : Reachable s) : Inv s := by
  induction h with
  | empty => exact inv_empty
  | order _ he ih => exact inv_order ih he
  | add k _ ih => exact addCheck_inv ih k
  | delete k _ ih => exact deleteCheck_inv ih k
  | addAll ks _ ih => exact addAll_inv ih ks
  | sortQuick lt mo hg _ ih => exact (sortWith_spec sortQuick_perm' lt ih hg).1
  | sortMerge lt mo hg _ ih => exact (sortWith_spec sortMerge_perm' lt ih hg).1

/-- a concrete reachable state: add 3, add 1, add 3 again, sort ascending, delete 1 -/
def demo : SetSt :=
  let s := ((({} : SetSt).addCheck 3).1.addCheck 1).1
  let s := (s.addCheck 3).1
  let s := SetSt.sortQuick (fun a b => a < b) s s.ascKeys
  (s.deleteCheck 1).1

end SetSt

end FunModel.SetModel
