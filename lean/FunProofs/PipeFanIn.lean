import FunModel.Pipe

/-! Helper lemmas for the FanIn(n) process model (C01/C04). -/
namespace FunModel.Pipe.FanIn

theorem sum_map_set {α : Type} (w : α → Nat) {l : List α} {i : Nat} {p : α} (q : α) (h : l[i]? = some p) :
    ((l.set i q).map w).sum + w p = (l.map w).sum + w q := by
  induction l generalizing i with
  | nil => simp at h
  | cons y ys ih =>
    cases i with
    | zero => simp at h; subst h; simp; omega
    | succ j =>
      simp at h
      have := ih h
      simp at this ⊢; omega

theorem sum_map_le {α : Type} (w : α → Nat) {l : List α} {i : Nat} {p : α} (h : l[i]? = some p) :
    w p ≤ (l.map w).sum := by
  induction l generalizing i with
  | nil => simp at h
  | cons y ys ih =>
    cases i with
    | zero => simp at h; subst h; simp
    | succ j =>
      simp at h
      have := ih h
      simp; omega

theorem sum_map_set_eq {α : Type} (w : α → Nat) {l : List α} {i : Nat} {p : α} (q : α) (h : l[i]? = some p) :
    ((l.set i q).map w).sum = (l.map w).sum + w q - w p := by
  have := sum_map_set w q h
  omega

theorem count_flatMap_set {α : Type} (f : α → List Nat) (a : Nat) {l : List α} {i : Nat} {p : α} (q : α)
    (h : l[i]? = some p) :
    ((l.set i q).flatMap f).count a + (f p).count a = (l.flatMap f).count a + (f q).count a := by
  induction l generalizing i with
  | nil => simp at h
  | cons y ys ih =>
    cases i with
    | zero => simp at h; subst h; simp [List.count_append]; omega
    | succ j =>
      simp at h
      have := ih h
      simp [List.count_append] at this ⊢; omega

theorem count_flatMap_le {α : Type} (f : α → List Nat) (a : Nat) {l : List α} {i : Nat} {p : α}
    (h : l[i]? = some p) : (f p).count a ≤ (l.flatMap f).count a := by
  induction l generalizing i with
  | nil => simp at h
  | cons y ys ih =>
    cases i with
    | zero => simp at h; subst h; simp [List.count_append]
    | succ j =>
      simp at h
      have := ih h
      simp [List.count_append]; omega

theorem count_flatMap_set_eq {α : Type} (f : α → List Nat) (a : Nat) {l : List α} {i : Nat} {p : α} (q : α)
    (h : l[i]? = some p) :
    ((l.set i q).flatMap f).count a = (l.flatMap f).count a + (f q).count a - (f p).count a := by
  have := count_flatMap_set f a q h
  omega

def Conserved (input : List Nat) (s : St) : Prop := ∀ a, s.items.count a = input.count a

theorem step_conserved {c : Cfg} {input : List Nat} {s s' : St} {a : Act}
    (h : Conserved input s) (hs : step c s a = some s') : Conserved input s' := by
  intro b
  have hb := h b
  cases a <;> simp only [step] at hs <;> (repeat' (split at hs)) <;> cases hs
  all_goals (simp only [St.items, List.count_append] at hb ⊢)
  all_goals (try omega)
  all_goals (try (simp_all [List.count_cons]; omega))
  all_goals (try (simp_all [List.count_cons]; done))
  all_goals (
    have hx := ‹s.prods[_]? = some _›
    have l1 := count_flatMap_le (fun p : Prod => p.held.toList) b hx
    have l2 := count_flatMap_le (fun p : Prod => p.src) b hx
    simp only [count_flatMap_set_eq _ _ _ hx]
    simp_all [List.count_cons]
    try omega)

structure Inv (c : Cfg) (s : St) : Prop where
  kst_pclosed : s.kst = .exited → s.pclosed = true
  pclosed_kst : c.invalid = false → s.pclosed = true → s.kst = .exited
  /-- rejected options: the constructor closed the pipe; nothing is ever delivered -/
  invalid_closed : c.invalid = true → s.pclosed = true ∧ s.got = [] ∧ s.pipe = []
  kst_wcancel : s.kst ≠ .waiting ↔ s.wcancel = true
  notstarted : s.started = false → s.kst = .waiting ∧ s.cons ≠ .parked
  done_wdone : s.cons = .done → s.wdone = true
  exited_clear : ∀ (j : Nat) (p : Prod), s.prods[j]? = some p → p.exited = true → p.held = none

structure Clean (c : Cfg) (input : List Nat) (s : St) : Prop where
  dropped : s.dropped = []
  ucancel : s.ucancel = false
  exited_src : ∀ (j : Nat) (p : Prod), s.prods[j]? = some p → p.exited = true → p.src = [] ∧ s.shared = []
  wcancel : s.wcancel = true → ∀ (j : Nat) (p : Prod), s.prods[j]? = some p → p.exited = true
  closed : s.closed = true → s.cons = .done ∧ s.pipe = [] ∧ s.kst = .exited

theorem all_exited_iff (s : St) : s.allProdsExited = true ↔ ∀ (j : Nat) (p : Prod), s.prods[j]? = some p → p.exited = true := by
  simp only [St.allProdsExited, List.all_eq_true]
  constructor
  · intro h j p hj; exact h p (List.mem_of_getElem? hj)
  · intro h p hp
    obtain ⟨j, hj⟩ := List.getElem?_of_mem hp
    exact h j p hj

set_option maxHeartbeats 1000000 in
theorem step_inv {c : Cfg} {s s' : St} {a : Act}
    (h : Inv c s) (hs : step c s a = some s') : Inv c s' := by
  obtain ⟨h1, h1b, h1c, h2, h3, h4, h5⟩ := h
  cases a <;> simp only [step] at hs <;> (repeat' (split at hs)) <;> cases hs
  all_goals (constructor <;> first | (simp_all [St.wdone, St.wdone2]; done) | grind [St.wdone, St.wdone2])

set_option maxHeartbeats 1000000 in
theorem step_clean {c : Cfg} {input : List Nat} {s s' : St} {a : Act}
    (hv : c.invalid = false) (hi : Inv c s) (h : s.envStopped = false → Clean c input s)
    (hs : step c s a = some s') : s'.envStopped = false → Clean c input s' := by
  intro he
  have h1' := hi.pclosed_kst hv
  obtain ⟨h1, h1b, h1c, h2, h3, h4, h5⟩ := hi
  have hall := all_exited_iff s
  cases a <;> simp only [step] at hs <;> (repeat' (split at hs)) <;> cases hs
  all_goals (first | (simp at he; done) | skip)
  all_goals (obtain ⟨c1, c2, c3, c4, c5⟩ := h he)
  all_goals (constructor <;> first | (simp_all [St.wdone, St.wdone2]; done) | grind [St.wdone, St.wdone2])

theorem single_prod {l : List Prod} {i : Nat} {p : Prod} (hl : l.length = 1) (h : l[i]? = some p) :
    l = [p] ∧ i = 0 := by
  match l, i with
  | [], _ => simp at hl
  | [y], 0 => simp at h; simp [h]
  | [y], j+1 => simp at h
  | _ :: _ :: _, _ => simp at hl

/-- single producer: exact order in *every* run (also aborted ones) -/
def Order1 (input : List Nat) (s : St) : Prop :=
  s.prods.length = 1 →
    s.got ++ s.pipe ++ s.prods.flatMap (fun p => p.held.toList) ++ s.dropped ++ s.prods.flatMap (·.src) ++ s.shared = input ∧
    (s.dropped ≠ [] → ∀ (j : Nat) (p : Prod), s.prods[j]? = some p → p.exited = true)

theorem step_order1 {c : Cfg} {input : List Nat} {s s' : St} {a : Act}
    (hi : Inv c s) (ho : Order1 input s) (hs : step c s a = some s') : Order1 input s' := by
  intro hlen
  obtain ⟨h1, h1b, h1c, h2, h3, h4, h5⟩ := hi
  cases a <;> simp only [step] at hs <;> (repeat' (split at hs)) <;> cases hs
  all_goals (simp only [List.length_set] at hlen)
  all_goals (obtain ⟨o1, o2⟩ := ho hlen)
  all_goals (try (simp_all; done))
  all_goals (try (refine ⟨by simp_all, o2⟩))
  all_goals (
    have hx := ‹s.prods[_]? = some _›
    have hd : (‹Prod›).exited = false → s.dropped = [] := by
      intro hne
      cases hdd : s.dropped with
      | nil => rfl
      | cons y ys => have := o2 (by simp [hdd]) _ _ hx; simp_all
    obtain ⟨hl, hi0⟩ := single_prod hlen hx
    simp_all
    try grind)

/-- the multiset the consumer has to receive: all private sources and the shared one -/
def inputOf (privs : List (List Nat)) (shared : List Nat) : List Nat := privs.flatten ++ shared

theorem inv_init (c : Cfg) (privs : List (List Nat)) (shared : List Nat) (k1 k2 : Nat) :
    Inv c (init c privs shared k1 k2) := by
  constructor <;> cases hv : c.invalid <;> simp [init, St.wdone, hv]

theorem conserved_init (c : Cfg) (privs : List (List Nat)) (shared : List Nat) (k1 k2 : Nat) :
    Conserved (inputOf privs shared) (init c privs shared k1 k2) := by
  intro a
  simp [init, St.items, inputOf, List.flatMap_map]
  congr 1
  induction privs with
  | nil => simp
  | cons l ls ih => simp [List.count_append, ih]

theorem clean_init (c : Cfg) (privs : List (List Nat)) (shared : List Nat) (k1 k2 : Nat) (hv : c.invalid = false) :
    Clean c (inputOf privs shared) (init c privs shared k1 k2) := by
  constructor <;> simp [init, hv]

theorem order1_init (c : Cfg) (privs : List (List Nat)) (shared : List Nat) (k1 k2 : Nat) :
    Order1 (inputOf privs shared) (init c privs shared k1 k2) := by
  intro hl
  match privs with
  | [l] => simp [init, inputOf]
  | [] => simp [init] at hl
  | _ :: _ :: _ => simp [init] at hl

structure Good (c : Cfg) (input : List Nat) (s : St) : Prop where
  inv : Inv c s
  conserved : Conserved input s
  clean : c.invalid = false → s.envStopped = false → Clean c input s
  order1 : Order1 input s

theorem good_init (c : Cfg) (privs : List (List Nat)) (shared : List Nat) (k1 k2 : Nat) :
    Good c (inputOf privs shared) (init c privs shared k1 k2) :=
  ⟨inv_init c privs shared k1 k2, conserved_init c privs shared k1 k2, fun hv _ => clean_init c privs shared k1 k2 hv,
   order1_init c privs shared k1 k2⟩

theorem step_good {c : Cfg} {input : List Nat} {s s' : St} {a : Act}
    (h : Good c input s) (hs : step c s a = some s') : Good c input s' :=
  ⟨step_inv h.inv hs, step_conserved h.conserved hs, fun hv => step_clean hv h.inv (h.clean hv) hs, step_order1 h.inv h.order1 hs⟩

theorem run_good {c : Cfg} {input : List Nat} (as : List Act) : ∀ {s s' : St},
    Good c input s → run c s as = some s' → Good c input s' := by
  induction as with
  | nil => intro s s' h hr; simp [run] at hr; subst hr; exact h
  | cons a as ih =>
    intro s s' h hr
    simp only [run, List.foldlM_cons] at hr
    cases hst : step c s a with
    | none => simp [hst] at hr
    | some s1 =>
      simp only [hst] at hr
      exact ih (step_good h hst) hr

theorem reachable_good {c : Cfg} {privs : List (List Nat)} {shared : List Nat} {k1 k2 : Nat} {s : St}
    (h : Reachable c privs shared k1 k2 s) : Good c (inputOf privs shared) s := by
  obtain ⟨as, hr⟩ := h
  exact run_good as (good_init c privs shared k1 k2) hr

theorem prods_length_step {c : Cfg} {s s' : St} {a : Act} (hs : step c s a = some s') :
    s'.prods.length = s.prods.length := by
  cases a <;> simp only [step] at hs <;> (repeat' (split at hs)) <;> cases hs <;> simp

theorem run_prods_length {c : Cfg} (as : List Act) : ∀ {s s' : St},
    run c s as = some s' → s'.prods.length = s.prods.length := by
  induction as with
  | nil => intro s s' hr; simp [run] at hr; subst hr; rfl
  | cons a as ih =>
    intro s s' hr
    simp only [run, List.foldlM_cons] at hr
    cases hst : step c s a with
    | none => simp [hst] at hr
    | some s1 =>
      simp only [hst] at hr
      rw [ih hr, prods_length_step hst]

/-- the number of producers never changes: one per private source -/
theorem reachable_prods_length {c : Cfg} {privs : List (List Nat)} {shared : List Nat} {k1 k2 : Nat} {s : St}
    (h : Reachable c privs shared k1 k2 s) : s.prods.length = privs.length := by
  obtain ⟨as, hr⟩ := h
  rw [run_prods_length as hr]; simp [init]

theorem measure_step {c : Cfg} {s s' : St} {a : Act} (hs : step c s a = some s') : measure s' < measure s := by
  cases a <;> simp only [step] at hs <;> (repeat' (split at hs)) <;> cases hs
  all_goals (try (simp_all [measure, CState.rank, KState.rank] <;> omega))
  all_goals (
    have hx := ‹s.prods[_]? = some _›
    have e := sum_map_le Prod.weight hx
    simp only [measure, sum_map_set_eq _ _ hx]
    simp_all [Prod.weight, CState.rank, KState.rank]
    try omega)

theorem run_length_le {c : Cfg} (as : List Act) : ∀ {s s' : St},
    run c s as = some s' → as.length + measure s' ≤ measure s := by
  induction as with
  | nil => intro s s' hr; simp [run] at hr; subst hr; simp
  | cons a as ih =>
    intro s s' hr
    simp only [run, List.foldlM_cons] at hr
    cases hst : step c s a with
    | none => simp [hst] at hr
    | some s1 =>
      simp only [hst] at hr
      have h1 := measure_step hst
      have h2 := ih hr
      simp only [List.length_cons]; omega

theorem run_nostop {c : Cfg} (as : List Act) : ∀ {s s' : St},
    s.envStopped = false ∧ s.closeBudget = 0 ∧ s.cancelBudget = 0 → run c s as = some s' →
    s'.envStopped = false ∧ s'.closeBudget = 0 ∧ s'.cancelBudget = 0 := by
  induction as with
  | nil => intro s s' h hr; simp [run] at hr; subst hr; exact h
  | cons a as ih =>
    intro s s' h hr
    simp only [run, List.foldlM_cons] at hr
    cases hst : step c s a with
    | none => simp [hst] at hr
    | some s1 =>
      simp only [hst] at hr
      refine ih ?_ hr
      obtain ⟨h1, h2, h3⟩ := h
      cases a <;> simp only [step] at hst <;> (repeat' (split at hst)) <;> cases hst <;> simp_all

theorem exists_live {s : St} (h : s.allProdsExited = false) :
    ∃ (i : Nat) (p : Prod), s.prods[i]? = some p ∧ p.exited = false := by
  simp only [St.allProdsExited, List.all_eq_false] at h
  obtain ⟨p, hp, hne⟩ := h
  obtain ⟨i, hi⟩ := List.getElem?_of_mem hp
  exact ⟨i, p, hi, by simpa using hne⟩

/-- failure-free and ended: every source is drained and nothing is in flight -/
theorem terminal_items {c : Cfg} {input : List Nat} {s : St} (h : Good c input s) (hn : 0 < s.prods.length)
    (hv : c.invalid = false) (hclean : s.envStopped = false) (ht : s.terminal = true) :
    s.pipe = [] ∧ s.dropped = [] ∧ s.shared = [] ∧ s.prods.flatMap (fun p => p.held.toList) = [] ∧
      s.prods.flatMap (·.src) = [] := by
  obtain ⟨⟨h1, h1b, h1c, h2, h3, h4, h5⟩, _, hc, _⟩ := h
  obtain ⟨c1, c2, c3, c4, c5⟩ := hc hv hclean
  simp only [St.terminal, St.allExited, Bool.and_eq_true, Bool.or_eq_true, decide_eq_true_eq, Bool.not_eq_true'] at ht
  obtain ⟨hall, hdone⟩ := ht
  have hwd := h4 hdone
  have hcl : s.closed = true := by simpa [St.wdone, c2] using hwd
  obtain ⟨_, d2, d3⟩ := c5 hcl
  have hstarted : s.started = true := by
    cases hs : s.started with
    | true => rfl
    | false => have := (h3 hs).1; simp [this] at d3
  have hae : s.allProdsExited = true := by
    rcases hall with h | h
    · simp [hstarted] at h
    · exact h.1
  have hex := (all_exited_iff s).mp hae
  have hp0 : ∃ p, s.prods[0]? = some p := by
    cases hpr : s.prods with
    | nil => simp [hpr] at hn
    | cons p ps => exact ⟨p, by simp⟩
  obtain ⟨p0, hp0⟩ := hp0
  refine ⟨d2, c1, (c3 0 p0 hp0 (hex 0 p0 hp0)).2, ?_, ?_⟩
  · rw [List.flatMap_eq_nil_iff]
    intro p hp
    obtain ⟨j, hj⟩ := List.getElem?_of_mem hp
    simp [h5 j p hj (hex j p hj)]
  · rw [List.flatMap_eq_nil_iff]
    intro p hp
    obtain ⟨j, hj⟩ := List.getElem?_of_mem hp
    exact (c3 j p hj (hex j p hj)).1

theorem terminal_noleak {s : St} (ht : s.terminal = true) :
    (if s.started then (s.prods.filter (fun p => !p.exited)).length + (if s.kst = .exited then 0 else 1) else 0) = 0 := by
  simp only [St.terminal, St.allExited, Bool.and_eq_true, Bool.or_eq_true, decide_eq_true_eq, Bool.not_eq_true'] at ht
  obtain ⟨hall, _⟩ := ht
  cases hs : s.started with
  | false => simp
  | true =>
    simp [hs] at hall
    obtain ⟨ha, hk⟩ := hall
    simp only [St.allProdsExited, List.all_eq_true] at ha
    simp [hk]
    intro p hp
    exact ha p hp

theorem no_deadlock_internal {c : Cfg} {s : St} (h : Inv c s)
    (hnt : s.terminal = false) : ∃ a, a.isEnv = false ∧ (step c s a).isSome = true := by
  obtain ⟨h1, h1b, h1c, h2, h3, h4, h5⟩ := h
  by_cases hci : s.cons = .idle
  · exact ⟨.cStart, rfl, by simp only [step]; split <;> (try split) <;> simp_all⟩
  by_cases hkc : s.kst = .cancelled
  · exact ⟨.kClose, rfl, by simp [step, hkc]⟩
  cases hst : s.started with
  | false =>
    obtain ⟨n1, n2⟩ := h3 hst
    cases hc : s.cons with
    | idle => exact absurd hc hci
    | parked => exact absurd hc n2
    | done => simp [St.terminal, St.allExited, hst, hc] at hnt
  | true =>
    cases hall : s.allProdsExited with
    | false =>
      obtain ⟨i, p, hp, hpe⟩ := exists_live hall
      cases hw : s.wdone2 with
      | true => exact ⟨.pCtx i, rfl, by simp [step, hp, hst, hpe, hw]⟩
      | false =>
        cases hh : p.held with
        | none =>
          cases hsrc : p.src with
          | cons x xs => exact ⟨.pRead i, rfl, by simp [step, hp, hst, hpe, hh, hw, hsrc]⟩
          | nil =>
            cases hsh : s.shared with
            | cons x xs => exact ⟨.pRead i, rfl, by simp [step, hp, hst, hpe, hh, hw, hsrc, hsh]⟩
            | nil => exact ⟨.pEof i, rfl, by simp [step, hp, hst, hpe, hh, hsrc, hsh]⟩
        | some x =>
          cases hpc : s.pclosed with
          | true => exact ⟨.pSendClosed i, rfl, by simp [step, hp, hst, hpe, hh, hpc]⟩
          | false =>
            by_cases hcap : s.pipe.length < c.cap
            · exact ⟨.pSend i, rfl, by simp [step, hp, hst, hpe, hh, hpc, hcap]⟩
            cases hc : s.cons with
            | idle => exact absurd hc hci
            | done =>
              have := h4 hc
              simp [St.wdone, St.wdone2] at this hw
              simp_all
            | parked =>
              cases hpi : s.pipe with
              | nil => exact ⟨.pHandoff i, rfl, by simp [step, hp, hst, hpe, hh, hpc, hc, hpi]⟩
              | cons y ys => exact ⟨.cRecv, rfl, by simp [step, hc, hpi]⟩
    | true =>
      cases hk : s.kst with
      | cancelled => exact absurd hk hkc
      | waiting => exact ⟨.kCancel, rfl, by simp [step, hst, hk, hall]⟩
      | exited =>
        cases hc : s.cons with
        | idle => exact absurd hc hci
        | done => simp [St.terminal, St.allExited, hst, hc, hall, hk] at hnt
        | parked =>
          cases hpi : s.pipe with
          | cons y ys => exact ⟨.cRecv, rfl, by simp [step, hc, hpi]⟩
          | nil => exact ⟨.cEof, rfl, by simp [step, hc, hpi, h1 hk]⟩

theorem no_deadlock_stopped {c : Cfg} {s : St}
    (hw : s.wdone = true) (hne : s.allExited = false) :
    ∃ a, a.isGoroutine = true ∧ (step c s a).isSome = true := by
  have hw2 : s.wdone2 = true := by simp [St.wdone, St.wdone2] at hw ⊢; rcases hw with h | h <;> simp [h]
  cases hst : s.started with
  | false => simp [St.allExited, hst] at hne
  | true =>
    cases hall : s.allProdsExited with
    | false =>
      obtain ⟨i, p, hp, hpe⟩ := exists_live hall
      exact ⟨.pCtx i, rfl, by simp [step, hp, hst, hpe, hw2]⟩
    | true =>
      cases hk : s.kst with
      | cancelled => exact ⟨.kClose, rfl, by simp [step, hk]⟩
      | waiting => exact ⟨.kCancel, rfl, by simp [step, hst, hk, hall]⟩
      | exited => simp [St.allExited, hst, hall, hk] at hne

end FunModel.Pipe.FanIn
