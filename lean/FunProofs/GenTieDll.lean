import FunGen.Dll
import FunModel.Dll

/-! T-gen tie for dt/list.go: the two splices every list mutation goes through
    (`uncheckedAppend`, `uncheckedRemove`), as regenerated from the current source, are the
    definitions the C16/C17 theorems are about. -/
namespace FunProofs.GenTie
open FunModel.Dll

theorem uncheckedAppend_tie (h : Heap) (e new : Nat) :
    FunGen.Dll.uncheckedAppend h e new = h.uncheckedAppend e new := rfl

theorem uncheckedRemove_tie (h : Heap) (e : Nat) :
    FunGen.Dll.uncheckedRemove h e = h.uncheckedRemove e := rfl

end FunProofs.GenTie
