import FunProofs.SortSeq

/-! Pure sequence lemmas used by the pointer-level refinement of `dt/cmp.go` (`FunProofs/SortPtr.lean`,
    `FunProps/C17Ptr.lean`): the sequence-level algorithms of `FunModel/SortSeq.lean` commute with
    mapping a key function over the list (so a statement about element ADDRESSES compared through
    their items becomes a statement about the VALUES), and a closed form of `heapInsert`. -/

namespace FunProofs.SortPtr
open FunModel FunModel.SortSeq

variable {α β : Type}

/-- the comparison `lt` on keys, pulled back to the things that carry the keys -/
def ltOn (lt : β → β → Bool) (k : α → β) : α → α → Bool := fun a b => lt (k a) (k b)

@[simp] theorem ltOn_apply (lt : β → β → Bool) (k : α → β) (a b : α) : ltOn lt k a b = lt (k a) (k b) := rfl

theorem map_merge (lt : β → β → Bool) (k : α → β) (a b : List α) :
    (SortSeq.merge (ltOn lt k) a b).map k = SortSeq.merge lt (a.map k) (b.map k) := by
  induction a generalizing b with
  | nil => simp [merge_nil_left]
  | cons x a iha =>
    induction b with
    | nil => simp [merge_nil_right]
    | cons y b ihb =>
      rw [merge_cons_cons, List.map_cons, List.map_cons, merge_cons_cons]
      cases hxy : lt (k x) (k y) with
      | true =>
        simp only [ltOn_apply, hxy, if_true, List.map_cons]
        rw [iha (y :: b), List.map_cons]
      | false =>
        simp only [ltOn_apply, hxy, Bool.false_eq_true, if_false, List.map_cons]
        rw [ihb, List.map_cons]

theorem map_split_fst (k : α → β) (xs : List α) : (SortSeq.split xs).1.map k = (SortSeq.split (xs.map k)).1 := by
  simp [SortSeq.split, List.map_take]

theorem map_split_snd (k : α → β) (xs : List α) : (SortSeq.split xs).2.map k = (SortSeq.split (xs.map k)).2 := by
  simp [SortSeq.split, List.map_drop]

theorem map_mergeSort (lt : β → β → Bool) (k : α → β) (fuel : Nat) (xs : List α) :
    (SortSeq.mergeSort (ltOn lt k) xs fuel).map k = SortSeq.mergeSort lt (xs.map k) fuel := by
  induction fuel generalizing xs with
  | zero => rw [mergeSort_zero, mergeSort_zero]
  | succ f ih =>
    by_cases hlen : xs.length < 2
    · rw [mergeSort_short _ hlen, mergeSort_short _ (by simpa using hlen)]
    · have h2 : 2 ≤ xs.length := Nat.le_of_not_lt hlen
      rw [mergeSort_succ _ h2, mergeSort_succ _ (by simpa using h2), map_merge, ih, ih,
        map_split_fst, map_split_snd]

theorem map_sortMerge (lt : β → β → Bool) (k : α → β) (xs : List α) :
    (SortSeq.sortMerge (ltOn lt k) xs).map k = SortSeq.sortMerge lt (xs.map k) := by
  unfold SortSeq.sortMerge
  rw [map_mergeSort, List.length_map]

theorem map_insertStable (lt : β → β → Bool) (k : α → β) (e : α) (xs : List α) :
    (SortSeq.insertStable (ltOn lt k) e xs).map k = SortSeq.insertStable lt (k e) (xs.map k) := by
  induction xs with
  | nil => rfl
  | cons x xs ih =>
    by_cases hx : lt (k x) (k e) = true
    · simp [SortSeq.insertStable, hx, ih]
    · simp [SortSeq.insertStable, hx]

theorem map_sortQuick (lt : β → β → Bool) (k : α → β) (xs : List α) :
    (SortSeq.sortQuick (ltOn lt k) xs).map k = SortSeq.sortQuick lt (xs.map k) := by
  induction xs with
  | nil => rfl
  | cons x xs ih =>
    show (SortSeq.insertStable (ltOn lt k) x (SortSeq.sortQuick (ltOn lt k) xs)).map k = _
    rw [map_insertStable, ih]
    rfl

theorem isSorted_map (lt : β → β → Bool) (k : α → β) (xs : List α) :
    SortSeq.isSorted (ltOn lt k) xs = SortSeq.isSorted lt (xs.map k) := by
  match xs with
  | [] => rfl
  | [_] => rfl
  | x :: y :: rest =>
    simp only [List.map_cons, SortSeq.isSorted, ltOn_apply]
    have := isSorted_map lt k (y :: rest)
    simp only [List.map_cons] at this
    rw [this]

/-- closed form of the reversed scan of `Heap.Push` -/
theorem heapInsert_go_split (lt : α → α → Bool) (t : α) (f2r f1r : List α)
    (h2 : ∀ y, y ∈ f2r → lt t y = true)
    (h1 : f1r = [] ∨ ∃ e f, f1r = e :: f ∧ lt t e = false) :
    SortSeq.heapInsert.go lt t (f2r ++ f1r) = f2r ++ t :: f1r := by
  induction f2r with
  | nil =>
    rcases h1 with rfl | ⟨e, f, rfl, he⟩
    · simp [SortSeq.heapInsert.go]
    · simp [SortSeq.heapInsert.go, he]
  | cons y ys ih =>
    have hy : lt t y = true := h2 y (by simp)
    simp only [List.cons_append, SortSeq.heapInsert.go, hy, if_true]
    rw [ih (fun z hz => h2 z (by simp [hz]))]

/-- `Heap.Push` in closed form: if the list is `f1 ++ f2`, `t` is less than every member of `f2`
    and not less than the last member of `f1` (or `f1` is empty), the result is `f1 ++ t :: f2` -/
theorem heapInsert_split (lt : α → α → Bool) (t : α) (f1 f2 : List α)
    (h2 : ∀ y, y ∈ f2 → lt t y = true)
    (h1 : f1 = [] ∨ ∃ f e, f1 = f ++ [e] ∧ lt t e = false) :
    SortSeq.heapInsert lt t (f1 ++ f2) = f1 ++ t :: f2 := by
  rw [heapInsert_eq, List.reverse_append, heapInsert_go_split lt t f2.reverse f1.reverse]
  · simp
  · intro y hy; exact h2 y (by simpa using hy)
  · rcases h1 with rfl | ⟨f, e, rfl, he⟩
    · exact Or.inl rfl
    · exact Or.inr ⟨e, f.reverse, by simp, he⟩

theorem sortQuick_perm' (lt : α → α → Bool) (xs : List α) : (SortSeq.sortQuick lt xs).Perm xs := by
  induction xs with
  | nil => exact List.Perm.refl _
  | cons x xs ih => exact (insertStable_perm lt x _).trans (ih.cons x)

end FunProofs.SortPtr
