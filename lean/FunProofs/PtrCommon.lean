/-! Small list facts shared by the pointer-level developments of `pubsub.Queue` and `pubsub.Deque`
    (FunProofs/QueuePtr.lean, FunProofs/DequePtr.lean). Core Lean only. -/
namespace FunProofs.Ptr

/-- last element of `a :: xs` -/
def lastD (a : Nat) : List Nat → Nat
  | [] => a
  | x :: xs => lastD x xs

@[simp] theorem lastD_nil (a : Nat) : lastD a [] = a := rfl
@[simp] theorem lastD_cons (a x : Nat) (xs : List Nat) : lastD a (x :: xs) = lastD x xs := rfl
@[simp] theorem lastD_snoc (a b : Nat) (xs : List Nat) : lastD a (xs ++ [b]) = b := by
  induction xs generalizing a with
  | nil => rfl
  | cons x xs ih => simp [ih]

theorem lastD_mem (a : Nat) (xs : List Nat) : lastD a xs = a ∨ lastD a xs ∈ xs := by
  induction xs generalizing a with
  | nil => simp
  | cons x xs ih => rcases ih x with h | h <;> simp [h]

theorem lastD_eq_getLast? (a : Nat) (xs : List Nat) : lastD a xs = xs.getLast?.getD a := by
  induction xs generalizing a with
  | nil => rfl
  | cons x xs ih =>
    rw [lastD_cons, ih x]
    cases xs with
    | nil => simp
    | cons y ys =>
      rw [List.getLast?_cons_cons]
      cases h : (y :: ys).getLast? with
      | none => simp at h
      | some z => rfl

theorem lastD_cons_of_ne_nil (a : Nat) {xs : List Nat} (h : xs ≠ []) (b : Nat) : lastD a xs = lastD b xs := by
  cases xs with
  | nil => exact absurd rfl h
  | cons x xs => rfl

/-- in a duplicate-free `a :: xs`, the last element is `a` only when `xs` is empty -/
theorem lastD_eq_self {a : Nat} {xs : List Nat} (hn : (a :: xs).Nodup) (h : lastD a xs = a) : xs = [] := by
  cases xs with
  | nil => rfl
  | cons x xs =>
    exfalso
    rcases lastD_mem x xs with h1 | h1
    · simp only [lastD_cons, h1] at h
      simp [h] at hn
    · simp only [lastD_cons] at h
      rw [h] at h1
      simp [h1] at hn

/-- pigeonhole: a duplicate-free list of numbers below `n` has at most `n` elements -/
theorem length_le_of_nodup_lt : ∀ (n : Nat) (l : List Nat), l.Nodup → (∀ x ∈ l, x < n) → l.length ≤ n
  | 0, l, _, hlt => by
    cases l with
    | nil => simp
    | cons x xs => exact absurd (hlt x (by simp)) (Nat.not_lt_zero _)
  | n + 1, l, hn, hlt => by
    have ih := length_le_of_nodup_lt n (l.erase n) (hn.erase n) (by
      intro x hx
      have hx' := (List.Nodup.mem_erase_iff hn).1 hx
      have := hlt x hx'.2
      omega)
    by_cases hm : n ∈ l
    · rw [List.length_erase_of_mem hm] at ih; omega
    · rw [List.erase_of_not_mem hm] at ih; omega

end FunProofs.Ptr
