import FunProofs.DequeWake

/-! The non-destructive Deque iterators (C20): what a call yields while the element it stands on
    is still linked (`ahead`), what pushes do to the unseen part, and that every yielded value
    belongs to an element that was created by a push. Core Lean only. -/

namespace FunModel.Deque
open FunModel.Conc

/-! ## The unseen part of the deque -/

/-- the entries after `c` in `l` (`c = 0`: all of `l`) -/
def aheadL (l : List (Nat × Int)) (c : Nat) : List (Nat × Int) :=
  if c = 0 then l else (l.dropWhile (fun p => p.1 != c)).tail

/-- what an iterator in direction `d` standing on `c` has not yet passed, in iteration order -/
def ahead (x : St) (d : End) (c : Nat) : List (Nat × Int) :=
  aheadL (match d with | .front => x.q | .back => x.q.reverse) c

theorem after_map_eq (l : List (Nat × Int)) (c : Nat) (hc : c ≠ 0) :
    after (l.map (·.1)) c = if c ∈ l.map (·.1) then some (((aheadL l c).map (·.1)).headD 0) else none := by
  induction l with
  | nil => simp [after]
  | cons p r ih =>
    by_cases hp : p.1 = c
    · subst hp
      simp [after, aheadL, hc, List.dropWhile_cons]
    · have h1 : (p.1 == c) = false := by simpa using hp
      have h2 : (p.1 != c) = true := by simpa using hp
      have h3 : c ≠ p.1 := fun h => hp h.symm
      simp only [List.map_cons, after, h1, ih, List.mem_cons, h3, false_or]
      simp only [aheadL, hc, ite_false, List.dropWhile_cons, h2, ite_true]
      rfl

/-- the link an iterator follows, while the element it stands on is linked (or it stands on the
    root), is the first unseen element -/
theorem nbr_ahead (x : St) (d : End) (c : Nat) (hc : c = 0 ∨ c ∈ x.ids) :
    x.nbr d c = ((ahead x d c).map (·.1)).headD 0 := by
  unfold St.nbr ahead
  by_cases h0 : c = 0
  · subst h0
    cases d <;> simp [aheadL, St.ids]
  · have hm : c ∈ x.ids := by rcases hc with h | h; exact absurd h h0; exact h
    simp only [h0, ite_false]
    cases d with
    | front =>
      simp only [St.ids] at hm ⊢
      rw [after_map_eq x.q c h0, if_pos hm]
    | back =>
      have : x.ids.reverse = x.q.reverse.map (·.1) := by simp [St.ids]
      simp only [this]
      have hm' : c ∈ x.q.reverse.map (·.1) := by rw [← this]; simpa using hm
      rw [after_map_eq x.q.reverse c h0, if_pos hm']

/-! ## Created elements -/

/-- every linked element, every cursor and every stale link is the root or an element created by
    a push (`vals`), ids are positive, and `vals` maps each id to one item -/
structure Inv3 (x : St) : Prop where
  ids_pos : ∀ i ∈ x.ids, 0 < i
  q_vals : ∀ p ∈ x.q, p ∈ x.vals
  vals_lt : ∀ p ∈ x.vals, p.1 < x.nextId
  vals_nodup : (x.vals.map (·.1)).Nodup
  cur_vals : ∀ p ∈ x.cursors, p.2 = 0 ∨ p.2 ∈ x.vals.map (·.1)
  stale_vals : ∀ p ∈ x.stale, (p.2.1 = 0 ∨ p.2.1 ∈ x.vals.map (·.1)) ∧ (p.2.2 = 0 ∨ p.2.2 ∈ x.vals.map (·.1))

theorem valOf_of_mem {x : St} (h : Inv3 x) {e : Nat} {v : Int} (hm : (e, v) ∈ x.vals) : x.valOf e = v := by
  unfold St.valOf
  have key : ∀ (l : List (Nat × Int)), (l.map (·.1)).Nodup → (e, v) ∈ l →
      l.find? (fun p => p.1 == e) = some (e, v) := by
    intro l hn hm
    induction l with
    | nil => cases hm
    | cons p r ih =>
      simp only [List.map_cons, List.nodup_cons] at hn
      simp only [List.mem_cons] at hm
      rcases hm with rfl | hm
      · simp
      · have hne : p.1 ≠ e := by
          intro he; apply hn.1; rw [he]; exact List.mem_map.2 ⟨(e, v), hm, rfl⟩
        have : (p.1 == e) = false := by simpa using hne
        simp only [List.find?_cons, this]
        exact ih hn.2 hm
  rw [key x.vals h.vals_nodup hm]; rfl

theorem mem_vals_of_key {x : St} (h : Inv3 x) {e : Nat} (hm : e ∈ x.vals.map (·.1)) : (e, x.valOf e) ∈ x.vals := by
  obtain ⟨p, hp, rfl⟩ := List.mem_map.1 hm
  obtain ⟨e, v⟩ := p
  rw [valOf_of_mem h hp]; exact hp

theorem Inv3.cursor_valid {x : St} (h : Inv3 x) (k : Nat) : x.cursor k = 0 ∨ x.cursor k ∈ x.vals.map (·.1) := by
  unfold St.cursor
  cases hf : x.cursors.find? (fun p => p.1 == k) with
  | none => left; rfl
  | some p => simpa using h.cur_vals p (List.mem_of_find?_eq_some hf)

theorem Inv3.ids_vals {x : St} (h : Inv3 x) {i : Nat} (hi : i ∈ x.ids) : i ∈ x.vals.map (·.1) := by
  obtain ⟨p, hp, rfl⟩ := List.mem_map.1 hi
  exact List.mem_map.2 ⟨p, h.q_vals p hp, rfl⟩

/-- whatever link an iterator follows leads to the root or to a created element: never to nil -/
theorem Inv3.nbr_valid {x : St} (h : Inv3 x) (d : End) (e : Nat) : x.nbr d e = 0 ∨ x.nbr d e ∈ x.vals.map (·.1) := by
  have key : ∀ (l : List Nat), (∀ i ∈ l, i ∈ x.ids) →
      (let n := (if e = 0 then l.headD 0 else match after l e with
        | some n => n
        | none => match x.stale.find? (fun p => p.1 == e) with
          | some (_, n, p) => (match d with | .front => n | .back => p)
          | none => 0); n = 0 ∨ n ∈ x.vals.map (·.1)) := by
    intro l hl
    simp only
    split
    · rcases @headD_mem_or l with h0 | h0
      · exact Or.inl h0
      · exact Or.inr (h.ids_vals (hl _ h0))
    · split
      · rename_i n hn
        rcases after_mem hn with h0 | h0
        · exact Or.inl h0
        · exact Or.inr (h.ids_vals (hl _ h0))
      · split
        · rename_i a n p hf
          have := h.stale_vals _ (List.mem_of_find?_eq_some hf)
          cases d
          · exact this.1
          · exact this.2
        · exact Or.inl rfl
  unfold St.nbr
  cases d
  · exact key _ (fun i hi => hi)
  · exact key _ (fun i hi => List.mem_reverse.1 hi)

theorem addEnd_inv3 (x : St) (d : End) (v : Int) (h2 : Inv2 x) (h : Inv3 x) : Inv3 (addEnd x d v).1 := by
  by_cases hok : (addEnd x d v).2.1 = .ok
  · obtain ⟨_, heq, _⟩ := addEnd_ok_eq hok
    rw [heq]
    have hsub : ∀ {i : Nat}, i ∈ x.vals.map (·.1) → i ∈ ((x.nextId, v) :: x.vals).map (·.1) :=
      fun hi => List.mem_cons_of_mem _ hi
    refine ⟨?_, ?_, ?_, ?_, ?_, ?_⟩
    · intro i hi
      have : i = x.nextId ∨ i ∈ x.ids := by
        cases d <;> simp [St.ids, addQ] at hi <;> simp [St.ids]
        · exact hi
        · exact hi.symm
      rcases this with rfl | hi'
      · exact h2.next_pos
      · exact h.ids_pos i hi'
    · intro p hp
      have : p = (x.nextId, v) ∨ p ∈ x.q := by
        cases d <;> simp [addQ] at hp
        · exact hp
        · exact hp.symm
      rcases this with rfl | hp'
      · exact List.mem_cons_self
      · exact List.mem_cons_of_mem _ (h.q_vals p hp')
    · intro p hp
      simp only [List.mem_cons] at hp
      rcases hp with rfl | hp
      · simp
      · have := h.vals_lt p hp; simp only; omega
    · simp only [List.map_cons, List.nodup_cons]
      refine ⟨?_, h.vals_nodup⟩
      intro hm
      obtain ⟨p, hp, hpe⟩ := List.mem_map.1 hm
      have := h.vals_lt p hp
      omega
    · intro p hp; rcases h.cur_vals p hp with h0 | h0; exact Or.inl h0; exact Or.inr (hsub h0)
    · intro p hp
      obtain ⟨a, b⟩ := h.stale_vals p hp
      exact ⟨a.imp id hsub, b.imp id hsub⟩
  · rw [addEnd_fail_eq x d v hok]; exact h

theorem popEnd_inv3 (x : St) (d : End) (h : Inv3 x) : Inv3 (popEnd x d).1 := by
  cases hp : (popEnd x d).2.1 with
  | none => rw [popEnd_none_eq x d hp]; exact h
  | some v =>
    cases d with
    | front =>
      obtain ⟨_, e, rest, hq, heq⟩ := popEnd_front_some hp
      rw [heq]
      have hids : x.ids = e :: rest.map (·.1) := by simp [St.ids, hq]
      have hsubq : ∀ p ∈ rest, p ∈ x.q := fun p hp => by rw [hq]; exact List.mem_cons_of_mem _ hp
      refine ⟨?_, fun p hp => h.q_vals p (hsubq p hp), h.vals_lt, h.vals_nodup, h.cur_vals, ?_⟩
      · intro i hi; exact h.ids_pos i (by rw [hids]; exact List.mem_cons_of_mem _ (by simpa [St.ids] using hi))
      · intro p hp
        simp only [List.mem_cons] at hp
        rcases hp with rfl | hp
        · refine ⟨?_, Or.inl rfl⟩
          simp only
          rcases @headD_mem_or (rest.map (·.1)) with h0 | h0
          · exact Or.inl h0
          · exact Or.inr (h.ids_vals (by rw [hids]; exact List.mem_cons_of_mem _ h0))
        · exact h.stale_vals p hp
    | back =>
      obtain ⟨_, e, rest, hq, heq⟩ := popEnd_back_some hp
      rw [heq]
      have hids : x.ids = rest.map (·.1) ++ [e] := by simp [St.ids, hq]
      have hsubq : ∀ p ∈ rest, p ∈ x.q := fun p hp => by rw [hq]; exact List.mem_append_left _ hp
      refine ⟨?_, fun p hp => h.q_vals p (hsubq p hp), h.vals_lt, h.vals_nodup, h.cur_vals, ?_⟩
      · intro i hi; exact h.ids_pos i (by rw [hids]; exact List.mem_append_left _ (by simpa [St.ids] using hi))
      · intro p hp
        simp only [List.mem_cons] at hp
        rcases hp with rfl | hp
        · refine ⟨Or.inl rfl, ?_⟩
          simp only
          cases hl : (rest.map (·.1)).getLast? with
          | none => left; rfl
          | some z =>
            right; simp
            have := h.ids_vals (i := z) (by rw [hids]; exact List.mem_append_left _ (List.mem_of_getLast? hl))
            simpa using this
        · exact h.stale_vals p hp

theorem iterYield_inv3 (x : St) (key : Nat) (d : End) (c : Nat) (h : Inv3 x) : Inv3 (iterYield x key d c).st := by
  unfold iterYield
  by_cases hn : (x.nbr d c == 0) = true
  · simpa [hn] using h
  · simp only [hn, Bool.false_eq_true, ite_false]
    refine ⟨h.ids_pos, h.q_vals, h.vals_lt, h.vals_nodup, ?_, h.stale_vals⟩
    intro p hp
    simp only [St.setCursor, List.mem_cons, List.mem_filter] at hp
    rcases hp with rfl | hp
    · exact h.nbr_valid d c
    · exact h.cur_vals p hp.1

/-- both identity invariants together -/
structure Inv23 (x : St) : Prop where
  i2 : Inv2 x
  i3 : Inv3 x

theorem forcePush_inv23 (x : St) (d : End) (v : Int) (h : Inv23 x) : Inv23 (forcePush x d v).1 := by
  unfold forcePush
  by_cases hc : x.tracker.atCap = true
  · simp only [hc, ite_true]
    exact ⟨addEnd_inv2 _ d v (popEnd_inv2 x d.opp h.i2), addEnd_inv3 _ d v (popEnd_inv2 x d.opp h.i2) (popEnd_inv3 x d.opp h.i3)⟩
  · simp only [hc, Bool.false_eq_true, ite_false]
    exact ⟨addEnd_inv2 x d v h.i2, addEnd_inv3 x d v h.i2 h.i3⟩

theorem waitPopLoop_inv3 (x : St) (d : End) (k : Bool) (pre : List Sig) (h : Inv3 x) : Inv3 (waitPopLoop x d k pre).st := by
  rcases waitPopLoop_cases x d k pre with h1 | ⟨h1, _⟩
  · rw [h1]; exact h
  · rw [h1]; exact popEnd_inv3 x d h

theorem waitPushLoop_inv3 (x : St) (d : End) (v : Int) (k : Bool) (pre : List Sig) (h2 : Inv2 x) (h : Inv3 x) :
    Inv3 (waitPushLoop x d v k pre).st := by
  rcases waitPushLoop_cases x d v k pre with h1 | ⟨h1, _⟩
  · rw [h1]; exact h
  · rw [h1]; exact addEnd_inv3 x d v h2 h

theorem iterLoop_inv3 (x : St) (key : Nat) (d : End) (k : Bool) (pre : List Sig) (h : Inv3 x) :
    Inv3 (iterLoop x key d k pre).st := by
  unfold iterLoop
  by_cases hn : (x.nbr d (x.cursor key) == 0) = true
  · simp only [hn, ite_true]
    by_cases hc : x.closed = true
    · simpa [hc] using h
    · by_cases hk : k = true <;> simpa [hc, hk] using h
  · simp only [hn, Bool.false_eq_true, ite_false]; exact iterYield_inv3 x key d _ h

theorem startR_inv3 (x : St) (h2 : Inv2 x) (h : Inv3 x) (op : Op) : Inv3 (startR x op).st := by
  cases op with
  | push d v => exact addEnd_inv3 x d v h2 h
  | fpush d v => exact (forcePush_inv23 x d v ⟨h2, h⟩).i3
  | pop d =>
    have hp := popEnd_inv3 x d h
    simp only [startR]
    rcases hpe : popEnd x d with ⟨s', ov, sg⟩
    rw [hpe] at hp
    cases ov <;> exact hp
  | wait d =>
    simp only [startR]
    by_cases hc : x.closed = true
    · simpa [hc] using h
    · simp only [hc, Bool.false_eq_true, ite_false]
      by_cases he : x.q.isEmpty = true
      · simp only [he, ite_true]; exact waitPopLoop_inv3 x d false _ h
      · simp only [he, Bool.false_eq_true, ite_false]; exact waitPopLoop_inv3 x d false _ h
  | wpush d v =>
    simp only [startR]
    by_cases hr : x.tracker.hasRoom = true
    · simp only [hr, ite_true]; exact addEnd_inv3 x d v h2 h
    · simp only [hr, Bool.false_eq_true, ite_false]; exact waitPushLoop_inv3 x d v false _ h2 h
  | len => exact h
  | close => exact ⟨h.ids_pos, h.q_vals, h.vals_lt, h.vals_nodup, h.cur_vals, h.stale_vals⟩
  | next d b k =>
    simp only [startR]
    by_cases hn : (x.nbr d (x.cursor (cursorKey d b k)) == 0 && b) = true
    · simp only [hn, ite_true]; exact iterLoop_inv3 x _ d false _ h
    · simp only [hn, Bool.false_eq_true, ite_false]; exact iterYield_inv3 x _ d _ h

theorem resumeR_inv3 (x : St) (h2 : Inv2 x) (h : Inv3 x) (op : Op) (k : Bool) : Inv3 (resumeR x op k).st := by
  cases op with
  | wait d => exact waitPopLoop_inv3 x d k _ h
  | wpush d v => exact waitPushLoop_inv3 x d v k _ h2 h
  | next d b k' =>
    cases b with
    | true => exact iterLoop_inv3 x _ d k _ h
    | false => exact h
  | push d v => exact h
  | fpush d v => exact h
  | pop d => exact h
  | len => exact h
  | close => exact h

theorem reach_inv23 {s0 s : Sys St Op} (hwf0 : s0.WF) (h0 : Inv23 s0.subj) (hr : Reach subject s0 s) : Inv23 s.subj :=
  hr.subj_inv Inv23 hwf0 h0
    (fun x _ op hx => ⟨startR_inv2 x hx.i2 op, startR_inv3 x hx.i2 hx.i3 op⟩)
    (fun x _ op c hx => ⟨resumeR_inv2 x hx.i2 op c, resumeR_inv3 x hx.i2 hx.i3 op c⟩)

/-! ## One call of an iterator whose element is still linked -/

theorem nodup_reverse' {l : List Nat} (h : l.Nodup) : l.reverse.Nodup := by
  unfold List.Nodup at *
  rw [List.pairwise_reverse]
  exact h.imp (fun h => h.symm)

theorem aheadL_sub {l : List (Nat × Int)} {c : Nat} {p : Nat × Int} (h : p ∈ aheadL l c) : p ∈ l := by
  unfold aheadL at h
  split at h
  · exact h
  · exact (List.dropWhile_sublist _).subset (List.mem_of_mem_tail h)

theorem aheadL_cons_ne (p : Nat × Int) (l : List (Nat × Int)) {c : Nat} (h0 : c ≠ 0) (hne : p.1 ≠ c) :
    aheadL (p :: l) c = aheadL l c := by
  have : (p.1 != c) = true := by simpa using hne
  simp [aheadL, h0, List.dropWhile_cons, this]

theorem aheadL_cons_self (p : Nat × Int) (l : List (Nat × Int)) (h0 : p.1 ≠ 0) : aheadL (p :: l) p.1 = l := by
  simp [aheadL, h0, List.dropWhile_cons]

theorem aheadL_step {l : List (Nat × Int)} (hn : (l.map (·.1)).Nodup) {c e : Nat} {v : Int} {rest : List (Nat × Int)}
    (he : e ≠ 0) (h : aheadL l c = (e, v) :: rest) : aheadL l e = rest := by
  by_cases h0 : c = 0
  · subst h0
    simp only [aheadL, ite_true] at h
    subst h
    exact aheadL_cons_self (e, v) rest he
  · induction l with
    | nil => simp [aheadL, h0] at h
    | cons p r ih =>
      simp only [List.map_cons, List.nodup_cons] at hn
      have hmem : (e, v) ∈ aheadL (p :: r) c := by rw [h]; exact List.mem_cons_self
      by_cases hp : p.1 = c
      · have hr : r = (e, v) :: rest := by
          rw [← hp] at h
          rw [aheadL_cons_self p r (by rw [hp]; exact h0)] at h
          exact h
        have hpe : p.1 ≠ e := by
          intro heq; apply hn.1; rw [heq, hr]; simp
        rw [aheadL_cons_ne p r he hpe, hr]
        exact aheadL_cons_self (e, v) rest he
      · rw [aheadL_cons_ne p r h0 hp] at h hmem
        have hin : e ∈ r.map (·.1) := List.mem_map.2 ⟨(e, v), aheadL_sub hmem, rfl⟩
        have hpe : p.1 ≠ e := by intro heq; apply hn.1; rw [heq]; exact hin
        rw [aheadL_cons_ne p r he hpe]
        exact ih hn.2 h

theorem dropWhile_append_of_mem {α : Type} (P : α → Bool) (l : List α) (p : α) (h : ∃ x ∈ l, P x = false) :
    (l ++ [p]).dropWhile P = l.dropWhile P ++ [p] ∧ l.dropWhile P ≠ [] := by
  induction l with
  | nil => obtain ⟨x, hx, _⟩ := h; cases hx
  | cons a r ih =>
    by_cases ha : P a = true
    · obtain ⟨x, hx, hpx⟩ := h
      simp only [List.mem_cons] at hx
      rcases hx with rfl | hx
      · rw [ha] at hpx; cases hpx
      · simpa [List.dropWhile_cons, ha] using ih ⟨x, hx, hpx⟩
    · simp [List.dropWhile_cons, ha]

theorem aheadL_append (l : List (Nat × Int)) (p : Nat × Int) (c : Nat) (hc : c = 0 ∨ c ∈ l.map (·.1)) :
    aheadL (l ++ [p]) c = aheadL l c ++ [p] := by
  by_cases h0 : c = 0
  · simp [aheadL, h0]
  · have hm : c ∈ l.map (·.1) := by rcases hc with h | h; exact absurd h h0; exact h
    obtain ⟨q, hq, hqc⟩ := List.mem_map.1 hm
    obtain ⟨h1, h2⟩ := dropWhile_append_of_mem (fun x : Nat × Int => x.1 != c) l p ⟨q, hq, by simp [hqc]⟩
    simp only [aheadL, h0, ite_false, h1]
    cases hd : l.dropWhile (fun x => x.1 != c) with
    | nil => exact absurd hd h2
    | cons a t => rfl

theorem pushed_q (x : St) (d : End) (v : Int) : (pushed x d v).q = addQ d (x.nextId, v) x.q := rfl

/-- a push at the far end (the back for a forward iterator) appends to the unseen part -/
theorem ahead_push_far (x : St) (d : End) (v : Int) (c : Nat) (hc : c = 0 ∨ c ∈ x.ids) :
    ahead (pushed x d.opp v) d c = ahead x d c ++ [(x.nextId, v)] := by
  cases d with
  | front =>
    simp only [ahead, End.opp, pushed_q, addQ]
    exact aheadL_append x.q _ c (by simpa [St.ids] using hc)
  | back =>
    simp only [ahead, End.opp, pushed_q, addQ, List.reverse_cons]
    exact aheadL_append x.q.reverse _ c (by simpa [St.ids] using hc)

/-- a push at the near end does not touch the unseen part of an iterator that has started; an
    iterator that has not started yet sees the new first item -/
theorem ahead_push_near (x : St) (h2 : Inv2 x) (d : End) (v : Int) (c : Nat) (hc : c = 0 ∨ c ∈ x.ids) :
    ahead (pushed x d v) d c = if c = 0 then (x.nextId, v) :: ahead x d c else ahead x d c := by
  have hne : c ≠ 0 → (x.nextId, v).1 ≠ c := by
    intro h0 heq
    rcases hc with h | h
    · exact h0 h
    · have := h2.ids_lt c h; simp at heq; omega
  cases d with
  | front =>
    simp only [ahead, pushed_q, addQ]
    by_cases h0 : c = 0
    · simp [h0, aheadL]
    · simp only [h0, ite_false]; exact aheadL_cons_ne _ _ h0 (hne h0)
  | back =>
    simp only [ahead, pushed_q, addQ, List.reverse_append, List.reverse_cons, List.reverse_nil, List.nil_append,
      List.singleton_append]
    by_cases h0 : c = 0
    · simp [h0, aheadL]
    · simp only [h0, ite_false]; exact aheadL_cons_ne _ _ h0 (hne h0)

theorem ahead_setCursor (x : St) (key n : Nat) (d : End) (c : Nat) : ahead (x.setCursor key n) d c = ahead x d c := rfl

theorem ahead_sub {x : St} {d : End} {c : Nat} {p : Nat × Int} (h : p ∈ ahead x d c) : p ∈ x.q := by
  unfold ahead at h
  have := aheadL_sub h
  cases d
  · exact this
  · exact List.mem_reverse.1 this

/-- nothing unseen: a non-blocking iterator ends (io.EOF, cursor stays), a blocking one parks on an
    open deque and ends with ErrQueueClosed (an io.EOF) on a closed one -/
theorem iter_step_none (x : St) (d : End) (b : Bool) (k : Nat)
    (hc : x.cursor (cursorKey d b k) = 0 ∨ x.cursor (cursorKey d b k) ∈ x.ids)
    (ha : ahead x d (x.cursor (cursorKey d b k)) = []) :
    x.nbr d (x.cursor (cursorKey d b k)) = 0 ∧
    (b = false → startR x (.next d b k) = { st := x, fin := .ret .eof }) ∧
    (b = true → x.closed = true → (startR x (.next d b k)).fin = .ret .closed ∧ (startR x (.next d b k)).st = x) ∧
    (b = true → x.closed = false → (startR x (.next d b k)).fin = .park (iterCond d (x.cursor (cursorKey d b k))) ∧
      (startR x (.next d b k)).st = x) := by
  have hn : x.nbr d (x.cursor (cursorKey d b k)) = 0 := by rw [nbr_ahead x d _ hc, ha]; rfl
  refine ⟨hn, ?_, ?_, ?_⟩
  · intro hb; subst hb; simp [startR, hn, iterYield]
  · intro hb hcl; subst hb; simp [startR, hn, iterLoop, hcl]
  · intro hb hcl; subst hb; simp [startR, hn, iterLoop, hcl]

/-- something unseen: the call yields the item of the first unseen element, moves the cursor onto
    it, and what remains unseen is the rest -/
theorem iter_step_some (x : St) (h2 : Inv2 x) (h3 : Inv3 x) (d : End) (b : Bool) (k : Nat)
    (hc : x.cursor (cursorKey d b k) = 0 ∨ x.cursor (cursorKey d b k) ∈ x.ids)
    {e : Nat} {v : Int} {rest : List (Nat × Int)} (ha : ahead x d (x.cursor (cursorKey d b k)) = (e, v) :: rest) :
    startR x (.next d b k) = { st := x.setCursor (cursorKey d b k) e, fin := .ret (.val v) } ∧
    e ∈ x.ids ∧ ahead (x.setCursor (cursorKey d b k) e) d e = rest := by
  have hmem : (e, v) ∈ x.q := ahead_sub (by rw [ha]; exact List.mem_cons_self)
  have heids : e ∈ x.ids := List.mem_map.2 ⟨(e, v), hmem, rfl⟩
  have hepos : e ≠ 0 := by have := h3.ids_pos e heids; omega
  have hn : x.nbr d (x.cursor (cursorKey d b k)) = e := by rw [nbr_ahead x d _ hc, ha]; rfl
  have hval : x.valOf e = v := valOf_of_mem h3 (h3.q_vals _ hmem)
  refine ⟨?_, heids, ?_⟩
  · have h0 : (e == 0) = false := by simpa using hepos
    simp [startR, hn, h0, iterYield, hval]
  · rw [ahead_setCursor]
    unfold ahead at ha ⊢
    cases d with
    | front => exact aheadL_step (by simpa [St.ids] using h2.nodup) hepos ha
    | back =>
      refine aheadL_step ?_ hepos ha
      have : (x.q.reverse.map (·.1)) = x.ids.reverse := by simp [St.ids]
      rw [this]; exact nodup_reverse' h2.nodup

/-- `n` successive calls of iterator `k` (nothing else running): final state and what the calls returned -/
def iterRun (x : St) (d : End) (b : Bool) (k : Nat) : Nat → St × List FinR
  | 0 => (x, [])
  | n + 1 =>
    let o := startR x (.next d b k)
    let r := iterRun o.st d b k n
    (r.1, o.fin :: r.2)

/-- **completeness and order** (no interference): an iterator whose element is still linked yields
    exactly the unseen items, in iteration order, each once, leaves the deque as it was, and
    then has nothing unseen -/
theorem iterRun_ahead (d : End) (b : Bool) (k : Nat) (L : List (Nat × Int)) :
    ∀ (x : St), Inv2 x → Inv3 x →
      (x.cursor (cursorKey d b k) = 0 ∨ x.cursor (cursorKey d b k) ∈ x.ids) →
      ahead x d (x.cursor (cursorKey d b k)) = L →
      (iterRun x d b k L.length).2 = L.map (fun p => FinR.ret (.val p.2)) ∧
      abs (iterRun x d b k L.length).1 = abs x ∧
      ((iterRun x d b k L.length).1.cursor (cursorKey d b k) = 0 ∨
        (iterRun x d b k L.length).1.cursor (cursorKey d b k) ∈ (iterRun x d b k L.length).1.ids) ∧
      ahead (iterRun x d b k L.length).1 d ((iterRun x d b k L.length).1.cursor (cursorKey d b k)) = [] := by
  induction L with
  | nil => intro x _ _ hc ha; exact ⟨rfl, rfl, hc, ha⟩
  | cons p rest ih =>
    intro x h2 h3 hc ha
    obtain ⟨e, v⟩ := p
    obtain ⟨hstep, heids, hrest⟩ := iter_step_some x h2 h3 d b k hc ha
    have hst : (startR x (.next d b k)).st = x.setCursor (cursorKey d b k) e := by rw [hstep]
    have hfin : (startR x (.next d b k)).fin = .ret (.val v) := by rw [hstep]
    have h2' : Inv2 (x.setCursor (cursorKey d b k) e) := by rw [← hst]; exact startR_inv2 x h2 _
    have h3' : Inv3 (x.setCursor (cursorKey d b k) e) := by rw [← hst]; exact startR_inv3 x h2 h3 _
    have hcur : (x.setCursor (cursorKey d b k) e).cursor (cursorKey d b k) = e := setCursor_cursor_self _ _ _
    have hc' : (x.setCursor (cursorKey d b k) e).cursor (cursorKey d b k) = 0 ∨
        (x.setCursor (cursorKey d b k) e).cursor (cursorKey d b k) ∈ (x.setCursor (cursorKey d b k) e).ids := by
      rw [hcur]; exact Or.inr heids
    have ha' : ahead (x.setCursor (cursorKey d b k) e) d ((x.setCursor (cursorKey d b k) e).cursor (cursorKey d b k)) = rest := by
      rw [hcur]; exact hrest
    obtain ⟨i1, i2, i3, i4⟩ := ih _ h2' h3' hc' ha'
    simp only [List.length_cons, iterRun, hst, hfin, List.map_cons]
    exact ⟨by rw [i1], by rw [i2]; rfl, i3, i4⟩

/-! ## Safety under removal -/

/-- whatever an iterator call yields is the item of an element that a push created (and linked):
    never a value that was not in the deque, and the link it followed was not nil -/
theorem iter_yield_created (x : St) (h3 : Inv3 x) (d : End) (b : Bool) (k : Nat) (kc : Bool) (v : Int) :
    ((startR x (.next d b k)).fin = .ret (.val v) → ∃ e, e ≠ 0 ∧ (e, v) ∈ x.vals) ∧
    ((resumeR x (.next d b k) kc).fin = .ret (.val v) → ∃ e, e ≠ 0 ∧ (e, v) ∈ x.vals) := by
  have hy : ∀ key c, (iterYield x key d c).fin = .ret (.val v) → ∃ e, e ≠ 0 ∧ (e, v) ∈ x.vals := by
    intro key c h
    unfold iterYield at h
    by_cases hn : (x.nbr d c == 0) = true
    · simp [hn] at h
    · simp only [hn, Bool.false_eq_true, ite_false, FinR.ret.injEq, Res.val.injEq] at h
      have hne : x.nbr d c ≠ 0 := by simpa using hn
      rcases h3.nbr_valid d c with h0 | h0
      · exact absurd h0 hne
      · exact ⟨_, hne, by rw [← h]; exact mem_vals_of_key h3 h0⟩
  have hl : ∀ key kk pre, (iterLoop x key d kk pre).fin = .ret (.val v) → ∃ e, e ≠ 0 ∧ (e, v) ∈ x.vals := by
    intro key kk pre h
    unfold iterLoop at h
    by_cases hn : (x.nbr d (x.cursor key) == 0) = true
    · simp only [hn, ite_true] at h
      by_cases hc : x.closed = true
      · simp [hc] at h
      · by_cases hk : kk = true <;> simp [hc, hk] at h
    · simp only [hn, Bool.false_eq_true, ite_false] at h; exact hy _ _ h
  constructor
  · intro h
    simp only [startR] at h
    by_cases hn : (x.nbr d (x.cursor (cursorKey d b k)) == 0 && b) = true
    · simp only [hn, ite_true] at h; exact hl _ _ _ h
    · simp only [hn, Bool.false_eq_true, ite_false] at h; exact hy _ _ h
  · intro h
    cases b with
    | true => exact hl _ _ _ h
    | false => simp [resumeR] at h

/-- `vals` (the elements ever created) grows only by a successful push, with the pushed value, at
    the moment the new element is linked -/
theorem addEnd_vals (x : St) (d : End) (v : Int) :
    (addEnd x d v).1.vals = x.vals ∨
    ((addEnd x d v).1.vals = (x.nextId, v) :: x.vals ∧ (x.nextId, v) ∈ (addEnd x d v).1.q) := by
  by_cases hok : (addEnd x d v).2.1 = .ok
  · right
    rw [(addEnd_ok_eq hok).2.1]
    exact ⟨rfl, by cases d <;> simp [addQ]⟩
  · left; rw [addEnd_fail_eq x d v hok]

end FunModel.Deque
