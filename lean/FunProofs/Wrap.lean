import FunModel.Wrap

/-! Helper lemmas about the sequential wrapper semantics (C15). -/
namespace FunModel.Wrap

/-! ### Retry -/

/-- the result is a success: a nil error -/
def Res.succ : Res → Bool
  | .ret _ e => decide (e = [])
  | .panic _ => false

/-- `Worker.Retry` does not go on after this attempt -/
def stopsW : Res → Bool
  | .panic _ => true
  | .ret _ e => decide (e = []) || isExpired e || (!isSkip e && isTerminating e)

/-- `Producer.Retry` does not go on after this attempt -/
def stopsP : Res → Bool
  | .panic _ => true
  | .ret _ e => decide (e = []) || isTerminating e

theorem retryW_log (f : Mach) (dead : Bool) (arg : Int) :
    ∀ (i : Nat) (err : Err) (l : List Res) (s : f.σ) (w : World),
      ∃ new : List Res,
        (retryW (logged f) dead arg i err (l, s) w).st.1 = new ++ l ∧
        new.length ≤ i ∧
        (∀ r ∈ new.tail, stopsW r = false) ∧
        (new.length < i → ∃ r, new.head? = some r ∧ stopsW r = true) ∧
        (∀ r ∈ new, r.succ = true → (retryW (logged f) dead arg i err (l, s) w).res = .ret 0 []) := by
  intro i
  induction i with
  | zero => intro err l s w; exact ⟨[], by simp [retryW]⟩
  | succ i ih =>
    intro err l s w
    cases hres : (f.call s dead arg w).res with
    | panic p =>
      refine ⟨[.panic p], ?_⟩
      simp [retryW, logged, hres, stopsW, Res.succ]
    | ret v e =>
      by_cases he : e = []
      · refine ⟨[.ret v e], ?_⟩
        simp [retryW, logged, hres, he, stopsW, Res.succ]
      · by_cases hx : isExpired e = true
        · refine ⟨[.ret v e], ?_⟩
          simp [retryW, logged, hres, he, hx, stopsW, Res.succ]
        · by_cases hs : isSkip e = true
          · obtain ⟨new, h1, h2, h3, h4, h5⟩ := ih err (.ret v e :: l) (f.call s dead arg w).st (f.call s dead arg w).w
            refine ⟨new ++ [.ret v e], ?_, ?_, ?_, ?_, ?_⟩
            · simp [retryW, logged, hres, he, hx, hs] at h1 ⊢; simpa [logged] using h1
            · simp; omega
            · intro r hr
              cases new with
              | nil => simp at hr
              | cons a t =>
                simp at hr
                rcases hr with hr | hr
                · exact h3 r (by simpa using hr)
                · subst hr; simp [stopsW, he, hx, hs]
            · intro hlt
              have : new.length < i := by simp at hlt; omega
              obtain ⟨r, hr, hst⟩ := h4 this
              refine ⟨r, ?_, hst⟩
              cases new with
              | nil => simp at hr
              | cons a t => simpa using hr
            · intro r hr hsucc
              simp at hr
              rcases hr with hr | hr
              · have := h5 r hr hsucc
                simpa [retryW, logged, hres, he, hx, hs] using this
              · subst hr; simp [Res.succ, he] at hsucc
          · by_cases ht : isTerminating e = true
            · refine ⟨[.ret v e], ?_⟩
              simp [retryW, logged, hres, he, hx, hs, ht, stopsW, Res.succ]
            · obtain ⟨new, h1, h2, h3, h4, h5⟩ := ih (join [e, err]) (.ret v e :: l) (f.call s dead arg w).st (f.call s dead arg w).w
              refine ⟨new ++ [.ret v e], ?_, ?_, ?_, ?_, ?_⟩
              · simp [retryW, logged, hres, he, hx, hs, ht] at h1 ⊢; simpa [logged] using h1
              · simp; omega
              · intro r hr
                cases new with
                | nil => simp at hr
                | cons a t =>
                  simp at hr
                  rcases hr with hr | hr
                  · exact h3 r (by simpa using hr)
                  · subst hr; simp [stopsW, he, hx, hs, ht]
              · intro hlt
                have : new.length < i := by simp at hlt; omega
                obtain ⟨r, hr, hst⟩ := h4 this
                refine ⟨r, ?_, hst⟩
                cases new with
                | nil => simp at hr
                | cons a t => simpa using hr
              · intro r hr hsucc
                simp at hr
                rcases hr with hr | hr
                · have := h5 r hr hsucc
                  simpa [retryW, logged, hres, he, hx, hs, ht] using this
                · subst hr; simp [Res.succ, he] at hsucc

theorem retryP_log (f : Mach) (dead : Bool) (arg : Int) :
    ∀ (i : Nat) (err : Err) (l : List Res) (s : f.σ) (w : World),
      ∃ new : List Res,
        (retryP (logged f) dead arg i err (l, s) w).st.1 = new ++ l ∧
        new.length ≤ i ∧
        (∀ r ∈ new.tail, stopsP r = false) ∧
        (new.length < i → ∃ r, new.head? = some r ∧ stopsP r = true) ∧
        (∀ r ∈ new, r.succ = true → (retryP (logged f) dead arg i err (l, s) w).res = r) := by
  intro i
  induction i with
  | zero => intro err l s w; exact ⟨[], by simp [retryP]⟩
  | succ i ih =>
    intro err l s w
    cases hres : (f.call s dead arg w).res with
    | panic p =>
      refine ⟨[.panic p], ?_⟩
      simp [retryP, logged, hres, stopsP, Res.succ]
    | ret v e =>
      by_cases he : e = []
      · refine ⟨[.ret v e], ?_⟩
        simp [retryP, logged, hres, he, stopsP, Res.succ]
      · by_cases ht : isTerminating e = true
        · refine ⟨[.ret v e], ?_⟩
          simp [retryP, logged, hres, he, ht, stopsP, Res.succ]
        · have key : ∀ err', ∃ new : List Res,
              (retryP (logged f) dead arg i err' (.ret v e :: l, (f.call s dead arg w).st) (f.call s dead arg w).w).st.1 = new ++ (.ret v e :: l) ∧
              new.length ≤ i ∧ (∀ r ∈ new.tail, stopsP r = false) ∧
              (new.length < i → ∃ r, new.head? = some r ∧ stopsP r = true) ∧
              (∀ r ∈ new, r.succ = true →
                (retryP (logged f) dead arg i err' (.ret v e :: l, (f.call s dead arg w).st) (f.call s dead arg w).w).res = r) :=
            fun err' => ih err' (.ret v e :: l) _ _
          by_cases hs : isSkip e = true
          · obtain ⟨new, h1, h2, h3, h4, h5⟩ := key err
            refine ⟨new ++ [.ret v e], ?_, ?_, ?_, ?_, ?_⟩
            · simp [retryP, logged, hres, he, ht, hs] at h1 ⊢; simpa [logged] using h1
            · simp; omega
            · intro r hr
              cases new with
              | nil => simp at hr
              | cons a t =>
                simp at hr
                rcases hr with hr | hr
                · exact h3 r (by simpa using hr)
                · subst hr; simp [stopsP, he, ht]
            · intro hlt
              have : new.length < i := by simp at hlt; omega
              obtain ⟨r, hr, hst⟩ := h4 this
              refine ⟨r, ?_, hst⟩
              cases new with
              | nil => simp at hr
              | cons a t => simpa using hr
            · intro r hr hsucc
              simp at hr
              rcases hr with hr | hr
              · have := h5 r hr hsucc
                simpa [retryP, logged, hres, he, ht, hs] using this
              · subst hr; simp [Res.succ, he] at hsucc
          · obtain ⟨new, h1, h2, h3, h4, h5⟩ := key (join [e, err])
            refine ⟨new ++ [.ret v e], ?_, ?_, ?_, ?_, ?_⟩
            · simp [retryP, logged, hres, he, ht, hs] at h1 ⊢; simpa [logged] using h1
            · simp; omega
            · intro r hr
              cases new with
              | nil => simp at hr
              | cons a t =>
                simp at hr
                rcases hr with hr | hr
                · exact h3 r (by simpa using hr)
                · subst hr; simp [stopsP, he, ht]
            · intro hlt
              have : new.length < i := by simp at hlt; omega
              obtain ⟨r, hr, hst⟩ := h4 this
              refine ⟨r, ?_, hst⟩
              cases new with
              | nil => simp at hr
              | cons a t => simpa using hr
            · intro r hr hsucc
              simp at hr
              rcases hr with hr | hr
              · have := h5 r hr hsucc
                simpa [retryP, logged, hres, he, ht, hs] using this
              · subst hr; simp [Res.succ, he] at hsucc

/-! ### call sequences -/

def ncalls : List CallOp → Nat
  | [] => 0
  | .call _ :: r => ncalls r + 1
  | .callDead _ :: r => ncalls r + 1
  | _ :: r => ncalls r

/-- generic induction principle for `runOps`: an invariant `I st acc` of the private state and the
    results so far that every call and every `cancel` preserves holds at the end -/
theorem runOps_inv (m : Mach) (I : m.σ → List Res → Prop)
    (hcall : ∀ st acc d a w, I st acc → I (m.call st d a w).st ((m.call st d a w).res :: acc))
    (hcancel : ∀ st acc, I st acc → I (m.cancel st) acc) :
    ∀ (ops : List CallOp) (st : m.σ) (w : World) (acc : List Res), I st acc →
      I (runOps m st w ops acc).2.1 (runOps m st w ops acc).1.reverse := by
  intro ops
  induction ops with
  | nil => intro st w acc h; simpa [runOps] using h
  | cons op ops ih =>
    intro st w acc h
    cases op with
    | call a => simp only [runOps]; exact ih _ _ _ (hcall st acc false a w h)
    | callDead a => simp only [runOps]; exact ih _ _ _ (hcall st acc true a w h)
    | cancel => simp only [runOps]; exact ih _ _ _ h
    | wcancel => simp only [runOps]; exact ih _ _ _ (hcancel st acc h)

theorem runOps_length (m : Mach) : ∀ (ops : List CallOp) (st : m.σ) (w : World) (acc : List Res),
    (runOps m st w ops acc).1.length = acc.length + ncalls ops := by
  intro ops
  induction ops with
  | nil => intro st w acc; simp [runOps, ncalls]
  | cons op ops ih =>
    intro st w acc
    cases op <;> simp only [runOps, ncalls] <;> rw [ih] <;> simp <;> omega

/-! ### Once, sequentially -/

/-- invariant of `once k (logged f)`: nothing executed before the Once fired, exactly one execution
    after, whose result (if it returned) is what the closure captured; every result handed out so far
    is that captured value -/
def OnceInv (k : Kind) (f : Mach) (st : (once k (logged f)).σ) (acc : List Res) : Prop :=
  (st.1.fired = false → st.2.1 = [] ∧ acc = []) ∧
  (st.1.fired = true → ∃ r, st.2.1 = [r] ∧ acc ≠ [] ∧
      (∀ v e, r = .ret v e → st.1.cache = k.cache (.ret v e) ∧ ∀ x ∈ acc, x = k.cache (.ret v e)))

theorem once_inv_call (k : Kind) (f : Mach) (st : (once k (logged f)).σ) (acc : List Res) (d : Bool) (a : Int) (w : World)
    (h : OnceInv k f st acc) :
    OnceInv k f ((once k (logged f)).call st d a w).st (((once k (logged f)).call st d a w).res :: acc) := by
  obtain ⟨o, l, s⟩ := st
  obtain ⟨h0, h1⟩ := h
  by_cases hf : o.fired = true
  · obtain ⟨r, hl, hne, hr⟩ := h1 hf
    simp only at hl
    refine ⟨by simp [once, hf], fun _ => ⟨r, ?_, by simp, ?_⟩⟩
    · simp [once, hf, hl]
    · intro v e hre
      obtain ⟨hc, hall⟩ := hr v e hre
      simp only at hc
      refine ⟨by simpa [once, hf] using hc, ?_⟩
      intro x hx
      simp [once, hf] at hx
      rcases hx with hx | hx
      · rw [hx]; exact hc
      · exact hall x hx
  · have hf' : o.fired = false := by simpa using hf
    obtain ⟨hl, hacc⟩ := h0 hf'
    simp only at hl
    subst hacc
    cases hres : (f.call s d a w).res with
    | panic p =>
      refine ⟨by simp [once, hf', logged, hres], fun _ => ⟨.panic p, ?_, by simp, ?_⟩⟩
      · simp [once, hf', logged, hres, hl]
      · intro v e hre; cases hre
    | ret v e =>
      refine ⟨by simp [once, hf', logged, hres], fun _ => ⟨.ret v e, ?_, by simp, ?_⟩⟩
      · simp [once, hf', logged, hres, hl]
      · intro v' e' hre
        cases hre
        simp [once, hf', logged, hres]

theorem once_inv_cancel (k : Kind) (f : Mach) (st : (once k (logged f)).σ) (acc : List Res)
    (h : OnceInv k f st acc) : OnceInv k f ((once k (logged f)).cancel st) acc := by
  obtain ⟨o, l, s⟩ := st
  simpa [OnceInv, once, logged] using h

theorem once_inv_run (k : Kind) (f : Mach) (script : List Step) (ops : List CallOp) :
    OnceInv k f (run (once k (logged f)) script ops).2.1 (run (once k (logged f)) script ops).1.reverse := by
  unfold run
  apply runOps_inv (once k (logged f)) (OnceInv k f) (once_inv_call k f) (once_inv_cancel k f)
  simp [OnceInv, once, logged]

/-! ### limitExec, sequentially -/

def Res.isRet : Res → Bool
  | .ret _ _ => true
  | .panic _ => false

/-- results of the executions that returned, latest first -/
def completed (log : List Res) : List Res := log.filter Res.isRet

/-- invariant of `limit n (logged f)` after `acc.length` calls: the counter is the number of completed
    executions, never above n; the cached output is the latest completed execution's result;
    while the counter is below n every call executed the function -/
def LimInv (n : Nat) (f : Mach) (st : (limit n (logged f)).σ) (acc : List Res) : Prop :=
  st.1.counter = (completed st.2.1).length ∧ st.1.counter ≤ n ∧
  (completed st.2.1).head?.getD .zero = st.1.output ∧
  st.2.1.length ≤ acc.length ∧ (st.1.counter < n → st.2.1.length = acc.length)

@[simp] theorem isRet_ret (v : Int) (e : Err) : (Res.ret v e).isRet = true := rfl
@[simp] theorem isRet_panic (p : Err) : (Res.panic p).isRet = false := rfl

theorem lim_inv_call (n : Nat) (f : Mach) (st : (limit n (logged f)).σ) (acc : List Res) (d : Bool) (a : Int) (w : World)
    (h : LimInv n f st acc) :
    LimInv n f ((limit n (logged f)).call st d a w).st (((limit n (logged f)).call st d a w).res :: acc) := by
  obtain ⟨l, log, s⟩ := st
  obtain ⟨h1, h2, h3, h4, h5⟩ := h
  simp only at h1 h2 h3 h4 h5
  by_cases hc : l.counter = n
  · have hcall : (limit n (logged f)).call (l, log, s) d a w = { res := l.output, st := (l, log, s), w := w } := by
      simp [limit, hc]
    rw [hcall]
    exact ⟨h1, h2, h3, by simp; omega, by simp; omega⟩
  · have hlt : l.counter < n := by omega
    have hb : (l.counter == n) = false := by simpa using hc
    cases hres : (f.call s d a w).res with
    | panic p =>
      have hcall : (limit n (logged f)).call (l, log, s) d a w =
          { res := .panic p, st := (l, .panic p :: log, (f.call s d a w).st), w := (f.call s d a w).w } := by
        simp [limit, logged, hb, hlt, hres]
      rw [hcall]
      refine ⟨by simpa [completed] using h1, h2, by simpa [completed] using h3, ?_, ?_⟩
      · simp; omega
      · intro _; simp; omega
    | ret v e =>
      have hcall : (limit n (logged f)).call (l, log, s) d a w =
          { res := .ret v e, st := ({ counter := min n (l.counter + 1), output := .ret v e }, .ret v e :: log, (f.call s d a w).st),
            w := (f.call s d a w).w } := by
        simp [limit, logged, hb, hlt, hres]
      rw [hcall]
      have hmin : min n (l.counter + 1) = l.counter + 1 := by omega
      refine ⟨?_, ?_, by simp [completed, List.find?_cons], ?_, ?_⟩
      · simp only [hmin, completed, List.filter_cons, isRet_ret, if_true, List.length_cons]
        simpa [completed] using h1
      · simp only [hmin]; omega
      · simp; omega
      · intro _; simp; omega

theorem lim_inv_cancel (n : Nat) (f : Mach) (st : (limit n (logged f)).σ) (acc : List Res)
    (h : LimInv n f st acc) : LimInv n f ((limit n (logged f)).cancel st) acc := by
  obtain ⟨l, log, s⟩ := st
  simpa [LimInv, limit, logged] using h

theorem lim_inv_run (n : Nat) (f : Mach) (script : List Step) (ops : List CallOp) :
    LimInv n f (run (limit n (logged f)) script ops).2.1 (run (limit n (logged f)) script ops).1.reverse := by
  unfold run
  apply runOps_inv (limit n (logged f)) (LimInv n f) (lim_inv_call n f) (lim_inv_cancel n f)
  simp [LimInv, limit, logged, completed]

/-- once the counter has reached n, calls return the cached output and execute nothing -/
theorem lim_saturated (n : Nat) (f : Mach) : ∀ (ops : List CallOp) (st : (limit n (logged f)).σ) (w : World) (acc : List Res),
    st.1.counter = n →
    (runOps (limit n (logged f)) st w ops acc).1 = acc.reverse ++ List.replicate (ncalls ops) st.1.output ∧
    (runOps (limit n (logged f)) st w ops acc).2.1.1 = st.1 ∧
    (runOps (limit n (logged f)) st w ops acc).2.1.2.1 = st.2.1 := by
  intro ops
  induction ops with
  | nil => intro st w acc _; simp [runOps, ncalls]
  | cons op ops ih =>
    intro st w acc hc
    obtain ⟨l, log, s⟩ := st
    simp only at hc
    cases op with
    | call a =>
      have := ih ((limit n (logged f)).call (l, log, s) false a w).st ((limit n (logged f)).call (l, log, s) false a w).w
        (((limit n (logged f)).call (l, log, s) false a w).res :: acc) (by simp [limit, hc])
      simp only [runOps, ncalls]
      simp [limit, hc] at this ⊢
      obtain ⟨t1, t2, t3⟩ := this
      refine ⟨?_, t2, t3⟩
      rw [t1]; simp [List.replicate_succ]
    | callDead a =>
      have := ih ((limit n (logged f)).call (l, log, s) true a w).st ((limit n (logged f)).call (l, log, s) true a w).w
        (((limit n (logged f)).call (l, log, s) true a w).res :: acc) (by simp [limit, hc])
      simp only [runOps, ncalls]
      simp [limit, hc] at this ⊢
      obtain ⟨t1, t2, t3⟩ := this
      refine ⟨?_, t2, t3⟩
      rw [t1]; simp [List.replicate_succ]
    | cancel => simp only [runOps, ncalls]; exact ih _ _ _ hc
    | wcancel =>
      simp only [runOps, ncalls]
      have := ih ((limit n (logged f)).cancel (l, log, s)) w acc (by simp [limit, hc])
      simpa [limit, logged] using this

/-! ### order of parts and hooks (trace semantics) -/

/-- a function only ever appends to the trace -/
def Mach.Extends (f : Mach) : Prop := ∀ s d a w, ∃ evs, (f.call s d a w).w.trace = evs ++ w.trace

theorem probe_call (k : Nat) (f : Mach) (hf : f.Extends) (s : f.σ) (d : Bool) (a : Int) (w : World) :
    ∃ evs, ((probe k f).call s d a w).w.trace = .ret k ((probe k f).call s d a w).res :: (evs ++ .call k :: w.trace) := by
  obtain ⟨evs, h⟩ := hf s d a { w with trace := .call k :: w.trace }
  exact ⟨evs, by simp [probe, h]⟩

theorem base_extends (k : Kind) (id : Nat) : (base k id).Extends := by
  intro s d a w
  exact ⟨[.fnret id (k.proj (popScript w).1.res), .fn id (if k.hasArg then a else 0)], by simp [base]⟩

/-- does a PreHook of this kind convert a panicking hook into an error (and go on)? -/
def Kind.recovers : Kind → Bool
  | .worker | .processor | .producer => true
  | _ => false

def Res.isPanic : Res → Bool
  | .panic _ => true
  | .ret _ _ => false

theorem preHook_trace (k : Kind) (f h : Mach) (hf : f.Extends) (hh : h.Extends) (a b : Nat)
    (s : f.σ) (t : h.σ) (d : Bool) (arg : Int) (w : World) :
    ∃ evh rh, (if rh.isPanic && !k.recovers then
        ((preHook k (probe a f) (probe b h)).call (s, t) d arg w).w.trace = .ret b rh :: (evh ++ .call b :: w.trace) ∧
        ((preHook k (probe a f) (probe b h)).call (s, t) d arg w).res = rh
      else ∃ evf rf,
        ((preHook k (probe a f) (probe b h)).call (s, t) d arg w).w.trace =
          .ret a rf :: (evf ++ .call a :: .ret b rh :: (evh ++ .call b :: w.trace))) := by
  obtain ⟨evh, hq⟩ := probe_call b h hh t d arg w
  obtain ⟨evf, hr⟩ := probe_call a f hf s d arg ((probe b h).call t d arg w).w
  refine ⟨evh, ((probe b h).call t d arg w).res, ?_⟩
  cases hres : ((probe b h).call t d arg w).res with
  | panic p =>
    cases k <;> simp only [Res.isPanic, Kind.recovers, Bool.true_and, Bool.not_true, Bool.not_false, if_true, if_false,
      Bool.false_eq_true]
    · refine ⟨evf, ((probe a f).call s d arg ((probe b h).call t d arg w).w).res, ?_⟩
      simp only [preHook]; rw [hq, hres] at hr
      cases hfr : ((probe a f).call s d arg ((probe b h).call t d arg w).w).res <;> simp [hfr, hr]
    · simp [preHook, hres, hq]
    · refine ⟨evf, ((probe a f).call s d arg ((probe b h).call t d arg w).w).res, ?_⟩
      simp only [preHook]; rw [hq, hres] at hr
      cases hfr : ((probe a f).call s d arg ((probe b h).call t d arg w).w).res <;> simp [hfr, hr]
    · refine ⟨evf, ((probe a f).call s d arg ((probe b h).call t d arg w).w).res, ?_⟩
      simp only [preHook]; rw [hq, hres] at hr
      cases hfr : ((probe a f).call s d arg ((probe b h).call t d arg w).w).res <;> simp [hfr, hr]
    · simp [preHook, hres, hq]
    · simp [preHook, hres, hq]
  | ret v e =>
    simp only [Res.isPanic, Bool.false_and, if_false, Bool.false_eq_true]
    refine ⟨evf, ((probe a f).call s d arg ((probe b h).call t d arg w).w).res, ?_⟩
    rw [hq, hres] at hr
    cases k <;> simp only [preHook] <;>
      cases hfr : ((probe a f).call s d arg ((probe b h).call t d arg w).w).res <;> simp [hfr, hr, hres]

theorem postHook_trace (k : Kind) (f h : Mach) (hf : f.Extends) (hh : h.Extends) (a b : Nat)
    (s : f.σ) (t : h.σ) (d : Bool) (arg : Int) (w : World) :
    ∃ evf rf, (if rf.isPanic && k.recovers then
        ((postHook k (probe a f) (probe b h)).call (s, t) d arg w).w.trace = .ret a rf :: (evf ++ .call a :: w.trace) ∧
        ((postHook k (probe a f) (probe b h)).call (s, t) d arg w).res = rf
      else ∃ evh rh,
        ((postHook k (probe a f) (probe b h)).call (s, t) d arg w).w.trace =
          .ret b rh :: (evh ++ .call b :: .ret a rf :: (evf ++ .call a :: w.trace))) := by
  obtain ⟨evf, hr⟩ := probe_call a f hf s d arg w
  obtain ⟨evh, hq⟩ := probe_call b h hh t d arg ((probe a f).call s d arg w).w
  refine ⟨evf, ((probe a f).call s d arg w).res, ?_⟩
  cases hres : ((probe a f).call s d arg w).res with
  | panic p =>
    rw [hr, hres] at hq
    cases k <;> simp only [Res.isPanic, Kind.recovers, Bool.true_and, Bool.not_true, Bool.not_false, if_true, if_false,
      Bool.false_eq_true]
    · simp [postHook, hres, hr]
    · refine ⟨evh, ((probe b h).call t d arg ((probe a f).call s d arg w).w).res, ?_⟩
      simp only [postHook]
      cases hhr : ((probe b h).call t d arg ((probe a f).call s d arg w).w).res <;> simp [hhr, hq, hres]
    · simp [postHook, hres, hr]
    · simp [postHook, hres, hr]
    · refine ⟨evh, ((probe b h).call t d arg ((probe a f).call s d arg w).w).res, ?_⟩
      simp only [postHook]
      cases hhr : ((probe b h).call t d arg ((probe a f).call s d arg w).w).res <;> simp [hhr, hq, hres]
    · refine ⟨evh, ((probe b h).call t d arg ((probe a f).call s d arg w).w).res, ?_⟩
      simp only [postHook]
      cases hhr : ((probe b h).call t d arg ((probe a f).call s d arg w).w).res <;> simp [hhr, hq, hres]
  | ret v e =>
    simp only [Res.isPanic, Bool.false_and, if_false, Bool.false_eq_true]
    refine ⟨evh, ((probe b h).call t d arg ((probe a f).call s d arg w).w).res, ?_⟩
    rw [hr, hres] at hq
    cases k <;> simp only [postHook] <;>
      cases hhr : ((probe b h).call t d arg ((probe a f).call s d arg w).w).res <;> simp [hhr, hq, hres]

/-- `Worker.Join` / `Processor.Join` of two parts: the second part runs after the first, and only
    if the first returned nil and the context is still live at that moment -/
theorem mergeW_trace (f g : Mach) (hf : f.Extends) (hg : g.Extends) (a b : Nat)
    (s : f.σ) (t : g.σ) (d : Bool) (arg : Int) (w : World) :
    ∃ evf, let o := (mergeW (probe a f) (probe b g)).call (s, t) d arg w
      let r := (probe a f).call s d arg w
      let tf := Ev.ret a r.res :: (evf ++ .call a :: w.trace)
      match r.res with
      | .panic p => o.w.trace = tf ∧ o.res = .panic p ∧ o.st.2 = t
      | .ret _ e =>
        if e ≠ [] then o.w.trace = tf ∧ o.res = .ret 0 e ∧ o.st.2 = t
        else if done d r.w then o.w.trace = tf ∧ o.res = .zero ∧ o.st.2 = t
        else ∃ evg, o.w.trace = .ret b o.res :: (evg ++ .call b :: tf) := by
  obtain ⟨evf, hr⟩ := probe_call a f hf s d arg w
  obtain ⟨evg, hq⟩ := probe_call b g hg t d arg ((probe a f).call s d arg w).w
  refine ⟨evf, ?_⟩
  simp only
  cases hres : ((probe a f).call s d arg w).res with
  | panic p => simp [mergeW, hres, hr]; rfl
  | ret v e =>
    by_cases he : e = []
    · by_cases hd : done d ((probe a f).call s d arg w).w = true
      · simp [mergeW, hres, he, hd, hr, Res.zero]; rfl
      · simp only [he, ne_eq, not_true_eq_false, if_false, hd, Bool.false_eq_true]
        refine ⟨evg, ?_⟩
        rw [hr, hres, he] at hq
        simp [mergeW, hres, he, hd, hq]
    · simp [mergeW, hres, he, hr]; rfl

/-- `Operation.Join` of two parts: the second runs after the first unless the context is done -/
theorem mergeO_trace (f g : Mach) (hf : f.Extends) (hg : g.Extends) (a b : Nat)
    (s : f.σ) (t : g.σ) (d : Bool) (arg : Int) (w : World) :
    ∃ evf, let o := (mergeO (probe a f) (probe b g)).call (s, t) d arg w
      let r := (probe a f).call s d arg w
      let tf := Ev.ret a r.res :: (evf ++ .call a :: w.trace)
      match r.res with
      | .panic p => o.w.trace = tf ∧ o.res = .panic p ∧ o.st.2 = t
      | .ret _ _ =>
        if done d r.w then o.w.trace = tf ∧ o.res = .zero ∧ o.st.2 = t
        else ∃ evg rg, o.w.trace = .ret b rg :: (evg ++ .call b :: tf) := by
  obtain ⟨evf, hr⟩ := probe_call a f hf s d arg w
  obtain ⟨evg, hq⟩ := probe_call b g hg t d arg ((probe a f).call s d arg w).w
  refine ⟨evf, ?_⟩
  simp only
  cases hres : ((probe a f).call s d arg w).res with
  | panic p => simp [mergeO, hres, hr]; rfl
  | ret v e =>
    by_cases hd : done d ((probe a f).call s d arg w).w = true
    · simp [mergeO, hres, hd, hr, Res.zero]; rfl
    · simp only [hd, Bool.false_eq_true, if_false]
      refine ⟨evg, ((probe b g).call t d arg ((probe a f).call s d arg w).w).res, ?_⟩
      rw [hr, hres] at hq
      cases hgr : ((probe b g).call t d arg ((probe a f).call s d arg w).w).res <;> simp [mergeO, hres, hd, hq, hgr]

/-- `Handler.Join` (`of(in); next(in)`, also `Handler.PreHook(prev) = prev.Join(of)`): both parts run,
    in order, unless the first panics -/
theorem mergeH_trace (f g : Mach) (hf : f.Extends) (hg : g.Extends) (a b : Nat)
    (s : f.σ) (t : g.σ) (d : Bool) (arg : Int) (w : World) :
    ∃ evf, let o := (mergeH (probe a f) (probe b g)).call (s, t) d arg w
      let r := (probe a f).call s d arg w
      let tf := Ev.ret a r.res :: (evf ++ .call a :: w.trace)
      match r.res with
      | .panic p => o.w.trace = tf ∧ o.res = .panic p
      | .ret _ _ => ∃ evg rg, o.w.trace = .ret b rg :: (evg ++ .call b :: tf) := by
  obtain ⟨evf, hr⟩ := probe_call a f hf s d arg w
  obtain ⟨evg, hq⟩ := probe_call b g hg t d arg ((probe a f).call s d arg w).w
  refine ⟨evf, ?_⟩
  simp only
  cases hres : ((probe a f).call s d arg w).res with
  | panic p => simp [mergeH, hres, hr]
  | ret v e =>
    refine ⟨evg, ((probe b g).call t d arg ((probe a f).call s d arg w).w).res, ?_⟩
    rw [hr, hres] at hq
    cases hgr : ((probe b g).call t d arg ((probe a f).call s d arg w).w).res <;> simp [mergeH, hres, hq, hgr]

/-- one step of `Future.Join(merge, ops...)`: `out = merge(out, op())` evaluates the parts in order -/
theorem mergeF_trace (f g : Mach) (hf : f.Extends) (hg : g.Extends) (a b : Nat)
    (s : f.σ) (t : g.σ) (d : Bool) (arg : Int) (w : World) :
    ∃ evf, let o := (mergeF (probe a f) (probe b g)).call (s, t) d arg w
      let r := (probe a f).call s d arg w
      let tf := Ev.ret a r.res :: (evf ++ .call a :: w.trace)
      match r.res with
      | .panic p => o.w.trace = tf ∧ o.res = .panic p
      | .ret _ _ => ∃ evg rg, o.w.trace = .ret b rg :: (evg ++ .call b :: tf) := by
  obtain ⟨evf, hr⟩ := probe_call a f hf s d arg w
  obtain ⟨evg, hq⟩ := probe_call b g hg t d arg ((probe a f).call s d arg w).w
  refine ⟨evf, ?_⟩
  simp only
  cases hres : ((probe a f).call s d arg w).res with
  | panic p => simp [mergeF, hres, hr]
  | ret v e =>
    refine ⟨evg, ((probe b g).call t d arg ((probe a f).call s d arg w).w).res, ?_⟩
    rw [hr, hres] at hq
    cases hgr : ((probe b g).call t d arg ((probe a f).call s d arg w).w).res <;> simp [mergeF, hres, hq, hgr]

/-- `Producer.Join`: the stage never goes back (first producer, then the second, then exhausted), and
    once the first producer is done (any stage but 0) a call does not touch it any more -/
theorem pjoinSecond_stage (g : Mach) (d : Bool) (arg : Int) : ∀ (fuel : Nat) (j : PJoinSt) (t : g.σ) (w : World),
    j.stage ≤ (pjoinSecond g d arg fuel j t w).st.1.stage ∨ (pjoinSecond g d arg fuel j t w).st.1.stage ≥ 3 := by
  intro fuel
  induction fuel with
  | zero => intro j t w; simp [pjoinSecond]
  | succ fuel ih =>
    intro j t w
    simp only [pjoinSecond]
    cases (g.call t d arg w).res with
    | panic p => simp
    | ret v e =>
      simp only
      split
      · simp
      · split
        · exact ih _ _ _
        · split <;> simp

theorem joinP_first_untouched (f g : Mach) (j : PJoinSt) (s : f.σ) (t : g.σ) (d : Bool) (arg : Int) (w : World)
    (h : j.stage ≠ 0) : ((joinP f g).call (j, s, t) d arg w).st.2.1 = s := by
  by_cases h3 : j.stage = 3
  · simp [joinP, h3]
  · by_cases h1 : j.stage = 1
    · simp [joinP, h1]
    · by_cases h2 : j.stage = 2
      · simp [joinP, h2]
      · simp [joinP, h, h1, h2, h3]

end FunModel.Wrap
