import FunProofs.DequeSys

/-! Wake-up theory of the Deque model (C07, C20): which condition an operation waits on, when it
    parks, which signals each segment emits, and the system invariant "a parked goroutine whose
    condition holds has a wake-up on its way". Core Lean only. -/

namespace FunModel.Deque
open FunModel.Conc

/-! ## When an operation parks, and on what -/

/-- the condition variable a blocking operation parks on (for an iterator it depends on where its
    cursor stands) -/
def condOf (x : St) : Op → Option Nat
  | .wait d => some d.cond
  | .wpush _ _ => some 2
  | .next d true k => some (iterCond d (x.cursor (cursorKey d true k)))
  | _ => none

/-- the loop test of the three blocking operations: `true` = the goroutine calls `cond.Wait` -/
def parks (x : St) (op : Op) (k : Bool) : Bool :=
  match op with
  | .wait _ => x.q.isEmpty && !x.closed && !k
  | .wpush _ _ => !x.tracker.hasRoom && !x.closed && !k
  | .next d true key => (x.nbr d (x.cursor (cursorKey d true key)) == 0) && !x.closed && !k
  | _ => false

/-- the operation's condition holds: resumed, it would return -/
def Ready (x : St) (op : Op) (k : Bool) : Prop := parks x op k = false

theorem End.cond_le (d : End) : d.cond ≤ 1 := by cases d <;> simp [End.cond]
theorem iterCond_le (d : End) (c : Nat) : iterCond d c ≤ 1 := by
  unfold iterCond; split <;> exact End.cond_le _

theorem condOf_le {x : St} {op : Op} {c : Nat} (h : condOf x op = some c) : c ≤ 2 := by
  cases op with
  | wait d => simp only [condOf, Option.some.injEq] at h; subst h; have := End.cond_le d; omega
  | wpush d v => simp only [condOf, Option.some.injEq] at h; omega
  | next d b k =>
    cases b with
    | true => simp only [condOf, Option.some.injEq] at h; subst h; have := iterCond_le d (x.cursor (cursorKey d true k)); omega
    | false => simp [condOf] at h
  | push d v => simp [condOf] at h
  | fpush d v => simp [condOf] at h
  | pop d => simp [condOf] at h
  | len => simp [condOf] at h
  | close => simp [condOf] at h

/-- a resumed operation parks iff its loop test says so; then it is on its condition, the state
    is untouched and — the quirk D28 — it has signalled that very condition first -/
theorem resumeR_park_iff (x : St) (op : Op) (k : Bool) (c : Nat) :
    (resumeR x op k).fin = .park c ↔ parks x op k = true ∧ condOf x op = some c := by
  cases op with
  | wait d =>
    constructor
    · intro h
      obtain ⟨h1, h2, h3, h4, _⟩ := waitPopLoop_park_eq (by simpa [resumeR] using h)
      simp [parks, condOf, h1, h2, h3, h4]
    · intro ⟨h, hc⟩
      simp only [parks, Bool.and_eq_true, Bool.not_eq_true', condOf, Option.some.injEq] at h hc
      simp [resumeR, waitPopLoop, h.1.1, h.1.2, h.2, hc]
  | wpush d v =>
    constructor
    · intro h
      obtain ⟨h1, h2, h3, h4, _⟩ := waitPushLoop_park_eq (by simpa [resumeR] using h)
      simp [parks, condOf, h1, h2, h3, h4]
    · intro ⟨h, hc⟩
      simp only [parks, Bool.and_eq_true, Bool.not_eq_true', condOf, Option.some.injEq] at h hc
      simp [resumeR, waitPushLoop, h.1.1, h.1.2, h.2, hc]
  | next d b key =>
    cases b with
    | false => simp [resumeR, parks]
    | true =>
      constructor
      · intro h
        obtain ⟨h1, h2, h3, h4, _⟩ := iterLoop_park_eq (by simpa [resumeR] using h)
        simp [parks, condOf, h1, h2, h3, h4]
      · intro ⟨h, hc⟩
        simp only [parks, Bool.and_eq_true, Bool.not_eq_true', condOf, Option.some.injEq] at h hc
        simp [resumeR, iterLoop, h.1.1, h.1.2, h.2, hc]
  | push d v => simp [resumeR, parks]
  | fpush d v => simp [resumeR, parks]
  | pop d => simp [resumeR, parks]
  | len => simp [resumeR, parks]
  | close => simp [resumeR, parks]

theorem resumeR_park_shape {x : St} {op : Op} {k : Bool} {c : Nat} (h : (resumeR x op k).fin = .park c) :
    resumeR x op k = { st := x, sigs := [.signal c], fin := .park c } ∧ k = false := by
  cases op with
  | wait d =>
    obtain ⟨_, _, h3, h4, h5⟩ := waitPopLoop_park_eq (by simpa [resumeR] using h)
    subst h4; subst h3; simp only [resumeR, h5]; simp
  | wpush d v =>
    obtain ⟨_, _, h3, h4, h5⟩ := waitPushLoop_park_eq (by simpa [resumeR] using h)
    subst h4; subst h3; simp only [resumeR, h5]; simp
  | next d b key =>
    cases b with
    | false => simp [resumeR] at h
    | true =>
      obtain ⟨_, _, h3, h4, h5⟩ := iterLoop_park_eq (by simpa [resumeR] using h)
      subst h4; subst h3; simp only [resumeR, h5]; simp
  | push d v => simp [resumeR] at h
  | fpush d v => simp [resumeR] at h
  | pop d => simp [resumeR] at h
  | len => simp [resumeR] at h
  | close => simp [resumeR] at h

/-- the first segment of an operation parks iff its loop test (with a live context) says so; it
    has started its helper for the condition and signalled the condition -/
theorem startR_park_shape {x : St} {op : Op} {c : Nat} (h : (startR x op).fin = .park c) :
    startR x op = { st := x, sigs := [.spawn c, .signal c], fin := .park c } ∧
      parks x op false = true ∧ condOf x op = some c := by
  cases op with
  | wait d =>
    simp only [startR] at h ⊢
    by_cases hcl : x.closed = true
    · simp [hcl] at h
    · simp only [hcl, Bool.false_eq_true, ite_false] at h ⊢
      by_cases he : x.q.isEmpty = true
      · simp only [he, ite_true] at h ⊢
        obtain ⟨_, h2, _, h4, h5⟩ := waitPopLoop_park_eq h
        subst h4
        simp [h5, parks, condOf, he, h2]
      · simp only [he, Bool.false_eq_true, ite_false] at h
        obtain ⟨h1, _⟩ := waitPopLoop_park_eq h
        exact absurd h1 he
  | wpush d v =>
    simp only [startR] at h ⊢
    by_cases hr : x.tracker.hasRoom = true
    · simp only [hr, ite_true] at h
      rcases hae : addEnd x d v with ⟨s', r, sg⟩
      rw [hae] at h; simp at h
    · simp only [hr, Bool.false_eq_true, ite_false] at h ⊢
      obtain ⟨h1, h2, _, h4, h5⟩ := waitPushLoop_park_eq h
      subst h4
      simp [h5, parks, condOf, h1, h2]
  | next d b key =>
    simp only [startR] at h ⊢
    by_cases hn : (x.nbr d (x.cursor (cursorKey d b key)) == 0 && b) = true
    · simp only [hn, ite_true] at h ⊢
      simp only [Bool.and_eq_true] at hn
      obtain ⟨hn1, hb⟩ := hn
      subst hb
      obtain ⟨h1, h2, _, h4, h5⟩ := iterLoop_park_eq h
      subst h4
      simp [h5, parks, condOf, h1, h2]
    · simp only [hn, Bool.false_eq_true, ite_false] at h
      exact absurd h (iterYield_not_park _ _ _ _ _)
  | push d v => exact absurd (startR_park_blocking h) (by simp [Op.blocking])
  | fpush d v => exact absurd (startR_park_blocking h) (by simp [Op.blocking])
  | pop d => exact absurd (startR_park_blocking h) (by simp [Op.blocking])
  | len => exact absurd (startR_park_blocking h) (by simp [Op.blocking])
  | close => exact absurd (startR_park_blocking h) (by simp [Op.blocking])

/-- `wait_when_ready_returns`: an operation whose condition holds when it has the lock returns in
    that segment — whether it is the first segment of the call or a resumption -/
theorem ready_returns (x : St) (op : Op) (k : Bool) :
    (parks x op false = false → ∃ r, (startR x op).fin = .ret r) ∧
    (parks x op k = false → ∃ r, (resumeR x op k).fin = .ret r) := by
  constructor
  · intro hp
    cases hf : (startR x op).fin with
    | ret r => exact ⟨r, rfl⟩
    | park c => have := (startR_park_shape hf).2.1; rw [hp] at this; cases this
  · intro hp
    cases hf : (resumeR x op k).fin with
    | ret r => exact ⟨r, rfl⟩
    | park c => have := ((resumeR_park_iff x op k c).1 hf).1; rw [hp] at this; cases this

/-! ## Identities: elements, cursors, stale links -/

theorem after_cons_ne {e c : Nat} (l : List Nat) (h : c ≠ e) : after (e :: l) c = after l c := by
  have : (e == c) = false := by simp; exact fun h' => h h'.symm
  simp [after, this]

theorem after_cons_self (e : Nat) (l : List Nat) : after (e :: l) e = some (l.headD 0) := by simp [after]

theorem after_none {l : List Nat} {c : Nat} (h : c ∉ l) : after l c = none := by
  induction l with
  | nil => rfl
  | cons x r ih =>
    simp only [List.mem_cons, not_or] at h
    rw [after_cons_ne r h.1]; exact ih h.2

theorem after_mem {l : List Nat} {c n : Nat} (h : after l c = some n) : n = 0 ∨ n ∈ l := by
  induction l with
  | nil => simp [after] at h
  | cons x r ih =>
    by_cases hx : c = x
    · subst hx
      rw [after_cons_self] at h
      simp only [Option.some.injEq] at h
      cases r with
      | nil => left; simpa using h.symm
      | cons y r' => right; simp at h; simp [h]
    · rw [after_cons_ne r hx] at h
      rcases ih h with h' | h'
      · exact Or.inl h'
      · exact Or.inr (List.mem_cons_of_mem _ h')

theorem setCursor_cursor_self (x : St) (k c : Nat) : (x.setCursor k c).cursor k = c := by
  simp [St.setCursor, St.cursor]

theorem setCursor_cursor_ne (x : St) {k k' : Nat} (c : Nat) (h : k' ≠ k) : (x.setCursor k c).cursor k' = x.cursor k' := by
  have h1 : (k == k') = false := by simp; exact fun h' => h h'.symm
  simp only [St.setCursor, St.cursor, List.find?_cons, h1]
  congr 2
  rw [List.find?_filter]
  congr 1
  funext p
  by_cases hp : p.1 = k' <;> simp [hp, h]

theorem cursorKey_inj {d d' : End} {b b' : Bool} {k k' : Nat} (h : cursorKey d b k = cursorKey d' b' k') :
    d = d' ∧ b = b' ∧ k = k' := by
  unfold cursorKey at h
  cases d <;> cases d' <;> cases b <;> cases b' <;> simp at h ⊢ <;> omega

/-- identities are fresh: every linked element, every cursor and every stale link is below
    `nextId`, and no element is linked twice -/
structure Inv2 (x : St) : Prop where
  next_pos : 1 ≤ x.nextId
  ids_lt : ∀ i ∈ x.ids, i < x.nextId
  nodup : x.ids.Nodup
  cur_lt : ∀ p ∈ x.cursors, p.2 < x.nextId
  stale_lt : ∀ p ∈ x.stale, p.2.1 < x.nextId ∧ p.2.2 < x.nextId

theorem Inv2.cursor_lt {x : St} (h : Inv2 x) (k : Nat) : x.cursor k < x.nextId := by
  unfold St.cursor
  cases hf : x.cursors.find? (fun p => p.1 == k) with
  | none => simp; exact h.next_pos
  | some p => simp; exact h.cur_lt p (List.mem_of_find?_eq_some hf)

theorem headD_mem_or {l : List Nat} : l.headD 0 = 0 ∨ l.headD 0 ∈ l := by
  cases l <;> simp

theorem Inv2.nbr_lt {x : St} (h : Inv2 x) (d : End) (e : Nat) : x.nbr d e < x.nextId := by
  have hrev : ∀ i ∈ x.ids.reverse, i < x.nextId := fun i hi => h.ids_lt i (List.mem_reverse.1 hi)
  have key : ∀ (l : List Nat), (∀ i ∈ l, i < x.nextId) →
      (if e = 0 then l.headD 0 else match after l e with
        | some n => n
        | none => match x.stale.find? (fun p => p.1 == e) with
          | some (_, n, p) => (match d with | .front => n | .back => p)
          | none => 0) < x.nextId := by
    intro l hl
    split
    · rcases @headD_mem_or l with h0 | h0
      · rw [h0]; exact h.next_pos
      · exact hl _ h0
    · split
      · rename_i n hn
        rcases after_mem hn with h0 | h0
        · rw [h0]; exact h.next_pos
        · exact hl _ h0
      · split
        · rename_i a n p hf
          have := h.stale_lt _ (List.mem_of_find?_eq_some hf)
          cases d
          · exact this.1
          · exact this.2
        · exact h.next_pos
  unfold St.nbr
  cases d
  · exact key _ h.ids_lt
  · exact key _ hrev

/-! ### what the primitives do to the state -/

/-- the list after a push at end `d` -/
def addQ (d : End) (p : Nat × Int) (q : List (Nat × Int)) : List (Nat × Int) :=
  match d with | .front => p :: q | .back => q ++ [p]

/-- the signals of a successful `addAfter` -/
def addSigs (d : End) (wasEmpty : Bool) : List Sig :=
  match d with
  | .front => [Sig.signal 0] ++ (if wasEmpty then [Sig.signal 1] else []) ++ [Sig.signal 2]
  | .back => (if wasEmpty then [Sig.signal 0] else []) ++ [Sig.signal 1, Sig.signal 2]

theorem addEnd_ok_eq {x : St} {d : End} {v : Int} (h : (addEnd x d v).2.1 = .ok) :
    x.closed = false ∧
    (addEnd x d v).1 = { x with tracker := x.tracker.add.1, q := addQ d (x.nextId, v) x.q,
                                vals := (x.nextId, v) :: x.vals, nextId := x.nextId + 1 } ∧
    (addEnd x d v).2.2 = addSigs d x.q.isEmpty := by
  unfold addEnd at h ⊢
  by_cases hc : x.closed = true
  · simp [hc] at h
  · simp only [hc, Bool.false_eq_true, ite_false] at h ⊢
    rcases hadd : x.tracker.add with ⟨tr, r⟩
    rw [hadd] at h
    cases r with
    | full => simp at h
    | noCredit => simp at h
    | ok => cases d <;> exact ⟨by simpa using hc, rfl, rfl⟩

theorem addEnd_inv2 (x : St) (d : End) (v : Int) (h : Inv2 x) : Inv2 (addEnd x d v).1 := by
  by_cases hok : (addEnd x d v).2.1 = .ok
  · obtain ⟨_, heq, _⟩ := addEnd_ok_eq hok
    rw [heq]
    have hfresh : x.nextId ∉ x.ids := fun hm => Nat.lt_irrefl _ (h.ids_lt _ hm)
    refine ⟨by simp only; omega, ?_, ?_, ?_, ?_⟩
    · intro i hi
      show i < x.nextId + 1
      cases d <;> simp [St.ids, addQ] at hi <;> rcases hi with hi | hi
      · omega
      · have := h.ids_lt i (by simp [St.ids]; exact hi); omega
      · have := h.ids_lt i (by simp [St.ids]; exact hi); omega
      · omega
    · have hn := h.nodup
      cases d
      · simp only [St.ids, addQ, List.map_cons, List.nodup_cons]
        exact ⟨by simpa [St.ids] using hfresh, by simpa [St.ids] using hn⟩
      · simp only [St.ids, addQ, List.map_append, List.map_cons, List.map_nil]
        rw [List.nodup_append]
        refine ⟨by simpa [St.ids] using hn, by simp, ?_⟩
        intro a ha b hb
        simp only [List.mem_singleton] at hb
        subst hb
        intro hab; subst hab
        exact hfresh (by simpa [St.ids] using ha)
    · intro p hp; have := h.cur_lt p hp; simp only; omega
    · intro p hp; have := h.stale_lt p hp; simp only; omega
  · rw [addEnd_fail_eq x d v hok]; exact h

theorem popEnd_front_some {x : St} {v : Int} (h : (popEnd x .front).2.1 = some v) :
    x.closed = false ∧ ∃ e rest, x.q = (e, v) :: rest ∧
      popEnd x .front = (({ x with q := rest, tracker := x.tracker.remove, stale := (e, (rest.map (·.1)).headD 0, 0) :: x.stale } : St), some v,
        [Sig.broadcast 2] ++ (if rest.isEmpty then [Sig.signal 1] else []) ++ [Sig.signal 0]) := by
  unfold popEnd at h ⊢
  by_cases hc : x.closed = true
  · simp [hc] at h
  · have hc' : x.closed = false := by simpa using hc
    simp only [hc', Bool.false_eq_true, ite_false] at h ⊢
    refine ⟨trivial, ?_⟩
    cases hq : x.q with
    | nil => simp [hq] at h
    | cons p rest =>
      obtain ⟨e, w⟩ := p
      simp only [hq] at h
      have : w = v := by simpa using h
      subst this
      exact ⟨e, rest, rfl, rfl⟩

theorem popEnd_back_some {x : St} {v : Int} (h : (popEnd x .back).2.1 = some v) :
    x.closed = false ∧ ∃ e rest, x.q = rest ++ [(e, v)] ∧
      popEnd x .back = (({ x with q := rest, tracker := x.tracker.remove, stale := (e, 0, ((rest.map (·.1)).getLast?).getD 0) :: x.stale } : St), some v,
        [Sig.broadcast 2, Sig.signal 1] ++ (if rest.isEmpty then [Sig.signal 0] else [])) := by
  unfold popEnd at h ⊢
  by_cases hc : x.closed = true
  · simp [hc] at h
  · have hc' : x.closed = false := by simpa using hc
    simp only [hc', Bool.false_eq_true, ite_false] at h ⊢
    refine ⟨trivial, ?_⟩
    cases hq : x.q.getLast? with
    | none => simp [hq] at h
    | some p =>
      obtain ⟨e, w⟩ := p
      simp only [hq] at h
      have : w = v := by simpa using h
      subst this
      have hne : x.q ≠ [] := by intro h0; simp [h0] at hq
      have hsplit : x.q = x.q.dropLast ++ [(e, w)] := by
        have h1 := List.dropLast_concat_getLast hne
        have h2 := List.getLast?_eq_some_getLast hne
        rw [hq] at h2
        simp only [Option.some.injEq] at h2
        rw [← h2] at h1
        exact h1.symm
      exact ⟨e, x.q.dropLast, hsplit, rfl⟩

theorem popEnd_inv2 (x : St) (d : End) (h : Inv2 x) : Inv2 (popEnd x d).1 := by
  cases hp : (popEnd x d).2.1 with
  | none => rw [popEnd_none_eq x d hp]; exact h
  | some v =>
    cases d with
    | front =>
      obtain ⟨_, e, rest, hq, heq⟩ := popEnd_front_some hp
      rw [heq]
      have hids : x.ids = e :: rest.map (·.1) := by simp [St.ids, hq]
      refine ⟨h.next_pos, ?_, ?_, h.cur_lt, ?_⟩
      · intro i hi; exact h.ids_lt i (by rw [hids]; exact List.mem_cons_of_mem _ (by simpa [St.ids] using hi))
      · have := h.nodup; rw [hids] at this; simpa [St.ids] using (List.nodup_cons.1 this).2
      · intro p hp
        simp only [List.mem_cons] at hp
        rcases hp with rfl | hp
        · refine ⟨?_, h.next_pos⟩
          simp only
          rcases @headD_mem_or (rest.map (·.1)) with h0 | h0
          · rw [h0]; exact h.next_pos
          · exact h.ids_lt _ (by rw [hids]; exact List.mem_cons_of_mem _ h0)
        · exact h.stale_lt p hp
    | back =>
      obtain ⟨_, e, rest, hq, heq⟩ := popEnd_back_some hp
      rw [heq]
      have hids : x.ids = rest.map (·.1) ++ [e] := by simp [St.ids, hq]
      refine ⟨h.next_pos, ?_, ?_, h.cur_lt, ?_⟩
      · intro i hi; exact h.ids_lt i (by rw [hids]; exact List.mem_append_left _ (by simpa [St.ids] using hi))
      · have := h.nodup; rw [hids] at this; simpa [St.ids] using (List.nodup_append.1 this).1
      · intro p hp
        simp only [List.mem_cons] at hp
        rcases hp with rfl | hp
        · refine ⟨h.next_pos, ?_⟩
          simp only
          cases hl : (rest.map (·.1)).getLast? with
          | none => simp; exact h.next_pos
          | some z =>
            simp
            exact h.ids_lt _ (by rw [hids]; exact List.mem_append_left _ (List.mem_of_getLast? hl))
        · exact h.stale_lt p hp

theorem forcePush_inv2 (x : St) (d : End) (v : Int) (h : Inv2 x) : Inv2 (forcePush x d v).1 := by
  unfold forcePush
  by_cases hc : x.tracker.atCap = true
  · simp only [hc, ite_true]; exact addEnd_inv2 _ d v (popEnd_inv2 x d.opp h)
  · simp only [hc, Bool.false_eq_true, ite_false]; exact addEnd_inv2 x d v h

theorem iterYield_inv2 (x : St) (key : Nat) (d : End) (c : Nat) (h : Inv2 x) : Inv2 (iterYield x key d c).st := by
  unfold iterYield
  by_cases hn : (x.nbr d c == 0) = true
  · simpa [hn] using h
  · simp only [hn, Bool.false_eq_true, ite_false]
    refine ⟨h.next_pos, h.ids_lt, h.nodup, ?_, h.stale_lt⟩
    intro p hp
    simp only [St.setCursor, List.mem_cons, List.mem_filter] at hp
    rcases hp with rfl | hp
    · exact h.nbr_lt d c
    · exact h.cur_lt p hp.1

theorem waitPopLoop_inv2 (x : St) (d : End) (k : Bool) (pre : List Sig) (h : Inv2 x) : Inv2 (waitPopLoop x d k pre).st := by
  unfold waitPopLoop
  by_cases he : x.q.isEmpty = true
  · simp only [he, ite_true]
    by_cases hc : x.closed = true
    · simpa [hc] using h
    · by_cases hk : k = true <;> simpa [hc, hk] using h
  · simp only [he, Bool.false_eq_true, ite_false]
    by_cases hc : x.closed = true
    · simpa [hc] using h
    · simp only [hc, Bool.false_eq_true, ite_false]
      have hp := popEnd_inv2 x d h
      rcases hpe : popEnd x d with ⟨s', ov, sg⟩
      rw [hpe] at hp
      cases ov <;> exact hp

theorem waitPushLoop_inv2 (x : St) (d : End) (v : Int) (k : Bool) (pre : List Sig) (h : Inv2 x) :
    Inv2 (waitPushLoop x d v k pre).st := by
  unfold waitPushLoop
  by_cases hr : x.tracker.hasRoom = true
  · simp only [hr, Bool.not_true, Bool.false_eq_true, ite_false]; exact addEnd_inv2 x d v h
  · simp only [hr, Bool.not_false, ite_true]
    by_cases hc : x.closed = true
    · simpa [hc] using h
    · by_cases hk : k = true <;> simpa [hc, hk] using h

theorem iterLoop_inv2 (x : St) (key : Nat) (d : End) (k : Bool) (pre : List Sig) (h : Inv2 x) :
    Inv2 (iterLoop x key d k pre).st := by
  unfold iterLoop
  by_cases hn : (x.nbr d (x.cursor key) == 0) = true
  · simp only [hn, ite_true]
    by_cases hc : x.closed = true
    · simpa [hc] using h
    · by_cases hk : k = true <;> simpa [hc, hk] using h
  · simp only [hn, Bool.false_eq_true, ite_false]; exact iterYield_inv2 x key d _ h

theorem startR_inv2 (x : St) (h : Inv2 x) (op : Op) : Inv2 (startR x op).st := by
  cases op with
  | push d v => exact addEnd_inv2 x d v h
  | fpush d v => exact forcePush_inv2 x d v h
  | pop d =>
    have hp := popEnd_inv2 x d h
    simp only [startR]
    rcases hpe : popEnd x d with ⟨s', ov, sg⟩
    rw [hpe] at hp
    cases ov <;> exact hp
  | wait d =>
    simp only [startR]
    by_cases hc : x.closed = true
    · simpa [hc] using h
    · simp only [hc, Bool.false_eq_true, ite_false]
      by_cases he : x.q.isEmpty = true
      · simp only [he, ite_true]; exact waitPopLoop_inv2 x d false _ h
      · simp only [he, Bool.false_eq_true, ite_false]; exact waitPopLoop_inv2 x d false _ h
  | wpush d v =>
    simp only [startR]
    by_cases hr : x.tracker.hasRoom = true
    · simp only [hr, ite_true]; exact addEnd_inv2 x d v h
    · simp only [hr, Bool.false_eq_true, ite_false]; exact waitPushLoop_inv2 x d v false _ h
  | len => exact h
  | close => exact ⟨h.next_pos, h.ids_lt, h.nodup, h.cur_lt, h.stale_lt⟩
  | next d b k =>
    simp only [startR]
    by_cases hn : (x.nbr d (x.cursor (cursorKey d b k)) == 0 && b) = true
    · simp only [hn, ite_true]; exact iterLoop_inv2 x _ d false _ h
    · simp only [hn, Bool.false_eq_true, ite_false]; exact iterYield_inv2 x _ d _ h

theorem resumeR_inv2 (x : St) (h : Inv2 x) (op : Op) (k : Bool) : Inv2 (resumeR x op k).st := by
  cases op with
  | wait d => exact waitPopLoop_inv2 x d k _ h
  | wpush d v => exact waitPushLoop_inv2 x d v k _ h
  | next d b k' =>
    cases b with
    | true => exact iterLoop_inv2 x _ d k _ h
    | false => exact h
  | push d v => exact h
  | fpush d v => exact h
  | pop d => exact h
  | len => exact h
  | close => exact h

theorem reach_inv2 {s0 s : Sys St Op} (hwf0 : s0.WF) (h0 : Inv2 s0.subj) (hr : Reach subject s0 s) : Inv2 s.subj :=
  hr.subj_inv Inv2 hwf0 h0 (fun x _ op hx => startR_inv2 x hx op) (fun x _ op c hx => resumeR_inv2 x hx op c)

/-! ## Which links a push / pop can change -/

theorem headD_append_ne {l : List Nat} (e : Nat) (h : l ≠ []) : (l ++ [e]).headD 0 = l.headD 0 := by
  cases l with
  | nil => exact absurd rfl h
  | cons a r => rfl

theorem nbr_front_of_ids_cons {x x1 : St} {e c0 : Nat} (hids : x1.ids = e :: x.ids) (hst : x1.stale = x.stale)
    (h0 : c0 ≠ 0) (hne : c0 ≠ e) : x1.nbr .front c0 = x.nbr .front c0 := by
  unfold St.nbr; simp only [hids, hst, h0, ite_false, after_cons_ne _ hne]

theorem nbr_back_of_ids_snoc {x x1 : St} {e c0 : Nat} (hids : x1.ids = x.ids ++ [e]) (hst : x1.stale = x.stale)
    (h0 : c0 ≠ 0) (hne : c0 ≠ e) : x1.nbr .back c0 = x.nbr .back c0 := by
  unfold St.nbr
  simp only [hids, hst, h0, ite_false, List.reverse_append, List.reverse_cons, List.reverse_nil, List.nil_append,
    List.singleton_append, after_cons_ne _ hne]

theorem nbr_root_front_of_snoc {x x1 : St} {e : Nat} (hids : x1.ids = x.ids ++ [e]) (hne : x.ids ≠ []) :
    x1.nbr .front 0 = x.nbr .front 0 := by
  unfold St.nbr; simp only [hids, ite_true, headD_append_ne e hne]

theorem nbr_root_back_of_cons {x x1 : St} {e : Nat} (hids : x1.ids = e :: x.ids) (hne : x.ids ≠ []) :
    x1.nbr .back 0 = x.nbr .back 0 := by
  unfold St.nbr
  have : x.ids.reverse ≠ [] := by simpa using hne
  simp only [hids, ite_true, List.reverse_cons, headD_append_ne e this]

theorem find_stale_cons_self (e n p : Nat) (l : List (Nat × Nat × Nat)) :
    ((e, n, p) :: l).find? (fun q => q.1 == e) = some (e, n, p) := by simp

theorem find_stale_cons_ne {e c0 : Nat} (n p : Nat) (l : List (Nat × Nat × Nat)) (h : c0 ≠ e) :
    ((e, n, p) :: l).find? (fun q => q.1 == c0) = l.find? (fun q => q.1 == c0) := by
  have : (e == c0) = false := by simp; exact fun h' => h h'.symm
  simp [List.find?_cons, this]

theorem nbr_front_pop_front {x x1 : St} {e c0 : Nat} {r : List Nat} (hids : x.ids = e :: r) (h1 : x1.ids = r)
    (hst : x1.stale = (e, r.headD 0, 0) :: x.stale) (hnd : e ∉ r) (h0 : c0 ≠ 0) : x1.nbr .front c0 = x.nbr .front c0 := by
  unfold St.nbr
  simp only [hids, h1, hst, h0, ite_false]
  by_cases hce : c0 = e
  · subst hce
    rw [after_none hnd, after_cons_self, find_stale_cons_self]
  · rw [after_cons_ne _ hce, find_stale_cons_ne _ _ _ hce]

theorem nbr_root_back_pop_front {x x1 : St} {e : Nat} {r : List Nat} (hids : x.ids = e :: r) (h1 : x1.ids = r)
    (hne : r ≠ []) : x1.nbr .back 0 = x.nbr .back 0 := by
  unfold St.nbr
  have : r.reverse ≠ [] := by simpa using hne
  simp only [hids, h1, ite_true, List.reverse_cons, headD_append_ne e this]

theorem getLast?_getD_eq (r : List Nat) : (r.getLast?).getD 0 = r.reverse.headD 0 := by
  cases h : r.reverse with
  | nil => have : r = [] := by simpa using h
           subst this; rfl
  | cons a t =>
    have : r = (a :: t).reverse := by rw [← h, List.reverse_reverse]
    subst this; simp

theorem nbr_back_pop_back {x x1 : St} {e c0 : Nat} {r : List Nat} (hids : x.ids = r ++ [e]) (h1 : x1.ids = r)
    (hst : x1.stale = (e, 0, (r.getLast?).getD 0) :: x.stale) (hnd : e ∉ r) (h0 : c0 ≠ 0) :
    x1.nbr .back c0 = x.nbr .back c0 := by
  unfold St.nbr
  have hnd' : e ∉ r.reverse := by simpa using hnd
  simp only [hids, h1, hst, h0, ite_false, List.reverse_append, List.reverse_cons, List.reverse_nil, List.nil_append,
    List.singleton_append]
  by_cases hce : c0 = e
  · subst hce
    rw [after_none hnd', after_cons_self, find_stale_cons_self, getLast?_getD_eq]
  · rw [after_cons_ne _ hce, find_stale_cons_ne _ _ _ hce]

theorem nbr_root_front_pop_back {x x1 : St} {e : Nat} {r : List Nat} (hids : x.ids = r ++ [e]) (h1 : x1.ids = r)
    (hne : r ≠ []) : x1.nbr .front 0 = x.nbr .front 0 := by
  unfold St.nbr; simp only [hids, h1, ite_true, headD_append_ne e hne]

/-! ## Every segment signals the conditions whose waiters it made ready -/

theorem Tracker.add_no_room (tr : Tracker) (h : tr.hasRoom = false) : tr.add.1.hasRoom = false := by
  cases tr with
  | noLimit l => simp [Tracker.hasRoom, Tracker.cap] at h
  | hard c l =>
    simp [Tracker.hasRoom, Tracker.cap, Tracker.len] at h
    unfold Tracker.add
    have : l ≥ c := by omega
    simp [this, Tracker.hasRoom, Tracker.cap, Tracker.len, h]
  | soft sq hl l cr =>
    simp [Tracker.hasRoom, Tracker.cap, Tracker.len] at h
    unfold Tracker.add
    have h1 : l ≥ sq := by omega
    by_cases h2 : (l == hl) = true
    · simp [h1, h2, Tracker.hasRoom, Tracker.cap, Tracker.len, h]
    · by_cases h3 : cr < 1
      · simp [h1, h2, h3, Tracker.hasRoom, Tracker.cap, Tracker.len, h]
      · simp [h1, h2, h3, Tracker.hasRoom, Tracker.cap, Tracker.len]

theorem mem_addSigs_empty (d : End) {c : Nat} (hc : c ≤ 1) : Sig.signal c ∈ addSigs d true := by
  have : c = 0 ∨ c = 1 := by omega
  rcases this with rfl | rfl <;> cases d <;> simp [addSigs]

/-- the state after a successful push -/
def pushed (x : St) (d : End) (v : Int) : St :=
  { x with tracker := x.tracker.add.1, q := addQ d (x.nextId, v) x.q, vals := (x.nextId, v) :: x.vals, nextId := x.nextId + 1 }

theorem pushed_ids_front (x : St) (v : Int) : (pushed x .front v).ids = x.nextId :: x.ids := by simp [pushed, St.ids, addQ]
theorem pushed_ids_back (x : St) (v : Int) : (pushed x .back v).ids = x.ids ++ [x.nextId] := by simp [pushed, St.ids, addQ]

/-- a push onto a non-empty deque changes exactly one link from "root" to the new element, and
    signals the condition of an iterator watching that link -/
theorem pushed_nbr_flip (x : St) (d d' : End) (v : Int) (c0 : Nat) (hne : x.ids ≠ []) (hlt : c0 < x.nextId)
    (hn : x.nbr d' c0 = 0) (hn1 : (pushed x d v).nbr d' c0 ≠ 0) : Sig.signal (iterCond d' c0) ∈ addSigs d false := by
  have hce : c0 ≠ x.nextId := by omega
  by_cases h0 : c0 = 0
  · subst h0
    cases d <;> cases d'
    · simp [iterCond, End.cond, addSigs]
    · exact absurd (by rw [nbr_root_back_of_cons (pushed_ids_front x v) hne]; exact hn) hn1
    · exact absurd (by rw [nbr_root_front_of_snoc (pushed_ids_back x v) hne]; exact hn) hn1
    · simp [iterCond, End.cond, addSigs]
  · cases d <;> cases d'
    · exact absurd (by rw [nbr_front_of_ids_cons (pushed_ids_front x v) rfl h0 hce]; exact hn) hn1
    · simp [iterCond, h0, End.cond, End.opp, addSigs]
    · simp [iterCond, h0, End.cond, End.opp, addSigs]
    · exact absurd (by rw [nbr_back_of_ids_snoc (pushed_ids_back x v) rfl h0 hce]; exact hn) hn1

/-- a push signals the condition of every waiter it makes ready -/
theorem addEnd_sig_ok (x : St) (hx : Inv2 x) (d : End) (v : Int) (op : Op) (k : Bool) (c : Nat)
    (hc : condOf x op = some c) (hp : parks x op k = true) (hr : parks (addEnd x d v).1 op k = false) :
    Sig.signal c ∈ (addEnd x d v).2.2 := by
  by_cases hok : (addEnd x d v).2.1 = .ok
  · obtain ⟨hcl, heq, hsg⟩ := addEnd_ok_eq hok
    rw [hsg]
    have heq' : (addEnd x d v).1 = pushed x d v := heq
    rw [heq'] at hr
    cases op with
    | wait d' =>
      simp only [parks, Bool.and_eq_true, Bool.not_eq_true'] at hp
      simp only [condOf, Option.some.injEq] at hc
      rw [hp.1.1]; subst hc
      exact mem_addSigs_empty d (End.cond_le d')
    | wpush d' v' =>
      exfalso
      simp only [parks, Bool.and_eq_true, Bool.not_eq_true', Bool.not_eq_eq_eq_not, Bool.not_true] at hp
      have := Tracker.add_no_room x.tracker hp.1.1
      have ht : (pushed x d v).tracker = x.tracker.add.1 := rfl
      have hcl2 : (pushed x d v).closed = x.closed := rfl
      simp [parks, ht, hcl2, this, hp.1.2, hp.2] at hr
    | next d' b key =>
      cases b with
      | false => simp [parks] at hp
      | true =>
        simp only [condOf, Option.some.injEq] at hc
        subst hc
        simp only [parks, Bool.and_eq_true, Bool.not_eq_true', beq_iff_eq] at hp
        obtain ⟨⟨hn, hcl'⟩, hk⟩ := hp
        have hcur : (pushed x d v).cursor (cursorKey d' true key) = x.cursor (cursorKey d' true key) := rfl
        have hcl2 : (pushed x d v).closed = x.closed := rfl
        simp only [parks, hcur, hcl2, hcl', hk, Bool.not_false, Bool.and_true, beq_eq_false_iff_ne, ne_eq] at hr
        by_cases he : x.q.isEmpty = true
        · rw [he]; exact mem_addSigs_empty d (iterCond_le _ _)
        · have hne : x.ids ≠ [] := by
            intro h0; apply he; simp [St.ids] at h0; simp [h0]
          have he' : x.q.isEmpty = false := by simpa using he
          rw [he']
          exact pushed_nbr_flip x d d' v _ hne (hx.cursor_lt _) hn hr
    | push d' v' => simp [parks] at hp
    | fpush d' v' => simp [parks] at hp
    | pop d' => simp [parks] at hp
    | len => simp [parks] at hp
    | close => simp [parks] at hp
  · exfalso
    rw [addEnd_fail_eq x d v hok, hp] at hr
    cases hr

theorem mem_two_of_le {c : Nat} (hc : c ≤ 1) {l : List Sig} (h0 : Sig.signal 0 ∈ l) (h1 : Sig.signal 1 ∈ l) :
    Sig.signal c ∈ l := by
  have : c = 0 ∨ c = 1 := by omega
  rcases this with rfl | rfl <;> assumption

/-- a pop signals (or broadcasts) the condition of every waiter it makes ready -/
theorem popEnd_sig_ok (x : St) (hx : Inv2 x) (d : End) (op : Op) (k : Bool) (c : Nat)
    (hc : condOf x op = some c) (hp : parks x op k = true) (hr : parks (popEnd x d).1 op k = false) :
    Sig.signal c ∈ (popEnd x d).2.2 ∨ Sig.broadcast c ∈ (popEnd x d).2.2 := by
  cases hpop : (popEnd x d).2.1 with
  | none =>
    exfalso
    rw [popEnd_none_eq x d hpop, hp] at hr
    cases hr
  | some v =>
    cases op with
    | wait d' =>
      -- a waiter parks only on an empty deque, from which nothing can be popped
      exfalso
      simp only [parks, Bool.and_eq_true, Bool.not_eq_true'] at hp
      have hq : x.q = [] := by simpa using hp.1.1
      cases d with
      | front => obtain ⟨_, e, rest, hq', _⟩ := popEnd_front_some hpop; rw [hq] at hq'; cases hq'
      | back => obtain ⟨_, e, rest, hq', _⟩ := popEnd_back_some hpop; rw [hq] at hq'; simp at hq'
    | wpush d' v' =>
      right
      simp only [condOf, Option.some.injEq] at hc
      subst hc
      cases d with
      | front => obtain ⟨_, e, rest, _, heq⟩ := popEnd_front_some hpop; rw [heq]; simp
      | back => obtain ⟨_, e, rest, _, heq⟩ := popEnd_back_some hpop; rw [heq]; simp
    | next d' b key =>
      cases b with
      | false => simp [parks] at hp
      | true =>
        left
        simp only [condOf, Option.some.injEq] at hc
        subst hc
        simp only [parks, Bool.and_eq_true, Bool.not_eq_true', beq_iff_eq] at hp
        obtain ⟨⟨hn, hcl'⟩, hk⟩ := hp
        cases d with
        | front =>
          obtain ⟨_, e, rest, hq, heq⟩ := popEnd_front_some hpop
          rw [heq] at hr ⊢
          simp only at hr ⊢
          have hids : x.ids = e :: rest.map (·.1) := by simp [St.ids, hq]
          have hnd : e ∉ rest.map (·.1) := by
            have := hx.nodup; rw [hids] at this; exact (List.nodup_cons.1 this).1
          simp only [parks, hcl', hk, Bool.not_false, Bool.and_true, beq_eq_false_iff_ne, ne_eq] at hr
          replace hr : ¬ St.nbr _ d' (x.cursor (cursorKey d' true key)) = 0 := hr
          by_cases hre : rest.isEmpty = true
          · apply mem_two_of_le (iterCond_le _ _) <;> simp [hre]
          · have hrne : rest.map (·.1) ≠ [] := by
              intro h0; apply hre; simp at h0; simp [h0]
            by_cases h0 : x.cursor (cursorKey d' true key) = 0
            · rw [h0] at hn hr ⊢
              cases d'
              · simp [iterCond, End.cond]
              · exact absurd (by rw [nbr_root_back_pop_front (e := e) hids rfl hrne]; exact hn) hr
            · cases d'
              · exact absurd (by rw [nbr_front_pop_front (e := e) hids rfl rfl hnd h0]; exact hn) hr
              · simp [iterCond, h0, End.cond, End.opp]
        | back =>
          obtain ⟨_, e, rest, hq, heq⟩ := popEnd_back_some hpop
          rw [heq] at hr ⊢
          simp only at hr ⊢
          have hids : x.ids = rest.map (·.1) ++ [e] := by simp [St.ids, hq]
          have hnd : e ∉ rest.map (·.1) := by
            have := hx.nodup; rw [hids] at this
            intro hm
            exact (List.nodup_append.1 this).2.2 e hm e (by simp) rfl
          simp only [parks, hcl', hk, Bool.not_false, Bool.and_true, beq_eq_false_iff_ne, ne_eq] at hr
          replace hr : ¬ St.nbr _ d' (x.cursor (cursorKey d' true key)) = 0 := hr
          by_cases hre : rest.isEmpty = true
          · apply mem_two_of_le (iterCond_le _ _) <;> simp [hre]
          · have hrne : rest.map (·.1) ≠ [] := by
              intro h0; apply hre; simp at h0; simp [h0]
            by_cases h0 : x.cursor (cursorKey d' true key) = 0
            · rw [h0] at hn hr ⊢
              cases d'
              · exact absurd (by rw [nbr_root_front_pop_back (e := e) hids rfl hrne]; exact hn) hr
              · simp [iterCond, End.cond]
            · cases d'
              · simp [iterCond, h0, End.cond, End.opp]
              · exact absurd (by rw [nbr_back_pop_back (e := e) hids rfl rfl hnd h0]; exact hn) hr
    | push d' v' => simp [parks] at hp
    | fpush d' v' => simp [parks] at hp
    | pop d' => simp [parks] at hp
    | len => simp [parks] at hp
    | close => simp [parks] at hp

/-- `y` has the same cursor as `x` for the iterator that `op` (if it is a blocking iterator call) uses -/
def SameCursor (x y : St) (op : Op) : Prop :=
  ∀ d key, op = .next d true key → y.cursor (cursorKey d true key) = x.cursor (cursorKey d true key)

theorem sameCursor_of_cursors {x y : St} (op : Op) (h : y.cursors = x.cursors) : SameCursor x y op := by
  intro d key _; simp [St.cursor, h]

theorem SameCursor.refl (x : St) (op : Op) : SameCursor x x op := fun _ _ _ => rfl

theorem SameCursor.trans {x y z : St} {op : Op} (h1 : SameCursor x y op) (h2 : SameCursor y z op) : SameCursor x z op :=
  fun d key hop => (h2 d key hop).trans (h1 d key hop)

theorem condOf_congr {x y : St} {op : Op} (h : SameCursor x y op) : condOf y op = condOf x op := by
  cases op with
  | next d b key =>
    cases b with
    | true => simp [condOf, h d key rfl]
    | false => rfl
  | _ => rfl

theorem parks_congr {x y : St} {op : Op} (k : Bool) (hq : y.q = x.q) (hs : y.stale = x.stale) (hc : y.closed = x.closed)
    (ht : y.tracker = x.tracker) (h : SameCursor x y op) : parks y op k = parks x op k := by
  cases op with
  | wait d => simp [parks, hq, hc]
  | wpush d v => simp [parks, ht, hc]
  | next d b key =>
    cases b with
    | true =>
      have hn : ∀ e, y.nbr d e = x.nbr d e := by intro e; simp [St.nbr, St.ids, hq, hs]
      simp [parks, h d key rfl, hn, hc]
    | false => rfl
  | _ => rfl

theorem addEnd_cursors (x : St) (d : End) (v : Int) : (addEnd x d v).1.cursors = x.cursors := by
  by_cases hok : (addEnd x d v).2.1 = .ok
  · rw [(addEnd_ok_eq hok).2.1]
  · rw [addEnd_fail_eq x d v hok]

theorem popEnd_cursors (x : St) (d : End) : (popEnd x d).1.cursors = x.cursors := by
  cases hp : (popEnd x d).2.1 with
  | none => rw [popEnd_none_eq x d hp]
  | some v =>
    cases d with
    | front => obtain ⟨_, _, _, _, heq⟩ := popEnd_front_some hp; rw [heq]
    | back => obtain ⟨_, _, _, _, heq⟩ := popEnd_back_some hp; rw [heq]

/-- two stages in a row (Force push: evict, then push) -/
theorem forcePush_sig_ok (x : St) (hx : Inv2 x) (d : End) (v : Int) (op : Op) (k : Bool) (c : Nat)
    (hc : condOf x op = some c) (hp : parks x op k = true) (hr : parks (forcePush x d v).1 op k = false) :
    Sig.signal c ∈ (forcePush x d v).2.2 ∨ Sig.broadcast c ∈ (forcePush x d v).2.2 := by
  unfold forcePush at hr ⊢
  by_cases hcap : x.tracker.atCap = true
  · simp only [hcap, ite_true] at hr ⊢
    cases hmid : parks (popEnd x d.opp).1 op k with
    | false =>
      rcases popEnd_sig_ok x hx d.opp op k c hc hp hmid with h | h
      · left; simp [h]
      · right; simp [h]
    | true =>
      have hc1 : condOf (popEnd x d.opp).1 op = some c := by
        rw [condOf_congr (sameCursor_of_cursors op (popEnd_cursors x d.opp))]; exact hc
      have := addEnd_sig_ok (popEnd x d.opp).1 (popEnd_inv2 x d.opp hx) d v op k c hc1 hmid hr
      left; simp [this]
  · simp only [hcap, Bool.false_eq_true, ite_false] at hr ⊢
    exact Or.inl (addEnd_sig_ok x hx d v op k c hc hp hr)

theorem waitPopLoop_cases (x : St) (d : End) (k : Bool) (pre : List Sig) :
    (waitPopLoop x d k pre).st = x ∨
    ((waitPopLoop x d k pre).st = (popEnd x d).1 ∧ ∀ sg ∈ (popEnd x d).2.2, sg ∈ (waitPopLoop x d k pre).sigs) := by
  unfold waitPopLoop
  by_cases he : x.q.isEmpty = true
  · left
    simp only [he, ite_true]
    by_cases hc : x.closed = true
    · simp [hc]
    · by_cases hk : k = true <;> simp [hc, hk]
  · simp only [he, Bool.false_eq_true, ite_false]
    by_cases hc : x.closed = true
    · left; simp [hc]
    · right
      simp only [hc, Bool.false_eq_true, ite_false]
      rcases hpe : popEnd x d with ⟨s', ov, sg⟩
      cases ov <;> simp <;> exact fun _ h => Or.inr h

theorem waitPushLoop_cases (x : St) (d : End) (v : Int) (k : Bool) (pre : List Sig) :
    (waitPushLoop x d v k pre).st = x ∨
    ((waitPushLoop x d v k pre).st = (addEnd x d v).1 ∧ ∀ sg ∈ (addEnd x d v).2.2, sg ∈ (waitPushLoop x d v k pre).sigs) := by
  unfold waitPushLoop
  by_cases hr : x.tracker.hasRoom = true
  · right
    simp only [hr, Bool.not_true, Bool.false_eq_true, ite_false]
    rcases hae : addEnd x d v with ⟨s', r, sg⟩
    simp; exact fun _ h => Or.inr h
  · left
    simp only [hr, Bool.not_false, ite_true]
    by_cases hc : x.closed = true
    · simp [hc]
    · by_cases hk : k = true <;> simp [hc, hk]

theorem iterYield_fields (x : St) (key : Nat) (d : End) (c : Nat) :
    (iterYield x key d c).st.q = x.q ∧ (iterYield x key d c).st.stale = x.stale ∧
    (iterYield x key d c).st.closed = x.closed ∧ (iterYield x key d c).st.tracker = x.tracker := by
  unfold iterYield
  by_cases hn : (x.nbr d c == 0) = true <;> simp [hn, St.setCursor]

theorem iterLoop_fields (x : St) (key : Nat) (d : End) (k : Bool) (pre : List Sig) :
    (iterLoop x key d k pre).st.q = x.q ∧ (iterLoop x key d k pre).st.stale = x.stale ∧
    (iterLoop x key d k pre).st.closed = x.closed ∧ (iterLoop x key d k pre).st.tracker = x.tracker := by
  unfold iterLoop
  by_cases hn : (x.nbr d (x.cursor key) == 0) = true
  · simp only [hn, ite_true]
    by_cases hc : x.closed = true
    · simp [hc]
    · by_cases hk : k = true <;> simp [hc, hk]
  · simp only [hn, Bool.false_eq_true, ite_false]; exact iterYield_fields x key d _

/-- **the signalling discipline**: whenever a segment turns the loop test of a waiting operation
    from "park" to "go", it signals or broadcasts the condition that operation waits on -/
theorem startR_sig_ok (x : St) (hx : Inv2 x) (opt : Op) (op : Op) (k : Bool) (c : Nat)
    (hc : condOf x op = some c) (hsame : SameCursor x (startR x opt).st op)
    (hp : parks x op k = true) (hr : parks (startR x opt).st op k = false) :
    Sig.signal c ∈ (startR x opt).sigs ∨ Sig.broadcast c ∈ (startR x opt).sigs := by
  have same : ∀ {y : St}, y = x → parks y op k = false → False := by
    intro y hy h; rw [hy, hp] at h; cases h
  cases opt with
  | push d v =>
    simp only [startR] at hr ⊢
    exact Or.inl (addEnd_sig_ok x hx d v op k c hc hp hr)
  | fpush d v =>
    simp only [startR] at hr ⊢
    exact forcePush_sig_ok x hx d v op k c hc hp hr
  | pop d =>
    have := popEnd_sig_ok x hx d op k c hc hp
    simp only [startR] at hr ⊢
    rcases hpe : popEnd x d with ⟨s', ov, sg⟩
    rw [hpe] at hr this
    cases ov <;> exact this hr
  | wait d =>
    simp only [startR] at hr ⊢
    by_cases hcl : x.closed = true
    · simp only [hcl, ite_true] at hr; exact (same rfl hr).elim
    · simp only [hcl, Bool.false_eq_true, ite_false] at hr ⊢
      have key : ∀ pre, parks (waitPopLoop x d false pre).st op k = false →
          Sig.signal c ∈ (waitPopLoop x d false pre).sigs ∨ Sig.broadcast c ∈ (waitPopLoop x d false pre).sigs := by
        intro pre h
        rcases waitPopLoop_cases x d false pre with h1 | ⟨h1, h2⟩
        · exact (same h1 h).elim
        · rw [h1] at h
          rcases popEnd_sig_ok x hx d op k c hc hp h with h3 | h3
          · exact Or.inl (h2 _ h3)
          · exact Or.inr (h2 _ h3)
      by_cases he : x.q.isEmpty = true
      · simp only [he, ite_true] at hr ⊢; exact key _ hr
      · simp only [he, Bool.false_eq_true, ite_false] at hr ⊢; exact key _ hr
  | wpush d v =>
    simp only [startR] at hr ⊢
    by_cases hroom : x.tracker.hasRoom = true
    · simp only [hroom, ite_true] at hr ⊢
      have := addEnd_sig_ok x hx d v op k c hc hp
      rcases hae : addEnd x d v with ⟨s', r, sg⟩
      rw [hae] at hr this
      left
      simp only at hr this ⊢
      exact List.mem_append_left _ (this hr)
    · simp only [hroom, Bool.false_eq_true, ite_false] at hr ⊢
      rcases waitPushLoop_cases x d v false [Sig.spawn 2] with h1 | ⟨h1, h2⟩
      · exact (same h1 hr).elim
      · rw [h1] at hr
        exact Or.inl (h2 _ (addEnd_sig_ok x hx d v op k c hc hp hr))
  | len => simp only [startR] at hr; exact (same rfl hr).elim
  | close =>
    right
    have hle := condOf_le hc
    have : c = 0 ∨ c = 1 ∨ c = 2 := by omega
    rcases this with rfl | rfl | rfl <;> simp [startR]
  | next d b key =>
    exfalso
    have hf : (startR x (.next d b key)).st.q = x.q ∧ (startR x (.next d b key)).st.stale = x.stale ∧
        (startR x (.next d b key)).st.closed = x.closed ∧ (startR x (.next d b key)).st.tracker = x.tracker := by
      simp only [startR]
      by_cases hn : (x.nbr d (x.cursor (cursorKey d b key)) == 0 && b) = true
      · simp only [hn, ite_true]; exact iterLoop_fields x _ d false _
      · simp only [hn, Bool.false_eq_true, ite_false]; exact iterYield_fields x _ d _
    rw [parks_congr k hf.1 hf.2.1 hf.2.2.1 hf.2.2.2 hsame, hp] at hr
    cases hr

theorem resumeR_sig_ok (x : St) (hx : Inv2 x) (opt : Op) (kt : Bool) (op : Op) (k : Bool) (c : Nat)
    (hc : condOf x op = some c) (hsame : SameCursor x (resumeR x opt kt).st op)
    (hp : parks x op k = true) (hr : parks (resumeR x opt kt).st op k = false) :
    Sig.signal c ∈ (resumeR x opt kt).sigs ∨ Sig.broadcast c ∈ (resumeR x opt kt).sigs := by
  have same : ∀ {y : St}, y = x → parks y op k = false → False := by
    intro y hy h; rw [hy, hp] at h; cases h
  cases opt with
  | wait d =>
    simp only [resumeR] at hr ⊢
    rcases waitPopLoop_cases x d kt [] with h1 | ⟨h1, h2⟩
    · exact (same h1 hr).elim
    · rw [h1] at hr
      rcases popEnd_sig_ok x hx d op k c hc hp hr with h3 | h3
      · exact Or.inl (h2 _ h3)
      · exact Or.inr (h2 _ h3)
  | wpush d v =>
    simp only [resumeR] at hr ⊢
    rcases waitPushLoop_cases x d v kt [] with h1 | ⟨h1, h2⟩
    · exact (same h1 hr).elim
    · rw [h1] at hr
      exact Or.inl (h2 _ (addEnd_sig_ok x hx d v op k c hc hp hr))
  | next d b key =>
    exfalso
    cases b with
    | false => simp only [resumeR] at hr; exact same rfl hr
    | true =>
      have hf := iterLoop_fields x (cursorKey d true key) d kt []
      have hr' : parks (iterLoop x (cursorKey d true key) d kt []).st op k = false := hr
      rw [parks_congr k hf.1 hf.2.1 hf.2.2.1 hf.2.2.2 hsame, hp] at hr'
      cases hr'
  | push d v => simp only [resumeR] at hr; exact (same rfl hr).elim
  | fpush d v => simp only [resumeR] at hr; exact (same rfl hr).elim
  | pop d => simp only [resumeR] at hr; exact (same rfl hr).elim
  | len => simp only [resumeR] at hr; exact (same rfl hr).elim
  | close => simp only [resumeR] at hr; exact (same rfl hr).elim

end FunModel.Deque
