import FunModel.Pipe

/-! Helper lemmas for the FanOut(n) process model (C01/C04). -/
namespace FunModel.Pipe.FanOut

theorem count_eraseIdx {l : List Nat} {i x : Nat} (a : Nat) (h : l[i]? = some x) :
    l.count a = (l.eraseIdx i).count a + [x].count a := by
  induction l generalizing i with
  | nil => simp at h
  | cons y ys ih =>
    cases i with
    | zero => simp at h; subst h; simp [List.count_cons]
    | succ j =>
      simp at h
      have := ih h
      simp [List.count_cons] at this ⊢; omega

theorem length_eraseIdx' {l : List Nat} {i x : Nat} (h : l[i]? = some x) :
    l.length = (l.eraseIdx i).length + 1 := by
  have hi : i < l.length := by
    rcases Nat.lt_or_ge i l.length with h1 | h1
    · exact h1
    · simp [List.getElem?_eq_none h1] at h
  rw [List.length_eraseIdx_of_lt hi]; omega

theorem single_hold {l : List Nat} {i x : Nat} (hl : l.length ≤ 1) (h : l[i]? = some x) :
    l = [x] ∧ l.eraseIdx i = [] := by
  match l, i with
  | [], _ => simp at h
  | [y], 0 => simp at h; simp [h]
  | [y], j+1 => simp at h
  | _ :: _ :: _, _ => simp at hl

/-- structural part of the invariant (holds whether or not the run was stopped from outside) -/
structure Inv (c : Cfg) (input : List Nat) (s : St) : Prop where
  workers : s.fresh + s.idle + s.hold.length + s.wexited = c.n
  pclosed_iff : s.pclosed = true ↔ s.rd = .exited
  spawned_iff : (s.rd = .notStarted ∧ s.spawned = 0) ∨ (s.rd ≠ .notStarted ∧ s.spawned = 1)
  advanced : 0 < s.idle + s.hold.length → s.rd ≠ .notStarted
  notstarted : s.started = false →
    s.fresh = c.n ∧ s.rd = .notStarted ∧ s.kst = .waiting ∧ s.cons ≠ .parked ∧ s.waiters = 0
  nolazy : c.lazy = false → s.started = true
  noout : c.hasOut = false → s.out = [] ∧ s.got = [] ∧ s.cons = .done ∧ s.oclosed = false
  hasout : c.hasOut = true → s.seen = []
  done_wdone : c.hasOut = true → s.cons = .done → s.wdone = true
  kst_wcancel : s.kst ≠ .waiting → s.wcancel = true
  oclosed_kst : c.invalid = false → s.oclosed = true → s.kst = .exited
  nocloser : c.hasCloser = false → s.kst = .waiting
  wexited_why : 0 < s.wexited → s.pclosed = true ∨ s.wdone2 = true ∨ (c.invalid = true ∧ c.hasOut = true)
  kst_exited : s.kst = .exited → s.oclosed = c.hasOut
  waiters_once : c.onceGo = false → s.waiters = 0
  /-- rejected options, with an output: the output was closed by the constructor; nothing is ever delivered -/
  invalid_out : c.invalid = true → c.hasOut = true → s.oclosed = true ∧ s.got = [] ∧ s.out = []
  /-- rejected options, no output: the workers' context is done from the start; no worker ever advances -/
  invalid_noout : c.invalid = true → c.hasOut = false →
    s.wcancel = true ∧ s.idle = 0 ∧ s.hold = [] ∧ s.seen = [] ∧ s.rd = .notStarted
  /-- the source is only read by the reader goroutine -/
  src_untouched : s.rd = .notStarted → s.src = input

/-- conservation, as equality of multiplicities -/
def Conserved (input : List Nat) (s : St) : Prop := ∀ a, s.items.count a = input.count a

/-- while nothing stopped the run from outside -/
structure Clean (c : Cfg) (input : List Nat) (s : St) : Prop where
  dropped : s.droppedW = [] ∧ s.droppedR = []
  ucancel : s.ucancel = false
  rd_exited : s.rd = .exited → s.src = []
  wexited : 0 < s.wexited → s.rd = .exited
  rd_running : s.rd ≠ .exited → s.rd ≠ .notStarted → 0 < s.idle + s.hold.length
  wcancel : s.wcancel = true → s.live = 0
  closed : s.closed = true → s.cons = .done ∧ s.out = [] ∧ s.kst = .exited ∧ c.hasOut = true

theorem inv_init (c : Cfg) (input : List Nat) (k1 k2 : Nat) : Inv c input (init c input k1 k2) := by
  constructor <;> cases hl : c.lazy <;> cases ho : c.hasOut <;> cases hv : c.invalid <;> simp [init, hl, ho, hv, St.wdone, St.wdone2]

theorem conserved_init (c : Cfg) (input : List Nat) (k1 k2 : Nat) : Conserved input (init c input k1 k2) := by
  intro a; simp [init, St.items, GState.held]

theorem clean_init (c : Cfg) (input : List Nat) (k1 k2 : Nat) (hv : c.invalid = false) :
    Clean c input (init c input k1 k2) := by
  constructor <;> simp [init, St.live, GState.held, hv]

set_option maxHeartbeats 1000000 in
theorem step_inv {c : Cfg} {input : List Nat} {s s' : St} {a : Act}
    (h : Inv c input s) (hs : step c s a = some s') : Inv c input s' := by
  obtain ⟨h1, h2, h3, h4, h5, h6, h7, h8, h9, h10, h11, h12, h13, h14, h15, h16, h17, h18⟩ := h
  cases a <;> simp only [step] at hs <;> (repeat' (split at hs)) <;> cases hs
  all_goals (constructor <;> first | (simp_all [St.wdone, St.wdone2, St.live]; done) | grind [St.wdone, St.wdone2, St.live, length_eraseIdx'])

theorem step_conserved {c : Cfg} {input : List Nat} {s s' : St} {a : Act}
    (h : Conserved input s) (hs : step c s a = some s') : Conserved input s' := by
  intro b
  have hb := h b
  cases a <;> simp only [step] at hs <;> (repeat' (split at hs)) <;> cases hs
  all_goals (simp only [St.items, GState.held, List.count_append] at hb ⊢)
  all_goals (try omega)
  all_goals (try (simp_all [List.count_cons]; omega))
  all_goals (try (simp_all [List.count_cons]; done))
  all_goals (rename_i hx _; have := count_eraseIdx b hx; omega)

set_option maxHeartbeats 1000000 in
theorem step_clean {c : Cfg} {input : List Nat} {s s' : St} {a : Act}
    (hv : c.invalid = false) (hi : Inv c input s) (h : s.envStopped = false → Clean c input s)
    (hs : step c s a = some s') : s'.envStopped = false → Clean c input s' := by
  intro he
  have h11' := hi.oclosed_kst hv
  obtain ⟨h1, h2, h3, h4, h5, h6, h7, h8, h9, h10, h11, h12, h13, h14, h15, h16, h17, h18⟩ := hi
  cases a <;> simp only [step] at hs <;> (repeat' (split at hs)) <;> cases hs
  all_goals (first | (simp at he; done) | skip)
  all_goals (obtain ⟨c1, c2, c3, c4, c5, c6, c7⟩ := h he)
  all_goals (constructor <;> first | (simp_all [St.wdone, St.wdone2, St.live, GState.held]; done) | grind [St.wdone, St.wdone2, St.live, GState.held, length_eraseIdx', single_hold])

/-- one worker: exact order in *every* run (also aborted ones): delivered, buffered, held by the worker,
    given up by the worker, held by the reader, given up by the reader, unread -/
structure Ord1 (input : List Nat) (s : St) : Prop where
  order : s.got ++ s.seen ++ s.out ++ s.hold ++ s.droppedW ++ s.rd.held ++ s.droppedR ++ s.src = input
  dw : s.droppedW ≠ [] → s.wexited = 1
  dr : s.droppedR ≠ [] → s.rd = .exited

theorem ord1_init (c : Cfg) (input : List Nat) (k1 k2 : Nat) : Ord1 input (init c input k1 k2) := by
  constructor <;> simp [init, GState.held]

set_option maxHeartbeats 1000000 in
theorem step_ord1 {c : Cfg} {input : List Nat} {s s' : St} {a : Act} (hn : c.n = 1)
    (hi : Inv c input s) (h : Ord1 input s) (hs : step c s a = some s') : Ord1 input s' := by
  obtain ⟨h1, h2, h3, h4, h5, h6, h7, h8, h9, h10, h11, h12, h13, h14, h15, h16, h17, h18⟩ := hi
  obtain ⟨o1, o2, o3⟩ := h
  by_cases hh : a = .rHandoff
  · subst hh
    simp only [step] at hs
    split at hs
    · rename_i x hrd
      split at hs
      · rename_i hid
        cases hs
        have hl : s.hold.length = 0 := by omega
        have hw : s.wexited = 0 := by omega
        have hho : s.hold = [] := List.length_eq_zero_iff.mp hl
        have hdw : s.droppedW = [] := by
          cases hd : s.droppedW with
          | nil => rfl
          | cons y ys => have := o2 (by simp [hd]); omega
        have hdr : s.droppedR = [] := by
          cases hd : s.droppedR with
          | nil => rfl
          | cons y ys => have := o3 (by simp [hd]); simp [hrd] at this
        refine ⟨?_, by simp [hdw], by simp [hdr]⟩
        simp [hho, hdw, hdr, hrd, GState.held] at o1 ⊢
        exact o1
      · cases hs
    · cases hs
  have hdw : 0 < s.fresh + s.idle + s.hold.length → s.droppedW = [] := by
    intro hpos
    cases hd : s.droppedW with
    | nil => rfl
    | cons y ys => have := o2 (by simp [hd]); omega
  have hdr : s.rd ≠ .exited → s.droppedR = [] := by
    intro hne
    cases hd : s.droppedR with
    | nil => rfl
    | cons y ys => exact absurd (o3 (by simp [hd])) hne
  have hlen : s.hold.length ≤ 1 := by omega
  cases a <;> simp only [step] at hs <;> (repeat' (split at hs)) <;> cases hs
  all_goals (first | (exact absurd rfl hh) | skip)
  all_goals (constructor <;> first | (simp_all [GState.held]; done) | grind [GState.held, length_eraseIdx', single_hold])

/-- the three invariants together -/
structure Good (c : Cfg) (input : List Nat) (s : St) : Prop where
  inv : Inv c input s
  conserved : Conserved input s
  clean : c.invalid = false → s.envStopped = false → Clean c input s
  ord1 : c.n = 1 → Ord1 input s

theorem good_init (c : Cfg) (input : List Nat) (k1 k2 : Nat) : Good c input (init c input k1 k2) :=
  ⟨inv_init c input k1 k2, conserved_init c input k1 k2, fun hv _ => clean_init c input k1 k2 hv, fun _ => ord1_init c input k1 k2⟩

theorem step_good {c : Cfg} {input : List Nat} {s s' : St} {a : Act}
    (h : Good c input s) (hs : step c s a = some s') : Good c input s' :=
  ⟨step_inv h.inv hs, step_conserved h.conserved hs, fun hv => step_clean hv h.inv (h.clean hv) hs, fun hn => step_ord1 hn h.inv (h.ord1 hn) hs⟩

theorem run_good {c : Cfg} {input : List Nat} (as : List Act) : ∀ {s s' : St},
    Good c input s → run c s as = some s' → Good c input s' := by
  induction as with
  | nil => intro s s' h hr; simp [run] at hr; subst hr; exact h
  | cons a as ih =>
    intro s s' h hr
    simp only [run, List.foldlM_cons] at hr
    cases hst : step c s a with
    | none => simp [hst] at hr
    | some s1 =>
      simp only [hst] at hr
      exact ih (step_good h hst) hr

theorem reachable_good {c : Cfg} {input : List Nat} {k1 k2 : Nat} {s : St}
    (h : Reachable c input k1 k2 s) : Good c input s := by
  obtain ⟨as, hr⟩ := h
  exact run_good as (good_init c input k1 k2) hr

theorem measure_step {c : Cfg} {s s' : St} {a : Act} (hs : step c s a = some s') : measure s' < measure s := by
  cases a <;> simp only [step] at hs <;> (repeat' (split at hs)) <;> cases hs
  all_goals (try (simp_all [measure, GState.held, GState.rank, CState.rank, KState.rank] <;> omega))
  all_goals (rename_i hx _; have := length_eraseIdx' hx; simp_all [measure, GState.held, GState.rank, CState.rank, KState.rank] <;> omega)

theorem run_length_le {c : Cfg} (as : List Act) : ∀ {s s' : St},
    run c s as = some s' → as.length + measure s' ≤ measure s := by
  induction as with
  | nil => intro s s' hr; simp [run] at hr; subst hr; simp
  | cons a as ih =>
    intro s s' hr
    simp only [run, List.foldlM_cons] at hr
    cases hst : step c s a with
    | none => simp [hst] at hr
    | some s1 =>
      simp only [hst] at hr
      have h1 := measure_step hst
      have h2 := ih hr
      simp only [List.length_cons]; omega

theorem run_nostop {c : Cfg} (as : List Act) : ∀ {s s' : St},
    s.envStopped = false ∧ s.closeBudget = 0 ∧ s.cancelBudget = 0 → run c s as = some s' →
    s'.envStopped = false ∧ s'.closeBudget = 0 ∧ s'.cancelBudget = 0 := by
  induction as with
  | nil => intro s s' h hr; simp [run] at hr; subst hr; exact h
  | cons a as ih =>
    intro s s' h hr
    simp only [run, List.foldlM_cons] at hr
    cases hst : step c s a with
    | none => simp [hst] at hr
    | some s1 =>
      simp only [hst] at hr
      refine ih ?_ hr
      obtain ⟨h1, h2, h3⟩ := h
      cases a <;> simp only [step] at hst <;> (repeat' (split at hst)) <;> cases hst <;> simp_all

/-- in a failure-free run that has ended, everything is with the consumer / the user function -/
theorem terminal_items {c : Cfg} {input : List Nat} {s : St} (h : Good c input s) (hwf : c.wf)
    (hv : c.invalid = false) (hclean : s.envStopped = false) (ht : s.terminal c = true) :
    s.src = [] ∧ s.rd.held = [] ∧ s.hold = [] ∧ s.out = [] ∧ s.droppedW = [] ∧ s.droppedR = [] := by
  obtain ⟨⟨h1, h2, h3, h4, h5, h6, h7, h8, h9, h10, h11, h12, h13, h14, h15, h16, h17, h18⟩, _, hc, _⟩ := h
  obtain ⟨c1, c2, c3, c4, c5, c6, c7⟩ := hc hv hclean
  obtain ⟨w1, w2, w3, w4⟩ := hwf
  simp only [St.terminal, St.allExited, Bool.and_eq_true, Bool.or_eq_true, decide_eq_true_eq, Bool.not_eq_true'] at ht
  obtain ⟨hall, hdone⟩ := ht
  have hstarted : s.started = true := by
    cases hs : s.started with
    | true => rfl
    | false => grind [St.wdone]
  have hlive : s.live = 0 := by grind
  have hl2 := hlive
  unfold St.live at hl2
  have hw : s.wexited = c.n := by omega
  have hrd : s.rd = .exited := c4 (by omega)
  refine ⟨c3 hrd, by simp [hrd, GState.held], ?_, ?_, c1⟩
  · exact List.length_eq_zero_iff.mp (by omega)
  · cases ho : c.hasOut with
    | false => exact (h7 ho).1
    | true =>
      have hwd := h9 ho hdone
      simp [St.wdone, c2] at hwd
      exact (c7 hwd).2.1

/-- a failure-free run that has ended saw the channel the consumer / the workers read closed (io.EOF) -/
theorem terminal_eof {c : Cfg} {input : List Nat} {s : St} (h : Good c input s) (hwf : c.wf)
    (hv : c.invalid = false) (hclean : s.envStopped = false) (ht : s.terminal c = true) :
    s.cons = .done ∧ (if c.hasOut then s.oclosed else s.pclosed) = true := by
  obtain ⟨⟨h1, h2, h3, h4, h5, h6, h7, h8, h9, h10, h11, h12, h13, h14, h15, h16, h17, h18⟩, _, hc, _⟩ := h
  obtain ⟨c1, c2, c3, c4, c5, c6, c7⟩ := hc hv hclean
  obtain ⟨w1, w2, w3, w4⟩ := hwf
  simp only [St.terminal, St.allExited, Bool.and_eq_true, Bool.or_eq_true, decide_eq_true_eq, Bool.not_eq_true'] at ht
  obtain ⟨hall, hdone⟩ := ht
  refine ⟨hdone, ?_⟩
  cases ho : c.hasOut with
  | true =>
    have hwd := h9 ho hdone
    simp [St.wdone, c2] at hwd
    have := h14 (c7 hwd).2.2.1
    simp [this, ho]
  | false =>
    have hstarted : s.started = true := by
      cases hl : c.lazy with
      | false => exact h6 hl
      | true => simp [w2 hl] at ho
    have hlive : s.live = 0 := by grind
    have hl2 := hlive
    unfold St.live at hl2
    have hrd : s.rd = .exited := c4 (by omega)
    simp [h2.mpr hrd]

/-- a terminal state has no live goroutine -/
theorem terminal_noleak {c : Cfg} {s : St} (ht : s.terminal c = true) :
    (if s.started then (if s.rd = .exited || s.rd = .notStarted then 0 else 1) + s.live
      + (if c.hasCloser && s.kst != .exited then 1 else 0) + s.waiters else 0) = 0 := by
  simp only [St.terminal, St.allExited, Bool.and_eq_true, Bool.or_eq_true, decide_eq_true_eq, Bool.not_eq_true'] at ht
  obtain ⟨hall, _⟩ := ht
  cases hs : s.started with
  | false => simp
  | true =>
    simp [hs] at hall
    obtain ⟨⟨⟨hr, hl⟩, hk⟩, hw⟩ := hall
    have : (s.rd = .exited ∨ s.rd = .notStarted) := hr
    simp [hl, hw]
    refine ⟨by rcases this with h | h <;> simp [h], ?_⟩
    intro hcl; rcases hk with h | h
    · simp [hcl] at h
    · exact h

/-- some worker holds an item: one of its actions (or the consumer's) is enabled -/
theorem holder_progress {c : Cfg} {input : List Nat} {s : St} (h : Inv c input s) {x : Nat} {xs : List Nat}
    (hh : s.hold = x :: xs) : ∃ a, a.isEnv = false ∧ (step c s a).isSome = true := by
  have h0 : s.hold[0]? = some x := by simp [hh]
  cases ho : c.hasOut with
  | false => exact ⟨.wFinish 0, rfl, by simp [step, h0, ho]⟩
  | true =>
    cases hoc : s.oclosed with
    | true => exact ⟨.wSendClosed 0, rfl, by simp [step, h0, ho, hoc]⟩
    | false =>
      cases hw : s.wdone2 with
      | true => exact ⟨.wCtxHold 0, rfl, by simp [step, h0, ho, hw]⟩
      | false =>
        cases hc : s.cons with
        | idle => exact ⟨.cStart, rfl, by simp only [step]; split <;> (try split) <;> simp_all⟩
        | done =>
          have := h.done_wdone ho hc
          simp [St.wdone, St.wdone2] at this hw
          simp_all
        | parked =>
          cases hout : s.out with
          | nil => exact ⟨.wHandoff 0, rfl, by simp [step, h0, ho, hoc, hc, hout]⟩
          | cons y ys => exact ⟨.cRecv, rfl, by simp [step, hc, hout]⟩

/-- reader and workers are gone: the closer, a once-waiter or the consumer can move -/
theorem quiescent_progress {c : Cfg} {input : List Nat} {s : St} (h : Inv c input s) (hwf : c.wf)
    (hnt : s.terminal c = false) (hci : ¬ s.cons = .idle) (hkc : ¬ s.kst = .cancelled) (hst : s.started = true)
    (hf0 : s.fresh = 0) (hid0 : s.idle = 0) (hho : s.hold = []) (hrd : s.rd = .exited ∨ s.rd = .notStarted) :
    ∃ a, a.isEnv = false ∧ (step c s a).isSome = true := by
  obtain ⟨w1, w2, w3, w4⟩ := hwf
  obtain ⟨h1, h2, h3, h4, h5, h6, h7, h8, h9, h10, h11, h12, h13, h14, h15, h16, h17, h18⟩ := h
  have hlive : s.live = 0 := by simp [St.live, hf0, hid0, hho]
  cases hk : s.kst with
  | cancelled => exact absurd hk hkc
  | waiting =>
    cases hcl : c.hasCloser with
    | true => exact ⟨.kCancel, rfl, by simp [step, hcl, hst, hk, hlive]⟩
    | false =>
      have ho : c.hasOut = false := by cases ho : c.hasOut with
        | false => rfl
        | true => simp [w4 ho] at hcl
      have hog : c.onceGo = false := by cases hog : c.onceGo with
        | false => rfl
        | true => simp [w3 hog] at hcl
      have := (h7 ho).2.2.1
      have hw := h15 hog
      rcases hrd with hrd | hrd <;> simp [St.terminal, St.allExited, hst, hrd, hlive, hcl, hw, this] at hnt
  | exited =>
    cases hw : s.waiters with
    | succ k => exact ⟨.oExit, rfl, by simp [step, hk, hw]⟩
    | zero =>
      cases hc : s.cons with
      | idle => exact absurd hc hci
      | done => rcases hrd with hrd | hrd <;> simp [St.terminal, St.allExited, hst, hrd, hlive, hk, hw, hc] at hnt
      | parked =>
        cases ho : c.hasOut with
        | false => have := (h7 ho).2.2.1; simp [hc] at this
        | true =>
          cases hout : s.out with
          | cons y ys => exact ⟨.cRecv, rfl, by simp [step, hc, hout]⟩
          | nil =>
            have := h14 hk
            exact ⟨.cEof, rfl, by simp [step, hc, hout, this, ho]⟩

theorem no_deadlock_internal {c : Cfg} {input : List Nat} {s : St} (h : Inv c input s) (hwf : c.wf)
    (hnt : s.terminal c = false) : ∃ a, a.isEnv = false ∧ (step c s a).isSome = true := by
  obtain ⟨w1, w2, w3, w4⟩ := hwf
  have hI := h
  obtain ⟨h1, h2, h3, h4, h5, h6, h7, h8, h9, h10, h11, h12, h13, h14, h15, h16, h17, h18⟩ := h
  by_cases hci : s.cons = .idle
  · exact ⟨.cStart, rfl, by simp only [step]; split <;> (try split) <;> simp_all⟩
  by_cases hkc : s.kst = .cancelled
  · exact ⟨.kClose, rfl, by simp [step, hkc]⟩
  cases hst : s.started with
  | false =>
    obtain ⟨n1, n2, n3, n4, n5⟩ := h5 hst
    cases hc : s.cons with
    | idle => exact absurd hc hci
    | parked => exact absurd hc n4
    | done => simp [St.terminal, St.allExited, hst, hc] at hnt
  | true =>
    by_cases hf : 0 < s.fresh
    · cases hw : s.wdone2 with
      | true => exact ⟨.wCtxFresh, rfl, by simp [step, hst, hf, hw]⟩
      | false => exact ⟨.wAdvance, rfl, by simp only [step]; split <;> (try split) <;> simp_all⟩
    have hf0 : s.fresh = 0 := by omega
    by_cases hidc : 0 < s.idle ∧ s.pclosed = true
    · exact ⟨.wEof, rfl, by simp [step, hidc.1, hidc.2]⟩
    by_cases hidw : 0 < s.idle ∧ s.wdone2 = true
    · exact ⟨.wCtx, rfl, by simp [step, hidw.1, hidw.2]⟩
    cases hrd : s.rd with
    | running hh =>
      cases hw : s.wdone2 with
      | true => exact ⟨.rCtx, rfl, by simp [step, hrd, hw]⟩
      | false =>
        cases hh with
        | none =>
          cases hsrc : s.src with
          | nil => exact ⟨.rEof, rfl, by simp [step, hrd, hsrc]⟩
          | cons x xs => exact ⟨.rRead, rfl, by simp [step, hrd, hsrc, hw]⟩
        | some x =>
          by_cases hid : 0 < s.idle
          · exact ⟨.rHandoff, rfl, by simp [step, hrd, hid]⟩
          cases hho : s.hold with
          | cons y ys => exact holder_progress hI hho
          | nil =>
            have hwx : 0 < s.wexited := by simp [hho] at h1; omega
            rcases h13 hwx with hp | hp | ⟨hv, ho⟩
            · simp [hp] at h2; simp [h2] at hrd
            · simp [hp] at hw
            · -- rejected options: the output is closed and empty, the consumer sees io.EOF
              obtain ⟨i1, _, i3⟩ := h16 hv ho
              cases hc : s.cons with
              | idle => exact absurd hc hci
              | parked => exact ⟨.cEof, rfl, by simp [step, hc, i1, i3]⟩
              | done =>
                have := h9 ho hc
                simp [St.wdone, St.wdone2] at this hw
                simp_all
    | notStarted =>
      have hid0 : s.idle = 0 := by
        rcases Nat.eq_zero_or_pos s.idle with h0 | h0
        · exact h0
        · exact absurd hrd (h4 (by omega))
      cases hho : s.hold with
      | cons y ys => exact absurd hrd (h4 (by simp [hho]; omega))
      | nil => exact quiescent_progress hI ⟨w1, w2, w3, w4⟩ hnt hci hkc hst hf0 hid0 hho (Or.inr hrd)
    | exited =>
      have hpc : s.pclosed = true := h2.mpr hrd
      have hid0 : s.idle = 0 := by
        rcases Nat.eq_zero_or_pos s.idle with h0 | h0
        · exact h0
        · exact absurd ⟨h0, hpc⟩ hidc
      cases hho : s.hold with
      | cons y ys => exact holder_progress hI hho
      | nil => exact quiescent_progress hI ⟨w1, w2, w3, w4⟩ hnt hci hkc hst hf0 hid0 hho (Or.inl hrd)

/-- after Close / cancellation no goroutine needs the consumer to make progress -/
theorem no_deadlock_stopped {c : Cfg} {input : List Nat} {s : St} (h : Inv c input s) (hwf : c.wf)
    (hw : s.wdone = true) (hne : s.allExited c = false) :
    ∃ a, a.isGoroutine = true ∧ (step c s a).isSome = true := by
  obtain ⟨w1, w2, w3, w4⟩ := hwf
  obtain ⟨h1, h2, h3, h4, h5, h6, h7, h8, h9, h10, h11, h12, h13, h14, h15, h16, h17, h18⟩ := h
  have hw2 : s.wdone2 = true := by simp [St.wdone, St.wdone2] at hw ⊢; rcases hw with h | h <;> simp [h]
  cases hst : s.started with
  | false => simp [St.allExited, hst] at hne
  | true =>
    by_cases hf : 0 < s.fresh
    · exact ⟨.wCtxFresh, rfl, by simp [step, hst, hf, hw2]⟩
    by_cases hid : 0 < s.idle
    · exact ⟨.wCtx, rfl, by simp [step, hid, hw2]⟩
    cases hrd : s.rd with
    | running hh => exact ⟨.rCtx, rfl, by simp [step, hrd, hw2]⟩
    | notStarted | exited =>
      cases hho : s.hold with
      | cons x xs =>
        have h0 : s.hold[0]? = some x := by simp [hho]
        cases ho : c.hasOut with
        | false => exact ⟨.wFinish 0, rfl, by simp [step, h0, ho]⟩
        | true => exact ⟨.wCtxHold 0, rfl, by simp [step, h0, ho, hw2]⟩
      | nil =>
        have hlive : s.live = 0 := by simp [St.live, hho]; omega
        cases hk : s.kst with
        | cancelled => exact ⟨.kClose, rfl, by simp [step, hk]⟩
        | waiting =>
          cases hcl : c.hasCloser with
          | true => exact ⟨.kCancel, rfl, by simp [step, hcl, hst, hk, hlive]⟩
          | false =>
            have hog : c.onceGo = false := by cases hog : c.onceGo with
              | false => rfl
              | true => simp [w3 hog] at hcl
            have hwt := h15 hog
            simp [St.allExited, hst, hrd, hlive, hcl, hwt] at hne
        | exited =>
          cases hwt : s.waiters with
          | succ k => exact ⟨.oExit, rfl, by simp [step, hk, hwt]⟩
          | zero => simp [St.allExited, hst, hrd, hlive, hk, hwt] at hne

theorem setup_once {c : Cfg} {input : List Nat} {s : St} (h : Inv c input s) :
    s.spawned ≤ 1 ∧ (0 < s.idle + s.hold.length → s.spawned = 1) := by
  obtain ⟨h1, h2, h3, h4, _⟩ := h
  refine ⟨by rcases h3 with h | h <;> omega, fun hp => ?_⟩
  rcases h3 with h | h
  · exact absurd h.1 (h4 hp)
  · exact h.2

end FunModel.Pipe.FanOut
