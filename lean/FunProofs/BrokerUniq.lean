import FunProofs.Broker

/-! C08, first invariant: every message is in exactly one place inside the broker, was published,
    and reaches (is on its way to) each subscriber at most once. Stated with `List.count` so that
    moving a message between containers is linear arithmetic. -/

namespace FunProofs.Broker
open FunModel.Broker

def callMsgs (calls : List Call) : List Msg := calls.flatMap Call.msgs
def workerMsgs (ws : List Worker) : List Msg := ws.flatMap Worker.msgs
/-- the messages inside the broker: pending Publish calls, the event loop's hand, the distributor,
    the dispatch workers -/
def flight (s : St) : List Msg := callMsgs s.calls ++ s.loop.msgs ++ s.buf ++ workerMsgs s.ws

/-- how often `m` has reached / is on its way to subscriber `k` -/
def dcount (s : St) (k : Sub) (m : Msg) : Nat :=
  (s.recvd k).count m + (s.chan k).count m + s.sends.count (k, m)

structure Uniq (s : St) : Prop where
  once : ∀ m, (flight s ++ s.fin).count m ≤ 1
  pub : ∀ m, 0 < (flight s ++ s.fin).count m → m ∈ s.published
  seq : ∀ m ∈ s.published, m.2 < s.nextSeq m.1
  donce : ∀ (k : Sub) (m : Msg), dcount s k m ≤ 1
  dsrc : ∀ (k : Sub) (m : Msg), 0 < dcount s k m →
    m ∈ s.fin ∨ ∃ (w : Nat) (start visited : List Sub), s.ws[w]? = some (Worker.iter m start visited) ∧ k ∈ visited

theorem count_flight (s : St) (m : Msg) :
    (flight s ++ s.fin).count m
      = (callMsgs s.calls).count m + s.loop.msgs.count m + s.buf.count m + (workerMsgs s.ws).count m
        + s.fin.count m := by
  simp only [flight, List.count_append, Nat.add_assoc]

/-- a step that neither moves a message nor touches what `Uniq` talks about -/
theorem Uniq.of_same {s s' : St} (hu : Uniq s)
    (hf : ∀ m, (flight s' ++ s'.fin).count m = (flight s ++ s.fin).count m)
    (hfin : s'.fin = s.fin) (hpub : s'.published = s.published) (hseq : s'.nextSeq = s.nextSeq)
    (hd : ∀ k m, dcount s' k m = dcount s k m) (hw : s'.ws = s.ws) : Uniq s' := by
  refine ⟨?_, ?_, ?_, ?_, ?_⟩
  · intro m; rw [hf]; exact hu.once m
  · intro m h; rw [hf] at h; rw [hpub]; exact hu.pub m h
  · intro m h; rw [hpub] at h; rw [hseq]; exact hu.seq m h
  · intro k m; rw [hd]; exact hu.donce k m
  · intro k m h; rw [hd] at h; rw [hfin, hw]; exact hu.dsrc k m h

theorem callMsgs_append (a b : List Call) : callMsgs (a ++ b) = callMsgs a ++ callMsgs b := by
  simp [callMsgs]

theorem count_callMsgs_erase {calls : List Call} {i : Nat} {cl : Call} (h : calls[i]? = some cl) (m : Msg) :
    (callMsgs (calls.eraseIdx i)).count m + cl.msgs.count m = (callMsgs calls).count m :=
  count_flatMap_eraseIdx Call.msgs m calls i cl h

theorem count_callMsgs_set {calls : List Call} {i : Nat} {cl cl' : Call} (h : calls[i]? = some cl)
    (hm : cl'.msgs = cl.msgs) (m : Msg) :
    (callMsgs (calls.set i cl')).count m = (callMsgs calls).count m := by
  have := count_flatMap_set Call.msgs m calls i cl cl' h
  rw [hm] at this
  simpa [callMsgs] using this

theorem count_workerMsgs_set {ws : List Worker} {w : Nat} {x : Worker} (h : ws[w]? = some x) (y : Worker)
    (m : Msg) :
    (workerMsgs (ws.set w y)).count m + x.msgs.count m = (workerMsgs ws).count m + y.msgs.count m :=
  count_flatMap_set Worker.msgs m ws w x y h

theorem count_workerMsgs_ge {ws : List Worker} {w : Nat} {x : Worker} (h : ws[w]? = some x) (m : Msg) :
    x.msgs.count m ≤ (workerMsgs ws).count m :=
  count_flatMap_ge Worker.msgs m ws w x h

theorem count_workerMsgs_two {ws : List Worker} {w w' : Nat} {x y : Worker} (h : ws[w]? = some x)
    (h' : ws[w']? = some y) (hne : w ≠ w') (m : Msg) :
    x.msgs.count m + y.msgs.count m ≤ (workerMsgs ws).count m :=
  count_flatMap_two Worker.msgs m ws w w' x y h h' hne

theorem uniq_init (c : Cfg) : Uniq (init c) := by
  have hw : ∀ n, workerMsgs (List.replicate n Worker.idle) = [] := by
    intro n; induction n with
    | zero => rfl
    | succ n ih => simp [workerMsgs, List.replicate_succ, Worker.msgs] at ih ⊢
  refine ⟨?_, ?_, ?_, ?_, ?_⟩
  · intro m; simp [init, flight, callMsgs, Loop.msgs, hw]
  · intro m; simp [init, flight, callMsgs, Loop.msgs, hw]
  · intro m h; simp [init] at h
  · intro k m; simp [init, dcount]
  · intro k m h; simp [init, dcount] at h

theorem sendTo_count {b : Backend} {buf : List Msg} {m : Msg} {accept : Bool} {buf' dropped : List Msg}
    (h : sendTo b buf m accept = some (buf', dropped)) (x : Msg) :
    buf'.count x + dropped.count x = buf.count x + [m].count x := by
  cases b with
  | fifo =>
    simp only [sendTo] at h
    split at h
    · cases h; simp [List.count_append]
    · cases h
  | blocking cap =>
    simp only [sendTo] at h
    split at h
    · cases h; simp [List.count_append]
    · cases h
  | shedding hard =>
    simp only [sendTo] at h
    split at h
    · split at h
      · cases h; simp [List.count_append]
      · cases h
    · split at h
      · cases h
      · cases h; simp
  | evicting cap =>
    simp only [sendTo] at h
    split at h
    · cases h
    · split at h
      · cases h; simp [List.count_append]
      · split at h
        · cases h; simp
        · cases h; simp [List.count_append, List.count_cons]; omega

/-- a step under which every message stays where `Uniq.once` counts it -/
theorem Uniq.of_move {s s' : St} (hu : Uniq s)
    (hf : ∀ m, (flight s' ++ s'.fin).count m = (flight s ++ s.fin).count m)
    (hpub : s'.published = s.published) (hseq : s'.nextSeq = s.nextSeq)
    (hd : ∀ (k : Sub) (m : Msg), dcount s' k m ≤ 1)
    (hsrc : ∀ (k : Sub) (m : Msg), 0 < dcount s' k m →
      m ∈ s'.fin ∨ ∃ (w : Nat) (start visited : List Sub), s'.ws[w]? = some (Worker.iter m start visited) ∧ k ∈ visited) :
    Uniq s' := by
  refine ⟨?_, ?_, ?_, hd, hsrc⟩
  · intro m; rw [hf]; exact hu.once m
  · intro m h; rw [hf] at h; rw [hpub]; exact hu.pub m h
  · intro m h; rw [hpub] at h; rw [hseq]; exact hu.seq m h

theorem getElem?_set_self' {α : Type} {l : List α} {i : Nat} {x y : α} (h : l[i]? = some x) :
    (l.set i y)[i]? = some y := by
  have hi : i < l.length := by
    rcases Nat.lt_or_ge i l.length with h' | h'
    · exact h'
    · simp [List.getElem?_eq_none h'] at h
  simp [hi]

/-- replacing worker `w` keeps the witnesses of `Uniq.dsrc`, provided a ranging worker stays
    ranging over the same message with at least the same keys visited -/
theorem witness_set {ws : List Worker} {w : Nat} {x y : Worker} (hw : ws[w]? = some x)
    (hxy : ∀ m start visited, x = Worker.iter m start visited →
      ∃ visited', y = Worker.iter m start visited' ∧ ∀ k ∈ visited, k ∈ visited')
    {m : Msg} {k : Sub}
    (h : ∃ (w2 : Nat) (start visited : List Sub), ws[w2]? = some (Worker.iter m start visited) ∧ k ∈ visited) :
    ∃ (w2 : Nat) (start visited : List Sub), (ws.set w y)[w2]? = some (Worker.iter m start visited) ∧ k ∈ visited := by
  obtain ⟨w2, start, visited, h2, hk⟩ := h
  by_cases he : w2 = w
  · subst he
    rw [hw] at h2
    obtain ⟨visited', hy, hsub⟩ := hxy m start visited (Option.some.inj h2)
    exact ⟨w2, start, visited', by rw [getElem?_set_self' hw, hy], hsub k hk⟩
  · exact ⟨w2, start, visited, by rw [List.getElem?_set_ne (Ne.symm he)]; exact h2, hk⟩

/-- worker `w` finishes its message `m` (which goes to `fin`): the other witnesses stay -/
theorem witness_done {ws : List Worker} {w : Nat} {x y : Worker} {m0 : Msg} (hw : ws[w]? = some x)
    (hx : x.msgs = [m0]) {fin : List Msg} {m : Msg} {k : Sub}
    (h : m ∈ fin ∨ ∃ (w2 : Nat) (start visited : List Sub), ws[w2]? = some (Worker.iter m start visited) ∧ k ∈ visited) :
    m ∈ m0 :: fin ∨ ∃ (w2 : Nat) (start visited : List Sub), (ws.set w y)[w2]? = some (Worker.iter m start visited) ∧ k ∈ visited := by
  rcases h with h | ⟨w2, start, visited, h2, hk⟩
  · exact Or.inl (List.mem_cons_of_mem _ h)
  · by_cases he : w2 = w
    · subst he
      rw [hw] at h2
      have := Option.some.inj h2
      subst this
      simp only [Worker.msgs, List.cons.injEq, and_true] at hx
      exact Or.inl (by simp [hx])
    · exact Or.inr ⟨w2, start, visited, by rw [List.getElem?_set_ne (Ne.symm he)]; exact h2, hk⟩

theorem uniq_step {c : Cfg} {s s' : St} {a : Act} (hu : Uniq s) (h : Step c s a s') : Uniq s' := by
  cases h
  case subCall =>
    apply hu.of_same <;> intros <;> simp [flight, callMsgs, Call.msgs, List.flatMap_append, dcount]
  case unsubCall k =>
    apply hu.of_same <;> intros <;> simp [flight, callMsgs, Call.msgs, List.flatMap_append, dcount]
  case statsCall =>
    apply hu.of_same <;> intros <;> simp [flight, callMsgs, Call.msgs, List.flatMap_append, dcount]
  case waitCall =>
    apply hu.of_same <;> intros <;> simp [flight, callMsgs, Call.msgs, List.flatMap_append, dcount]
  case cancelCall i cl hc =>
    apply hu.of_same <;> intros <;> try (simp [dcount]; done)
    rename_i m
    rw [count_flight, count_flight]
    simp [count_callMsgs_set hc (cl' := { cl with cancelled := true }) (by simp [Call.msgs]) m]
  case stop => apply hu.of_same <;> intros <;> simp [flight, dcount]
  case openSub k => apply hu.of_same <;> intros <;> simp [flight, dcount]
  case gateSub k => apply hu.of_same <;> intros <;> simp [flight, dcount]
  case observeQuiet hq => apply hu.of_same <;> intros <;> simp [flight, dcount]
  case census hq => apply hu.of_same <;> intros <;> simp [flight, dcount]
  case enqSub i k x hc hq =>
    apply hu.of_same <;> intros <;> try (simp [dcount]; done)
    rename_i m
    have := count_callMsgs_erase hc m
    rw [count_flight, count_flight]; simp [Call.msgs] at this ⊢; omega
  case enqUnsub i k x hc hq =>
    apply hu.of_same <;> intros <;> try (simp [dcount]; done)
    rename_i m
    have := count_callMsgs_erase hc m
    rw [count_flight, count_flight]; simp [Call.msgs] at this ⊢; omega
  case waitRet i x hc hl hw =>
    apply hu.of_same <;> intros <;> try (simp [dcount]; done)
    rename_i m
    have := count_callMsgs_erase hc m
    rw [count_flight, count_flight]; simp [Call.msgs] at this ⊢; omega
  case loopSubQ k rest hl hq => apply hu.of_same <;> intros <;> simp [flight, dcount]
  case loopUnsubQ k rest hl hq => apply hu.of_same <;> intros <;> simp [flight, dcount]
  case loopSub i k x hl hc =>
    apply hu.of_same <;> intros <;> try (simp [dcount]; done)
    rename_i m
    have := count_callMsgs_erase hc m
    rw [count_flight, count_flight]; simp [Call.msgs] at this ⊢; omega
  case loopUnsub i k x hl hc =>
    apply hu.of_same <;> intros <;> try (simp [dcount]; done)
    rename_i m
    have := count_callMsgs_erase hc m
    rw [count_flight, count_flight]; simp [Call.msgs] at this ⊢; omega
  case loopStats i x hl hc =>
    apply hu.of_same <;> intros <;> try (simp [dcount]; done)
    rename_i m
    have := count_callMsgs_erase hc m
    rw [count_flight, count_flight]; simp [Call.msgs] at this ⊢; omega
  case loopExit hl hd =>
    apply hu.of_same <;> intros <;> try (simp [dcount]; done)
    rw [count_flight, count_flight]; simp [hl, Loop.msgs]
  case pubCall p hp =>
    have hfresh : (flight s ++ s.fin).count (p, s.nextSeq p) = 0 := by
      apply Nat.eq_zero_of_not_pos
      intro hpos
      have := hu.seq _ (hu.pub _ hpos)
      simp at this
    have hcnt : ∀ m, (callMsgs (s.calls ++ [{ kind := .pub (p, s.nextSeq p) }])).count m
        = (callMsgs s.calls).count m + (if m = (p, s.nextSeq p) then 1 else 0) := by
      intro m
      simp only [callMsgs_append, List.count_append]
      by_cases hm : m = (p, s.nextSeq p)
      · simp [callMsgs, Call.msgs, hm]
      · simp [callMsgs, Call.msgs, hm, List.count_cons]
        intro h; exact absurd h.symm hm
    refine ⟨?_, ?_, ?_, ?_, ?_⟩
    · intro m
      have h1 := hu.once m
      rw [count_flight] at h1 hfresh ⊢
      simp only [hcnt]
      by_cases hm : m = (p, s.nextSeq p)
      · subst hm; simp; omega
      · simp [hm]; omega
    · intro m hm
      rw [count_flight] at hm
      simp only [hcnt] at hm
      by_cases he : m = (p, s.nextSeq p)
      · simp [he]
      · simp only [he, if_false, Nat.add_zero] at hm
        rw [← count_flight] at hm
        exact List.mem_cons_of_mem _ (hu.pub m hm)
    · intro m hm
      simp only [List.mem_cons] at hm
      rcases hm with rfl | hm
      · simp
      · have := hu.seq m hm
        simp only [upd_apply]
        split
        · rename_i he; rw [he] at this; omega
        · omega
    · exact hu.donce
    · exact hu.dsrc
  case callAbort i cl hc hx =>
    refine hu.of_move ?_ rfl rfl hu.donce ?_
    · intro m
      have := count_callMsgs_erase hc m
      rw [count_flight, count_flight]; simp only [List.count_append]; omega
    · intro k m hm
      rcases hu.dsrc k m hm with h | h
      · exact Or.inl (List.mem_append_right _ h)
      · exact Or.inr h
  case loopTake i m x hl hc =>
    refine hu.of_move ?_ rfl rfl hu.donce hu.dsrc
    intro m'
    have := count_callMsgs_erase hc m'
    rw [count_flight, count_flight]; simp [Call.msgs, Loop.msgs, hl] at this ⊢; omega
  case loopSend accept m buf' dropped hl hs =>
    refine hu.of_move ?_ rfl rfl hu.donce ?_
    · intro m'
      have := sendTo_count hs m'
      rw [count_flight, count_flight]; simp only [List.count_append, hl, Loop.msgs, List.count_nil] at this ⊢; omega
    · intro k m' hm
      rcases hu.dsrc k m' hm with h | h
      · exact Or.inl (List.mem_append_right _ h)
      · exact Or.inr h
  case loopSendAbort m hl hd =>
    refine hu.of_move ?_ rfl rfl hu.donce ?_
    · intro m'
      rw [count_flight, count_flight]; simp only [List.count_cons, hl, Loop.msgs, List.count_nil]; omega
    · intro k m' hm
      rcases hu.dsrc k m' hm with h | h
      · exact Or.inl (List.mem_cons_of_mem _ h)
      · exact Or.inr h
  case wRecvBuf w m rest hw hb =>
    refine hu.of_move ?_ rfl rfl hu.donce ?_
    · intro m'
      have := count_workerMsgs_set hw (.got m) m'
      rw [count_flight, count_flight]
      simp only [hb, List.count_cons, Worker.msgs, List.count_nil] at this ⊢; omega
    · intro k m' hm
      rcases hu.dsrc k m' hm with h | h
      · exact Or.inl h
      · exact Or.inr (witness_set hw (by intro _ _ _ h; cases h) h)
  case wRecvDirect w m cap hw hb hl hc =>
    refine hu.of_move ?_ rfl rfl hu.donce ?_
    · intro m'
      have := count_workerMsgs_set hw (.got m) m'
      rw [count_flight, count_flight]
      simp only [hl, Loop.msgs, List.count_cons, Worker.msgs, List.count_nil] at this ⊢; omega
    · intro k m' hm
      rcases hu.dsrc k m' hm with h | h
      · exact Or.inl h
      · exact Or.inr (witness_set hw (by intro _ _ _ h; cases h) h)
  case wStart w m hw =>
    refine hu.of_move ?_ rfl rfl hu.donce ?_
    · intro m'
      have := count_workerMsgs_set hw (.iter m s.subs []) m'
      rw [count_flight, count_flight]
      simp only [Worker.msgs] at this ⊢; omega
    · intro k m' hm
      rcases hu.dsrc k m' hm with h | h
      · exact Or.inl h
      · exact Or.inr (witness_set hw (by intro _ _ _ h; cases h) h)
  case wDone w m start visited hw hr hp =>
    refine hu.of_move ?_ rfl rfl hu.donce ?_
    · intro m'
      have := count_workerMsgs_set hw .idle m'
      rw [count_flight, count_flight]
      simp only [Worker.msgs, List.count_cons, List.count_nil] at this ⊢; omega
    · intro k m' hm
      exact witness_done hw rfl (hu.dsrc k m' hm)
  case wAbandonGot w m hd hw =>
    refine hu.of_move ?_ rfl rfl hu.donce ?_
    · intro m'
      have := count_workerMsgs_set hw .idle m'
      rw [count_flight, count_flight]
      simp only [Worker.msgs, List.count_cons, List.count_nil] at this ⊢; omega
    · intro k m' hm
      exact witness_done hw rfl (hu.dsrc k m' hm)
  case wAbandonIter w m start visited hd hw =>
    refine hu.of_move ?_ rfl rfl hu.donce ?_
    · intro m'
      have := count_workerMsgs_set hw .idle m'
      rw [count_flight, count_flight]
      simp only [Worker.msgs, List.count_cons, List.count_nil] at this ⊢; omega
    · intro k m' hm
      exact witness_done hw rfl (hu.dsrc k m' hm)
  case wExit w hd hw =>
    refine hu.of_move ?_ rfl rfl hu.donce ?_
    · intro m'
      have := count_workerMsgs_set hw .exited m'
      rw [count_flight, count_flight]
      simp only [Worker.msgs, List.count_nil] at this ⊢; omega
    · intro k m' hm
      rcases hu.dsrc k m' hm with h | h
      · exact Or.inl h
      · exact Or.inr (witness_set hw (by intro _ _ _ h; cases h) h)
  case wNext w k m start visited hw hk hv hp =>
    have hzero : dcount s k m = 0 := by
      apply Nat.eq_zero_of_not_pos
      intro hpos
      have hge := count_workerMsgs_ge hw m
      have honce := hu.once m
      rw [count_flight] at honce
      simp only [Worker.msgs, List.count_cons_self, List.count_nil] at hge
      rcases hu.dsrc k m hpos with hfin | ⟨w2, start2, visited2, h2, hk2⟩
      · have : 0 < s.fin.count m := List.count_pos_iff.mpr hfin
        omega
      · by_cases he : w2 = w
        · subst he
          rw [hw] at h2
          cases Option.some.inj h2
          exact hv hk2
        · have := count_workerMsgs_two hw h2 (Ne.symm he) m
          simp only [Worker.msgs, List.count_cons_self, List.count_nil] at this
          omega
    have hdc : ∀ (k' : Sub) (m' : Msg), dcount
        { s with ws := s.ws.set w (.iter m start (k :: visited)), sends := s.sends ++ [(k, m)] } k' m'
        = dcount s k' m' + (if (k', m') = (k, m) then 1 else 0) := by
      intro k' m'
      simp only [dcount, List.count_append, List.count_cons, List.count_nil]
      by_cases he : (k', m') = (k, m)
      · simp [he]; omega
      · have : ¬ ((k, m) == (k', m')) = true := by
          simp only [beq_iff_eq]; exact fun h => he h.symm
        simp [he, this]
    refine hu.of_move ?_ rfl rfl ?_ ?_
    · intro m'
      have := count_workerMsgs_set hw (.iter m start (k :: visited)) m'
      rw [count_flight, count_flight]
      simp only [Worker.msgs] at this ⊢; omega
    · intro k' m'
      rw [hdc]
      have := hu.donce k' m'
      by_cases he : (k', m') = (k, m)
      · cases he; simp; omega
      · simp [he]; exact this
    · intro k' m' hpos
      rw [hdc] at hpos
      by_cases he : (k', m') = (k, m)
      · cases he
        exact Or.inr ⟨w, start, k :: visited, getElem?_set_self' hw, List.mem_cons_self⟩
      · simp only [he, if_false, Nat.add_zero] at hpos
        rcases hu.dsrc k' m' hpos with h | h
        · exact Or.inl h
        · refine Or.inr (witness_set hw ?_ h)
          intro m1 s1 v1 h1
          cases h1
          exact ⟨k :: visited, rfl, fun x hx => List.mem_cons_of_mem _ hx⟩
  case deliver k m hs hb =>
    apply hu.of_same <;> intros <;> try (simp [flight]; done)
    rename_i k' m'
    have hpos : 0 < s.sends.count (k, m) := List.count_pos_iff.mpr hs
    simp only [dcount, List.count_erase, upd_apply]
    by_cases hk : k' = k
    · subst hk
      by_cases hm : m' = m
      · subst hm; simp [List.count_append]; omega
      · have : ¬ (m = m') := fun h => hm h.symm
        simp [List.count_append, this]
    · have : ¬ (k = k') := fun h => hk h.symm
      simp [hk, this]
  case handoff k m hs hb ho =>
    apply hu.of_same <;> intros <;> try (simp [flight]; done)
    rename_i k' m'
    have hpos : 0 < s.sends.count (k, m) := List.count_pos_iff.mpr hs
    simp only [dcount, List.count_erase, upd_apply]
    by_cases hk : k' = k
    · subst hk
      by_cases hm : m' = m
      · subst hm; simp [List.count_append]; omega
      · have : ¬ (m = m') := fun h => hm h.symm
        simp [List.count_append, this]
    · have : ¬ (k = k') := fun h => hk h.symm
      simp [hk, this]
  case recv k m rest hb ho =>
    apply hu.of_same <;> intros <;> try (simp [flight]; done)
    rename_i k' m'
    simp only [dcount, upd_apply]
    by_cases hk : k' = k
    · subst hk
      simp [hb, List.count_append, List.count_cons]; omega
    · simp [hk]
  case sendAbort k m hs hd =>
    have hle : ∀ (k' : Sub) (m' : Msg), dcount { s with sends := s.sends.erase (k, m) } k' m' ≤ dcount s k' m' := by
      intro k' m'
      simp only [dcount, List.count_erase]; omega
    refine hu.of_move ?_ rfl rfl ?_ ?_
    · intro m'; simp [flight]
    · intro k' m'; exact Nat.le_trans (hle k' m') (hu.donce k' m')
    · intro k' m' hpos
      exact hu.dsrc k' m' (Nat.lt_of_lt_of_le hpos (hle k' m'))


theorem uniq_reachable {c : Cfg} {s : St} (h : Reachable c s) : Uniq s :=
  reachable_induction Uniq (uniq_init c) (fun _ _ _ _ hu hs => uniq_step hu hs) s h

/-- what a subscriber received: no message twice, only messages a Publish call was made for -/
theorem Uniq.recvd_ok {s : St} (hu : Uniq s) (k : Sub) :
    (s.recvd k).Nodup ∧ ∀ m ∈ s.recvd k, m ∈ s.published := by
  constructor
  · rw [List.nodup_iff_count]
    intro m
    have := hu.donce k m
    simp only [dcount] at this
    omega
  · intro m hm
    have hpos : 0 < dcount s k m := by
      have : 0 < (s.recvd k).count m := List.count_pos_iff.mpr hm
      simp only [dcount]; omega
    apply hu.pub
    rw [count_flight]
    rcases hu.dsrc k m hpos with h | ⟨w, start, visited, hw, _⟩
    · have : 0 < s.fin.count m := List.count_pos_iff.mpr h
      omega
    · have := count_workerMsgs_ge hw m
      simp only [Worker.msgs, List.count_cons_self, List.count_nil] at this
      omega

end FunProofs.Broker
