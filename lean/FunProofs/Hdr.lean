import FunModel.Hdr

/-! Helper lemmas for C19 (HDR histogram). The property theorems are in `FunProps/C19.lean`. -/

namespace FunModel.Hdr

/-! ## powers of two -/

theorem two_pow_pos' (k : Nat) : 0 < 2 ^ k := Nat.pow_pos (by decide)

theorem pow_le_pow2 {a b : Nat} (h : a ≤ b) : 2 ^ a ≤ 2 ^ b := Nat.pow_le_pow_right (by decide) h

theorem pow_lt_pow2 {a b : Nat} (h : a < b) : 2 ^ a < 2 ^ b := Nat.pow_lt_pow_right (by decide) h

theorem lt_of_pow2_lt {a b : Nat} (h : 2 ^ a < 2 ^ b) : a < b :=
  (Nat.pow_lt_pow_iff_right (by decide)).1 h

/-- `2^a ≤ x < 2^b` forces `a < b` -/
theorem lt_of_pow2_le_lt {a b x : Nat} (h1 : 2 ^ a ≤ x) (h2 : x < 2 ^ b) : a < b :=
  lt_of_pow2_lt (Nat.lt_of_le_of_lt h1 h2)

/-! ## `bitLen` -/

theorem bitLen_zero : bitLen 0 = 0 := by simp [bitLen]

theorem lt_pow_bitLen (x : Nat) : x < 2 ^ bitLen x := by
  unfold bitLen
  by_cases h : x = 0
  · simp [h]
  · simp only [h, if_false]; exact Nat.lt_log2_self

theorem pow_bitLen_le {x : Nat} (h : x ≠ 0) : 2 ^ (bitLen x - 1) ≤ x := by
  unfold bitLen
  simp only [h, if_false, Nat.add_sub_cancel]; exact Nat.log2_self_le h

theorem bitLen_eq_of {x n : Nat} (h1 : 2 ^ n ≤ x) (h2 : x < 2 ^ (n + 1)) : bitLen x = n + 1 := by
  have hx : x ≠ 0 := by
    have := two_pow_pos' n
    omega
  unfold bitLen
  simp only [hx, if_false]
  rw [(Nat.log2_eq_iff hx).2 ⟨h1, h2⟩]

theorem bitLen_le_of_lt {x n : Nat} (h : x < 2 ^ n) : bitLen x ≤ n := by
  by_cases hx : x = 0
  · simp [hx, bitLen_zero]
  · have := pow_bitLen_le hx
    have := lt_of_pow2_le_lt this h
    omega

theorem le_bitLen_of_le {x n : Nat} (h : 2 ^ n ≤ x) : n + 1 ≤ bitLen x := by
  have := lt_of_pow2_le_lt h (lt_pow_bitLen x)
  omega

theorem bitLen_mono {x y : Nat} (h : x ≤ y) : bitLen x ≤ bitLen y :=
  bitLen_le_of_lt (Nat.lt_of_le_of_lt h (lt_pow_bitLen y))

/-- shifting right by `k` removes exactly `k` bits, provided there are at least `k` -/
theorem bitLen_shiftRight {x k : Nat} (hk : 1 ≤ k) (h : 2 ^ (k - 1) ≤ x) :
    bitLen (x >>> k) + k = bitLen x := by
  rw [Nat.shiftRight_eq_div_pow]
  by_cases h0 : x / 2 ^ k = 0
  · have hlt : x < 2 ^ k := by
      rcases Nat.div_eq_zero_iff.1 h0 with h' | h'
      · have := two_pow_pos' k; omega
      · exact h'
    have : bitLen x = (k - 1) + 1 := bitLen_eq_of h (by rwa [Nat.sub_add_cancel hk])
    rw [h0, bitLen_zero]; omega
  · -- x / 2^k ≠ 0
    have hb := pow_bitLen_le h0
    have hu := lt_pow_bitLen (x / 2 ^ k)
    have hpos : 1 ≤ bitLen (x / 2 ^ k) := by
      cases hbl : bitLen (x / 2 ^ k) with
      | zero => rw [hbl, Nat.pow_zero] at hu; exact absurd (Nat.lt_one_iff.1 hu) h0
      | succ m => omega
    have h1 : 2 ^ (bitLen (x / 2 ^ k) - 1 + k) ≤ x := by
      rw [Nat.pow_add]
      exact (Nat.le_div_iff_mul_le (two_pow_pos' k)).1 hb
    have h2 : x < 2 ^ (bitLen (x / 2 ^ k) - 1 + k + 1) := by
      have : bitLen (x / 2 ^ k) - 1 + k + 1 = bitLen (x / 2 ^ k) + k := by omega
      rw [this, Nat.pow_add]
      exact (Nat.div_lt_iff_lt_mul (two_pow_pos' k)).1 hu
    rw [bitLen_eq_of h1 h2]; omega

/-! ## `bitLenGo`: the Go loop computes `bitLen` -/

/-- one "if x ≥ 2^(k-1) { x >>= k; n += k }" step of the Go code, on the pair (x, n) -/
def bitStep (k : Nat) (p : Nat × Nat) : Nat × Nat :=
  if p.1 ≥ 2 ^ (k - 1) then (p.1 >>> k, p.2 + k) else p

theorem bitLenGo_unfold (x : Nat) :
    bitLenGo x =
      (let p := bitStep 2 (bitStep 4 (bitStep 8 (bitLenLoop 8 x 0)))
       if p.1 ≥ 1 then p.2 + 1 else p.2) := rfl

theorem bitStep_spec (k : Nat) (hk : 1 ≤ k) (p : Nat × Nat) :
    (bitStep k p).2 + bitLen (bitStep k p).1 = p.2 + bitLen p.1 ∧
      (p.1 < 2 ^ (2 * k - 1) → (bitStep k p).1 < 2 ^ (k - 1)) := by
  unfold bitStep
  by_cases h : p.1 ≥ 2 ^ (k - 1)
  · simp only [h, if_true]
    refine ⟨?_, ?_⟩
    · have := bitLen_shiftRight hk h; omega
    · intro hlt
      rw [Nat.shiftRight_eq_div_pow]
      apply (Nat.div_lt_iff_lt_mul (two_pow_pos' k)).2
      rw [← Nat.pow_add]
      have : k - 1 + k = 2 * k - 1 := by omega
      rwa [this]
  · rw [if_neg h]
    exact ⟨rfl, fun _ => by omega⟩

theorem bitLenLoop_spec (fuel x n : Nat) :
    (bitLenLoop fuel x n).2 + bitLen (bitLenLoop fuel x n).1 = n + bitLen x ∧
      (x < 2 ^ (16 * fuel + 15) → (bitLenLoop fuel x n).1 < 2 ^ 15) := by
  induction fuel generalizing x n with
  | zero => exact ⟨rfl, fun h => h⟩
  | succ f ih =>
    unfold bitLenLoop
    by_cases h : x ≥ 0x8000
    · simp only [h, if_true]
      obtain ⟨ih1, ih2⟩ := ih (x >>> 16) (n + 16)
      refine ⟨?_, ?_⟩
      · have := bitLen_shiftRight (x := x) (k := 16) (by decide) h; omega
      · intro hlt
        apply ih2
        rw [Nat.shiftRight_eq_div_pow]
        apply (Nat.div_lt_iff_lt_mul (two_pow_pos' 16)).2
        rw [← Nat.pow_add]
        have : 16 * f + 15 + 16 = 16 * (f + 1) + 15 := by omega
        rwa [this]
    · rw [if_neg h]
      exact ⟨rfl, fun _ => by omega⟩

theorem bitLenGo_eq_bitLen (x : Nat) (h : x < 2 ^ 63) : bitLenGo x = bitLen x := by
  rw [bitLenGo_unfold]
  obtain ⟨l1, l2⟩ := bitLenLoop_spec 8 x 0
  have l2' := l2 (Nat.lt_of_lt_of_le h (pow_le_pow2 (by decide)))
  generalize bitLenLoop 8 x 0 = p0 at l1 l2'
  obtain ⟨a1, a2⟩ := bitStep_spec 8 (by decide) p0
  have a2' := a2 l2'
  generalize bitStep 8 p0 = p1 at a1 a2'
  obtain ⟨b1, b2⟩ := bitStep_spec 4 (by decide) p1
  have b2' := b2 a2'
  generalize bitStep 4 p1 = p2 at b1 b2'
  obtain ⟨c1, c2⟩ := bitStep_spec 2 (by decide) p2
  have c2' := c2 b2'
  generalize bitStep 2 p2 = p3 at c1 c2'
  simp only []
  have hp3 : p3.1 < 2 := c2'
  by_cases h1 : p3.1 ≥ 1
  · have : p3.1 = 1 := by omega
    have hb : bitLen p3.1 = 1 := by rw [this]; exact bitLen_eq_of (n := 0) (by decide) (by decide)
    simp only [h1, if_true]; omega
  · have : p3.1 = 0 := by omega
    have hb : bitLen p3.1 = 0 := by rw [this]; exact bitLen_zero
    simp only [h1, if_false]; omega

/-! ## bucket arithmetic (valid for every `Shape`) -/

namespace Shape
variable (s : Shape)

theorem subBucketCount_eq : s.subBucketCount = 2 * 2 ^ s.halfMag := by
  unfold subBucketCount; rw [Nat.pow_succ]; omega

theorem subBucketHalfCount_eq : s.subBucketHalfCount = 2 ^ s.halfMag := by
  unfold subBucketHalfCount; rw [subBucketCount_eq]; omega

theorem countsLen_eq : s.countsLen = (s.bucketCount + 1) * 2 ^ s.halfMag := by
  unfold countsLen; rw [subBucketCount_eq]
  have : 2 * 2 ^ s.halfMag / 2 = 2 ^ s.halfMag := by omega
  rw [this]

theorem mask_lt : s.subBucketMask < 2 ^ (s.halfMag + 1 + s.unitMag) := by
  unfold subBucketMask subBucketCount
  rw [Nat.shiftLeft_eq, Nat.pow_add 2 (s.halfMag + 1) s.unitMag]
  apply Nat.mul_lt_mul_of_lt_of_le _ (Nat.le_refl _) (two_pow_pos' _)
  have := two_pow_pos' (s.halfMag + 1); omega

theorem mask_ge : 2 ^ (s.halfMag + s.unitMag) ≤ s.subBucketMask := by
  unfold subBucketMask subBucketCount
  rw [Nat.shiftLeft_eq, Nat.pow_add 2 s.halfMag s.unitMag]
  apply Nat.mul_le_mul_right
  rw [Nat.pow_succ]
  have := two_pow_pos' s.halfMag; omega

/-- the defining property of `getBucketIndex` -/
theorem bucketIdx_spec (v : Nat) :
    v < 2 ^ (s.bucketIdx v + s.halfMag + 1 + s.unitMag) ∧
      (s.bucketIdx v = 0 ∨ 2 ^ (s.bucketIdx v + s.halfMag + s.unitMag) ≤ v) := by
  have hm1 := s.mask_lt
  have hm2 := s.mask_ge
  unfold bucketIdx
  by_cases hv : v < 2 ^ (s.halfMag + 1 + s.unitMag)
  · have h1 : v ||| s.subBucketMask < 2 ^ (s.halfMag + s.unitMag + 1) := by
      have e : s.halfMag + s.unitMag + 1 = s.halfMag + 1 + s.unitMag := by omega
      rw [e]; exact Nat.or_lt_two_pow hv hm1
    have h2 : 2 ^ (s.halfMag + s.unitMag) ≤ v ||| s.subBucketMask :=
      Nat.le_trans hm2 Nat.right_le_or
    rw [bitLen_eq_of h2 h1]
    have e : s.halfMag + s.unitMag + 1 - s.unitMag - (s.halfMag + 1) = 0 := by omega
    rw [e]
    refine ⟨?_, Or.inl rfl⟩
    have e : 0 + s.halfMag + 1 + s.unitMag = s.halfMag + 1 + s.unitMag := by omega
    rw [e]; exact hv
  · have hv : 2 ^ (s.halfMag + 1 + s.unitMag) ≤ v := Nat.le_of_not_lt hv
    have hk := le_bitLen_of_le hv
    have hv0 : v ≠ 0 := by have := two_pow_pos' (s.halfMag + 1 + s.unitMag); omega
    have hlo := pow_bitLen_le hv0
    have hhi := lt_pow_bitLen v
    have h1 : v ||| s.subBucketMask < 2 ^ (bitLen v - 1 + 1) := by
      have e : bitLen v - 1 + 1 = bitLen v := by omega
      rw [e]
      apply Nat.or_lt_two_pow hhi
      exact Nat.lt_of_lt_of_le hm1 (pow_le_pow2 (by omega))
    have h2 : 2 ^ (bitLen v - 1) ≤ v ||| s.subBucketMask := Nat.le_trans hlo Nat.left_le_or
    rw [bitLen_eq_of h2 h1]
    have e1 : bitLen v - 1 + 1 - s.unitMag - (s.halfMag + 1) + s.halfMag + 1 + s.unitMag
        = bitLen v := by omega
    have e2 : bitLen v - 1 + 1 - s.unitMag - (s.halfMag + 1) + s.halfMag + s.unitMag
        = bitLen v - 1 := by omega
    rw [e1, e2]
    exact ⟨hhi, Or.inr hlo⟩

theorem bucketIdx_unique {v b : Nat} (h1 : v < 2 ^ (b + s.halfMag + 1 + s.unitMag))
    (h2 : b = 0 ∨ 2 ^ (b + s.halfMag + s.unitMag) ≤ v) : s.bucketIdx v = b := by
  obtain ⟨g1, g2⟩ := s.bucketIdx_spec v
  generalize s.bucketIdx v = b' at g1 g2
  rcases Nat.lt_trichotomy b' b with hlt | heq | hgt
  · rcases h2 with h2 | h2
    · omega
    · have := lt_of_pow2_le_lt h2 g1; omega
  · exact heq
  · rcases g2 with g2 | g2
    · omega
    · have := lt_of_pow2_le_lt g2 h1; omega

theorem bucketIdx_mono {v w : Nat} (h : v ≤ w) : s.bucketIdx v ≤ s.bucketIdx w := by
  obtain ⟨g1, g2⟩ := s.bucketIdx_spec v
  obtain ⟨k1, k2⟩ := s.bucketIdx_spec w
  rcases g2 with g2 | g2
  · omega
  · have := lt_of_pow2_le_lt g2 (Nat.lt_of_le_of_lt h k1); omega

theorem subBucketIdx_lt (v : Nat) : s.subBucketIdx v (s.bucketIdx v) < 2 * 2 ^ s.halfMag := by
  obtain ⟨g1, _⟩ := s.bucketIdx_spec v
  unfold subBucketIdx
  rw [Nat.shiftRight_eq_div_pow]
  apply (Nat.div_lt_iff_lt_mul (two_pow_pos' _)).2
  have e : s.bucketIdx v + s.halfMag + 1 + s.unitMag
      = (s.halfMag + 1) + (s.bucketIdx v + s.unitMag) := by omega
  rw [e, Nat.pow_add, Nat.pow_succ] at g1
  rw [Nat.mul_comm 2]; exact g1

theorem subBucketIdx_ge (v : Nat) (hb : s.bucketIdx v ≠ 0) :
    2 ^ s.halfMag ≤ s.subBucketIdx v (s.bucketIdx v) := by
  obtain ⟨_, g2⟩ := s.bucketIdx_spec v
  rcases g2 with g2 | g2
  · exact absurd g2 hb
  · unfold subBucketIdx
    rw [Nat.shiftRight_eq_div_pow]
    apply (Nat.le_div_iff_mul_le (two_pow_pos' _)).2
    have e : s.bucketIdx v + s.halfMag + s.unitMag
        = s.halfMag + (s.bucketIdx v + s.unitMag) := by omega
    rw [e, Nat.pow_add] at g2
    exact g2

theorem countsIndex_eq (b sb : Nat) : s.countsIndex b sb = b * 2 ^ s.halfMag + sb := by
  unfold countsIndex
  rw [subBucketHalfCount_eq, Nat.shiftLeft_eq, Nat.add_mul]
  omega

theorem countsIndexFor_eq (v : Nat) :
    s.countsIndexFor v = s.bucketIdx v * 2 ^ s.halfMag + s.subBucketIdx v (s.bucketIdx v) := by
  unfold countsIndexFor; exact s.countsIndex_eq _ _

/-- a (bucket, sub-bucket) pair the histogram actually uses -/
def ValidPos (b sb : Nat) : Prop := sb < 2 * 2 ^ s.halfMag ∧ (b = 0 ∨ 2 ^ s.halfMag ≤ sb)

theorem validPos_of (v : Nat) : s.ValidPos (s.bucketIdx v) (s.subBucketIdx v (s.bucketIdx v)) := by
  refine ⟨s.subBucketIdx_lt v, ?_⟩
  by_cases hb : s.bucketIdx v = 0
  · exact Or.inl hb
  · exact Or.inr (s.subBucketIdx_ge v hb)

/-- every value in the cell `[sb·2^(b+u), (sb+1)·2^(b+u))` of a valid position maps back to it -/
theorem cell {b sb x : Nat} (hv : s.ValidPos b sb) (hlo : sb * 2 ^ (b + s.unitMag) ≤ x)
    (hhi : x < (sb + 1) * 2 ^ (b + s.unitMag)) :
    s.bucketIdx x = b ∧ s.subBucketIdx x b = sb := by
  obtain ⟨v1, v2⟩ := hv
  have hb : s.bucketIdx x = b := by
    apply s.bucketIdx_unique
    · have e : b + s.halfMag + 1 + s.unitMag = (s.halfMag + 1) + (b + s.unitMag) := by omega
      rw [e, Nat.pow_add, Nat.pow_succ]
      apply Nat.lt_of_lt_of_le hhi
      apply Nat.mul_le_mul_right
      omega
    · rcases v2 with v2 | v2
      · exact Or.inl v2
      · right
        have e : b + s.halfMag + s.unitMag = s.halfMag + (b + s.unitMag) := by omega
        rw [e, Nat.pow_add]
        exact Nat.le_trans (Nat.mul_le_mul_right _ v2) hlo
  refine ⟨hb, ?_⟩
  unfold subBucketIdx
  rw [Nat.shiftRight_eq_div_pow]
  exact Nat.div_eq_of_lt_le hlo hhi

/-! ### equivalent-value ranges -/

theorem sizeOfRange_eq (v : Nat) : s.sizeOfRange v = 2 ^ (s.unitMag + s.bucketIdx v) := by
  unfold sizeOfRange; rw [Nat.shiftLeft_eq, Nat.one_mul]

theorem sizeOfRange_eq' (v : Nat) : s.sizeOfRange v = 2 ^ (s.bucketIdx v + s.unitMag) := by
  rw [sizeOfRange_eq, Nat.add_comm]

theorem lowestEquiv_eq (v : Nat) :
    s.lowestEquiv v = s.subBucketIdx v (s.bucketIdx v) * 2 ^ (s.bucketIdx v + s.unitMag) := by
  unfold lowestEquiv valueFromIndex; rw [Nat.shiftLeft_eq]

theorem lowestEquiv_le (v : Nat) : s.lowestEquiv v ≤ v := by
  rw [lowestEquiv_eq]; unfold subBucketIdx
  rw [Nat.shiftRight_eq_div_pow]; exact Nat.div_mul_le_self _ _

theorem lt_nextNonEquiv (v : Nat) : v < s.lowestEquiv v + s.sizeOfRange v := by
  rw [lowestEquiv_eq, sizeOfRange_eq']; unfold subBucketIdx
  rw [Nat.shiftRight_eq_div_pow]; exact Nat.lt_div_mul_add (two_pow_pos' _)

theorem sizeOfRange_pos (v : Nat) : 0 < s.sizeOfRange v := by
  rw [sizeOfRange_eq]; exact two_pow_pos' _

theorem highestEquiv_succ (v : Nat) : s.highestEquiv v + 1 = s.lowestEquiv v + s.sizeOfRange v := by
  unfold highestEquiv nextNonEquiv
  have := s.sizeOfRange_pos v; omega

theorem le_highestEquiv (v : Nat) : v ≤ s.highestEquiv v := by
  have := s.highestEquiv_succ v
  have := s.lt_nextNonEquiv v
  omega

/-- `x` lies in the equivalence cell of `v` -/
theorem same_cell {v x : Nat} (h1 : s.lowestEquiv v ≤ x) (h2 : x ≤ s.highestEquiv v) :
    s.bucketIdx x = s.bucketIdx v ∧
      s.subBucketIdx x (s.bucketIdx x) = s.subBucketIdx v (s.bucketIdx v) := by
  have hs := s.highestEquiv_succ v
  rw [lowestEquiv_eq] at h1
  rw [lowestEquiv_eq, sizeOfRange_eq'] at hs
  have hhi : x < (s.subBucketIdx v (s.bucketIdx v) + 1) * 2 ^ (s.bucketIdx v + s.unitMag) := by
    rw [Nat.add_mul, Nat.one_mul]; omega
  obtain ⟨c1, c2⟩ := s.cell (s.validPos_of v) h1 hhi
  rw [c1]; exact ⟨rfl, c2⟩

theorem same_cell_index {v x : Nat} (h1 : s.lowestEquiv v ≤ x) (h2 : x ≤ s.highestEquiv v) :
    s.countsIndexFor x = s.countsIndexFor v := by
  obtain ⟨c1, c2⟩ := s.same_cell h1 h2
  rw [countsIndexFor_eq, countsIndexFor_eq, c2, c1]

theorem same_cell_lowest {v x : Nat} (h1 : s.lowestEquiv v ≤ x) (h2 : x ≤ s.highestEquiv v) :
    s.lowestEquiv x = s.lowestEquiv v := by
  obtain ⟨c1, c2⟩ := s.same_cell h1 h2
  rw [lowestEquiv_eq, lowestEquiv_eq, c2, c1]

theorem same_cell_size {v x : Nat} (h1 : s.lowestEquiv v ≤ x) (h2 : x ≤ s.highestEquiv v) :
    s.sizeOfRange x = s.sizeOfRange v := by
  obtain ⟨c1, _⟩ := s.same_cell h1 h2
  rw [sizeOfRange_eq, sizeOfRange_eq, c1]

theorem same_cell_highest {v x : Nat} (h1 : s.lowestEquiv v ≤ x) (h2 : x ≤ s.highestEquiv v) :
    s.highestEquiv x = s.highestEquiv v := by
  have a := s.highestEquiv_succ x
  have b := s.highestEquiv_succ v
  rw [s.same_cell_lowest h1 h2, s.same_cell_size h1 h2] at a
  omega

theorem lowest_le_highest (v : Nat) : s.lowestEquiv v ≤ s.highestEquiv v :=
  Nat.le_trans (s.lowestEquiv_le v) (s.le_highestEquiv v)

/-! ### monotonicity of the counts index -/

theorem countsIndexFor_mono {v w : Nat} (h : v ≤ w) : s.countsIndexFor v ≤ s.countsIndexFor w := by
  rw [countsIndexFor_eq, countsIndexFor_eq]
  have hb := s.bucketIdx_mono h
  rcases Nat.lt_or_eq_of_le hb with hlt | heq
  · have h1 := s.subBucketIdx_lt v
    have h2 := s.subBucketIdx_ge w (by omega)
    have h3 : (s.bucketIdx v + 1) * 2 ^ s.halfMag ≤ s.bucketIdx w * 2 ^ s.halfMag :=
      Nat.mul_le_mul_right _ hlt
    rw [Nat.add_mul] at h3
    omega
  · rw [heq]
    apply Nat.add_le_add_left
    unfold subBucketIdx
    rw [Nat.shiftRight_eq_div_pow, Nat.shiftRight_eq_div_pow]
    exact Nat.div_le_div_right h

/-! ### the iterator's positions -/

theorem posOfIndex_countsIndex {b sb : Nat} (hv : s.ValidPos b sb) :
    s.posOfIndex (s.countsIndex b sb) = (b, sb) := by
  obtain ⟨v1, v2⟩ := hv
  rw [countsIndex_eq]
  unfold posOfIndex
  rw [subBucketCount_eq, subBucketHalfCount_eq]
  have hH := two_pow_pos' s.halfMag
  by_cases hb : b = 0
  · subst hb
    have : 0 * 2 ^ s.halfMag + sb < 2 * 2 ^ s.halfMag := by omega
    rw [if_pos this]; simp
  · have v2 : 2 ^ s.halfMag ≤ sb := by rcases v2 with v2 | v2; exact absurd v2 hb; exact v2
    obtain ⟨b', rfl⟩ : ∃ b', b = b' + 1 := ⟨b - 1, by omega⟩
    have hge : ¬ ((b' + 1) * 2 ^ s.halfMag + sb < 2 * 2 ^ s.halfMag) := by
      rw [Nat.add_mul]; omega
    rw [if_neg hge]
    have hj : (b' + 1) * 2 ^ s.halfMag + sb - 2 * 2 ^ s.halfMag
        = (sb - 2 ^ s.halfMag) + b' * 2 ^ s.halfMag := by
      rw [Nat.add_mul]; omega
    simp only [hj]
    rw [Nat.add_mul_div_right _ _ hH, Nat.add_mul_mod_self_right,
      Nat.div_eq_of_lt (by omega), Nat.mod_eq_of_lt (by omega)]
    congr 1
    · omega
    · omega

theorem validPos_posOfIndex (i : Nat) : s.ValidPos (s.posOfIndex i).1 (s.posOfIndex i).2 := by
  unfold posOfIndex ValidPos
  rw [subBucketCount_eq, subBucketHalfCount_eq]
  have hH := two_pow_pos' s.halfMag
  by_cases h : i < 2 * 2 ^ s.halfMag
  · rw [if_pos h]; exact ⟨h, Or.inl rfl⟩
  · rw [if_neg h]
    have := Nat.mod_lt (i - 2 * 2 ^ s.halfMag) hH
    exact ⟨by simp only []; omega, Or.inr (by simp only []; omega)⟩

theorem countsIndex_posOfIndex (i : Nat) :
    s.countsIndex (s.posOfIndex i).1 (s.posOfIndex i).2 = i := by
  rw [countsIndex_eq]
  unfold posOfIndex
  rw [subBucketCount_eq, subBucketHalfCount_eq]
  have hH := two_pow_pos' s.halfMag
  by_cases h : i < 2 * 2 ^ s.halfMag
  · rw [if_pos h]; simp
  · rw [if_neg h]
    simp only []
    have := Nat.div_add_mod' (i - 2 * 2 ^ s.halfMag) (2 ^ s.halfMag)
    rw [Nat.add_mul]
    omega

theorem valueAt_eq (i : Nat) :
    s.valueAt i = (s.posOfIndex i).2 * 2 ^ ((s.posOfIndex i).1 + s.unitMag) := by
  unfold valueAt valueFromIndex; rw [Nat.shiftLeft_eq]

theorem valueAt_cell (i : Nat) :
    s.bucketIdx (s.valueAt i) = (s.posOfIndex i).1 ∧
      s.subBucketIdx (s.valueAt i) (s.posOfIndex i).1 = (s.posOfIndex i).2 := by
  rw [valueAt_eq]
  apply s.cell (s.validPos_posOfIndex i) (Nat.le_refl _)
  rw [Nat.add_mul, Nat.one_mul]
  have := two_pow_pos' ((s.posOfIndex i).1 + s.unitMag); omega

theorem countsIndexFor_valueAt (i : Nat) : s.countsIndexFor (s.valueAt i) = i := by
  obtain ⟨c1, c2⟩ := s.valueAt_cell i
  unfold countsIndexFor
  simp only [c1, c2]
  exact s.countsIndex_posOfIndex i

theorem valueAt_countsIndexFor (v : Nat) : s.valueAt (s.countsIndexFor v) = s.lowestEquiv v := by
  rw [valueAt_eq, lowestEquiv_eq]
  unfold countsIndexFor
  simp only [s.posOfIndex_countsIndex (s.validPos_of v)]

/-! ### bounds that need `bucketCount` -/

/-- a value below `2^(halfMag+unitMag+bucketCount)` has an in-range counts index -/
theorem countsIndexFor_lt_of {v : Nat} (hB : 1 ≤ s.bucketCount)
    (hv : v < 2 ^ (s.halfMag + s.unitMag + s.bucketCount)) : s.countsIndexFor v < s.countsLen := by
  rw [countsIndexFor_eq, countsLen_eq]
  have h1 := s.subBucketIdx_lt v
  obtain ⟨_, g2⟩ := s.bucketIdx_spec v
  have hb : s.bucketIdx v + 1 ≤ s.bucketCount := by
    rcases g2 with g2 | g2
    · omega
    · have := lt_of_pow2_le_lt g2 hv; omega
  have h3 : (s.bucketIdx v + 1 + 1) * 2 ^ s.halfMag ≤ (s.bucketCount + 1) * 2 ^ s.halfMag :=
    Nat.mul_le_mul_right _ (by omega)
  rw [Nat.add_mul, Nat.add_mul] at h3
  omega

theorem posOfIndex_in_bounds {i : Nat} (hB : 1 ≤ s.bucketCount) (hi : i < s.countsLen) :
    (s.posOfIndex i).1 < s.bucketCount ∧ (s.posOfIndex i).2 < s.subBucketCount := by
  refine ⟨?_, by rw [subBucketCount_eq]; exact (s.validPos_posOfIndex i).1⟩
  rw [countsLen_eq] at hi
  unfold posOfIndex
  rw [subBucketCount_eq, subBucketHalfCount_eq]
  have hH := two_pow_pos' s.halfMag
  by_cases h : i < 2 * 2 ^ s.halfMag
  · rw [if_pos h]; exact hB
  · rw [if_neg h]
    simp only []
    obtain ⟨B', hB'⟩ : ∃ B', s.bucketCount = B' + 1 := ⟨s.bucketCount - 1, by omega⟩
    rw [hB'] at hi ⊢
    have : (i - 2 * 2 ^ s.halfMag) / 2 ^ s.halfMag < B' := by
      apply Nat.div_lt_of_lt_mul
      rw [Nat.add_mul, Nat.add_mul, Nat.mul_comm B'] at hi
      omega
    omega

end Shape

/-! ## `New`: the bucket-count loop and the sigfigs table -/

theorem bucketsLoop_spec (fuel sm max n : Nat) (hsm : 0 < sm) (hf : max < sm * 2 ^ fuel) :
    n ≤ bucketsLoop fuel sm max n ∧ max < sm * 2 ^ (bucketsLoop fuel sm max n - n) ∧
      ∀ k, k < bucketsLoop fuel sm max n - n → sm * 2 ^ k ≤ max := by
  induction fuel generalizing sm n with
  | zero =>
    unfold bucketsLoop
    rw [Nat.sub_self]
    exact ⟨Nat.le_refl _, hf, fun k hk => absurd hk (Nat.not_lt_zero _)⟩
  | succ f ih =>
    unfold bucketsLoop
    by_cases h : sm ≤ max
    · rw [if_pos h, Nat.shiftLeft_eq, Nat.pow_one]
      have hf' : max < sm * 2 * 2 ^ f := by
        rw [Nat.pow_succ] at hf
        rw [Nat.mul_assoc, Nat.mul_comm 2]; exact hf
      obtain ⟨i1, i2, i3⟩ := ih (sm * 2) (n + 1) (by omega) hf'
      generalize bucketsLoop f (sm * 2) max (n + 1) = r at i1 i2 i3
      refine ⟨by omega, ?_, ?_⟩
      · have e : r - n = (r - (n + 1)) + 1 := by omega
        rw [e, Nat.pow_succ, Nat.mul_comm _ 2, ← Nat.mul_assoc]; exact i2
      · intro k hk
        cases k with
        | zero => rw [Nat.pow_zero, Nat.mul_one]; exact h
        | succ k' =>
          have := i3 k' (by omega)
          rw [Nat.pow_succ, Nat.mul_comm _ 2, ← Nat.mul_assoc]; exact this
    · rw [if_neg h, Nat.sub_self]
      exact ⟨Nat.le_refl _, by rw [Nat.pow_zero, Nat.mul_one]; omega,
        fun k hk => absurd hk (Nat.not_lt_zero _)⟩

/-- the guards of `New` under which the Go arithmetic does not overflow -/
def ValidArgs (min max sig : Nat) : Prop :=
  1 ≤ min ∧ min ≤ max ∧ max < 2 ^ 62 ∧ min < 2 ^ 48 ∧ 1 ≤ sig ∧ sig ≤ 5

theorem mkShape_lowest (min max sig : Nat) : (mkShape min max sig).lowest = min := rfl
theorem mkShape_highest (min max sig : Nat) : (mkShape min max sig).highest = max := rfl
theorem mkShape_sigfigs (min max sig : Nat) : (mkShape min max sig).sigfigs = sig := rfl
theorem mkShape_unitMag (min max sig : Nat) : (mkShape min max sig).unitMag = Nat.log2 min := rfl
theorem mkShape_halfMag (min max sig : Nat) : (mkShape min max sig).halfMag = halfMagOf sig := rfl
theorem mkShape_bucketCount (min max sig : Nat) :
    (mkShape min max sig).bucketCount =
      bucketsLoop 64 ((mkShape min max sig).subBucketCount <<< (mkShape min max sig).unitMag) max 1 :=
  rfl

/-- `bucketCount` is the least `n ≥ 1` with `(subBucketCount << unitMag) * 2^(n-1) > max` -/
theorem mkShape_bucketCount_spec (min max sig : Nat) (hmax : max < 2 ^ 62) :
    1 ≤ (mkShape min max sig).bucketCount ∧
      max < ((mkShape min max sig).subBucketCount <<< (mkShape min max sig).unitMag)
              * 2 ^ ((mkShape min max sig).bucketCount - 1) ∧
      ∀ n, 1 ≤ n →
        max < ((mkShape min max sig).subBucketCount <<< (mkShape min max sig).unitMag) * 2 ^ (n - 1) →
        (mkShape min max sig).bucketCount ≤ n := by
  have hsm : 0 < (mkShape min max sig).subBucketCount <<< (mkShape min max sig).unitMag := by
    rw [Nat.shiftLeft_eq]; unfold Shape.subBucketCount
    exact Nat.mul_pos (two_pow_pos' _) (two_pow_pos' _)
  have hf : max < ((mkShape min max sig).subBucketCount <<< (mkShape min max sig).unitMag) * 2 ^ 64 := by
    have : (1:Nat) * 2 ^ 62 ≤
        ((mkShape min max sig).subBucketCount <<< (mkShape min max sig).unitMag) * 2 ^ 64 :=
      Nat.mul_le_mul hsm (pow_le_pow2 (by decide))
    omega
  obtain ⟨b1, b2, b3⟩ := bucketsLoop_spec 64 _ max 1 hsm hf
  rw [← mkShape_bucketCount] at b1 b2 b3
  refine ⟨b1, b2, ?_⟩
  intro n hn hlt
  apply Nat.le_of_not_lt
  intro hc
  have := b3 (n - 1) (by omega)
  omega

theorem mkShape_max_lt (min max sig : Nat) (hmax : max < 2 ^ 62) :
    max < 2 ^ ((mkShape min max sig).halfMag + (mkShape min max sig).unitMag
                + (mkShape min max sig).bucketCount) := by
  obtain ⟨b1, b2, _⟩ := mkShape_bucketCount_spec min max sig hmax
  generalize mkShape min max sig = s at b1 b2
  have e : s.halfMag + s.unitMag + s.bucketCount
      = (s.halfMag + 1) + s.unitMag + (s.bucketCount - 1) := by omega
  rw [e, Nat.pow_add, Nat.pow_add]
  rw [Nat.shiftLeft_eq] at b2
  exact b2

theorem halfMag_table {sig : Nat} (h1 : 1 ≤ sig) (h5 : sig ≤ 5) : 10 ^ sig ≤ 2 ^ halfMagOf sig := by
  have : sig = 1 ∨ sig = 2 ∨ sig = 3 ∨ sig = 4 ∨ sig = 5 := by omega
  rcases this with rfl | rfl | rfl | rfl | rfl <;> decide

/-- width of an equivalence range: one unit, or at most `v / c` for any `c ≤ 2^halfMag` -/
theorem Shape.sizeOfRange_le (s : Shape) (v c : Nat) (hc : c ≤ 2 ^ s.halfMag) (hc0 : 0 < c) :
    s.sizeOfRange v ≤ max (2 ^ s.unitMag) (v / c) := by
  rw [s.sizeOfRange_eq]
  obtain ⟨_, g2⟩ := s.bucketIdx_spec v
  rcases g2 with g2 | g2
  · rw [g2, Nat.add_zero]; exact Nat.le_max_left _ _
  · apply Nat.le_trans _ (Nat.le_max_right _ _)
    apply (Nat.le_div_iff_mul_le hc0).2
    have e : s.bucketIdx v + s.halfMag + s.unitMag = (s.unitMag + s.bucketIdx v) + s.halfMag := by
      omega
    rw [e, Nat.pow_add] at g2
    exact Nat.le_trans (Nat.mul_le_mul_left _ hc) g2

/-! ## addendum: the loop exactly as written in hdr.go (`for smallest < max`)

`FunModel.Hdr.bucketsLoop` continues while `smallest ≤ max`; `/repo/dt/hdrhist/hdr.go` has
`for smallestUntrackableValue < maxValue`. With the strict test the value `max` itself is not
recordable when `max = (subBucketCount << unitMag) * 2^k` (e.g. `New(1, 2048, 3)`); everything
strictly below `max` still is. -/

def bucketsLoopLt (fuel : Nat) (smallest max n : Nat) : Nat :=
  match fuel with
  | 0 => n
  | fuel + 1 => if smallest < max then bucketsLoopLt fuel (smallest <<< 1) max (n + 1) else n

/-- `mkShape` with the strict loop test -/
def mkShapeLt (min max sig : Nat) : Shape :=
  { mkShape min max sig with
    bucketCount := bucketsLoopLt 64 ((2 ^ (halfMagOf sig + 1)) <<< Nat.log2 min) max 1 }

theorem bucketsLoopLt_spec (fuel sm max n : Nat) (hsm : 0 < sm) (hf : max ≤ sm * 2 ^ fuel) :
    n ≤ bucketsLoopLt fuel sm max n ∧ max ≤ sm * 2 ^ (bucketsLoopLt fuel sm max n - n) := by
  induction fuel generalizing sm n with
  | zero =>
    unfold bucketsLoopLt
    rw [Nat.sub_self]
    exact ⟨Nat.le_refl _, hf⟩
  | succ f ih =>
    unfold bucketsLoopLt
    by_cases h : sm < max
    · rw [if_pos h, Nat.shiftLeft_eq, Nat.pow_one]
      have hf' : max ≤ sm * 2 * 2 ^ f := by
        rw [Nat.pow_succ] at hf
        rw [Nat.mul_assoc, Nat.mul_comm 2]; exact hf
      obtain ⟨i1, i2⟩ := ih (sm * 2) (n + 1) (by omega) hf'
      generalize bucketsLoopLt f (sm * 2) max (n + 1) = r at i1 i2
      refine ⟨by omega, ?_⟩
      have e : r - n = (r - (n + 1)) + 1 := by omega
      rw [e, Nat.pow_succ, Nat.mul_comm _ 2, ← Nat.mul_assoc]; exact i2
    · rw [if_neg h, Nat.sub_self, Nat.pow_zero, Nat.mul_one]
      exact ⟨Nat.le_refl _, by omega⟩

theorem mkShapeLt_index_lt {min max sig v : Nat} (hmax : max < 2 ^ 62) (hv : v < max) :
    (mkShapeLt min max sig).countsIndexFor v < (mkShapeLt min max sig).countsLen := by
  have hsm : 0 < (2 ^ (halfMagOf sig + 1)) <<< Nat.log2 min := by
    rw [Nat.shiftLeft_eq]; exact Nat.mul_pos (two_pow_pos' _) (two_pow_pos' _)
  have hf : max ≤ ((2 ^ (halfMagOf sig + 1)) <<< Nat.log2 min) * 2 ^ 64 := by
    have : (1:Nat) * 2 ^ 62 ≤ ((2 ^ (halfMagOf sig + 1)) <<< Nat.log2 min) * 2 ^ 64 :=
      Nat.mul_le_mul hsm (pow_le_pow2 (by decide))
    omega
  obtain ⟨b1, b2⟩ := bucketsLoopLt_spec 64 _ max 1 hsm hf
  have hB : (mkShapeLt min max sig).bucketCount
      = bucketsLoopLt 64 ((2 ^ (halfMagOf sig + 1)) <<< Nat.log2 min) max 1 := rfl
  have hH : (mkShapeLt min max sig).halfMag = halfMagOf sig := rfl
  have hU : (mkShapeLt min max sig).unitMag = Nat.log2 min := rfl
  rw [← hB] at b1 b2
  apply (mkShapeLt min max sig).countsIndexFor_lt_of b1
  apply Nat.lt_of_lt_of_le hv
  rw [hH, hU]
  have e : halfMagOf sig + Nat.log2 min + (mkShapeLt min max sig).bucketCount
      = (halfMagOf sig + 1) + Nat.log2 min + ((mkShapeLt min max sig).bucketCount - 1) := by omega
  rw [e, Nat.pow_add, Nat.pow_add]
  rw [Nat.shiftLeft_eq] at b2
  exact b2

/-! ## recording -/

/-- record the (value, count) pairs in order; a failing `RecordValues` leaves the histogram as is -/
def recordAll (h : Hist) : List (Nat × Nat) → Hist
  | [] => h
  | p :: rest => recordAll ((h.record p.1 p.2).getD h) rest

/-- record each value once (`RecordValue`) -/
def recordValues (h : Hist) (vs : List Nat) : Hist := recordAll h (vs.map fun v => (v, 1))

/-- sum of the counts in a list of (value, count) pairs -/
def countSum (ps : List (Nat × Nat)) : Nat := (ps.map (·.2)).sum

/-- how much the pairs `ps` add at counts position `i` -/
def tally (s : Shape) : List (Nat × Nat) → Nat → Nat
  | [], _ => 0
  | p :: rest, i => (if s.countsIndexFor p.1 = i then p.2 else 0) + tally s rest i

theorem addAt_length (cs : List Nat) (i n : Nat) : (addAt cs i n).length = cs.length := by
  unfold addAt; exact List.length_set

theorem addAt_sum (cs : List Nat) (i n : Nat) (h : i < cs.length) :
    (addAt cs i n).sum = cs.sum + n := by
  unfold addAt
  induction cs generalizing i with
  | nil => exact absurd h (Nat.not_lt_zero _)
  | cons c rest ih =>
    cases i with
    | zero => simp only [List.set_cons_zero, List.getD_cons_zero, List.sum_cons]; omega
    | succ j =>
      simp only [List.set_cons_succ, List.getD_cons_succ, List.sum_cons]
      rw [ih j (by simpa using h)]; omega

theorem addAt_getD (cs : List Nat) (i n j : Nat) (h : i < cs.length) :
    (addAt cs i n).getD j 0 = cs.getD j 0 + (if i = j then n else 0) := by
  unfold addAt
  simp only [List.getD_eq_getElem?_getD, List.getElem?_set]
  by_cases hij : i = j
  · subst hij; simp [h]
  · simp [hij]

theorem record_eq_some {h : Hist} {v n : Nat} (hlt : h.shape.countsIndexFor v < h.shape.countsLen) :
    h.record v n = some { h with counts := addAt h.counts (h.shape.countsIndexFor v) n,
                                 total := h.total + n } := by
  unfold Hist.record
  simp only []
  rw [if_neg (Nat.not_le_of_lt hlt)]

theorem recordAll_spec (ps : List (Nat × Nat)) (h : Hist)
    (hlen : h.counts.length = h.shape.countsLen)
    (hps : ∀ p ∈ ps, h.shape.countsIndexFor p.1 < h.shape.countsLen) :
    (recordAll h ps).shape = h.shape ∧
      (recordAll h ps).counts.length = h.counts.length ∧
      (recordAll h ps).total = h.total + countSum ps ∧
      (recordAll h ps).counts.sum = h.counts.sum + countSum ps ∧
      ∀ i, (recordAll h ps).counts.getD i 0 = h.counts.getD i 0 + tally h.shape ps i := by
  induction ps generalizing h with
  | nil => simp [recordAll, countSum, tally]
  | cons p rest ih =>
    have hp := hps p (List.mem_cons_self ..)
    unfold recordAll
    rw [record_eq_some hp, Option.getD_some]
    have hi : h.shape.countsIndexFor p.1 < h.counts.length := by rw [hlen]; exact hp
    obtain ⟨i1, i2, i3, i4, i5⟩ := ih
      { h with counts := addAt h.counts (h.shape.countsIndexFor p.1) p.2, total := h.total + p.2 }
      (by simp only [addAt_length]; exact hlen)
      (fun q hq => hps q (List.mem_cons_of_mem _ hq))
    refine ⟨i1, ?_, ?_, ?_, ?_⟩
    · rw [i2]; exact addAt_length _ _ _
    · rw [i3]; simp only [countSum, List.map_cons, List.sum_cons]; omega
    · rw [i4]; simp only [addAt_sum _ _ _ hi, countSum, List.map_cons, List.sum_cons]; omega
    · intro i
      rw [i5 i]; simp only [addAt_getD _ _ _ _ hi, tally]; omega

theorem tally_unit (s : Shape) (vs : List Nat) (i : Nat) :
    tally s (vs.map fun v => (v, 1)) i = vs.countP (fun v => decide (s.countsIndexFor v = i)) := by
  induction vs with
  | nil => rfl
  | cons v rest ih =>
    simp only [List.map_cons, tally, List.countP_cons, ih, decide_eq_true_eq]
    omega

theorem countSum_unit (vs : List Nat) : countSum (vs.map fun v => (v, 1)) = vs.length := by
  induction vs with
  | nil => rfl
  | cons v rest ih =>
    simp only [countSum, List.map_cons, List.sum_cons, List.length_cons] at ih ⊢
    omega

theorem list_eq_map_getD (l : List Nat) : l = (List.range l.length).map (fun i => l.getD i 0) := by
  apply List.ext_getElem
  · simp
  · intro i h1 h2
    simp [List.getD_eq_getElem?_getD, h1]

theorem new_shape (min max sig : Nat) : (Hist.new min max sig).shape = mkShape min max sig := rfl
theorem new_total (min max sig : Nat) : (Hist.new min max sig).total = 0 := rfl
theorem new_counts (min max sig : Nat) :
    (Hist.new min max sig).counts = List.replicate (mkShape min max sig).countsLen 0 := rfl

/-- every value `≤ max` has an in-range index (needs only `max < 2^62`) -/
theorem mkShape_index_lt {min max sig v : Nat} (hmax : max < 2 ^ 62) (hv : v ≤ max) :
    (mkShape min max sig).countsIndexFor v < (mkShape min max sig).countsLen :=
  (mkShape min max sig).countsIndexFor_lt_of (mkShape_bucketCount_spec min max sig hmax).1
    (Nat.lt_of_le_of_lt hv (mkShape_max_lt min max sig hmax))

/-- everything we know about a histogram obtained by recording in-range pairs into a fresh one -/
theorem recordAll_new {min max sig : Nat} (hmax : max < 2 ^ 62) (ps : List (Nat × Nat))
    (hps : ∀ p ∈ ps, p.1 ≤ max) :
    (recordAll (Hist.new min max sig) ps).shape = mkShape min max sig ∧
      (recordAll (Hist.new min max sig) ps).counts.length = (mkShape min max sig).countsLen ∧
      (recordAll (Hist.new min max sig) ps).total = countSum ps ∧
      (recordAll (Hist.new min max sig) ps).counts.sum = countSum ps ∧
      (recordAll (Hist.new min max sig) ps).counts =
        (List.range (mkShape min max sig).countsLen).map (tally (mkShape min max sig) ps) := by
  obtain ⟨i1, i2, i3, i4, i5⟩ := recordAll_spec ps (Hist.new min max sig)
    (by rw [new_counts, new_shape, List.length_replicate])
    (fun p hp => by rw [new_shape]; exact mkShape_index_lt hmax (hps p hp))
  rw [new_shape] at i1 i5
  rw [new_counts, List.length_replicate] at i2
  rw [new_total, Nat.zero_add] at i3
  have hz : (Hist.new min max sig).counts.sum = 0 := by
    rw [new_counts, List.sum_replicate_nat, Nat.mul_zero]
  rw [hz, Nat.zero_add] at i4
  refine ⟨i1, i2, i3, i4, ?_⟩
  rw [list_eq_map_getD (recordAll (Hist.new min max sig) ps).counts, i2]
  apply List.map_congr_left
  intro i _
  rw [i5 i, new_counts]
  simp only [List.getD_eq_getElem?_getD, List.getElem?_replicate]
  by_cases hi : i < (mkShape min max sig).countsLen
  · rw [if_pos hi, Option.getD_some, Nat.zero_add]
  · rw [if_neg hi, Option.getD_none, Nat.zero_add]

/-- a histogram that some sequence of in-range `RecordValues` calls produces from `New` -/
def Reachable (min max sig : Nat) (h : Hist) : Prop :=
  ∃ ps : List (Nat × Nat), (∀ p ∈ ps, p.1 ≤ max) ∧ h = recordAll (Hist.new min max sig) ps

/-- the structural invariant of a histogram built by `New(min,max,sig)` -/
def Hist.WF (min max sig : Nat) (h : Hist) : Prop :=
  h.shape = mkShape min max sig ∧ h.counts.length = h.shape.countsLen ∧ h.counts.sum = h.total

theorem Reachable.wf {min max sig : Nat} {h : Hist} (hmax : max < 2 ^ 62)
    (hr : Reachable min max sig h) : h.WF min max sig := by
  obtain ⟨ps, hps, rfl⟩ := hr
  obtain ⟨i1, i2, i3, i4, _⟩ := recordAll_new (min := min) (sig := sig) hmax ps hps
  exact ⟨i1, by rw [i2, i1], by rw [i3, i4]⟩

/-! ## Export / Import -/

theorem reimport_eq {min max sig : Nat} {h : Hist} (hw : h.WF min max sig) : h.reimport = h := by
  obtain ⟨h1, _, h3⟩ := hw
  obtain ⟨shape, counts, total⟩ := h
  simp only at h1 h3
  subst h1 h3
  unfold Hist.reimport
  simp only [mkShape_lowest, mkShape_highest, mkShape_sigfigs]
  rw [← List.sum_eq_foldl]

/-! ## scanning the counts array -/

/-- `scanFrom` over `[f i, f (i+1), …]`, described through a cumulative function `F`
    (`F j` = sum of the counts before position `j`): the scan stops at the position `k` with
    `F k < rank ≤ F (k+1)`. -/
theorem scanFrom_range' (f F : Nat → Nat) (hF : ∀ j, F (j + 1) = F j + f j) (rank k : Nat)
    (hlo : F k < rank) (hhi : rank ≤ F (k + 1)) (n i : Nat) (hik : i ≤ k) (hkn : k < i + n) :
    scanFrom ((List.range' i n).map f) i (F i) rank = some k := by
  have hmono : ∀ a b, a ≤ b → F a ≤ F b := by
    intro a b hab
    induction b with
    | zero => have : a = 0 := by omega
              rw [this]; exact Nat.le_refl _
    | succ b ih =>
      by_cases h : a = b + 1
      · rw [h]; exact Nat.le_refl _
      · have := ih (by omega); rw [hF b]; omega
  induction n generalizing i with
  | zero => omega
  | succ n ih =>
    rw [List.range'_succ, List.map_cons]
    unfold scanFrom
    by_cases h : i = k
    · subst h
      rw [hF i] at hhi
      rw [if_pos hhi]
    · have h1 : F (i + 1) ≤ F k := hmono _ _ (by omega)
      rw [hF i] at h1
      rw [if_neg (by omega), ← hF i]
      exact ih (i + 1) (by omega) (by omega)

theorem firstNonZero_range' (f : Nat → Nat) (k : Nat) (hk : f k ≠ 0) (n i : Nat) (hik : i ≤ k)
    (hkn : k < i + n) (hz : ∀ j, i ≤ j → j < k → f j = 0) :
    firstNonZero ((List.range' i n).map f) i = some k := by
  induction n generalizing i with
  | zero => omega
  | succ n ih =>
    rw [List.range'_succ, List.map_cons]
    unfold firstNonZero
    by_cases h : i = k
    · subst h; rw [if_pos hk]
    · rw [if_neg (by rw [hz i (Nat.le_refl _) (by omega)]; exact fun h => h rfl)]
      exact ih (i + 1) (by omega) (by omega) (fun j h1 h2 => hz j (by omega) h2)

theorem lastNonZero_range' (f : Nat → Nat) (k : Nat) (n i : Nat) (cur : Option Nat)
    (hk : (i ≤ k ∧ k < i + n ∧ f k ≠ 0) ∨ (cur = some k ∧ k < i))
    (hz : ∀ j, k < j → j < i + n → f j = 0) :
    lastNonZero ((List.range' i n).map f) i cur = some k := by
  induction n generalizing i cur with
  | zero =>
    rcases hk with hk | hk
    · omega
    · simp only [List.range'_zero, List.map_nil, lastNonZero]; exact hk.1
  | succ n ih =>
    rw [List.range'_succ, List.map_cons]
    unfold lastNonZero
    apply ih (i + 1)
    · rcases hk with ⟨h1, h2, h3⟩ | ⟨h1, h2⟩
      · by_cases h : i = k
        · subst h; right; exact ⟨by rw [if_pos h3], by omega⟩
        · left; exact ⟨by omega, by omega, h3⟩
      · right
        have : f i = 0 := hz i h2 (by omega)
        exact ⟨by rw [if_neg (by rw [this]; exact fun h => h rfl)]; exact h1, by omega⟩
    · intro j h1 h2; exact hz j h1 (by omega)

/-! ## counting values by index -/

/-- number of recorded values whose counts index is below `k` -/
def below (s : Shape) (vs : List Nat) (k : Nat) : Nat :=
  vs.countP (fun v => decide (s.countsIndexFor v < k))

theorem below_succ (s : Shape) (vs : List Nat) (k : Nat) :
    below s vs (k + 1) = below s vs k + vs.countP (fun v => decide (s.countsIndexFor v = k)) := by
  unfold below
  induction vs with
  | nil => rfl
  | cons v rest ih =>
    simp only [List.countP_cons, ih, decide_eq_true_eq]
    by_cases h1 : s.countsIndexFor v < k
    · have h2 : s.countsIndexFor v < k + 1 := by omega
      have h3 : ¬ s.countsIndexFor v = k := by omega
      rw [if_pos h1, if_pos h2, if_neg h3]; omega
    · by_cases h3 : s.countsIndexFor v = k
      · have h2 : s.countsIndexFor v < k + 1 := by omega
        rw [if_neg h1, if_pos h2, if_pos h3]; omega
      · have h2 : ¬ s.countsIndexFor v < k + 1 := by omega
        rw [if_neg h1, if_neg h2, if_neg h3]; omega

theorem below_zero (s : Shape) (vs : List Nat) : below s vs 0 = 0 := by
  unfold below
  apply List.countP_eq_zero.2
  intro a _; simp

/-- the state after `RecordValue` of each of `vs` -/
theorem recordValues_new {min max sig : Nat} (hmax : max < 2 ^ 62) (vs : List Nat)
    (hvs : ∀ v ∈ vs, v ≤ max) :
    (recordValues (Hist.new min max sig) vs).shape = mkShape min max sig ∧
      (recordValues (Hist.new min max sig) vs).total = vs.length ∧
      (recordValues (Hist.new min max sig) vs).counts =
        (List.range' 0 (mkShape min max sig).countsLen).map
          (fun i => vs.countP (fun v => decide ((mkShape min max sig).countsIndexFor v = i))) := by
  unfold recordValues
  obtain ⟨i1, _, i3, _, i5⟩ := recordAll_new (min := min) (sig := sig) hmax
    (vs.map fun v => (v, 1))
    (by intro p hp
        obtain ⟨v, hv, rfl⟩ := List.mem_map.1 hp
        exact hvs v hv)
  refine ⟨i1, by rw [i3, countSum_unit], ?_⟩
  rw [i5, List.range_eq_range']
  apply List.map_congr_left
  intro i _
  exact tally_unit _ vs i

theorem Shape.highestEquiv_valueAt_index (s : Shape) (v : Nat) :
    s.highestEquiv (s.valueAt (s.countsIndexFor v)) = s.highestEquiv v := by
  rw [s.valueAt_countsIndexFor]
  exact s.same_cell_highest (Nat.le_refl _) (s.lowest_le_highest v)

/-! ## quantiles -/

theorem valueAtRank_recordValues {min max sig : Nat} (hmax : max < 2 ^ 62) (vs : List Nat)
    (hvs : ∀ v ∈ vs, v ≤ max) (x r : Nat) (hx : x ∈ vs)
    (hlo : vs.countP (fun v => decide (v < x)) < r)
    (hhi : r ≤ vs.countP (fun v => decide (v ≤ x))) :
    (recordValues (Hist.new min max sig) vs).valueAtRank r = (mkShape min max sig).highestEquiv x := by
  obtain ⟨i1, i2, i3⟩ := recordValues_new (min := min) (sig := sig) hmax vs hvs
  have hlo' : below (mkShape min max sig) vs ((mkShape min max sig).countsIndexFor x) < r := by
    apply Nat.lt_of_le_of_lt _ hlo
    apply List.countP_mono_left
    intro v _ hv
    simp only [decide_eq_true_eq] at hv ⊢
    apply Nat.lt_of_not_le
    intro hc
    have := (mkShape min max sig).countsIndexFor_mono hc
    omega
  have hhi' : r ≤ below (mkShape min max sig) vs ((mkShape min max sig).countsIndexFor x + 1) := by
    apply Nat.le_trans hhi
    apply List.countP_mono_left
    intro v _ hv
    simp only [decide_eq_true_eq] at hv ⊢
    have := (mkShape min max sig).countsIndexFor_mono hv
    omega
  have hscan := scanFrom_range' _ (below (mkShape min max sig) vs)
    (below_succ (mkShape min max sig) vs) r _ hlo' hhi' (mkShape min max sig).countsLen 0
    (Nat.zero_le _) (by rw [Nat.zero_add]; exact mkShape_index_lt hmax (hvs x hx))
  rw [below_zero] at hscan
  unfold Hist.valueAtRank
  rw [i1, i2, i3, hscan]
  have : vs.length ≠ 0 := by have := List.length_pos_of_mem hx; omega
  rw [if_neg this]
  exact (mkShape min max sig).highestEquiv_valueAt_index x

/-! ## Min / Max -/

theorem min_recordValues {min max sig : Nat} (hmax : max < 2 ^ 62) (vs : List Nat)
    (hvs : ∀ v ∈ vs, v ≤ max) (m : Nat) (hm : m ∈ vs) (hle : ∀ v ∈ vs, m ≤ v) :
    (recordValues (Hist.new min max sig) vs).min = (mkShape min max sig).lowestEquiv m := by
  obtain ⟨i1, _, i3⟩ := recordValues_new (min := min) (sig := sig) hmax vs hvs
  have hfirst := firstNonZero_range'
    (fun i => vs.countP (fun v => decide ((mkShape min max sig).countsIndexFor v = i)))
    ((mkShape min max sig).countsIndexFor m)
    (by
      have : 0 < vs.countP (fun v => decide ((mkShape min max sig).countsIndexFor v
          = (mkShape min max sig).countsIndexFor m)) :=
        List.countP_pos_iff.2 ⟨m, hm, by simp⟩
      omega)
    (mkShape min max sig).countsLen 0 (Nat.zero_le _)
    (by rw [Nat.zero_add]; exact mkShape_index_lt hmax (hvs m hm))
    (by
      intro j _ hj
      apply List.countP_eq_zero.2
      intro v hv
      simp only [decide_eq_true_eq]
      have := (mkShape min max sig).countsIndexFor_mono (hle v hv)
      omega)
  unfold Hist.min
  rw [i1, i3, hfirst]
  simp only []
  rw [(mkShape min max sig).highestEquiv_valueAt_index m]
  exact (mkShape min max sig).same_cell_lowest ((mkShape min max sig).lowest_le_highest m)
    (Nat.le_refl _)

theorem max_recordValues {min max sig : Nat} (hmax : max < 2 ^ 62) (vs : List Nat)
    (hvs : ∀ v ∈ vs, v ≤ max) (M : Nat) (hM : M ∈ vs) (hge : ∀ v ∈ vs, v ≤ M) :
    (recordValues (Hist.new min max sig) vs).max = (mkShape min max sig).highestEquiv M := by
  obtain ⟨i1, _, i3⟩ := recordValues_new (min := min) (sig := sig) hmax vs hvs
  have hlast := lastNonZero_range'
    (fun i => vs.countP (fun v => decide ((mkShape min max sig).countsIndexFor v = i)))
    ((mkShape min max sig).countsIndexFor M) (mkShape min max sig).countsLen 0 none
    (Or.inl ⟨Nat.zero_le _, by rw [Nat.zero_add]; exact mkShape_index_lt hmax (hvs M hM), by
      have : 0 < vs.countP (fun v => decide ((mkShape min max sig).countsIndexFor v
          = (mkShape min max sig).countsIndexFor M)) :=
        List.countP_pos_iff.2 ⟨M, hM, by simp⟩
      omega⟩)
    (by
      intro j hj _
      apply List.countP_eq_zero.2
      intro v hv
      simp only [decide_eq_true_eq]
      have := (mkShape min max sig).countsIndexFor_mono (hge v hv)
      omega)
  unfold Hist.max
  rw [i1, i3, hlast]
  simp only []
  rw [(mkShape min max sig).highestEquiv_valueAt_index M]
  exact (mkShape min max sig).same_cell_highest ((mkShape min max sig).lowest_le_highest M)
    (Nat.le_refl _)

/-! ## Merge -/

theorem addAt_append (pre : List Nat) (a : Nat) (t : List Nat) (n : Nat) :
    addAt (pre ++ a :: t) pre.length n = pre ++ (a + n) :: t := by
  unfold addAt
  induction pre with
  | nil => simp
  | cons p ps ih =>
    simp only [List.cons_append, List.length_cons, List.set_cons_succ, List.getD_cons_succ]
    rw [ih]

theorem mergeFrom_spec (s : Shape) (rest pre : List Nat) (h : Hist) (d : Nat)
    (hs : h.shape = s) (hc : h.counts = pre ++ List.replicate rest.length 0)
    (hL : s.countsLen = pre.length + rest.length) (ht : h.total = pre.sum) :
    mergeFrom h s rest pre.length d
      = ({ shape := s, counts := pre ++ rest, total := (pre ++ rest).sum }, d) := by
  induction rest generalizing pre h with
  | nil =>
    obtain ⟨shape, counts, total⟩ := h
    simp only [List.length_nil, List.replicate_zero, List.append_nil] at hs hc ht ⊢
    subst hs hc ht
    rfl
  | cons c rest ih =>
    unfold mergeFrom
    have hlen : (pre ++ [c]).length = pre.length + 1 := by simp
    have hres : pre ++ c :: rest = (pre ++ [c]) ++ rest := by simp
    by_cases hc0 : c = 0
    · rw [if_pos hc0, ← hlen, hres]
      apply ih (pre ++ [c]) h hs
      · rw [hc, hc0, List.length_cons, List.replicate_succ]; simp
      · rw [hL]; simp; omega
      · rw [ht, hc0]; simp
    · rw [if_neg hc0]
      have hidx : h.shape.countsIndexFor (s.valueAt pre.length) = pre.length := by
        rw [hs]; exact s.countsIndexFor_valueAt _
      have hlt : h.shape.countsIndexFor (s.valueAt pre.length) < h.shape.countsLen := by
        rw [hidx, hs, hL]; simp
      rw [record_eq_some hlt]
      simp only []
      rw [← hlen, hres]
      apply ih (pre ++ [c])
      · exact hs
      · simp only []
        rw [hidx, hc, List.length_cons, List.replicate_succ, addAt_append]; simp
      · rw [hL]; simp; omega
      · simp only []; rw [ht]; simp

theorem merge_new_eq {min max sig : Nat} {h : Hist} (hw : h.WF min max sig) :
    (Hist.new min max sig).merge h = (h, 0) := by
  obtain ⟨h1, h2, h3⟩ := hw
  unfold Hist.merge
  have := mergeFrom_spec h.shape h.counts [] (Hist.new min max sig) 0
    (by rw [new_shape, h1]) (by rw [new_counts, h2, h1]; rfl) (by rw [h2]; simp) (by rw [new_total]; rfl)
  rw [List.length_nil] at this
  rw [this]
  obtain ⟨shape, counts, total⟩ := h
  simp only at h3
  subst h3
  simp

end FunModel.Hdr
