import FunModel.Dll

set_option linter.unusedSimpArgs false

/-! Invariant (`WF`) of the pointer-level model of `dt.List` and the helper lemmas used by
    `FunProps/C16.lean`. -/

namespace FunModel.Dll

/-! ### 1. get/set lemmas -/

namespace Heap

section setters
variable (h : Heap) (a i : Nat) (n : Node) (d : Hdr) (v : Option Nat) (z : Int)

@[simp] theorem setNode_node : (h.setNode a n).node i = if i = a then n else h.node i := rfl
@[simp] theorem setNode_hdr : (h.setNode a n).hdr = h.hdr := rfl
@[simp] theorem setNode_nn : (h.setNode a n).nn = h.nn := rfl
@[simp] theorem setNode_nl : (h.setNode a n).nl = h.nl := rfl

@[simp] theorem setHdr_hdr : (h.setHdr a d).hdr i = if i = a then d else h.hdr i := rfl
@[simp] theorem setHdr_node : (h.setHdr a d).node = h.node := rfl
@[simp] theorem setHdr_nn : (h.setHdr a d).nn = h.nn := rfl
@[simp] theorem setHdr_nl : (h.setHdr a d).nl = h.nl := rfl

@[simp] theorem setNext_next : ((h.setNext a v).node i).next = if i = a then v else (h.node i).next := by
  unfold setNext; by_cases hi : i = a <;> simp [hi]
@[simp] theorem setNext_prev : ((h.setNext a v).node i).prev = (h.node i).prev := by
  unfold setNext; by_cases hi : i = a <;> simp [hi]
@[simp] theorem setNext_list : ((h.setNext a v).node i).list = (h.node i).list := by
  unfold setNext; by_cases hi : i = a <;> simp [hi]
@[simp] theorem setNext_ok : ((h.setNext a v).node i).ok = (h.node i).ok := by
  unfold setNext; by_cases hi : i = a <;> simp [hi]
@[simp] theorem setNext_item : ((h.setNext a v).node i).item = (h.node i).item := by
  unfold setNext; by_cases hi : i = a <;> simp [hi]
@[simp] theorem setNext_hdr : (h.setNext a v).hdr = h.hdr := rfl
@[simp] theorem setNext_nn : (h.setNext a v).nn = h.nn := rfl
@[simp] theorem setNext_nl : (h.setNext a v).nl = h.nl := rfl

@[simp] theorem setPrev_prev : ((h.setPrev a v).node i).prev = if i = a then v else (h.node i).prev := by
  unfold setPrev; by_cases hi : i = a <;> simp [hi]
@[simp] theorem setPrev_next : ((h.setPrev a v).node i).next = (h.node i).next := by
  unfold setPrev; by_cases hi : i = a <;> simp [hi]
@[simp] theorem setPrev_list : ((h.setPrev a v).node i).list = (h.node i).list := by
  unfold setPrev; by_cases hi : i = a <;> simp [hi]
@[simp] theorem setPrev_ok : ((h.setPrev a v).node i).ok = (h.node i).ok := by
  unfold setPrev; by_cases hi : i = a <;> simp [hi]
@[simp] theorem setPrev_item : ((h.setPrev a v).node i).item = (h.node i).item := by
  unfold setPrev; by_cases hi : i = a <;> simp [hi]
@[simp] theorem setPrev_hdr : (h.setPrev a v).hdr = h.hdr := rfl
@[simp] theorem setPrev_nn : (h.setPrev a v).nn = h.nn := rfl
@[simp] theorem setPrev_nl : (h.setPrev a v).nl = h.nl := rfl

@[simp] theorem setList_list : ((h.setList a v).node i).list = if i = a then v else (h.node i).list := by
  unfold setList; by_cases hi : i = a <;> simp [hi]
@[simp] theorem setList_next : ((h.setList a v).node i).next = (h.node i).next := by
  unfold setList; by_cases hi : i = a <;> simp [hi]
@[simp] theorem setList_prev : ((h.setList a v).node i).prev = (h.node i).prev := by
  unfold setList; by_cases hi : i = a <;> simp [hi]
@[simp] theorem setList_ok : ((h.setList a v).node i).ok = (h.node i).ok := by
  unfold setList; by_cases hi : i = a <;> simp [hi]
@[simp] theorem setList_item : ((h.setList a v).node i).item = (h.node i).item := by
  unfold setList; by_cases hi : i = a <;> simp [hi]
@[simp] theorem setList_hdr : (h.setList a v).hdr = h.hdr := rfl
@[simp] theorem setList_nn : (h.setList a v).nn = h.nn := rfl
@[simp] theorem setList_nl : (h.setList a v).nl = h.nl := rfl

@[simp] theorem addLength_root : ((h.addLength a z).hdr i).root = (h.hdr i).root := by
  unfold addLength; by_cases hi : i = a <;> simp [hi]
@[simp] theorem addLength_length :
    ((h.addLength a z).hdr i).length = if i = a then (h.hdr a).length + z else (h.hdr i).length := by
  unfold addLength; by_cases hi : i = a <;> simp [hi]
@[simp] theorem addLength_node : (h.addLength a z).node = h.node := rfl
@[simp] theorem addLength_nn : (h.addLength a z).nn = h.nn := rfl
@[simp] theorem addLength_nl : (h.addLength a z).nl = h.nl := rfl

@[simp] theorem alloc_fst_node : (h.alloc n).1.node i = if i = h.nn then n else h.node i := rfl
@[simp] theorem alloc_fst_hdr : (h.alloc n).1.hdr = h.hdr := rfl
@[simp] theorem alloc_fst_nn : (h.alloc n).1.nn = h.nn + 1 := rfl
@[simp] theorem alloc_fst_nl : (h.alloc n).1.nl = h.nl := rfl
@[simp] theorem alloc_snd : (h.alloc n).2 = h.nn := rfl

@[simp] theorem allocList_fst_node : h.allocList.1.node = h.node := rfl
@[simp] theorem allocList_fst_hdr : h.allocList.1.hdr i = if i = h.nl then {} else h.hdr i := rfl
@[simp] theorem allocList_fst_nn : h.allocList.1.nn = h.nn := rfl
@[simp] theorem allocList_fst_nl : h.allocList.1.nl = h.nl + 1 := rfl
@[simp] theorem allocList_snd : h.allocList.2 = h.nl := rfl

end setters

end Heap

theorem Node.ext' {a b : Node} (h1 : a.next = b.next) (h2 : a.prev = b.prev) (h3 : a.list = b.list)
    (h4 : a.ok = b.ok) (h5 : a.item = b.item) : a = b := by
  cases a; cases b; simp_all

/-! ### 2. chains -/

/-- last element of `a :: xs` -/
def lastOr (a : Nat) : List Nat → Nat
  | [] => a
  | x :: xs => lastOr x xs

@[simp] theorem lastOr_nil (a : Nat) : lastOr a [] = a := rfl
@[simp] theorem lastOr_cons (a x : Nat) (xs : List Nat) : lastOr a (x :: xs) = lastOr x xs := rfl
@[simp] theorem lastOr_snoc (a b : Nat) (xs : List Nat) : lastOr a (xs ++ [b]) = b := by
  induction xs generalizing a with
  | nil => rfl
  | cons x xs ih => simp [ih]
theorem headD_mem (b : Nat) (xs : List Nat) : xs.headD b = b ∨ xs.headD b ∈ xs := by
  cases xs <;> simp
theorem lastOr_mem (a : Nat) (xs : List Nat) : lastOr a xs = a ∨ lastOr a xs ∈ xs := by
  induction xs generalizing a with
  | nil => simp
  | cons x xs ih => rcases ih x with h | h <;> simp [h]

/-- `Chain h a xs b`: following `next` from `a` visits `xs` and then `b`; `prev` is the inverse. -/
def Chain (h : Heap) : Nat → List Nat → Nat → Prop
  | a, [], b => (h.node a).next = some b ∧ (h.node b).prev = some a
  | a, x :: xs, b => ((h.node a).next = some x ∧ (h.node x).prev = some a) ∧ Chain h x xs b

@[simp] theorem chain_nil {h : Heap} {a b : Nat} :
    Chain h a [] b ↔ (h.node a).next = some b ∧ (h.node b).prev = some a := Iff.rfl
@[simp] theorem chain_cons {h : Heap} {a x b : Nat} {xs : List Nat} :
    Chain h a (x :: xs) b ↔ ((h.node a).next = some x ∧ (h.node x).prev = some a) ∧ Chain h x xs b := Iff.rfl

theorem chain_append {h : Heap} {xs ys : List Nat} {a y b : Nat} :
    Chain h a (xs ++ y :: ys) b ↔ Chain h a xs y ∧ Chain h y ys b := by
  induction xs generalizing a with
  | nil => simp
  | cons x xs ih => simp [ih, and_assoc]

theorem chain_snoc {h : Heap} {xs : List Nat} {a y b : Nat} :
    Chain h a (xs ++ [y]) b ↔ Chain h a xs y ∧ ((h.node y).next = some b ∧ (h.node b).prev = some y) := by
  rw [chain_append]; simp

/-- rotation of a cycle -/
theorem chain_rotate {h : Heap} {pre post : List Nat} {r e : Nat} :
    Chain h r (pre ++ e :: post) r ↔ Chain h e (post ++ r :: pre) e := by
  rw [chain_append, chain_append]; exact And.comm

theorem Chain.frame {h h' : Heap} {xs : List Nat} {a b : Nat} (hc : Chain h a xs b)
    (hn : ∀ c, c = a ∨ c ∈ xs → (h'.node c).next = (h.node c).next)
    (hp : ∀ c, c ∈ xs ∨ c = b → (h'.node c).prev = (h.node c).prev) : Chain h' a xs b := by
  induction xs generalizing a with
  | nil =>
    simp only [chain_nil] at hc ⊢
    rw [hn a (Or.inl rfl), hp b (Or.inr rfl)]; exact hc
  | cons x xs ih =>
    simp only [chain_cons] at hc ⊢
    refine ⟨⟨?_, ?_⟩, ih hc.2 ?_ ?_⟩
    · rw [hn a (Or.inl rfl)]; exact hc.1.1
    · rw [hp x (Or.inl (by simp))]; exact hc.1.2
    · intro c hcx; apply hn; rcases hcx with rfl | hcx <;> simp [*]
    · intro c hcx; apply hp; rcases hcx with hcx | rfl <;> simp [*]

theorem Chain.next_first {h : Heap} {xs : List Nat} {a b : Nat} (hc : Chain h a xs b) :
    (h.node a).next = some (xs.headD b) := by
  cases xs with
  | nil => exact hc.1
  | cons x xs => exact hc.1.1

theorem Chain.prev_last {h : Heap} {xs : List Nat} {a b : Nat} (hc : Chain h a xs b) :
    (h.node b).prev = some (lastOr a xs) := by
  induction xs generalizing a with
  | nil => exact hc.2
  | cons x xs ih => simpa using ih hc.2

/-- next of an inner element -/
theorem Chain.next_mid {h : Heap} {pre post : List Nat} {a e b : Nat} (hc : Chain h a (pre ++ e :: post) b) :
    (h.node e).next = some (post.headD b) := (chain_append.1 hc).2.next_first

theorem Chain.prev_mid {h : Heap} {pre post : List Nat} {a e b : Nat} (hc : Chain h a (pre ++ e :: post) b) :
    (h.node e).prev = some (lastOr a pre) := (chain_append.1 hc).1.prev_last

/-- inserting `new` right after the start of a cycle -/
theorem cycle_insert {h h' : Heap} {e new n : Nat} {ys : List Nat} (hc : Chain h e ys e)
    (hne : new ≠ e) (hny : new ∉ ys) (hey : e ∉ ys) (hnd : ys.Nodup)
    (hn : (h.node e).next = some n)
    (hnext : ∀ c, (h'.node c).next =
      if c = e then some new else if c = new then some n else (h.node c).next)
    (hprev : ∀ c, (h'.node c).prev =
      if c = n then some new else if c = new then some e else (h.node c).prev) :
    Chain h' e (new :: ys) e := by
  have hh := hc.next_first
  rw [hn] at hh
  cases ys with
  | nil =>
    simp at hh; subst hh
    simp [hnext, hprev, hne]
  | cons y ys =>
    simp at hh; subst hh
    simp only [chain_cons] at hc ⊢
    simp only [List.mem_cons, not_or, List.nodup_cons] at hny hey hnd
    refine ⟨?_, ?_, ?_⟩
    · simp [hnext, hprev, hny.1]
    · simp [hnext, hprev, hne]
    · refine hc.2.frame ?_ ?_
      · intro c hcx; rw [hnext]; grind
      · intro c hcx; rw [hprev]; grind

/-- unlinking the start `e` of a cycle `e :: y :: ys` -/
theorem cycle_remove {h h' : Heap} {e y p : Nat} {ys : List Nat} (hc : Chain h e (y :: ys) e)
    (hey : e ∉ y :: ys) (hnd : (y :: ys).Nodup)
    (hp : (h.node e).prev = some p)
    (hnext : ∀ c, (h'.node c).next = if c = p then some y else (h.node c).next)
    (hprev : ∀ c, (h'.node c).prev = if c = y then some p else (h.node c).prev) :
    Chain h' y ys y := by
  have hh := hc.prev_last
  rw [hp] at hh
  simp only [chain_cons] at hc
  rcases List.eq_nil_or_concat ys with rfl | ⟨L, b, rfl⟩
  · simp at hh; subst hh
    simp [hnext, hprev]
  · simp only [List.concat_eq_append] at *
    simp at hh; subst hh
    rw [chain_snoc] at hc ⊢
    refine ⟨hc.2.1.frame ?_ ?_, ?_⟩
    · intro c hcx; rw [hnext]; grind
    · intro c hcx; rw [hprev]; grind
    · simp [hnext, hprev]

/-! ### 3. sequence-level operations and ghost state -/

/-- insert `n` right after (the first occurrence of) `e` -/
def insertAfter (e n : Nat) : List Nat → List Nat
  | [] => []
  | x :: xs => if x = e then x :: n :: xs else x :: insertAfter e n xs

theorem insertAfter_split {e n : Nat} {pre post : List Nat} (h : e ∉ pre) :
    insertAfter e n (pre ++ e :: post) = pre ++ e :: n :: post := by
  induction pre with
  | nil => simp [insertAfter]
  | cons x xs ih =>
    simp only [List.mem_cons, not_or] at h
    simp [insertAfter, Ne.symm h.1, ih h.2]

theorem insertAfter_last {a n : Nat} {xs : List Nat} (hx : xs ≠ []) (hnd : xs.Nodup) :
    insertAfter (lastOr a xs) n xs = xs ++ [n] := by
  rcases List.eq_nil_or_concat xs with rfl | ⟨L, b, rfl⟩
  · exact absurd rfl hx
  · simp only [List.concat_eq_append] at *
    rw [lastOr_snoc, insertAfter_split]
    · simp
    · intro hb
      rw [List.nodup_append] at hnd
      exact hnd.2.2 b hb b (by simp) rfl

theorem erase_split {e : Nat} {pre post : List Nat} (h : e ∉ pre) :
    (pre ++ e :: post).erase e = pre ++ post := by
  induction pre with
  | nil => simp
  | cons x xs ih =>
    simp only [List.mem_cons, not_or] at h
    simp [Ne.symm h.1, ih h.2]

/-- point update of the ghost state -/
def upd (g : Nat → List Nat) (l : Nat) (xs : List Nat) : Nat → List Nat :=
  fun i => if i = l then xs else g i

@[simp] theorem upd_same (g : Nat → List Nat) (l : Nat) (xs : List Nat) : upd g l xs l = xs := by
  simp [upd]
theorem upd_other (g : Nat → List Nat) {l i : Nat} (xs : List Nat) (h : i ≠ l) : upd g l xs i = g i := by
  simp [upd, h]
theorem upd_apply (g : Nat → List Nat) (l i : Nat) (xs : List Nat) :
    upd g l xs i = if i = l then xs else g i := rfl
@[simp] theorem upd_self (g : Nat → List Nat) (l : Nat) : upd g l (g l) = g := by
  funext i; by_cases h : i = l <;> simp [upd, h]
theorem upd_upd (g : Nat → List Nat) (l : Nat) (xs ys : List Nat) : upd (upd g l xs) l ys = upd g l ys := by
  funext i; by_cases h : i = l <;> simp [upd, h]

/-! ### 4. the invariant -/

/-- well-formedness of the list `l` w.r.t. the ghost sequence `g l` -/
structure LWF (h : Heap) (g : Nat → List Nat) (l : Nat) : Prop where
  unalloc : h.nl ≤ l → (h.hdr l).root = none
  empty : (h.hdr l).root = none → g l = []
  root : ∀ r, (h.hdr l).root = some r →
    r < h.nn ∧ (h.node r).ok = false ∧ (h.node r).list = some l ∧ Chain h r (g l) r
  len : (h.hdr l).length = (g l).length
  elem : ∀ x, x ∈ g l → x < h.nn ∧ (h.node x).ok = true ∧ (h.node x).list = some l
  nodup : (g l).Nodup

/-- the heap invariant: every list is well-formed and the `list` field of every element says
    which list (if any) owns it -/
structure WF (h : Heap) (g : Nat → List Nat) : Prop where
  lwf : ∀ l, LWF h g l
  owner : ∀ a l, (h.node a).list = some l → (h.hdr l).root = some a ∨ a ∈ g l

/-- what every operation except `Set`/`Drop` guarantees about the rest of the heap: nothing is
    deallocated, `ok`/`item` of existing elements are unchanged, sentinels stay -/
structure Frame (h h' : Heap) : Prop where
  nn : h.nn ≤ h'.nn
  nl : h.nl ≤ h'.nl
  data : ∀ a, a < h.nn → (h'.node a).ok = (h.node a).ok ∧ (h'.node a).item = (h.node a).item
  root : ∀ l r, (h.hdr l).root = some r → (h'.hdr l).root = some r

theorem Frame.refl (h : Heap) : Frame h h := ⟨Nat.le_refl _, Nat.le_refl _, fun _ _ => ⟨rfl, rfl⟩, fun _ _ x => x⟩

theorem Frame.trans {h1 h2 h3 : Heap} (a : Frame h1 h2) (b : Frame h2 h3) : Frame h1 h3 := by
  refine ⟨Nat.le_trans a.nn b.nn, Nat.le_trans a.nl b.nl, ?_, fun l r x => b.root l r (a.root l r x)⟩
  intro c hc
  have h1 := a.data c hc
  have h2 := b.data c (Nat.lt_of_lt_of_le hc a.nn)
  exact ⟨h2.1.trans h1.1, h2.2.trans h1.2⟩

theorem LWF.frame {h h' : Heap} {g g' : Nat → List Nat} {l : Nat} (hl : LWF h g l)
    (hn : h.nn ≤ h'.nn) (hnl : h.nl ≤ h'.nl) (hh : h'.hdr l = h.hdr l) (hg : g' l = g l)
    (hnode : ∀ c, (h.node c).list = some l → h'.node c = h.node c) : LWF h' g' l := by
  refine ⟨?_, ?_, ?_, ?_, ?_, ?_⟩
  · intro hle; rw [hh]; exact hl.unalloc (Nat.le_trans hnl hle)
  · intro hr; rw [hg]; rw [hh] at hr; exact hl.empty hr
  · intro r hr
    rw [hh] at hr
    obtain ⟨h1, h2, h3, h4⟩ := hl.root r hr
    rw [hg, hnode r h3]
    refine ⟨Nat.lt_of_lt_of_le h1 hn, h2, h3, h4.frame ?_ ?_⟩
    · intro c hc
      rcases hc with rfl | hc
      · rw [hnode _ h3]
      · rw [hnode _ (hl.elem c hc).2.2]
    · intro c hc
      rcases hc with hc | rfl
      · rw [hnode _ (hl.elem c hc).2.2]
      · rw [hnode _ h3]
  · rw [hh, hg]; exact hl.len
  · intro x hx
    rw [hg] at hx
    obtain ⟨h1, h2, h3⟩ := hl.elem x hx
    rw [hnode x h3]
    exact ⟨Nat.lt_of_lt_of_le h1 hn, h2, h3⟩
  · rw [hg]; exact hl.nodup

namespace WF
variable {h : Heap} {g : Nat → List Nat}

theorem root_lt (hw : WF h g) {l r : Nat} (hr : (h.hdr l).root = some r) : l < h.nl := by
  apply Nat.lt_of_not_le
  intro hle
  have := (hw.lwf l).unalloc hle
  rw [hr] at this; cases this

theorem mem_root (hw : WF h g) {l x : Nat} (hx : x ∈ g l) : ∃ r, (h.hdr l).root = some r := by
  cases hr : (h.hdr l).root with
  | some r => exact ⟨r, rfl⟩
  | none =>
    have := (hw.lwf l).empty hr
    rw [this] at hx; cases hx

theorem root_not_mem (hw : WF h g) {l l' r : Nat} (hr : (h.hdr l).root = some r) : r ∉ g l' := by
  intro hm
  have h1 := ((hw.lwf l).root r hr).2.1
  have h2 := ((hw.lwf l').elem r hm).2.1
  rw [h1] at h2; cases h2

theorem list_none_of_ge (hw : WF h g) {a : Nat} (ha : h.nn ≤ a) : (h.node a).list = none := by
  cases hl : (h.node a).list with
  | none => rfl
  | some l =>
    rcases hw.owner a l hl with hr | hm
    · exact absurd ((hw.lwf l).root a hr).1 (Nat.not_lt.2 ha)
    · exact absurd ((hw.lwf l).elem a hm).1 (Nat.not_lt.2 ha)

/-- any member of the cycle of `l` (sentinel or element) carries `list = some l` -/
theorem list_of_cycle (hw : WF h g) {l r c : Nat} (hr : (h.hdr l).root = some r)
    (hc : c = r ∨ c ∈ g l) : (h.node c).list = some l := by
  rcases hc with rfl | hc
  · exact ((hw.lwf l).root c hr).2.2.1
  · exact ((hw.lwf l).elem c hc).2.2

end WF

/-! ### 5. closed forms of `uncheckedAppend` / `uncheckedRemove` -/

namespace Heap

def appendResult (h : Heap) (l e new n : Nat) : Heap :=
  (((((h.addLength l 1).setList new (some l)).setPrev new (some e)).setNext new (some n)).setNext e
    (some new)).setPrev n (some new)

theorem uncheckedAppend_eq {h : Heap} {l e new n : Nat} (hl : (h.node e).list = some l)
    (hn : (h.node e).next = some n) (hne : new ≠ e) :
    h.uncheckedAppend e new = some (h.appendResult l e new n) := by
  simp [uncheckedAppend, appendResult, hl, hn, hne]

def removeResult (h : Heap) (l e p n : Nat) : Heap :=
  (((h.addLength l (-1)).setNext p (some n)).setPrev n (some p)).setList e none

theorem uncheckedRemove_eq {h : Heap} {l e p n : Nat} (hl : (h.node e).list = some l)
    (hp : (h.node e).prev = some p) (hn : (h.node e).next = some n) :
    h.uncheckedRemove e = some (h.removeResult l e p n) := by
  simp [uncheckedRemove, removeResult, hl, hn, hp]

section results
variable (h : Heap) (l e new p n c i : Nat)

@[simp] theorem appendResult_next : ((h.appendResult l e new n).node c).next =
    if c = e then some new else if c = new then some n else (h.node c).next := by simp [appendResult]
@[simp] theorem appendResult_prev : ((h.appendResult l e new n).node c).prev =
    if c = n then some new else if c = new then some e else (h.node c).prev := by simp [appendResult]
@[simp] theorem appendResult_list : ((h.appendResult l e new n).node c).list =
    if c = new then some l else (h.node c).list := by simp [appendResult]
@[simp] theorem appendResult_ok : ((h.appendResult l e new n).node c).ok = (h.node c).ok := by
  simp [appendResult]
@[simp] theorem appendResult_item : ((h.appendResult l e new n).node c).item = (h.node c).item := by
  simp [appendResult]
@[simp] theorem appendResult_root : ((h.appendResult l e new n).hdr i).root = (h.hdr i).root := by
  simp [appendResult]
@[simp] theorem appendResult_length : ((h.appendResult l e new n).hdr i).length =
    if i = l then (h.hdr l).length + 1 else (h.hdr i).length := by simp [appendResult]
@[simp] theorem appendResult_nn : (h.appendResult l e new n).nn = h.nn := rfl
@[simp] theorem appendResult_nl : (h.appendResult l e new n).nl = h.nl := rfl

@[simp] theorem removeResult_next : ((h.removeResult l e p n).node c).next =
    if c = p then some n else (h.node c).next := by simp [removeResult]
@[simp] theorem removeResult_prev : ((h.removeResult l e p n).node c).prev =
    if c = n then some p else (h.node c).prev := by simp [removeResult]
@[simp] theorem removeResult_list : ((h.removeResult l e p n).node c).list =
    if c = e then none else (h.node c).list := by simp [removeResult]
@[simp] theorem removeResult_ok : ((h.removeResult l e p n).node c).ok = (h.node c).ok := by
  simp [removeResult]
@[simp] theorem removeResult_item : ((h.removeResult l e p n).node c).item = (h.node c).item := by
  simp [removeResult]
@[simp] theorem removeResult_root : ((h.removeResult l e p n).hdr i).root = (h.hdr i).root := by
  simp [removeResult]
@[simp] theorem removeResult_length : ((h.removeResult l e p n).hdr i).length =
    if i = l then (h.hdr l).length + -1 else (h.hdr i).length := by simp [removeResult]
@[simp] theorem removeResult_nn : (h.removeResult l e p n).nn = h.nn := rfl
@[simp] theorem removeResult_nl : (h.removeResult l e p n).nl = h.nl := rfl

theorem appendResult_hdr_other {i l : Nat} (hi : i ≠ l) : (h.appendResult l e new n).hdr i = h.hdr i := by
  simp [appendResult, addLength, hi]
theorem removeResult_hdr_other {i l : Nat} (hi : i ≠ l) : (h.removeResult l e p n).hdr i = h.hdr i := by
  simp [removeResult, addLength, hi]

end results

end Heap

/-! ### 6. `uncheckedAppend` / `uncheckedRemove` preserve the invariant -/

theorem WF.append_core {h : Heap} {g : Nat → List Nat} (hw : WF h g) {l e new r n : Nat} {xs' : List Nat}
    (hr : (h.hdr l).root = some r) (he : (h.node e).list = some l) (hn : (h.node n).list = some l)
    (hlt : new < h.nn) (hok : (h.node new).ok = true) (hdet : (h.node new).list = none)
    (hmem : ∀ x, x ∈ xs' ↔ x = new ∨ x ∈ g l) (hnd : xs'.Nodup) (hlen : xs'.length = (g l).length + 1)
    (hch : Chain (h.appendResult l e new n) r xs' r) :
    WF (h.appendResult l e new n) (upd g l xs') := by
  have hnew_ne : ∀ c l', (h.node c).list = some l' → c ≠ new := by
    intro c l' hc hcn; rw [hcn, hdet] at hc; cases hc
  obtain ⟨hr1, hr2, hr3, _⟩ := (hw.lwf l).root r hr
  refine ⟨?_, ?_⟩
  · intro l'
    by_cases hl' : l' = l
    · subst hl'
      refine ⟨?_, ?_, ?_, ?_, ?_, ?_⟩
      · intro hle; simpa using (hw.lwf l').unalloc hle
      · intro hx; simp [hr] at hx
      · intro r' hr'
        simp [hr] at hr'; subst hr'
        simp [hr2, hr3, hnew_ne _ _ hr3, hch]; exact hr1
      · simp [hlen, (hw.lwf l').len]
      · intro x hx
        simp only [upd_same, hmem] at hx
        rcases hx with rfl | hx
        · simp [hlt, hok]
        · obtain ⟨h1, h2, h3⟩ := (hw.lwf l').elem x hx
          simp [h1, h2, h3, hnew_ne _ _ h3]
      · simpa using hnd
    · refine (hw.lwf l').frame (Nat.le_refl _) (Nat.le_refl _)
        (Heap.appendResult_hdr_other h e new n hl') (upd_other g xs' hl') ?_
      intro c hc
      have h1 : c ≠ new := hnew_ne _ _ hc
      have h2 : c ≠ e := by intro hce; rw [hce, he] at hc; exact hl' (Option.some.inj hc).symm
      have h3 : c ≠ n := by intro hce; rw [hce, hn] at hc; exact hl' (Option.some.inj hc).symm
      apply Node.ext' <;> simp [h1, h2, h3]
  · intro a l' ha
    simp only [Heap.appendResult_list] at ha
    by_cases han : a = new
    · simp [han] at ha; subst ha
      right; simp [hmem, han]
    · simp [han] at ha
      rcases hw.owner a l' ha with h1 | h1
      · left; simpa using h1
      · right
        by_cases hl' : l' = l
        · subst hl'; simp [hmem, h1]
        · rw [upd_other g xs' hl']; exact h1

theorem Frame.appendResult (h : Heap) (l e new n : Nat) : Frame h (h.appendResult l e new n) :=
  ⟨Nat.le_refl _, Nat.le_refl _, fun _ _ => by simp, fun _ _ hr => by simpa using hr⟩

theorem Frame.removeResult (h : Heap) (l e p n : Nat) : Frame h (h.removeResult l e p n) :=
  ⟨Nat.le_refl _, Nat.le_refl _, fun _ _ => by simp, fun _ _ hr => by simpa using hr⟩

/-- `uncheckedAppend e new` for an attached `e` (sentinel or element of `l`) and a detached, ok
    `new`: no panic, `new` is inserted right after `e` -/
theorem WF.uncheckedAppend {h : Heap} {g : Nat → List Nat} (hw : WF h g) {l e new : Nat}
    (he : (h.node e).list = some l)
    (hlt : new < h.nn) (hok : (h.node new).ok = true) (hdet : (h.node new).list = none) :
    ∃ h', h.uncheckedAppend e new = some h' ∧
      WF h' (upd g l (if (h.hdr l).root = some e then new :: g l else insertAfter e new (g l))) ∧
      Frame h h' ∧ h'.nn = h.nn ∧ h'.nl = h.nl := by
  have hne : new ≠ e := by intro hx; rw [hx, he] at hdet; cases hdet
  have hnot : ∀ l', new ∉ g l' := by
    intro l' hx; have := ((hw.lwf l').elem new hx).2.2; rw [hdet] at this; cases this
  rcases hw.owner e l he with hr | hm
  · -- `e` is the sentinel
    obtain ⟨_, _, _, hch⟩ := (hw.lwf l).root e hr
    have hn := hch.next_first
    refine ⟨_, Heap.uncheckedAppend_eq he hn hne, ?_, Frame.appendResult .., rfl, rfl⟩
    rw [if_pos hr]
    have hnl : (h.node ((g l).headD e)).list = some l :=
      hw.list_of_cycle hr (headD_mem e (g l))
    refine hw.append_core hr he hnl hlt hok hdet (by simp) ?_ (by simp) ?_
    · simp [hnot l, (hw.lwf l).nodup]
    · exact cycle_insert hch hne (hnot l) (hw.root_not_mem hr) (hw.lwf l).nodup hn
        (fun c => by simp) (fun c => by simp)
  · -- `e` is an element
    obtain ⟨r, hr⟩ := hw.mem_root hm
    have her : e ≠ r := by intro hx; subst hx; exact hw.root_not_mem hr hm
    obtain ⟨_, _, _, hch⟩ := (hw.lwf l).root r hr
    obtain ⟨pre, post, hsplit⟩ := List.append_of_mem hm
    have hnd := (hw.lwf l).nodup
    have hrn := hw.root_not_mem (l' := l) hr
    have hnn := hnot l
    rw [hsplit] at hch hnd hrn hnn
    have hn := hch.next_mid
    have hepre : e ∉ pre := by
      intro hx; rw [List.nodup_append] at hnd; exact hnd.2.2 e hx e (by simp) rfl
    refine ⟨_, Heap.uncheckedAppend_eq he hn hne, ?_, Frame.appendResult .., rfl, rfl⟩
    rw [if_neg (by rw [hr]; intro hx; exact her (Option.some.inj hx).symm), hsplit,
      insertAfter_split hepre]
    have hnl : (h.node (post.headD r)).list = some l := by
      apply hw.list_of_cycle hr
      rcases headD_mem r post with hx | hx
      · exact Or.inl hx
      · right; rw [hsplit]; exact List.mem_append_right _ (List.mem_cons_of_mem _ hx)
    refine hw.append_core hr he hnl hlt hok hdet ?_ ?_ ?_ ?_
    · intro x; rw [hsplit]; simp; grind
    · simp only [List.nodup_append, List.nodup_cons, List.mem_cons, List.mem_append] at hnd hnn ⊢
      grind
    · rw [hsplit]; simp; omega
    · rw [chain_rotate] at hch
      have : Chain (h.appendResult l e new (post.headD r)) e (new :: (post ++ r :: pre)) e := by
        refine cycle_insert hch hne ?_ ?_ ?_ hn (fun c => by simp) (fun c => by simp)
        · simp only [List.mem_append, List.mem_cons] at hnn ⊢; grind
        · simp only [List.nodup_append, List.nodup_cons, List.mem_cons, List.mem_append] at hnd ⊢
          grind
        · simp only [List.nodup_append, List.nodup_cons, List.mem_cons, List.mem_append] at hnd hrn ⊢
          grind
      rw [chain_rotate]
      simpa using this

theorem WF.remove_core {h : Heap} {g : Nat → List Nat} (hw : WF h g) {l e r p n : Nat} {xs' : List Nat}
    (hr : (h.hdr l).root = some r) (hem : e ∈ g l)
    (hp : (h.node p).list = some l) (hn : (h.node n).list = some l)
    (hmem : ∀ x, x ∈ xs' ↔ x ∈ g l ∧ x ≠ e) (hnd : xs'.Nodup) (hlen : xs'.length + 1 = (g l).length)
    (hch : Chain (h.removeResult l e p n) r xs' r) :
    WF (h.removeResult l e p n) (upd g l xs') := by
  have he := ((hw.lwf l).elem e hem).2.2
  have her : r ≠ e := by intro hx; subst hx; exact hw.root_not_mem hr hem
  obtain ⟨hr1, hr2, hr3, _⟩ := (hw.lwf l).root r hr
  refine ⟨?_, ?_⟩
  · intro l'
    by_cases hl' : l' = l
    · subst hl'
      refine ⟨?_, ?_, ?_, ?_, ?_, ?_⟩
      · intro hle; simpa using (hw.lwf l').unalloc hle
      · intro hx; simp [hr] at hx
      · intro r' hr'
        simp [hr] at hr'; subst hr'
        simp [hr2, hr3, her, hch]; exact hr1
      · simp [(hw.lwf l').len, ← hlen]; omega
      · intro x hx
        simp only [upd_same, hmem] at hx
        obtain ⟨h1, h2, h3⟩ := (hw.lwf l').elem x hx.1
        simp [h1, h2, h3, hx.2]
      · simpa using hnd
    · refine (hw.lwf l').frame (Nat.le_refl _) (Nat.le_refl _)
        (Heap.removeResult_hdr_other h e p n hl') (upd_other g xs' hl') ?_
      intro c hc
      have h1 : c ≠ e := by intro hce; rw [hce, he] at hc; exact hl' (Option.some.inj hc).symm
      have h2 : c ≠ p := by intro hce; rw [hce, hp] at hc; exact hl' (Option.some.inj hc).symm
      have h3 : c ≠ n := by intro hce; rw [hce, hn] at hc; exact hl' (Option.some.inj hc).symm
      apply Node.ext' <;> simp [h1, h2, h3]
  · intro a l' ha
    simp only [Heap.removeResult_list] at ha
    by_cases hae : a = e
    · simp [hae] at ha
    · simp [hae] at ha
      rcases hw.owner a l' ha with h1 | h1
      · left; simpa using h1
      · right
        by_cases hl' : l' = l
        · subst hl'; simp [hmem, h1, hae]
        · rw [upd_other g xs' hl']; exact h1

/-- `uncheckedRemove e` for an element `e` of `l`: no panic, `e` is unlinked and detached -/
theorem WF.uncheckedRemove {h : Heap} {g : Nat → List Nat} (hw : WF h g) {l e : Nat} (hm : e ∈ g l) :
    ∃ h', h.uncheckedRemove e = some h' ∧ WF h' (upd g l ((g l).erase e)) ∧ Frame h h' ∧
      h'.nn = h.nn ∧ h'.nl = h.nl ∧ (h'.node e).list = none := by
  have he := ((hw.lwf l).elem e hm).2.2
  obtain ⟨r, hr⟩ := hw.mem_root hm
  obtain ⟨_, _, _, hch⟩ := (hw.lwf l).root r hr
  obtain ⟨pre, post, hsplit⟩ := List.append_of_mem hm
  have hnd := (hw.lwf l).nodup
  have hrn := hw.root_not_mem (l' := l) hr
  rw [hsplit] at hch hnd hrn
  have hn := hch.next_mid
  have hp := hch.prev_mid
  have hepre : e ∉ pre := by
    intro hx; rw [List.nodup_append] at hnd; exact hnd.2.2 e hx e (by simp) rfl
  refine ⟨_, Heap.uncheckedRemove_eq he hp hn, ?_, Frame.removeResult .., rfl, rfl, by simp⟩
  rw [hsplit, erase_split hepre]
  have hnl : (h.node (post.headD r)).list = some l := by
    apply hw.list_of_cycle hr
    rcases headD_mem r post with hx | hx
    · exact Or.inl hx
    · right; rw [hsplit]; exact List.mem_append_right _ (List.mem_cons_of_mem _ hx)
  have hpl : (h.node (lastOr r pre)).list = some l := by
    apply hw.list_of_cycle hr
    rcases lastOr_mem r pre with hx | hx
    · exact Or.inl hx
    · right; rw [hsplit]; exact List.mem_append_left _ hx
  refine hw.remove_core hr hm hpl hnl ?_ ?_ ?_ ?_
  · intro x; rw [hsplit]
    simp only [List.nodup_append, List.nodup_cons, List.mem_cons, List.mem_append] at hnd ⊢
    grind
  · simp only [List.nodup_append, List.nodup_cons, List.mem_cons, List.mem_append] at hnd ⊢
    grind
  · rw [hsplit]; simp; omega
  · rw [chain_rotate] at hch
    have hey : e ∉ post ++ r :: pre := by
      simp only [List.nodup_append, List.nodup_cons, List.mem_cons, List.mem_append] at hnd hrn ⊢
      grind
    have hnd2 : (post ++ r :: pre).Nodup := by
      simp only [List.nodup_append, List.nodup_cons, List.mem_cons, List.mem_append] at hnd hrn ⊢
      grind
    cases post with
    | nil =>
      simpa using cycle_remove hch hey hnd2 hp (fun c => by simp) (fun c => by simp)
    | cons y post' =>
      rw [chain_rotate]
      exact cycle_remove hch hey hnd2 hp (fun c => by simp) (fun c => by simp)

/-! ### 7. allocation, `lazySetup`, data updates -/

namespace Heap

/-- the heap after `lazySetup` had to create the sentinel -/
def setupResult (h : Heap) (l : Nat) : Heap where
  node := fun c => if c = h.nn then { next := some h.nn, prev := some h.nn, list := some l, ok := false, item := 0 }
    else h.node c
  hdr := fun i => if i = l then { root := some h.nn, length := (h.hdr l).length } else h.hdr i
  nn := h.nn + 1
  nl := h.nl

theorem lazySetup_some {h : Heap} {l r : Nat} (hr : (h.hdr l).root = some r) : h.lazySetup l = h := by
  simp [lazySetup, hr]

theorem lazySetup_none {h : Heap} {l : Nat} (hr : (h.hdr l).root = none) :
    h.lazySetup l = h.setupResult l := by
  simp only [lazySetup, hr, makeElem, setupResult, alloc, setNext, setPrev, setList, setNode, setHdr]
  congr 1
  · funext c; by_cases hc : c = h.nn <;> simp [hc]

/-- `Set`/`Drop` data update -/
def setData (h : Heap) (e : Nat) (b : Bool) (v : Int) : Heap := h.setNode e { h.node e with ok := b, item := v }

section
variable (h : Heap) (e c : Nat) (b : Bool) (v : Int)
@[simp] theorem setData_next : ((h.setData e b v).node c).next = (h.node c).next := by
  unfold setData; by_cases hc : c = e <;> simp [hc]
@[simp] theorem setData_prev : ((h.setData e b v).node c).prev = (h.node c).prev := by
  unfold setData; by_cases hc : c = e <;> simp [hc]
@[simp] theorem setData_list : ((h.setData e b v).node c).list = (h.node c).list := by
  unfold setData; by_cases hc : c = e <;> simp [hc]
@[simp] theorem setData_ok : ((h.setData e b v).node c).ok = if c = e then b else (h.node c).ok := by
  unfold setData; by_cases hc : c = e <;> simp [hc]
@[simp] theorem setData_item : ((h.setData e b v).node c).item = if c = e then v else (h.node c).item := by
  unfold setData; by_cases hc : c = e <;> simp [hc]
@[simp] theorem setData_hdr : (h.setData e b v).hdr = h.hdr := rfl
@[simp] theorem setData_nn : (h.setData e b v).nn = h.nn := rfl
@[simp] theorem setData_nl : (h.setData e b v).nl = h.nl := rfl
end

end Heap

theorem WF.alloc {h : Heap} {g : Nat → List Nat} (hw : WF h g) {n : Node} (hn : n.list = none) :
    WF (h.alloc n).1 g := by
  refine ⟨?_, ?_⟩
  · intro l
    refine (hw.lwf l).frame (by simp) (by simp) rfl rfl ?_
    intro c hc
    have : c ≠ h.nn := by
      intro hx; subst hx; rw [hw.list_none_of_ge (Nat.le_refl _)] at hc; cases hc
    simp [this]
  · intro a l ha
    by_cases hx : a = h.nn
    · simp [hx, hn] at ha
    · simp [hx] at ha; simpa using hw.owner a l ha

theorem Frame.alloc (h : Heap) (n : Node) : Frame h (h.alloc n).1 := by
  refine ⟨by simp, by simp, ?_, fun _ _ hr => by simpa using hr⟩
  intro a ha
  have : a ≠ h.nn := Nat.ne_of_lt ha
  simp [this]

theorem WF.ghost_unalloc {h : Heap} {g : Nat → List Nat} (hw : WF h g) {l : Nat} (hl : h.nl ≤ l) : g l = [] :=
  (hw.lwf l).empty ((hw.lwf l).unalloc hl)

theorem WF.allocList {h : Heap} {g : Nat → List Nat} (hw : WF h g) : WF h.allocList.1 g := by
  refine ⟨?_, ?_⟩
  · intro l
    by_cases hl : l = h.nl
    · subst hl
      have hg := hw.ghost_unalloc (Nat.le_refl h.nl)
      refine ⟨by simp, fun _ => hg, by simp, by simp [hg], by simp [hg], by simp [hg]⟩
    · exact (hw.lwf l).frame (by simp) (by simp) (by simp [hl]) rfl (fun _ _ => rfl)
  · intro a l ha
    rcases hw.owner a l ha with h1 | h1
    · left
      have : l ≠ h.nl := Nat.ne_of_lt (hw.root_lt h1)
      simpa [this] using h1
    · exact Or.inr h1

theorem Frame.allocList {h : Heap} {g : Nat → List Nat} (hw : WF h g) : Frame h h.allocList.1 := by
  refine ⟨by simp, by simp, fun _ _ => by simp, ?_⟩
  intro l r hr
  have : l ≠ h.nl := Nat.ne_of_lt (hw.root_lt hr)
  simp [this, hr]

theorem WF.setData {h : Heap} {g : Nat → List Nat} (hw : WF h g) {e : Nat} {b : Bool} (v : Int)
    (hroot : ∀ l, (h.hdr l).root ≠ some e) (hmem : ∀ l, e ∈ g l → b = true) :
    WF (h.setData e b v) g := by
  refine ⟨?_, ?_⟩
  · intro l
    have hl := hw.lwf l
    refine ⟨hl.unalloc, hl.empty, ?_, hl.len, ?_, hl.nodup⟩
    · intro r hr
      obtain ⟨h1, h2, h3, h4⟩ := hl.root r hr
      have : r ≠ e := by intro hx; subst hx; exact hroot l hr
      refine ⟨h1, by simp [this, h2], by simp [h3], h4.frame (fun _ _ => by simp) (fun _ _ => by simp)⟩
    · intro x hx
      obtain ⟨h1, h2, h3⟩ := hl.elem x hx
      refine ⟨h1, ?_, by simp [h3]⟩
      by_cases hxe : x = e
      · subst hxe; simp [hmem l hx]
      · simp [hxe, h2]
  · intro a l ha
    simp only [Heap.setData_list] at ha
    exact hw.owner a l ha

theorem WF.lazySetup {h : Heap} {g : Nat → List Nat} (hw : WF h g) {l : Nat} (hl : l < h.nl) :
    WF (h.lazySetup l) g ∧ Frame h (h.lazySetup l) ∧ ∃ r, ((h.lazySetup l).hdr l).root = some r := by
  cases hr : (h.hdr l).root with
  | some r => rw [Heap.lazySetup_some hr]; exact ⟨hw, Frame.refl h, r, hr⟩
  | none =>
    rw [Heap.lazySetup_none hr]
    have hg := (hw.lwf l).empty hr
    have hlen := (hw.lwf l).len
    rw [hg] at hlen
    refine ⟨⟨?_, ?_⟩, ⟨?_, ?_, ?_, ?_⟩, h.nn, ?_⟩
    · intro l'
      by_cases hl' : l' = l
      · subst hl'
        refine ⟨?_, ?_, ?_, ?_, ?_, ?_⟩
        · intro hle; exact absurd hl (Nat.not_lt.2 hle)
        · intro _; exact hg
        · intro r hr'
          simp [Heap.setupResult] at hr'; subst hr'
          simp [Heap.setupResult, hg]
        · simp [Heap.setupResult, hg, hlen]
        · simp [hg]
        · simp [hg]
      · refine (hw.lwf l').frame (by simp [Heap.setupResult]) (Nat.le_refl _) (by simp [Heap.setupResult, hl'])
          rfl ?_
        intro c hc
        have : c ≠ h.nn := by
          intro hx; subst hx; rw [hw.list_none_of_ge (Nat.le_refl _)] at hc; cases hc
        simp [Heap.setupResult, this]
    · intro a l' ha
      by_cases hx : a = h.nn
      · subst hx
        simp [Heap.setupResult] at ha; subst ha
        left; simp [Heap.setupResult]
      · simp [Heap.setupResult, hx] at ha
        rcases hw.owner a l' ha with h1 | h1
        · left
          have : l' ≠ l := by intro hx; subst hx; rw [hr] at h1; cases h1
          simpa [Heap.setupResult, this] using h1
        · exact Or.inr h1
    · simp [Heap.setupResult]
    · exact Nat.le_refl _
    · intro a ha
      have : a ≠ h.nn := Nat.ne_of_lt ha
      simp [Heap.setupResult, this]
    · intro l' r' hr'
      have : l' ≠ l := by intro hx; subst hx; rw [hr] at hr'; cases hr'
      simpa [Heap.setupResult, this] using hr'
    · simp [Heap.setupResult]

/-! ### 8. the public operations -/

theorem Heap.appendable_eq_true {h : Heap} {e : Nat} {new : Option Nat} :
    h.appendable e new = true ↔
      ∃ n, new = some n ∧ (h.node n).ok = true ∧ (h.node e).list.isSome ∧ (h.node n).list = none := by
  cases new with
  | none => simp [Heap.appendable]
  | some n => simp [Heap.appendable, and_assoc]

theorem Heap.elemAppend_reject {h : Heap} {e : Nat} {new : Option Nat} (hr : h.appendable e new = false) :
    h.elemAppend e new = some (h, e) := by
  simp [Heap.elemAppend, hr]

theorem WF.elemAppend_accept {h : Heap} {g : Nat → List Nat} (hw : WF h g) {l e n : Nat}
    (he : (h.node e).list = some l)
    (hlt : n < h.nn) (hok : (h.node n).ok = true) (hdet : (h.node n).list = none) :
    ∃ h', h.elemAppend e (some n) = some (h', n) ∧
      WF h' (upd g l (if (h.hdr l).root = some e then n :: g l else insertAfter e n (g l))) ∧
      Frame h h' ∧ h'.nn = h.nn ∧ h'.nl = h.nl := by
  obtain ⟨h', h1, h2, h3, h4, h5⟩ := hw.uncheckedAppend he hlt hok hdet
  refine ⟨h', ?_, h2, h3, h4, h5⟩
  have : h.appendable e (some n) = true := by simp [Heap.appendable, hok, he, hdet]
  simp [Heap.elemAppend, this, h1]

/-- allocate a fresh ok element carrying `v` and append it after the attached `e` -/
theorem WF.appendNew {h : Heap} {g : Nat → List Nat} (hw : WF h g) {l e : Nat}
    (he : (h.node e).list = some l) (v : Int) :
    ∃ h', (h.alloc { ok := true, item := v }).1.elemAppend e (some h.nn) = some (h', h.nn) ∧
      WF h' (upd g l (if (h.hdr l).root = some e then h.nn :: g l else insertAfter e h.nn (g l))) ∧
      Frame h h' ∧ (h'.node h.nn).item = v := by
  have hne : e ≠ h.nn := by
    intro hx; subst hx; rw [hw.list_none_of_ge (Nat.le_refl _)] at he; cases he
  have hw1 : WF (h.alloc { ok := true, item := v }).1 g := hw.alloc rfl
  obtain ⟨h', h1, h2, h3, _, _⟩ := hw1.elemAppend_accept (l := l) (e := e) (n := h.nn)
    (by simp [hne, he]) (by simp) (by simp) (by simp)
  refine ⟨h', h1, h2, (Frame.alloc h _).trans h3, ?_⟩
  have := (h3.data h.nn (by simp)).2
  simpa using this

theorem WF.back_eq {h : Heap} {g : Nat → List Nat} (hw : WF h g) {l r : Nat} (hr : (h.hdr l).root = some r) :
    h.back l = some (lastOr r (g l)) := by
  simp [Heap.back, Heap.root, hr, ((hw.lwf l).root r hr).2.2.2.prev_last]

theorem WF.front_eq {h : Heap} {g : Nat → List Nat} (hw : WF h g) {l r : Nat} (hr : (h.hdr l).root = some r) :
    h.front l = some ((g l).headD r) := by
  simp only [Heap.front, Heap.root, hr]
  exact ((hw.lwf l).root r hr).2.2.2.next_first

theorem WF.pushBack {h : Heap} {g : Nat → List Nat} (hw : WF h g) {l : Nat} (hl : l < h.nl) (v : Int) :
    ∃ h' n, h.pushBack l v = some h' ∧ WF h' (upd g l (g l ++ [n])) ∧ Frame h h' ∧ h.nn ≤ n ∧
      (h'.node n).item = v := by
  obtain ⟨hw0, hf0, r, hr⟩ := hw.lazySetup hl
  simp only [Heap.pushBack]
  generalize h.lazySetup l = h0 at *
  have hb := hw0.back_eq hr
  have hbl : (h0.node (lastOr r (g l))).list = some l := by
    apply hw0.list_of_cycle hr
    rcases lastOr_mem r (g l) with hx | hx
    · exact Or.inl hx
    · exact Or.inr hx
  obtain ⟨h', h1, h2, h3, h4⟩ := hw0.appendNew hbl v
  refine ⟨h', h0.nn, ?_, ?_, hf0.trans h3, hf0.nn, h4⟩
  · simp only [hb, Heap.makeElem]
    simp [h1]
  · have : (if (h0.hdr l).root = some (lastOr r (g l)) then h0.nn :: g l
        else insertAfter (lastOr r (g l)) h0.nn (g l)) = g l ++ [h0.nn] := by
      by_cases hg : g l = []
      · simp [hg, hr]
      · have hmem : lastOr r (g l) ∈ g l := by
          rcases List.eq_nil_or_concat (g l) with hx | ⟨L, b, hx⟩
          · exact absurd hx hg
          · rw [hx]; simp
        have hne : lastOr r (g l) ≠ r := by
          intro hx; rw [hx] at hmem; exact hw0.root_not_mem hr hmem
        rw [if_neg (by rw [hr]; intro hx; exact hne (Option.some.inj hx).symm)]
        exact insertAfter_last hg (hw0.lwf l).nodup
    rw [← this]; exact h2

theorem WF.pushFront {h : Heap} {g : Nat → List Nat} (hw : WF h g) {l : Nat} (hl : l < h.nl) (v : Int) :
    ∃ h' n, h.pushFront l v = some h' ∧ WF h' (upd g l (n :: g l)) ∧ Frame h h' ∧ h.nn ≤ n ∧
      (h'.node n).item = v := by
  obtain ⟨hw0, hf0, r, hr⟩ := hw.lazySetup hl
  simp only [Heap.pushFront]
  generalize h.lazySetup l = h0 at *
  obtain ⟨h', h1, h2, h3, h4⟩ := hw0.appendNew ((hw0.lwf l).root r hr).2.2.1 v
  refine ⟨h', h0.nn, ?_, ?_, hf0.trans h3, hf0.nn, h4⟩
  · simp only [Heap.root, hr, Heap.makeElem]
    simp [h1]
  · rw [if_pos hr] at h2; exact h2

theorem WF.removable_mem {h : Heap} {g : Nat → List Nat} (hw : WF h g) {l e : Nat} (hm : e ∈ g l) :
    h.removable e = some true := by
  have he := ((hw.lwf l).elem e hm).2.2
  have h1 : (h.hdr l).root ≠ some e := fun hr => hw.root_not_mem hr hm
  have h2 : (h.hdr l).length > 0 := by
    rw [(hw.lwf l).len]
    cases hg : g l with
    | nil => rw [hg] at hm; cases hm
    | cons x xs => simp
  simp [Heap.removable, he, h1, h2]

theorem WF.removable_not {h : Heap} {g : Nat → List Nat} (hw : WF h g) {e : Nat} (hm : ∀ l, e ∉ g l) :
    h.removable e = some false := by
  cases he : (h.node e).list with
  | none => simp [Heap.removable, he]
  | some l =>
    rcases hw.owner e l he with hr | hx
    · simp [Heap.removable, he, hr]
    · exact absurd hx (hm l)

theorem WF.elemRemove_mem {h : Heap} {g : Nat → List Nat} (hw : WF h g) {l e : Nat} (hm : e ∈ g l) :
    ∃ h', h.elemRemove e = some (h', true) ∧ WF h' (upd g l ((g l).erase e)) ∧ Frame h h' ∧
      h'.nn = h.nn ∧ h'.nl = h.nl ∧ (h'.node e).list = none := by
  obtain ⟨h', h1, h2⟩ := hw.uncheckedRemove hm
  exact ⟨h', by simp [Heap.elemRemove, hw.removable_mem hm, h1], h2⟩

theorem WF.elemRemove_not {h : Heap} {g : Nat → List Nat} (hw : WF h g) {e : Nat} (hm : ∀ l, e ∉ g l) :
    h.elemRemove e = some (h, false) := by
  simp [Heap.elemRemove, hw.removable_not hm]

/-- like `Frame`, but says nothing about the data of `e` -/
structure FrameExcept (e : Nat) (h h' : Heap) : Prop where
  nn : h.nn ≤ h'.nn
  nl : h.nl ≤ h'.nl
  data : ∀ a, a < h.nn → a ≠ e → (h'.node a).ok = (h.node a).ok ∧ (h'.node a).item = (h.node a).item
  root : ∀ l r, (h.hdr l).root = some r → (h'.hdr l).root = some r

theorem Frame.except {h h' : Heap} (f : Frame h h') (e : Nat) : FrameExcept e h h' :=
  ⟨f.nn, f.nl, fun a ha _ => f.data a ha, f.root⟩

theorem FrameExcept.setData (h : Heap) (e : Nat) (b : Bool) (v : Int) : FrameExcept e h (h.setData e b v) :=
  ⟨Nat.le_refl _, Nat.le_refl _, fun a _ hae => by simp [hae], fun _ _ hr => hr⟩

theorem Frame.then_setData {h h' : Heap} (f : Frame h h') (e : Nat) (b : Bool) (v : Int) :
    FrameExcept e h (h'.setData e b v) :=
  ⟨f.nn, f.nl, fun a ha hae => by simpa [hae] using f.data a ha, fun l r hr => f.root l r hr⟩

theorem WF.elemDrop_mem {h : Heap} {g : Nat → List Nat} (hw : WF h g) {l e : Nat} (hm : e ∈ g l) :
    ∃ h', h.elemDrop e = some h' ∧ WF h' (upd g l ((g l).erase e)) ∧ FrameExcept e h h' ∧
      h'.nn = h.nn ∧ h'.nl = h.nl ∧
      (h'.node e).list = none ∧ (h'.node e).ok = false ∧ (h'.node e).item = 0 := by
  obtain ⟨h1, e1, hw1, hf1, hn1, hl1, hd1⟩ := hw.elemRemove_mem hm
  refine ⟨h1.setData e false 0, ?_, ?_, hf1.then_setData e false 0, hn1, hl1, by simpa using hd1,
    by simp, by simp⟩
  · simp [Heap.elemDrop, e1, Heap.setData]
  · apply hw1.setData
    · intro l' hr
      have := ((hw1.lwf l').root e hr).2.2.1
      rw [hd1] at this; cases this
    · intro l' hx
      have := ((hw1.lwf l').elem e hx).2.2
      rw [hd1] at this; cases this

theorem WF.elemDrop_not {h : Heap} {g : Nat → List Nat} (hw : WF h g) {e : Nat} (hm : ∀ l, e ∉ g l) :
    h.elemDrop e = some h := by
  simp [Heap.elemDrop, hw.elemRemove_not hm]

theorem Heap.elemSet_root {h : Heap} {l e : Nat} (he : (h.node e).list = some l) (hr : (h.hdr l).root = some e)
    (v : Int) : h.elemSet e v = (h, false) := by
  simp [Heap.elemSet, he, hr]

theorem WF.elemSet_nonroot {h : Heap} {g : Nat → List Nat} (hw : WF h g) {e : Nat}
    (hr : ∀ l, (h.hdr l).root ≠ some e) (v : Int) :
    h.elemSet e v = (h.setData e true v, true) ∧ WF (h.setData e true v) g := by
  refine ⟨?_, hw.setData v hr (fun _ _ => rfl)⟩
  cases he : (h.node e).list with
  | none => simp [Heap.elemSet, he, Heap.setData]
  | some l => simp [Heap.elemSet, he, hr l, Heap.setData]

theorem WF.pop_mem {h : Heap} {g : Nat → List Nat} (hw : WF h g) {l e : Nat} (hm : e ∈ g l) :
    ∃ h', h.pop l (some e) = some (h', e) ∧ WF h' (upd g l ((g l).erase e)) ∧ Frame h h' ∧
      (h'.node e).list = none := by
  obtain ⟨h', h1, h2, h3, _, _, h4⟩ := hw.uncheckedRemove hm
  have he := ((hw.lwf l).elem e hm).2.2
  exact ⟨h', by simp [Heap.pop, hw.removable_mem hm, he, h1], h2, h3, h4⟩

theorem WF.pop_root {h : Heap} {g : Nat → List Nat} (hw : WF h g) {l r : Nat} (hr : (h.hdr l).root = some r) :
    h.pop l (some r) = some ((h.alloc {}).1, h.nn) := by
  have := hw.removable_not (e := r) (fun l' => hw.root_not_mem hr)
  simp [Heap.pop, this]

theorem WF.popFront_cons {h : Heap} {g : Nat → List Nat} (hw : WF h g) {l x : Nat} {xs : List Nat}
    (hg : g l = x :: xs) :
    ∃ h', h.popFront l = some (h', x) ∧ WF h' (upd g l xs) ∧ Frame h h' ∧ (h'.node x).list = none := by
  have hm : x ∈ g l := by simp [hg]
  obtain ⟨r, hr⟩ := hw.mem_root hm
  obtain ⟨h', h1, h2, h3, h4⟩ := hw.pop_mem hm
  refine ⟨h', ?_, ?_, h3, h4⟩
  · simp only [Heap.popFront, Heap.lazySetup_some hr, hw.front_eq hr, hg]
    exact h1
  · simpa [hg] using h2

theorem WF.popBack_snoc {h : Heap} {g : Nat → List Nat} (hw : WF h g) {l x : Nat} {xs : List Nat}
    (hg : g l = xs ++ [x]) :
    ∃ h', h.popBack l = some (h', x) ∧ WF h' (upd g l xs) ∧ Frame h h' ∧ (h'.node x).list = none := by
  have hm : x ∈ g l := by simp [hg]
  obtain ⟨r, hr⟩ := hw.mem_root hm
  obtain ⟨h', h1, h2, h3, h4⟩ := hw.pop_mem hm
  refine ⟨h', ?_, ?_, h3, h4⟩
  · simp only [Heap.popBack, Heap.lazySetup_some hr, hw.back_eq hr, hg, lastOr_snoc]
    exact h1
  · have hnd := (hw.lwf l).nodup
    rw [hg] at hnd h2
    have hx : x ∉ xs := by
      intro hx; rw [List.nodup_append] at hnd; exact hnd.2.2 x hx x (by simp) rfl
    rw [erase_split hx] at h2
    simpa using h2

/-- popping (either end) from an empty list: a fresh, detached, not-ok element comes back -/
theorem WF.pop_empty {h : Heap} {g : Nat → List Nat} (hw : WF h g) {l : Nat} (hl : l < h.nl) (hg : g l = []) :
    ∃ h' z, h.popFront l = some (h', z) ∧ h.popBack l = some (h', z) ∧ WF h' g ∧ Frame h h' ∧ h.nn ≤ z ∧
      z < h'.nn ∧ h'.node z = {} := by
  obtain ⟨hw0, hf0, r, hr⟩ := hw.lazySetup hl
  simp only [Heap.popFront, Heap.popBack]
  generalize h.lazySetup l = h0 at *
  refine ⟨(h0.alloc {}).1, h0.nn, ?_, ?_, hw0.alloc rfl, hf0.trans (Frame.alloc h0 _), hf0.nn, by simp,
    by simp⟩
  · rw [hw0.front_eq hr, hg]; exact hw0.pop_root hr
  · rw [hw0.back_eq hr, hg]; exact hw0.pop_root hr

/-! ### 9. observations -/

theorem Chain.walk_next {h : Heap} {xs : List Nat} {a b : Nat} (hc : Chain h a xs b)
    (hok : ∀ x, x ∈ xs → (h.node x).ok = true) (hb : (h.node b).ok = false) {fuel : Nat}
    (hf : xs.length < fuel) : h.walk Node.next fuel (h.node a).next = (xs, "end") := by
  induction xs generalizing a fuel with
  | nil =>
    cases fuel with
    | zero => cases hf
    | succ f => simp [Heap.walk, hc.1, hb]
  | cons x xs ih =>
    cases fuel with
    | zero => cases hf
    | succ f =>
      have hx : (h.node x).ok = true := hok x (by simp)
      have := ih hc.2 (fun y hy => hok y (by simp [hy])) (fuel := f) (by simpa using hf)
      simp [Heap.walk, hc.1.1, hx, this]

theorem Chain.walk_prev {h : Heap} {ys : List Nat} {a b : Nat} (hc : Chain h a ys.reverse b)
    (hok : ∀ x, x ∈ ys → (h.node x).ok = true) (ha : (h.node a).ok = false) {fuel : Nat}
    (hf : ys.length < fuel) : h.walk Node.prev fuel (h.node b).prev = (ys, "end") := by
  induction ys generalizing b fuel with
  | nil =>
    cases fuel with
    | zero => cases hf
    | succ f => simp at hc; simp [Heap.walk, hc.2, ha]
  | cons y ys ih =>
    cases fuel with
    | zero => cases hf
    | succ f =>
      rw [List.reverse_cons, chain_snoc] at hc
      have hy : (h.node y).ok = true := hok y (by simp)
      have := ih hc.1 (fun z hz => hok z (by simp [hz])) (fuel := f) (by simpa using hf)
      simp [Heap.walk, hc.2.2, hy, this]

theorem WF.walkFwd {h : Heap} {g : Nat → List Nat} (hw : WF h g) {l r : Nat} (hr : (h.hdr l).root = some r)
    {fuel : Nat} (hf : (g l).length < fuel) : h.walkFwd l fuel = (g l, "end") := by
  obtain ⟨_, h2, _, h4⟩ := (hw.lwf l).root r hr
  simp only [Heap.walkFwd, Heap.front, Heap.root, hr]
  exact h4.walk_next (fun x hx => ((hw.lwf l).elem x hx).2.1) h2 hf

theorem WF.walkBwd {h : Heap} {g : Nat → List Nat} (hw : WF h g) {l r : Nat} (hr : (h.hdr l).root = some r)
    {fuel : Nat} (hf : (g l).length < fuel) : h.walkBwd l fuel = ((g l).reverse, "end") := by
  obtain ⟨_, h2, _, h4⟩ := (hw.lwf l).root r hr
  simp only [Heap.walkBwd, Heap.back, Heap.root, hr]
  refine Chain.walk_prev (ys := (g l).reverse) (by simpa using h4) ?_ h2 (by simpa using hf)
  intro x hx
  exact ((hw.lwf l).elem x (by simpa using hx)).2.1

/-! ### 10. loops: `Extend`, `Copy`, the pop iterators -/

theorem WF.append_last_eq {h : Heap} {g : Nat → List Nat} (hw : WF h g) {l r : Nat}
    (hr : (h.hdr l).root = some r) (n : Nat) :
    (if (h.hdr l).root = some (lastOr r (g l)) then n :: g l
      else insertAfter (lastOr r (g l)) n (g l)) = g l ++ [n] := by
  by_cases hg : g l = []
  · simp [hg, hr]
  · have hmem : lastOr r (g l) ∈ g l := by
      rcases List.eq_nil_or_concat (g l) with hx | ⟨L, b, hx⟩
      · exact absurd hx hg
      · rw [hx]; simp
    have hne : lastOr r (g l) ≠ r := by
      intro hx; rw [hx] at hmem; exact hw.root_not_mem hr hmem
    rw [if_neg (by rw [hr]; intro hx; exact hne (Option.some.inj hx).symm)]
    exact insertAfter_last hg (hw.lwf l).nodup

theorem WF.last_list {h : Heap} {g : Nat → List Nat} (hw : WF h g) {l r : Nat}
    (hr : (h.hdr l).root = some r) : (h.node (lastOr r (g l))).list = some l := by
  apply hw.list_of_cycle hr
  rcases lastOr_mem r (g l) with hx | hx
  · exact Or.inl hx
  · exact Or.inr hx

theorem WF.extendLoop {l src r : Nat} (hls : l ≠ src) : ∀ (fuel : Nat) {h : Heap} {g : Nat → List Nat} {back : Nat},
    WF h g → src < h.nl → (h.hdr l).root = some r → back = lastOr r (g l) → (g src).length < fuel →
    ∃ h', h.extendLoop src back fuel = some h' ∧ WF h' (upd (upd g l (g l ++ g src)) src []) ∧ Frame h h' := by
  intro fuel
  induction fuel with
  | zero => intro h g back _ _ _ _ hf; cases hf
  | succ f ih =>
    intro h g back hw hs hr hb hf
    cases hg : g src with
    | nil =>
      obtain ⟨h1, z, e1, _, hw1, hf1, _, _, hz⟩ := hw.pop_empty hs hg
      refine ⟨h1, by simp [Heap.extendLoop, e1, hz], ?_, hf1⟩
      have : upd g src [] = g := by have := upd_self g src; rwa [hg] at this
      simpa [this] using hw1
    | cons x xs =>
      have hxm : x ∈ g src := by simp [hg]
      obtain ⟨hx1, hx2, _⟩ := (hw.lwf src).elem x hxm
      obtain ⟨h1, e1, hw1, hf1, hd1⟩ := hw.popFront_cons hg
      have hok1 : (h1.node x).ok = true := by rw [(hf1.data x hx1).1]; exact hx2
      have hr1 := hf1.root l r hr
      have hgl : upd g src xs l = g l := upd_other g xs hls
      have hbl : (h1.node back).list = some l := by
        have := hw1.last_list hr1; rw [hgl] at this; rw [hb]; exact this
      obtain ⟨h2, e2, hw2, hf2, hn2, hl2⟩ := hw1.elemAppend_accept hbl (Nat.lt_of_lt_of_le hx1 hf1.nn) hok1 hd1
      have hrew := hw1.append_last_eq hr1 x
      rw [hgl, ← hb] at hrew
      rw [hgl, hrew] at hw2
      have hs2 : src < h2.nl := Nat.lt_of_lt_of_le hs (Nat.le_trans hf1.nl hf2.nl)
      obtain ⟨h3, e3, hw3, hf3⟩ := ih (back := x) hw2 hs2 (hf2.root l r hr1) (by simp)
        (by rw [upd_other _ _ hls.symm]; simpa [hg] using hf)
      refine ⟨h3, by simp [Heap.extendLoop, e1, hok1, e2, e3], ?_, (hf1.trans hf2).trans hf3⟩
      have : upd (upd (upd (upd g src xs) l (g l ++ [x])) l
          (upd (upd g src xs) l (g l ++ [x]) l ++ upd (upd g src xs) l (g l ++ [x]) src)) src [] =
          upd (upd g l (g l ++ x :: xs)) src [] := by
        funext i
        by_cases h1 : i = src
        · subst h1; simp
        · by_cases h2 : i = l
          · subst h2; simp [upd_apply, h1, hls.symm]
          · simp [upd_apply, h1, h2]
      rw [← this]; exact hw3

theorem WF.len_eq_zero {h : Heap} {g : Nat → List Nat} (hw : WF h g) {l : Nat} :
    (h.hdr l).length = 0 ↔ g l = [] := by
  rw [(hw.lwf l).len]
  cases g l <;> simp
  omega

theorem WF.len_toNat {h : Heap} {g : Nat → List Nat} (hw : WF h g) (l : Nat) :
    (h.hdr l).length.toNat = (g l).length := by
  rw [(hw.lwf l).len]; simp

theorem WF.extend {h : Heap} {g : Nat → List Nat} (hw : WF h g) {l src : Nat} (hl : l < h.nl)
    (hs : src < h.nl) (hls : l ≠ src) :
    ∃ h', h.extend l src = some h' ∧ WF h' (upd (upd g l (g l ++ g src)) src []) ∧ Frame h h' := by
  by_cases h0 : (h.hdr src).length = 0
  · have hg := hw.len_eq_zero.1 h0
    refine ⟨h, by simp [Heap.extend, h0], ?_, Frame.refl h⟩
    have : upd g src [] = g := by have := upd_self g src; rwa [hg] at this
    simpa [hg, this] using hw
  · obtain ⟨hw0, hf0, r, hr⟩ := hw.lazySetup hl
    simp only [Heap.extend, h0, if_false]
    generalize h.lazySetup l = h1 at *
    obtain ⟨h', e1, hw', hf'⟩ := WF.extendLoop hls ((h1.hdr src).length.toNat + 1) hw0
      (Nat.lt_of_lt_of_le hs hf0.nl) hr rfl (by rw [hw0.len_toNat]; exact Nat.lt_succ_self _)
    exact ⟨h', by simp [hw0.back_eq hr, e1], hw', hf0.trans hf'⟩

theorem WF.copyLoop {l out r : Nat} (hlo : l ≠ out) : ∀ (fuel : Nat) {h : Heap} {g : Nat → List Nat}
    {done rest : List Nat},
    WF h g → out < h.nl → (h.hdr l).root = some r → g l = done ++ rest → rest.length < fuel →
    ∃ h' ns, h.copyLoop out (some (rest.headD r)) fuel = some h' ∧ WF h' (upd g out (g out ++ ns)) ∧
      Frame h h' ∧ ns.map (fun a => (h'.node a).item) = rest.map (fun a => (h.node a).item) ∧
      ∀ n, n ∈ ns → h.nn ≤ n := by
  intro fuel
  induction fuel with
  | zero => intro h g done rest _ _ _ _ hf; cases hf
  | succ f ih =>
    intro h g done rest hw ho hr hg hf
    cases rest with
    | nil =>
      have := ((hw.lwf l).root r hr).2.1
      exact ⟨h, [], by simp [Heap.copyLoop, this], by simpa using hw, Frame.refl h, rfl, by simp⟩
    | cons e rest' =>
      have hem : e ∈ g l := by simp [hg]
      obtain ⟨he1, he2, _⟩ := (hw.lwf l).elem e hem
      obtain ⟨h1, n, e1, hw1, hf1, hn1, hi1⟩ := hw.pushBack ho (h.node e).item
      have hr1 := hf1.root l r hr
      have hg1 : upd g out (g out ++ [n]) l = (done ++ [e]) ++ rest' := by
        rw [upd_other _ _ hlo, hg]; simp
      have hnext : (h1.node e).next = some (rest'.headD r) := by
        have := ((hw1.lwf l).root r hr1).2.2.2
        rw [hg1, List.append_assoc] at this
        exact this.next_mid
      obtain ⟨h2, ns, e2, hw2, hf2, hi2, hn2⟩ := ih hw1 (Nat.lt_of_lt_of_le ho hf1.nl) hr1 hg1
        (by simpa using hf)
      have hnlt : n < h1.nn := ((hw1.lwf out).elem n (by simp)).1
      generalize rest'.headD r = cur at *
      refine ⟨h2, n :: ns, ?_, ?_, hf1.trans hf2, ?_, ?_⟩
      · simp [Heap.copyLoop, he2, e1, hnext, e2]
      · simpa [upd_upd] using hw2
      · simp only [List.map_cons, hi2]
        congr 1
        · rw [(hf2.data n hnlt).2, hi1]
        · apply List.map_congr_left
          intro a ha
          have : a ∈ g l := by rw [hg]; simp [ha]
          exact (hf1.data a ((hw.lwf l).elem a this).1).2
      · intro m hm
        rcases List.mem_cons.1 hm with rfl | hm
        · exact hn1
        · exact Nat.le_trans hf1.nn (hn2 m hm)

theorem WF.copy {h : Heap} {g : Nat → List Nat} (hw : WF h g) {l : Nat} (hl : l < h.nl) :
    ∃ h' ns, h.copy l = some (h', h.nl) ∧ WF h' (upd g h.nl ns) ∧ Frame h h' ∧
      ns.map (fun a => (h'.node a).item) = (g l).map (fun a => (h.node a).item) ∧
      ∀ n, n ∈ ns → h.nn ≤ n := by
  have hw1 := hw.allocList
  have hf1 := Frame.allocList hw
  have hgo : g h.nl = [] := hw.ghost_unalloc (Nat.le_refl _)
  have hlo : l ≠ h.nl := Nat.ne_of_lt hl
  by_cases hpos : (h.allocList.1.hdr l).length > 0
  · obtain ⟨hw2, hf2, r, hr⟩ := hw1.lazySetup (l := l) (by simp; omega)
    simp only [Heap.copy, hpos]
    generalize h.allocList.1.lazySetup l = h2 at *
    obtain ⟨h', ns, e1, hw', hf', hi, hn⟩ := WF.copyLoop hlo ((h2.hdr l).length.toNat + 1) (done := [])
      hw2 (out := h.nl) (Nat.lt_of_lt_of_le (by simp) hf2.nl) hr rfl
      (by rw [hw2.len_toNat]; exact Nat.lt_succ_self _)
    refine ⟨h', ns, ?_, by simpa [hgo] using hw', hf1.trans (hf2.trans hf'), ?_, ?_⟩
    · rw [hw2.front_eq hr]
      generalize (g l).headD r = cur at *
      simp [e1]
    · rw [hi]
      apply List.map_congr_left
      intro a ha
      have := (hw.lwf l).elem a ha
      exact ((hf1.trans hf2).data a this.1).2
    · intro n hn'
      exact Nat.le_trans (hf1.trans hf2).nn (hn n hn')
  · have hg : g l = [] := by
      have := (hw1.lwf l).len
      cases hgl : g l with
      | nil => rfl
      | cons x xs => exfalso; apply hpos; rw [this, hgl]; simp
    refine ⟨h.allocList.1, [], by simp only [Heap.copy, hpos, ↓reduceIte]; rfl, ?_, hf1, by simp [hg], by simp⟩
    have : upd g h.nl [] = g := by have := upd_self g h.nl; rwa [hgo] at this
    rw [this]; exact hw1

theorem WF.popIterFront {l : Nat} : ∀ (fuel : Nat) {h : Heap} {g : Nat → List Nat} {acc : List Nat},
    WF h g → l < h.nl →
    ∃ h', h.popIterLoop l false fuel acc = some (h', acc.reverse ++ (g l).take fuel) ∧
      WF h' (upd g l ((g l).drop fuel)) ∧ Frame h h' := by
  intro fuel
  induction fuel with
  | zero => intro h g acc hw _; exact ⟨h, by simp [Heap.popIterLoop], by simpa using hw, Frame.refl h⟩
  | succ f ih =>
    intro h g acc hw hl
    cases hg : g l with
    | nil =>
      obtain ⟨h1, z, e1, _, hw1, hf1, _, _, hz⟩ := hw.pop_empty hl hg
      refine ⟨h1, by simp [Heap.popIterLoop, e1, hz], ?_, hf1⟩
      have : upd g l [] = g := by have := upd_self g l; rwa [hg] at this
      simpa [this] using hw1
    | cons x xs =>
      have hxm : x ∈ g l := by simp [hg]
      obtain ⟨hx1, hx2, _⟩ := (hw.lwf l).elem x hxm
      obtain ⟨r, hr⟩ := hw.mem_root hxm
      obtain ⟨h1, e1, hw1, hf1, _⟩ := hw.popFront_cons hg
      have hok1 : (h1.node x).ok = true := by rw [(hf1.data x hx1).1]; exact hx2
      have hr1 := hf1.root l r hr
      have hxr : r ≠ x := by intro hx; subst hx; exact hw.root_not_mem hr hxm
      obtain ⟨h2, e2, hw2, hf2⟩ := ih (acc := x :: acc) hw1 (Nat.lt_of_lt_of_le hl hf1.nl)
      refine ⟨h2, ?_, ?_, hf1.trans hf2⟩
      · simp [Heap.popIterLoop, e1, hok1, Heap.root, hr1, hxr, e2]
      · simpa [upd_upd] using hw2

theorem WF.popIterBack {l : Nat} : ∀ (fuel : Nat) {h : Heap} {g : Nat → List Nat} {acc : List Nat},
    WF h g → l < h.nl →
    ∃ h', h.popIterLoop l true fuel acc = some (h', acc.reverse ++ (g l).reverse.take fuel) ∧
      WF h' (upd g l ((g l).reverse.drop fuel).reverse) ∧ Frame h h' := by
  intro fuel
  induction fuel with
  | zero => intro h g acc hw _; exact ⟨h, by simp [Heap.popIterLoop], by simpa using hw, Frame.refl h⟩
  | succ f ih =>
    intro h g acc hw hl
    rcases List.eq_nil_or_concat (g l) with hg | ⟨xs, x, hg⟩
    · obtain ⟨h1, z, _, e1, hw1, hf1, _, _, hz⟩ := hw.pop_empty hl hg
      refine ⟨h1, by simp [Heap.popIterLoop, e1, hz, hg], ?_, hf1⟩
      have : upd g l [] = g := by have := upd_self g l; rwa [hg] at this
      simpa [this, hg] using hw1
    · rw [List.concat_eq_append] at hg
      have hxm : x ∈ g l := by simp [hg]
      obtain ⟨hx1, hx2, _⟩ := (hw.lwf l).elem x hxm
      obtain ⟨r, hr⟩ := hw.mem_root hxm
      obtain ⟨h1, e1, hw1, hf1, _⟩ := hw.popBack_snoc hg
      have hok1 : (h1.node x).ok = true := by rw [(hf1.data x hx1).1]; exact hx2
      have hr1 := hf1.root l r hr
      have hxr : r ≠ x := by intro hx; subst hx; exact hw.root_not_mem hr hxm
      obtain ⟨h2, e2, hw2, hf2⟩ := ih (acc := x :: acc) hw1 (Nat.lt_of_lt_of_le hl hf1.nl)
      refine ⟨h2, ?_, ?_, hf1.trans hf2⟩
      · simp [Heap.popIterLoop, e1, hok1, Heap.root, hr1, hxr, e2, hg]
      · simpa [upd_upd, hg] using hw2

/-! ### 11. consequences of the invariant -/

theorem WF.empty : WF {} (fun _ => []) := by
  refine ⟨fun l => ⟨fun _ => rfl, fun _ => rfl, ?_, rfl, ?_, List.nodup_nil⟩, ?_⟩
  · intro r hr; cases hr
  · intro x hx; cases hx
  · intro a l ha; cases ha

theorem WF.disjoint {h : Heap} {g : Nat → List Nat} (hw : WF h g) {l l' x : Nat} (hx : x ∈ g l)
    (hx' : x ∈ g l') : l = l' := by
  have h1 := ((hw.lwf l).elem x hx).2.2
  have h2 := ((hw.lwf l').elem x hx').2.2
  rw [h1] at h2; exact Option.some.inj h2

theorem WF.roots_distinct {h : Heap} {g : Nat → List Nat} (hw : WF h g) {l l' r : Nat}
    (hr : (h.hdr l).root = some r) (hr' : (h.hdr l').root = some r) : l = l' := by
  have h1 := ((hw.lwf l).root r hr).2.2.1
  have h2 := ((hw.lwf l').root r hr').2.2.1
  rw [h1] at h2; exact Option.some.inj h2

theorem WF.detached {h : Heap} {g : Nat → List Nat} (hw : WF h g) {a : Nat}
    (hr : ∀ l, (h.hdr l).root ≠ some a) (hm : ∀ l, a ∉ g l) : (h.node a).list = none := by
  cases hl : (h.node a).list with
  | none => rfl
  | some l =>
    rcases hw.owner a l hl with h1 | h1
    · exact absurd h1 (hr l)
    · exact absurd h1 (hm l)

theorem WF.mem_iff {h : Heap} {g : Nat → List Nat} (hw : WF h g) {a l : Nat}
    (hr : ∀ l, (h.hdr l).root ≠ some a) : (h.node a).list = some l ↔ a ∈ g l := by
  constructor
  · intro hl
    rcases hw.owner a l hl with h1 | h1
    · exact absurd h1 (hr l)
    · exact h1
  · intro hm; exact ((hw.lwf l).elem a hm).2.2

theorem WF.hdr_unalloc {h : Heap} {g : Nat → List Nat} (hw : WF h g) {l : Nat} (hl : h.nl ≤ l) :
    h.hdr l = {} := by
  have h1 := (hw.lwf l).unalloc hl
  have h2 := (hw.lwf l).len
  rw [(hw.lwf l).empty h1] at h2
  cases hh : h.hdr l with
  | mk root length => rw [hh] at h1 h2; simp at h1 h2; simp [h1, h2]

/-- the values held by list `l`, front to back -/
def vals (h : Heap) (g : Nat → List Nat) (l : Nat) : List Int := (g l).map (fun a => (h.node a).item)

theorem Frame.map_item {h h' : Heap} (f : Frame h h') {xs : List Nat} (hx : ∀ x, x ∈ xs → x < h.nn) :
    xs.map (fun a => (h'.node a).item) = xs.map (fun a => (h.node a).item) :=
  List.map_congr_left (fun a ha => (f.data a (hx a ha)).2)

theorem FrameExcept.map_item {e : Nat} {h h' : Heap} (f : FrameExcept e h h') {xs : List Nat}
    (hx : ∀ x, x ∈ xs → x < h.nn) (he : e ∉ xs) :
    xs.map (fun a => (h'.node a).item) = xs.map (fun a => (h.node a).item) :=
  List.map_congr_left (fun a ha => (f.data a (hx a ha) (fun hae => he (hae ▸ ha))).2)

/-- the values of a list whose ghost sequence did not change are unchanged -/
theorem Frame.vals {h h' : Heap} {g g' : Nat → List Nat} (f : Frame h h') (hw : WF h g) {l : Nat}
    (hg : g' l = g l) : vals h' g' l = vals h g l := by
  unfold Dll.vals; rw [hg]
  exact f.map_item (fun x hx => ((hw.lwf l).elem x hx).1)

/-! ### 12. reachable states -/

/-- the public operations with their arguments -/
inductive Op where
  | allocList
  | makeElem (v : Int)
  | lazySetup (l : Nat)
  | pushFront (l : Nat) (v : Int)
  | pushBack (l : Nat) (v : Int)
  | popFront (l : Nat)
  | popBack (l : Nat)
  | elemAppend (e : Nat) (new : Option Nat)
  | elemRemove (e : Nat)
  | elemDrop (e : Nat)
  | elemSet (e : Nat) (v : Int)
  | extend (l src : Nat)
  | copy (l : Nat)
  | popIter (l : Nat) (fromBack : Bool) (fuel : Nat)

/-- the arguments are allocated (and `Extend` is not applied to the list itself) -/
def Op.valid (h : Heap) : Op → Prop
  | .allocList => True
  | .makeElem _ => True
  | .lazySetup l => l < h.nl
  | .pushFront l _ => l < h.nl
  | .pushBack l _ => l < h.nl
  | .popFront l => l < h.nl
  | .popBack l => l < h.nl
  | .elemAppend e new => e < h.nn ∧ (match new with | none => True | some n => n < h.nn)
  | .elemRemove e => e < h.nn
  | .elemDrop e => e < h.nn
  | .elemSet e _ => e < h.nn
  | .extend l src => l < h.nl ∧ src < h.nl ∧ l ≠ src
  | .copy l => l < h.nl
  | .popIter l _ _ => l < h.nl

/-- run an operation, keeping only the heap (`none` = panic) -/
def Op.run (h : Heap) : Op → Option Heap
  | .allocList => some h.allocList.1
  | .makeElem v => some (h.makeElem v).1
  | .lazySetup l => some (h.lazySetup l)
  | .pushFront l v => h.pushFront l v
  | .pushBack l v => h.pushBack l v
  | .popFront l => (h.popFront l).map (·.1)
  | .popBack l => (h.popBack l).map (·.1)
  | .elemAppend e new => (h.elemAppend e new).map (·.1)
  | .elemRemove e => (h.elemRemove e).map (·.1)
  | .elemDrop e => h.elemDrop e
  | .elemSet e v => some (h.elemSet e v).1
  | .extend l src => h.extend l src
  | .copy l => (h.copy l).map (·.1)
  | .popIter l b fuel => (h.popIterLoop l b fuel []).map (·.1)

/-- states reachable from the empty heap by valid operations -/
inductive Reachable : Heap → Prop where
  | empty : Reachable {}
  | step {h h' : Heap} (op : Op) : Reachable h → op.valid h → op.run h = some h' → Reachable h'

/-- one step: no panic and the invariant is kept (for some ghost state) -/
theorem WF.step {h : Heap} {g : Nat → List Nat} (hw : WF h g) (op : Op) (hv : op.valid h) :
    ∃ h' g', op.run h = some h' ∧ WF h' g' := by
  cases op with
  | allocList => exact ⟨_, g, rfl, hw.allocList⟩
  | makeElem v => exact ⟨_, g, rfl, hw.alloc rfl⟩
  | lazySetup l => exact ⟨_, g, rfl, (hw.lazySetup hv).1⟩
  | pushFront l v =>
    obtain ⟨h', n, e1, hw', _⟩ := hw.pushFront hv v
    exact ⟨h', _, e1, hw'⟩
  | pushBack l v =>
    obtain ⟨h', n, e1, hw', _⟩ := hw.pushBack hv v
    exact ⟨h', _, e1, hw'⟩
  | popFront l =>
    cases hg : g l with
    | nil =>
      obtain ⟨h', z, e1, _, hw', _⟩ := hw.pop_empty hv hg
      exact ⟨h', g, by simp [Op.run, e1], hw'⟩
    | cons x xs =>
      obtain ⟨h', e1, hw', _⟩ := hw.popFront_cons hg
      exact ⟨h', _, by simp [Op.run, e1], hw'⟩
  | popBack l =>
    rcases List.eq_nil_or_concat (g l) with hg | ⟨xs, x, hg⟩
    · obtain ⟨h', z, _, e1, hw', _⟩ := hw.pop_empty hv hg
      exact ⟨h', g, by simp [Op.run, e1], hw'⟩
    · rw [List.concat_eq_append] at hg
      obtain ⟨h', e1, hw', _⟩ := hw.popBack_snoc hg
      exact ⟨h', _, by simp [Op.run, e1], hw'⟩
  | elemAppend e new =>
    cases ha : h.appendable e new with
    | false => exact ⟨h, g, by simp [Op.run, Heap.elemAppend_reject ha], hw⟩
    | true =>
      obtain ⟨n, rfl, h1, h2, h3⟩ := Heap.appendable_eq_true.1 ha
      obtain ⟨l, hl⟩ := Option.isSome_iff_exists.1 h2
      obtain ⟨h', e1, hw', _⟩ := hw.elemAppend_accept hl hv.2 h1 h3
      exact ⟨h', _, by simp [Op.run, e1], hw'⟩
  | elemRemove e =>
    by_cases hm : ∃ l, e ∈ g l
    · obtain ⟨l, hm⟩ := hm
      obtain ⟨h', e1, hw', _⟩ := hw.elemRemove_mem hm
      exact ⟨h', _, by simp [Op.run, e1], hw'⟩
    · exact ⟨h, g, by simp [Op.run, hw.elemRemove_not (fun l hx => hm ⟨l, hx⟩)], hw⟩
  | elemDrop e =>
    by_cases hm : ∃ l, e ∈ g l
    · obtain ⟨l, hm⟩ := hm
      obtain ⟨h', e1, hw', _⟩ := hw.elemDrop_mem hm
      exact ⟨h', _, e1, hw'⟩
    · exact ⟨h, g, hw.elemDrop_not (fun l hx => hm ⟨l, hx⟩), hw⟩
  | elemSet e v =>
    by_cases hr : ∃ l, (h.hdr l).root = some e
    · obtain ⟨l, hr⟩ := hr
      have := Heap.elemSet_root ((hw.lwf l).root e hr).2.2.1 hr v
      exact ⟨h, g, by simp [Op.run, this], hw⟩
    · obtain ⟨e1, hw'⟩ := hw.elemSet_nonroot (e := e) (fun l hx => hr ⟨l, hx⟩) v
      exact ⟨_, g, by simp [Op.run, e1], hw'⟩
  | extend l src =>
    obtain ⟨h', e1, hw', _⟩ := hw.extend hv.1 hv.2.1 hv.2.2
    exact ⟨h', _, e1, hw'⟩
  | copy l =>
    obtain ⟨h', ns, e1, hw', _⟩ := hw.copy hv
    exact ⟨h', _, by simp [Op.run, e1], hw'⟩
  | popIter l b fuel =>
    cases b with
    | false =>
      obtain ⟨h', e1, hw', _⟩ := hw.popIterFront fuel (acc := []) hv
      exact ⟨h', _, by simp [Op.run, e1], hw'⟩
    | true =>
      obtain ⟨h', e1, hw', _⟩ := hw.popIterBack fuel (acc := []) hv
      exact ⟨h', _, by simp [Op.run, e1], hw'⟩

theorem Reachable.wf {h : Heap} (hr : Reachable h) : ∃ g, WF h g := by
  induction hr with
  | empty => exact ⟨_, WF.empty⟩
  | step op _ hv hrun ih =>
    obtain ⟨g, hw⟩ := ih
    obtain ⟨h'', g', e1, hw'⟩ := hw.step op hv
    rw [hrun] at e1; cases e1
    exact ⟨g', hw'⟩

instance (h : Heap) (op : Op) : Decidable (op.valid h) := by
  cases op with
  | elemAppend e new => cases new <;> (unfold Op.valid; infer_instance)
  | _ => unfold Op.valid; infer_instance

/-- run a sequence of operations from `h`; `none` if an argument is not allocated or an
    operation panics -/
def runOps : List Op → Heap → Option Heap
  | [], h => some h
  | op :: ops, h => if op.valid h then (op.run h).bind (runOps ops) else none

theorem runOps_append (ops1 ops2 : List Op) (h : Heap) :
    runOps (ops1 ++ ops2) h = (runOps ops1 h).bind (runOps ops2) := by
  induction ops1 generalizing h with
  | nil => rfl
  | cons op ops ih =>
    simp only [List.cons_append, runOps]
    by_cases hv : op.valid h
    · simp only [hv, if_true]
      cases op.run h with
      | none => rfl
      | some h1 => simp [ih]
    · simp [hv]

theorem runOps_reachable {ops : List Op} {h h' : Heap} (hr : Reachable h) (he : runOps ops h = some h') :
    Reachable h' := by
  induction ops generalizing h with
  | nil => simp [runOps] at he; subst he; exact hr
  | cons op ops ih =>
    simp only [runOps] at he
    by_cases hv : op.valid h
    · simp only [hv, if_true] at he
      cases hrun : op.run h with
      | none => rw [hrun] at he; cases he
      | some h1 => rw [hrun] at he; exact ih (Reachable.step op hr hv hrun) he
    · simp [hv] at he

theorem reachable_iff_runOps {h : Heap} : Reachable h ↔ ∃ ops, runOps ops {} = some h := by
  constructor
  · intro hr
    induction hr with
    | empty => exact ⟨[], rfl⟩
    | step op _ hv hrun ih =>
      obtain ⟨ops, e1⟩ := ih
      refine ⟨ops ++ [op], ?_⟩
      rw [runOps_append, e1]
      simp [runOps, hv, hrun]
  · rintro ⟨ops, e1⟩
    exact runOps_reachable Reachable.empty e1

/-- running valid operations never panics: `runOps` fails only on an invalid argument -/
theorem Reachable.no_panic {h : Heap} (hr : Reachable h) (op : Op) (hv : op.valid h) :
    ∃ h', op.run h = some h' ∧ Reachable h' := by
  obtain ⟨g, hw⟩ := hr.wf
  obtain ⟨h', _, e1, _⟩ := hw.step op hv
  exact ⟨h', e1, Reachable.step op hr hv e1⟩

/-! ### 13. concrete witnesses used by `FunProps/C16.lean` -/

/-- the list 1,2,3,4 built by four `PushBack`s on a fresh list -/
def demo4 : Option Heap := do
  let h := ({} : Heap).allocList.1
  let h ← h.pushBack 0 1
  let h ← h.pushBack 0 2
  let h ← h.pushBack 0 3
  h.pushBack 0 4

/-- … and the first and last element swapped -/
def demoSwap : Option (Heap × Bool) := do
  let h ← demo4
  h.elemSwap 1 (some 4)

/-- a run touching every operation, three lists -/
def demoOps : List Op :=
  [.allocList, .allocList, .pushBack 0 10, .pushBack 0 20, .pushFront 1 30, .makeElem 40,
   .elemAppend 4 (some 5), .extend 1 0, .popFront 1, .copy 1, .elemDrop 1, .elemSet 2 7, .elemRemove 3,
   .popIter 2 true 1, .popBack 0, .lazySetup 0]

end FunModel.Dll
