import FunModel.Orch
import FunProofs.OrchOrc

/-! Helper lemmas for C11, `srv.Group`: inversion of `Grp.step` and the inductive invariant of the
    group machine (code with both fixes: `legacyRun = false`, `legacyStarters = false`). -/

namespace FunModel.Orch.Grp

def Starter.active : Starter → Bool
  | .spawned => true
  | .started => true
  | _ => false

theorem allFinished_iff (s : St) : allFinished s = true ↔ ∀ i ∈ s.waiters, s.phase i = .finished := by
  simp [allFinished, List.all_eq_true]

/-! ### inversion of `step` -/

theorem step_startGroup {c : Cfg} {s s' : St} (h : step c s .startGroup = some s') :
    s.gphase = .idle ∧ s' = { s with gphase := .iterating } := ite_some_eq h

theorem step_cancel {c : Cfg} {s s' : St} (h : step c s .cancel = some s') : s' = { s with cancelled := true } := by
  simp only [step, Option.some.injEq] at h; exact h.symm

theorem step_release {c : Cfg} {s s' : St} {i : Nat} (h : step c s (.release i) = some s') :
    s' = { s with released := upd s.released i true } := by
  simp only [step, Option.some.injEq] at h; exact h.symm

theorem step_iterNext {c : Cfg} {s s' : St} (h : step c s .iterNext = some s') :
    s.gphase = .iterating ∧ s.cancelled = false ∧
      ((s.next < c.n ∧ s' = { s with next := s.next + 1, starter := upd s.starter s.next .spawned, wg := s.wg + 1 }) ∨
       (¬ s.next < c.n ∧ s' = { s with gphase := .waitStarters })) := by
  simp only [step] at h
  split at h
  · rename_i hg
    refine ⟨hg.1, hg.2, ?_⟩
    split at h <;> rename_i hn <;> simp only [Option.some.injEq] at h
    · exact Or.inl ⟨hn, h.symm⟩
    · exact Or.inr ⟨hn, h.symm⟩
  · cases h

theorem step_iterStop {c : Cfg} {s s' : St} (h : step c s .iterStop = some s') :
    (s.gphase = .iterating ∧ s.cancelled = true) ∧
      s' = { s with gphase := .waitStarters, cut := decide (s.next < c.n) } := ite_some_eq h

theorem step_starterStart {c : Cfg} {s s' : St} {i : Nat} (h : step c s (.starterStart i) = some s') :
    (s.starter i = .spawned ∧ s.phase i = .fresh) ∧
      s' = { s with starter := upd s.starter i .started, phase := upd s.phase i .running, runs := upd s.runs i (s.runs i + 1) } :=
  ite_some_eq h

theorem step_starterQueue {c : Cfg} {s s' : St} {i : Nat} (h : step c s (.starterQueue i) = some s') :
    s.starter i = .started ∧
      ((s.closed = true ∧ s' = { s with starter := upd s.starter i .failed, failed := i :: s.failed, wg := s.wg - 1 }) ∨
       (s.closed = false ∧ s' = { s with starter := upd s.starter i .queued, waiters := s.waiters ++ [i], wg := s.wg - 1 })) := by
  simp only [step] at h
  split at h
  · rename_i hs
    refine ⟨hs, ?_⟩
    split at h <;> rename_i hc <;> simp only [Option.some.injEq] at h
    · exact Or.inl ⟨hc, h.symm⟩
    · exact Or.inr ⟨by simpa using hc, h.symm⟩
  · cases h

theorem step_startersDone {c : Cfg} (hfix : c.legacyStarters = false) {s s' : St}
    (h : step c s .startersDone = some s') :
    (s.gphase = .waitStarters ∧ s.wg = 0) ∧ s' = { s with gphase := .waitMembers, closed := true } := by
  obtain ⟨⟨hg, hw⟩, hs⟩ := ite_some_eq h
  exact ⟨⟨hg, by simpa [hfix] using hw⟩, hs⟩

theorem step_membersDone {c : Cfg} (hfix : c.legacyRun = false) {s s' : St} (h : step c s .membersDone = some s') :
    (s.gphase = .waitMembers ∧ allFinished s = true) ∧ s' = { s with gphase := .cleanup, runReturned := true } := by
  obtain ⟨⟨hg, hw⟩, hs⟩ := ite_some_eq h
  exact ⟨⟨hg, by simpa [hfix] using hw⟩, hs⟩

theorem step_cleanupDone {c : Cfg} {s s' : St} (h : step c s .cleanupDone = some s') :
    (s.gphase = .cleanup ∧ allFinished s = true ∧ s.wg = 0) ∧
      s' = { s with gphase := .done, retAtW := fun i => decide (s.phase i = .finished) } := ite_some_eq h

theorem step_svcReturn {c : Cfg} {s s' : St} {i : Nat} (h : step c s (.svcReturn i) = some s') :
    (s.phase i = .running ∧ s.released i = true ∧ ((c.outcome i).blocks = true → s.memberCtxEnded = true)) ∧
      s' = { s with phase := upd s.phase i .finished, sawEndLive := upd s.sawEndLive i (s.memberCtxEnded && !s.cancelled) } :=
  ite_some_eq h

/-! ### the invariant -/

structure Inv (c : Cfg) (s : St) : Prop where
  runs_le : ∀ i, s.runs i ≤ 1
  runs_zero : ∀ i, s.runs i = 0 ↔ s.phase i = .fresh
  next_le : s.next ≤ c.n
  st_range : ∀ i, s.starter i ≠ .none ↔ i < s.next
  st_fresh : ∀ i, s.phase i = .fresh ↔ (s.starter i = .none ∨ s.starter i = .spawned)
  st_queued : ∀ i, s.starter i = .queued ↔ i ∈ s.waiters
  no_failed : s.failed = [] ∧ ∀ i, s.starter i ≠ .failed
  act : ∃ l : List Nat, l.Nodup ∧ (∀ i, i ∈ l ↔ (s.starter i).active = true) ∧ s.wg = l.length
  idle_next : s.gphase = .idle → s.next = 0
  closed_ph : s.closed = true ↔ (s.gphase = .waitMembers ∨ s.gphase = .cleanup ∨ s.gphase = .done)
  closed_wg : s.closed = true → s.wg = 0
  rr_ph : s.runReturned = true ↔ (s.gphase = .cleanup ∨ s.gphase = .done)
  rr_fin : s.runReturned = true → ∀ i ∈ s.waiters, s.phase i = .finished
  full : (s.gphase ≠ .idle ∧ s.gphase ≠ .iterating) → s.cut = false → s.next = c.n
  saw : ∀ i, s.sawEndLive i = false
  done_snap : s.gphase = .done → ∀ i ∈ s.waiters, s.retAtW i = true

theorem inv_init (c : Cfg) : Inv c init := by
  refine ⟨?_, ?_, ?_, ?_, ?_, ?_, ?_, ⟨[], ?_, ?_, ?_⟩, ?_, ?_, ?_, ?_, ?_, ?_, ?_, ?_⟩ <;> simp [init, Starter.active]

theorem act_upd {s : St} {i : Nat} {t : Starter} (k : Nat)
    (h : ∃ l : List Nat, l.Nodup ∧ (∀ j, j ∈ l ↔ (s.starter j).active = true) ∧ s.wg = l.length)
    (hk : (((s.starter i).active = false ∧ t.active = true ∧ k = s.wg + 1) ∨
           ((s.starter i).active = true ∧ t.active = true ∧ k = s.wg)) ∨
           ((s.starter i).active = true ∧ t.active = false ∧ k = s.wg - 1)) :
    ∃ l : List Nat, l.Nodup ∧ (∀ j, j ∈ l ↔ (upd s.starter i t j).active = true) ∧ k = l.length := by
  obtain ⟨l, hnd, hmem, hlen⟩ := h
  rcases hk with (⟨hi, ht, rfl⟩ | ⟨hi, ht, rfl⟩) | ⟨hi, ht, rfl⟩
  · have hnot : i ∉ l := by intro hm; rw [(hmem i).mp hm] at hi; cases hi
    refine ⟨i :: l, List.nodup_cons.mpr ⟨hnot, hnd⟩, ?_, by simp [hlen]⟩
    intro j; by_cases hj : j = i
    · subst hj; simp [ht]
    · simp [hj, hmem j]
  · refine ⟨l, hnd, ?_, hlen⟩
    intro j; by_cases hj : j = i
    · subst hj; simp [ht, (hmem j).mpr hi]
    · simp [hj, hmem j]
  · have hin : i ∈ l := (hmem i).mpr hi
    refine ⟨l.erase i, hnd.erase i, ?_, by rw [List.length_erase_of_mem hin, hlen]⟩
    intro j; by_cases hj : j = i
    · subst hj; simp only [upd_same, ht, Bool.false_eq_true, iff_false]; exact hnd.not_mem_erase
    · rw [List.mem_erase_of_ne hj]; simp [hj, hmem j]

/-- with the queue of waiters closed every started member is in it -/
theorem Inv.closed_queued {c : Cfg} {s : St} (hi : Inv c s) (hc : s.closed = true) (i : Nat)
    (hp : s.phase i ≠ .fresh) : i ∈ s.waiters := by
  obtain ⟨l, _, hmem, hlen⟩ := hi.act
  have hl : l = [] := List.eq_nil_of_length_eq_zero (by have := hi.closed_wg hc; omega)
  have hina : (s.starter i).active = false := by
    cases hj : (s.starter i).active with
    | false => rfl
    | true => have := (hmem i).mpr hj; rw [hl] at this; cases this
  have hfr := hi.st_fresh i
  cases hst : s.starter i with
  | none => exact absurd (hfr.mpr (Or.inl hst)) hp
  | spawned => simp [hst, Starter.active] at hina
  | started => simp [hst, Starter.active] at hina
  | queued => exact (hi.st_queued i).mp hst
  | failed => exact absurd hst (hi.no_failed.2 i)

/-- a member that is running has not had its context cancelled by the group's Run returning -/
theorem Inv.running_live {c : Cfg} {s : St} (hi : Inv c s) (i : Nat) (hr : s.phase i = .running) :
    s.runReturned = false := by
  cases hrr : s.runReturned with
  | false => rfl
  | true =>
    have hc : s.closed = true := hi.closed_ph.mpr (Or.inr (hi.rr_ph.mp hrr))
    have := hi.rr_fin hrr i (hi.closed_queued hc i (by simp [hr]))
    rw [hr] at this; cases this

theorem inv_step {c : Cfg} (hf1 : c.legacyRun = false) (hf2 : c.legacyStarters = false) {s s' : St} {a : Act}
    (hi : Inv c s) (h : step c s a = some s') : Inv c s' := by
  cases a with
  | startGroup =>
    obtain ⟨hg, rfl⟩ := step_startGroup h
    have hcl : s.closed = false := by
      cases hc : s.closed with
      | false => rfl
      | true => have := hi.closed_ph.mp hc; simp [hg] at this
    have hrr : s.runReturned = false := by
      cases hc : s.runReturned with
      | false => rfl
      | true => have := hi.rr_ph.mp hc; simp [hg] at this
    exact { hi with idle_next := by simp, closed_ph := by simp [hcl], rr_ph := by simp [hrr], full := by simp,
                    done_snap := by simp }
  | cancel => rw [step_cancel h]; exact { hi with }
  | release i => rw [step_release h]; exact { hi with }
  | iterNext =>
    obtain ⟨hg, _, hcase⟩ := step_iterNext h
    have hcl : s.closed = false := by
      cases hc : s.closed with
      | false => rfl
      | true => have := hi.closed_ph.mp hc; simp [hg] at this
    have hrr : s.runReturned = false := by
      cases hc : s.runReturned with
      | false => rfl
      | true => have := hi.rr_ph.mp hc; simp [hg] at this
    rcases hcase with ⟨hn, rfl⟩ | ⟨hn, rfl⟩
    · have hnone : s.starter s.next = .none := by
        by_cases hx : s.starter s.next = .none
        · exact hx
        · exact absurd ((hi.st_range s.next).mp hx) (Nat.lt_irrefl _)
      refine { hi with
               next_le := hn, st_range := ?_, st_fresh := ?_, st_queued := ?_, no_failed := ⟨hi.no_failed.1, ?_⟩,
               act := act_upd (s.wg + 1) hi.act (Or.inl (Or.inl ⟨by simp [hnone, Starter.active], by simp [Starter.active], rfl⟩)),
               idle_next := by simp [hg], closed_wg := by simp [hcl], full := fun hne _ => absurd hg hne.2 }
      · intro j; by_cases hj : j = s.next
        · subst hj; simp
        · have := hi.st_range j; simp only [upd_other _ _ _ _ hj]
          constructor
          · intro h; have := this.mp h; omega
          · intro h; exact this.mpr (by omega)
      · intro j; by_cases hj : j = s.next
        · subst hj; simp [(hi.st_fresh s.next).mpr (Or.inl hnone)]
        · simp only [upd_other _ _ _ _ hj]; exact hi.st_fresh j
      · intro j; by_cases hj : j = s.next
        · subst hj; simp only [upd_same]; constructor
          · intro h; cases h
          · intro hm; have := (hi.st_queued s.next).mpr hm; rw [hnone] at this; cases this
        · simp only [upd_other _ _ _ _ hj]; exact hi.st_queued j
      · intro j; by_cases hj : j = s.next
        · subst hj; simp
        · simp only [upd_other _ _ _ _ hj]; exact hi.no_failed.2 j
    · exact { hi with idle_next := by simp, closed_ph := by simp [hcl], rr_ph := by simp [hrr],
                      full := (fun _ _ => by have := hi.next_le; show s.next = c.n; omega), done_snap := by simp }
  | iterStop =>
    obtain ⟨⟨hg, _⟩, rfl⟩ := step_iterStop h
    have hcl : s.closed = false := by
      cases hc : s.closed with
      | false => rfl
      | true => have := hi.closed_ph.mp hc; simp [hg] at this
    have hrr : s.runReturned = false := by
      cases hc : s.runReturned with
      | false => rfl
      | true => have := hi.rr_ph.mp hc; simp [hg] at this
    exact { hi with idle_next := by simp, closed_ph := by simp [hcl], rr_ph := by simp [hrr],
                    full := (by intro _ hcut; have := hi.next_le; simp at hcut; show s.next = c.n; omega), done_snap := by simp }
  | starterStart i =>
    obtain ⟨⟨hs, hp⟩, rfl⟩ := step_starterStart h
    have hr0 : s.runs i = 0 := (hi.runs_zero i).mpr hp
    have hnw : i ∉ s.waiters := fun hm => by have := (hi.st_queued i).mpr hm; rw [hs] at this; cases this
    refine { hi with
             runs_le := ?_, runs_zero := ?_, st_range := ?_, st_fresh := ?_, st_queued := ?_,
             no_failed := ⟨hi.no_failed.1, ?_⟩,
             act := act_upd s.wg hi.act (Or.inl (Or.inr ⟨by simp [hs, Starter.active], by simp [Starter.active], rfl⟩)),
             rr_fin := ?_ }
    · intro j; by_cases hj : j = i
      · subst hj; simp [hr0]
      · simpa [hj] using hi.runs_le j
    · intro j; by_cases hj : j = i
      · subst hj; simp
      · simpa [hj] using hi.runs_zero j
    · intro j; by_cases hj : j = i
      · subst hj; simp only [upd_same]; have := (hi.st_range j).mp (by simp [hs]); simp [this]
      · simp only [upd_other _ _ _ _ hj]; exact hi.st_range j
    · intro j; by_cases hj : j = i
      · subst hj; simp
      · simp only [upd_other _ _ _ _ hj]; exact hi.st_fresh j
    · intro j; by_cases hj : j = i
      · subst hj; simp only [upd_same]; constructor
        · intro h; cases h
        · intro hm; exact absurd hm hnw
      · simp only [upd_other _ _ _ _ hj]; exact hi.st_queued j
    · intro j; by_cases hj : j = i
      · subst hj; simp
      · simp only [upd_other _ _ _ _ hj]; exact hi.no_failed.2 j
    · intro hrr j hj
      have hji : j ≠ i := fun e => hnw (e ▸ hj)
      simpa [hji] using hi.rr_fin hrr j hj
  | starterQueue i =>
    obtain ⟨hs, hcase⟩ := step_starterQueue h
    have hact : (s.starter i).active = true := by simp [hs, Starter.active]
    have hclosed : s.closed = false := by
      cases hc : s.closed with
      | false => rfl
      | true =>
        obtain ⟨l, _, hmem, hlen⟩ := hi.act
        have hl : l = [] := List.eq_nil_of_length_eq_zero (by have := hi.closed_wg hc; omega)
        have := (hmem i).mpr hact; rw [hl] at this; cases this
    rcases hcase with ⟨hc, _⟩ | ⟨_, rfl⟩
    · rw [hclosed] at hc; cases hc
    · have hrr : s.runReturned = false := by
        cases hc : s.runReturned with
        | false => rfl
        | true => have := hi.closed_ph.mpr (Or.inr (hi.rr_ph.mp hc)); rw [hclosed] at this; cases this
      have hnd : s.gphase ≠ .done := fun hd => by
        have := hi.closed_ph.mpr (Or.inr (Or.inr hd)); rw [hclosed] at this; cases this
      refine { hi with
               st_range := ?_, st_fresh := ?_, st_queued := ?_, no_failed := ⟨hi.no_failed.1, ?_⟩,
               act := act_upd (s.wg - 1) hi.act (Or.inr ⟨hact, by simp [Starter.active], rfl⟩),
               closed_wg := by simp [hclosed], rr_fin := by simp [hrr], done_snap := fun hd => absurd hd hnd }
      · intro j; by_cases hj : j = i
        · subst hj; simp only [upd_same]; have := (hi.st_range j).mp (by simp [hs]); simp [this]
        · simp only [upd_other _ _ _ _ hj]; exact hi.st_range j
      · intro j; by_cases hj : j = i
        · subst hj; simp only [upd_same]
          have := hi.st_fresh j; rw [hs] at this; simpa using this
        · simp only [upd_other _ _ _ _ hj]; exact hi.st_fresh j
      · intro j; by_cases hj : j = i
        · subst hj; simp
        · simp only [upd_other _ _ _ _ hj, List.mem_append, List.mem_singleton, hj, or_false]; exact hi.st_queued j
      · intro j; by_cases hj : j = i
        · subst hj; simp
        · simp only [upd_other _ _ _ _ hj]; exact hi.no_failed.2 j
  | startersDone =>
    obtain ⟨⟨hg, hw⟩, rfl⟩ := step_startersDone hf2 h
    have hrr : s.runReturned = false := by
      cases hc : s.runReturned with
      | false => rfl
      | true => have := hi.rr_ph.mp hc; simp [hg] at this
    exact { hi with idle_next := by simp, closed_ph := by simp, closed_wg := fun _ => hw, rr_ph := by simp [hrr],
                    full := fun _ hc => hi.full (by simp [hg]) hc, done_snap := by simp }
  | membersDone =>
    obtain ⟨⟨hg, hall⟩, rfl⟩ := step_membersDone hf1 h
    have hcl : s.closed = true := hi.closed_ph.mpr (Or.inl hg)
    exact { hi with idle_next := by simp, closed_ph := by simp [hcl], rr_ph := by simp,
                    rr_fin := fun _ => (allFinished_iff s).mp hall,
                    full := fun _ hc => hi.full (by simp [hg]) hc, done_snap := by simp }
  | cleanupDone =>
    obtain ⟨⟨hg, hall, _⟩, rfl⟩ := step_cleanupDone h
    have hcl : s.closed = true := hi.closed_ph.mpr (Or.inr (Or.inl hg))
    have hrr : s.runReturned = true := hi.rr_ph.mpr (Or.inl hg)
    exact { hi with idle_next := by simp, closed_ph := by simp [hcl], rr_ph := by simp [hrr],
                    full := fun _ hc => hi.full (by simp [hg]) hc,
                    done_snap := fun _ j hj => by simp [(allFinished_iff s).mp hall j hj] }
  | svcReturn i =>
    obtain ⟨⟨hr, _, _⟩, rfl⟩ := step_svcReturn h
    have hne : s.runs i ≠ 0 := fun h0 => by rw [(hi.runs_zero i).mp h0] at hr; cases hr
    have hlive : s.runReturned = false := hi.running_live i hr
    refine { hi with runs_zero := ?_, st_fresh := ?_, rr_fin := ?_, saw := ?_ }
    · intro j; by_cases hj : j = i
      · subst hj; simp [hne]
      · simpa [hj] using hi.runs_zero j
    · intro j; by_cases hj : j = i
      · subst hj; simp only [upd_same]
        have := hi.st_fresh j; rw [hr] at this; simpa using this
      · simpa [hj] using hi.st_fresh j
    · intro hrr; rw [hlive] at hrr; cases hrr
    · intro j; by_cases hj : j = i
      · subst hj; simp [St.memberCtxEnded, hlive]
      · simpa [hj] using hi.saw j

theorem reachable_inv {c : Cfg} (hf1 : c.legacyRun = false) (hf2 : c.legacyStarters = false) {s : St}
    (h : Reachable c s) : Inv c s := by
  obtain ⟨acts, h⟩ := h
  suffices ∀ (acts : List Act) (s0 : St), Inv c s0 → run c s0 acts = some s → Inv c s from this acts init (inv_init c) h
  intro acts
  induction acts with
  | nil => intro s0 h0 hr; simp [run] at hr; subst hr; exact h0
  | cons a as ih =>
    intro s0 h0 hr
    simp only [run, List.foldlM_cons, Option.bind_eq_bind] at hr
    cases hs : step c s0 a with
    | none => simp [hs] at hr
    | some s1 => rw [hs] at hr; exact ih s1 (inv_step hf1 hf2 h0 hs) hr

end FunModel.Orch.Grp
