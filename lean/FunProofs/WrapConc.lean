import FunModel.WrapConc

/-! Invariants of the small-step wrapper machines (C15). -/
namespace FunModel.WrapConc
open FunModel.Wrap

theorem Machine.run_cons (m : Machine) (s : m.S) (a : m.A) (as : List m.A) :
    m.run s (a :: as) = (m.step s a).bind (fun s' => m.run s' as) := by
  simp [Machine.run, List.foldlM_cons]

/-- an inductive invariant holds in every reachable state -/
theorem Machine.inv_of_reachable (m : Machine) (P : m.S → Prop)
    (hstep : ∀ s a s', P s → m.step s a = some s' → P s') :
    ∀ (as : List m.A) (s0 s : m.S), P s0 → m.run s0 as = some s → P s := by
  intro as
  induction as with
  | nil => intro s0 s h0 h; simp [Machine.run] at h; exact h ▸ h0
  | cons a as ih =>
    intro s0 s h0 h
    rw [Machine.run_cons] at h
    cases hs : m.step s0 a with
    | none => simp [hs] at h
    | some s1 => simp [hs] at h; exact ih s1 s (hstep s0 a s1 h0 hs) h

theorem Machine.inv_reachable (m : Machine) (P : m.S → Prop) (s0 : m.S) (h0 : P s0)
    (hstep : ∀ s a s', P s → m.step s a = some s' → P s') : ∀ s, m.Reachable s0 s → P s := by
  intro s ⟨as, h⟩
  exact Machine.inv_of_reachable m P hstep as s0 s h0 h

/-! ## sync.Once wrappers -/

/-- what every caller of the Once-wrapped function is to observe, given what the execution produced -/
def onceExpected (k : Kind) (r : Res) : Res :=
  match r with
  | .ret v e => k.cache (.ret v e)
  | .panic _ => .zero

/-- what the single execution produces: the first outcome of the script -/
def firstOutcome (k : Kind) (script : List Step) : Res := k.proj (popStep script).1.res

/-- the reachable states of the Once machine, phase by phase: nobody admitted yet / the first caller
    is inside the function / it has returned and stored the result (Do not yet exited) / it has
    panicked (Do not yet unwound) / the Once has fired -/
def OnceInv (k : Kind) (callers : Nat) (script : List Step) (s : OnceS) : Prop :=
  s.k = k ∧
  s.rets.length + s.idle + s.blocked + s.after + (if s.runner = .none then 0 else 1) = callers ∧
  ((s.started = false ∧ s.runner = .none ∧ s.fired = false ∧ s.execs = 0 ∧ s.finished = 0 ∧ s.blocked = 0 ∧
      s.after = 0 ∧ s.rets = [] ∧ s.script = script ∧ s.cache = .zero)
   ∨ (s.started = true ∧ s.runner = .inFn ∧ s.fired = false ∧ s.execs = 1 ∧ s.finished = 0 ∧ s.after = 0 ∧
      s.rets = [] ∧ s.script = script ∧ s.cache = .zero)
   ∨ (∃ v e, s.started = true ∧ s.runner = .assigned ∧ s.fired = false ∧ s.execs = 1 ∧ s.finished = 1 ∧ s.after = 0 ∧
      s.rets = [] ∧ firstOutcome k script = .ret v e ∧ s.cache = k.cache (.ret v e))
   ∨ (∃ p, s.started = true ∧ s.runner = .panicking p ∧ s.fired = false ∧ s.execs = 1 ∧ s.finished = 1 ∧ s.after = 0 ∧
      s.rets = [] ∧ firstOutcome k script = .panic p ∧ s.cache = .zero)
   ∨ (s.started = true ∧ s.runner = .none ∧ s.fired = true ∧ s.execs = 1 ∧ s.finished = 1 ∧
      s.cache = onceExpected k (firstOutcome k script) ∧
      ∀ r ∈ s.rets, r.fin = 1 ∧ (r.res = onceExpected k (firstOutcome k script) ∨
        ∃ p, firstOutcome k script = .panic p ∧ r.res = .panic p)))

theorem onceInv_init (k : Kind) (callers : Nat) (script : List Step) : OnceInv k callers script (onceInit k callers script) := by
  simp [OnceInv, onceInit]

theorem onceInv_step (k : Kind) (callers : Nat) (script : List Step) (s : OnceS) (a : OnceA) (s' : OnceS)
    (h : OnceInv k callers script s) (hs : onceStep s a = some s') : OnceInv k callers script s' := by
  obtain ⟨hk, hc, h0 | h1 | ⟨v, e, h2⟩ | ⟨p, h3⟩ | h4⟩ := h
  · -- nobody admitted
    obtain ⟨hst, hru, hfi, hex, hfn, hbl, haf, hre, hsc, hca⟩ := h0
    cases a with
    | enter =>
      by_cases hi : s.idle = 0
      · simp [onceStep, hi] at hs
      · simp [onceStep, hi, hfi, hst] at hs
        subst hs
        refine ⟨hk, ?_, Or.inr (Or.inl ?_)⟩
        · simp [hru] at hc ⊢; omega
        · simp [hfi, hex, hfn, haf, hre, hsc, hca]
    | fnEnd => simp [onceStep, hru] at hs
    | exit => simp [onceStep, hru] at hs
    | wake => simp [onceStep, hfi] at hs
    | ret => simp [onceStep, haf] at hs
  · -- the first caller is inside the function
    obtain ⟨hst, hru, hfi, hex, hfn, haf, hre, hsc, hca⟩ := h1
    cases a with
    | enter =>
      by_cases hi : s.idle = 0
      · simp [onceStep, hi] at hs
      · simp [onceStep, hi, hfi, hst] at hs
        subst hs
        refine ⟨hk, ?_, Or.inr (Or.inl ?_)⟩
        · simp [hru] at hc ⊢; omega
        · simp [hst, hru, hfi, hex, hfn, haf, hre, hsc, hca]
    | fnEnd =>
      rcases hp : popStep s.script with ⟨st, rest⟩
      have hfo : firstOutcome k script = s.k.proj st.res := by simp [firstOutcome, ← hsc, hp, hk]
      cases hr : s.k.proj st.res with
      | panic p =>
        simp [onceStep, hru, hp, hr] at hs
        subst hs
        refine ⟨hk, ?_, Or.inr (Or.inr (Or.inr (Or.inl ⟨p, ?_⟩)))⟩
        · simp [hru] at hc ⊢; omega
        · simp [hst, hfi, hex, hfn, haf, hre, hca, hfo, hr]
      | ret v e =>
        simp [onceStep, hru, hp, hr] at hs
        subst hs
        refine ⟨hk, ?_, Or.inr (Or.inr (Or.inl ⟨v, e, ?_⟩))⟩
        · simp [hru] at hc ⊢; omega
        · subst hk; simp [hst, hfi, hex, hfn, haf, hre, hfo, hr]
    | exit => simp [onceStep, hru] at hs
    | wake => simp [onceStep, hfi] at hs
    | ret => simp [onceStep, haf] at hs
  · -- the function returned, Do has not
    obtain ⟨hst, hru, hfi, hex, hfn, haf, hre, hfo, hca⟩ := h2
    cases a with
    | enter =>
      by_cases hi : s.idle = 0
      · simp [onceStep, hi] at hs
      · simp [onceStep, hi, hfi, hst] at hs
        subst hs
        refine ⟨hk, ?_, Or.inr (Or.inr (Or.inl ⟨v, e, ?_⟩))⟩
        · simp [hru] at hc ⊢; omega
        · simp [hst, hru, hfi, hex, hfn, haf, hre, hfo, hca]
    | fnEnd => simp [onceStep, hru] at hs
    | exit =>
      simp [onceStep, hru] at hs
      subst hs
      refine ⟨hk, ?_, Or.inr (Or.inr (Or.inr (Or.inr ?_)))⟩
      · simp [hru] at hc ⊢; omega
      · simp [hst, hex, hfn, hre, hfo, hca, onceExpected]
    | wake => simp [onceStep, hfi] at hs
    | ret => simp [onceStep, haf] at hs
  · -- the function panicked, Do has not unwound
    obtain ⟨hst, hru, hfi, hex, hfn, haf, hre, hfo, hca⟩ := h3
    cases a with
    | enter =>
      by_cases hi : s.idle = 0
      · simp [onceStep, hi] at hs
      · simp [onceStep, hi, hfi, hst] at hs
        subst hs
        refine ⟨hk, ?_, Or.inr (Or.inr (Or.inr (Or.inl ⟨p, ?_⟩)))⟩
        · simp [hru] at hc ⊢; omega
        · simp [hst, hru, hfi, hex, hfn, haf, hre, hfo, hca]
    | fnEnd => simp [onceStep, hru] at hs
    | exit =>
      simp [onceStep, hru] at hs
      subst hs
      refine ⟨hk, ?_, Or.inr (Or.inr (Or.inr (Or.inr ?_)))⟩
      · simp [hru, hre] at hc ⊢; omega
      · simp [hst, hex, hfn, hre, hfo, hca, onceExpected]
    | wake => simp [onceStep, hfi] at hs
    | ret => simp [onceStep, haf] at hs
  · -- the Once has fired
    obtain ⟨hst, hru, hfi, hex, hfn, hca, hre⟩ := h4
    cases a with
    | enter =>
      by_cases hi : s.idle = 0
      · simp [onceStep, hi] at hs
      · simp [onceStep, hi, hfi] at hs
        subst hs
        refine ⟨hk, ?_, Or.inr (Or.inr (Or.inr (Or.inr ?_)))⟩
        · simp [hru] at hc ⊢; omega
        · exact ⟨hst, hru, rfl, hex, hfn, hca, hre⟩
    | fnEnd => simp [onceStep, hru] at hs
    | exit => simp [onceStep, hru] at hs
    | wake =>
      by_cases hb : s.blocked > 0
      · simp [onceStep, hb, hfi] at hs
        subst hs
        refine ⟨hk, ?_, Or.inr (Or.inr (Or.inr (Or.inr ?_)))⟩
        · simp [hru] at hc ⊢; omega
        · exact ⟨hst, hru, rfl, hex, hfn, hca, hre⟩
      · simp [onceStep, hb] at hs
    | ret =>
      by_cases ha : s.after > 0
      · simp [onceStep, ha] at hs
        subst hs
        refine ⟨hk, ?_, Or.inr (Or.inr (Or.inr (Or.inr ?_)))⟩
        · simp [hru] at hc ⊢; omega
        · refine ⟨hst, hru, hfi, hex, hfn, hca, ?_⟩
          intro r hr
          simp at hr
          rcases hr with hr | hr
          · subst hr; simp [hfn, hca]
          · exact hre r hr
      · simp [onceStep, ha] at hs

theorem onceInv_reachable (k : Kind) (callers : Nat) (script : List Step) (s : OnceS)
    (h : onceM.Reachable (onceInit k callers script) s) : OnceInv k callers script s :=
  Machine.inv_reachable onceM (OnceInv k callers script) _ (onceInv_init k callers script)
    (fun s a s' hP hs => onceInv_step k callers script s a s' hP hs) s h

/-! ## limitExec -/

/-- executions that have returned but whose counter.Store is still to come -/
def pendStore : Option HPC → Nat
  | some (.assigning _ _) | some (.storing _ _) => 1
  | _ => 0

/-- executions that have returned whose caller has not returned yet -/
def pendOwn : Option HPC → Nat
  | some (.assigning _ _) | some (.storing _ _) | some (.leaving (some _)) => 1
  | _ => 0

def insideFn : Option HPC → Nat
  | some (.inFn _) => 1
  | _ => 0

def pendPanic : Option HPC → Nat
  | some (.panicLeaving _) => 1
  | _ => 0

def holds : Option HPC → Nat
  | some _ => 1
  | none => 0

/-- what the mutex owner knows at each of its program points -/
def holderOK (s : LimS) : Prop :=
  match s.holder with
  | none => True
  | some .locked => True
  | some (.inFn num) => num = s.counter ∧ s.counter < s.n
  | some (.assigning num r) => num = s.counter ∧ s.counter < s.n ∧ s.hist.head? = some r
  | some (.storing num r) => num = s.counter ∧ s.counter < s.n ∧ s.hist.head? = some r ∧ s.output = r
  | some (.leaving (some r)) => s.output = r
  | some (.leaving none) => s.counter = s.n
  | some (.panicLeaving _) => True

/-- a returned caller: one that executed returns its own execution's result; one that did not
    either saw its own execution panic or returned when n executions had completed, and returned
    the result of the latest of them -/
def retOK (s : LimS) (r : LRet) : Prop :=
  (∀ x, r.own = some x → r.res = x) ∧
  (r.own = none → (∃ p, r.res = .panic p) ∨ (r.fin = s.n ∧ s.hist.length = s.n ∧ s.hist.head? = some r.res))

def LimInv (k : Kind) (n callers : Nat) (s : LimS) : Prop :=
  s.k = k ∧ s.n = n ∧
  s.counter ≤ s.n ∧
  s.hist.length = s.finished ∧
  s.finished = s.counter + pendStore s.holder ∧
  (s.fastRead > 0 → s.counter = s.n) ∧
  (s.counter = s.n → s.hist.head? = some s.output) ∧
  holderOK s ∧
  s.execs = s.finished + s.panics + insideFn s.holder ∧
  s.finished = s.retOwn + pendOwn s.holder ∧
  s.panics = s.retPanic + pendPanic s.holder ∧
  (s.retCached > 0 → s.counter = s.n) ∧
  s.rets.length = s.retOwn + s.retCached + s.retPanic ∧
  s.rets.length + s.idle + s.want + s.fastRead + holds s.holder = callers ∧
  ∀ r ∈ s.rets, retOK s r

theorem limInv_init (k : Kind) (n callers : Nat) (script : List Step) (hn : 0 < n) :
    LimInv k n callers (limInit k n callers script) := by
  simp [LimInv, limInit, pendStore, pendOwn, insideFn, pendPanic, holds, holderOK]
  omega

theorem limInv_step (k : Kind) (n callers : Nat) (hn : 0 < n) (s : LimS) (a : LimA) (s' : LimS)
    (h : LimInv k n callers s) (hs : limStep s a = some s') : LimInv k n callers s' := by
  obtain ⟨hk, hnn, hle, hhl, hfc, hfr, hco, hho, hex, hfo, hpa, hrc, hrl, hcnt, hrets⟩ := h
  cases a with
  | fast =>
    by_cases hi : s.idle = 0
    · simp [limStep, hi] at hs
    · by_cases hc : s.counter = s.n
      · simp only [limStep, hi, if_false, eq_true hc, if_true, Option.some.injEq] at hs
        subst hs
        refine ⟨hk, hnn, hle, hhl, hfc, fun _ => hc, hco, hho, hex, hfo, hpa, hrc, hrl, ?_, hrets⟩
        simp only []; omega
      · simp only [limStep, hi, if_false, hc, Option.some.injEq] at hs
        subst hs
        refine ⟨hk, hnn, hle, hhl, hfc, hfr, hco, hho, hex, hfo, hpa, hrc, hrl, ?_, hrets⟩
        simp only []; omega
  | readFast =>
    by_cases hf : s.fastRead = 0
    · simp [limStep, hf] at hs
    · simp only [limStep, hf, if_false, Option.some.injEq] at hs
      subst hs
      have hcn : s.counter = s.n := hfr (by omega)
      have hps : pendStore s.holder = 0 := by
        revert hho; unfold holderOK pendStore
        cases hh : s.holder with
        | none => simp
        | some pc => cases pc <;> simp <;> intros <;> omega
      refine ⟨hk, hnn, hle, hhl, hfc, fun _ => hcn, hco, hho, hex, hfo, hpa, fun _ => hcn, ?_, ?_, ?_⟩
      · simp only [List.length_cons]; omega
      · simp only [List.length_cons]; omega
      · intro r hr
        simp only [List.mem_cons] at hr
        rcases hr with hr | hr
        · subst hr
          refine ⟨by intro x hx; simp at hx, fun _ => Or.inr ⟨?_, ?_, hco hcn⟩⟩
          · simp only []; omega
          · simp only []; omega
        · exact hrets r hr
  | lock =>
    by_cases hw : s.want = 0
    · simp [limStep, hw] at hs
    · cases hh : s.holder with
      | some pc => simp [limStep, hw, hh] at hs
      | none =>
        simp only [limStep, hw, if_false, hh, Option.some.injEq] at hs
        subst hs
        simp only [hh, pendStore, pendOwn, insideFn, pendPanic, holds] at hfc hex hfo hpa hcnt
        refine ⟨hk, hnn, hle, hhl, ?_, hfr, hco, ?_, ?_, ?_, ?_, hrc, hrl, ?_, hrets⟩
        · simp only [pendStore]; omega
        · simp [holderOK]
        · simp only [insideFn]; omega
        · simp only [pendOwn]; omega
        · simp only [pendPanic]; omega
        · simp only [holds]; omega
  | load =>
    cases hh : s.holder with
    | none => simp [limStep, hh] at hs
    | some pc =>
      cases pc with
      | locked =>
        simp only [hh, pendStore, pendOwn, insideFn, pendPanic, holds] at hfc hex hfo hpa hcnt
        by_cases hlt : s.counter < s.n
        · simp only [limStep, hh, hlt, if_true, Option.some.injEq] at hs
          subst hs
          refine ⟨hk, hnn, hle, hhl, ?_, hfr, hco, ?_, ?_, ?_, ?_, hrc, hrl, ?_, hrets⟩
          · simp only [pendStore]; omega
          · simp [holderOK, hlt]
          · simp only [insideFn]; omega
          · simp only [pendOwn]; omega
          · simp only [pendPanic]; omega
          · simp only [holds]; omega
        · simp only [limStep, hh, hlt, if_false, Option.some.injEq] at hs
          subst hs
          refine ⟨hk, hnn, hle, hhl, ?_, hfr, hco, ?_, ?_, ?_, ?_, hrc, hrl, ?_, hrets⟩
          · simp only [pendStore]; omega
          · simp only [holderOK]; omega
          · simp only [insideFn]; omega
          · simp only [pendOwn]; omega
          · simp only [pendPanic]; omega
          · simp only [holds]; omega
      | _ => simp [limStep, hh] at hs
  | fnEnd =>
    cases hh : s.holder with
    | none => simp [limStep, hh] at hs
    | some pc =>
      cases pc with
      | inFn num =>
        simp only [hh, pendStore, pendOwn, insideFn, pendPanic, holds] at hfc hex hfo hpa hcnt
        have ⟨hnum, hlt⟩ : num = s.counter ∧ s.counter < s.n := by simpa [holderOK, hh] using hho
        rcases hp : popStep s.script with ⟨st, rest⟩
        cases hr : s.k.proj st.res with
        | panic p =>
          simp only [limStep, hh, hp, hr, Option.some.injEq] at hs
          subst hs
          refine ⟨hk, hnn, hle, hhl, ?_, hfr, hco, ?_, ?_, ?_, ?_, hrc, hrl, ?_, hrets⟩
          · simp only [pendStore]; omega
          · simp [holderOK]
          · simp only [insideFn]; omega
          · simp only [pendOwn]; omega
          · simp only [pendPanic]; omega
          · simp only [holds]; omega
        | ret v e =>
          simp only [limStep, hh, hp, hr, Option.some.injEq] at hs
          subst hs
          refine ⟨hk, hnn, hle, ?_, ?_, hfr, ?_, ?_, ?_, ?_, ?_, hrc, hrl, ?_, ?_⟩
          · simp only [List.length_cons]; omega
          · simp only [pendStore]; omega
          · intro hcn; simp only [] at hcn; omega
          · simp [holderOK, hnum, hlt]
          · simp only [insideFn]; omega
          · simp only [pendOwn]; omega
          · simp only [pendPanic]; omega
          · simp only [holds]; omega
          · intro r hr'
            obtain ⟨h1, h2⟩ := hrets r hr'
            refine ⟨h1, fun hn' => ?_⟩
            rcases h2 hn' with hpn | ⟨_, hl, _⟩
            · exact Or.inl hpn
            · exfalso; omega
      | _ => simp [limStep, hh] at hs
  | assign =>
    cases hh : s.holder with
    | none => simp [limStep, hh] at hs
    | some pc =>
      cases pc with
      | assigning num r =>
        simp only [hh, pendStore, pendOwn, insideFn, pendPanic, holds] at hfc hex hfo hpa hcnt
        have ⟨hnum, hlt, hhd⟩ : num = s.counter ∧ s.counter < s.n ∧ s.hist.head? = some r := by
          simpa [holderOK, hh] using hho
        simp only [limStep, hh, Option.some.injEq] at hs
        subst hs
        refine ⟨hk, hnn, hle, hhl, ?_, hfr, ?_, ?_, ?_, ?_, ?_, hrc, hrl, ?_, hrets⟩
        · simp only [pendStore]; omega
        · intro hcn; simp only [] at hcn; omega
        · simp [holderOK, hnum, hlt, hhd]
        · simp only [insideFn]; omega
        · simp only [pendOwn]; omega
        · simp only [pendPanic]; omega
        · simp only [holds]; omega
      | _ => simp [limStep, hh] at hs
  | store =>
    cases hh : s.holder with
    | none => simp [limStep, hh] at hs
    | some pc =>
      cases pc with
      | storing num r =>
        simp only [hh, pendStore, pendOwn, insideFn, pendPanic, holds] at hfc hex hfo hpa hcnt
        have ⟨hnum, hlt, hhd, hout⟩ : num = s.counter ∧ s.counter < s.n ∧ s.hist.head? = some r ∧ s.output = r := by
          simpa [holderOK, hh] using hho
        simp only [limStep, hh, Option.some.injEq] at hs
        subst hs
        have hmin : min s.n (num + 1) = s.counter + 1 := by omega
        refine ⟨hk, hnn, ?_, hhl, ?_, ?_, ?_, ?_, ?_, ?_, ?_, ?_, hrl, ?_, hrets⟩
        · simp only [hmin]; omega
        · simp only [hmin, pendStore]; omega
        · intro hfr'; have := hfr hfr'; omega
        · intro _; simp only [hout]; exact hhd
        · simp [holderOK, hout]
        · simp only [insideFn]; omega
        · simp only [pendOwn]; omega
        · simp only [pendPanic]; omega
        · intro hrc'; have := hrc hrc'; omega
        · simp only [holds]; omega
      | _ => simp [limStep, hh] at hs
  | unlock =>
    cases hh : s.holder with
    | none => simp [limStep, hh] at hs
    | some pc =>
      cases pc with
      | leaving own =>
        simp only [hh, pendStore, pendOwn, insideFn, pendPanic, holds] at hfc hex hfo hpa hcnt
        cases own with
        | some r =>
          have hout : s.output = r := by simpa [holderOK, hh] using hho
          simp only [pendOwn] at hfo
          simp only [limStep, hh, Option.some.injEq] at hs
          subst hs
          refine ⟨hk, hnn, hle, hhl, ?_, hfr, hco, ?_, ?_, ?_, ?_, hrc, ?_, ?_, ?_⟩
          · simp only [pendStore]; omega
          · simp [holderOK]
          · simp only [insideFn]; omega
          · simp only [pendOwn]; omega
          · simp only [pendPanic]; omega
          · simp only [List.length_cons]; omega
          · simp only [List.length_cons, holds]; omega
          · intro x hx
            simp only [List.mem_cons] at hx
            rcases hx with hx | hx
            · subst hx
              exact ⟨by intro y hy; simp at hy; simp [hout, hy], by intro hy; simp at hy⟩
            · exact hrets x hx
        | none =>
          have hcn : s.counter = s.n := by simpa [holderOK, hh] using hho
          simp only [pendOwn] at hfo
          simp only [limStep, hh, Option.some.injEq] at hs
          subst hs
          refine ⟨hk, hnn, hle, hhl, ?_, hfr, hco, ?_, ?_, ?_, ?_, fun _ => hcn, ?_, ?_, ?_⟩
          · simp only [pendStore]; omega
          · simp [holderOK]
          · simp only [insideFn]; omega
          · simp only [pendOwn]; omega
          · simp only [pendPanic]; omega
          · simp only [List.length_cons]; omega
          · simp only [List.length_cons, holds]; omega
          · intro x hx
            simp only [List.mem_cons] at hx
            rcases hx with hx | hx
            · subst hx
              refine ⟨by intro y hy; simp at hy, fun _ => Or.inr ⟨?_, ?_, hco hcn⟩⟩
              · simp only []; omega
              · simp only []; omega
            · exact hrets x hx
      | panicLeaving p =>
        simp only [hh, pendStore, pendOwn, insideFn, pendPanic, holds] at hfc hex hfo hpa hcnt
        simp only [limStep, hh, Option.some.injEq] at hs
        subst hs
        refine ⟨hk, hnn, hle, hhl, ?_, hfr, hco, ?_, ?_, ?_, ?_, hrc, ?_, ?_, ?_⟩
        · simp only [pendStore]; omega
        · simp [holderOK]
        · simp only [insideFn]; omega
        · simp only [pendOwn]; omega
        · simp only [pendPanic]; omega
        · simp only [List.length_cons]; omega
        · simp only [List.length_cons, holds]; omega
        · intro x hx
          simp only [List.mem_cons] at hx
          rcases hx with hx | hx
          · subst hx
            exact ⟨by intro y hy; simp at hy, fun _ => Or.inl ⟨p, rfl⟩⟩
          · exact hrets x hx
      | _ => simp [limStep, hh] at hs

theorem limInv_reachable (k : Kind) (n callers : Nat) (script : List Step) (hn : 0 < n) (s : LimS)
    (h : limM.Reachable (limInit k n callers script) s) : LimInv k n callers s :=
  Machine.inv_reachable limM (LimInv k n callers) _ (limInv_init k n callers script hn)
    (fun s a s' hP hs => limInv_step k n callers hn s a s' hP hs) s h

/-! ## Operation.Limit (CAS loop) -/

def OLInv (n callers : Nat) (s : OLS) : Prop :=
  s.n = n ∧ s.counter ≤ s.n ∧ (∀ c ∈ s.loaded, c < s.n) ∧
  s.execs = s.counter ∧ s.execs = s.inFn + s.finished ∧ s.finished = s.retExec + s.retPanic ∧
  (s.retSkip > 0 → s.counter = s.n) ∧
  s.idle + s.loaded.length + s.inFn + s.retExec + s.retPanic + s.retSkip = callers

theorem olInv_init (n callers : Nat) (script : List Step) : OLInv n callers (olInit n callers script) := by
  simp [OLInv, olInit]

theorem olInv_step (n callers : Nat) (s : OLS) (a : OLA) (s' : OLS)
    (h : OLInv n callers s) (hs : olStep s a = some s') : OLInv n callers s' := by
  obtain ⟨hn, hle, hld, hec, hef, hfr, hsk, hcnt⟩ := h
  cases a with
  | load =>
    by_cases hi : s.idle = 0
    · simp [olStep, hi] at hs
    · by_cases hge : s.counter ≥ s.n
      · simp only [olStep, hi, if_false, hge, if_true, Option.some.injEq] at hs
        subst hs
        exact ⟨hn, hle, hld, hec, hef, hfr, fun _ => by simp only []; omega, by simp only []; omega⟩
      · simp only [olStep, hi, if_false, hge, Option.some.injEq] at hs
        subst hs
        refine ⟨hn, hle, ?_, hec, hef, hfr, hsk, by simp only [List.length_cons]; omega⟩
        intro c hc
        simp only [List.mem_cons] at hc
        rcases hc with hc | hc
        · simp only []; omega
        · exact hld c hc
  | cas i =>
    cases hg : s.loaded[i]? with
    | none => simp [olStep, hg] at hs
    | some cur =>
      have hcur : cur < s.n := hld cur (List.mem_of_getElem? hg)
      have hilt : i < s.loaded.length := by
        rcases Nat.lt_or_ge i s.loaded.length with h | h
        · exact h
        · simp [List.getElem?_eq_none h] at hg
      have hlen : (s.loaded.eraseIdx i).length = s.loaded.length - 1 := by
        simp [List.length_eraseIdx, hilt]
      have hmem : ∀ c ∈ s.loaded.eraseIdx i, c < s.n := fun c hc => hld c (List.mem_of_mem_eraseIdx hc)
      by_cases hc : s.counter = cur
      · simp only [olStep, hg, hc, if_true, Option.some.injEq] at hs
        subst hs
        refine ⟨hn, by simp only []; omega, hmem, by simp only []; omega, by simp only []; omega, hfr, ?_, ?_⟩
        · intro h; have := hsk h; omega
        · simp only [hlen]; omega
      · simp only [olStep, hg, hc, if_false, Option.some.injEq] at hs
        subst hs
        refine ⟨hn, hle, hmem, hec, hef, hfr, hsk, ?_⟩
        simp only [hlen]; omega
  | fnEnd =>
    by_cases hi : s.inFn = 0
    · simp [olStep, hi] at hs
    · rcases hp : popStep s.script with ⟨st, rest⟩
      cases hr : st.res with
      | panic p =>
        simp only [olStep, hi, if_false, hp, hr, Option.some.injEq] at hs
        subst hs
        exact ⟨hn, hle, hld, hec, by simp only []; omega, by simp only []; omega, hsk, by simp only []; omega⟩
      | ret v e =>
        simp only [olStep, hi, if_false, hp, hr, Option.some.injEq] at hs
        subst hs
        exact ⟨hn, hle, hld, hec, by simp only []; omega, by simp only []; omega, hsk, by simp only []; omega⟩

theorem olInv_reachable (n callers : Nat) (script : List Step) (s : OLS)
    (h : olM.Reachable (olInit n callers script) s) : OLInv n callers s :=
  Machine.inv_reachable olM (OLInv n callers) _ (olInv_init n callers script)
    (fun s a s' hP hs => olInv_step n callers s a s' hP hs) s h

/-! ## Lock / WithLock -/

def LkInv (callers : Nat) (s : LkS) : Prop :=
  s.acquired + s.active + s.leaving.length = (if s.locked then 1 else 0) ∧
  s.maxActive ≤ 1 ∧
  s.rets.length + s.idle + s.acquired + s.active + s.leaving.length = callers ∧
  s.execs = s.active + s.leaving.length + s.rets.length

theorem lkInv_init (k : Kind) (callers : Nat) (script : List Step) : LkInv callers (lkInit k callers script) := by
  simp [LkInv, lkInit]

theorem lkInv_step (callers : Nat) (s : LkS) (a : LkA) (s' : LkS)
    (h : LkInv callers s) (hs : lkStep s a = some s') : LkInv callers s' := by
  obtain ⟨hl, hm, hc, he⟩ := h
  cases a with
  | lock =>
    by_cases hi : s.idle = 0 ∨ s.locked = true
    · simp [lkStep, hi] at hs
    · have hlk : s.locked = false := by
        cases h : s.locked with
        | false => rfl
        | true => exact absurd (Or.inr h) hi
      simp only [lkStep, hi, if_false, Option.some.injEq] at hs
      subst hs
      have hl' : s.acquired + s.active + s.leaving.length = 0 := by simpa [hlk] using hl
      refine ⟨by simp only [if_true]; omega, hm, by simp only []; omega, he⟩
  | begin =>
    by_cases ha : s.acquired = 0
    · simp [lkStep, ha] at hs
    · simp only [lkStep, ha, if_false, Option.some.injEq] at hs
      subst hs
      have : s.locked = true := by
        cases h : s.locked with
        | true => rfl
        | false => simp [h] at hl; omega
      simp only [this, if_true] at hl
      refine ⟨by simp only [this, if_true]; omega, by simp only []; omega, by simp only []; omega, by simp only []; omega⟩
  | fnEnd =>
    by_cases ha : s.active = 0
    · simp [lkStep, ha] at hs
    · rcases hp : popStep s.script with ⟨st, rest⟩
      simp only [lkStep, ha, if_false, hp, Option.some.injEq] at hs
      subst hs
      refine ⟨by simp only [List.length_cons]; omega, hm, by simp only [List.length_cons]; omega,
        by simp only [List.length_cons]; omega⟩
  | unlock =>
    cases hlv : s.leaving with
    | nil => simp [lkStep, hlv] at hs
    | cons r rest =>
      simp only [lkStep, hlv, Option.some.injEq] at hs
      subst hs
      simp only [hlv, List.length_cons] at hl hc he
      have : s.locked = true := by
        cases h : s.locked with
        | true => rfl
        | false => simp [h] at hl
      simp only [this, if_true] at hl
      refine ⟨by simp only [Bool.false_eq_true, if_false]; omega, hm, by simp only [List.length_cons]; omega,
        by simp only [List.length_cons]; omega⟩

theorem lkInv_reachable (k : Kind) (callers : Nat) (script : List Step) (s : LkS)
    (h : lkM.Reachable (lkInit k callers script) s) : LkInv callers s :=
  Machine.inv_reachable lkM (LkInv callers) _ (lkInv_init k callers script)
    (fun s a s' hP hs => lkInv_step callers s a s' hP hs) s h

/-! ## Signal / Launch / Background -/

def BgInv (s : BgS) : Prop := s.dropsWait = false → ∀ r ∈ s.rets, r.done = true

theorem bgInv_step (s : BgS) (a : BgA) (s' : BgS) (h : BgInv s) (hs : bgStep s a = some s') : BgInv s' := by
  cases a with
  | begin =>
    by_cases hb : s.bg = .spawned
    · simp only [bgStep, hb, if_true, Option.some.injEq] at hs; subst hs; exact h
    · simp [bgStep, hb] at hs
  | fnEnd =>
    by_cases hb : s.bg = .inFn
    · rcases hp : popStep s.script with ⟨st, rest⟩
      cases hr : st.res with
      | panic p => simp [bgStep, hb, hp, hr] at hs
      | ret v e => simp only [bgStep, hb, if_true, hp, hr, Option.some.injEq] at hs; subst hs; exact h
    · simp [bgStep, hb] at hs
  | send =>
    cases hb : s.bg with
    | fnDone e =>
      by_cases hw : s.worker = true ∧ s.waiting > 0
      · simp only [bgStep, hb, hw, and_self, if_true, Option.some.injEq] at hs
        subst hs
        intro hd r hr
        simp only [List.mem_cons] at hr
        rcases hr with hr | hr
        · subst hr; rfl
        · exact h hd r hr
      · simp [bgStep, hb, hw] at hs
    | _ => simp [bgStep, hb] at hs
  | close =>
    cases hb : s.bg with
    | fnDone e =>
      by_cases hw : s.worker = true
      · simp [bgStep, hb, hw] at hs
      · simp [bgStep, hb, hw] at hs; subst hs; exact h
    | sent => simp only [bgStep, hb, Option.some.injEq] at hs; subst hs; exact h
    | _ => simp [bgStep, hb] at hs
  | waitRet =>
    by_cases hw : s.waiting = 0
    · simp [bgStep, hw] at hs
    · by_cases hc : s.bg = .closed ∨ s.dropsWait = true
      · simp only [bgStep, hw, if_false, hc, if_true, Option.some.injEq] at hs
        subst hs
        intro hd r hr
        simp only at hd
        simp only [List.mem_cons] at hr
        rcases hr with hr | hr
        · subst hr
          rcases hc with hc | hc
          · simp [BgS.fnFinished, hc]
          · simp [hd] at hc
        · exact h hd r hr
      · simp [bgStep, hw, hc] at hs

theorem bgInv_reachable (worker : Bool) (waiters : Nat) (script : List Step) (s : BgS)
    (h : bgM.Reachable (bgInit worker false waiters script) s) : ∀ r ∈ s.rets, r.done = true := by
  have hinv : BgInv s ∧ s.dropsWait = false := by
    refine Machine.inv_reachable bgM (fun s => BgInv s ∧ s.dropsWait = false) _ ?_ ?_ s h
    · simp [BgInv, bgInit]
    · intro s a s' ⟨hP, hd⟩ hs
      refine ⟨bgInv_step s a s' hP hs, ?_⟩
      have hs' : bgStep s a = some s' := hs
      cases a <;> simp only [bgStep] at hs' <;> (repeat' split at hs') <;>
        first | (cases hs'; exact hd) | (simp at hs')
  exact hinv.1 hinv.2

/-! ## StartGroup -/

def SgInv (s : SgS) : Prop :=
  s.counter = s.spawned + s.inFn + s.fnDone ∧ s.finished + s.spawned + s.inFn = s.n ∧ ∀ r ∈ s.rets, r.fin = s.n

theorem sgInv_step (s : SgS) (a : SgA) (s' : SgS) (h : SgInv s) (hs : sgStep s a = some s') : SgInv s' := by
  obtain ⟨h1, h2, h3⟩ := h
  cases a with
  | begin =>
    by_cases hz : s.spawned = 0
    · simp [sgStep, hz] at hs
    · simp only [sgStep, hz, if_false, Option.some.injEq] at hs; subst hs
      exact ⟨by simp only []; omega, by simp only []; omega, h3⟩
  | fnEnd =>
    by_cases hz : s.inFn = 0
    · simp [sgStep, hz] at hs
    · rcases hp : popStep s.script with ⟨st, rest⟩
      cases hr : st.res with
      | panic p => simp [sgStep, hz, hp, hr] at hs
      | ret v e =>
        simp only [sgStep, hz, if_false, hp, hr, Option.some.injEq] at hs; subst hs
        exact ⟨by simp only []; omega, by simp only []; omega, h3⟩
  | done =>
    by_cases hz : s.fnDone = 0 ∨ s.counter = 0
    · simp [sgStep, hz] at hs
    · simp only [sgStep, hz, if_false, Option.some.injEq] at hs; subst hs
      exact ⟨by simp only []; omega, h2, h3⟩
  | waitRet =>
    by_cases hz : s.waiting = 0 ∨ s.counter ≠ 0
    · simp [sgStep, hz] at hs
    · simp only [sgStep, hz, if_false, Option.some.injEq] at hs; subst hs
      refine ⟨h1, h2, ?_⟩
      intro r hr
      simp only [List.mem_cons] at hr
      rcases hr with hr | hr
      · subst hr; simp only []; omega
      · exact h3 r hr

theorem sgInv_reachable (n waiters : Nat) (script : List Step) (s : SgS)
    (h : sgM.Reachable (sgInit n waiters script) s) : SgInv s :=
  Machine.inv_reachable sgM SgInv _ (by simp [SgInv, sgInit]) (fun s a s' hP hs => sgInv_step s a s' hP hs) s h

/-! ## extra invariants behind the outcome predicates -/

/-- limitExec: the cached output is never a panic, and the panicking returns are counted by `retPanic` -/
def LimInv2 (s : LimS) : Prop :=
  isPanicB s.output = false ∧
  (match s.holder with
   | some (.assigning _ r) => isPanicB r = false
   | some (.storing _ r) => isPanicB r = false
   | _ => True) ∧
  (s.rets.filter (fun r => isPanicB r.res)).length = s.retPanic

theorem limInv2_step (s : LimS) (a : LimA) (s' : LimS) (h : LimInv2 s) (hs : limStep s a = some s') : LimInv2 s' := by
  obtain ⟨h1, h2, h3⟩ := h
  cases a with
  | fast =>
    simp only [limStep] at hs
    split at hs
    · cases hs
    · split at hs <;> (cases hs; exact ⟨h1, h2, h3⟩)
  | readFast =>
    simp only [limStep] at hs
    split at hs
    · cases hs
    · cases hs; exact ⟨h1, h2, by simp [List.filter_cons, h1, h3]⟩
  | lock =>
    simp only [limStep] at hs
    split at hs
    · cases hs
    · cases hh : s.holder with
      | none => simp only [hh, Option.some.injEq] at hs; subst hs; exact ⟨h1, trivial, h3⟩
      | some pc => simp [hh] at hs
  | load =>
    cases hh : s.holder with
    | none => simp [limStep, hh] at hs
    | some pc =>
      cases pc with
      | locked =>
        simp only [limStep, hh] at hs
        split at hs <;> (cases hs; exact ⟨h1, trivial, h3⟩)
      | _ => simp [limStep, hh] at hs
  | fnEnd =>
    cases hh : s.holder with
    | none => simp [limStep, hh] at hs
    | some pc =>
      cases pc with
      | inFn num =>
        rcases hp : popStep s.script with ⟨st, rest⟩
        cases hr : s.k.proj st.res with
        | panic p => simp only [limStep, hh, hp, hr, Option.some.injEq] at hs; subst hs; exact ⟨h1, trivial, h3⟩
        | ret v e =>
          simp only [limStep, hh, hp, hr, Option.some.injEq] at hs; subst hs
          exact ⟨h1, by simp [isPanicB], h3⟩
      | _ => simp [limStep, hh] at hs
  | assign =>
    cases hh : s.holder with
    | none => simp [limStep, hh] at hs
    | some pc =>
      cases pc with
      | assigning num r =>
        simp only [hh] at h2
        simp only [limStep, hh, Option.some.injEq] at hs; subst hs
        exact ⟨h2, h2, h3⟩
      | _ => simp [limStep, hh] at hs
  | store =>
    cases hh : s.holder with
    | none => simp [limStep, hh] at hs
    | some pc =>
      cases pc with
      | storing num r =>
        simp only [limStep, hh, Option.some.injEq] at hs; subst hs
        exact ⟨h1, trivial, h3⟩
      | _ => simp [limStep, hh] at hs
  | unlock =>
    cases hh : s.holder with
    | none => simp [limStep, hh] at hs
    | some pc =>
      cases pc with
      | leaving own =>
        cases own with
        | some r =>
          simp only [limStep, hh, Option.some.injEq] at hs; subst hs
          exact ⟨h1, trivial, by simp [List.filter_cons, h1, h3]⟩
        | none =>
          simp only [limStep, hh, Option.some.injEq] at hs; subst hs
          exact ⟨h1, trivial, by simp [List.filter_cons, h1, h3]⟩
      | panicLeaving p =>
        simp only [limStep, hh, Option.some.injEq] at hs; subst hs
        exact ⟨h1, trivial, by
          have : isPanicB (Res.panic p) = true := rfl
          simp only [List.filter_cons, this, if_true, List.length_cons, h3]⟩
      | _ => simp [limStep, hh] at hs

theorem limInv2_reachable (k : Kind) (n callers : Nat) (script : List Step) (s : LimS)
    (h : limM.Reachable (limInit k n callers script) s) : LimInv2 s :=
  Machine.inv_reachable limM LimInv2 _ (by simp [LimInv2, limInit, isPanicB, Res.zero])
    (fun s a s' hP hs => limInv2_step s a s' hP hs) s h

/-- Signal/Launch: while the background function has not returned no waiter has returned -/
def BgInv2 (s : BgS) : Prop := s.dropsWait = false ∧ (s.fnFinished = false → s.rets = [])

theorem bgInv2_step (s : BgS) (a : BgA) (s' : BgS) (h : BgInv2 s) (hs : bgStep s a = some s') : BgInv2 s' := by
  obtain ⟨hd, h1⟩ := h
  cases a with
  | begin =>
    by_cases hb : s.bg = .spawned
    · simp only [bgStep, hb, if_true, Option.some.injEq] at hs; subst hs
      exact ⟨hd, fun _ => h1 (by simp [BgS.fnFinished, hb])⟩
    · simp [bgStep, hb] at hs
  | fnEnd =>
    by_cases hb : s.bg = .inFn
    · rcases hp : popStep s.script with ⟨st, rest⟩
      cases hr : st.res with
      | panic p => simp [bgStep, hb, hp, hr] at hs
      | ret v e =>
        simp only [bgStep, hb, if_true, hp, hr, Option.some.injEq] at hs; subst hs
        exact ⟨hd, fun hf => by simp [BgS.fnFinished] at hf⟩
    · simp [bgStep, hb] at hs
  | send =>
    cases hb : s.bg with
    | fnDone e =>
      by_cases hw : s.worker = true ∧ s.waiting > 0
      · simp only [bgStep, hb, hw, and_self, if_true, Option.some.injEq] at hs; subst hs
        exact ⟨hd, fun hf => by simp [BgS.fnFinished] at hf⟩
      · simp [bgStep, hb, hw] at hs
    | _ => simp [bgStep, hb] at hs
  | close =>
    cases hb : s.bg with
    | fnDone e =>
      by_cases hw : s.worker = true
      · simp [bgStep, hb, hw] at hs
      · simp [bgStep, hb, hw] at hs; subst hs
        exact ⟨hd, fun hf => by simp [BgS.fnFinished] at hf⟩
    | sent =>
      simp only [bgStep, hb, Option.some.injEq] at hs; subst hs
      exact ⟨hd, fun hf => by simp [BgS.fnFinished] at hf⟩
    | _ => simp [bgStep, hb] at hs
  | waitRet =>
    by_cases hw : s.waiting = 0
    · simp [bgStep, hw] at hs
    · by_cases hc : s.bg = .closed
      · simp only [bgStep, hw, if_false, hc, true_or, if_true, Option.some.injEq] at hs; subst hs
        exact ⟨hd, fun hf => by simp [BgS.fnFinished, hc] at hf⟩
      · simp [bgStep, hw, hc, hd] at hs

theorem bgInv2_reachable (worker : Bool) (waiters : Nat) (script : List Step) (s : BgS)
    (h : bgM.Reachable (bgInit worker false waiters script) s) : BgInv2 s :=
  Machine.inv_reachable bgM BgInv2 _ (by simp [BgInv2, bgInit])
    (fun s a s' hP hs => bgInv2_step s a s' hP hs) s h

/-- StartGroup: a waiter has returned only if all n executions have finished (and that stays so) -/
def SgInv2 (s : SgS) : Prop :=
  s.counter = s.spawned + s.inFn + s.fnDone ∧ s.finished + s.spawned + s.inFn = s.n ∧ (s.rets ≠ [] → s.finished = s.n)

theorem sgInv2_step (s : SgS) (a : SgA) (s' : SgS) (h : SgInv2 s) (hs : sgStep s a = some s') : SgInv2 s' := by
  obtain ⟨h1, h2, h3⟩ := h
  cases a with
  | begin =>
    by_cases hz : s.spawned = 0
    · simp [sgStep, hz] at hs
    · simp only [sgStep, hz, if_false, Option.some.injEq] at hs; subst hs
      refine ⟨by simp only []; omega, by simp only []; omega, fun hne => ?_⟩
      have := h3 hne; omega
  | fnEnd =>
    by_cases hz : s.inFn = 0
    · simp [sgStep, hz] at hs
    · rcases hp : popStep s.script with ⟨st, rest⟩
      cases hr : st.res with
      | panic p => simp [sgStep, hz, hp, hr] at hs
      | ret v e =>
        simp only [sgStep, hz, if_false, hp, hr, Option.some.injEq] at hs; subst hs
        refine ⟨by simp only []; omega, by simp only []; omega, fun hne => ?_⟩
        have := h3 hne; omega
  | done =>
    by_cases hz : s.fnDone = 0 ∨ s.counter = 0
    · simp [sgStep, hz] at hs
    · simp only [sgStep, hz, if_false, Option.some.injEq] at hs; subst hs
      exact ⟨by simp only []; omega, h2, h3⟩
  | waitRet =>
    by_cases hz : s.waiting = 0 ∨ s.counter ≠ 0
    · simp [sgStep, hz] at hs
    · simp only [sgStep, hz, if_false, Option.some.injEq] at hs; subst hs
      exact ⟨h1, h2, fun _ => by simp only []; omega⟩

theorem sgInv2_reachable (n waiters : Nat) (script : List Step) (s : SgS)
    (h : sgM.Reachable (sgInit n waiters script) s) : SgInv2 s ∧ s.n = n := by
  refine Machine.inv_reachable sgM (fun s => SgInv2 s ∧ s.n = n) _ ⟨by simp [SgInv2, sgInit], rfl⟩ ?_ s h
  intro s a s' ⟨hP, hn⟩ hs
  refine ⟨sgInv2_step s a s' hP hs, ?_⟩
  have hs' : sgStep s a = some s' := hs
  cases a <;> simp only [sgStep] at hs' <;> (repeat' split at hs') <;>
    first | (cases hs'; exact hn) | (simp at hs')

/-! ## Producer.Launch -/

def PlInv (s : PlS) : Prop :=
  s.delivered + (if s.bg = .inFn then 0 else 1) ≤ s.finished ∧ ∀ r ∈ s.rets, r.idx + 1 ≤ r.fin

theorem plInv_step (s : PlS) (a : PlA) (s' : PlS) (h : PlInv s) (hs : plStep s a = some s') : PlInv s' := by
  obtain ⟨h1, h2⟩ := h
  cases a with
  | fnEnd =>
    by_cases hb : s.bg = .inFn
    · simp only [hb, if_true] at h1
      rcases hp : popStep s.script with ⟨st, rest⟩
      cases hr : st.res with
      | panic p => simp [plStep, hb, hp, hr] at hs
      | ret v e =>
        simp only [plStep, hb, if_true, hp, hr] at hs
        split at hs
        · cases hs; exact ⟨by simp; omega, h2⟩
        · split at hs
          · cases hs; exact ⟨by simp [hb]; omega, h2⟩
          · split at hs <;> (cases hs; exact ⟨by simp; omega, h2⟩)
    · simp [plStep, hb] at hs
  | recv =>
    cases hb : s.bg with
    | sending v =>
      simp only [hb] at h1
      by_cases hw : s.waiting = 0
      · simp [plStep, hb, hw] at hs
      · simp only [plStep, hb, hw, if_false, Option.some.injEq] at hs; subst hs
        refine ⟨by simp at h1 ⊢; omega, ?_⟩
        intro r hr
        simp only [List.mem_cons] at hr
        rcases hr with hr | hr
        · subst hr; simp at h1 ⊢; omega
        · exact h2 r hr
    | _ => simp [plStep, hb] at hs
  | recvClosed =>
    cases hb : s.bg with
    | closed e =>
      simp only [hb] at h1
      by_cases hw : s.waiting = 0
      · simp [plStep, hb, hw] at hs
      · simp only [plStep, hb, hw, if_false, Option.some.injEq] at hs; subst hs
        refine ⟨by simp [hb] at h1 ⊢; omega, ?_⟩
        intro r hr
        simp only [List.mem_cons] at hr
        rcases hr with hr | hr
        · subst hr; simp at h1 ⊢; omega
        · exact h2 r hr
    | _ => simp [plStep, hb] at hs

theorem plInv_reachable (waiters : Nat) (script : List Step) (s : PlS)
    (h : plM.Reachable (plInit waiters script) s) : PlInv s :=
  Machine.inv_reachable plM PlInv _ (by simp [PlInv, plInit]) (fun s a s' hP hs => plInv_step s a s' hP hs) s h

end FunModel.WrapConc
